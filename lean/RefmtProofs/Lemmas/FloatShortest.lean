/-
  What `FloatText.shortestAux` / `FloatText.shortest` return, as far as the text needs it:
  the candidate is `(0, 0)` (fuel exhausted) or lies inside the rounding interval, so its value is at most
  the upper end `hi` of the interval (strictly below when the interval is open).
-/
import RefmtProofs.Lemmas.FloatSyntax
import RefmtProofs.Lemmas.FloatArith
set_option linter.unusedSimpArgs false
set_option linter.unusedVariables false
namespace Refmt.FloatL
open Refmt Refmt.FloatText Refmt.JsonDec Refmt.C03L

/-- the `inside` test of `shortestAux` -/
def insideB (d : SD) (k : Int) (c : Nat) : Bool :=
  let cN := if k ≥ 0 then c * 10 ^ k.toNat else c
  let cD := if k ≥ 0 then 1 else 10 ^ (-k).toNat
  if d.incl then qle d.loN d.den cN cD && qle cN cD d.hiN d.den
  else qlt d.loN d.den cN cD && qlt cN cD d.hiN d.den

def kOf (d : SD) (n : Nat) : Int := d.p + 1 - (n : Int)
def xNOf (d : SD) (n : Nat) : Nat := if kOf d n ≥ 0 then d.vN else d.vN * 10 ^ (-(kOf d n)).toNat
def xDOf (d : SD) (n : Nat) : Nat := if kOf d n ≥ 0 then d.den * 10 ^ (kOf d n).toNat else d.den
def flOf (d : SD) (n : Nat) : Nat := xNOf d n / xDOf d n

theorem shortestAux_succ (d : SD) (fuel n : Nat) : shortestAux d (fuel + 1) n =
    match insideB d (kOf d n) (flOf d n), insideB d (kOf d n) (flOf d n + 1) with
    | false, false => shortestAux d fuel (n + 1)
    | true, false => (flOf d n, kOf d n)
    | false, true => (flOf d n + 1, kOf d n)
    | true, true =>
      if 2 * (xNOf d n % xDOf d n) < xDOf d n then (flOf d n, kOf d n)
      else if 2 * (xNOf d n % xDOf d n) > xDOf d n then (flOf d n + 1, kOf d n)
      else if flOf d n % 2 == 0 then (flOf d n, kOf d n) else (flOf d n + 1, kOf d n) := rfl

/-- the result is the fall-through `(0, 0)` or passed the `inside` test -/
theorem shortestAux_spec (d : SD) : ∀ (fuel n : Nat),
    shortestAux d fuel n = (0, 0) ∨
      insideB d (shortestAux d fuel n).2 (shortestAux d fuel n).1 = true
  | 0, n => Or.inl rfl
  | fuel+1, n => by
    rw [shortestAux_succ]
    split
    · exact shortestAux_spec d fuel (n + 1)
    · rename_i h1 h2; right; exact h1
    · rename_i h1 h2; right; exact h2
    · rename_i h1 h2
      right
      split
      · exact h1
      · split
        · exact h2
        · split
          · exact h1
          · exact h2

/-- inside the interval: at most the upper end (sign-free form of `c * 10^k ≤ hiN / den`) -/
theorem insideB_upper (d : SD) (k : Int) (c : Nat) (h : insideB d k c = true) (a b : Nat) (hab : (a : Int) - b = k) :
    c * 10 ^ a * d.den ≤ d.hiN * 10 ^ b ∧ (d.incl = false → c * 10 ^ a * d.den < d.hiN * 10 ^ b) := by
  unfold insideB at h
  simp only at h
  by_cases hk : k ≥ 0
  · simp only [hk, if_true] at h
    have hle : c * 10 ^ k.toNat * d.den ≤ d.hiN * 1 ∧ (d.incl = false → c * 10 ^ k.toNat * d.den < d.hiN * 1) := by
      cases hi : d.incl <;> simp only [hi, if_true, if_false, Bool.false_eq_true, Bool.and_eq_true, qle, qlt,
        decide_eq_true_eq] at h
      · exact ⟨Nat.le_of_lt h.2, fun _ => h.2⟩
      · exact ⟨h.2, fun hc => by simp at hc⟩
    have e1 : ∀ x, c * 10 ^ x * d.den = (c * d.den) * 10 ^ x := fun x => by ring
    rw [e1] at hle ⊢
    constructor
    · exact scale_le 10 (c * d.den) d.hiN k.toNat 0 a b (by decide) (by omega) (by simpa using hle.1)
    · intro hi
      exact scale_lt 10 (c * d.den) d.hiN k.toNat 0 a b (by decide) (by omega) (by simpa using hle.2 hi)
  · simp only [hk, if_false] at h
    have hle : c * d.den ≤ d.hiN * 10 ^ (-k).toNat ∧ (d.incl = false → c * d.den < d.hiN * 10 ^ (-k).toNat) := by
      cases hi : d.incl <;> simp only [hi, if_true, if_false, Bool.false_eq_true, Bool.and_eq_true, qle, qlt,
        decide_eq_true_eq] at h
      · exact ⟨Nat.le_of_lt h.2, fun _ => h.2⟩
      · exact ⟨h.2, fun hc => by simp at hc⟩
    have e1 : ∀ x, c * 10 ^ x * d.den = (c * d.den) * 10 ^ x := fun x => by ring
    rw [e1]
    constructor
    · exact scale_le 10 (c * d.den) d.hiN 0 (-k).toNat a b (by decide) (by omega) (by simpa using hle.1)
    · intro hi
      exact scale_lt 10 (c * d.den) d.hiN 0 (-k).toNat a b (by decide) (by omega) (by simpa using hle.2 hi)

/-- inside an interval whose lower end is positive: the candidate is not zero -/
theorem insideB_pos (d : SD) (k : Int) (c : Nat) (h : insideB d k c = true) (hlo : 0 < d.loN) : 0 < c := by
  rcases Nat.eq_zero_or_pos c with h0 | h0
  · subst h0
    exfalso
    unfold insideB at h
    simp only [Nat.zero_mul, ite_self] at h
    have hcd : 0 < (if k ≥ 0 then 1 else 10 ^ (-k).toNat) := by
      split
      · decide
      · exact Nat.pow_pos (by decide)
    generalize (if k ≥ 0 then 1 else 10 ^ (-k).toNat) = cD at h hcd
    have hp : 0 < d.loN * cD := Nat.mul_pos hlo hcd
    cases hi : d.incl <;> simp only [hi, if_true, if_false, Bool.false_eq_true, Bool.and_eq_true, qle, qlt,
        decide_eq_true_eq, Nat.zero_mul] at h
    · omega
    · omega
  · exact h0

end Refmt.FloatL

namespace Refmt.FloatL
open Refmt Refmt.FloatText Refmt.JsonDec Refmt.C03L

/-! ### the interval data -/

theorem mkSD_hiN (m : Nat) (e : Int) (bl : Bool) :
    (mkSD m e bl).hiN = (4 * m + 2) * (if e - 2 ≥ 0 then 2 ^ (e - 2).toNat else 1) := rfl
theorem mkSD_loN (m : Nat) (e : Int) (bl : Bool) :
    (mkSD m e bl).loN = (if bl then 4 * m - 1 else 4 * m - 2) * (if e - 2 ≥ 0 then 2 ^ (e - 2).toNat else 1) := rfl
theorem mkSD_den (m : Nat) (e : Int) (bl : Bool) :
    (mkSD m e bl).den = (if e - 2 ≥ 0 then 1 else 2 ^ (-(e - 2)).toNat) := rfl
theorem mkSD_incl (m : Nat) (e : Int) (bl : Bool) : (mkSD m e bl).incl = (m % 2 == 0) := rfl

theorem mkSD_den_pos (m : Nat) (e : Int) (bl : Bool) : 0 < (mkSD m e bl).den := by
  rw [mkSD_den]; split
  · decide
  · exact Nat.pow_pos (by decide)

theorem mkSD_lo_pos (m : Nat) (e : Int) (bl : Bool) (hm : 1 ≤ m) : 0 < (mkSD m e bl).loN := by
  rw [mkSD_loN]
  apply Nat.mul_pos
  · split <;> omega
  · split
    · exact Nat.pow_pos (by decide)
    · decide

/-- the upper end of the interval is at most `(4m+2) * 2^T` when `e - 2 ≤ T` -/
theorem mkSD_hi_le (m : Nat) (e : Int) (bl : Bool) (T : Nat) (he : e - 2 ≤ T) :
    (mkSD m e bl).hiN ≤ (4 * m + 2) * 2 ^ T * (mkSD m e bl).den := by
  rw [mkSD_hiN, mkSD_den]
  by_cases hs : e - 2 ≥ 0
  · simp only [hs, if_true, Nat.mul_one]
    exact Nat.mul_le_mul_left _ (Nat.pow_le_pow_right (by decide) (by omega))
  · simp only [hs, if_false, Nat.mul_one]
    have : 0 < 2 ^ T * 2 ^ (-(e - 2)).toNat := Nat.mul_pos (Nat.pow_pos (by decide)) (Nat.pow_pos (by decide))
    rw [Nat.mul_assoc]
    exact Nat.le_mul_of_pos_right _ this

/-! ### `decompose` of a finite non-zero magnitude -/

theorem decompose_facts (abs : Nat) (h0 : abs ≠ 0) (h63 : abs < 9223372036854775808)
    (hfin : (abs / p52) % 2048 ≠ 2047) :
    1 ≤ (decompose abs).1 ∧ (decompose abs).1 < 9007199254740992 ∧
      (abs / p52 ≤ 1085 → (decompose abs).2 - 2 ≤ 8) ∧ (decompose abs).2 - 2 ≤ 969 := by
  unfold decompose p52 at *
  simp only
  have hq : abs / 4503599627370496 < 2048 := by omega
  have hmod : abs / 4503599627370496 % 2048 = abs / 4503599627370496 := Nat.mod_eq_of_lt hq
  rw [hmod] at hfin ⊢
  by_cases hex : abs / 4503599627370496 = 0
  · simp only [hex, beq_self_eq_true, if_true]
    have : abs % 4503599627370496 = abs := by omega
    omega
  · have : (abs / 4503599627370496 == 0) = false := by simp [hex]
    simp only [this, Bool.false_eq_true, if_false]
    have := Nat.mod_lt abs (show 0 < 4503599627370496 by decide)
    omega

/-! ### stripping trailing zeros -/

theorem strip_spec : ∀ (l : List Nat), ∃ j, l = shortest.strip l ++ List.replicate j 48
  | [] => ⟨0, by simp [shortest.strip]⟩
  | x :: xs => by
    obtain ⟨j, hj⟩ := strip_spec xs
    simp only [shortest.strip]
    split
    · rename_i hnil
      rw [hnil] at hj
      split
      · rename_i hx
        simp only [beq_iff_eq] at hx
        exact ⟨j + 1, by rw [hj, hx]; simp [List.replicate_succ]⟩
      · exact ⟨j, by rw [hj]; simp⟩
    · exact ⟨j, by rw [List.cons_append, ← hj]⟩

theorem strip_head (b : Nat) (r : List Nat) (hb : b ≠ 48) : ∃ r', shortest.strip (b :: r) = b :: r' := by
  simp only [shortest.strip]
  split
  · have : (b == 48) = false := by simp [hb]
    simp [this]
  · exact ⟨_, rfl⟩

/-! ### digit values -/

theorem digitsVal_zeros (l : Bytes) : ∀ j, digitsVal (l ++ List.replicate j 48) = digitsVal l * 10 ^ j
  | 0 => by simp
  | j+1 => by
    rw [List.replicate_succ', ← List.append_assoc, digitsVal_snoc, digitsVal_zeros l j, Nat.pow_succ]
    simp [Nat.mul_assoc]

theorem foldl_digits (b : Bytes) : ∀ (acc : Nat),
    b.foldl (fun acc b => acc * 10 + (b - 48)) acc = acc * 10 ^ b.length + b.foldl (fun acc b => acc * 10 + (b - 48)) 0 := by
  induction b with
  | nil => intro acc; simp
  | cons x xs ih =>
    intro acc
    simp only [List.foldl_cons, List.length_cons, Nat.zero_mul, Nat.zero_add]
    rw [ih (acc * 10 + (x - 48)), ih (x - 48), Nat.pow_succ]
    ring

theorem digitsVal_append (a b : Bytes) : digitsVal (a ++ b) = digitsVal a * 10 ^ b.length + digitsVal b := by
  unfold digitsVal
  rw [List.foldl_append, foldl_digits]

theorem digitsVal_zeros_left (j : Nat) (l : Bytes) : digitsVal (List.replicate j 48 ++ l) = digitsVal l := by
  rw [digitsVal_append]
  have : digitsVal (List.replicate j 48) = 0 := by
    have := digitsVal_zeros [] j
    simpa [digitsVal] using this
  rw [this]; simp

end Refmt.FloatL

namespace Refmt.FloatL
open Refmt Refmt.FloatText Refmt.JsonDec Refmt.C03L

/-! ### the value of the candidate is below the upper end of the interval -/

/-- `2^55 - 2 = 4 * (2^53 - 1) + 2` -/
def KHI : Nat := 36028797018963966

theorem inside_bound (d : SD) (m T : Nat) (hden : 0 < d.den) (hhi : d.hiN ≤ (4 * m + 2) * 2 ^ T * d.den)
    (hincl : d.incl = (m % 2 == 0)) (hm : m < 9007199254740992) (k : Int) (c : Nat)
    (h : insideB d k c = true) (a b : Nat) (hab : (a : Int) - b = k) :
    c * 10 ^ a < KHI * 2 ^ T * 10 ^ b := by
  obtain ⟨h1, h2⟩ := insideB_upper d k c h a b hab
  have hpos : 0 < 2 ^ T * 10 ^ b := Nat.mul_pos (Nat.pow_pos (by decide)) (Nat.pow_pos (by decide))
  have hhi' : d.hiN * 10 ^ b ≤ ((4 * m + 2) * (2 ^ T * 10 ^ b)) * d.den := by
    calc d.hiN * 10 ^ b ≤ ((4 * m + 2) * 2 ^ T * d.den) * 10 ^ b := Nat.mul_le_mul_right _ hhi
      _ = ((4 * m + 2) * (2 ^ T * 10 ^ b)) * d.den := by ring
  rw [Nat.mul_assoc KHI]
  by_cases hev : m % 2 = 0
  · have hle : c * 10 ^ a ≤ (4 * m + 2) * (2 ^ T * 10 ^ b) :=
      Nat.le_of_mul_le_mul_right (Nat.le_trans h1 hhi') hden
    have : 4 * m + 2 < KHI := by unfold KHI; omega
    exact Nat.lt_of_le_of_lt hle (Nat.mul_lt_mul_of_pos_right this hpos)
  · have hi : d.incl = false := by rw [hincl]; simp [hev]
    have hlt : c * 10 ^ a < (4 * m + 2) * (2 ^ T * 10 ^ b) :=
      Nat.lt_of_mul_lt_mul_right (Nat.lt_of_lt_of_le (h2 hi) hhi')
    have : 4 * m + 2 ≤ KHI := by unfold KHI; omega
    exact Nat.lt_of_lt_of_le hlt (Nat.mul_le_mul_right _ this)

/-- the interval data `shortest` builds for a magnitude -/
def sdOf (abs : Nat) : SD := mkSD (decompose abs).1 (decompose abs).2 ((abs % p52 == 0) && (abs / p52 > 1))

theorem shortest_nz (bits : Nat) (h0 : bits % 9223372036854775808 ≠ 0) :
    shortest bits =
      (if (shortest.strip (natDigits (shortestAux (sdOf (bits % 9223372036854775808)) 20 1).1)).isEmpty then [48]
        else shortest.strip (natDigits (shortestAux (sdOf (bits % 9223372036854775808)) 20 1).1),
       ((natDigits (shortestAux (sdOf (bits % 9223372036854775808)) 20 1).1).length : Int) +
         (shortestAux (sdOf (bits % 9223372036854775808)) 20 1).2) := by
  unfold shortest
  have : (bits % 9223372036854775808 == 0) = false := by simp [h0]
  simp only [this, Bool.false_eq_true, if_false]
  rfl

/-- `0` or a digit string with a non-zero leading digit -/
def LeadOk (ds : Bytes) (dp : Int) : Prop := (ds = [48] ∧ dp = 1) ∨ (∃ b r, ds = b :: r ∧ 49 ≤ b ∧ b ≤ 57)

/-- What the text routines need to know about `shortest`: digits, leading digit, and value bounds
    (`value = digitsVal ds * 10^(dp - |ds|)`, compared in the sign-free form). -/
theorem shortest_sem (bits : Nat) (hfin : ((bits % 9223372036854775808) / p52) % 2048 ≠ 2047) :
    Digs (shortest bits).1 ∧ LeadOk (shortest bits).1 (shortest bits).2 ∧
    (∀ a b : Nat, (a : Int) - b = (shortest bits).2 - ((shortest bits).1.length : Int) →
      digitsVal (shortest bits).1 * 10 ^ a < KHI * 2 ^ 969 * 10 ^ b) ∧
    ((bits % 9223372036854775808) / p52 ≤ 1085 →
      ∀ a b : Nat, (a : Int) - b = (shortest bits).2 - ((shortest bits).1.length : Int) →
        digitsVal (shortest bits).1 * 10 ^ a < KHI * 2 ^ 8 * 10 ^ b) := by
  refine ⟨shortest_digits bits, ?_⟩
  have hzero : ∀ (T b : Nat), 0 < KHI * 2 ^ T * 10 ^ b := fun T b =>
    Nat.mul_pos (Nat.mul_pos (by decide) (Nat.pow_pos (by decide))) (Nat.pow_pos (by decide))
  by_cases h0 : bits % 9223372036854775808 = 0
  · have hs : shortest bits = ([48], 1) := by
      unfold shortest; simp [h0]
    rw [hs]
    refine ⟨Or.inl ⟨rfl, rfl⟩, ?_, ?_⟩
    · intro a b _; simpa [digitsVal] using hzero 969 b
    · intro _ a b _; simpa [digitsVal] using hzero 8 b
  · rw [shortest_nz bits h0]
    have h63 : bits % 9223372036854775808 < 9223372036854775808 := Nat.mod_lt _ (by decide)
    generalize bits % 9223372036854775808 = abs at *
    obtain ⟨hm1, hm2, he8, he969⟩ := decompose_facts abs h0 h63 hfin
    have hden : 0 < (sdOf abs).den := mkSD_den_pos _ _ _
    have hlo : 0 < (sdOf abs).loN := mkSD_lo_pos _ _ _ hm1
    have hincl : (sdOf abs).incl = ((decompose abs).1 % 2 == 0) := mkSD_incl _ _ _
    have hhi : ∀ T : Nat, (decompose abs).2 - 2 ≤ T →
        (sdOf abs).hiN ≤ (4 * (decompose abs).1 + 2) * 2 ^ T * (sdOf abs).den := fun T hT => mkSD_hi_le _ _ _ T hT
    have hspec := shortestAux_spec (sdOf abs) 20 1
    generalize shortestAux (sdOf abs) 20 1 = ck at hspec
    obtain ⟨c, k⟩ := ck
    simp only at hspec ⊢
    rcases hspec with hz | hin
    · -- fuel exhausted: the text is "0"
      simp only [Prod.mk.injEq] at hz
      obtain ⟨rfl, rfl⟩ := hz
      have hn0 : natDigits 0 = [48] := natDigits_lt 0 (by decide)
      have hst : shortest.strip [48] = [] := by simp [shortest.strip]
      simp only [hn0, hst, List.isEmpty_nil, if_true, List.length_singleton]
      refine ⟨Or.inl ⟨rfl, by omega⟩, ?_, ?_⟩
      · intro a b _; simpa [digitsVal] using hzero 969 b
      · intro _ a b _; simpa [digitsVal] using hzero 8 b
    · have hc : 0 < c := insideB_pos _ _ _ hin hlo
      obtain ⟨b0, r0, hnd, _, hb0⟩ := natDigits_form c
      rw [if_neg (by omega)] at hb0
      obtain ⟨r', hr'⟩ := strip_head b0 r0 (by omega)
      obtain ⟨j, hj⟩ := strip_spec (natDigits c)
      rw [hnd] at hj ⊢
      rw [hr'] at hj ⊢
      have hval : c = digitsVal (b0 :: r') * 10 ^ j := by
        have := digitsVal_natDigits c
        rw [hnd, hj, digitsVal_zeros] at this
        exact this.symm
      have hlen : ((b0 :: r0).length : Int) = ((b0 :: r').length : Int) + j := by
        rw [hj]; simp; omega
      simp only [List.isEmpty_cons, Bool.false_eq_true, if_false]
      refine ⟨Or.inr ⟨b0, r', rfl, hb0⟩, ?_, ?_⟩
      · intro a b hab
        have hb := inside_bound (sdOf abs) (decompose abs).1 969 hden (hhi 969 (by omega)) hincl hm2 k c hin a (b + j)
          (by rw [hlen] at hab; omega)
        rw [hval, Nat.pow_add] at hb
        apply Nat.lt_of_mul_lt_mul_right (a := 10 ^ j)
        calc digitsVal (b0 :: r') * 10 ^ a * 10 ^ j = digitsVal (b0 :: r') * 10 ^ j * 10 ^ a := by ring
          _ < KHI * 2 ^ 969 * (10 ^ b * 10 ^ j) := hb
          _ = KHI * 2 ^ 969 * 10 ^ b * 10 ^ j := by ring
      · intro hex a b hab
        have hb := inside_bound (sdOf abs) (decompose abs).1 8 hden (hhi 8 (by have := he8 hex; omega)) hincl hm2 k c hin a
          (b + j) (by rw [hlen] at hab; omega)
        rw [hval, Nat.pow_add] at hb
        apply Nat.lt_of_mul_lt_mul_right (a := 10 ^ j)
        calc digitsVal (b0 :: r') * 10 ^ a * 10 ^ j = digitsVal (b0 :: r') * 10 ^ j * 10 ^ a := by ring
          _ < KHI * 2 ^ 8 * (10 ^ b * 10 ^ j) := hb
          _ = KHI * 2 ^ 8 * 10 ^ b * 10 ^ j := by ring

end Refmt.FloatL
