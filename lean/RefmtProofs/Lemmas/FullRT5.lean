-- the round-trip induction over `fullTy`: assembly (see RefmtProofs/Props/C13Full.lean)
import RefmtProofs.Lemmas.FullRT4
set_option linter.unusedSimpArgs false
set_option linter.unusedVariables false
namespace Refmt.Obj
open Refmt Refmt.C13 Refmt.C11 Refmt.C12

variable {ts : Types} {a : Atlas} {trs : Trs} {it : IfaceTys}

theorem rtf_b {f} (hf : f + 1 ≤ 1000) (he : UEnv ts a it) (hz : ZeroStable ts) (htr : TrsEqv trs) (ih : RTF ts a trs it f) :
    ∀ p h id v toks g, p + 1 ≤ 64 → fullTy ts a (p + 1) id = true → (∀ e, ts.get id ≠ .ptr e) → hasTy ts h id v = true → f + 1 ≤ g →
      fullValB ts a trs it g id (pickBare ts a id) v = true →
      marshalBare ts a trs (f+1) id (pickBare ts a id) v = ⟨toks, none⟩ → HeadSpec toks ∧ ∀ F, f + 1 < F → ∀ rest,
      unmBare ts a trs it F id (upickBare ts a id) (zeroVal ts 64 id) (toks ++ rest) =
        .ok (rtFB ts a trs it g id (pickBare ts a id) v) rest toks.length := by
  intro p h id v toks g hp64 hp hnp hv hg hs hm
  cases fullTy_view hp hnp with
  | prim k b hd hn => exact rtf_b_prim h id v toks g hv (Or.inl ⟨k, b, hd⟩) (pick_prim hd hn) hg hm
  | bytes b hd hn => exact rtf_b_prim h id v toks g hv (Or.inr (Or.inl ⟨b, hd⟩)) (pick_bytes hd hn) hg hm
  | byteArr n hd hn => exact rtf_b_prim h id v toks g hv (Or.inr (Or.inr ⟨n, hd⟩)) (pick_byteArr hd hn) hg hm
  | slice e hd hn hpe => exact rtf_b_slice ih p h id e v toks g hp64 hd hn hpe hv hg hs hm
  | arr n e hd hn hpe => exact rtf_b_arr ih p h id n e v toks g hp64 hd hn hpe hv hg hs hm
  | map kt vt bk hd hn hkt hpe => exact rtf_b_map ih p h id kt vt bk v toks g hp64 hd hn hkt hpe hv hg hs hm
  | wild hd hn => exact rtf_b_wild hf he ih h id v toks g hd hn hv hg hs hm
  | struct fds reg ty tag fields hd hent hnames hroutes hfok =>
    exact rtf_b_struct hz ih p h id fds reg ty tag fields v toks g hp64 hd hent hnames hroutes hfok hv hg hs hm
  | transform reg ty tag fn mty hb hent hmp htb hfm =>
    exact rtf_b_transform htr he ih p h id reg ty tag fn mty v toks g hp64 hb hent hmp htb hfm hg hs hm
  | union m reg ty tag members hd hent hnames hmem =>
    exact rtf_b_union ih p h id m reg ty tag members v toks g hp64 hd hent hnames hmem hv hg hs hm

theorem rtf_all (he : UEnv ts a it) (hz : ZeroStable ts) (htr : TrsEqv trs) : ∀ f, f ≤ 1000 → RTF ts a trs it f := by
  intro f
  induction f with
  | zero => intro _; exact rtf_zero ts a trs it
  | succ n ih =>
    intro hf
    have ih := ih (by omega)
    exact ⟨rtf_v hf ih, rtf_b hf he hz htr ih, rtf_l ih, rtf_m ih, rtf_s ih⟩

end Refmt.Obj
