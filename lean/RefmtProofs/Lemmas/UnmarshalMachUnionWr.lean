/-
  Stateful object unmarshaller: `Recurse` seen from the driver, and the same-row wrappers (`Wr`).
-/
import RefmtProofs.Lemmas.UnmarshalMachUnionRows
set_option linter.unusedSimpArgs false
set_option linter.unusedVariables false
namespace Refmt.UMachU
open Refmt Refmt.Obj Refmt.Obj.UM Refmt.UMachL

variable {ts : Types} {a : Atlas} {trs : Trs} {it : IfaceTys}

/-- the current machine's step was a `Recurse`: the driver continues as Reset-then-pump of the child -/
theorem pump_rec {f g R stk c be t rest R' rv rt next}
    (h : stepM ts a trs it f c ⟨R, stk, some c, be⟩ t
      = recurse ts a trs it (g+1) ⟨R', stk, some c, be⟩ t rv rt next) :
    pump ts a trs it (f+1) ⟨R, stk, some c, be⟩ (t :: rest)
      = rtp ts a trs it g g (f+1) R' (c :: stk) be next rt rv (t :: rest) := by
  simp only [pump, ustep, ustepBody, h, recurse, recurseBody, rtp, pump1]
  cases resetM ts a g next rt rv R' with
  | error x => simp
  | ok R1 =>
    simp only []
    cases ustep ts a trs it g ⟨R1, c :: stk, some next, be⟩ t with
    | error x => simp
    | ok res => cases hd : res.done <;> simp [hd]

theorem pump1_rec {f g sf R stk c be t rest R' rv rt next}
    (h : stepM ts a trs it f c ⟨R, stk, some c, be⟩ t
      = recurse ts a trs it (g+1) ⟨R', stk, some c, be⟩ t rv rt next) :
    pump1 ts a trs it (f+1) sf ⟨R, stk, some c, be⟩ (t :: rest)
      = rtp ts a trs it g g sf R' (c :: stk) be next rt rv (t :: rest) := by
  simp only [pump1, ustep, ustepBody, h, recurse, recurseBody, rtp]
  cases resetM ts a g next rt rv R' with
  | error x => simp
  | ok R1 =>
    simp only []
    cases ustep ts a trs it g ⟨R1, c :: stk, some next, be⟩ t with
    | error x => simp
    | ok res => cases hd : res.done <;> cases stk <;> simp [hd]

@[simp] theorem mapDone_id (x : X SRes) : mapDone id x = x := by
  cases x with
  | error e => rfl
  | ok res => cases res with | mk d s => cases d <;> rfl

theorem mapDone_comp (w1 w2 : Val → Val) (x : X SRes) : mapDone w1 (mapDone w2 x) = mapDone (w1 ∘ w2) x := by
  cases x with
  | error e => rfl
  | ok res => cases res with | mk d s => cases d <;> rfl

/-- a `Recurse` reports not-done: wrappers pass it on unchanged -/
theorem mapDone_recurse (w : Val → Val) (g : Nat) (s : UState) (t : Tok) (rv : Val) (rt : Nat) (next : URef) :
    mapDone w (recurse ts a trs it g s t rv rt next) = recurse ts a trs it g s t rv rt next := by
  cases g with
  | zero => simp [recurse, mapDone]
  | succ g =>
    simp only [recurse, recurseBody]
    cases s.step with
    | none => simp [mapDone]
    | some cur =>
      simp only []
      cases resetM ts a g next rt rv s.rows with
      | error x => simp [mapDone]
      | ok R1 =>
        simp only []
        cases ustep ts a trs it g _ t <;> simp [mapDone]

@[simp] theorem mapDoneO_some (x : X SRes) : mapDoneO some x = x := by
  cases x with
  | error e => rfl
  | ok res => cases res with | mk d s => cases d <;> rfl

theorem mapDoneO_recurse (F : Val → Option Val) (g : Nat) (s : UState) (t : Tok) (rv : Val) (rt : Nat) (next : URef) :
    mapDoneO F (recurse ts a trs it g s t rv rt next) = recurse ts a trs it g s t rv rt next := by
  cases g with
  | zero => simp [recurse, mapDoneO]
  | succ g =>
    simp only [recurse, recurseBody]
    cases s.step with
    | none => simp [mapDoneO]
    | some cur =>
      simp only []
      cases resetM ts a g next rt rv s.rows with
      | error x => simp [mapDoneO]
      | ok R1 =>
        simp only []
        cases ustep ts a trs it g _ t <;> simp [mapDoneO]

theorem getLo {lo : List URow} {i : Nat} {r0 : URow} (h : lo[i]? = some r0) (row : URow) (hi : List URow) :
    (lo ++ row :: hi)[i]? = some r0 := by
  have hlt : i < lo.length := by
    rcases Nat.lt_or_ge i lo.length with h1 | h1
    · exact h1
    · rw [List.getElem?_eq_none h1] at h; cases h
  rw [List.getElem?_append_left hlt]; exact h

@[simp] theorem finU_none (x : X SRes) : finU none x = x := by
  cases x with
  | error e => rfl
  | ok res => cases res with | mk dn st => cases dn <;> rfl

theorem finU_some_nd (i : Nat) (x : X SRes) (hx : ∀ v st, x ≠ .ok ⟨some v, st⟩) : finU (some i) x = x := by
  cases x with
  | error e => rfl
  | ok res => cases res with | mk dn st => cases dn with | none => rfl | some v => exact absurd rfl (hx v st)

theorem finU_recurse (un : Option Nat) (g : Nat) (s : UState) (t : Tok) (rv : Val) (rt : Nat) (next : URef) :
    finU un (recurse ts a trs it g s t rv rt next) = recurse ts a trs it g s t rv rt next := by
  cases un with
  | none => exact finU_none _
  | some i =>
    apply finU_some_nd
    intro v st
    cases g with
    | zero => simp [recurse]
    | succ g =>
      simp only [recurse, recurseBody]
      cases s.step with
      | none => simp
      | some cur =>
        simp only []
        cases resetM ts a g next rt rv s.rows with
        | error x => simp
        | ok R1 =>
          simp only []
          cases ustep ts a trs it g _ t <;> simp

theorem Wr.step {c lo row mk F w d un} (h : Wr trs.u c lo row mk F w d un) (hi : List URow) (stk st be) (t : Tok) (f : Nat) :
    stepM ts a trs it (f+d) c ⟨lo ++ row :: hi, stk, st, be⟩ t
      = finU un (mapDone w (mapDoneO F (stepM ts a trs it f ⟨lo.length, mk⟩ ⟨lo ++ row :: hi, stk, st, be⟩ t))) := by
  induction h with
  | refl lo row k => simp
  | @trS lo row k hdl =>
    rw [finU_none, mapDone_id]
    show stepM ts a trs it (f + 1) _ _ t = _
    simp only [stepM, stepBody, getRow, stepTransform, hdl]
    cases stepM ts a trs it f ⟨lo.length, k⟩ ⟨lo ++ row :: hi, stk, st, be⟩ t with
    | error x => rfl
    | ok res =>
      simp only [mapDoneO]
      cases res.done with
      | none => rfl
      | some rv => simp only []; cases trs.u row.transform.trFunc rv <;> rfl
  | @ptrS lo row k mk F w d hm hf _ ih =>
    rw [finU_none] at ih ⊢
    rw [← mapDone_comp, ← ih]
    show stepM ts a trs it (f + d + 1) _ _ t = _
    simp only [stepM, stepBody, getRow, stepPtr, hm, hf]
    cases stepM ts a trs it (f + d) ⟨lo.length, k⟩ ⟨lo ++ row :: hi, stk, st, be⟩ t <;> simp [mapDone]
  | @wildS lo row dl mk F w d hdl _ ih =>
    rw [finU_none] at ih ⊢
    rw [← mapDone_comp, ← ih]
    show stepM ts a trs it (f + d + 1) _ _ t = _
    simp only [stepM, stepBody, getRow, stepWild, hdl, wildFwd]
    cases stepM ts a trs it (f + d) dl ⟨lo ++ row :: hi, stk, st, be⟩ t <;> simp [mapDone] <;> rfl
  | @ptrX lo row i r0 k mk F w d hr hm hf _ ih =>
    rw [finU_none] at ih ⊢
    rw [← mapDone_comp, ← ih]
    show stepM ts a trs it (f + d + 1) _ _ t = _
    simp only [stepM, stepBody, getLo hr, stepPtr, hm, hf]
    cases stepM ts a trs it (f + d) ⟨i, k⟩ ⟨lo ++ row :: hi, stk, st, be⟩ t <;> simp [mapDone]
  | @wildX lo row i r0 dl mk F w d hr hdl _ ih =>
    rw [finU_none] at ih ⊢
    rw [← mapDone_comp, ← ih]
    show stepM ts a trs it (f + d + 1) _ _ t = _
    simp only [stepM, stepBody, getLo hr, stepWild, hdl, wildFwd]
    cases stepM ts a trs it (f + d) dl ⟨lo ++ row :: hi, stk, st, be⟩ t <;> simp [mapDone] <;> rfl
  | @unionS lo row dl mk F w d hph hdl _ ih =>
    rw [finU_none] at ih
    show stepM ts a trs it (f + d + 1) _ _ t = _
    simp only [stepM, stepBody, getRow, stepUnion, hph, hdl, ih]
    generalize mapDone w (mapDoneO F (stepM ts a trs it f ⟨lo.length, mk⟩ ⟨lo ++ row :: hi, stk, st, be⟩ t)) = y
    cases y with
    | error x => rfl
    | ok res => cases res with | mk dn s' => cases dn <;> rfl
  | @unionX lo row i r0 dl mk F w d hr hph hdl _ ih =>
    rw [finU_none] at ih
    show stepM ts a trs it (f + d + 1) _ _ t = _
    simp only [stepM, stepBody, getLo hr, stepUnion, hph, hdl, ih]
    generalize mapDone w (mapDoneO F (stepM ts a trs it f ⟨lo.length, mk⟩ ⟨lo ++ row :: hi, stk, st, be⟩ t)) = y
    cases y with
    | error x => rfl
    | ok res => cases res with | mk dn s' => cases dn <;> rfl
  | @ptrUS lo row mk F w d hm hf _ ih =>
    show stepM ts a trs it (f + d + 1) _ _ t = _
    simp only [stepM, stepBody, getRow, stepPtr, hm, hf, ih]
    generalize mapDone w (mapDoneO F (stepM ts a trs it f ⟨lo.length, mk⟩ ⟨lo ++ row :: hi, stk, st, be⟩ t)) = y
    cases y with
    | error x => rfl
    | ok res => cases res with | mk dn s' => cases dn <;> rfl
  | @ptrUX lo row i r0 mk F w d hr hm hf _ ih =>
    show stepM ts a trs it (f + d + 1) _ _ t = _
    simp only [stepM, stepBody, getLo hr, stepPtr, hm, hf, ih]
    generalize mapDone w (mapDoneO F (stepM ts a trs it f ⟨lo.length, mk⟩ ⟨lo ++ row :: hi, stk, st, be⟩ t)) = y
    cases y with
    | error x => rfl
    | ok res => cases res with | mk dn s' => cases dn <;> rfl

theorem Wr.absorb {c lo row mk F w d un} (h : Wr trs.u c lo row mk F w d un) (hi : List URow) (v : Val) (f : Nat) :
    absorbM ts (f+d) c v (lo ++ row :: hi) = absorbM ts f ⟨lo.length, mk⟩ v (lo ++ row :: hi) := by
  induction h with
  | refl lo row k => simp
  | @trS lo row k hdl =>
    show absorbM ts (f + 1) _ v _ = _
    simp only [absorbM, absorbBody, getRow, hdl]
  | @ptrS lo row k mk F w d hm hf _ ih =>
    rw [← ih]
    show absorbM ts (f + d + 1) _ v _ = _
    simp only [absorbM, absorbBody, getRow, hm]
  | @wildS lo row dl mk F w d hdl _ ih =>
    rw [← ih]
    show absorbM ts (f + d + 1) _ v _ = _
    simp only [absorbM, absorbBody, getRow, hdl]
  | @ptrX lo row i r0 k mk F w d hr hm hf _ ih =>
    rw [← ih]
    show absorbM ts (f + d + 1) _ v _ = _
    simp only [absorbM, absorbBody, getLo hr, hm]
  | @wildX lo row i r0 dl mk F w d hr hdl _ ih =>
    rw [← ih]
    show absorbM ts (f + d + 1) _ v _ = _
    simp only [absorbM, absorbBody, getLo hr, hdl]
  | @unionS lo row dl mk F w d hph hdl _ ih =>
    rw [← ih]
    show absorbM ts (f + d + 1) _ v _ = _
    simp only [absorbM, absorbBody, getRow, hdl]
  | @unionX lo row i r0 dl mk F w d hr hph hdl _ ih =>
    rw [← ih]
    show absorbM ts (f + d + 1) _ v _ = _
    simp only [absorbM, absorbBody, getLo hr, hdl]
  | @ptrUS lo row mk F w d hm hf _ ih =>
    rw [← ih]
    show absorbM ts (f + d + 1) _ v _ = _
    simp only [absorbM, absorbBody, getRow, hm]
  | @ptrUX lo row i r0 mk F w d hr hm hf _ ih =>
    rw [← ih]
    show absorbM ts (f + d + 1) _ v _ = _
    simp only [absorbM, absorbBody, getLo hr, hm]

/-- `Wr` only looks at the pointer, wildcard and transform machines' fields of the leaf's row -/
theorem Wr.congr {U c lo row row' mk F w d un} (h : Wr U c lo row mk F w d un)
    (hp : (row'.ptr, row'.wild, row'.transform, row'.union) = (row.ptr, row.wild, row.transform, row.union)) :
    Wr U c lo row' mk F w d un := by
  have hp1 : row'.ptr = row.ptr := congrArg Prod.fst hp
  have hp2 : row'.wild = row.wild := congrArg (fun x => x.2.1) hp
  have hp3 : row'.transform = row.transform := congrArg (fun x => x.2.2.1) hp
  have hp4 : row'.union = row.union := congrArg (fun x => x.2.2.2) hp
  induction h with
  | refl lo row k => exact .refl lo row' k
  | @trS lo row k hdl =>
    have := Wr.trS (U := U) lo row' (k := k) (by rw [hp3]; exact hdl)
    rw [hp3] at this; exact this
  | @ptrS lo row k mk F w d hm hf _ ih =>
    have := Wr.ptrS (row := row') (by rw [hp1]; exact hm) (by rw [hp1]; exact hf) (ih hp hp1 hp2 hp3 hp4)
    rw [hp1] at this; exact this
  | @wildS lo row dl mk F w d hdl _ ih =>
    have := Wr.wildS (row := row') (by rw [hp2]; exact hdl) (ih hp hp1 hp2 hp3 hp4)
    have hw : ifaceW row' = ifaceW row := by funext v; simp [ifaceW, hp2]
    rw [hw] at this; exact this
  | @ptrX lo row i r0 k mk F w d hr hm hf _ ih => exact Wr.ptrX hr hm hf (ih hp hp1 hp2 hp3 hp4)
  | @wildX lo row i r0 dl mk F w d hr hdl _ ih => exact Wr.wildX hr hdl (ih hp hp1 hp2 hp3 hp4)
  | @unionS lo row dl mk F w d hph hdl _ ih =>
    exact Wr.unionS (row := row') (by rw [hp4]; exact hph) (by rw [hp4]; exact hdl) (ih hp hp1 hp2 hp3 hp4)
  | @unionX lo row i r0 dl mk F w d hr hph hdl _ ih => exact Wr.unionX hr hph hdl (ih hp hp1 hp2 hp3 hp4)
  | @ptrUS lo row mk F w d hm hf _ ih =>
    exact Wr.ptrUS (row := row') (by rw [hp1]; exact hm) (by rw [hp1]; exact hf) (ih hp hp1 hp2 hp3 hp4)
  | @ptrUX lo row i r0 mk F w d hr hm hf _ ih => exact Wr.ptrUX hr hm hf (ih hp hp1 hp2 hp3 hp4)

/-- as `Wr.congr`, asking of the transform machine's fields only what `Wr` looks at -/
theorem Wr.congr2 {U c lo row row' mk F w d un} (h : Wr U c lo row mk F w d un)
    (hp1 : row'.ptr = row.ptr) (hp2 : row'.wild = row.wild) (hp4 : row'.union = row.union)
    (hd : row'.transform.delegate = row.transform.delegate) (hf : row'.transform.trFunc = row.transform.trFunc) :
    Wr U c lo row' mk F w d un := by
  induction h with
  | refl lo row k => exact .refl lo row' k
  | @trS lo row k hdl =>
    have := Wr.trS (U := U) lo row' (k := k) (by rw [hd]; exact hdl)
    rw [hf] at this; exact this
  | @ptrS lo row k mk F w d hm hf' _ ih =>
    have := Wr.ptrS (row := row') (by rw [hp1]; exact hm) (by rw [hp1]; exact hf') (ih hp1 hp2 hp4 hd hf)
    rw [hp1] at this; exact this
  | @wildS lo row dl mk F w d hdl _ ih =>
    have := Wr.wildS (row := row') (by rw [hp2]; exact hdl) (ih hp1 hp2 hp4 hd hf)
    have hw : ifaceW row' = ifaceW row := by funext v; simp [ifaceW, hp2]
    rw [hw] at this; exact this
  | @ptrX lo row i r0 k mk F w d hr hm hf' _ ih => exact Wr.ptrX hr hm hf' (ih hp1 hp2 hp4 hd hf)
  | @wildX lo row i r0 dl mk F w d hr hdl _ ih => exact Wr.wildX hr hdl (ih hp1 hp2 hp4 hd hf)
  | @unionS lo row dl mk F w d hph hdl _ ih =>
    exact Wr.unionS (row := row') (by rw [hp4]; exact hph) (by rw [hp4]; exact hdl) (ih hp1 hp2 hp4 hd hf)
  | @unionX lo row i r0 dl mk F w d hr hph hdl _ ih => exact Wr.unionX hr hph hdl (ih hp1 hp2 hp4 hd hf)
  | @ptrUS lo row mk F w d hm hf' _ ih =>
    exact Wr.ptrUS (row := row') (by rw [hp1]; exact hm) (by rw [hp1]; exact hf') (ih hp1 hp2 hp4 hd hf)
  | @ptrUX lo row i r0 mk F w d hr hm hf' _ ih => exact Wr.ptrUX hr hm hf' (ih hp1 hp2 hp4 hd hf)

theorem getLo' {lo : List URow} {i : Nat} {r0 : URow} (h : lo[i]? = some r0) (tl : List URow) :
    (lo ++ tl)[i]? = some r0 := by
  have hlt : i < lo.length := by
    rcases Nat.lt_or_ge i lo.length with h1 | h1
    · exact h1
    · rw [List.getElem?_eq_none h1] at h; cases h
  rw [List.getElem?_append_left hlt]; exact h

/-- the wrappers the driver-level machine can have when it is Reset: at most the pointer machine, same row -/
inductive WrP : URef → List URow → URow → MK → (Val → Val) → Nat → Prop
  | refl (lo : List URow) (row : URow) (k : MK) : WrP ⟨lo.length, k⟩ lo row k id 0
  | ptrS {lo row k} : row.ptr.mach = some k → row.ptr.firstStep = false →
      WrP ⟨lo.length, .ptr⟩ lo row k (wrapPtr row.ptr.peelCount ∘ id) 1

theorem WrP.toWr {U c lo row mk w d} (h : WrP c lo row mk w d) : Wr U c lo row mk some w d none := by
  cases h with
  | refl => exact .refl _ _ _
  | ptrS hm hf => exact .ptrS hm hf (.refl _ _ _)

theorem WrP.le {c lo row mk w d} (h : WrP c lo row mk w d) : d ≤ 1 := by
  cases h <;> omega

theorem WrP.congr {c lo row row' mk w d} (h : WrP c lo row mk w d) (hp : row'.ptr = row.ptr) : WrP c lo row' mk w d := by
  cases h with
  | refl => exact .refl _ _ _
  | ptrS hm hf =>
    have := WrP.ptrS (lo := lo) (row := row') (by rw [hp]; exact hm) (by rw [hp]; exact hf)
    rw [hp] at this; exact this

/-- more wrappers in the same row below -/
theorem WrP.trans {U c lo row mk w d k F2 w2 d2} (h : WrP c lo row mk w d)
    (h2 : Wr U ⟨lo.length, mk⟩ lo row k F2 w2 d2 none) : Wr U c lo row k F2 (w ∘ w2) (d2 + d) none := by
  cases h with
  | refl => exact h2
  | ptrS hm hf => exact Wr.ptrS hm hf h2

/-- the leaf moves to a row further up (`slab.tip()`): the wrappers now all live in rows below the leaf's -/
theorem WrP.lift {U c lo row mk w d} (h : WrP c lo row mk w d) (mid : List URow) (grow : URow) {k F2 w2 d2}
    (h2 : Wr U ⟨lo.length, mk⟩ (lo ++ row :: mid) grow k F2 w2 d2 none) :
    Wr U c (lo ++ row :: mid) grow k F2 (w ∘ w2) (d2 + d) none := by
  cases h with
  | refl => exact h2
  | ptrS hm hf => exact Wr.ptrX (by simp) hm hf h2

end Refmt.UMachU
