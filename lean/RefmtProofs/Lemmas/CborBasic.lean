import RefmtModel
set_option linter.unusedSimpArgs false
set_option linter.unusedVariables false
namespace Refmt.C04
open Refmt Refmt.CborDec Refmt.CborEnc

@[simp] theorem read1_cons (b : Nat) (r : Bytes) :
    Rd.read1 ⟨b :: r, none, 0⟩ = (.ok (b, ⟨r, none, 0⟩), ⟨r, none, 0⟩) := by
  simp [Rd.read1]

@[simp] theorem read1_nil : Rd.read1 ⟨[], none, 0⟩ = (.error .eof, ⟨[], none, 0⟩) := by
  simp [Rd.read1]

theorem readN_ok (bs : Bytes) (n : Nat) (h : n ≤ bs.length) :
    Rd.readN ⟨bs, none, 0⟩ n = (.ok (bs.take n), ⟨bs.drop n, none, 0⟩) := by
  unfold Rd.readN
  by_cases h0 : n = 0
  · subst h0; simp
  · simp [h0, h]

theorem readN_err (bs : Bytes) (n : Nat) (h : bs.length < n) :
    ∃ e, Rd.readN ⟨bs, none, 0⟩ n = (.error e, ⟨[], none, 0⟩) := by
  unfold Rd.readN
  have h0 : n ≠ 0 := by omega
  have h1 : ¬ n ≤ bs.length := by omega
  simp [h0, h1]

theorem negint_exact' (rd : Rd) (major : Nat) (i : Int)
    (h : (CborDec.decNegInt rd major).res = .ok i) :
    ∃ n, (CborDec.decUint rd major).res = .ok n ∧ i = -1 - (n : Int) ∧ n < two63 := by
  unfold decNegInt at h
  dsimp only at h
  split at h
  · simp at h
  · rename_i ui hu
    split at h
    · simp at h
    · rename_i hle
      refine ⟨ui, hu, ?_, ?_⟩
      · simp at h; exact h.symm
      · simp only [maxInt] at hle; simp only [two63]; omega

end Refmt.C04
