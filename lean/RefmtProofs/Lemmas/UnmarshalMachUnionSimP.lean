/-
  Stateful object unmarshaller: the pointer machine.  `SimB n → SimV (n+1)`.
-/
import RefmtProofs.Lemmas.UnmarshalMachUnionSimR
set_option linter.unusedSimpArgs false
set_option linter.unusedVariables false
namespace Refmt.UMachU
open Refmt Refmt.Obj Refmt.Obj.UM Refmt.UMachL

variable {ts : Types} {a : Atlas} {trs : Trs} {it : IfaceTys}

theorem pump1_congr {f sf R R' stk c be t rest}
    (h : stepM ts a trs it f c ⟨R, stk, some c, be⟩ t = stepM ts a trs it f c ⟨R', stk, some c, be⟩ t) :
    pump1 ts a trs it (f+1) sf ⟨R, stk, some c, be⟩ (t :: rest)
      = pump1 ts a trs it (f+1) sf ⟨R', stk, some c, be⟩ (t :: rest) := by
  simp only [pump1, ustep, ustepBody, h]

theorem simV_zero (S : List Nat) : SimV ts a trs it S 0 := by
  intro id hid cur lo row hi stk be ck toks fr sf1 sf hcfg hfr hsf1 hsf
  simp [unmV, Agree]

theorem simB_zero (S : List Nat) (wi : Option Nat) : SimB ts a trs it S wi 0 := by
  intro base hok cur lo row hi stk be c k w d toks fr sf1 sf hcfg hw hfr hsf1 hsf
  simp [unmBare, Agree]

/-- the first step of the pointer machine on a non-null token is the Reset of its delegate followed by the delegate's
    first step -/
theorem stepPtr_first {g : Nat} {lo hi : List URow} {row1 : URow} {stk st be} {k : MK} {t : Tok}
    (hm : row1.ptr.mach = some k) (hf : row1.ptr.firstStep = true) (hnull : t.body ≠ .null) :
    stepM ts a trs it (g+2) ⟨lo.length, .ptr⟩ ⟨lo ++ row1 :: hi, stk, st, be⟩ t
    = match resetM ts a (g+1) ⟨lo.length, k⟩ (peel ts 64 0 row1.ptr.ptr_rt).2
          (innerCur ts row1.ptr.peelCount row1.ptr.ptr_rt row1.ptr.ptr_rv)
          (lo ++ { row1 with ptr := { row1.ptr with firstStep := false } } :: hi) with
      | .error x => .error x
      | .ok R1 => mapDone (wrapPtr row1.ptr.peelCount) (stepM ts a trs it (g+1) ⟨lo.length, k⟩ ⟨R1, stk, st, be⟩ t) := by
  have hnb : ∀ (A B : X SRes), (match t.body with | .null => A | _ => B) = B := by
    intro A B; split <;> simp_all
  show stepBody ts a trs it (g+1) (stepM ts a trs it (g+1)) (recurse ts a trs it (g+1)) _ _ t = _
  simp only [stepBody, getRow, stepPtr, hm, hf, if_true, UState.upd, updRow_at, hnb]
  cases resetM ts a (g+1) ⟨lo.length, k⟩ (peel ts 64 0 row1.ptr.ptr_rt).2
          (innerCur ts row1.ptr.peelCount row1.ptr.ptr_rt row1.ptr.ptr_rv)
          (lo ++ { row1 with ptr := { row1.ptr with firstStep := false } } :: hi) with
  | error x => rfl
  | ok R1 =>
    cases stepM ts a trs it (g+1) ⟨lo.length, k⟩ ⟨R1, stk, st, be⟩ t <;> rfl

theorem ptr_first {g sf : Nat} {lo hi : List URow} {row1 : URow} {stk be} {k : MK} {t : Tok} {rest : List Tok}
    (hm : row1.ptr.mach = some k) (hf : row1.ptr.firstStep = true)
    (hframe : ∀ f rt v (rowx : URow) hi R1, rowx.transform = row1.transform →
      resetM ts a f ⟨lo.length, k⟩ rt v (lo ++ rowx :: hi) = .ok R1 →
      ∃ row3 hi3, R1 = lo ++ row3 :: hi3 ∧ row3.ptr = rowx.ptr)
    (hnull : t.body ≠ .null) :
    pump1 ts a trs it (g+3) sf ⟨lo ++ row1 :: hi, stk, some ⟨lo.length, .ptr⟩, be⟩ (t :: rest)
    = rtpB ts a trs it (g+1) (g+3) sf (lo ++ { row1 with ptr := { row1.ptr with firstStep := false } } :: hi) stk be
        ⟨lo.length, .ptr⟩ ⟨lo.length, k⟩ (peel ts 64 0 row1.ptr.ptr_rt).2
        (innerCur ts row1.ptr.peelCount row1.ptr.ptr_rt row1.ptr.ptr_rv) (t :: rest) := by
  simp only [rtpB]
  have hs := stepPtr_first (ts := ts) (a := a) (trs := trs) (it := it) (g := g) (lo := lo) (hi := hi) (stk := stk)
    (st := some ⟨lo.length, .ptr⟩) (be := be) hm hf hnull
  cases hr : resetM ts a (g+1) ⟨lo.length, k⟩ (peel ts 64 0 row1.ptr.ptr_rt).2
      (innerCur ts row1.ptr.peelCount row1.ptr.ptr_rt row1.ptr.ptr_rv)
      (lo ++ { row1 with ptr := { row1.ptr with firstStep := false } } :: hi) with
  | error x =>
    apply pump1_err
    rw [hs, hr]
  | ok R1 =>
    obtain ⟨row3, hi3, rfl, hp3⟩ := hframe _ _ _ { row1 with ptr := { row1.ptr with firstStep := false } } _ _ rfl hr
    have hw : Wr trs.u ⟨lo.length, .ptr⟩ lo row3 k some (wrapPtr row3.ptr.peelCount ∘ _root_.id) 1 none :=
      Wr.ptrS (by rw [hp3]; exact hm) (by rw [hp3]) (Wr.refl lo row3 k)
    apply pump1_congr
    rw [hs, hr, show g + 2 = (g + 1) + 1 from rfl, hw.step hi3 stk _ be t (g+1), hp3, mapDoneO_some, finU_none]
    rfl

end Refmt.UMachU
