/-
  Stateful object unmarshaller: `peel`, `requisitionMachine` on a closed set of types, what `Reset` of a leaf machine
  leaves untouched.
-/
import RefmtProofs.Lemmas.UnmarshalMachUnionSim
set_option linter.unusedSimpArgs false
set_option linter.unusedVariables false
namespace Refmt.UMachU
open Refmt Refmt.Obj Refmt.Obj.UM Refmt.UMachL

variable {ts : Types} {a : Atlas} {trs : Trs} {it : IfaceTys}

theorem peel_spec (f n id : Nat) : n ≤ (peel ts f n id).1 ∧ ((peel ts f n id).1 = n → (peel ts f n id).2 = id) := by
  induction f generalizing n id with
  | zero => simp [peel]
  | succ f ih =>
    unfold peel
    split
    · rename_i e _
      have := ih (n + 1) e
      constructor
      · omega
      · intro h; omega
    · simp

theorem peel_zero {id : Nat} (h : (peel ts 64 0 id).1 = 0) : (peel ts 64 0 id).2 = id :=
  (peel_spec 64 0 id).2 h

theorem requisition_inv {f R id R1 d} (h : requisition ts a f R id = .ok (R1, d)) :
    ∃ crow, R1 = R ++ [crow] ∧ d.row = R.length := by
  unfold requisition at h
  split at h
  · cases h
  · rename_i row k _
    cases h
    exact ⟨row, rfl, rfl⟩

theorem updRow_snoc (lo : List URow) (row : URow) (hi : List URow) (x : URow) (f : URow → URow) :
    updRow ((lo ++ row :: hi) ++ [x]) lo.length f = lo ++ f row :: (hi ++ [x]) := by
  rw [List.append_assoc, List.cons_append, updRow_at]

/-- `Reset` of a machine that is neither the pointer nor the transform machine keeps the rows below its own and its
    own row's configuration -/
theorem reset_frame {f k rt v lo row hi R1} (hk : k ≠ .ptr) (hk2 : k ≠ .transform)
    (h : resetM ts a f ⟨lo.length, k⟩ rt v (lo ++ row :: hi) = .ok R1) :
    ∃ row' hi', R1 = lo ++ row' :: hi' ∧ row'.ptr = row.ptr ∧ SameCfg row row' := by
  cases f with
  | zero => simp [resetM] at h
  | succ f =>
    simp only [resetM, resetBody, getRow] at h
    cases k with
    | ptr => exact absurd rfl hk
    | transform => exact absurd rfl hk2
    | prim =>
      simp only [resetPrim, updRow_at] at h
      cases h; exact ⟨_, _, rfl, rfl, SameCfg.refl _⟩
    | wild =>
      simp only [resetWild, updRow_at] at h
      cases h; exact ⟨_, _, rfl, rfl, ⟨rfl, rfl, rfl, rfl, rfl, rfl, rfl, rfl, rfl, rfl, rfl, rfl⟩⟩
    | struct =>
      simp only [resetStruct, updRow_at] at h
      cases h; exact ⟨_, _, rfl, rfl, ⟨rfl, rfl, rfl, rfl, rfl, rfl, rfl, rfl, rfl, rfl, rfl, rfl⟩⟩
    | union =>
      simp only [resetUnion, updRow_at] at h
      cases h; exact ⟨_, _, rfl, rfl, ⟨rfl, rfl, rfl, rfl, rfl, rfl, rfl, rfl, rfl, rfl, rfl, rfl⟩⟩
    | errThunk =>
      simp only [resetErr] at h
      split at h
      · cases h
      · cases h; exact ⟨_, _, rfl, rfl, SameCfg.refl _⟩
    | map =>
      simp only [resetMap] at h
      split at h
      · split at h
        · cases h
        · rename_i R2 d hreq
          obtain ⟨crow, rfl, _⟩ := requisition_inv hreq
          split at h
          · cases h
          · simp only [updRow_snoc] at h
            cases h; exact ⟨_, _, rfl, rfl, ⟨rfl, rfl, rfl, rfl, rfl, rfl, rfl, rfl, rfl, rfl, rfl, rfl⟩⟩
      · cases h
    | slice =>
      simp only [resetSlice] at h
      split at h
      · split at h
        · cases h
        · rename_i R2 d hreq
          obtain ⟨crow, rfl, _⟩ := requisition_inv hreq
          simp only [updRow_snoc] at h
          cases h; exact ⟨_, _, rfl, rfl, ⟨rfl, rfl, rfl, rfl, rfl, rfl, rfl, rfl, rfl, rfl, rfl, rfl⟩⟩
      · cases h
    | array =>
      simp only [resetArray] at h
      split at h
      · split at h
        · cases h
        · rename_i R2 d hreq
          obtain ⟨crow, rfl, _⟩ := requisition_inv hreq
          simp only [updRow_snoc] at h
          cases h; exact ⟨_, _, rfl, rfl, ⟨rfl, rfl, rfl, rfl, rfl, rfl, rfl, rfl, rfl, rfl, rfl, rfl⟩⟩
      · cases h

/-- `Reset` of the map or the slice machine also keeps the wildcard machine of its row -/
theorem reset_frame_ms {f k rt v lo row hi R1} (hk : k = .map ∨ k = .slice)
    (h : resetM ts a f ⟨lo.length, k⟩ rt v (lo ++ row :: hi) = .ok R1) :
    ∃ row' hi', R1 = lo ++ row' :: hi' ∧ (row'.ptr, row'.wild, row'.transform, row'.union) = (row.ptr, row.wild, row.transform, row.union) ∧ SameCfg row row' := by
  cases f with
  | zero => simp [resetM] at h
  | succ f =>
    simp only [resetM, resetBody, getRow] at h
    rcases hk with rfl | rfl
    · simp only [resetMap] at h
      split at h
      · split at h
        · cases h
        · rename_i R2 d hreq
          obtain ⟨crow, rfl, _⟩ := requisition_inv hreq
          split at h
          · cases h
          · simp only [updRow_snoc] at h
            cases h; exact ⟨_, _, rfl, rfl, ⟨rfl, rfl, rfl, rfl, rfl, rfl, rfl, rfl, rfl, rfl, rfl, rfl⟩⟩
      · cases h
    · simp only [resetSlice] at h
      split at h
      · split at h
        · cases h
        · rename_i R2 d hreq
          obtain ⟨crow, rfl, _⟩ := requisition_inv hreq
          simp only [updRow_snoc] at h
          cases h; exact ⟨_, _, rfl, rfl, ⟨rfl, rfl, rfl, rfl, rfl, rfl, rfl, rfl, rfl, rfl, rfl, rfl⟩⟩
      · cases h

/-- a row with its transform machine replaced -/
def rowTr (row : URow) (tm : TransM) : URow := { row with transform := tm }
/-- the transform machine after its `Reset` (before the delegate's) -/
def trReset (ts : Types) (tm : TransM) (v : Val) : TransM :=
  { tm with target_rv := v, recv_rv := zeroVal ts 64 tm.recv_rt }

theorem transform_reset {f : Nat} {lo hi : List URow} {row : URow} {rt : Nat} {v : Val} {k' : MK}
    (hdl : row.transform.delegate = some k') :
    resetM ts a (f+1) ⟨lo.length, .transform⟩ rt v (lo ++ row :: hi)
      = resetM ts a f ⟨lo.length, k'⟩ row.transform.recv_rt (zeroVal ts 64 row.transform.recv_rt)
          (lo ++ rowTr row (trReset ts row.transform v) :: hi) := by
  simp only [resetM, resetBody, getRow, resetTransform, hdl, updRow_at]
  simp [rowTr, trReset, hdl]

theorem reset_frame_tr {f k' rt v lo row hi R1} (hdl : row.transform.delegate = some k') (hk : k' ≠ .ptr)
    (hk2 : k' ≠ .transform)
    (h : resetM ts a f ⟨lo.length, .transform⟩ rt v (lo ++ row :: hi) = .ok R1) :
    ∃ row' hi', R1 = lo ++ row' :: hi' ∧ row'.ptr = row.ptr ∧ SameCfg row row' := by
  cases f with
  | zero => simp [resetM] at h
  | succ f =>
    rw [transform_reset hdl] at h
    obtain ⟨row', hi', h1, h2, h3⟩ := reset_frame hk hk2 h
    exact ⟨row', hi', h1, h2, (show SameCfg row (rowTr row (trReset ts row.transform v)) from
      ⟨rfl, rfl, rfl, rfl, rfl, rfl, rfl, rfl, rfl, rfl, rfl, rfl⟩).trans h3⟩

theorem finU_err (un : Option Nat) (e : XFail) : finU un (.error e : X SRes) = .error e := rfl
theorem finU_cont (un : Option Nat) (s' : UState) : finU un (.ok ⟨none, s'⟩ : X SRes) = .ok ⟨none, s'⟩ := rfl

/-- the leaf reports done: what the driver does, through the wrappers (pump level) -/
theorem Agree.fin {c lo row row' row0 k F w d un} (hw : Wr trs.u c lo row k F w d un) {f : Nat} {hi hi' : List URow}
    {stk be} {t : Tok} {rest : List Tok} {X : Val}
    (hl : stepM ts a trs it f ⟨lo.length, k⟩ ⟨lo ++ row :: hi, stk, some c, be⟩ t
      = .ok ⟨some X, ⟨lo ++ row' :: hi', stk, some c, be⟩⟩)
    (hs : SameCfg row0 row') (hf : 4 ≤ f + d) :
    Agree ts a trs it none un c (f + d + 1) be stk lo row0 F w
      (pump ts a trs it (f + d + 1) ⟨lo ++ row :: hi, stk, some c, be⟩ (t :: rest)) (.ok X rest 1) := by
  have hst := hw.step (ts := ts) (a := a) (it := it) hi stk (some c) be t f
  rw [hl] at hst
  refine ⟨Nat.le_refl 1, ?_⟩
  cases hF : F X with
  | none =>
    have : stepM ts a trs it (f + d) c ⟨lo ++ row :: hi, stk, some c, be⟩ t = .error (.f .err) := by
      rw [hst]; simp [mapDoneO, hF, mapDone, finU_err]
    simp only []
    rw [pump_err this]; rfl
  | some v' =>
    cases un with
    | none =>
      have : stepM ts a trs it (f + d) c ⟨lo ++ row :: hi, stk, some c, be⟩ t
          = .ok ⟨some (w v'), ⟨lo ++ row' :: hi', stk, some c, be⟩⟩ := by
        rw [hst]; simp [mapDoneO, hF, mapDone, finU_err]
      simp only []
      exact ⟨row', hi', f + d, hs, hf, by rw [pump_done this]; simp⟩
    | some i =>
      have : stepM ts a trs it (f + d) c ⟨lo ++ row :: hi, stk, some c, be⟩ t
          = .ok ⟨none, ⟨updRow (lo ++ row' :: hi') i (closeU (w v')), stk, some c, be⟩⟩ := by
        rw [hst]; simp [mapDoneO, hF, mapDone, finU, UState.upd]
      simp only []
      exact ⟨row', hi', f + d, hs, hf, by rw [pump_cont this]; simp [kontU]⟩

/-- the same for the first token (`pump1`) -/
theorem Agree.fin1 {c lo row row' row0 k F w d un} (hw : Wr trs.u c lo row k F w d un) {f sf : Nat} {hi hi' : List URow}
    {stk be} {t : Tok} {rest : List Tok} {X : Val}
    (hl : stepM ts a trs it f ⟨lo.length, k⟩ ⟨lo ++ row :: hi, stk, some c, be⟩ t
      = .ok ⟨some X, ⟨lo ++ row' :: hi', stk, some c, be⟩⟩)
    (hs : SameCfg row0 row') (hf : 4 ≤ f + d) :
    Agree ts a trs it none un c sf be stk lo row0 F w
      (pump1 ts a trs it (f + d + 1) sf ⟨lo ++ row :: hi, stk, some c, be⟩ (t :: rest)) (.ok X rest 1) := by
  have hst := hw.step (ts := ts) (a := a) (it := it) hi stk (some c) be t f
  rw [hl] at hst
  refine ⟨Nat.le_refl 1, ?_⟩
  cases hF : F X with
  | none =>
    have : stepM ts a trs it (f + d) c ⟨lo ++ row :: hi, stk, some c, be⟩ t = .error (.f .err) := by
      rw [hst]; simp [mapDoneO, hF, mapDone, finU_err]
    simp only []
    rw [pump1_err this]; rfl
  | some v' =>
    cases un with
    | none =>
      have : stepM ts a trs it (f + d) c ⟨lo ++ row :: hi, stk, some c, be⟩ t
          = .ok ⟨some (w v'), ⟨lo ++ row' :: hi', stk, some c, be⟩⟩ := by
        rw [hst]; simp [mapDoneO, hF, mapDone, finU_err]
      simp only []
      exact ⟨row', hi', f + d, hs, hf, by rw [pump1_done this]; simp⟩
    | some i =>
      have : stepM ts a trs it (f + d) c ⟨lo ++ row :: hi, stk, some c, be⟩ t
          = .ok ⟨none, ⟨updRow (lo ++ row' :: hi') i (closeU (w v')), stk, some c, be⟩⟩ := by
        rw [hst]; simp [mapDoneO, hF, mapDone, finU, UState.upd]
      simp only []
      exact ⟨row', hi', f + d, hs, hf, by rw [pump1_cont this]; simp [kontU]⟩

/-- the leaf's step is not a done report: the wrappers pass it on -/
theorem Wr.pass {c lo row k F w d un} (hw : Wr trs.u c lo row k F w d un) {f : Nat} {hi : List URow} {stk st be} {t : Tok}
    {x : X SRes}
    (hl : stepM ts a trs it f ⟨lo.length, k⟩ ⟨lo ++ row :: hi, stk, st, be⟩ t = x)
    (hx : (∃ e, x = .error e) ∨ (∃ s', x = .ok ⟨none, s'⟩)) :
    stepM ts a trs it (f + d) c ⟨lo ++ row :: hi, stk, st, be⟩ t = x := by
  rw [hw.step, hl]
  rcases hx with ⟨e, rfl⟩ | ⟨s', rfl⟩
  · exact finU_err un e
  · exact finU_cont un s'

/-- `reset_frame`, also for the wildcard and union machines' fields of the row -/
theorem reset_frame2 {f k rt v lo row hi R1} (hk : k ≠ .ptr) (hk2 : k ≠ .transform)
    (h : resetM ts a f ⟨lo.length, k⟩ rt v (lo ++ row :: hi) = .ok R1) :
    ∃ row' hi', R1 = lo ++ row' :: hi' ∧ row'.ptr = row.ptr ∧ SameCfg row row' ∧
      (k ≠ .wild → row'.wild = row.wild) ∧ (k ≠ .union → row'.union = row.union) := by
  cases f with
  | zero => simp [resetM] at h
  | succ f =>
    simp only [resetM, resetBody, getRow] at h
    cases k with
    | ptr => exact absurd rfl hk
    | transform => exact absurd rfl hk2
    | prim =>
      simp only [resetPrim, updRow_at] at h
      cases h; exact ⟨_, _, rfl, rfl, SameCfg.refl _, fun _ => rfl, fun _ => rfl⟩
    | wild =>
      simp only [resetWild, updRow_at] at h
      cases h; exact ⟨_, _, rfl, rfl, ⟨rfl, rfl, rfl, rfl, rfl, rfl, rfl, rfl, rfl, rfl, rfl, rfl⟩, fun h => (by first | rfl | exact absurd rfl h), fun h => (by first | rfl | exact absurd rfl h)⟩
    | struct =>
      simp only [resetStruct, updRow_at] at h
      cases h; exact ⟨_, _, rfl, rfl, ⟨rfl, rfl, rfl, rfl, rfl, rfl, rfl, rfl, rfl, rfl, rfl, rfl⟩, fun h => (by first | rfl | exact absurd rfl h), fun h => (by first | rfl | exact absurd rfl h)⟩
    | union =>
      simp only [resetUnion, updRow_at] at h
      cases h; exact ⟨_, _, rfl, rfl, ⟨rfl, rfl, rfl, rfl, rfl, rfl, rfl, rfl, rfl, rfl, rfl, rfl⟩, fun h => (by first | rfl | exact absurd rfl h), fun h => (by first | rfl | exact absurd rfl h)⟩
    | errThunk =>
      simp only [resetErr] at h
      split at h
      · cases h
      · cases h; exact ⟨_, _, rfl, rfl, SameCfg.refl _, fun _ => rfl, fun _ => rfl⟩
    | map =>
      simp only [resetMap] at h
      split at h
      · split at h
        · cases h
        · rename_i R2 d hreq
          obtain ⟨crow, rfl, _⟩ := requisition_inv hreq
          split at h
          · cases h
          · simp only [updRow_snoc] at h
            cases h; exact ⟨_, _, rfl, rfl, ⟨rfl, rfl, rfl, rfl, rfl, rfl, rfl, rfl, rfl, rfl, rfl, rfl⟩, fun h => (by first | rfl | exact absurd rfl h), fun h => (by first | rfl | exact absurd rfl h)⟩
      · cases h
    | slice =>
      simp only [resetSlice] at h
      split at h
      · split at h
        · cases h
        · rename_i R2 d hreq
          obtain ⟨crow, rfl, _⟩ := requisition_inv hreq
          simp only [updRow_snoc] at h
          cases h; exact ⟨_, _, rfl, rfl, ⟨rfl, rfl, rfl, rfl, rfl, rfl, rfl, rfl, rfl, rfl, rfl, rfl⟩, fun h => (by first | rfl | exact absurd rfl h), fun h => (by first | rfl | exact absurd rfl h)⟩
      · cases h
    | array =>
      simp only [resetArray] at h
      split at h
      · split at h
        · cases h
        · rename_i R2 d hreq
          obtain ⟨crow, rfl, _⟩ := requisition_inv hreq
          simp only [updRow_snoc] at h
          cases h; exact ⟨_, _, rfl, rfl, ⟨rfl, rfl, rfl, rfl, rfl, rfl, rfl, rfl, rfl, rfl, rfl, rfl⟩, fun h => (by first | rfl | exact absurd rfl h), fun h => (by first | rfl | exact absurd rfl h)⟩
      · cases h


theorem reset_frame_tr2 {f k' rt v lo row hi R1} (hdl : row.transform.delegate = some k') (hk : k' ≠ .ptr)
    (hk2 : k' ≠ .transform) (hk3 : k' ≠ .wild) (hk4 : k' ≠ .union)
    (h : resetM ts a f ⟨lo.length, .transform⟩ rt v (lo ++ row :: hi) = .ok R1) :
    ∃ row' hi', R1 = lo ++ row' :: hi' ∧ row'.ptr = row.ptr ∧ SameCfg row row' ∧ row'.wild = row.wild ∧
      row'.union = row.union := by
  cases f with
  | zero => simp [resetM] at h
  | succ f =>
    rw [transform_reset hdl] at h
    obtain ⟨row', hi', h1, h2, h3, h4, h5⟩ := reset_frame2 hk hk2 h
    exact ⟨row', hi', h1, h2, (show SameCfg row (rowTr row (trReset ts row.transform v)) from
      ⟨rfl, rfl, rfl, rfl, rfl, rfl, rfl, rfl, rfl, rfl, rfl, rfl⟩).trans h3, h4 hk3, h5 hk4⟩

end Refmt.UMachU
