/-
  Stateful object unmarshaller: the leaf machines below any chain (`simLeaf`), the transform machine.
-/
import RefmtProofs.Lemmas.UnmarshalMachUnionSimBSt
set_option linter.unusedSimpArgs false
set_option linter.unusedVariables false
namespace Refmt.UMachU
open Refmt Refmt.Obj Refmt.Obj.UM Refmt.UMachL

variable {ts : Types} {a : Atlas} {trs : Trs} {it : IfaceTys}

/-- the machines that are leaves of a row's chain -/
def isLeaf : UMach → Prop
  | .prim | .errThunk | .slice _ | .array _ _ | .map _ _ | .structMap _ => True
  | _ => False

/-- the leaf machines, below any chain of wrappers -/
theorem simLeaf {S : List Nat} {wi : Option Nat} {n : Nat} (hS : Closed ts a S wi) (hE : SimE ts a trs it S n)
    (hAr : SimAr ts a trs it S n) (hMp : SimM ts a trs it S n) (hSt : SimSt ts a trs it S wi n)
    (base : Nat) (hok : okMach ts a S wi (upickBare ts a base)) (hlf : isLeaf (upickBare ts a base))
    (cur : Val) (lo : List URow) (row : URow) (hi : List URow) (stk : List URef) (be : Option XFail) (c : URef) (k : MK)
    (F : Val → Option Val) (w : Val → Val) (d : Nat) (toks : List Tok) (fr sf1 sf : Nat)
    (hcfg : CfgLeaf row base k (upickBare ts a base)) {un : Option Nat} (hw : Wr trs.u c lo row k F w d un) (hd2 : d ≤ 3)
    (hfr : 6 ≤ fr) (hsf1 : 10 ≤ sf1) (hsf : 17 ≤ sf) :
    Agree ts a trs it none un c sf be stk lo row F w
      (rtpB ts a trs it fr sf1 sf (lo ++ row :: hi) stk be c ⟨lo.length, k⟩ base cur toks)
      (unmBare ts a trs it (n+1) base (upickBare ts a base) cur toks) := by
  cases hM : upickBare ts a base with
  | prim =>
    rw [hM] at hcfg
    obtain ⟨rfl, hty, hak⟩ := hcfg
    exact simB_prim cur lo row hi stk be c F w d toks fr sf1 sf hty hak hw hd2 hfr hsf1 hsf
  | errThunk =>
    rw [hM] at hcfg
    obtain ⟨rfl, he⟩ := hcfg
    exact simB_err cur lo row hi stk be c F w toks fr sf1 sf he hfr
  | slice e =>
    rw [hM] at hcfg hok
    cases hcfg
    exact simB_slice hS hE (upick_slice hM) hok cur lo row hi stk be c F w d toks fr sf1 sf hw hd2 (by omega) hsf1 hsf
  | array N e =>
    rw [hM] at hcfg hok
    cases hcfg
    exact simB_array hS hAr hM hok cur lo row hi stk be c F w d toks fr sf1 sf hw hd2 (by omega) hsf1 hsf
  | map kt vt =>
    rw [hM] at hcfg hok
    cases hcfg
    exact simB_map hS hMp (upick_map hM) hok cur lo row hi stk be c F w d toks fr sf1 sf hw hd2 (by omega) hsf1 hsf
  | structMap fields =>
    rw [hM] at hcfg hok
    obtain ⟨rfl, hfl⟩ := hcfg
    exact simB_struct hSt hok cur lo row hi stk be c F w d toks fr sf1 sf hfl hw hd2 hfr hsf1 hsf
  | _ => rw [hM] at hlf; exact hlf.elim

/-- what the functional model's transform case makes of the delegate's result -/
def trF (U : Val → Option Val) : URes → URes
  | .ok rv r u => (match U rv with | some v => .ok v r u | none => .err (u - 1))
  | y => y

theorem unmBare_transform {n base fn uty : Nat} {cur : Val} {t : Tok} {rest : List Tok} :
    unmBare ts a trs it (n+1) base (.transform fn uty) cur (t :: rest)
      = trF (trs.u fn) (unmBare ts a trs it n uty (upickBare ts a uty) (zeroVal ts 64 uty) (t :: rest)) := by
  rw [unmBare.eq_def]
  simp only [trF]
  cases unmBare ts a trs it n uty (upickBare ts a uty) (zeroVal ts 64 uty) (t :: rest) with
  | ok rv r u => simp only []; cases trs.u fn rv <;> rfl
  | _ => rfl

theorem Agree.toTr {un c sf be stk lo row U w x r} (h : Agree ts a trs it none un c sf be stk lo row U w x r) :
    Agree ts a trs it none un c sf be stk lo row some w x (trF U r) := by
  cases r with
  | ok rv rest u =>
    obtain ⟨h1, h2⟩ := h
    simp only [trF]
    cases hU : U rv with
    | none => rw [hU] at h2; exact h2
    | some v => rw [hU] at h2; exact ⟨h1, h2⟩
  | more u => exact h
  | err u => exact h
  | panic u => trivial

/-- the transform machine: its `Reset` is its delegate's, its `Step` the delegate's followed by the user function -/
theorem simB_transform {S : List Nat} {wi : Option Nat} {n : Nat} (hS : Closed ts a S wi)
    (hL : ∀ m, m + 1 = n → SimE ts a trs it S m ∧ SimAr ts a trs it S m ∧ SimM ts a trs it S m ∧
      SimSt ts a trs it S wi m)
    {base fn uty : Nat} (hok : okLeaf S wi (upickBare ts a uty))
    (cur : Val) (lo : List URow) (row : URow) (hi : List URow) (stk : List URef) (be : Option XFail) (c : URef)
    (w : Val → Val) (d : Nat) (toks : List Tok) (fr sf1 sf : Nat)
    (hfn : row.transform.trFunc = fn) (hrt : row.transform.recv_rt = uty) {k' : MK}
    (hdl : row.transform.delegate = some k') (hcl : CfgLeaf row uty k' (upickBare ts a uty))
    (hwp : WrP c lo row .transform w d) (hfr : 7 ≤ fr) (hsf1 : 10 ≤ sf1) (hsf : 17 ≤ sf) :
    Agree ts a trs it none none c sf be stk lo row some w
      (rtpB ts a trs it fr sf1 sf (lo ++ row :: hi) stk be c ⟨lo.length, .transform⟩ base cur toks)
      (unmBare ts a trs it (n+1) base (.transform fn uty) cur toks) := by
  cases toks with
  | nil => simp [rtpB, unmBare, Agree]
  | cons t rest =>
    obtain ⟨f, rfl⟩ : ∃ f, fr = f + 1 := ⟨fr - 1, by omega⟩
    have hd := hwp.le
    rw [unmBare_transform]
    cases n with
    | zero => simp [unmBare, trF, Agree]
    | succ m =>
    obtain ⟨hE, hAr, hMp, hSt⟩ := hL m rfl
    have hrr : rtpB ts a trs it (f + 1) sf1 sf (lo ++ row :: hi) stk be c ⟨lo.length, .transform⟩ base cur (t :: rest)
        = rtpB ts a trs it f sf1 sf (lo ++ rowTr row (trReset ts row.transform cur) :: hi) stk be c ⟨lo.length, k'⟩
            uty (zeroVal ts 64 uty) (t :: rest) := by
      simp only [rtpB, transform_reset hdl, hrt]
    rw [hrr]
    have hw : Wr trs.u c lo (rowTr row (trReset ts row.transform cur)) k' (trs.u fn) (w ∘ _root_.id) (1 + d) none := by
      have h1 := (hwp.congr (row' := rowTr row (trReset ts row.transform cur)) rfl).trans (U := trs.u)
        (Wr.trS lo (rowTr row (trReset ts row.transform cur)) (k := k') hdl)
      rw [show (rowTr row (trReset ts row.transform cur)).transform.trFunc = fn from hfn] at h1
      exact h1
    have hlf : isLeaf (upickBare ts a uty) := by
      revert hok; generalize upickBare ts a uty = M; intro hok
      cases M <;> first | trivial | exact hok.elim
    have hokm : okMach ts a S wi (upickBare ts a uty) := by
      revert hok hlf; generalize upickBare ts a uty = M; intro hok hlf
      cases M <;> first | exact hok | exact hlf.elim
    have hA := simLeaf hS hE hAr hMp hSt uty hokm hlf (zeroVal ts 64 uty) lo
      (rowTr row (trReset ts row.transform cur)) hi stk be c k' (trs.u fn) (w ∘ _root_.id) (1 + d) (t :: rest)
      f sf1 sf (hcl.same ⟨rfl, rfl, rfl, rfl, rfl, rfl, rfl, rfl, rfl, rfl, rfl, rfl⟩) hw (by omega) (by omega) hsf1 hsf
    exact hA.toTr.same ⟨rfl, rfl, rfl, rfl, rfl, rfl, rfl, rfl, rfl, rfl, rfl, rfl⟩

end Refmt.UMachU
