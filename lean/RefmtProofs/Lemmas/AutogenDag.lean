/-
  The BFS of `exploreFields` (with multiplicity carried over to embedded structs) against the path-based
  `candidates` on arbitrary type tables: name by name, both select the same entry.
-/
import RefmtModel
import RefmtProofs.Lemmas.Autogen
import RefmtProofs.Lemmas.AutogenBfs
import RefmtProofs.Lemmas.AutogenTree
set_option linter.unusedSimpArgs false
set_option linter.unusedVariables false
namespace Refmt.Autogen
open Refmt Refmt.Obj
open List (Perm)

/-! ### `selectName` algebra -/

theorem selectName_congr_filter {l l' : List AField} (n : Bytes)
    (h : l.filter (fun x => x.name == n) = l'.filter (fun x => x.name == n)) : selectName l n = selectName l' n := by
  unfold selectName
  simp only [h]

/-- a list is empty, a given singleton, or has at least two elements — all `sel` looks at -/
def Cap2 (X Y : List AField) : Prop :=
  (X = [] ∧ Y = []) ∨ (∃ t, X = [t] ∧ Y = [t]) ∨ (2 ≤ X.length ∧ 2 ≤ Y.length)

theorem sel_cap2 {a a' b b' : List AField} (h1 : Cap2 a a') (h2 : Cap2 b b') : sel a b = sel a' b' := by
  have two : ∀ (l : List AField), 2 ≤ l.length → ∃ x y r, l = x :: y :: r := by
    intro l hl
    match l, hl with
    | x :: y :: r, _ => exact ⟨x, y, r, rfl⟩
  rcases h1 with ⟨rfl, rfl⟩ | ⟨t, rfl, rfl⟩ | ⟨ha, ha'⟩
  · rcases h2 with ⟨rfl, rfl⟩ | ⟨t, rfl, rfl⟩ | ⟨hb, hb'⟩
    · rfl
    · rfl
    · obtain ⟨x, y, r, rfl⟩ := two b hb
      obtain ⟨x', y', r', rfl⟩ := two b' hb'
      rfl
  · rfl
  · obtain ⟨x, y, r, rfl⟩ := two a ha
    obtain ⟨x', y', r', rfl⟩ := two a' ha'
    rfl

theorem cap2_of_length {X Y : List AField} (hmin : min X.length 2 = min Y.length 2)
    (hmem : ∀ t, X = [t] → t ∈ Y) : Cap2 X Y := by
  match X, Y, hmin, hmem with
  | [], [], _, _ => exact Or.inl ⟨rfl, rfl⟩
  | [], _ :: _, h, _ => simp at h; omega
  | _ :: _, [], h, _ => simp at h
  | [t], [t'], _, hm =>
    have := hm t rfl
    simp only [List.mem_singleton] at this
    subst this
    exact Or.inr (Or.inl ⟨t, rfl, rfl⟩)
  | [t], _ :: _ :: _, h, _ => simp at h
  | _ :: _ :: _, [t], h, _ => simp at h
  | _ :: _ :: _, _ :: _ :: _, _, _ => exact Or.inr (Or.inr ⟨by simp, by simp⟩)

theorem Cap2.nil_iff {X Y : List AField} (h : Cap2 X Y) : X = [] ↔ Y = [] := by
  rcases h with ⟨rfl, rfl⟩ | ⟨t, rfl, rfl⟩ | ⟨ha, hb⟩
  · simp
  · simp
  · constructor
    · rintro rfl; simp at ha
    · rintro rfl; simp at hb

/-- when all candidates of a name sit at one depth, `selectName` is `sel` of the name class -/
theorem selectName_same_depth (B : List AField) (n : Bytes) (d : Nat)
    (hd : ∀ f ∈ B.filter (fun x => x.name == n), f.route.length = d) :
    selectName B n = sel ((B.filter (fun x => x.name == n)).filter (·.tagged)) (B.filter (fun x => x.name == n)) := by
  rw [selectName_eq_sel]
  cases hcs : B.filter (fun x => x.name == n) with
  | nil => rfl
  | cons a r =>
    rw [hcs] at hd
    simp only [List.map_cons]
    have hmin : (r.map (·.route.length)).foldl min a.route.length = d := by
      have h1 := hd a (by simp)
      rw [foldl_min_eq]
      · exact h1
      · intro x hx
        rw [List.mem_map] at hx
        obtain ⟨y, hy, rfl⟩ := hx
        rw [h1, hd y (by simp [hy])]
        exact Nat.le_refl _
    rw [hmin]
    have : (a :: r).filter (fun x => x.route.length == d) = a :: r := by
      rw [List.filter_eq_self]
      intro x hx
      simp [hd x hx]
    rw [this]

/-- shallower candidates of a name hide deeper ones -/
theorem selectName_append_shallow (A B : List AField) (n : Bytes) (k : Nat)
    (hne : A.filter (fun x => x.name == n) ≠ [])
    (hA : ∀ f ∈ A, f.route.length ≤ k) (hB : ∀ f ∈ B, k < f.route.length) :
    selectName (A ++ B) n = selectName A n := by
  rw [selectName_eq_sel, selectName_eq_sel, List.filter_append, List.map_append]
  cases hcs : A.filter (fun x => x.name == n) with
  | nil => exact absurd hcs hne
  | cons a r =>
    simp only [List.map_cons, List.cons_append]
    have hAk : ∀ f ∈ a :: r, f.route.length ≤ k := by
      intro f hf; rw [← hcs] at hf; exact hA f (List.mem_filter.mp hf).1
    have hBk : ∀ f ∈ B.filter (fun x => x.name == n), k < f.route.length :=
      fun f hf => hB f (List.mem_filter.mp hf).1
    obtain ⟨h1, h2⟩ := foldl_min_spec (r.map (·.route.length)) a.route.length
    obtain ⟨h1', h2'⟩ := foldl_min_spec
      (r.map (·.route.length) ++ (B.filter (fun x => x.name == n)).map (·.route.length)) a.route.length
    have hmin : (r.map (·.route.length) ++ (B.filter (fun x => x.name == n)).map (·.route.length)).foldl min
        a.route.length = (r.map (·.route.length)).foldl min a.route.length := by
      have hle : (r.map (·.route.length) ++ (B.filter (fun x => x.name == n)).map (·.route.length)).foldl min
          a.route.length ≤ (r.map (·.route.length)).foldl min a.route.length := by
        apply h1'
        simp only [List.mem_cons, List.mem_append] at h2 ⊢
        rcases h2 with h2 | h2
        · exact Or.inl h2
        · exact Or.inr (Or.inl h2)
      have hk : (r.map (·.route.length)).foldl min a.route.length ≤ k := by
        have := h1 a.route.length (by simp)
        exact Nat.le_trans this (hAk a (by simp))
      have hin : (r.map (·.route.length) ++ (B.filter (fun x => x.name == n)).map (·.route.length)).foldl min
          a.route.length ∈ a.route.length :: r.map (·.route.length) := by
        simp only [List.mem_cons, List.mem_append] at h2' ⊢
        rcases h2' with h | h | h
        · exact Or.inl h
        · exact Or.inr h
        · exfalso
          rw [List.mem_map] at h
          obtain ⟨y, hy, hyl⟩ := h
          have := hBk y hy
          omega
      have := h1 _ hin
      omega
    rw [hmin]
    have hBnil : (B.filter (fun x => x.name == n)).filter
        (fun x => x.route.length == (r.map (·.route.length)).foldl min a.route.length) = [] := by
      rw [List.filter_eq_nil_iff]
      intro f hf
      have := hBk f hf
      have hk : (r.map (·.route.length)).foldl min a.route.length ≤ k :=
        Nat.le_trans (h1 a.route.length (by simp)) (hAk a (by simp))
      simp only [beq_iff_eq]
      omega
    rw [← List.cons_append, List.filter_append, hBnil, List.append_nil]

/-! ### nodes of the same type are parallel -/

def reroute (r : List Nat) (f : AField) : AField := { f with route := r ++ f.route }

def pre (r : List Nat) (c : Node) : Node := (r ++ c.1, c.2)

theorem fieldOut_reroute (ts : Types) (u : UTab) (r : List Nat) (p : FieldDesc × Nat) :
    fieldOut ts u r p = (fieldOut ts u [] p).map (reroute r) := by
  simp only [fieldOut]
  repeat' split
  all_goals simp [reroute]

theorem childOut_pre (ts : Types) (u : UTab) (r : List Nat) (p : FieldDesc × Nat) :
    childOut ts u r p = (childOut ts u [] p).map (pre r) := by
  simp only [childOut]
  repeat' split
  all_goals simp [pre]

theorem fieldsOf_reroute (ts : Types) (u : UTab) (r : List Nat) (T : Nat) :
    fieldsOf ts u (r, T) = (fieldsOf ts u ([], T)).map (reroute r) := by
  simp only [fieldsOf]
  cases ts.get T with
  | struct fds =>
    simp only [List.map_flatMap]
    exact flatMap_congr' _ _ _ (fun p _ => fieldOut_reroute ts u r p)
  | _ => rfl

theorem childrenOf_pre (ts : Types) (u : UTab) (r : List Nat) (T : Nat) :
    childrenOf ts u (r, T) = (childrenOf ts u ([], T)).map (pre r) := by
  simp only [childrenOf]
  cases ts.get T with
  | struct fds =>
    simp only [List.map_flatMap]
    exact flatMap_congr' _ _ _ (fun p _ => childOut_pre ts u r p)
  | _ => rfl

/-- a predicate on entries that does not look at the route -/
def RouteFree (q : AField → Bool) : Prop := ∀ r f, q (reroute r f) = q f

theorem fieldsOf_filter_reroute (ts : Types) (u : UTab) (q : AField → Bool) (hq : RouteFree q) (r : List Nat) (T : Nat) :
    (fieldsOf ts u (r, T)).filter q = ((fieldsOf ts u ([], T)).filter q).map (reroute r) := by
  rw [fieldsOf_reroute, List.filter_map]
  congr 1
  apply List.filter_congr
  intro f _
  exact hq r f

theorem fieldsOf_filter_length (ts : Types) (u : UTab) (q : AField → Bool) (hq : RouteFree q) (r r' : List Nat) (T : Nat) :
    ((fieldsOf ts u (r, T)).filter q).length = ((fieldsOf ts u (r', T)).filter q).length := by
  rw [fieldsOf_filter_reroute ts u q hq r, fieldsOf_filter_reroute ts u q hq r']
  simp

theorem routeFree_name (n : Bytes) : RouteFree (fun x => x.name == n) := fun _ _ => rfl
theorem routeFree_name_tagged (n : Bytes) : RouteFree (fun x => x.name == n && x.tagged) := fun _ _ => rfl

/-! ### list algebra: grouping by key, swapping nested maps, capped sums -/

theorem group_perm {α : Type} (key : α → Nat) : ∀ (ks : List Nat) (U : List α), ks.Nodup →
    (∀ x ∈ U, key x ∈ ks) → U.Perm (ks.flatMap (fun t => U.filter (fun x => key x == t))) := by
  intro ks
  induction ks with
  | nil =>
    intro U _ h
    cases U with
    | nil => exact Perm.refl _
    | cons a U => exact absurd (h a (by simp)) (by simp)
  | cons t ks ih =>
    intro U hnd h
    rw [List.nodup_cons] at hnd
    simp only [List.flatMap_cons]
    have h1 : U.Perm (U.filter (fun x => key x == t) ++ U.filter (fun x => !(key x == t))) :=
      (List.filter_append_perm _ U).symm
    refine h1.trans (Perm.append_left _ ?_)
    have h2 := ih (U.filter (fun x => !(key x == t))) hnd.2 (by
      intro x hx
      rw [List.mem_filter] at hx
      have := h x hx.1
      rw [List.mem_cons] at this
      rcases this with e | e
      · simp [e] at hx
      · exact e)
    refine h2.trans (Perm.of_eq ?_)
    apply flatMap_congr'
    intro t' ht'
    rw [List.filter_filter]
    apply List.filter_congr
    intro x _
    by_cases e : key x = t'
    · have : ¬ key x = t := by rintro rfl; rw [e] at hnd; exact hnd.1 ht'
      simp [e, this]
      intro e'; rw [← e'] at hnd; exact hnd.1 ht'
    · simp [e]

theorem flatMap_singleton_map {α β : Type} (f : α → β) : ∀ (l : List α), l.flatMap (fun b => [f b]) = l.map f := by
  intro l
  induction l with
  | nil => rfl
  | cons a l ih => simp [ih]

theorem flatMap_cons_perm {α β : Type} (l : List α) (f : α → β) (g : α → List β) :
    (l.flatMap (fun b => f b :: g b)).Perm (l.map f ++ l.flatMap g) := by
  have h := flatMap_append_perm l (fun b => [f b]) g
  rw [flatMap_singleton_map] at h
  simpa using h

theorem flatMap_map_swap {α β γ : Type} (F : α → β → γ) : ∀ (l1 : List α) (l2 : List β),
    (l1.flatMap (fun a => l2.map (F a))).Perm (l2.flatMap (fun b => l1.map (fun a => F a b))) := by
  intro l1
  induction l1 with
  | nil => intro l2; simp
  | cons a l1 ih =>
    intro l2
    simp only [List.flatMap_cons, List.map_cons]
    refine (Perm.append_left _ (ih l2)).trans ?_
    exact (flatMap_cons_perm l2 (F a) (fun b => l1.map (fun a => F a b))).symm

theorem le_sum_of_mem {α : Type} (f : α → Nat) : ∀ (l : List α) (c : α), c ∈ l → f c ≤ (l.map f).sum := by
  intro l
  induction l with
  | nil => intro c h; simp at h
  | cons a l ih =>
    intro c h
    simp only [List.map_cons, List.sum_cons]
    rw [List.mem_cons] at h
    rcases h with rfl | h
    · omega
    · have := ih c h; omega

theorem cap_sum {α : Type} (w a e : α → Nat) : ∀ (l : List α),
    (∀ c ∈ l, 1 ≤ w c ∧ 1 ≤ a c ∧ min (w c) 2 = min (a c) 2) →
    min ((l.map (fun c => w c * e c)).sum) 2 = min ((l.map (fun c => a c * e c)).sum) 2 := by
  intro l
  induction l with
  | nil => intro _; rfl
  | cons c l ih =>
    intro h
    have ih' := ih (fun c hc => h c (by simp [hc]))
    obtain ⟨hw, ha, hm⟩ := h c (by simp)
    simp only [List.map_cons, List.sum_cons]
    rcases Nat.lt_trichotomy (e c) 1 with he | he | he
    · have : e c = 0 := by omega
      simp only [this, Nat.mul_zero, Nat.zero_add]
      exact ih'
    · simp only [he, Nat.mul_one]
      omega
    · have h1 : 2 ≤ w c * e c := by
        calc 2 = 1 * 2 := rfl
          _ ≤ w c * e c := Nat.mul_le_mul hw he
      have h2 : 2 ≤ a c * e c := by
        calc 2 = 1 * 2 := rfl
          _ ≤ a c * e c := Nat.mul_le_mul ha he
      omega

theorem length_flatMap_const {α β : Type} (f : α → List β) (e : Nat) : ∀ (l : List α),
    (∀ x ∈ l, (f x).length = e) → (l.flatMap f).length = l.length * e := by
  intro l
  induction l with
  | nil => intro _; simp
  | cons a l ih =>
    intro h
    simp only [List.flatMap_cons, List.length_append, List.length_cons]
    rw [h a (by simp), ih (fun x hx => h x (by simp [hx])), Nat.add_mul]
    omega

theorem eq_of_nodup_map {α : Type} (key : α → Nat) : ∀ (l : List α), (l.map key).Nodup →
    ∀ a b, a ∈ l → b ∈ l → key a = key b → a = b := by
  intro l
  induction l with
  | nil => intro _ a b ha; simp at ha
  | cons c l ih =>
    intro hnd a b ha hb hk
    simp only [List.map_cons, List.nodup_cons, List.mem_map, not_exists, not_and] at hnd
    rw [List.mem_cons] at ha hb
    rcases ha with rfl | ha <;> rcases hb with rfl | hb
    · rfl
    · exact absurd hk.symm (hnd.1 b hb)
    · exact absurd hk (hnd.1 a ha)
    · exact ih hnd.2 a b ha hb hk

theorem filter_dupl (d : Bool) (q : AField → Bool) (l : List AField) : (dupl d l).filter q = dupl d (l.filter q) := by
  cases d
  · rfl
  · simp only [dupl, if_true]
    induction l with
    | nil => rfl
    | cons a l ih =>
      simp only [List.flatMap_cons, List.filter_append, ih, List.filter_cons]
      cases q a <;> simp

theorem length_dupl (d : Bool) (l : List AField) : (dupl d l).length = (if d then 2 else 1) * l.length := by
  cases d
  · simp [dupl]
  · simp only [dupl, if_true]
    rw [length_flatMap_const _ 2 l (by intro x _; rfl)]
    omega

/-! ### representatives: one processed node per unvisited type, flagged when the type occurs twice -/

structure Rep (P : List Node) (flag : Node → Bool) (U : List XNode) : Prop where
  nd : (P.map (·.2)).Nodup
  b : ∀ c ∈ P, ∃ x ∈ U, x.2.2 = c.2
  c : ∀ x ∈ U, ∃ c ∈ P, c.2 = x.2.2
  d : ∀ x ∈ U, U.countP (fun y => y.2.2 == x.2.2) = 1 → x.2 ∈ P
  f : ∀ c ∈ P, (flag c = true ↔ 2 ≤ U.countP (fun y => y.2.2 == c.2))

theorem Rep.group {P : List Node} {flag : Node → Bool} {U : List XNode} (h : Rep P flag U) :
    U.Perm (P.flatMap (fun c => U.filter (fun x => x.2.2 == c.2))) := by
  have := group_perm (fun x : XNode => x.2.2) (P.map (·.2)) U h.nd (by
    intro x hx
    obtain ⟨c, hc, e⟩ := h.c x hx
    rw [List.mem_map]
    exact ⟨c, hc, e⟩)
  rw [List.flatMap_map] at this
  exact this

theorem rep_cap2 (ts : Types) (u : UTab) {P : List Node} {flag : Node → Bool} {U : List XNode} (h : Rep P flag U)
    (q : AField → Bool) (hq : RouteFree q) :
    Cap2 ((P.flatMap (fun c => dupl (flag c) (fieldsOf ts u c))).filter q)
      ((U.flatMap (fun x => fieldsOf ts u x.2)).filter q) := by
  -- lengths as weighted sums over `P`
  have hL : ((P.flatMap (fun c => dupl (flag c) (fieldsOf ts u c))).filter q).length =
      (P.map (fun c => (if flag c then 2 else 1) * ((fieldsOf ts u c).filter q).length)).sum := by
    rw [List.filter_flatMap, List.length_flatMap]
    congr 1
    apply List.map_congr_left
    intro c _
    rw [filter_dupl, length_dupl]
  have hRl : ((U.flatMap (fun x => fieldsOf ts u x.2)).filter q).length =
      (P.map (fun c => U.countP (fun y => y.2.2 == c.2) * ((fieldsOf ts u c).filter q).length)).sum := by
    have hp := ((h.group.flatMap_right (fun x => fieldsOf ts u x.2)).filter q).length_eq
    rw [hp, List.flatMap_assoc, List.filter_flatMap, List.length_flatMap]
    congr 1
    apply List.map_congr_left
    intro c _
    rw [List.filter_flatMap, List.countP_eq_length_filter]
    apply length_flatMap_const
    intro x hx
    have hx2 : x.2.2 = c.2 := by simpa using (List.mem_filter.mp hx).2
    have : x.2 = (x.2.1, c.2) := by rw [← hx2]
    rw [this]
    exact fieldsOf_filter_length ts u q hq x.2.1 c.1 c.2
  have hcap := cap_sum (fun c => if flag c then 2 else 1) (fun c => U.countP (fun y => y.2.2 == c.2))
    (fun c => ((fieldsOf ts u c).filter q).length) P (by
      intro c hc
      obtain ⟨x, hx, hxt⟩ := h.b c hc
      have hpos : 1 ≤ U.countP (fun y => y.2.2 == c.2) := by
        have : 0 < U.countP (fun y => y.2.2 == c.2) := List.countP_pos_iff.mpr ⟨x, hx, by simp [hxt]⟩
        omega
      have hf := h.f c hc
      cases hfl : flag c with
      | true =>
        have := hf.mp hfl
        simp only [if_true]
        omega
      | false =>
        have : ¬ 2 ≤ U.countP (fun y => y.2.2 == c.2) := by
          intro h2; have := hf.mpr h2; rw [hfl] at this; cases this
        simp only [Bool.false_eq_true, if_false]
        omega)
  apply cap2_of_length
  · rw [hL, hRl]; exact hcap
  · intro t ht
    have hlen1 : ((P.flatMap (fun c => dupl (flag c) (fieldsOf ts u c))).filter q).length = 1 := by rw [ht]; rfl
    have htm : t ∈ (P.flatMap (fun c => dupl (flag c) (fieldsOf ts u c))).filter q := by rw [ht]; simp
    rw [List.mem_filter, List.mem_flatMap] at htm
    obtain ⟨⟨c0, hc0, htc⟩, hqt⟩ := htm
    rw [mem_dupl] at htc
    have he : 1 ≤ ((fieldsOf ts u c0).filter q).length := by
      have : 0 < ((fieldsOf ts u c0).filter q).length :=
        List.length_pos_iff_exists_mem.mpr ⟨t, List.mem_filter.mpr ⟨htc, hqt⟩⟩
      omega
    have hterm := le_sum_of_mem (fun c => (if flag c then 2 else 1) * ((fieldsOf ts u c).filter q).length) P c0 hc0
    rw [← hL, hlen1] at hterm
    have hflag : flag c0 = false := by
      cases hfl : flag c0 with
      | false => rfl
      | true =>
        simp only [hfl, if_true] at hterm
        omega
    obtain ⟨x0, hx0, hx0t⟩ := h.b c0 hc0
    have hcnt : U.countP (fun y => y.2.2 == x0.2.2) = 1 := by
      rw [hx0t]
      have h1 : 0 < U.countP (fun y => y.2.2 == c0.2) := List.countP_pos_iff.mpr ⟨x0, hx0, by simp [hx0t]⟩
      have h2 : ¬ 2 ≤ U.countP (fun y => y.2.2 == c0.2) := by
        intro h2; have := (h.f c0 hc0).mpr h2; rw [hflag] at this; cases this
      omega
    have hx0P := h.d x0 hx0 hcnt
    have heq : x0.2 = c0 := eq_of_nodup_map (·.2) P h.nd x0.2 c0 hx0P hc0 hx0t
    rw [List.mem_filter, List.mem_flatMap]
    exact ⟨⟨x0, hx0, by rw [heq]; exact htc⟩, hqt⟩

/-! ### the next-level queue, with multiplicities -/

/-- a queued child together with the tree nodes it stands for -/
structure Ent where
  flag : Bool
  node : Node
  cps : List XNode

def Ent.WF (e : Ent) : Prop :=
  e.cps ≠ [] ∧ (∀ x ∈ e.cps, x.2.2 = e.node.2) ∧ (e.flag = true ↔ 2 ≤ e.cps.length) ∧
  (e.cps.length = 1 → ∀ x ∈ e.cps, x.2 = e.node)

structure EJ (q : List Node × List (Nat × Nat)) (X : List XNode) : Prop where
  e1 : ∀ W, (q.2.lookup W).getD 0 = 0 ↔ X.countP (fun y => y.2.2 == W) = 0
  e2 : ∀ W, 2 ≤ (q.2.lookup W).getD 0 ↔ 2 ≤ X.countP (fun y => y.2.2 == W)
  e3 : (q.1.map (·.2)).Nodup
  e4 : ∀ c ∈ q.1, ∃ x ∈ X, x.2.2 = c.2
  e5 : ∀ x ∈ X, ∃ c ∈ q.1, c.2 = x.2.2
  e6 : ∀ x ∈ X, X.countP (fun y => y.2.2 == x.2.2) = 1 → x.2 ∈ q.1

theorem enq_count_gen (d : Bool) (q : List Node × List (Nat × Nat)) (c : Node) (t : Nat) :
    ((enq d q c).2.lookup t).getD 0 =
      if t = c.2 then (if d then 2 else (q.2.lookup c.2).getD 0 + 1) else (q.2.lookup t).getD 0 := by
  simp only [enq, List.lookup_cons]
  by_cases h : t = c.2
  · subst h; simp
  · have h1 : (t == c.2) = false := by simp [h]
    simp only [h1, h, if_false]
    rw [lookup_filter_ne c.2 t h]

theorem countP_type_of_all {W0 : Nat} (cps : List XNode) (h : ∀ x ∈ cps, x.2.2 = W0) (W : Nat) :
    cps.countP (fun y => y.2.2 == W) = if W = W0 then cps.length else 0 := by
  by_cases e : W = W0
  · subst e
    simp only [if_true]
    rw [List.countP_eq_length_filter, List.filter_eq_self.mpr]
    intro x hx; simp [h x hx]
  · simp only [e, if_false]
    rw [List.countP_eq_zero]
    intro x hx
    simp [h x hx]; exact fun e' => e e'.symm

theorem EJ.step {q : List Node × List (Nat × Nat)} {X : List XNode} (h : EJ q X) (e : Ent) (hw : e.WF) :
    EJ (enq e.flag q e.node) (X ++ e.cps) := by
  obtain ⟨hne, hty, hfl, hone⟩ := hw
  have hlen : 1 ≤ e.cps.length := by
    have : 0 < e.cps.length := List.length_pos_iff.mpr hne
    omega
  have hcnt : ∀ W, (X ++ e.cps).countP (fun y => y.2.2 == W) =
      X.countP (fun y => y.2.2 == W) + if W = e.node.2 then e.cps.length else 0 := by
    intro W; rw [List.countP_append, countP_type_of_all e.cps hty W]
  have h1 := h.e1 e.node.2
  have h2 := h.e2 e.node.2
  refine ⟨?_, ?_, ?_, ?_, ?_, ?_⟩
  · intro W
    rw [enq_count_gen, hcnt]
    by_cases hW : W = e.node.2
    · simp only [hW, if_true]
      cases e.flag
      · simp only [Bool.false_eq_true, if_false]; omega
      · simp only [if_true]; omega
    · simp only [hW, if_false, Nat.add_zero]
      exact h.e1 W
  · intro W
    rw [enq_count_gen, hcnt]
    by_cases hW : W = e.node.2
    · simp only [hW, if_true]
      cases hf : e.flag with
      | true =>
        have := hfl.mp hf
        simp only [if_true]
        omega
      | false =>
        have : ¬ 2 ≤ e.cps.length := by intro h'; have := hfl.mpr h'; rw [hf] at this; cases this
        simp only [Bool.false_eq_true, if_false]
        omega
    · simp only [hW, if_false, Nat.add_zero]
      exact h.e2 W
  · simp only [enq]
    split
    · rename_i h0
      simp only [beq_iff_eq] at h0
      rw [List.map_append, List.nodup_append]
      refine ⟨h.e3, by simp, ?_⟩
      intro a ha b hb
      simp only [List.map_cons, List.map_nil, List.mem_singleton] at hb
      subst hb
      rw [List.mem_map] at ha
      obtain ⟨c, hc, rfl⟩ := ha
      intro heq
      obtain ⟨x, hx, hxt⟩ := h.e4 c hc
      have : 0 < X.countP (fun y => y.2.2 == e.node.2) :=
        List.countP_pos_iff.mpr ⟨x, hx, by simp [hxt, heq]⟩
      have := h1.mp h0
      omega
    · exact h.e3
  · intro c hc
    simp only [enq] at hc
    have hold : ∀ c ∈ q.1, ∃ x ∈ X ++ e.cps, x.2.2 = c.2 := by
      intro c hc
      obtain ⟨x, hx, hxt⟩ := h.e4 c hc
      exact ⟨x, List.mem_append_left _ hx, hxt⟩
    split at hc
    · rw [List.mem_append] at hc
      rcases hc with hc | hc
      · exact hold c hc
      · simp only [List.mem_singleton] at hc
        subst hc
        cases hcps : e.cps with
        | nil => exact absurd hcps hne
        | cons x r =>
          exact ⟨x, by simp, hty x (by rw [hcps]; simp)⟩
    · exact hold c hc
  · intro x hx
    rw [List.mem_append] at hx
    simp only [enq]
    rcases hx with hx | hx
    · obtain ⟨c, hc, hct⟩ := h.e5 x hx
      refine ⟨c, ?_, hct⟩
      split
      · exact List.mem_append_left _ hc
      · exact hc
    · have hxt := hty x hx
      split
      · exact ⟨e.node, by simp, hxt.symm⟩
      · rename_i h0
        simp only [beq_iff_eq] at h0
        have : 0 < X.countP (fun y => y.2.2 == e.node.2) := by
          have : ¬ X.countP (fun y => y.2.2 == e.node.2) = 0 := fun hh => h0 (h1.mpr hh)
          omega
        obtain ⟨x', hx', hxt'⟩ := List.countP_pos_iff.mp this
        obtain ⟨c, hc, hct⟩ := h.e5 x' hx'
        refine ⟨c, hc, ?_⟩
        rw [hct, hxt]
        simpa using hxt'
  · intro x hx hc1
    rw [hcnt] at hc1
    rw [List.mem_append] at hx
    simp only [enq]
    by_cases hW : x.2.2 = e.node.2
    · simp only [hW, if_true] at hc1
      have hm0 : X.countP (fun y => y.2.2 == e.node.2) = 0 := by omega
      have ha1 : e.cps.length = 1 := by omega
      have hxc : x ∈ e.cps := by
        rcases hx with hx | hx
        · exfalso
          rw [List.countP_eq_zero] at hm0
          exact hm0 x hx (by simp [hW])
        · exact hx
      have hnode := hone ha1 x hxc
      have h0 := h1.mpr hm0
      have : ((q.2.lookup e.node.2).getD 0 == 0) = true := by simp [h0]
      simp only [this, if_true]
      rw [hnode]; simp
    · simp only [hW, if_false, Nat.add_zero] at hc1
      have hxX : x ∈ X := by
        rcases hx with hx | hx
        · exact hx
        · exact absurd (hty x hx) hW
      have := h.e6 x hxX hc1
      split
      · exact List.mem_append_left _ this
      · exact this

theorem EJ.nil : EJ ([], []) [] := by
  refine ⟨?_, ?_, ?_, ?_, ?_, ?_⟩ <;> simp

theorem EJ.foldl : ∀ (E : List Ent) (q : List Node × List (Nat × Nat)) (X : List XNode), EJ q X →
    (∀ e ∈ E, e.WF) → EJ (E.foldl (fun q e => enq e.flag q e.node) q) (X ++ E.flatMap (·.cps)) := by
  intro E
  induction E with
  | nil => intro q X h _; simpa using h
  | cons e E ih =>
    intro q X h hw
    rw [List.foldl_cons, List.flatMap_cons, ← List.append_assoc]
    exact ih _ _ (h.step e (hw e (by simp))) (fun e' he' => hw e' (by simp [he']))

theorem EJ.perm {q : List Node × List (Nat × Nat)} {X X' : List XNode} (h : EJ q X) (hp : X.Perm X') : EJ q X' := by
  have hc : ∀ W, X.countP (fun y => y.2.2 == W) = X'.countP (fun y => y.2.2 == W) := fun W => hp.countP_eq _
  refine ⟨?_, ?_, h.e3, ?_, ?_, ?_⟩
  · intro W; rw [← hc]; exact h.e1 W
  · intro W; rw [← hc]; exact h.e2 W
  · intro c hc'
    obtain ⟨x, hx, hxt⟩ := h.e4 c hc'
    exact ⟨x, hp.mem_iff.mp hx, hxt⟩
  · intro x hx; exact h.e5 x (hp.mem_iff.mpr hx)
  · intro x hx h1
    rw [← hc] at h1
    exact h.e6 x (hp.mem_iff.mpr hx) h1

/-! ### one BFS level, general form -/

def flagOf (count : List (Nat × Nat)) (c : Node) : Bool := decide ((count.lookup c.2).getD 0 > 1)

theorem outer_fold_gen (ts : Types) (u : UTab) (count : List (Nat × Nat)) :
    ∀ (current : List Node) (F : List AField) (Q : List Node) (C : List (Nat × Nat)) (V : List Nat),
    ((current.filter (fun c => !V.contains c.2)).map (·.2)).Nodup →
    current.foldl (outerStep ts u count) (F, Q, C, V) =
      (F ++ (current.filter (fun c => !V.contains c.2)).flatMap
              (fun c => dupl (flagOf count c) (fieldsOf ts u c)),
       ((current.filter (fun c => !V.contains c.2)).foldl
          (fun q c => (childrenOf ts u c).foldl (enq (flagOf count c)) q) (Q, C)).1,
       ((current.filter (fun c => !V.contains c.2)).foldl
          (fun q c => (childrenOf ts u c).foldl (enq (flagOf count c)) q) (Q, C)).2,
       ((current.filter (fun c => !V.contains c.2)).map (·.2)).reverse ++ V) := by
  intro current
  induction current with
  | nil => intro F Q C V _; simp
  | cons c cs ih =>
    intro F Q C V hnd
    rw [List.foldl_cons]
    by_cases hv : V.contains c.2 = true
    · have hstep : outerStep ts u count (F, Q, C, V) c = (F, Q, C, V) := by simp only [outerStep, hv, if_true]
      have hfil : (c :: cs).filter (fun c => !V.contains c.2) = cs.filter (fun c => !V.contains c.2) := by
        rw [List.filter_cons]; simp only [hv, Bool.not_true, Bool.false_eq_true, if_false]
      rw [hstep, hfil]
      rw [hfil] at hnd
      exact ih F Q C V hnd
    · have hv' : V.contains c.2 = false := by simpa using hv
      have hfil : (c :: cs).filter (fun c => !V.contains c.2) = c :: cs.filter (fun c => !V.contains c.2) := by
        rw [List.filter_cons]; simp only [hv', Bool.not_false, if_true]
      have hstep : outerStep ts u count (F, Q, C, V) c =
          (F ++ dupl (flagOf count c) (fieldsOf ts u c),
           (List.foldl (enq (flagOf count c)) (Q, C) (childrenOf ts u c)).1,
           (List.foldl (enq (flagOf count c)) (Q, C) (childrenOf ts u c)).2, c.2 :: V) := by
        simp only [outerStep, hv', Bool.false_eq_true, if_false, flagOf]
      rw [hfil, List.map_cons, List.nodup_cons] at hnd
      have hfil2 : cs.filter (fun x => !(c.2 :: V).contains x.2) = cs.filter (fun x => !V.contains x.2) := by
        apply List.filter_congr
        intro x hx
        cases hxv : V.contains x.2 with
        | true => simp only [List.contains_cons, hxv, Bool.or_true]
        | false =>
          have hne : x.2 ≠ c.2 := by
            intro e
            apply hnd.1
            rw [List.mem_map]
            exact ⟨x, List.mem_filter.mpr ⟨hx, by simp only [hxv, Bool.not_false]⟩, e⟩
          have hb : (x.2 == c.2) = false := by simp [hne]
          simp only [List.contains_cons, hxv, hb, Bool.or_false]
      rw [hstep, ih _ _ _ (c.2 :: V) (by rw [hfil2]; exact hnd.2), hfil2, hfil]
      simp only [List.flatMap_cons, List.foldl_cons, List.map_cons, List.reverse_cons, List.append_assoc,
        List.singleton_append]

/-- the entries queued by one level: each child of a representative, with the children of all its copies -/
def ents (ts : Types) (u : UTab) (flag : Node → Bool) (U : List XNode) (P : List Node) : List Ent :=
  P.flatMap fun c => (childrenOf ts u ([], c.2)).map fun k =>
    ⟨flag c, pre c.1 k, (U.filter (fun x => x.2.2 == c.2)).map fun x => (c.2 :: x.1, pre x.2.1 k)⟩

theorem ents_fold (ts : Types) (u : UTab) (flag : Node → Bool) (U : List XNode) (P : List Node)
    (q : List Node × List (Nat × Nat)) :
    P.foldl (fun q c => (childrenOf ts u c).foldl (enq (flag c)) q) q =
      (ents ts u flag U P).foldl (fun q e => enq e.flag q e.node) q := by
  unfold ents
  rw [List.foldl_flatMap]
  congr 1
  funext q c
  rw [List.foldl_map]
  have : childrenOf ts u c = (childrenOf ts u ([], c.2)).map (pre c.1) := childrenOf_pre ts u c.1 c.2
  rw [this, List.foldl_map]

theorem xchildren_tpl (ts : Types) (u : UTab) (x : XNode) :
    xchildren ts u x = (childrenOf ts u ([], x.2.2)).map (fun k => (x.2.2 :: x.1, pre x.2.1 k)) := by
  unfold xchildren
  have : childrenOf ts u x.2 = (childrenOf ts u ([], x.2.2)).map (pre x.2.1) := childrenOf_pre ts u x.2.1 x.2.2
  rw [this, List.map_map]
  rfl

theorem ents_cps_perm (ts : Types) (u : UTab) (flag flag' : Node → Bool) (U : List XNode) (P : List Node)
    (h : Rep P flag' U) : ((ents ts u flag U P).flatMap (·.cps)).Perm (U.flatMap (xchildren ts u)) := by
  unfold ents
  rw [List.flatMap_assoc]
  have h1 : (P.flatMap (fun c => ((childrenOf ts u ([], c.2)).map fun k =>
      (⟨flag c, pre c.1 k, (U.filter (fun x => x.2.2 == c.2)).map fun x => (c.2 :: x.1, pre x.2.1 k)⟩ : Ent)).flatMap
        (·.cps))).Perm
      (P.flatMap (fun c => (U.filter (fun x => x.2.2 == c.2)).flatMap (xchildren ts u))) := by
    apply perm_flatMap_left
    intro c _
    rw [List.flatMap_map]
    simp only []
    refine (flatMap_map_swap (fun (k : Node) (x : XNode) => ((c.2 :: x.1, pre x.2.1 k) : XNode))
      (childrenOf ts u ([], c.2)) (U.filter (fun x => x.2.2 == c.2))).trans (Perm.of_eq ?_)
    apply flatMap_congr'
    intro x hx
    have hx2 : x.2.2 = c.2 := by simpa using (List.mem_filter.mp hx).2
    rw [xchildren_tpl, hx2]
  refine h1.trans ?_
  rw [← List.flatMap_assoc]
  exact h.group.symm.flatMap_right _

theorem ents_wf (ts : Types) (u : UTab) (flag : Node → Bool) (U : List XNode) (P : List Node)
    (h : Rep P flag U) : ∀ e ∈ ents ts u flag U P, e.WF := by
  intro e he
  unfold ents at he
  rw [List.mem_flatMap] at he
  obtain ⟨c, hc, he⟩ := he
  rw [List.mem_map] at he
  obtain ⟨k, _, rfl⟩ := he
  obtain ⟨x0, hx0, hx0t⟩ := h.b c hc
  have hlen : ((U.filter (fun x => x.2.2 == c.2)).map fun x => ((c.2 :: x.1, pre x.2.1 k) : XNode)).length =
      U.countP (fun y => y.2.2 == c.2) := by
    rw [List.length_map, List.countP_eq_length_filter]
  refine ⟨?_, ?_, ?_, ?_⟩
  · intro hnil
    have : x0 ∈ U.filter (fun x => x.2.2 == c.2) := List.mem_filter.mpr ⟨hx0, by simp [hx0t]⟩
    simp only [List.map_eq_nil_iff] at hnil
    rw [hnil] at this
    simp at this
  · intro x hx
    simp only [List.mem_map] at hx
    obtain ⟨y, _, rfl⟩ := hx
    rfl
  · simp only []
    rw [hlen]
    exact h.f c hc
  · simp only []
    rw [hlen]
    intro h1 x hx
    simp only [List.mem_map] at hx
    obtain ⟨y, hy, rfl⟩ := hx
    rw [List.mem_filter] at hy
    have hyt : y.2.2 = c.2 := by simpa using hy.2
    have hyP := h.d y hy.1 (by rw [hyt]; exact h1)
    have heq : y.2 = c := eq_of_nodup_map (·.2) P h.nd y.2 c hyP hc hyt
    rw [heq]

/-- the queue and counts after a level describe the children of the unvisited tree nodes -/
theorem level_queue (ts : Types) (u : UTab) (flag : Node → Bool) (U : List XNode) (P : List Node)
    (h : Rep P flag U) :
    EJ (P.foldl (fun q c => (childrenOf ts u c).foldl (enq (flag c)) q) ([], [])) (U.flatMap (xchildren ts u)) := by
  rw [ents_fold ts u flag U P]
  have := EJ.foldl (ents ts u flag U P) ([], []) [] EJ.nil (ents_wf ts u flag U P h)
  rw [List.nil_append] at this
  exact this.perm (ents_cps_perm ts u flag flag U P h)

/-! ### the BFS state against the tree frontier, general form -/

def unv (V : List Nat) (x : XNode) : Bool := !V.contains x.2.2

structure JInv (ts : Types) (u : UTab) (k : Nat) (ns : List XNode) (current : List Node)
    (count : List (Nat × Nat)) (visited : List Nat) : Prop where
  paths : ∀ x ∈ ns, ∀ t ∈ x.1, t ∈ visited
  closure : ∀ T ∈ visited, ∀ W ∈ childTypes ts u T, W ∈ visited ∨ ∃ x ∈ ns.filter (unv visited), x.2.2 = W
  rep : Rep (current.filter (fun c => !visited.contains c.2)) (flagOf count) (ns.filter (unv visited))
  depthN : ∀ x ∈ ns, x.2.1.length = k
  depthC : ∀ c ∈ current, c.1.length = k

theorem unv_iff (V : List Nat) (x : XNode) : unv V x = true ↔ x.2.2 ∉ V := by
  simp [unv]

theorem mem_xchildren (ts : Types) (u : UTab) (x y : XNode) (h : y ∈ xchildren ts u x) :
    y.1 = x.2.2 :: x.1 ∧ y.2 ∈ childrenOf ts u x.2 ∧ y.2.2 ∈ childTypes ts u x.2.2 := by
  unfold xchildren at h
  rw [List.mem_map] at h
  obtain ⟨c, hc, rfl⟩ := h
  refine ⟨rfl, hc, ?_⟩
  rw [← childrenOf_types ts u x.2.1 x.2.2, List.mem_map]
  exact ⟨c, hc, rfl⟩

theorem childTypes_mem (ts : Types) (u : UTab) (x : XNode) (W : Nat) (h : W ∈ childTypes ts u x.2.2) :
    ∃ y ∈ xchildren ts u x, y.2.2 = W := by
  rw [← childrenOf_types ts u x.2.1 x.2.2, List.mem_map] at h
  obtain ⟨c, hc, rfl⟩ := h
  exact ⟨(x.2.2 :: x.1, c), by unfold xchildren; rw [List.mem_map]; exact ⟨c, hc, rfl⟩, rfl⟩

theorem child_route_length (ts : Types) (u : UTab) (c n : Node) (h : n ∈ childrenOf ts u c) :
    n.1.length = c.1.length + 1 := by
  obtain ⟨fds, sf, i, _, _, hm⟩ := mem_childrenOf ts u c n h
  obtain ⟨rfl, _⟩ := mem_childOut ts u c.1 sf i n hm
  simp

theorem mem_foldl_level (ts : Types) (u : UTab) (flag : Node → Bool) : ∀ (P : List Node)
    (q : List Node × List (Nat × Nat)) (n : Node),
    n ∈ (P.foldl (fun q c => (childrenOf ts u c).foldl (enq (flag c)) q) q).1 →
    n ∈ q.1 ∨ ∃ c ∈ P, n ∈ childrenOf ts u c := by
  intro P
  induction P with
  | nil => intro q n h; exact Or.inl h
  | cons c P ih =>
    intro q n h
    rw [List.foldl_cons] at h
    rcases ih _ n h with h | ⟨c', hc', h⟩
    · rcases mem_foldl_enq _ _ _ n h with h | h
      · exact Or.inl h
      · exact Or.inr ⟨c, by simp, h⟩
    · exact Or.inr ⟨c', by simp [hc'], h⟩

theorem JInv.step {ts : Types} {u : UTab} {k : Nat} {ns : List XNode} {current : List Node}
    {count : List (Nat × Nat)} {visited : List Nat} (J : JInv ts u k ns current count visited) :
    JInv ts u (k + 1) (nextX ts u ns)
      ((current.filter (fun c => !visited.contains c.2)).foldl
        (fun q c => (childrenOf ts u c).foldl (enq (flagOf count c)) q) ([], [])).1
      ((current.filter (fun c => !visited.contains c.2)).foldl
        (fun q c => (childrenOf ts u c).foldl (enq (flagOf count c)) q) ([], [])).2
      (((current.filter (fun c => !visited.contains c.2)).map (·.2)).reverse ++ visited) := by
  have hEJ := level_queue ts u (flagOf count) _ _ J.rep
  generalize hP : current.filter (fun c => !visited.contains c.2) = P at hEJ ⊢
  generalize hq : P.foldl (fun q c => (childrenOf ts u c).foldl (enq (flagOf count c)) q) ([], []) = q at hEJ ⊢
  have hrep := J.rep
  rw [hP] at hrep
  generalize hU : ns.filter (unv visited) = U at hEJ hrep
  have hvis : ∀ t, t ∈ (P.map (·.2)).reverse ++ visited ↔ t ∈ P.map (·.2) ∨ t ∈ visited := by
    intro t; simp
  -- unvisited nodes are live
  have hlive : ∀ x ∈ ns, unv visited x = true → xlive x = true := by
    intro x hx hu
    rw [unv_iff] at hu
    unfold xlive
    cases hc : x.1.contains x.2.2 with
    | false => rfl
    | true => exact absurd (J.paths x hx _ (by simpa using hc)) hu
  -- types of unvisited nodes are types of representatives
  have hUP : ∀ x ∈ U, x.2.2 ∈ P.map (·.2) := by
    intro x hx
    obtain ⟨c, hc, e⟩ := hrep.c x hx
    rw [List.mem_map]; exact ⟨c, hc, e⟩
  -- the unvisited part of the next frontier
  have hU' : (nextX ts u ns).filter (unv ((P.map (·.2)).reverse ++ visited)) =
      (U.flatMap (xchildren ts u)).filter (unv ((P.map (·.2)).reverse ++ visited)) := by
    unfold nextX
    rw [List.filter_flatMap, List.filter_flatMap, ← hU]
    have : ns.filter (unv visited) = (ns.filter xlive).filter (unv visited) := by
      rw [List.filter_filter]
      apply List.filter_congr
      intro x hx
      cases hu : unv visited x with
      | false => simp
      | true => simp [hlive x hx hu]
    rw [this]
    generalize ns.filter xlive = L
    induction L with
    | nil => rfl
    | cons x L ih =>
      rw [List.filter_cons]
      cases hu : unv visited x with
      | true => simp only [if_true, List.flatMap_cons, ih]
      | false =>
        simp only [Bool.false_eq_true, if_false, List.flatMap_cons, ih]
        have : (xchildren ts u x).filter (unv ((P.map (·.2)).reverse ++ visited)) = [] := by
          rw [List.filter_eq_nil_iff]
          intro y hy
          obtain ⟨_, _, hyt⟩ := mem_xchildren ts u x y hy
          have hxv : x.2.2 ∈ visited := by
            have : ¬ (unv visited x = true) := by rw [hu]; simp
            rw [unv_iff] at this
            exact Classical.not_not.mp this
          rw [unv_iff, Classical.not_not, hvis]
          rcases J.closure _ hxv _ hyt with h | ⟨z, hz, hzt⟩
          · exact Or.inr h
          · rw [hU] at hz
            rw [← hzt]
            exact Or.inl (hUP z hz)
        rw [this, List.nil_append]
  have hcountP : ∀ W, W ∉ (P.map (·.2)).reverse ++ visited →
      ((U.flatMap (xchildren ts u)).filter (unv ((P.map (·.2)).reverse ++ visited))).countP (fun y => y.2.2 == W) =
      (U.flatMap (xchildren ts u)).countP (fun y => y.2.2 == W) := by
    intro W hW
    rw [List.countP_filter]
    apply List.countP_congr
    intro y _
    simp only [Bool.and_eq_true, beq_iff_eq]
    constructor
    · exact fun h => h.1
    · intro h; exact ⟨h, by rw [unv_iff, h]; exact hW⟩
  refine ⟨?_, ?_, ?_, ?_, ?_⟩
  · -- paths
    intro y hy t ht
    obtain ⟨x, hx, hxl, hyp⟩ := mem_nextX ts u ns y hy
    rw [hyp, List.mem_cons] at ht
    rw [hvis]
    rcases ht with rfl | ht
    · by_cases hv : x.2.2 ∈ visited
      · exact Or.inr hv
      · left
        apply hUP
        rw [← hU, List.mem_filter, unv_iff]
        exact ⟨hx, hv⟩
    · exact Or.inr (J.paths x hx t ht)
  · -- closure
    intro T hT W hW
    rw [hvis] at hT
    by_cases hWv : W ∈ (P.map (·.2)).reverse ++ visited
    · exact Or.inl hWv
    · right
      rcases hT with hT | hT
      · rw [List.mem_map] at hT
        obtain ⟨c, hc, rfl⟩ := hT
        obtain ⟨x, hx, hxt⟩ := hrep.b c hc
        rw [← hxt] at hW
        obtain ⟨y, hy, hyt⟩ := childTypes_mem ts u x W hW
        refine ⟨y, ?_, hyt⟩
        rw [hU', List.mem_filter, unv_iff, hyt]
        exact ⟨List.mem_flatMap.mpr ⟨x, hx, hy⟩, hWv⟩
      · exfalso
        apply hWv
        rw [hvis]
        rcases J.closure T hT W hW with h | ⟨z, hz, hzt⟩
        · exact Or.inr h
        · rw [hU] at hz
          rw [← hzt]
          exact Or.inl (hUP z hz)
  · -- representatives
    rw [hU']
    refine ⟨?_, ?_, ?_, ?_, ?_⟩
    · exact List.Nodup.sublist (List.Sublist.map _ List.filter_sublist) hEJ.e3
    · intro c hc
      rw [List.mem_filter] at hc
      obtain ⟨x, hx, hxt⟩ := hEJ.e4 c hc.1
      refine ⟨x, ?_, hxt⟩
      rw [List.mem_filter, unv_iff, hxt]
      exact ⟨hx, by simpa using hc.2⟩
    · intro x hx
      rw [List.mem_filter] at hx
      obtain ⟨c, hc, hct⟩ := hEJ.e5 x hx.1
      refine ⟨c, ?_, hct⟩
      rw [List.mem_filter]
      refine ⟨hc, ?_⟩
      have := (unv_iff _ x).mp hx.2
      rw [hct]
      simpa using this
    · intro x hx h1
      rw [List.mem_filter] at hx
      have hxu := (unv_iff _ x).mp hx.2
      rw [hcountP _ hxu] at h1
      have := hEJ.e6 x hx.1 h1
      rw [List.mem_filter]
      exact ⟨this, by simpa using hxu⟩
    · intro c hc
      rw [List.mem_filter] at hc
      have hcu : c.2 ∉ (P.map (·.2)).reverse ++ visited := by simpa using hc.2
      rw [hcountP _ hcu, ← hEJ.e2 c.2]
      simp only [flagOf, decide_eq_true_eq]
      omega
  · intro y hy
    unfold nextX at hy
    rw [List.mem_flatMap] at hy
    obtain ⟨x, hx, hy⟩ := hy
    obtain ⟨_, hyc, _⟩ := mem_xchildren ts u x y hy
    rw [child_route_length ts u x.2 y.2 hyc, J.depthN x (List.mem_filter.mp hx).1]
  · intro n hn
    rw [← hq] at hn
    rcases mem_foldl_level ts u (flagOf count) P ([], []) n hn with h | ⟨c, hc, h⟩
    · simp at h
    · rw [child_route_length ts u c n h]
      rw [← hP] at hc
      rw [J.depthC c (List.mem_filter.mp hc).1]

/-! ### the main induction -/

theorem bfs_nil (ts : Types) (u : UTab) (fuel : Nat) (count : List (Nat × Nat)) (visited : List Nat) (acc : List AField) :
    bfs ts u fuel [] count visited acc = acc := by
  cases fuel <;> simp [bfs]

theorem bfs_step (ts : Types) (u : UTab) (fuel : Nat) (current : List Node) (count : List (Nat × Nat))
    (visited : List Nat) (acc : List AField)
    (hnd : ((current.filter (fun c => !visited.contains c.2)).map (·.2)).Nodup) :
    bfs ts u (fuel + 1) current count visited acc =
      bfs ts u fuel
        ((current.filter (fun c => !visited.contains c.2)).foldl
          (fun q c => (childrenOf ts u c).foldl (enq (flagOf count c)) q) ([], [])).1
        ((current.filter (fun c => !visited.contains c.2)).foldl
          (fun q c => (childrenOf ts u c).foldl (enq (flagOf count c)) q) ([], [])).2
        (((current.filter (fun c => !visited.contains c.2)).map (·.2)).reverse ++ visited)
        (acc ++ (current.filter (fun c => !visited.contains c.2)).flatMap
          (fun c => dupl (flagOf count c) (fieldsOf ts u c))) := by
  cases current with
  | nil => simp [bfs, bfs_nil]
  | cons c0 cs =>
    rw [bfs]
    · rw [scanLevel_eq, outer_fold_gen ts u count (c0 :: cs) [] [] [] visited hnd]
      simp only [List.nil_append]
    · intro h; cases h

theorem field_route_length (ts : Types) (u : UTab) (c : Node) (f : AField) (h : f ∈ fieldsOf ts u c) :
    f.route.length = c.1.length + 1 := by
  obtain ⟨fds, sf, i, _, _, hm⟩ := mem_fieldsOf ts u c f h
  obtain ⟨hr, _⟩ := mem_fieldOut ts u c.1 sf i f hm
  rw [hr]; simp

theorem field_name_template (ts : Types) (u : UTab) (c : Node) (f : AField) (h : f ∈ fieldsOf ts u c) :
    ∃ f0 ∈ fieldsOf ts u ([], c.2), f0.name = f.name := by
  have : fieldsOf ts u c = (fieldsOf ts u ([], c.2)).map (reroute c.1) := fieldsOf_reroute ts u c.1 c.2
  rw [this, List.mem_map] at h
  obtain ⟨f0, hf0, rfl⟩ := h
  exact ⟨f0, hf0, rfl⟩

theorem template_field_mem (ts : Types) (u : UTab) (c : Node) (f0 : AField) (h : f0 ∈ fieldsOf ts u ([], c.2)) :
    ∃ f ∈ fieldsOf ts u c, f.name = f0.name := by
  have : fieldsOf ts u c = (fieldsOf ts u ([], c.2)).map (reroute c.1) := fieldsOf_reroute ts u c.1 c.2
  refine ⟨reroute c.1 f0, ?_, rfl⟩
  rw [this, List.mem_map]
  exact ⟨f0, h, rfl⟩

theorem bfs_sel (ts : Types) (u : UTab) : ∀ (fuel k : Nat) (ns : List XNode) (current : List Node)
    (count : List (Nat × Nat)) (visited : List Nat) (acc acc' : List AField),
    JInv ts u k ns current count visited →
    (∀ T ∈ visited, ∀ f ∈ fieldsOf ts u ([], T), ∃ g ∈ acc, g.name = f.name) →
    (∀ f ∈ acc, f.route.length ≤ k) → (∀ f ∈ acc', f.route.length ≤ k) →
    (∀ n, (acc.filter (fun x => x.name == n) = [] ↔ acc'.filter (fun x => x.name == n) = []) ∧
      selectName acc n = selectName acc' n) →
    ∀ n, selectName (bfs ts u fuel current count visited acc) n = selectName (acc' ++ candsX ts u fuel ns) n := by
  intro fuel
  induction fuel with
  | zero =>
    intro k ns current count visited acc acc' _ _ _ _ heq n
    rw [candsX_zero, List.append_nil]
    simp only [bfs]
    exact (heq n).2
  | succ fuel ih =>
    intro k ns current count visited acc acc' J h5 hacc hacc' heq n
    rw [bfs_step ts u fuel current count visited acc J.rep.nd]
    have Jn := J.step
    generalize hP : current.filter (fun c => !visited.contains c.2) = P at Jn ⊢
    have hrep := J.rep
    rw [hP] at hrep
    -- split the live frontier into unvisited and visited types
    have hlive : ∀ x ∈ ns, unv visited x = true → xlive x = true := by
      intro x hx hu
      rw [unv_iff] at hu
      unfold xlive
      cases hc : x.1.contains x.2.2 with
      | false => rfl
      | true => exact absurd (J.paths x hx _ (by simpa using hc)) hu
    have hUeq : ns.filter (unv visited) = (ns.filter xlive).filter (unv visited) := by
      rw [List.filter_filter]
      apply List.filter_congr
      intro x hx
      cases hu : unv visited x with
      | false => simp
      | true => simp [hlive x hx hu]
    have hsplit : (ns.filter xlive).Perm
        (ns.filter (unv visited) ++ (ns.filter xlive).filter (fun x => !unv visited x)) := by
      rw [hUeq]; exact (List.filter_append_perm _ _).symm
    have hcands : (acc' ++ candsX ts u (fuel + 1) ns).Perm
        ((acc' ++ ((ns.filter (unv visited)).flatMap (fun x => fieldsOf ts u x.2) ++
          ((ns.filter xlive).filter (fun x => !unv visited x)).flatMap (fun x => fieldsOf ts u x.2))) ++
          candsX ts u fuel (nextX ts u ns)) := by
      rw [List.append_assoc]
      refine Perm.append_left _ ((candsX_succ ts u fuel ns).trans (Perm.append_right _ ?_))
      rw [← List.flatMap_append]
      exact hsplit.flatMap_right _
    rw [selectName_perm hcands]
    generalize hU : ns.filter (unv visited) = U at hcands hrep ⊢
    generalize hVl : (ns.filter xlive).filter (fun x => !unv visited x) = Vl at hcands ⊢
    -- depth facts
    have hRdepth : ∀ f ∈ P.flatMap (fun c => dupl (flagOf count c) (fieldsOf ts u c)), f.route.length = k + 1 := by
      intro f hf
      rw [List.mem_flatMap] at hf
      obtain ⟨c, hc, hf⟩ := hf
      rw [mem_dupl] at hf
      rw [field_route_length ts u c f hf]
      rw [← hP] at hc
      rw [J.depthC c (List.mem_filter.mp hc).1]
    have hCdepth : ∀ (L : List XNode), (∀ x ∈ L, x ∈ ns) →
        ∀ f ∈ L.flatMap (fun x => fieldsOf ts u x.2), f.route.length = k + 1 := by
      intro L hL f hf
      rw [List.mem_flatMap] at hf
      obtain ⟨x, hx, hf⟩ := hf
      rw [field_route_length ts u x.2 f hf, J.depthN x (hL x hx)]
    have hUns : ∀ x ∈ U, x ∈ ns := by intro x hx; rw [← hU] at hx; exact (List.mem_filter.mp hx).1
    have hVns : ∀ x ∈ Vl, x ∈ ns := by
      intro x hx; rw [← hVl] at hx; exact (List.mem_filter.mp (List.mem_filter.mp hx).1).1
    have hVvis : ∀ x ∈ Vl, x.2.2 ∈ visited := by
      intro x hx
      rw [← hVl] at hx
      have := (List.mem_filter.mp hx).2
      simp only [unv, Bool.not_not] at this
      simpa using this
    refine ih (k + 1) _ _ _ _ _ _ Jn ?_ ?_ ?_ ?_ n
    · -- field names of visited types are recorded
      intro T hT f0 hf0
      simp only [List.mem_append, List.mem_reverse] at hT
      rcases hT with hT | hT
      · rw [List.mem_map] at hT
        obtain ⟨c, hc, rfl⟩ := hT
        obtain ⟨f, hf, hn⟩ := template_field_mem ts u c f0 hf0
        refine ⟨f, ?_, hn⟩
        rw [List.mem_append]
        right
        rw [List.mem_flatMap]
        exact ⟨c, hc, by rw [mem_dupl]; exact hf⟩
      · obtain ⟨g, hg, hn⟩ := h5 T hT f0 hf0
        exact ⟨g, List.mem_append_left _ hg, hn⟩
    · intro f hf
      rw [List.mem_append] at hf
      rcases hf with hf | hf
      · have := hacc f hf; omega
      · rw [hRdepth f hf]; exact Nat.le_refl _
    · intro f hf
      simp only [List.mem_append] at hf
      rcases hf with hf | hf | hf
      · have := hacc' f hf; omega
      · rw [hCdepth U hUns f hf]; exact Nat.le_refl _
      · rw [hCdepth Vl hVns f hf]; exact Nat.le_refl _
    · intro m
      obtain ⟨hnil, hsel⟩ := heq m
      by_cases hA : acc.filter (fun x => x.name == m) = []
      · have hA' := hnil.mp hA
        -- visited types contribute nothing for this name
        have hCV : (Vl.flatMap (fun x => fieldsOf ts u x.2)).filter (fun x => x.name == m) = [] := by
          rw [List.filter_eq_nil_iff]
          intro f hf hfm
          rw [List.mem_flatMap] at hf
          obtain ⟨x, hx, hf⟩ := hf
          obtain ⟨f0, hf0, hn0⟩ := field_name_template ts u x.2 f hf
          obtain ⟨g, hg, hgn⟩ := h5 _ (hVvis x hx) f0 hf0
          have : g ∈ acc.filter (fun x => x.name == m) := by
            rw [List.mem_filter]
            refine ⟨hg, ?_⟩
            rw [hgn, hn0]; exact hfm
          rw [hA] at this
          simp at this
        have hcap1 := rep_cap2 ts u hrep (fun x => x.name == m) (routeFree_name m)
        have hcap2 := rep_cap2 ts u hrep (fun x => x.tagged && x.name == m) (fun _ _ => rfl)
        have hL : (acc ++ P.flatMap (fun c => dupl (flagOf count c) (fieldsOf ts u c))).filter (fun x => x.name == m) =
            (P.flatMap (fun c => dupl (flagOf count c) (fieldsOf ts u c))).filter (fun x => x.name == m) := by
          rw [List.filter_append, hA, List.nil_append]
        have hR : (acc' ++ (U.flatMap (fun x => fieldsOf ts u x.2) ++ Vl.flatMap (fun x => fieldsOf ts u x.2))).filter
              (fun x => x.name == m) =
            (U.flatMap (fun x => fieldsOf ts u x.2)).filter (fun x => x.name == m) := by
          rw [List.filter_append, List.filter_append, hA', hCV, List.nil_append, List.append_nil]
        constructor
        · rw [hL, hR]; exact hcap1.nil_iff
        · rw [selectName_congr_filter m hL, selectName_congr_filter m hR,
            selectName_same_depth _ m (k + 1) (fun f hf => hRdepth f (List.mem_filter.mp hf).1),
            selectName_same_depth _ m (k + 1) (fun f hf => hCdepth U hUns f (List.mem_filter.mp hf).1)]
          apply sel_cap2 _ hcap1
          rw [List.filter_filter, List.filter_filter]
          exact hcap2
      · have hA' : acc'.filter (fun x => x.name == m) ≠ [] := fun h => hA (hnil.mpr h)
        constructor
        · rw [List.filter_append, List.filter_append]
          constructor
          · intro h; exact absurd (List.append_eq_nil_iff.mp h).1 hA
          · intro h; exact absurd (List.append_eq_nil_iff.mp h).1 hA'
        · rw [selectName_append_shallow acc _ m k hA hacc (by intro f hf; rw [hRdepth f hf]; omega),
            selectName_append_shallow acc' _ m k hA' hacc' (by
              intro f hf
              rw [List.mem_append] at hf
              rcases hf with hf | hf
              · rw [hCdepth U hUns f hf]; omega
              · rw [hCdepth Vl hVns f hf]; omega)]
          exact hsel

end Refmt.Autogen
