/-
  The JSON string escaper (`escLoop`) as a relation `Esc`, and what follows from it:
  unquoting gives `toValidUtf8`, the output is a string body (`SBody`) and valid UTF-8.
-/
import RefmtProofs.Lemmas.Utf8
set_option linter.unusedSimpArgs false
namespace Refmt.C03L
open Refmt Refmt.JsonEnc Refmt.JsonDec

theorem flush_flat (pend : Bytes) : (if pend.isEmpty then ([] : List Bytes) else [pend]).flatten = pend := by
  cases pend <;> simp

/-- escape sequence for an ASCII byte that cannot be copied -/
def escAscii (b : Nat) : Bytes :=
  if b == 92 || b == 34 then [92, b]
  else if b == 10 then [92, 110]
  else if b == 13 then [92, 114]
  else if b == 9 then [92, 116]
  else [92, 117, 48, 48, hexDigit (b / 16), hexDigit (b % 16)]

/-- bytes written between the quotes -/
def esc (s : Bytes) : Bytes := (escLoop s []).flatten

theorem escLoop_cons_flat (b : Nat) (rest pend : Bytes) :
    (escLoop (b :: rest) pend).flatten =
      if b < 0x80 then
        if (0x20 ≤ b && b != 92 && b != 34) = true then (escLoop rest (pend ++ [b])).flatten
        else pend ++ escAscii b ++ (escLoop rest []).flatten
      else if (decodeRune (b :: rest)).2 ≤ 1 then pend ++ [92, 117, 102, 102, 102, 100] ++ (escLoop rest []).flatten
      else if ((decodeRune (b :: rest)).1 == 0x2028 || (decodeRune (b :: rest)).1 == 0x2029) = true then
        pend ++ [92, 117, 50, 48, 50, hexDigit ((decodeRune (b :: rest)).1 % 16)] ++
          (escLoop ((b :: rest).drop (decodeRune (b :: rest)).2) []).flatten
      else (escLoop ((b :: rest).drop (decodeRune (b :: rest)).2) (pend ++ (b :: rest).take (decodeRune (b :: rest)).2)).flatten := by
  rw [escLoop]
  by_cases h1 : b < 0x80
  · by_cases h2 : (0x20 ≤ b && b != 92 && b != 34) = true
    · simp only [h1, h2, if_true]
    · simp only [h1, h2, if_true, if_false, escAscii]
      cases pend <;> simp only [List.isEmpty, if_true, if_false, Bool.false_eq_true] <;> (repeat' split) <;> simp
  · by_cases h3 : (decodeRune (b :: rest)).2 ≤ 1
    · simp only [h1, h3, if_true, if_false, dite_true, List.flatten_append, flush_flat]
      simp
    · by_cases h4 : ((decodeRune (b :: rest)).1 == 0x2028 || (decodeRune (b :: rest)).1 == 0x2029) = true
      · simp only [h1, h3, h4, if_true, if_false, dite_false, List.flatten_append, flush_flat]
        simp
      · simp only [h1, h3, h4, if_true, if_false, dite_false, Bool.false_eq_true]

theorem escLoop_pend : ∀ (s pend : Bytes), (escLoop s pend).flatten = pend ++ (escLoop s []).flatten
  | [], pend => by cases pend <;> simp [escLoop]
  | b :: rest, pend => by
    rw [escLoop_cons_flat b rest pend, escLoop_cons_flat b rest []]
    have := decodeRune_size_pos b rest
    by_cases h1 : b < 0x80
    · by_cases h2 : (0x20 ≤ b && b != 92 && b != 34) = true
      · simp only [h1, h2, if_true]
        rw [escLoop_pend rest (pend ++ [b]), escLoop_pend rest ([] ++ [b])]; simp
      · simp only [h1, h2, if_true, if_false]; simp
    · by_cases h3 : (decodeRune (b :: rest)).2 ≤ 1
      · simp only [h1, h3, if_true, if_false]; simp
      · by_cases h4 : ((decodeRune (b :: rest)).1 == 0x2028 || (decodeRune (b :: rest)).1 == 0x2029) = true
        · simp only [h1, h3, h4, if_true, if_false]; simp
        · simp only [h1, h3, h4, if_true, if_false]
          rw [escLoop_pend _ (pend ++ _), escLoop_pend _ ([] ++ _)]; simp
termination_by s => s.length
decreasing_by
  all_goals simp only [List.length_drop, List.length_cons]
  all_goals omega

theorem esc_nil : esc [] = [] := by simp [esc, escLoop]

theorem esc_cons (b : Nat) (rest : Bytes) :
    esc (b :: rest) =
      if b < 0x80 then (if (0x20 ≤ b && b != 92 && b != 34) = true then [b] else escAscii b) ++ esc rest
      else if (decodeRune (b :: rest)).2 ≤ 1 then [92, 117, 102, 102, 102, 100] ++ esc rest
      else if ((decodeRune (b :: rest)).1 == 0x2028 || (decodeRune (b :: rest)).1 == 0x2029) = true then
        [92, 117, 50, 48, 50, hexDigit ((decodeRune (b :: rest)).1 % 16)] ++ esc ((b :: rest).drop (decodeRune (b :: rest)).2)
      else (b :: rest).take (decodeRune (b :: rest)).2 ++ esc ((b :: rest).drop (decodeRune (b :: rest)).2) := by
  unfold esc
  rw [escLoop_cons_flat]
  by_cases h1 : b < 0x80
  · by_cases h2 : (0x20 ≤ b && b != 92 && b != 34) = true
    · simp only [h1, h2, if_true]; rw [escLoop_pend]; simp
    · simp only [h1, h2, if_true, if_false]; simp
  · by_cases h3 : (decodeRune (b :: rest)).2 ≤ 1
    · simp only [h1, h3, if_true, if_false]; simp
    · by_cases h4 : ((decodeRune (b :: rest)).1 == 0x2028 || (decodeRune (b :: rest)).1 == 0x2029) = true
      · simp only [h1, h3, h4, if_true, if_false]; simp
      · simp only [h1, h3, h4, if_true, if_false]; exact escLoop_pend _ _


/-! ### `toValidUtf8` unfolding -/

theorem tv_nil : toValidUtf8 [] = [] := by rw [toValidUtf8]

theorem tv_ascii (b : Nat) (r : Bytes) (h : b < 0x80) : toValidUtf8 (b :: r) = b :: toValidUtf8 r := by
  rw [toValidUtf8]; simp [decodeRune, h]

theorem tv_asciis : ∀ (a : Bytes) (r : Bytes), (∀ x ∈ a, x < 0x80) → toValidUtf8 (a ++ r) = a ++ toValidUtf8 r
  | [], r, _ => rfl
  | x :: a, r, h => by
    rw [List.cons_append, tv_ascii x _ (h x (by simp)), tv_asciis a r (fun y hy => h y (by simp [hy]))]
    rfl

theorem tv_bad (b : Nat) (r : Bytes) (h : ¬ b < 0x80) (h2 : (decodeRune (b :: r)).2 ≤ 1) :
    toValidUtf8 (b :: r) = [0xEF, 0xBF, 0xBD] ++ toValidUtf8 r := by
  rw [toValidUtf8]; simp [h, h2]

theorem tv_mb (u : Bytes) (r : Nat) (rest : Bytes) (h : MB u r) : toValidUtf8 (u ++ rest) = u ++ toValidUtf8 rest := by
  match u, h with
  | [], h => have := h.len; simp at this
  | c :: u', h =>
    have hd := h.dec rest
    have hl := h.len
    rw [List.cons_append] at hd ⊢
    rw [toValidUtf8]
    have : ¬ (c :: u').length ≤ 1 := by omega
    simp only [hd, this, dite_false]
    rw [← List.cons_append]
    simp

/-! ### The escaper as a relation -/

inductive Esc : Bytes → Bytes → Prop
  | nil : Esc [] []
  | plain (b : Nat) (rest e : Bytes) : b < 0x80 → 0x20 ≤ b → b ≠ 92 → b ≠ 34 → Esc rest e → Esc (b :: rest) (b :: e)
  | ascii (b : Nat) (rest e : Bytes) : b < 0x80 → ¬ (0x20 ≤ b ∧ b ≠ 92 ∧ b ≠ 34) → Esc rest e →
      Esc (b :: rest) (escAscii b ++ e)
  | bad (b : Nat) (rest e : Bytes) : ¬ b < 0x80 → (decodeRune (b :: rest)).2 ≤ 1 → Esc rest e →
      Esc (b :: rest) ([92, 117, 102, 102, 102, 100] ++ e)
  | ls (x : Nat) (rest e : Bytes) : (x = 0xA8 ∨ x = 0xA9) → Esc rest e →
      Esc (0xE2 :: 0x80 :: x :: rest) ([92, 117, 50, 48, 50, x - 112] ++ e)
  | multi (u : Bytes) (r : Nat) (rest e : Bytes) : MB u r → r ≠ 0x2028 → r ≠ 0x2029 → Esc rest e →
      Esc (u ++ rest) (u ++ e)

theorem esc_Esc : ∀ (s : Bytes), Esc s (esc s)
  | [] => by rw [esc_nil]; exact .nil
  | b :: rest => by
    rw [esc_cons]
    have hpos := decodeRune_size_pos b rest
    by_cases h1 : b < 0x80
    · by_cases h2 : (0x20 ≤ b && b != 92 && b != 34) = true
      · simp only [h1, h2, if_true]
        simp only [Bool.and_eq_true, decide_eq_true_eq, bne_iff_ne, ne_eq] at h2
        exact .plain b rest _ h1 h2.1.1 h2.1.2 h2.2 (esc_Esc rest)
      · simp only [h1, h2, if_true, if_false]
        simp only [Bool.and_eq_true, decide_eq_true_eq, bne_iff_ne, ne_eq] at h2
        exact .ascii b rest _ h1 (by intro h; exact h2 ⟨⟨h.1, h.2.1⟩, h.2.2⟩) (esc_Esc rest)
    · by_cases h3 : (decodeRune (b :: rest)).2 ≤ 1
      · simp only [h1, h3, if_true, if_false]
        exact .bad b rest _ h1 h3 (esc_Esc rest)
      · have hmb := decodeRune_mb (b :: rest) (by omega)
        have hsplit : b :: rest = (b :: rest).take (decodeRune (b :: rest)).2 ++ (b :: rest).drop (decodeRune (b :: rest)).2 :=
          (List.take_append_drop _ _).symm
        have ih := esc_Esc ((b :: rest).drop (decodeRune (b :: rest)).2)
        by_cases h4 : ((decodeRune (b :: rest)).1 == 0x2028 || (decodeRune (b :: rest)).1 == 0x2029) = true
        · simp only [h1, h3, h4, if_true, if_false]
          simp only [Bool.or_eq_true, beq_iff_eq] at h4
          have henc := hmb.enc
          rcases h4 with h4 | h4
          · rw [h4] at henc ⊢
            have : (b :: rest).take (decodeRune (b :: rest)).2 = [0xE2, 0x80, 0xA8] := by rw [← henc]; decide
            rw [this] at hsplit
            rw [hsplit]
            exact .ls 0xA8 _ _ (Or.inl rfl) (by rw [← hsplit]; exact ih)
          · rw [h4] at henc ⊢
            have : (b :: rest).take (decodeRune (b :: rest)).2 = [0xE2, 0x80, 0xA9] := by rw [← henc]; decide
            rw [this] at hsplit
            rw [hsplit]
            exact .ls 0xA9 _ _ (Or.inr rfl) (by rw [← hsplit]; exact ih)
        · simp only [h1, h3, h4, if_true, if_false]
          simp only [Bool.or_eq_true, beq_iff_eq, not_or] at h4
          have := Esc.multi _ _ _ _ hmb h4.1 h4.2 ih
          rw [← hsplit] at this
          exact this
termination_by s => s.length
decreasing_by
  all_goals simp only [List.length_drop, List.length_cons]
  all_goals omega

theorem hex_ok : ∀ n, n < 16 → isHex (hexDigit n) = true ∧ hexNib (hexDigit n) = n ∧ hexDigit n < 0x80 ∧ 0x20 ≤ hexDigit n
    ∧ hexDigit n ≠ 34 ∧ hexDigit n ≠ 92 := by decide

theorem ps_nil (fuel : Nat) : parseString (fuel + 1) [] = some [] := by simp [parseString]

theorem ps_plain (fuel c : Nat) (rest : Bytes) (h0 : 0x20 ≤ c) (h1 : c ≠ 92) (h2 : c ≠ 34) (h3 : c < 0x80) :
    parseString (fuel + 1) (c :: rest) = (parseString fuel rest).map (c :: ·) := by
  have : ¬ c < 32 := by omega
  simp [parseString, h1, h2, h3, this]

theorem ps_esc (fuel e : Nat) (rest : Bytes) (h : e = 34 ∨ e = 92 ∨ e = 110 ∨ e = 114 ∨ e = 116) :
    parseString (fuel + 1) (92 :: e :: rest) =
      (parseString fuel rest).map ((if e = 110 then 10 else if e = 114 then 13 else if e = 116 then 9 else e) :: ·) := by
  rcases h with rfl | rfl | rfl | rfl | rfl <;> simp [parseString]

theorem ps_u4 (fuel a b c d : Nat) (rest : Bytes)
    (hh : (isHex a && isHex b && isHex c && isHex d) = true)
    (hs : isSurrogate (hexNib a * 4096 + hexNib b * 256 + hexNib c * 16 + hexNib d) = false) :
    parseString (fuel + 1) (92 :: 117 :: a :: b :: c :: d :: rest) =
      (parseString fuel rest).map (encodeRune (hexNib a * 4096 + hexNib b * 256 + hexNib c * 16 + hexNib d) ++ ·) := by
  simp [parseString, getu4, hh, hs]

theorem ps_mb (fuel : Nat) (u : Bytes) (r : Nat) (rest : Bytes) (h : MB u r) :
    parseString (fuel + 1) (u ++ rest) = (parseString fuel rest).map (u ++ ·) := by
  match u, h with
  | [], h => have := h.len; simp at this
  | c :: u', h =>
    have hd := h.dec rest
    have hl := h.len
    have hc := h.hi c (by simp)
    rw [List.cons_append] at hd ⊢
    have h1 : c ≠ 92 := by omega
    have h2 : c ≠ 34 := by omega
    have h3 : ¬ c < 32 := by omega
    have h4 : ¬ c < 0x80 := by omega
    simp only [parseString, beq_iff_eq, h1, h2, h3, h4, if_false, Bool.or_eq_true, decide_eq_true_eq, or_self, hd, h.enc]
    have : max (c :: u').length 1 = (c :: u').length := by omega
    rw [this, ← List.cons_append]
    simp


theorem mb_ls (x : Nat) (hx : x = 0xA8 ∨ x = 0xA9) : MB [0xE2, 0x80, x] (0x2000 + (x - 0x80)) := by
  rcases hx with rfl | rfl
  · exact mb3 0xE2 0x80 0xA8 (by decide) (by decide) (by decide)
  · exact mb3 0xE2 0x80 0xA9 (by decide) (by decide) (by decide)

theorem escAscii_cases (b : Nat) (h1 : b < 0x80) (h2 : ¬ (0x20 ≤ b ∧ b ≠ 92 ∧ b ≠ 34)) :
    (b = 92 ∧ escAscii b = [92, 92]) ∨ (b = 34 ∧ escAscii b = [92, 34]) ∨ (b = 10 ∧ escAscii b = [92, 110]) ∨
    (b = 13 ∧ escAscii b = [92, 114]) ∨ (b = 9 ∧ escAscii b = [92, 116]) ∨
    (b < 0x20 ∧ escAscii b = [92, 117, 48, 48, hexDigit (b / 16), hexDigit (b % 16)]) := by
  unfold escAscii
  by_cases e1 : b = 92
  · subst e1; simp
  by_cases e2 : b = 34
  · subst e2; simp
  by_cases e3 : b = 10
  · subst e3; simp
  by_cases e4 : b = 13
  · subst e4; simp
  by_cases e5 : b = 9
  · subst e5; simp
  have : b < 0x20 := by omega
  simp [e1, e2, e3, e4, e5, this]

/-- unquoting the escaped text gives the string coerced to valid UTF-8 -/
theorem Esc.unquote {s e : Bytes} (h : Esc s e) : ∀ fuel, e.length < fuel → parseString fuel e = some (toValidUtf8 s) := by
  induction h with
  | nil => intro fuel hf; obtain ⟨k, rfl⟩ : ∃ k, fuel = k + 1 := ⟨fuel - 1, by omega⟩; rw [ps_nil, tv_nil]
  | plain b rest e h1 h2 h3 h4 _ ih =>
    intro fuel hf
    obtain ⟨k, rfl⟩ : ∃ k, fuel = k + 1 := ⟨fuel - 1, by omega⟩
    simp only [List.length_cons] at hf
    rw [ps_plain k b e h2 h3 h4 h1, ih k (by omega), tv_ascii b rest h1]; rfl
  | ascii b rest e h1 h2 _ ih =>
    intro fuel hf
    obtain ⟨k, rfl⟩ : ∃ k, fuel = k + 1 := ⟨fuel - 1, by omega⟩
    rw [tv_ascii b rest h1]
    rcases escAscii_cases b h1 h2 with ⟨rfl, hb⟩ | ⟨rfl, hb⟩ | ⟨rfl, hb⟩ | ⟨rfl, hb⟩ | ⟨rfl, hb⟩ | ⟨hlt, hb⟩
    all_goals rw [hb] at hf ⊢
    all_goals simp only [List.length_append, List.length_cons, List.length_nil] at hf
    · rw [List.cons_append, List.cons_append, List.nil_append, ps_esc k 92 e (by simp), ih k (by omega)]; rfl
    · rw [List.cons_append, List.cons_append, List.nil_append, ps_esc k 34 e (by simp), ih k (by omega)]; rfl
    · rw [List.cons_append, List.cons_append, List.nil_append, ps_esc k 110 e (by simp), ih k (by omega)]; rfl
    · rw [List.cons_append, List.cons_append, List.nil_append, ps_esc k 114 e (by simp), ih k (by omega)]; rfl
    · rw [List.cons_append, List.cons_append, List.nil_append, ps_esc k 116 e (by simp), ih k (by omega)]; rfl
    · have hq := hex_ok (b / 16) (by omega)
      have hr := hex_ok (b % 16) (by omega)
      have h48 : isHex 48 = true ∧ hexNib 48 = 0 := by decide
      have hv : hexNib 48 * 4096 + hexNib 48 * 256 + hexNib (hexDigit (b / 16)) * 16 + hexNib (hexDigit (b % 16)) = b := by
        rw [h48.2, hq.2.1, hr.2.1]; omega
      have := ps_u4 k 48 48 (hexDigit (b / 16)) (hexDigit (b % 16)) e (by simp [h48.1, hq.1, hr.1])
        (by rw [hv]; simp [isSurrogate]; omega)
      rw [hv] at this
      simp only [List.cons_append, List.nil_append]
      rw [this, ih k (by omega)]
      have : encodeRune b = [b] := by simp [encodeRune, h1]
      rw [this]; rfl
  | bad b rest e h1 h2 _ ih =>
    intro fuel hf
    obtain ⟨k, rfl⟩ : ∃ k, fuel = k + 1 := ⟨fuel - 1, by omega⟩
    simp only [List.length_append, List.length_cons, List.length_nil] at hf
    have hv : hexNib 102 * 4096 + hexNib 102 * 256 + hexNib 102 * 16 + hexNib 100 = 0xFFFD := by decide
    have := ps_u4 k 102 102 102 100 e (by decide) (by rw [hv]; decide)
    rw [hv] at this
    simp only [List.cons_append, List.nil_append]
    rw [this, ih k (by omega), tv_bad b rest h1 h2]
    have : encodeRune 0xFFFD = [0xEF, 0xBF, 0xBD] := by decide
    rw [this]; rfl
  | ls x rest e hx _ ih =>
    intro fuel hf
    obtain ⟨k, rfl⟩ : ∃ k, fuel = k + 1 := ⟨fuel - 1, by omega⟩
    simp only [List.length_append, List.length_cons, List.length_nil] at hf
    have hmb := mb_ls x hx
    have htv := tv_mb _ _ rest hmb
    simp only [List.cons_append, List.nil_append] at htv ⊢
    rw [htv]
    rcases hx with rfl | rfl
    · have hv : hexNib 50 * 4096 + hexNib 48 * 256 + hexNib 50 * 16 + hexNib (0xA8 - 112) = 0x2028 := by decide
      have := ps_u4 k 50 48 50 (0xA8 - 112) e (by decide) (by rw [hv]; decide)
      rw [hv] at this
      rw [this, ih k (by omega)]
      have : encodeRune 0x2028 = [0xE2, 0x80, 0xA8] := by decide
      rw [this]; rfl
    · have hv : hexNib 50 * 4096 + hexNib 48 * 256 + hexNib 50 * 16 + hexNib (0xA9 - 112) = 0x2029 := by decide
      have := ps_u4 k 50 48 50 (0xA9 - 112) e (by decide) (by rw [hv]; decide)
      rw [hv] at this
      rw [this, ih k (by omega)]
      have : encodeRune 0x2029 = [0xE2, 0x80, 0xA9] := by decide
      rw [this]; rfl
  | multi u r rest e hmb _ _ _ ih =>
    intro fuel hf
    obtain ⟨k, rfl⟩ : ∃ k, fuel = k + 1 := ⟨fuel - 1, by omega⟩
    have := hmb.len
    simp only [List.length_append] at hf
    rw [ps_mb k u r e hmb, ih k (by omega), tv_mb u r rest hmb]; rfl


/-! ### String bodies as a grammar -/

inductive SBody : Bytes → Prop
  | nil : SBody []
  | plain (c : Nat) (r : Bytes) : 0x20 ≤ c → c ≠ 34 → c ≠ 92 → SBody r → SBody (c :: r)
  | esc (x : Nat) (r : Bytes) : (x = 34 ∨ x = 92 ∨ x = 110 ∨ x = 114 ∨ x = 116) → SBody r → SBody (92 :: x :: r)
  | uni (a b c d : Nat) (r : Bytes) : isHex a = true → isHex b = true → isHex c = true → isHex d = true →
      SBody r → SBody (92 :: 117 :: a :: b :: c :: d :: r)

theorem SBody.plains : ∀ (u : Bytes) {e : Bytes}, (∀ x ∈ u, 0x20 ≤ x ∧ x ≠ 34 ∧ x ≠ 92) → SBody e → SBody (u ++ e)
  | [], _, _, he => he
  | x :: u, _, h, he => by
    have hx := h x (by simp)
    exact .plain x _ hx.1 hx.2.1 hx.2.2 (SBody.plains u (fun y hy => h y (by simp [hy])) he)

theorem Esc.body {s e : Bytes} (h : Esc s e) : SBody e := by
  induction h with
  | nil => exact .nil
  | plain b rest e h1 h2 h3 h4 _ ih => exact .plain b e h2 h4 h3 ih
  | ascii b rest e h1 h2 _ ih =>
    rcases escAscii_cases b h1 h2 with ⟨rfl, hb⟩ | ⟨rfl, hb⟩ | ⟨rfl, hb⟩ | ⟨rfl, hb⟩ | ⟨rfl, hb⟩ | ⟨hlt, hb⟩
    all_goals rw [hb]
    · exact .esc 92 e (by simp) ih
    · exact .esc 34 e (by simp) ih
    · exact .esc 110 e (by simp) ih
    · exact .esc 114 e (by simp) ih
    · exact .esc 116 e (by simp) ih
    · exact .uni 48 48 _ _ e (by decide) (by decide) (hex_ok _ (by omega)).1 (hex_ok _ (by omega)).1 ih
  | bad b rest e h1 h2 _ ih => exact .uni 102 102 102 100 e (by decide) (by decide) (by decide) (by decide) ih
  | ls x rest e hx _ ih =>
    rcases hx with rfl | rfl
    · exact .uni 50 48 50 _ e (by decide) (by decide) (by decide) (by decide) ih
    · exact .uni 50 48 50 _ e (by decide) (by decide) (by decide) (by decide) ih
  | multi u r rest e hmb _ _ _ ih =>
    exact SBody.plains u (fun x hx => by have := hmb.hi x hx; omega) ih

theorem Esc.valid {s e : Bytes} (h : Esc s e) : toValidUtf8 e = e := by
  induction h with
  | nil => exact tv_nil
  | plain b rest e h1 h2 h3 h4 _ ih => rw [tv_ascii b e h1, ih]
  | ascii b rest e h1 h2 _ ih =>
    rw [tv_asciis _ _ ?_, ih]
    rcases escAscii_cases b h1 h2 with ⟨rfl, hb⟩ | ⟨rfl, hb⟩ | ⟨rfl, hb⟩ | ⟨rfl, hb⟩ | ⟨rfl, hb⟩ | ⟨hlt, hb⟩
    all_goals rw [hb]
    all_goals intro x hx
    all_goals simp only [List.mem_cons, List.not_mem_nil, or_false] at hx
    · omega
    · omega
    · omega
    · omega
    · omega
    · have := (hex_ok (b / 16) (by omega)).2.2.1
      have := (hex_ok (b % 16) (by omega)).2.2.1
      omega
  | bad b rest e h1 h2 _ ih =>
    rw [tv_asciis _ _ ?_, ih]
    intro x hx; simp only [List.mem_cons, List.not_mem_nil, or_false] at hx; omega
  | ls x rest e hx _ ih =>
    rw [tv_asciis _ _ ?_, ih]
    intro y hy; simp only [List.mem_cons, List.not_mem_nil, or_false] at hy; omega
  | multi u r rest e hmb _ _ _ ih => rw [tv_mb u r e hmb, ih]

end Refmt.C03L
