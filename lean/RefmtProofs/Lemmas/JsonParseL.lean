/-
  The reference reader `Spec.Json.parse` on the text `txtV`: domain predicate `DOk`, fuel, and the
  mutual induction `parseV / parseL / parseE`.
-/
import RefmtProofs.Lemmas.JsonEncL
set_option linter.unusedSimpArgs false
set_option linter.unusedVariables false
namespace Refmt.C03L
open Refmt Refmt.JsonEnc Refmt.JsonDec Refmt.Spec.Json

/-! ### The domain on which the text reads back -/

mutual
  def DOk : TV → Bool
    | .scalar t => decOk t.body
    | .arr _ _ items => DOkL items
    | .map _ _ es => DOkE es
  def DOkL : List TV → Bool
    | [] => true
    | v :: vs => DOk v && DOkL vs
  def DOkE : List (TV × TV) → Bool
    | [] => true
    | (k, v) :: es =>
      (match k with | .scalar t => (match t.body with | .str _ => true | _ => false) | _ => false) && DOk v && DOkE es
end

theorem dkey_form {k : TV}
    (h : (match k with | .scalar t => (match t.body with | .str _ => true | _ => false) | _ => false) = true) :
    ∃ s tag, k = .scalar ⟨.str s, tag⟩ := by
  cases k with
  | scalar t =>
    obtain ⟨body, tag⟩ := t
    cases body <;> simp at h
    exact ⟨_, _, rfl⟩
  | arr _ _ _ => simp at h
  | map _ _ _ => simp at h

theorem DOk_head (c : Cfg) (d : Nat) (v : TV) (h : DOk v = true) : ∃ hd tl, txtV c d v = hd :: tl ∧ vStartByte hd :=
  txtV_head c d v (by intro t e; subst e; simpa [DOk] using h)

/-! ### Fuel -/

mutual
  def needV : TV → Nat
    | .scalar _ => 1
    | .arr _ _ items => 1 + needL items
    | .map _ _ es => 1 + needE es
  def needL : List TV → Nat
    | [] => 1
    | v :: vs => 1 + (needV v + needL vs)
  def needE : List (TV × TV) → Nat
    | [] => 1
    | (_, v) :: es => 1 + (needV v + needE es)
end

mutual
  theorem needV_le : ∀ (v : TV), needV v + 1 ≤ 2 * v.flatten.length
    | .scalar t => by simp [needV, TV.flatten]
    | .arr _ _ items => by
      have := needL_le items
      simp only [needV, TV.flatten, List.length_cons, List.length_append, List.length_nil]; omega
    | .map _ _ es => by
      have := needE_le es
      simp only [needV, TV.flatten, List.length_cons, List.length_append, List.length_nil]; omega
  theorem needL_le : ∀ (vs : List TV), needL vs ≤ 2 * (TV.flattenList vs).length + 1
    | [] => by simp [needL, TV.flattenList]
    | v :: vs => by
      have := needV_le v
      have := needL_le vs
      simp only [needL, TV.flattenList, List.length_append]; omega
  theorem needE_le : ∀ (es : List (TV × TV)), needE es ≤ 2 * (TV.flattenEntries es).length + 1
    | [] => by simp [needE, TV.flattenEntries]
    | (k, v) :: es => by
      have := needV_le v
      have := needE_le es
      have : 1 ≤ k.flatten.length := by cases k <;> simp [TV.flatten]
      simp only [needE, TV.flattenEntries, List.length_append]; omega
end

theorem colon_len (c : Cfg) : 1 ≤ (colon c).length := by simp [colon]

mutual
  theorem lenV (c : Cfg) : ∀ (v : TV), DOk v = true → ∀ d, v.flatten.length ≤ (txtV c d v).length
    | .scalar t, h, d => by
      obtain ⟨hd, tl, e, _⟩ := scalarTxt_head t.body (by simpa [DOk] using h)
      simp [TV.flatten, txtV, e]
    | .arr _ _ items, h, d => by
      have := lenL c items (by simpa [DOk] using h) (d + 1) false
      simp only [TV.flatten, txtV, List.length_cons, List.length_append, List.length_nil]; omega
    | .map _ _ es, h, d => by
      have := lenE c es (by simpa [DOk] using h) (d + 1) false
      simp only [TV.flatten, txtV, List.length_cons, List.length_append, List.length_nil]; omega
  theorem lenL (c : Cfg) : ∀ (vs : List TV), DOkL vs = true → ∀ d sm, (TV.flattenList vs).length ≤ (txtL c d sm vs).length
    | [], _, d, sm => by simp [TV.flattenList]
    | v :: vs, h, d, sm => by
      simp only [DOkL, Bool.and_eq_true] at h
      have := lenV c v h.1 d
      have := lenL c vs h.2 d true
      simp only [TV.flattenList, txtL, List.length_append]; omega
  theorem lenE (c : Cfg) : ∀ (es : List (TV × TV)), DOkE es = true → ∀ d sm,
      (TV.flattenEntries es).length ≤ (txtE c d sm es).length
    | [], _, d, sm => by simp [TV.flattenEntries]
    | (k, v) :: es, h, d, sm => by
      simp only [DOkE, Bool.and_eq_true] at h
      obtain ⟨⟨hk, hv⟩, hes⟩ := h
      obtain ⟨s, tag, rfl⟩ := dkey_form hk
      have := lenV c v hv d
      have := lenE c es hes d true
      have := colon_len c
      simp only [TV.flattenEntries, TV.flatten, txtE, keyTxt, scalarTxt, List.length_append, List.length_cons,
        List.length_nil]; omega
end


/-! ### The reference reader on the text -/

theorem Stop_ws (w : Bytes) (h : WsOnly w) : Stop w = true := by
  cases w with
  | nil => rfl
  | cons x w' => simpa [Stop] using isWs_numEnd (h x (by simp))

theorem Stop_txtL (c : Cfg) (hc : CfgWs c) (d : Nat) (vs : List TV) (b : Nat) (hb : numEnd b = true) (rest : Bytes) :
    Stop (txtL c d true vs ++ (closeSep c d true ++ b :: rest)) = true := by
  cases vs with
  | nil => simpa [txtL] using Stop_ws_cons _ b rest (closeSep_ws hc d true) hb
  | cons v vs => simp [txtL, sep, Stop]; decide

theorem Stop_txtE (c : Cfg) (hc : CfgWs c) (d : Nat) (es : List (TV × TV)) (b : Nat) (hb : numEnd b = true) (rest : Bytes) :
    Stop (txtE c d true es ++ (closeSep c d true ++ b :: rest)) = true := by
  cases es with
  | nil => simpa [txtE] using Stop_ws_cons _ b rest (closeSep_ws hc d true) hb
  | cons e es => obtain ⟨k, v⟩ := e; simp [txtE, sep, Stop]; decide

theorem parseValue_ws (fuel : Nat) (w X : Bytes) (hw : WsOnly w) : parseValue fuel (w ++ X) = parseValue fuel X := by
  cases fuel with
  | zero => simp [parseValue]
  | succ k => simp only [parseValue, skip_ws w X hw]

theorem parseValue_arrOpen (fuel : Nat) (X : Bytes) :
    parseValue (fuel + 1) (91 :: X) = (parseElements fuel X false).map fun (vs, r') => (.arr none (-1) vs, r') := by
  simp [parseValue, skip, isWs]

theorem parseValue_mapOpen (fuel : Nat) (X : Bytes) :
    parseValue (fuel + 1) (123 :: X) = (parseMembers fuel X false).map fun (es, r') => (.map none (-1) es, r') := by
  simp [parseValue, skip, isWs]

theorem skip_sep_false {c : Cfg} (hc : CfgWs c) (d : Nat) (hd : Nat) (Y : Bytes) (hv : vStartByte hd) :
    skip (sep c d false ++ hd :: Y) = hd :: Y := by
  simp only [sep, Bool.false_eq_true, if_false, List.nil_append]
  rw [skip_ws _ _ (sep_tail_ws hc d), skip_cons hd Y hv.1]

theorem skip_sep_true {c : Cfg} (hc : CfgWs c) (d : Nat) (Y : Bytes) :
    skip (sep c d true ++ Y) = 44 :: (c.lineBytes ++ ((List.replicate d c.indent).flatten ++ Y)) := by
  simp only [sep, if_true, List.cons_append, List.nil_append, List.append_assoc]
  rw [skip_cons 44 _ (by decide)]

theorem skip_tail {c : Cfg} (hc : CfgWs c) (d : Nat) (Y : Bytes) :
    skip (c.lineBytes ++ ((List.replicate d c.indent).flatten ++ Y)) = skip Y := by
  rw [← List.append_assoc]; exact skip_ws _ _ (sep_tail_ws hc d)

theorem parseElements_close {c : Cfg} (hc : CfgWs c) (d : Nat) (sm sm' : Bool) (fuel : Nat) (rest : Bytes) :
    parseElements (fuel + 1) (closeSep c d sm' ++ 93 :: rest) sm = some ([], rest) := by
  simp only [parseElements, skip_ws _ _ (closeSep_ws hc d sm'), skip_cons 93 rest (by decide)]
  simp

theorem parseElements_item {c : Cfg} (hc : CfgWs c) (d : Nat) (sm : Bool) (fuel : Nat) (hd : Nat) (Y : Bytes)
    (hv : vStartByte hd) :
    parseElements (fuel + 1) (sep c d sm ++ hd :: Y) sm =
      match parseValue fuel (hd :: Y) with
      | none => none
      | some (v, r2) => (parseElements fuel r2 true).map fun (vs, r3) => (v :: vs, r3) := by
  cases sm
  · simp only [parseElements, skip_sep_false hc d hd Y hv, beq_iff_eq, hv.2.1, if_false, Bool.false_eq_true]
    rfl
  · simp only [parseElements, skip_sep_true hc d]
    rw [skip_tail hc d, skip_cons hd Y hv.1]
    simp only [show ((44 : Nat) == 93) = false by decide, Bool.false_eq_true, if_false, if_true, beq_self_eq_true]
    split
    · rename_i heq; simp at heq; exact absurd heq.1 hv.2.1
    · rfl

theorem parseMembers_close {c : Cfg} (hc : CfgWs c) (d : Nat) (sm sm' : Bool) (fuel : Nat) (rest : Bytes) :
    parseMembers (fuel + 1) (closeSep c d sm' ++ 125 :: rest) sm = some ([], rest) := by
  simp only [parseMembers, skip_ws _ _ (closeSep_ws hc d sm'), skip_cons 125 rest (by decide)]
  simp

theorem skip_colon (c : Cfg) (Y : Bytes) : ∃ w, WsOnly w ∧ skip (colon c ++ Y) = 58 :: (w ++ Y) := by
  unfold colon
  cases c.line with
  | none => exact ⟨[], WsOnly.nil, by simp [skip, isWs]⟩
  | some l => exact ⟨[32], by intro x hx; simp at hx; subst hx; decide, by simp [skip, isWs]⟩

theorem parseMembers_entry {c : Cfg} (hc : CfgWs c) (d : Nat) (sm : Bool) (fuel : Nat) (k : Bytes) (Y : Bytes) :
    parseMembers (fuel + 1) (sep c d sm ++ ((34 :: (esc k ++ [34])) ++ (colon c ++ Y))) sm =
      match parseValue fuel Y with
      | none => none
      | some (v, r4) => (parseMembers fuel r4 true).map fun (es, r5) =>
          ((.scalar ⟨.str (toValidUtf8 k), none⟩, v) :: es, r5) := by
  have hE := esc_Esc k
  have hlex := lexString_body hE.body ((esc k ++ 34 :: (colon c ++ Y)).length + 1) [] (colon c ++ Y) (by simp; omega)
  have hu := hE.unquote ((esc k).length + 1) (by omega)
  obtain ⟨w, hw, hsk⟩ := skip_colon c Y
  have hq : vStartByte 34 := by unfold vStartByte; decide
  have key : ∀ X, (34 :: (esc k ++ [34])) ++ X = 34 :: (esc k ++ 34 :: X) := by intro X; simp
  rw [key]
  cases sm
  · simp only [parseMembers, skip_sep_false hc d 34 _ hq, Bool.false_eq_true, if_false]
    simp only [show ((34 : Nat) == 125) = false by decide, Bool.false_eq_true, if_false]
    simp only [List.reverse_nil, List.nil_append] at hlex
    rw [hlex]
    simp only [hsk, hu, Option.getD_some, parseValue_ws fuel w Y hw]
    rfl
  · simp only [parseMembers, skip_sep_true hc d]
    rw [skip_tail hc d, skip_cons 34 _ (by decide)]
    simp only [show ((44 : Nat) == 125) = false by decide, Bool.false_eq_true, if_false, if_true, beq_self_eq_true]
    simp only [List.reverse_nil, List.nil_append] at hlex
    rw [hlex]
    simp only [hsk, hu, Option.getD_some, parseValue_ws fuel w Y hw]
    rfl


mutual
  theorem parseV (c : Cfg) (hc : CfgWs c) : ∀ (v : TV), DOk v = true → ∀ (fuel d : Nat) (rest : Bytes),
      needV v ≤ fuel → Stop rest = true → parseValue fuel (txtV c d v ++ rest) = some (retV v, rest)
    | .scalar t, h, fuel, d, rest, hf, hs => by
      obtain ⟨k, rfl⟩ : ∃ k, fuel = k + 1 := ⟨fuel - 1, by simp [needV] at hf; omega⟩
      have e := parseValue_scalar t.body (by simpa [DOk] using h) k rest hs
      rw [show retypeTok ⟨t.body, none⟩ = retypeTok t from rfl] at e
      simpa [txtV, retV] using e
    | .arr tag len items, h, fuel, d, rest, hf, hs => by
      obtain ⟨k, rfl⟩ : ∃ k, fuel = k + 1 := ⟨fuel - 1, by simp [needV] at hf; omega⟩
      have h2 := parseL c hc items (by simpa [DOk] using h) k (d + 1) false rest (by simp [needV] at hf; omega)
      simp only [txtV, List.cons_append, List.append_assoc, List.nil_append, parseValue_arrOpen]
      simp only [Bool.false_or, List.singleton_append] at h2
      rw [h2]; rfl
    | .map tag len es, h, fuel, d, rest, hf, hs => by
      obtain ⟨k, rfl⟩ : ∃ k, fuel = k + 1 := ⟨fuel - 1, by simp [needV] at hf; omega⟩
      have h2 := parseE c hc es (by simpa [DOk] using h) k (d + 1) false rest (by simp [needV] at hf; omega)
      simp only [txtV, List.cons_append, List.append_assoc, List.nil_append, parseValue_mapOpen]
      simp only [Bool.false_or, List.singleton_append] at h2
      rw [h2]; rfl
  theorem parseL (c : Cfg) (hc : CfgWs c) : ∀ (vs : List TV), DOkL vs = true → ∀ (fuel d : Nat) (sm : Bool) (rest : Bytes),
      needL vs ≤ fuel →
      parseElements fuel (txtL c d sm vs ++ (closeSep c d (sm || !vs.isEmpty) ++ 93 :: rest)) sm = some (retL vs, rest)
    | [], _, fuel, d, sm, rest, hf => by
      obtain ⟨k, rfl⟩ : ∃ k, fuel = k + 1 := ⟨fuel - 1, by simp [needL] at hf; omega⟩
      simpa [txtL, retL] using parseElements_close hc d sm _ k rest
    | v :: vs, h, fuel, d, sm, rest, hf => by
      obtain ⟨k, rfl⟩ : ∃ k, fuel = k + 1 := ⟨fuel - 1, by simp [needL] at hf; omega⟩
      simp only [DOkL, Bool.and_eq_true] at h
      simp only [needL] at hf
      obtain ⟨hd, tl, e, hv⟩ := DOk_head c d v h.1
      have hS := Stop_txtL c hc d vs 93 (by decide) rest
      have h1 := parseV c hc v h.1 k d _ (by omega) hS
      have h2 := parseL c hc vs h.2 k d true rest (by omega)
      simp only [Bool.true_or] at h2
      rw [e, List.cons_append] at h1
      simp only [txtL, List.append_assoc, e, List.cons_append, List.isEmpty_cons, Bool.not_false, Bool.or_true]
      rw [parseElements_item hc d sm k hd _ hv, h1]
      simp only [h2, Option.map_some, retL]
  theorem parseE (c : Cfg) (hc : CfgWs c) : ∀ (es : List (TV × TV)), DOkE es = true →
      ∀ (fuel d : Nat) (sm : Bool) (rest : Bytes), needE es ≤ fuel →
      parseMembers fuel (txtE c d sm es ++ (closeSep c d (sm || !es.isEmpty) ++ 125 :: rest)) sm = some (retE es, rest)
    | [], _, fuel, d, sm, rest, hf => by
      obtain ⟨k, rfl⟩ : ∃ k, fuel = k + 1 := ⟨fuel - 1, by simp [needE] at hf; omega⟩
      simpa [txtE, retE] using parseMembers_close hc d sm _ k rest
    | (key, v) :: es, h, fuel, d, sm, rest, hf => by
      obtain ⟨k, rfl⟩ : ∃ k, fuel = k + 1 := ⟨fuel - 1, by simp [needE] at hf; omega⟩
      simp only [DOkE, Bool.and_eq_true] at h
      obtain ⟨⟨hk, hv⟩, hes⟩ := h
      obtain ⟨s, tag, rfl⟩ := dkey_form hk
      simp only [needE] at hf
      have hS := Stop_txtE c hc d es 125 (by decide) rest
      have h1 := parseV c hc v hv k d _ (by omega) hS
      have h2 := parseE c hc es hes k d true rest (by omega)
      simp only [Bool.true_or] at h2
      simp only [txtE, keyTxt, scalarTxt, List.append_assoc, List.isEmpty_cons, Bool.not_false, Bool.or_true]
      have := parseMembers_entry hc d sm k s (txtV c d v ++ (txtE c d true es ++ (closeSep c d true ++ 125 :: rest)))
      simp only [List.append_assoc, List.cons_append, List.nil_append] at this ⊢
      rw [this, h1]
      simp only [h2, Option.map_some, retE, retV, retypeTok]
end

/-! ### Converse: a float text the reference reader reads completely is `floatOk` -/

theorem numAccept_of_eof (st : NS) (h : ∀ e, numStep st 32 ≠ .error e) : numAccept st = true := by
  cases st <;> simp [numStep, numAccept, isDigit] at h ⊢

theorem lexNumber_complete : ∀ (r : Bytes) (fuel : Nat) (st : NS) (acc text : Bytes),
    lexNumber fuel st r acc = some (text, []) →
      ∃ st', numRun st r = some st' ∧ numAccept st' = true ∧ text = acc.reverse ++ r
  | [], fuel, st, acc, text, h => by
    cases fuel with
    | zero => simp [lexNumber] at h
    | succ k =>
      refine ⟨st, rfl, ?_, ?_⟩
      · apply numAccept_of_eof
        intro e he
        simp [lexNumber, he] at h
      · simp only [lexNumber] at h
        split at h
        · simp at h
        · simp at h; simp [h]
  | b :: r, fuel, st, acc, text, h => by
    cases fuel with
    | zero => simp [lexNumber] at h
    | succ k =>
      simp only [lexNumber] at h
      split at h
      · simp at h
      · simp at h
      · rename_i st1 hs
        obtain ⟨st', h1, h2, h3⟩ := lexNumber_complete r k st1 _ text h
        exact ⟨st', by simp [numRun, hs, h1], h2, by simp [h3]⟩

theorem floatOk_of_parse (x : Nat) (p : TV × Bytes) (h : parse (FloatText.jsonFloat x) = some p) (hp : p.2 = []) :
    floatOk x = true := by
  have hch := jsonFloat_chars x
  unfold floatOk
  generalize FloatText.jsonFloat x = T at h hch ⊢
  unfold parse at h
  generalize 2 * T.length + 2 = fuel at h
  cases fuel with
  | zero => simp [parseValue] at h
  | succ k =>
    cases T with
    | nil => simp [parseValue, skip] at h
    | cons b0 r =>
      have hb0 := hch b0 (by simp)
      have hws := (numChar_plain hb0).1
      simp only [parseValue, skip_cons b0 r hws] at h
      have hne : b0 ≠ 123 ∧ b0 ≠ 91 ∧ b0 ≠ 34 ∧ b0 ≠ 110 ∧ b0 ≠ 116 ∧ b0 ≠ 102 := by
        simp [numChar, isDigit] at hb0; omega
      simp only [beq_iff_eq, hne, if_false] at h
      split at h
      · rename_i hd
        split at h
        · simp at h
        · rename_i text r' hlex
          split at h
          · rename_i body hnt
            simp only [Option.some.injEq] at h
            subst h
            simp only at hp
            subst hp
            obtain ⟨st', hrun, hacc, htext⟩ := lexNumber_complete r _ _ _ _ hlex
            simp only [List.reverse_cons, List.reverse_nil, List.nil_append, List.singleton_append] at htext
            subst htext
            have hrun' : numRun (numStart b0) r = some st' := by simpa [numStart] using hrun
            simp [numberOk, hd, hrun', hacc, hnt]
          · simp at h
      · simp at h

end Refmt.C03L
