/-
  The functional model's wildcard case, one equation per case (atlases without tagged entries).
-/
import RefmtProofs.Lemmas.UnmarshalMachUnionWild
set_option linter.unusedSimpArgs false
set_option linter.unusedVariables false
namespace Refmt.UMachU
open Refmt Refmt.Obj Refmt.Obj.UM Refmt.UMachL

variable {ts : Types} {a : Atlas} {trs : Trs} {it : IfaceTys}

theorem unmBare_wild {n base : Nat} {cur : Val} {t : Tok} {rest : List Tok} :
    unmBare ts a trs it (n+1) base .wildcard cur (t :: rest) = unmWild ts a trs it n (hasMethods ts base) t rest := by
  rw [unmBare.eq_def]
  rfl

theorem unmWild_tag {n : Nat} {m : Bool} {t : Tok} {rest : List Tok} {g : Int} (ht : t.tag = some g)
    (hg : a.getByTag g = none) : unmWild ts a trs it (n+1) m t rest = .err 0 := by
  rw [unmWild.eq_def]
  simp only [ht, hg]

theorem unmWild_meth {n : Nat} {t : Tok} {rest : List Tok} (ht : t.tag = none)
    (h1 : t.body ≠ .null) (h2 : t.body ≠ .mapClose) (h3 : t.body ≠ .arrClose) :
    unmWild ts a trs it (n+1) true t rest = .err 0 := by
  rw [unmWild.eq_def]
  simp only [ht, Bool.true_and, if_true]

theorem unmWild_close {n : Nat} {m : Bool} {t : Tok} {rest : List Tok} (ht : t.tag = none)
    (hb : t.body = .mapClose ∨ t.body = .arrClose) : unmWild ts a trs it (n+1) m t rest = .err 0 := by
  rw [unmWild.eq_def]
  rcases hb with hb | hb <;> simp only [ht, hb, Bool.and_false, Bool.false_eq_true, if_false]

theorem unmWild_null {n : Nat} {m : Bool} {t : Tok} {rest : List Tok} (ht : t.tag = none) (hb : t.body = .null) :
    unmWild ts a trs it (n+1) m t rest = .ok (.iface none) rest 1 := by
  rw [unmWild.eq_def]
  simp only [ht, hb, Bool.and_false, Bool.false_eq_true, if_false]

theorem unmWild_mapOpen {n : Nat} {t : Tok} {rest : List Tok} {len : Int} (ht : t.tag = none)
    (hb : t.body = .mapOpen len) :
    unmWild ts a trs it (n+1) false t rest
      = mapV (fun v => .iface (some (it.mapSI, v)))
          (unmBare ts a trs it n it.mapSI (.map it.str it.iface) (.map (some [])) (t :: rest)) := by
  rw [unmWild.eq_def]
  simp only [ht, hb, Bool.false_and, Bool.false_eq_true, if_false, mapV]
  cases unmBare ts a trs it n it.mapSI (.map it.str it.iface) (.map (some [])) (t :: rest) <;> rfl

theorem unmWild_arrOpen {n : Nat} {t : Tok} {rest : List Tok} {len : Int} (ht : t.tag = none)
    (hb : t.body = .arrOpen len) :
    unmWild ts a trs it (n+1) false t rest
      = mapV (fun v => .iface (some (it.sliceI, v)))
          (unmBare ts a trs it n it.sliceI (.slice it.iface) (.slice none) (t :: rest)) := by
  rw [unmWild.eq_def]
  simp only [ht, hb, Bool.false_and, Bool.false_eq_true, if_false, mapV]
  cases unmBare ts a trs it n it.sliceI (.slice it.iface) (.slice none) (t :: rest) <;> rfl

theorem unmWild_scalar {n : Nat} {t : Tok} {rest : List Tok} (ht : t.tag = none)
    (h1 : t.body ≠ .null) (h2 : t.body ≠ .mapClose) (h3 : t.body ≠ .arrClose) (h4 : ∀ len, t.body ≠ .mapOpen len)
    (h5 : ∀ len, t.body ≠ .arrOpen len) :
    ∃ v, anyVal it t = some v ∧ unmWild ts a trs it (n+1) false t rest = .ok v rest 1 := by
  rw [unmWild.eq_def]
  simp only [ht, Bool.false_and, Bool.false_eq_true, if_false, anyVal]
  cases hb : t.body <;> simp_all
  split <;> simp

theorem unmWild_tag_meth {n : Nat} {t : Tok} {rest : List Tok} {g : Int} {e : Entry} (ht : t.tag = some g)
    (hg : a.getByTag g = some e) : unmWild ts a trs it (n+1) true t rest = .err 0 := by
  rw [unmWild.eq_def]
  simp only [ht, hg, if_true]

theorem unmWild_tag_found {n : Nat} {t : Tok} {rest : List Tok} {g : Int} {e : Entry} (ht : t.tag = some g)
    (hg : a.getByTag g = some e) :
    unmWild ts a trs it (n+1) false t rest
      = mapV (fun v => .iface (some (e.ty, v)))
          (unmBare ts a trs it n e.ty (upickBare ts a e.ty) (zeroVal ts 64 e.ty) (t :: rest)) := by
  rw [unmWild.eq_def]
  simp only [ht, hg, Bool.false_eq_true, if_false, mapV]
  cases unmBare ts a trs it n e.ty (upickBare ts a e.ty) (zeroVal ts 64 e.ty) (t :: rest) <;> rfl

end Refmt.UMachU
