/-
  The counterexample to `C10.j2c_statement`: a JSON string literal of `n` letters `a`, `n` above the
  decoders' 32 MiB cap.  The reference JSON reader accepts it; the RFC 7049 encoding of the string it
  denotes is rejected by the CBOR reference decoder (and by the decoder machine) because of the cap.
  Everything is proved for a symbolic `n`; nothing of that size is ever evaluated.
-/
import RefmtModel
import RefmtProofs.Lemmas.Heads
set_option linter.unusedSimpArgs false
set_option linter.unusedVariables false
namespace Refmt.PumpL
open Refmt Refmt.JsonDec Refmt.Spec.Json

def bigStr (n : Nat) : Bytes := List.replicate n 97
def bigJson (n : Nat) : Bytes := 34 :: (bigStr n ++ [34])

theorem bigJson_bytes (n : Nat) : ∀ x ∈ bigJson n, x < 256 := by
  intro x hx
  simp only [bigJson, bigStr, List.mem_cons, List.mem_append, List.mem_replicate, List.mem_nil_iff, or_false] at hx
  rcases hx with rfl | ⟨_, rfl⟩ | rfl <;> decide

theorem lexString_big : ∀ (n f : Nat) (rest acc : Bytes), n < f →
    lexString f .normal (List.replicate n 97 ++ 34 :: rest) acc = some (acc.reverse ++ List.replicate n 97, rest)
  | 0, f, rest, acc, hf => by
    obtain ⟨k, rfl⟩ : ∃ k, f = k + 1 := ⟨f - 1, by omega⟩
    simp [lexString, strStep]
  | n+1, f, rest, acc, hf => by
    obtain ⟨k, rfl⟩ : ∃ k, f = k + 1 := ⟨f - 1, by omega⟩
    rw [List.replicate_succ, List.cons_append, lexString]
    have : strStep .normal 97 = .ok (some .normal) := by simp [strStep]
    simp only [this]
    rw [lexString_big n k rest (97 :: acc) (by omega)]
    simp

theorem parseString_big : ∀ (n f : Nat), n < f → parseString f (List.replicate n 97) = some (List.replicate n 97)
  | 0, f, hf => by
    obtain ⟨k, rfl⟩ : ∃ k, f = k + 1 := ⟨f - 1, by omega⟩
    simp [parseString]
  | n+1, f, hf => by
    obtain ⟨k, rfl⟩ : ∃ k, f = k + 1 := ⟨f - 1, by omega⟩
    rw [List.replicate_succ]
    unfold parseString
    simp only [show ((97 : Nat) == 92) = false by decide, Bool.false_eq_true, if_false,
      show ((97 : Nat) == 34 || decide ((97 : Nat) < 32)) = false by decide,
      show ((97 : Nat) < 0x80) by decide, if_true]
    rw [parseString_big n k (by omega)]
    rfl

/-- the reference JSON reader accepts the big string literal -/
theorem parse_bigJson (n : Nat) :
    Spec.Json.parse (bigJson n) = some (.scalar ⟨.str (bigStr n), none⟩, []) := by
  unfold Spec.Json.parse
  rw [show 2 * (bigJson n).length + 2 = (2 * (bigJson n).length + 1) + 1 by omega]
  unfold bigJson bigStr
  rw [parseValue]
  have hskip : skip (34 :: (List.replicate n 97 ++ [34])) = 34 :: (List.replicate n 97 ++ [34]) := by
    simp [skip, isWs]
  rw [hskip]
  simp only [show ((34 : Nat) == 123) = false by decide, show ((34 : Nat) == 91) = false by decide,
    Bool.false_eq_true, if_false, beq_self_eq_true, if_true]
  rw [lexString_big n _ [] [] (by simp; omega)]
  simp only [List.reverse_nil, List.nil_append, Option.map_some]
  rw [parseString_big n _ (by simp)]
  rfl

/-- the CBOR reference decoder rejects the RFC 7049 encoding of a string above the cap -/
theorem cbor_rejects_big (s : Bytes) (h1 : 33554432 < s.length) (h2 : s.length < 4294967296) :
    Spec.Cbor.parse false (Spec.Cbor.enc (.scalar ⟨.str s, none⟩)) = none := by
  have hhead : Spec.Cbor.head 0x60 s.length = 122 :: beBytes 4 s.length := by
    unfold Spec.Cbor.head
    rw [if_neg (by omega), if_neg (by omega), if_neg (by omega), if_pos h2]
  simp only [Spec.Cbor.enc, Spec.Cbor.tagBytes, Spec.Cbor.encBody, List.nil_append, hhead, List.cons_append]
  unfold Spec.Cbor.parse
  rw [show 2 * (122 :: (beBytes 4 s.length ++ s)).length + 2 = (2 * (122 :: (beBytes 4 s.length ++ s)).length + 1) + 1 by omega]
  rw [Spec.Cbor.parseItem]
  have harg : Spec.Cbor.arg 26 (beBytes 4 s.length ++ s) = some (s.length, s) := by
    have hl : (beBytes 4 s.length).length = 4 := C02L.beBytes_length 4 s.length
    simp only [Spec.Cbor.arg, show ¬ (26 < 24) by decide, if_false, show ((26 : Nat) == 24) = false by decide,
      show ((26 : Nat) == 25) = false by decide, Bool.false_eq_true, beq_self_eq_true, if_true]
    rw [if_pos (by simp [hl])]
    rw [List.take_left' hl, List.drop_left' hl, C02L.beVal_beBytes]
    have : s.length % 256 ^ 4 = s.length := Nat.mod_eq_of_lt (by omega)
    rw [this]
  simp only [show (122 / 32 == 7) = false by decide, show (122 % 32 == 31) = false by decide,
    show 122 % 32 = 26 by decide, show 122 / 32 = 3 by decide, Bool.false_eq_true, if_false, harg,
    show ((3 : Nat) == 0) = false by decide, show ((3 : Nat) == 1) = false by decide,
    show ((3 : Nat) == 2) = false by decide, beq_self_eq_true, if_true]
  have : (decide (s.length > Spec.Cbor.maxInt) || decide (s.length > Spec.Cbor.cap32M) || decide (s.length < s.length)) = true := by
    simp [Spec.Cbor.cap32M]; omega
  rw [if_pos this]

end Refmt.PumpL
