/-
  Lemmas for C12 (untyped round trip) that do not depend on C12's own definitions:
  list / `sortKeys` facts, the `URes` continuation helper, membership in flattenings, lifting of the C02 / C03
  domain predicates over lists, `numTok`'s result kinds, congruences of `flattenList` / `txtL`, and the JSON
  encoder's run on trees whose leaves it accepts (`EOk`: C03's `run_eq` / `roundtrip_dok` without `JWF`'s
  `< 256` clause on string bytes, which those proofs never use).
-/
import RefmtModel
import RefmtProofs.Props.C02
import RefmtProofs.Props.C03
import RefmtProofs.Props.C08
set_option linter.unusedSimpArgs false
set_option linter.unusedVariables false
set_option linter.unusedSectionVars false
namespace Refmt.C12L
open Refmt Refmt.Obj Refmt.JsonEnc Refmt.C03L

theorem peel_nonptr (ts : Types) (fuel n id : Nat) (h : ∀ e, ts.get id ≠ .ptr e) : peel ts fuel n id = (n, id) := by
  cases fuel with
  | zero => rfl
  | succ f =>
    unfold peel
    split
    · next e he => exact absurd he (h e)
    · rfl


theorem flatten_pos : ∀ (v : TV), 1 ≤ v.flatten.length
  | .scalar _ => by simp [TV.flatten]
  | .arr _ _ _ => by simp [TV.flatten]
  | .map _ _ _ => by simp [TV.flatten]


/-! ### `sortKeys` commutes with maps on the values; sorting twice -/

theorem sortKeys_mapVal (mode : KeySort) (g : Val → Val) (l : List (Bytes × Val)) :
    sortKeys mode (l.map fun p => (p.1, g p.2)) = (sortKeys mode l).map fun p => (p.1, g p.2) := by
  unfold sortKeys
  exact (List.map_mergeSort (f := fun (p : Bytes × Val) => (p.1, g p.2)) (r := fun (x y : Bytes × Val) => keyLe mode x.1 y.1)
    (s := fun (x y : Bytes × Val) => keyLe mode x.1 y.1) (fun _ _ _ _ => rfl)).symm

theorem sortKeys_idem (mode : KeySort) (l : List (Bytes × Val)) : sortKeys mode (sortKeys mode l) = sortKeys mode l := by
  have := C08.sortKeys_sorted mode l
  conv => lhs; unfold sortKeys
  exact List.mergeSort_of_pairwise this


/-- continuation on a successful result -/
def _root_.Refmt.Obj.URes.bind (r : URes) (k : Val → List Tok → Nat → URes) : URes :=
  match r with
  | .ok v r u => k v r u
  | x => x

@[simp] theorem _root_.Refmt.Obj.URes.bind_ok (v : Val) (r : List Tok) (u : Nat) (k : Val → List Tok → Nat → URes) :
    (URes.ok v r u).bind k = k v r u := rfl
@[simp] theorem _root_.Refmt.Obj.URes.bind_more (u : Nat) (k : Val → List Tok → Nat → URes) : (URes.more u).bind k = .more u := rfl
@[simp] theorem _root_.Refmt.Obj.URes.bind_err (u : Nat) (k : Val → List Tok → Nat → URes) : (URes.err u).bind k = .err u := rfl
@[simp] theorem _root_.Refmt.Obj.URes.bind_panic (u : Nat) (k : Val → List Tok → Nat → URes) : (URes.panic u).bind k = .panic u := rfl
@[simp] theorem _root_.Refmt.Obj.URes.shift_ok (v : Val) (r : List Tok) (u k : Nat) : (URes.ok v r u).shift k = .ok v r (u + k) := rfl
@[simp] theorem _root_.Refmt.Obj.URes.shift_more (u k : Nat) : (URes.more u).shift k = .more (u + k) := rfl
@[simp] theorem _root_.Refmt.Obj.URes.shift_err (u k : Nat) : (URes.err u).shift k = .err (u + k) := rfl
@[simp] theorem _root_.Refmt.Obj.URes.shift_panic (u k : Nat) : (URes.panic u).shift k = .panic (u + k) := rfl


theorem bind_eq_ok {r : URes} {k : Val → List Tok → Nat → URes} {v : Val} {rest : List Tok} {u : Nat}
    (h : r.bind k = .ok v rest u) : ∃ v1 r1 u1, r = .ok v1 r1 u1 ∧ k v1 r1 u1 = .ok v rest u := by
  cases r <;> simp [URes.bind] at h
  exact ⟨_, _, _, rfl, h⟩

theorem shift_eq_ok {r : URes} {k : Nat} {v : Val} {rest : List Tok} {u : Nat}
    (h : r.shift k = .ok v rest u) : ∃ u1, r = .ok v rest u1 ∧ u = u1 + k := by
  cases r <;> simp [URes.shift] at h
  obtain ⟨rfl, rfl, rfl⟩ := h
  exact ⟨_, rfl, rfl⟩


theorem WFl_of : ∀ (l : List TV), (∀ v ∈ l, C02.WFv v = true) → C02.WFl l = true
  | [], _ => rfl
  | v :: vs, h => by
    simp only [C02.WFl, Bool.and_eq_true]
    exact ⟨h v (by simp), WFl_of vs (fun x hx => h x (by simp [hx]))⟩

theorem SupportedL_of : ∀ (l : List TV), (∀ v ∈ l, C02.Supported v = true) → C02.SupportedL l = true
  | [], _ => rfl
  | v :: vs, h => by
    simp only [C02.SupportedL, Bool.and_eq_true]
    exact ⟨h v (by simp), SupportedL_of vs (fun x hx => h x (by simp [hx]))⟩

theorem WFe_of (T : Val → TV) : ∀ (L : List (Bytes × Val)), (∀ p ∈ L, C02.WFv (T p.2) = true) →
    C02.WFe (L.map fun p => (TV.scalar ⟨.str p.1, none⟩, T p.2)) = true
  | [], _ => rfl
  | p :: ps, h => by
    simp only [List.map_cons, C02.WFe, Bool.and_eq_true]
    refine ⟨⟨⟨by simp [C02.keyTok, keyOk], by simp [C02.WFv, C02.tokInRange]⟩, h p (by simp)⟩,
      WFe_of T ps (fun x hx => h x (by simp [hx]))⟩

theorem SupportedE_of (T : Val → TV) : ∀ (L : List (Bytes × Val)),
    (∀ p ∈ L, p.1.length ≤ 33554432 ∧ C02.Supported (T p.2) = true) →
    C02.SupportedE (L.map fun p => (TV.scalar ⟨.str p.1, none⟩, T p.2)) = true
  | [], _ => rfl
  | p :: ps, h => by
    simp only [List.map_cons, C02.SupportedE, Bool.and_eq_true]
    refine ⟨⟨by simpa [C02.Supported] using (h p (by simp)).1, (h p (by simp)).2⟩,
      SupportedE_of T ps (fun x hx => h x (by simp [hx]))⟩


theorem mem_flattenList {t : Tok} : ∀ {l : List TV}, t ∈ TV.flattenList l → ∃ v ∈ l, t ∈ v.flatten
  | [], h => by simp [TV.flattenList] at h
  | v :: vs, h => by
    simp only [TV.flattenList, List.mem_append] at h
    rcases h with h | h
    · exact ⟨v, by simp, h⟩
    · obtain ⟨w, hw, ht⟩ := mem_flattenList h
      exact ⟨w, by simp [hw], ht⟩

theorem mem_flattenEntries {t : Tok} : ∀ {l : List (TV × TV)}, t ∈ TV.flattenEntries l →
    ∃ p ∈ l, t ∈ p.1.flatten ∨ t ∈ p.2.flatten
  | [], h => by simp [TV.flattenEntries] at h
  | (k, v) :: vs, h => by
    simp only [TV.flattenEntries, List.mem_append] at h
    rcases h with h | h | h
    · exact ⟨(k, v), by simp, Or.inl h⟩
    · exact ⟨(k, v), by simp, Or.inr h⟩
    · obtain ⟨w, hw, ht⟩ := mem_flattenEntries h
      exact ⟨w, by simp [hw], ht⟩



/-! ### The JSON encoder on trees whose leaves it accepts (C03's `run_eq` without the `< 256` clause of `JWF`) -/

mutual
  /-- scalars the JSON encoder accepts, string keys -/
  def EOk : TV → Bool
    | .scalar t => encOk t.body
    | .arr _ _ items => EOkL items
    | .map _ _ es => EOkE es
  def EOkL : List TV → Bool
    | [] => true
    | v :: vs => EOk v && EOkL vs
  def EOkE : List (TV × TV) → Bool
    | [] => true
    | (k, v) :: es =>
      (match k with | .scalar t => (match t.body with | .str _ => true | _ => false) | _ => false) && EOk v && EOkE es
end

mutual
  theorem eencV (c : Cfg) : ∀ (v : TV), EOk v = true → ∀ (inArr : Bool) (r : List Phase) (sm : Bool),
      Runs c (vS inArr r sm) v.flatten (vPre c inArr r sm ++ txtV c (r.length + 1) v) (vE inArr r)
    | .scalar t, h, inArr, r, sm => by
      have := step_scalar c inArr r sm t (by simpa [EOk] using h)
      simpa [TV.flatten, txtV] using this
    | .arr tag len items, h, inArr, r, sm => by
      have h1 := step_arrOpen c inArr r sm len tag
      have h2 := eencL c items (by simpa [EOk] using h) (topPh inArr :: r) false
      have h3 := step_arrClose c (topPh inArr) r (false || !items.isEmpty)
      have := (h1.append h2).append h3
      simpa [TV.flatten, txtV, vE] using this
    | .map tag len es, h, inArr, r, sm => by
      have h1 := step_mapOpen c inArr r sm len tag
      have h2 := eencE c es (by simpa [EOk] using h) (topPh inArr :: r) false
      have h3 := step_mapClose c (topPh inArr) r (false || !es.isEmpty)
      have := (h1.append h2).append h3
      simpa [TV.flatten, txtV, vE] using this
  theorem eencL (c : Cfg) : ∀ (vs : List TV), EOkL vs = true → ∀ (r : List Phase) (sm : Bool),
      Runs c ⟨.arr :: r, .arr, sm⟩ (TV.flattenList vs) (txtL c (r.length + 1) sm vs) ⟨.arr :: r, .arr, sm || !vs.isEmpty⟩
    | [], _, r, sm => by simpa [TV.flattenList, txtL] using Runs.nil c _
    | v :: vs, h, r, sm => by
      simp only [EOkL, Bool.and_eq_true] at h
      have h1 := eencV c v h.1 true r sm
      have h2 := eencL c vs h.2 r true
      have := h1.append h2
      simpa [TV.flattenList, txtL, vS, vE, vPre, topPh] using this
  theorem eencE (c : Cfg) : ∀ (es : List (TV × TV)), EOkE es = true → ∀ (r : List Phase) (sm : Bool),
      Runs c ⟨.mapKey :: r, .mapKey, sm⟩ (TV.flattenEntries es) (txtE c (r.length + 1) sm es)
        ⟨.mapKey :: r, .mapKey, sm || !es.isEmpty⟩
    | [], _, r, sm => by simpa [TV.flattenEntries, txtE] using Runs.nil c _
    | (k, v) :: es, h, r, sm => by
      simp only [EOkE, Bool.and_eq_true] at h
      obtain ⟨⟨hk, hv⟩, hes⟩ := h
      obtain ⟨s, tag, rfl⟩ := dkey_form hk
      have h1 := step_key c r sm s tag
      have h2 := eencV c v hv false r true
      have h3 := eencE c es hes r true
      have := (h1.append h2).append h3
      simpa [TV.flattenEntries, TV.flatten, txtE, keyTxt, scalarTxt, vS, vE, vPre, topPh] using this
end

/-- flags and bytes of a whole run (as `C03.run_eq`, on `EOk`) -/
theorem run_eq_eok (c : Cfg) (v : TV) (h : EOk v = true) :
    (runOut (step c FloatText.jsonFloat) init v.flatten).1 =
      List.replicate (v.flatten.length - 1) Flag.cont ++ [Flag.done] ∧
    C03.out c v = txtV c 0 v ++ C03.trailer c v := by
  unfold C03.out
  cases v with
  | scalar t =>
    obtain ⟨hf, hw⟩ := top_scalar c t (by simpa [EOk] using h)
    simp only [stp] at hf hw
    simp [TV.flatten, runOut, hf, hw, txtV, C03.trailer]
  | arr tag len items =>
    have h1 := top_arrOpen c len tag
    have h2 := eencL c items (by simpa [EOk] using h) [] false
    obtain ⟨hf, hw⟩ := top_arrClose c (false || !items.isEmpty)
    have := (h1.append h2).finish hf hw
    simp only [stp] at this
    simp only [TV.flatten, List.singleton_append, List.cons_append, List.nil_append] at this ⊢
    rw [this.1, this.2]
    simp [txtV, C03.trailer]
  | map tag len es =>
    have h1 := top_mapOpen c len tag
    have h2 := eencE c es (by simpa [EOk] using h) [] false
    obtain ⟨hf, hw⟩ := top_mapClose c (false || !es.isEmpty)
    have := (h1.append h2).finish hf hw
    simp only [stp] at this
    simp only [TV.flatten, List.singleton_append, List.cons_append, List.nil_append] at this ⊢
    rw [this.1, this.2]
    simp [txtV, C03.trailer]

mutual
  theorem eok_of_dok : ∀ (v : TV), DOk v = true → EOk v = true
    | .scalar t, h => by simp only [DOk] at h; simpa [EOk] using decOk_encOk h
    | .arr _ _ items, h => by simp only [DOk] at h; simpa [EOk] using eokL_of_dok items h
    | .map _ _ es, h => by simp only [DOk] at h; simpa [EOk] using eokE_of_dok es h
  theorem eokL_of_dok : ∀ (vs : List TV), DOkL vs = true → EOkL vs = true
    | [], _ => rfl
    | v :: vs, h => by
      simp only [DOkL, Bool.and_eq_true] at h
      simp only [EOkL, Bool.and_eq_true]
      exact ⟨eok_of_dok v h.1, eokL_of_dok vs h.2⟩
  theorem eokE_of_dok : ∀ (es : List (TV × TV)), DOkE es = true → EOkE es = true
    | [], _ => rfl
    | (k, v) :: es, h => by
      simp only [DOkE, Bool.and_eq_true] at h
      simp only [EOkE, Bool.and_eq_true]
      exact ⟨⟨h.1.1, eok_of_dok v h.1.2⟩, eokE_of_dok es h.2⟩
end

/-- `C03.roundtrip_dok` without the `JWF` hypothesis -/
theorem roundtrip_dok' (c : Cfg) (v : TV) (hc : C03.cfgOk c = true) (hd : DOk v = true) :
    let o := JsonDec.decode (Rd.ofBytes (C03.out c v))
    o.toks = v.flatten.map Spec.Json.retypeTok ∧ o.res = .ok () := by
  have hw := C03.cfgOk_ws hc
  have h2 := lenV c v hd 0
  have hr := run_eq_eok c v (eok_of_dok v hd)
  have := decTop c hw v hd (2 * (C03.out c v).length + 2) (C03.trailer c v) (Stop_ws _ (C03.trailer_ws hw v))
    (by rw [hr.2]; simp only [List.length_append]; omega)
  rw [← hr.2] at this
  exact this


theorem numTok_kinds {text : Bytes} {b' : Body} (h : JsonDec.numTok text = .ok b') :
    (∃ i, b' = .int i ∧ -(two63 : Int) ≤ i ∧ i < (two63 : Int)) ∨ (∃ m, b' = .uint m ∧ two63 ≤ m ∧ m < two64) ∨
      (∃ x, b' = .float x) := by
  unfold JsonDec.numTok at h
  simp only at h
  split at h
  · split at h
    · split at h
      · simp only [Except.ok.injEq] at h; subst h
        left; exact ⟨_, rfl, by omega, by unfold two63 at *; omega⟩
      · cases h
    · split at h
      · simp only [Except.ok.injEq] at h; subst h
        left; exact ⟨_, rfl, by unfold two63 at *; omega, by omega⟩
      · split at h
        · simp only [Except.ok.injEq] at h; subst h
          right; left; exact ⟨_, rfl, by omega, by assumption⟩
        · cases h
  · generalize FloatText.parseDecimal _ _ = pd at h
    obtain ⟨bits, ovf⟩ := pd
    simp only at h
    cases ovf <;> simp at h
    right; right; exact ⟨_, h.symm⟩


/-! ### generic congruences over `flattenList` / `flattenEntries` / `txtL` / `txtE` -/

theorem flattenList_map_congr (T T' : Val → TV) (g g' : Tok → Tok) : ∀ (vs : List Val),
    (∀ x ∈ vs, (T x).flatten.map g = (T' x).flatten.map g') →
    (TV.flattenList (vs.map T)).map g = (TV.flattenList (vs.map T')).map g'
  | [], _ => rfl
  | x :: xs, h => by
    simp only [List.map_cons, TV.flattenList, List.map_append]
    rw [h x (by simp), flattenList_map_congr T T' g g' xs (fun y hy => h y (by simp [hy]))]

theorem flattenEntries_map_congr (T T' : Val → TV) (g g' : Tok → Tok) : ∀ (L : List (Bytes × Val)),
    (∀ p ∈ L, g ⟨.str p.1, none⟩ = g' ⟨.str p.1, none⟩) →
    (∀ p ∈ L, (T p.2).flatten.map g = (T' p.2).flatten.map g') →
    (TV.flattenEntries (L.map fun p => (TV.scalar ⟨.str p.1, none⟩, T p.2))).map g =
      (TV.flattenEntries (L.map fun p => (TV.scalar ⟨.str p.1, none⟩, T' p.2))).map g'
  | [], _, _ => rfl
  | p :: ps, hk, h => by
    simp only [List.map_cons, TV.flattenEntries, TV.flatten, List.map_append, List.map_nil]
    rw [hk p (by simp), h p (by simp),
      flattenEntries_map_congr T T' g g' ps (fun y hy => hk y (by simp [hy])) (fun y hy => h y (by simp [hy]))]

theorem txtL_congr (c : Cfg) (T T' : Val → TV) : ∀ (vs : List Val) (d : Nat) (sm : Bool),
    (∀ x ∈ vs, ∀ d, txtV c d (T' x) = txtV c d (T x)) →
    txtL c d sm (vs.map T') = txtL c d sm (vs.map T)
  | [], _, _, _ => rfl
  | x :: xs, d, sm, h => by
    simp only [List.map_cons, txtL]
    rw [h x (by simp) d, txtL_congr c T T' xs d true (fun y hy => h y (by simp [hy]))]

theorem txtE_congr (c : Cfg) (T T' : Val → TV) : ∀ (L : List (Bytes × Val)) (d : Nat) (sm : Bool),
    (∀ p ∈ L, ∀ d, txtV c d (T' p.2) = txtV c d (T p.2)) →
    txtE c d sm (L.map fun p => (TV.scalar ⟨.str p.1, none⟩, T' p.2)) =
      txtE c d sm (L.map fun p => (TV.scalar ⟨.str p.1, none⟩, T p.2))
  | [], _, _, _ => rfl
  | p :: ps, d, sm, h => by
    simp only [List.map_cons, txtE]
    rw [h p (by simp) d, txtE_congr c T T' ps d true (fun y hy => h y (by simp [hy]))]

theorem DOkL_of : ∀ (l : List TV), (∀ v ∈ l, DOk v = true) → DOkL l = true
  | [], _ => rfl
  | v :: vs, h => by
    simp only [DOkL, Bool.and_eq_true]
    exact ⟨h v (by simp), DOkL_of vs (fun x hx => h x (by simp [hx]))⟩

theorem DOkE_of (T : Val → TV) : ∀ (L : List (Bytes × Val)), (∀ p ∈ L, DOk (T p.2) = true) →
    DOkE (L.map fun p => (TV.scalar ⟨.str p.1, none⟩, T p.2)) = true
  | [], _ => rfl
  | p :: ps, h => by
    simp only [List.map_cons, DOkE, Bool.and_eq_true]
    exact ⟨⟨trivial, h p (by simp)⟩, DOkE_of T ps (fun x hx => h x (by simp [hx]))⟩

theorem EOkL_of : ∀ (l : List TV), (∀ v ∈ l, EOk v = true) → EOkL l = true
  | [], _ => rfl
  | v :: vs, h => by
    simp only [EOkL, Bool.and_eq_true]
    exact ⟨h v (by simp), EOkL_of vs (fun x hx => h x (by simp [hx]))⟩

theorem EOkE_of (T : Val → TV) : ∀ (L : List (Bytes × Val)), (∀ p ∈ L, EOk (T p.2) = true) →
    EOkE (L.map fun p => (TV.scalar ⟨.str p.1, none⟩, T p.2)) = true
  | [], _ => rfl
  | p :: ps, h => by
    simp only [List.map_cons, EOkE, Bool.and_eq_true]
    exact ⟨⟨trivial, h p (by simp)⟩, EOkE_of T ps (fun x hx => h x (by simp [hx]))⟩


theorem sortKeys_eq_of_sorted (mode : KeySort) (l l' : List (Bytes × Val)) (hp : l.Perm l')
    (hd : (l.map (·.1)).Nodup) (hs : l'.Pairwise (fun x y => keyLe mode x.1 y.1 = true)) : sortKeys mode l = l' := by
  rw [C08.sortKeys_unique mode l l' hp hd]
  unfold sortKeys
  exact List.mergeSort_of_pairwise hs

end Refmt.C12L
