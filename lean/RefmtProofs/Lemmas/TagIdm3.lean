/-
  C12, claim (ii) with tags — the re-marshal of the round-trip value: untyped slots.
  See RefmtProofs/Props/C12Tagged.lean.
-/
import RefmtProofs.Lemmas.TagIdm2
set_option linter.unusedSimpArgs false
set_option linter.unusedVariables false
namespace Refmt.Obj
open Refmt Refmt.C13 Refmt.C11 Refmt.C12 Refmt.C12L Refmt.C01L

variable {ts : Types} {a : Atlas} {trs : Trs} {it : IfaceTys}

/-- an untyped slot reading a tagged item: what the registered type reads, boxed -/
theorem wild_tagged (id : Nat) (hmeth : ifaceMeth ts id = false) (tg : Int) (e : Entry) (hbt : a.getByTag tg = some e)
    (hnp : ∀ x, ts.get e.ty ≠ .ptr x) (b : Body) (r : List Tok) (R : Val) (F n : Nat) (rest : List Tok)
    (hrd : unmV ts a trs it (F+1) e.ty (zeroVal ts 64 e.ty) (⟨b, some tg⟩ :: r ++ rest) = .ok R rest n) (cur : Val) :
    unmBare ts a trs it (F+2) id .wildcard cur (⟨b, some tg⟩ :: r ++ rest) = .ok (.iface (some (e.ty, R))) rest n := by
  rw [List.cons_append, unmV_nonptr ts a trs it hnp] at hrd
  rw [List.cons_append, unmBare_wild, unmWild_eq]
  simp only [hbt, hmeth, Bool.false_eq_true, if_false, hrd]
  simp

/-- the untyped slot `id` reads every rendering of the head shape of `toks` by boxing what type `dt` reads -/
def WBox (ts : Types) (a : Atlas) (trs : Trs) (it : IfaceTys) (id dt : Nat) (toks : List Tok) : Prop :=
  ∀ tk', Hd2T toks tk' → (∃ F' x, marshalV ts a trs F' dt x = ⟨tk', none⟩) → ∀ (F : Nat) (R' : Val) (rest : List Tok),
    unmV ts a trs it (F+1) dt (zeroVal ts 64 dt) (tk' ++ rest) = .ok R' rest tk'.length →
    unmBare ts a trs it (F+2) id .wildcard (zeroVal ts 64 id) (tk' ++ rest) = .ok (.iface (some (dt, R'))) rest tk'.length

theorem marshalBare_wild_some (F id dt : Nat) (x : Val) :
    marshalBare ts a trs (F+1) id .wildcard (.iface (some (dt, x))) = marshalV ts a trs F dt x := by
  rw [marshalBare_wild]

/-- assembly for an untyped slot holding a value of type `dt` that the slot reads back boxed -/
theorem idm_wild_boxed {f id dt : Nat} {toks : List Tok} {R w : Val}
    (hpk : pickBare ts a id = .wildcard) (hupk : upickBare ts a id = .wildcard)
    (hbox : WBox ts a trs it id dt toks) (hmv : ∃ F' x, marshalV ts a trs F' dt x = ⟨toks, none⟩)
    (hu : ∀ F, f < F → Rd ts a trs it F dt toks R)
    (hR : RBare ts a trs it f id toks w)
    (hidm : Idm ts a trs it dt toks R) : IdmB ts a trs it id toks w := by
  obtain ⟨tk2, N, hhd, hgood⟩ := hidm
  dsimp only at hhd hgood
  have hw : w = .iface (some (dt, R)) := by
    have h1 := hR.2 (f + 3) (by omega) []
    rw [hupk, hbox toks hR.1.hd2T hmv (f+1) R [] (hu (f+2) (by omega) [])] at h1
    exact (ok_inj_val h1).symm
  subst hw
  refine ⟨tk2, N + 2, hhd, fun F hF => ⟨?_, fun rest => ?_⟩⟩
  · obtain ⟨F, rfl⟩ : ∃ F', F = F' + 1 := ⟨F - 1, by omega⟩
    dsimp only
    rw [hpk, marshalBare_wild_some]
    exact (hgood F (by omega)).1
  · obtain ⟨F, rfl⟩ : ∃ F', F = F' + 2 := ⟨F - 2, by omega⟩
    dsimp only
    rw [hupk]
    exact hbox tk2 hhd ⟨N, R, (hgood N (Nat.le_refl _)).1⟩ F R rest ((hgood (F+1) (by omega)).2 rest)

theorem mB_wild_id (F id id' : Nat) (x : Val) :
    marshalBare ts a trs F id .wildcard x = marshalBare ts a trs F id' .wildcard x := by
  cases F with
  | zero => simp [marshalBare]
  | succ F => rw [marshalBare_wild, marshalBare_wild]

theorem stabTy_iface (he : UEnv ts a it) (p : Nat) : StabTy ts a trs p it.iface := stabTy_wild he.iface he.noIface
theorem stabTy_sliceI (he : UEnv ts a it) : StabTy ts a trs 2 it.sliceI := by
  rw [stabTy_nonptr (by simp [he.sliceI])]
  simp only [he.noSlice, he.sliceI]
  exact stabTy_iface he 1
theorem stabTy_mapSI (he : UEnv ts a it) : StabTy ts a trs 2 it.mapSI := by
  rw [stabTy_nonptr (by simp [he.mapSI])]
  simp only [he.noMap, he.mapSI]
  exact stabTy_iface he 1

theorem idm_b_wild {f} (hf : f + 1 ≤ 1000) (he : UEnv ts a it) (hts : TagStab ts a trs) (hrtf : RTF ts a trs it f) (ih : IDM ts a trs it f)
    (h id : Nat) (v : Val) (toks : List Tok) (g : Nat)
    (hd : ts.get id = .iface false) (hn : a.get id = none)
    (hv : hasTy ts h id v = true) (hg : f + 1 ≤ g) (hs : fullValB ts a trs it g id (pickBare ts a id) v = true)
    (hm : marshalBare ts a trs (f+1) id (pickBare ts a id) v = ⟨toks, none⟩)
    (hR : RBare ts a trs it f id toks (rtFB ts a trs it g id (pickBare ts a id) v)) :
    IdmB ts a trs it id toks (rtFB ts a trs it g id (pickBare ts a id) v) := by
  obtain ⟨g, rfl⟩ : ∃ g', g = g' + 1 := ⟨g - 1, by omega⟩
  obtain ⟨hpk, hupk⟩ := pick_wild hd hn
  have hm0 := hm
  rw [hpk] at hm hs
  rw [marshalBare_wild] at hm
  have hmeth : ifaceMeth ts id = false := by simp [ifaceMeth, hd]
  cases h with
  | zero => simp [hasTy] at hv
  | succ h =>
  cases v <;> try (simp [MOut.bad] at hm; done)
  rename_i o
  cases o with
  | none => exact idm_b_fix hR hm0 (by rw [hpk, rtFB_wild_none])
  | some q =>
    obtain ⟨dt, dv⟩ := q
    have hvd : hasTy ts h dt dv = true := by simpa [hasTy, hd] using hv
    simp only at hm
    rw [fullValB_wild] at hs
    simp only [Bool.and_eq_true] at hs
    obtain ⟨hdnp, hs⟩ := hs
    have hnp := (notPtrB_iff _).mp hdnp
    have hR' := hR
    unfold RBare at hR'
    rw [hupk] at hR'
    split at hs
    · -- scalar kinds
      rename_i hpkd
      obtain ⟨f, rfl⟩ : ∃ f', f = f' + 1 := by
        cases f with
        | zero => simp [marshalV, MOut.bad] at hm
        | succ f' => exact ⟨f', rfl⟩
      have hmB : marshalBare ts a trs f dt (pickBare ts a dt) dv = ⟨toks, none⟩ := by
        rwa [marshalV_nonptr ts a trs hnp] at hm
      rw [hpkd] at hmB
      obtain ⟨f, rfl⟩ : ∃ f', f = f' + 1 := by
        cases f with
        | zero => simp [marshalBare, MOut.bad] at hmB
        | succ f' => exact ⟨f', rfl⟩
      rw [marshalBare_prim] at hmB
      obtain ⟨b, rfl, hb⟩ := primTok_tok it hmB
      rcases hb with rfl | ⟨u, b', hsc⟩
      · -- null: the slot comes back empty
        have h1 := hR'.2 (f + 5) (by omega) []
        rw [List.cons_append, List.nil_append, unmBare_wild, hmeth, uW_null] at h1
        rw [← ok_inj_val h1]
        refine ⟨[⟨.null, none⟩], f + 5, hR.1.hd2T, fun F hF => ⟨?_, fun rest => ?_⟩⟩
        · obtain ⟨F, rfl⟩ : ∃ F', F = F' + 1 := ⟨F - 1, by omega⟩
          dsimp only
          rw [hpk, marshalBare_wild]
          rfl
        · obtain ⟨F, rfl⟩ : ∃ F', F = F' + 2 := ⟨F - 2, by omega⟩
          dsimp only
          rw [hupk, List.cons_append, List.nil_append, unmBare_wild, hmeth, uW_null]
          rfl
      · have h1 := hR'.2 (f + 5) (by omega) []
        rw [List.cons_append, List.nil_append, unmBare_wild, hmeth, (unmWild_scalU hsc (f+3) []).2] at h1
        rw [← ok_inj_val h1]
        have hup := UP_scalar (ts := ts) (a := a) (trs := trs) he b b' u hsc
        refine ⟨[⟨b', none⟩], f + 6, hup.1.toT, fun F hF => ⟨?_, fun rest => ?_⟩⟩
        · obtain ⟨F, rfl⟩ : ∃ F', F = F' + 1 := ⟨F - 1, by omega⟩
          have h2 := (hup.2 (F+2) (by omega)).2
          rw [marshalV_nonptr ts a trs (by simp [he.iface]), C12.pick_iface he] at h2
          dsimp only
          rw [hpk, mB_wild_id (F+1) id it.iface]
          exact h2
        · obtain ⟨F, rfl⟩ : ∃ F', F = F' + 2 := ⟨F - 2, by omega⟩
          dsimp only
          rw [hupk, List.cons_append, List.nil_append, unmBare_wild, hmeth, (unmWild_scalU hsc F rest).1]
          rfl
    · -- native []interface{}
      rename_i e' hpkd
      simp only [Bool.and_eq_true, beq_iff_eq] at hs
      obtain ⟨rfl, hs⟩ := hs
      have he' : e' = it.iface := by
        have := C12.pick_sliceI he
        rw [hpkd] at this
        cases this; rfl
      subst he'
      cases dv <;> try (cases hs; done)
      rename_i o
      cases o with
      | none => cases hs
      | some vs =>
        simp only [List.all_eq_true] at hs
        have hfv : fullVal ts a trs it (g+2) it.sliceI (.slice (some vs)) = true := by
          rw [fullVal_nonptr ts a trs it hnp, hpkd, fullValB_slice]; simpa using hs
        have hidm := ih.v 2 h it.sliceI (.slice (some vs)) toks (g+2) (by omega) (fullTy_sliceI he 0) (stabTy_sliceI he) hvd (by omega) hfv hm
        obtain ⟨-, hu⟩ := hrtf.v 2 h it.sliceI (.slice (some vs)) toks (g+2) (by omega) (fullTy_sliceI he 0) hvd (by omega) hfv hm
        obtain ⟨f, rfl⟩ : ∃ f', f = f' + 1 := by
          cases f with
          | zero => simp [marshalV, MOut.bad] at hm
          | succ f' => exact ⟨f', rfl⟩
        have hmB : marshalBare ts a trs f it.sliceI (pickBare ts a it.sliceI) (.slice (some vs)) = ⟨toks, none⟩ := by
          rwa [marshalV_nonptr ts a trs hnp] at hm
        rw [hpkd] at hmB
        obtain ⟨f, rfl⟩ : ∃ f', f = f' + 1 := by
          cases f with
          | zero => simp [marshalBare, MOut.bad] at hmB
          | succ f' => exact ⟨f', rfl⟩
        rw [marshalBare_slice] at hmB
        simp only at hmB
        obtain ⟨t1, t23, h1, h23, rfl⟩ := seq_ok hmB
        simp [MOut.ok] at h1; subst h1
        refine idm_wild_boxed hpk hupk ?_ ⟨_, _, hm⟩ hu hR hidm
        intro tk' hhd _ F R' rest hrd
        obtain ⟨t, r, t', r', h0, rfl, htag', -, -, -, -, hso, -⟩ := hhd
        simp only [List.cons_append, List.nil_append, List.cons.injEq] at h0
        obtain ⟨rfl, rfl⟩ := h0
        have htag' := htag' rfl
        obtain ⟨l', hl'⟩ := hso.1 _ rfl
        obtain ⟨tb', tt'⟩ := t'
        simp only at htag' hl'
        subst htag' hl'
        exact wild_arr he id hmeth _ r' _ F _ rest hrd (zeroVal ts 64 id)
    · -- native map[string]interface{}
      rename_i k' vt' mode' hpkd
      simp only [Bool.and_eq_true, beq_iff_eq] at hs
      obtain ⟨rfl, hs⟩ := hs
      have he' : k' = it.str ∧ vt' = it.iface ∧ mode' = a.defaultSort := by
        have := C12.pick_mapSI he
        rw [hpkd] at this
        cases this; exact ⟨rfl, rfl, rfl⟩
      obtain ⟨rfl, rfl, rfl⟩ := he'
      cases dv <;> try (cases hs; done)
      rename_i o
      cases o with
      | none => cases hs
      | some es =>
        simp only [Bool.and_eq_true, List.all_eq_true] at hs
        obtain ⟨hkeys, hnd⟩ := strKeysB_inv hs.1
        have hfv : fullVal ts a trs it (g+2) it.mapSI (.map (some es)) = true := by
          rw [fullVal_nonptr ts a trs it hnp, hpkd, fullValB_map]
          simp only [Bool.and_eq_true, List.all_eq_true]
          exact hs
        have hidm := ih.v 2 h it.mapSI (.map (some es)) toks (g+2) (by omega) (fullTy_mapSI he 0) (stabTy_mapSI he) hvd (by omega) hfv hm
        obtain ⟨-, hu⟩ := hrtf.v 2 h it.mapSI (.map (some es)) toks (g+2) (by omega) (fullTy_mapSI he 0) hvd (by omega) hfv hm
        obtain ⟨f, rfl⟩ : ∃ f', f = f' + 1 := by
          cases f with
          | zero => simp [marshalV, MOut.bad] at hm
          | succ f' => exact ⟨f', rfl⟩
        have hmB : marshalBare ts a trs f it.mapSI (pickBare ts a it.mapSI) (.map (some es)) = ⟨toks, none⟩ := by
          rwa [marshalV_nonptr ts a trs hnp] at hm
        rw [hpkd] at hmB
        obtain ⟨f, rfl⟩ : ∃ f', f = f' + 1 := by
          cases f with
          | zero => simp [marshalBare, MOut.bad] at hmB
          | succ f' => exact ⟨f', rfl⟩
        have hmk : mkeyFn ts a it.str = some none := by simp [mkeyFn, he.str]
        rw [marshalBare_map, hmk] at hmB
        simp only [Option.getD_some, mapM_keys es hkeys, Option.isNone_some, Bool.false_eq_true, if_false] at hmB
        obtain ⟨t1, t23, h1, h23, rfl⟩ := seq_ok hmB
        simp [MOut.ok] at h1; subst h1
        refine idm_wild_boxed hpk hupk ?_ ⟨_, _, hm⟩ hu hR hidm
        intro tk' hhd _ F R' rest hrd
        obtain ⟨t, r, t', r', h0, rfl, htag', -, -, -, -, hso, -⟩ := hhd
        simp only [List.cons_append, List.nil_append, List.cons.injEq] at h0
        obtain ⟨rfl, rfl⟩ := h0
        have htag' := htag' rfl
        obtain ⟨l', hl'⟩ := hso.2 _ rfl
        obtain ⟨tb', tt'⟩ := t'
        simp only at htag' hl'
        subst htag' hl'
        exact wild_map he id hmeth _ r' _ F _ rest hrd (zeroVal ts 64 id)
    · -- tagged struct type
      rename_i e' fs' hpkd
      simp only [Bool.and_eq_true] at hs
      obtain ⟨⟨htg, hfull⟩, hsB⟩ := hs
      have hge := (view_entry (fullTy_view (p := 63) hfull hnp)).1 e' fs' hpkd
      have hfv : fullVal ts a trs it (g+1) dt dv = true := by rw [fullVal_nonptr ts a trs it hnp]; exact hsB
      obtain ⟨-, hu⟩ := hrtf.v 64 h dt dv toks (g+1) (by omega) hfull hvd (by omega) hfv hm
      unfold taggedB at htg
      split at htg
      · rename_i tg htag
        simp only [beq_iff_eq] at htg
        have hidm := ih.v 64 h dt dv toks (g+1) (by omega) hfull (hts.get hge htag) hvd (by omega) hfv hm
        refine idm_wild_boxed hpk hupk ?_ ⟨_, _, hm⟩ hu hR hidm
        intro tk' hhd hmv F R' rest hrd
        obtain ⟨t, r, t', r', -, rfl, -⟩ := hhd
        have ht : t'.tag = some tg := by
          obtain ⟨F', x, hmx⟩ := hmv
          obtain ⟨F', rfl⟩ : ∃ f', F' = f' + 1 := by
            cases F' with
            | zero => simp [marshalV, MOut.bad] at hmx
            | succ f' => exact ⟨f', rfl⟩
          rw [marshalV_nonptr ts a trs hnp, hpkd] at hmx
          rw [(C20.struct_tag_first ts a trs F' dt e' fs' x t' r' none hmx).1, htag]
        obtain ⟨tb', tt'⟩ := t'
        simp only at ht
        subst ht
        have hety := get_ty hge
        subst hety
        exact wild_tagged id hmeth tg e' htg hnp _ r' _ F _ rest hrd (zeroVal ts 64 id)
      · cases htg
    · -- tagged transform type
      rename_i e' fn' mty' hpkd
      simp only [Bool.and_eq_true] at hs
      obtain ⟨⟨htg, hfull⟩, hsB⟩ := hs
      have hge := (view_entry (fullTy_view (p := 63) hfull hnp)).2 e' fn' mty' hpkd
      have hfv : fullVal ts a trs it (g+1) dt dv = true := by rw [fullVal_nonptr ts a trs it hnp]; exact hsB
      obtain ⟨-, hu⟩ := hrtf.v 64 h dt dv toks (g+1) (by omega) hfull hvd (by omega) hfv hm
      unfold taggedB at htg
      split at htg
      · rename_i tg htag
        simp only [beq_iff_eq] at htg
        have hidm := ih.v 64 h dt dv toks (g+1) (by omega) hfull (hts.get hge htag) hvd (by omega) hfv hm
        refine idm_wild_boxed hpk hupk ?_ ⟨_, _, hm⟩ hu hR hidm
        intro tk' hhd hmv F R' rest hrd
        obtain ⟨t, r, t', r', -, rfl, -⟩ := hhd
        have ht : t'.tag = some tg := by
          obtain ⟨F', x, hmx⟩ := hmv
          obtain ⟨F', rfl⟩ : ∃ f', F' = f' + 1 := by
            cases F' with
            | zero => simp [marshalV, MOut.bad] at hmx
            | succ f' => exact ⟨f', rfl⟩
          rw [marshalV_nonptr ts a trs hnp, hpkd] at hmx
          exact C20.transform_tag_first ts a trs F' dt fn' mty' e' tg x t' r' none htag hmx
        obtain ⟨tb', tt'⟩ := t'
        simp only at ht
        subst ht
        have hety := get_ty hge
        subst hety
        exact wild_tagged id hmeth tg e' htg hnp _ r' _ F _ rest hrd (zeroVal ts 64 id)
      · cases htg
    · cases hs

end Refmt.Obj
