-- the round-trip induction over `fullTy` (statements, list / map-entry / struct-field / pointer-chain steps);
-- see RefmtProofs/Props/C13Full.lean
import RefmtProofs.Lemmas.FullEqv
import RefmtProofs.Props.C20
set_option linter.unusedSimpArgs false
set_option linter.unusedVariables false
namespace Refmt.Obj
open Refmt Refmt.C13 Refmt.C11 Refmt.C12

/-- the shape of what a value serializes to: a single (possibly tagged) null, or a stream that starts with a token
    that is neither null nor a close token -/
def HeadSpec (toks : List Tok) : Prop :=
  (∃ tg, toks = [⟨.null, tg⟩]) ∨ (∃ t r, toks = t :: r ∧ t.body ≠ .null ∧ t.body ≠ .arrClose ∧ t.body ≠ .mapClose)

theorem HeadSpec.head {toks : List Tok} (h : HeadSpec toks) : ∃ t r, toks = t :: r ∧ t.body ≠ .arrClose ∧ t.body ≠ .mapClose := by
  rcases h with ⟨tg, rfl⟩ | ⟨t, r, rfl, -, h1, h2⟩
  · exact ⟨_, _, rfl, by simp, by simp⟩
  · exact ⟨t, r, rfl, h1, h2⟩

section
variable (ts : Types) (a : Atlas) (trs : Trs) (it : IfaceTys)

/-- The round-trip induction (C13's `RT`, C11's `RTS`) over `fullTy`.  `f` is the marshaller's fuel, `F` any larger
    fuel for the unmarshaller (the untyped slot needs one unit more to read a nil than the marshaller to write it),
    `g ≥ f` the fuel of the specification (`rtF g` / `normV g`), at which the value side conditions `fullVal g` are
    stated. -/
structure RTF (f : Nat) : Prop where
  v : ∀ p h id v toks g, p ≤ 64 → fullTy ts a p id = true → hasTy ts h id v = true → f ≤ g → fullVal ts a trs it g id v = true →
      marshalV ts a trs f id v = ⟨toks, none⟩ → HeadSpec toks ∧ ∀ F, f < F → ∀ rest,
      unmV ts a trs it F id (zeroVal ts 64 id) (toks ++ rest) = .ok (rtF ts a trs it g id v) rest toks.length
  b : ∀ p h id v toks g, p + 1 ≤ 64 → fullTy ts a (p + 1) id = true → (∀ e, ts.get id ≠ .ptr e) → hasTy ts h id v = true → f ≤ g →
      fullValB ts a trs it g id (pickBare ts a id) v = true →
      marshalBare ts a trs f id (pickBare ts a id) v = ⟨toks, none⟩ → HeadSpec toks ∧ ∀ F, f < F → ∀ rest,
      unmBare ts a trs it F id (upickBare ts a id) (zeroVal ts 64 id) (toks ++ rest) =
        .ok (rtFB ts a trs it g id (pickBare ts a id) v) rest toks.length
  l : ∀ p h e vs toks g, p ≤ 64 → fullTy ts a p e = true → (∀ x ∈ vs, hasTy ts h e x = true) → f ≤ g →
      (∀ x ∈ vs, fullVal ts a trs it g e x = true) →
      marshalList ts a trs f e vs = ⟨toks, none⟩ → ∀ F, f < F → ∀ cap acc rest, (∀ n, cap = some n → acc.length + vs.length ≤ n) →
      unmElems ts a trs it F e cap acc (toks ++ ⟨.arrClose, none⟩ :: rest) =
        .ok (.slice (some (acc.reverse ++ vs.map (rtF ts a trs it g e)))) rest (toks.length + 1)
  m : ∀ p h vt (kvs : List (Bytes × Val)) toks g, p ≤ 64 → fullTy ts a p vt = true → (∀ q ∈ kvs, hasTy ts h vt q.2 = true) → f ≤ g →
      (∀ q ∈ kvs, fullVal ts a trs it g vt q.2 = true) → (kvs.map (·.1)).Nodup →
      marshalEntries ts a trs f vt kvs = ⟨toks, none⟩ → ∀ F, f < F → ∀ es0 rest, (∀ q ∈ kvs, hasKey (.str q.1) es0 = false) →
      unmMapEntries ts a trs it F none vt es0 (toks ++ ⟨.mapClose, none⟩ :: rest) =
        .ok (.map (some (es0 ++ kvs.map fun (q : Bytes × Val) => (Val.str q.1, rtF ts a trs it g vt q.2)))) rest (toks.length + 1)
  s : ∀ p h id fds (fields fl : List SMField) (vs : List Val) toks g, p ≤ 64 → ts.get id = .struct fds →
      (fields.map (·.name)).Nodup → (fl.map (·.route)).Nodup → (∀ fld ∈ fl, fld ∈ fields ∧ FOKF ts a p fds fld) →
      (∀ (i : Nat) fd x, fds[i]? = some fd → vs[i]? = some x → hasTy ts h fd.ty x = true) → f ≤ g →
      (∀ fld ∈ fl, ∀ fv, traverse fld.route (.struct vs) = some fv → fullVal ts a trs it g fld.ty fv = true) →
      marshalFields ts a trs f fl (.struct vs) = ⟨toks, none⟩ → ∀ F, f < F →
      ∀ (cs : List Val) (idx : Nat) (len : Int) rest, cs.length = fds.length →
      (∀ fld ∈ fl, ∀ (i : Nat), fld.route = [i] → cs[i]? = some (zeroVal ts 64 fld.ty)) → len = ((idx + fl.length : Nat) : Int) →
      unmStruct ts a trs it F id fields len idx (.struct cs) (toks ++ ⟨.mapClose, none⟩ :: rest) =
        .ok (fl.foldl (fieldStep ts id (.struct vs) (rtF ts a trs it g)) (.struct cs)) rest (toks.length + 1)

theorem rtf_zero : RTF ts a trs it 0 where
  v := by intro p h id v toks g _ _ _ _ _ hm; simp [marshalV, MOut.bad] at hm
  b := by intro p h id v toks g _ _ _ _ _ _ hm; simp [marshalBare, MOut.bad] at hm
  l := by intro p h e vs toks g _ _ _ _ _ hm; simp [marshalList, MOut.bad] at hm
  m := by intro p h vt kvs toks g _ _ _ _ _ _ hm; simp [marshalEntries, MOut.bad] at hm
  s := by intro p h id fds fields fl vs toks g _ _ _ _ _ _ _ _ hm; simp [marshalFields, MOut.bad] at hm

/-! ### fuel monotonicity of the bare marshaller; null serializations -/

theorem marshalBare_mono_le (f f' id : Nat) (m : Mach) (v : Val) (o : MOut)
    (h : marshalBare ts a trs f id m v = o) (hp : o.fail ≠ some .panic) (hle : f ≤ f') :
    marshalBare ts a trs f' id m v = o := by
  induction hle with
  | refl => exact h
  | step _ ih => rw [← ih]; exact (C07.all_mono ts a trs _).2.1 id m v (by rw [ih]; exact hp)

theorem isNullSer_null {f base : Nat} {inner : Val} {tg : Option Int} (hnp : ∀ e, ts.get base ≠ .ptr e)
    (hm : marshalBare ts a trs f base (pickBare ts a base) inner = ⟨[⟨.null, tg⟩], none⟩) (hf : f ≤ 999) :
    isNullSer ts a trs base inner = true := by
  have := marshalBare_mono_le ts a trs f 999 base _ inner _ hm (by simp) hf
  unfold isNullSer
  rw [show (1000 : Nat) = 999 + 1 from rfl, marshalV_succ, C13.peel_nonptr ts base hnp 63 0]
  simp [this]

theorem isNullSer_nonnull {f base : Nat} {inner : Val} {t : Tok} {r : List Tok} (hnp : ∀ e, ts.get base ≠ .ptr e)
    (hm : marshalBare ts a trs f base (pickBare ts a base) inner = ⟨t :: r, none⟩) (ht : t.body ≠ .null) (hf : f ≤ 999) :
    isNullSer ts a trs base inner = false := by
  have := marshalBare_mono_le ts a trs f 999 base _ inner _ hm (by simp) hf
  exact nullSer_false ts a trs base inner hnp t r (by rw [this]) ht

theorem isBareNullSer_false {f dt : Nat} {dv : Val} {t : Tok} {r : List Tok}
    (hm : marshalV ts a trs f dt dv = ⟨t :: r, none⟩) (ht : t.body ≠ .null ∨ t.tag ≠ none) (hf : f ≤ 1000) :
    isBareNullSer .pretty ts a trs dt dv = false := by
  have := C07.marshal_fuel_mono_le ts a trs f 1000 dt dv _ hm (by simp) hf
  unfold isBareNullSer
  rw [this]
  cases r with
  | cons x xs => rfl
  | nil =>
    simp only
    rcases ht with ht | ht
    · split
      · rename_i hb; exact absurd hb ht
      · rfl
    · split
      · cases htag : t.tag with
        | none => exact absurd htag ht
        | some g => simp [htag]
      · rfl

theorem isBareNullSer_null {f dt : Nat} {dv : Val}
    (hm : marshalV ts a trs f dt dv = ⟨[⟨.null, none⟩], none⟩) (hf : f ≤ 1000) :
    isBareNullSer .pretty ts a trs dt dv = true := by
  have := C07.marshal_fuel_mono_le ts a trs f 1000 dt dv _ hm (by simp) hf
  unfold isBareNullSer
  rw [this]
  rfl

/-- on a non-pointer type `unmV` is the bare machine one unit of fuel below -/
theorem unmV_nonptr {id : Nat} (hnp : ∀ e, ts.get id ≠ .ptr e) (F : Nat) (cur : Val) (t : Tok) (rest : List Tok) :
    unmV ts a trs it (F+1) id cur (t :: rest) = unmBare ts a trs it F id (upickBare ts a id) cur (t :: rest) := by
  rw [unmV_cons, C13.peel_nonptr ts id hnp 63 0]
  simp

theorem marshalV_nonptr {id : Nat} (hnp : ∀ e, ts.get id ≠ .ptr e) (f : Nat) (v : Val) :
    marshalV ts a trs (f+1) id v = marshalBare ts a trs f id (pickBare ts a id) v := by
  rw [marshalV_succ, C13.peel_nonptr ts id hnp 63 0]
  simp

theorem rtF_nonptr {id : Nat} (hnp : ∀ e, ts.get id ≠ .ptr e) (g : Nat) (v : Val) :
    rtF ts a trs it (g+1) id v = rtFB ts a trs it g id (pickBare ts a id) v := by
  rw [rtF_succ, C13.peel_nonptr ts id hnp 63 0]
  simp

theorem fullVal_nonptr {id : Nat} (hnp : ∀ e, ts.get id ≠ .ptr e) (g : Nat) (v : Val) :
    fullVal ts a trs it (g+1) id v = fullValB ts a trs it g id (pickBare ts a id) v := by
  rw [fullVal_succ, C13.peel_nonptr ts id hnp 63 0]
  simp

end

variable {ts : Types} {a : Atlas} {trs : Trs} {it : IfaceTys}

/-! ### lists, map entries, struct fields -/

theorem rtf_l {f} (ih : RTF ts a trs it f) : ∀ p h e vs toks g, p ≤ 64 → fullTy ts a p e = true → (∀ x ∈ vs, hasTy ts h e x = true) → f + 1 ≤ g →
      (∀ x ∈ vs, fullVal ts a trs it g e x = true) →
      marshalList ts a trs (f+1) e vs = ⟨toks, none⟩ → ∀ F, f + 1 < F → ∀ cap acc rest, (∀ n, cap = some n → acc.length + vs.length ≤ n) →
      unmElems ts a trs it F e cap acc (toks ++ ⟨.arrClose, none⟩ :: rest) =
        .ok (.slice (some (acc.reverse ++ vs.map (rtF ts a trs it g e)))) rest (toks.length + 1) := by
  intro p h e vs toks g hp64 hp hv hg hfv hm F hF cap acc rest hcap
  obtain ⟨F, rfl⟩ : ∃ F', F = F' + 1 := ⟨F - 1, by omega⟩
  cases vs with
  | nil =>
    rw [marshalList_nil] at hm
    simp [MOut.ok] at hm; subst hm
    simp [unmElems_cons]
  | cons x xs =>
    rw [marshalList_cons] at hm
    obtain ⟨tx, txs, h1, h2, rfl⟩ := seq_ok hm
    obtain ⟨hhs, hx⟩ := ih.v p h e x tx g hp64 hp (hv x (by simp)) (by omega) (hfv x (by simp)) h1
    obtain ⟨t, r, rfl, hc1, hc2⟩ := hhs.head
    have hx := hx F (by omega) (txs ++ ⟨.arrClose, none⟩ :: rest)
    have hxs := ih.l p h e xs txs g hp64 hp (fun y hy => hv y (by simp [hy])) (by omega) (fun y hy => hfv y (by simp [hy])) h2 F (by omega)
      cap (rtF ts a trs it g e x :: acc) rest (fun n hn => by have := hcap n hn; simp at this ⊢; omega)
    have hcf : capFull cap acc = false := by
      unfold capFull
      cases cap with
      | none => rfl
      | some n => have := hcap n rfl; simp at this ⊢; omega
    have e1 : (t :: r ++ txs) ++ ⟨.arrClose, none⟩ :: rest = t :: (r ++ (txs ++ ⟨.arrClose, none⟩ :: rest)) := by simp
    rw [e1, unmElems_cons]
    have e2 : t :: (r ++ (txs ++ ⟨.arrClose, none⟩ :: rest)) = (t :: r) ++ (txs ++ ⟨.arrClose, none⟩ :: rest) := by simp
    split
    · rename_i hb; exact absurd hb hc2
    · rename_i hb; exact absurd hb hc1
    · rw [hcf, e2, hx]
      simp [hxs]
      omega

theorem rtf_m {f} (ih : RTF ts a trs it f) : ∀ p h vt (kvs : List (Bytes × Val)) toks g, p ≤ 64 → fullTy ts a p vt = true → (∀ q ∈ kvs, hasTy ts h vt q.2 = true) → f + 1 ≤ g →
      (∀ q ∈ kvs, fullVal ts a trs it g vt q.2 = true) → (kvs.map (·.1)).Nodup →
      marshalEntries ts a trs (f+1) vt kvs = ⟨toks, none⟩ → ∀ F, f + 1 < F → ∀ es0 rest, (∀ q ∈ kvs, hasKey (.str q.1) es0 = false) →
      unmMapEntries ts a trs it F none vt es0 (toks ++ ⟨.mapClose, none⟩ :: rest) =
        .ok (.map (some (es0 ++ kvs.map fun (q : Bytes × Val) => (Val.str q.1, rtF ts a trs it g vt q.2)))) rest (toks.length + 1) := by
  intro p h vt kvs toks g hp64 hp hv hg hfv hnd hm F hF es0 rest hes
  obtain ⟨F, rfl⟩ : ∃ F', F = F' + 1 := ⟨F - 1, by omega⟩
  cases kvs with
  | nil =>
    rw [marshalEntries_nil] at hm
    simp [MOut.ok] at hm; subst hm
    simp [unmMapEntries_cons]
  | cons q qs =>
    obtain ⟨s, x⟩ := q
    rw [marshalEntries_cons] at hm
    obtain ⟨t1, t23, h1, h23, rfl⟩ := seq_ok hm
    obtain ⟨tx, txs, h2, h3, rfl⟩ := seq_ok h23
    simp [MOut.ok] at h1; subst h1
    obtain ⟨-, hx⟩ := ih.v p h vt x tx g hp64 hp (hv (s, x) (by simp)) (by omega) (hfv (s, x) (by simp)) h2
    have hx := hx F (by omega) (txs ++ ⟨.mapClose, none⟩ :: rest)
    simp only [List.map_cons, List.nodup_cons] at hnd
    have hxs := ih.m p h vt qs txs g hp64 hp (fun y hy => hv y (by simp [hy])) (by omega) (fun y hy => hfv y (by simp [hy])) hnd.2 h3 F (by omega)
      (es0 ++ [(.str s, rtF ts a trs it g vt x)]) rest (fun y hy => by
        rw [hasKey_append_str, hes y (by simp [hy])]
        simp only [Bool.false_or, beq_eq_false_iff_ne]
        intro he
        exact hnd.1 (by rw [he]; exact List.mem_map_of_mem hy))
    have e1 : ([⟨.str s, none⟩] ++ (tx ++ txs)) ++ ⟨.mapClose, none⟩ :: rest =
        ⟨.str s, none⟩ :: (tx ++ (txs ++ ⟨.mapClose, none⟩ :: rest)) := by simp
    rw [e1, unmMapEntries_cons]
    simp only [mapKey, hes (s, x) (by simp), hx]
    simp [hxs]
    omega

theorem rtf_s {f} (ih : RTF ts a trs it f) : ∀ p h id fds (fields fl : List SMField) (vs : List Val) toks g, p ≤ 64 → ts.get id = .struct fds →
      (fields.map (·.name)).Nodup → (fl.map (·.route)).Nodup → (∀ fld ∈ fl, fld ∈ fields ∧ FOKF ts a p fds fld) →
      (∀ (i : Nat) fd x, fds[i]? = some fd → vs[i]? = some x → hasTy ts h fd.ty x = true) → f + 1 ≤ g →
      (∀ fld ∈ fl, ∀ fv, traverse fld.route (.struct vs) = some fv → fullVal ts a trs it g fld.ty fv = true) →
      marshalFields ts a trs (f+1) fl (.struct vs) = ⟨toks, none⟩ → ∀ F, f + 1 < F →
      ∀ (cs : List Val) (idx : Nat) (len : Int) rest, cs.length = fds.length →
      (∀ fld ∈ fl, ∀ (i : Nat), fld.route = [i] → cs[i]? = some (zeroVal ts 64 fld.ty)) → len = ((idx + fl.length : Nat) : Int) →
      unmStruct ts a trs it F id fields len idx (.struct cs) (toks ++ ⟨.mapClose, none⟩ :: rest) =
        .ok (fl.foldl (fieldStep ts id (.struct vs) (rtF ts a trs it g)) (.struct cs)) rest (toks.length + 1) := by
  intro p h id fds fields fl vs toks g hp64 hd hnames hroutes hfl hv hg hfv hm F hF cs idx len rest hcs hzero hlen
  obtain ⟨F, rfl⟩ : ∃ F', F = F' + 1 := ⟨F - 1, by omega⟩
  cases fl with
  | nil =>
    rw [marshalFields_nil] at hm
    simp [MOut.ok] at hm; subst hm
    subst hlen
    simp [unmStruct_cons]
  | cons fld fl' =>
    obtain ⟨hmem, hign, i, fd, hroute, hfd, hty, hst⟩ := hfl fld (by simp)
    have hfvx := hfv fld (by simp)
    rw [marshalFields_cons, hroute, traverse_one] at hm
    rw [hroute, traverse_one] at hfvx
    cases hvi : vs[i]? with
    | none => rw [hvi] at hm; simp [MOut.bad] at hm
    | some fv =>
    rw [hvi] at hm
    simp only at hm
    obtain ⟨t1, t23, h1, h23, rfl⟩ := seq_ok hm
    obtain ⟨tx, txs, h2, h3, rfl⟩ := seq_ok h23
    simp [MOut.ok] at h1; subst h1
    have hvfv : hasTy ts h fld.ty fv = true := by rw [← hty]; exact hv i fd fv hfd hvi
    obtain ⟨hhs, hx⟩ := ih.v p h fld.ty fv tx g hp64 hst hvfv (by omega) (hfvx fv hvi) h2
    obtain ⟨t, r, rfl, hc1, hc2⟩ := hhs.head
    have hx := hx F (by omega) (txs ++ ⟨.mapClose, none⟩ :: rest)
    have hci : cs[i]? = some (zeroVal ts 64 fld.ty) := hzero fld (by simp) i hroute
    simp only [List.map_cons, List.nodup_cons] at hroutes
    have hxs := ih.s p h id fds fields fl' vs txs g hp64 hd hnames hroutes.2 (fun y hy => hfl y (by simp [hy])) hv (by omega)
      (fun y hy => hfv y (by simp [hy])) h3 F (by omega)
      (cs.set i (rtF ts a trs it g fld.ty fv)) (idx + 1) len rest (by simp [hcs])
      (fun y hy j hj => by
        have hne : i ≠ j := by
          intro he
          apply hroutes.1
          rw [hroute, he, ← hj]
          exact List.mem_map_of_mem hy
        rw [List.getElem?_set_ne hne]
        exact hzero y (by simp [hy]) j hj)
      (by rw [hlen]; simp only [List.length_cons]; congr 1; omega)
    have e1 : ([⟨.str fld.name, none⟩] ++ (t :: r ++ txs)) ++ ⟨.mapClose, none⟩ :: rest =
        ⟨.str fld.name, none⟩ :: t :: (r ++ (txs ++ ⟨.mapClose, none⟩ :: rest)) := by simp
    have e2 : t :: (r ++ (txs ++ ⟨.mapClose, none⟩ :: rest)) = (t :: r) ++ (txs ++ ⟨.mapClose, none⟩ :: rest) := by simp
    have hstep : fieldStep ts id (.struct vs) (rtF ts a trs it g) (.struct cs) fld = .struct (cs.set i (rtF ts a trs it g fld.ty fv)) := by
      unfold fieldStep
      rw [hroute, traverse_one, hvi]
      simp only
      rw [setRoute_one ts _ hd hfd hci]
      rfl
    rw [e1, unmStruct_cons]
    simp only [find?_name fields hnames fld hmem, hign, Bool.false_eq_true, if_false]
    rw [hroute, getRoute_one ts hd hfd hci]
    simp only
    rw [e2, hx]
    simp only [URes.bind'_ok, structCont]
    rw [setRoute_one ts _ hd hfd hci]
    simp only [hxs, List.foldl_cons, hstep, URes.shift_ok]
    simp
    omega

/-! ### pointer chains -/

theorem rtf_v {f} (hf : f + 1 ≤ 1000) (ih : RTF ts a trs it f) : ∀ p h id v toks g, p ≤ 64 → fullTy ts a p id = true → hasTy ts h id v = true →
      f + 1 ≤ g → fullVal ts a trs it g id v = true →
      marshalV ts a trs (f+1) id v = ⟨toks, none⟩ → HeadSpec toks ∧ ∀ F, f + 1 < F → ∀ rest,
      unmV ts a trs it F id (zeroVal ts 64 id) (toks ++ rest) = .ok (rtF ts a trs it g id v) rest toks.length := by
  intro p h id v toks g hp64 hp hv hg hfv hm
  obtain ⟨g, rfl⟩ : ∃ g', g = g' + 1 := ⟨g - 1, by omega⟩
  obtain ⟨n, base, p', hpeel, hpb, hnp, hch, hp'p⟩ := full_peel ts a p 64 0 id hp hp64
  simp only [Nat.zero_add] at hpeel
  have hp'64 : p' + 1 ≤ 64 := by omega
  rw [marshalV_succ, hpeel] at hm
  rw [fullVal_succ, hpeel] at hfv
  rw [rtF_succ, hpeel]
  simp only at hm hfv ⊢
  cases n with
  | zero =>
    cases hch
    simp only [beq_self_eq_true, if_true] at hm hfv ⊢
    obtain ⟨hhs, hu⟩ := ih.b p' h id v toks g hp'64 hpb hnp hv (by omega) hfv hm
    refine ⟨hhs, fun F hF rest => ?_⟩
    obtain ⟨F, rfl⟩ : ∃ F', F = F' + 1 := ⟨F - 1, by omega⟩
    obtain ⟨t, r, rfl, -, -⟩ := hhs.head
    rw [List.cons_append, unmV_cons, hpeel]
    simpa using hu F (by omega) rest
  | succ n =>
    have hn0 : ((n + 1 == 0) = false) := by simp
    simp only [hn0] at hm hfv ⊢
    rcases chain_hasTy ts (n + 1) id base h v hch hv with hdn | ⟨inner, h', hdn, hvi⟩
    · rw [hdn] at hm ⊢
      simp [MOut.ok] at hm; subst hm
      refine ⟨Or.inl ⟨none, rfl⟩, fun F hF rest => ?_⟩
      obtain ⟨F, rfl⟩ : ∃ F', F = F' + 1 := ⟨F - 1, by omega⟩
      rw [List.cons_append, unmV_cons, hpeel]
      simp
    · rw [hdn] at hm hfv ⊢
      simp only [Bool.false_eq_true, if_false] at hm hfv ⊢
      obtain ⟨hhs, hu⟩ := ih.b p' h' base inner toks g hp'64 hpb hnp hvi (by omega) hfv hm
      refine ⟨hhs, fun F hF rest => ?_⟩
      obtain ⟨F, rfl⟩ : ∃ F', F = F' + 1 := ⟨F - 1, by omega⟩
      have hu := hu F (by omega) rest
      have hic := innerCur_zeroVal ts (n + 1) id base hch
      rcases hhs with ⟨tg, rfl⟩ | ⟨t, r, rfl, hnn, h1, h2⟩
      · have hnull := isNullSer_null ts a trs hnp hm (by omega)
        rw [List.cons_append, unmV_cons, hpeel]
        simp [hnull]
      · have hnull := isNullSer_nonnull ts a trs hnp hm hnn (by omega)
        rw [List.cons_append, unmV_cons, hpeel]
        simp only [hn0, hnull, Bool.false_eq_true, if_false, hic]
        rw [List.cons_append] at hu
        first
          | (rw [hu]; rfl)
          | (split
             · rename_i hb; exact absurd hb hnn
             · rw [hu]; rfl)

end Refmt.Obj
