/-
  Stateful object unmarshaller: `requisitionMachine` for a type of a closed set yields a configured row.
-/
import RefmtProofs.Lemmas.UnmarshalMachUnionSimA
set_option linter.unusedSimpArgs false
set_option linter.unusedVariables false
namespace Refmt.UMachU
open Refmt Refmt.Obj Refmt.Obj.UM Refmt.UMachL

variable {ts : Types} {a : Atlas} {trs : Trs} {it : IfaceTys}

theorem yieldLeaf_cov {S : List Nat} {wi : Option Nat} {f base : Nat} {M : UMach} (hM : upickBare ts a base = M)
    (h : okLeaf S wi M) :
    ∃ row' k, yieldBare ts a (f+2) URow.zero base = .ok (row', k) ∧ CfgLeaf row' base k M ∧
      row'.ptr = URow.zero.ptr ∧ row'.transform = URow.zero.transform ∧ k ≠ .transform := by
  simp only [yieldBare, hM]
  cases M <;> simp only [okLeaf] at h <;> simp only [cfgU] <;>
    first
    | exact ⟨_, _, rfl, by simp [CfgLeaf, URow.zero], rfl, rfl, by simp⟩
    | exact h.elim

theorem yieldBare_cov {S : List Nat} {wi : Option Nat} {f base : Nat} (h : okMach ts a S wi (upickBare ts a base)) :
    ∃ row' k, yieldBare ts a (f+4) URow.zero base = .ok (row', k) ∧ CfgBare ts a row' base k (upickBare ts a base) ∧
      row'.ptr = URow.zero.ptr := by
  cases hM : upickBare ts a base with
  | wildcard => exact ⟨URow.zero, .wild, by simp [yieldBare, cfgU, hM], by simp [CfgBare], rfl⟩
  | transform fn uty =>
    rw [hM] at h
    obtain ⟨hp, hl⟩ := h
    obtain ⟨row1, k', hy, hc, hp1, ht1, hk'⟩ := yieldLeaf_cov (f := f) rfl hl
    refine ⟨{ row1 with transform := { row1.transform with trFunc := fn, recv_rt := uty, delegate := some k' } },
      .transform, ?_, ?_, hp1⟩
    · have hb : (k' == MK.transform) = false := by simp [hk']
      simp only [yieldBare, hM]
      simp only [cfgU, hp, hy, hb, Bool.false_eq_true, if_false]
    · refine ⟨rfl, rfl, rfl, k', rfl, ?_⟩
      revert hc
      generalize upickBare ts a uty = M'
      cases M' <;> simp [CfgLeaf]
  | prim | errThunk | slice _ | array _ _ | map _ _ | structMap _ =>
    rw [hM] at h
    obtain ⟨row1, k', hy, hc, hp1, _, _⟩ := yieldLeaf_cov (f := f + 2) hM (show okLeaf S wi _ from h)
    exact ⟨row1, k', hy, hc, hp1⟩
  | union ms =>
    exact ⟨{ URow.zero with union := { URow.zero.union with members := ms } }, .union,
      by simp [yieldBare, cfgU, hM], by simp [CfgBare], rfl⟩
  | _ => rw [hM] at h; exact h.elim

theorem requisition_cov {S : List Nat} {wi : Option Nat} {f : Nat} {R : List URow} {id : Nat} (hS : Closed ts a S wi) (hid : id ∈ S) :
    ∃ crow ck, requisition ts a (f+4) R id = .ok (R ++ [crow], ⟨R.length, ck⟩) ∧ CfgV ts a crow id ck := by
  obtain ⟨row', k, hy, hc, hp⟩ := yieldBare_cov (f := f) (hS id hid)
  simp only [requisition, yieldU, hy]
  by_cases h0 : (peel ts 64 0 id).1 = 0
  · refine ⟨row', k, by simp [h0], k, hc, by simp [h0]⟩
  · have hc' : CfgBare ts a { row' with ptr := { row'.ptr with mach := some k, peelCount := (peel ts 64 0 id).1 } }
        (peel ts 64 0 id).2 k (upickBare ts a (peel ts 64 0 id).2) := by
      revert hc
      generalize upickBare ts a (peel ts 64 0 id).2 = M
      intro hc
      cases M with
      | transform fn uty =>
        obtain ⟨h1, h2, h3, k', h4, h5⟩ := hc
        refine ⟨h1, h2, h3, k', h4, ?_⟩
        revert h5
        generalize upickBare ts a uty = M'
        cases M' <;> simp [CfgLeaf]
      | wildcard => exact hc
      | _ => simpa [CfgBare, CfgLeaf] using hc
    exact ⟨_, .ptr, by simp [h0], k, hc', by simp [h0]⟩

/-- configuring the tip row for a covered member: the pointer and union machines' fields are not touched -/
theorem cfgMember {S : List Nat} {wi : Option Nat} {f : Nat} (trow : URow) (ty : Nat) {M : UMach}
    (h : okMember ts a S wi M) :
    ∃ trow' k, cfgU ts a (f+3) trow ty M = .ok (trow', k) ∧ trow'.ptr = trow.ptr ∧ trow'.union = trow.union ∧
      CfgBare ts a trow' ty k M ∧ k ≠ .union ∧ k ≠ .ptr ∧ (k = .transform → trow'.transform.delegate ≠ some .union) ∧ trow'.wild = trow.wild := by
  cases M with
  | structMap fs =>
    exact ⟨_, _, rfl, rfl, rfl, ⟨rfl, rfl⟩, by simp, by simp, (by intro h; cases h), rfl⟩
  | map kt e => exact ⟨_, _, rfl, rfl, rfl, rfl, by simp, by simp, (by intro h; cases h), rfl⟩
  | transform fn uty =>
    obtain ⟨hp, hs⟩ := h
    simp only [cfgU, hp, Bool.false_eq_true, if_false, yieldBare]
    revert hs
    cases hM' : upickBare ts a uty with
    | structMap fs' =>
      intro hs
      exact ⟨_, _, rfl, rfl, rfl, ⟨rfl, rfl, rfl, .struct, rfl, by rw [hM']; exact ⟨rfl, rfl⟩⟩, by simp, by simp, (by intro _; simp), rfl⟩
    | slice e =>
      intro hs
      exact ⟨_, _, rfl, rfl, rfl, ⟨rfl, rfl, rfl, .slice, rfl, by rw [hM']; exact rfl⟩, by simp, by simp, (by intro _; simp), rfl⟩
    | array nn e =>
      intro hs
      exact ⟨_, _, rfl, rfl, rfl, ⟨rfl, rfl, rfl, .array, rfl, by rw [hM']; exact rfl⟩, by simp, by simp, (by intro _; simp), rfl⟩
    | map kt e =>
      intro hs
      exact ⟨_, _, rfl, rfl, rfl, ⟨rfl, rfl, rfl, .map, rfl, by rw [hM']; exact rfl⟩, by simp, by simp, (by intro _; simp), rfl⟩
    | _ => intro hs; exact hs.elim
  | _ => exact h.elim

/-- the `Reset` of a covered member's / tagged entry's machine keeps what a chain above it looks at -/
theorem tag_frame {S : List Nat} {wi : Option Nat} {T : URow} {ty : Nat} {k : MK} {M : UMach}
    (hokm : okMember ts a S wi M) (hcfg : CfgBare ts a T ty k M) {L : List URow} :
    ∀ f rt v (Tx : URow) hi R1, Tx.transform = T.transform →
      resetM ts a f ⟨L.length, k⟩ rt v (L ++ Tx :: hi) = .ok R1 →
      ∃ G2 hi2, R1 = L ++ G2 :: hi2 ∧ G2.ptr = Tx.ptr ∧ G2.wild = Tx.wild ∧ G2.union = Tx.union ∧
        G2.transform.delegate = Tx.transform.delegate ∧ G2.transform.trFunc = Tx.transform.trFunc := by
  intro f rt v Tx hi R1 htr hr
  cases M with
  | structMap fs =>
    obtain ⟨rfl, _⟩ := hcfg
    obtain ⟨r3, h3, e1, e2, e3, e4, e5⟩ := reset_frame2 (by simp) (by simp) hr
    exact ⟨r3, h3, e1, e2, e4 (by simp), e5 (by simp), e3.2.2.2.2.2.2.2.2.1, e3.2.2.2.2.2.2.1⟩
  | map kt e =>
    obtain rfl : k = .map := hcfg
    obtain ⟨r3, h3, e1, e2, e3, e4, e5⟩ := reset_frame2 (by simp) (by simp) hr
    exact ⟨r3, h3, e1, e2, e4 (by simp), e5 (by simp), e3.2.2.2.2.2.2.2.2.1, e3.2.2.2.2.2.2.1⟩
  | transform fn uty =>
    obtain ⟨rfl, _, _, k', hdl, hl⟩ := hcfg
    have hk' : k' ≠ .ptr ∧ k' ≠ .transform ∧ k' ≠ .wild ∧ k' ≠ .union := by
      have hs := hokm.2
      revert hs hl
      cases upickBare ts a uty <;> intro hl hs <;> first | exact hs.elim | (simp only [CfgLeaf] at hl; simp [hl])
    obtain ⟨r3, h3, e1, e2, e3, e4, e5⟩ := reset_frame_tr2 (by rw [htr]; exact hdl) hk'.1 hk'.2.1 hk'.2.2.1 hk'.2.2.2 hr
    exact ⟨r3, h3, e1, e2, e4, e5, e3.2.2.2.2.2.2.2.2.1, e3.2.2.2.2.2.2.1⟩
  | _ => exact hokm.elim

end Refmt.UMachU
