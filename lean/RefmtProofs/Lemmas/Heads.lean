/-
  Byte-level lemmas: `beBytes` / `beVal`, and head shapes.
-/
import RefmtModel
set_option linter.unusedSimpArgs false
set_option linter.unusedVariables false
namespace Refmt.C02L
open Refmt

theorem beBytes_length : ∀ (n v : Nat), (beBytes n v).length = n
  | 0, _ => rfl
  | n+1, v => by simp [beBytes, beBytes_length n v]

theorem beVal_beBytes : ∀ (n v : Nat), beVal (beBytes n v) = v % 256 ^ n
  | 0, v => by simp [beBytes, beVal, Nat.mod_one]
  | n+1, v => by
    simp only [beBytes, beVal, beBytes_length, beVal_beBytes n v]
    have h1 : v % 256 ^ (n+1) = v % 256 ^ n + 256 ^ n * (v / 256 ^ n % 256) := by
      rw [Nat.pow_succ]; exact Nat.mod_mul
    rw [h1, Nat.mul_comm]; omega

theorem emitHead_flatten (major v : Nat) :
    (CborEnc.emitHead major v).flatten = Spec.Cbor.head major v := by
  unfold CborEnc.emitHead Spec.Cbor.head
  by_cases h1 : v < 24
  · have : v ≤ 0x17 := by omega
    simp [h1, this]
  · have h1' : ¬ v ≤ 0x17 := by omega
    by_cases h2 : v < 256
    · have : v ≤ 0xff := by omega
      simp [h1, h1', h2, this]
    · have h2' : ¬ v ≤ 0xff := by omega
      by_cases h3 : v < 65536
      · have : v ≤ 0xffff := by omega
        simp [h1, h1', h2, h2', h3, this]
      · have h3' : ¬ v ≤ 0xffff := by omega
        by_cases h4 : v < 4294967296
        · have : v ≤ 0xffffffff := by omega
          simp [h1, h1', h2, h2', h3, h3', h4, this]
        · have h4' : ¬ v ≤ 0xffffffff := by omega
          simp [h1, h1', h2, h2', h3, h3', h4, h4']

end Refmt.C02L
