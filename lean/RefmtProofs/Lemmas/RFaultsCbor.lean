/-
  Read faults (C16), CBOR decoder: every function of the decoder model either reports the injected
  error or commutes with `inj M stop`.
-/
import RefmtModel
import RefmtProofs.Lemmas.RFaults
set_option linter.unusedSimpArgs false
set_option linter.unusedVariables false
namespace Refmt.C16R
open Refmt Refmt.CborDec

def DichR {α : Type} (M : Nat) (stop : Bool) (x y : R α) : Prop :=
  x.res = .error .injected ∨ (Ok M y.rd ∧ x = { y with rd := inj M stop y.rd })

variable {M : Nat} {stop : Bool}

/-- one `read1` on both sides -/
macro "rd1" b:term "," h:term : tactic =>
  `(tactic| (rcases read1_sim (stop := $(Lean.mkIdent `stop)) $b $h with ⟨r', hi⟩ | ⟨x, b1, hb, hib, hok⟩))

theorem decUint_sim (b : Rd) (major : Nat) (h : Ok M b) :
    DichR M stop (decUint (inj M stop b) major) (decUint b major) := by
  unfold decUint
  simp only []
  split
  · exact Or.inr ⟨h, rfl⟩
  split
  · rcases read1_sim (stop := stop) b h with ⟨r', hi⟩ | ⟨x, b1, hb, hib, hok⟩
    · rw [hi]; exact Or.inl rfl
    · rw [hb, hib]; exact Or.inr ⟨hok, rfl⟩
  split
  · rcases readN_sim (stop := stop) b 2 h with ⟨r', hi⟩ | ⟨res, b1, hb, hib, hok⟩
    · rw [hi]; exact Or.inl rfl
    · rw [hb, hib]; cases res <;> exact Or.inr ⟨hok, rfl⟩
  split
  · rcases readN_sim (stop := stop) b 4 h with ⟨r', hi⟩ | ⟨res, b1, hb, hib, hok⟩
    · rw [hi]; exact Or.inl rfl
    · rw [hb, hib]; cases res <;> exact Or.inr ⟨hok, rfl⟩
  split
  · rcases readN_sim (stop := stop) b 8 h with ⟨r', hi⟩ | ⟨res, b1, hb, hib, hok⟩
    · rw [hi]; exact Or.inl rfl
    · rw [hb, hib]; cases res <;> exact Or.inr ⟨hok, rfl⟩
  · exact Or.inr ⟨h, rfl⟩

theorem decNegInt_sim (b : Rd) (major : Nat) (h : Ok M b) :
    DichR M stop (decNegInt (inj M stop b) major) (decNegInt b major) := by
  unfold decNegInt
  simp only []
  rcases decUint_sim (stop := stop) b major h with hi | ⟨hok, heq⟩
  · rw [hi]; exact Or.inl rfl
  · rw [heq]
    generalize decUint b major = u at hok ⊢
    obtain ⟨res, rd, alloc⟩ := u
    cases res with
    | error e => exact Or.inr ⟨hok, rfl⟩
    | ok ui => dsimp only; split <;> exact Or.inr ⟨hok, rfl⟩

theorem decLen_sim (b : Rd) (major : Nat) (h : Ok M b) :
    DichR M stop (decLen (inj M stop b) major) (decLen b major) := by
  unfold decLen
  simp only []
  rcases decUint_sim (stop := stop) b major h with hi | ⟨hok, heq⟩
  · rw [hi]; exact Or.inl rfl
  · rw [heq]
    generalize decUint b major = u at hok ⊢
    obtain ⟨res, rd, alloc⟩ := u
    cases res with
    | error e => exact Or.inr ⟨hok, rfl⟩
    | ok ui => dsimp only; split <;> exact Or.inr ⟨hok, rfl⟩

theorem decBytes_sim (b : Rd) (major : Nat) (h : Ok M b) :
    DichR M stop (decBytes (inj M stop b) major) (decBytes b major) := by
  unfold decBytes
  simp only []
  rcases decLen_sim (stop := stop) b major h with hi | ⟨hok, heq⟩
  · rw [hi]; exact Or.inl rfl
  · rw [heq]
    generalize decLen b major = u at hok ⊢
    obtain ⟨res, rd, alloc⟩ := u
    cases res with
    | error e => exact Or.inr ⟨hok, rfl⟩
    | ok n =>
      dsimp only
      split
      · exact Or.inr ⟨hok, rfl⟩
      · rcases readN_sim (stop := stop) rd n hok with ⟨r', hi⟩ | ⟨res, b1, hb, hib, hok1⟩
        · rw [hi]; exact Or.inl rfl
        · rw [hb, hib]; cases res <;> exact Or.inr ⟨hok1, rfl⟩

theorem decString_sim (b : Rd) (major : Nat) (h : Ok M b) :
    DichR M stop (decString (inj M stop b) major) (decString b major) := by
  unfold decString
  simp only []
  rcases decLen_sim (stop := stop) b major h with hi | ⟨hok, heq⟩
  · rw [hi]; exact Or.inl rfl
  · rw [heq]
    generalize decLen b major = u at hok ⊢
    obtain ⟨res, rd, alloc⟩ := u
    cases res with
    | error e => exact Or.inr ⟨hok, rfl⟩
    | ok n =>
      dsimp only
      split
      · exact Or.inr ⟨hok, rfl⟩
      · rcases readN_sim (stop := stop) rd n hok with ⟨r', hi⟩ | ⟨res, b1, hb, hib, hok1⟩
        · rw [hi]; exact Or.inl rfl
        · rw [hb, hib]; cases res <;> exact Or.inr ⟨hok1, rfl⟩

theorem decFloat_sim (b : Rd) (major : Nat) (h : Ok M b) :
    DichR M stop (decFloat (inj M stop b) major) (decFloat b major) := by
  unfold decFloat
  split
  · rcases readN_sim (stop := stop) b 2 h with ⟨r', hi⟩ | ⟨res, b1, hb, hib, hok⟩
    · rw [hi]; exact Or.inl rfl
    · rw [hb, hib]; cases res <;> exact Or.inr ⟨hok, rfl⟩
  split
  · rcases readN_sim (stop := stop) b 4 h with ⟨r', hi⟩ | ⟨res, b1, hb, hib, hok⟩
    · rw [hi]; exact Or.inl rfl
    · rw [hb, hib]; cases res <;> exact Or.inr ⟨hok, rfl⟩
  · rcases readN_sim (stop := stop) b 8 h with ⟨r', hi⟩ | ⟨res, b1, hb, hib, hok⟩
    · rw [hi]; exact Or.inl rfl
    · rw [hb, hib]; cases res <;> exact Or.inr ⟨hok, rfl⟩

theorem decChunks_sim : ∀ (fuel : Nat) (b : Rd) (mw : Nat) (acc : Bytes) (cap alloc : Nat), Ok M b →
    DichR M stop (decChunks fuel (inj M stop b) mw acc cap alloc) (decChunks fuel b mw acc cap alloc)
  | 0, b, mw, acc, cap, alloc, h => Or.inr ⟨h, rfl⟩
  | fuel+1, b, mw, acc, cap, alloc, h => by
    unfold decChunks
    rcases read1_sim (stop := stop) b h with ⟨r', hi⟩ | ⟨x, b1, hb, hib, hok⟩
    · rw [hi]; exact Or.inl rfl
    · rw [hb, hib]
      dsimp only
      split
      · exact Or.inr ⟨hok, rfl⟩
      split
      · exact Or.inr ⟨hok, rfl⟩
      rcases decLen_sim (stop := stop) b1 x hok with hi | ⟨hok2, heq⟩
      · rw [hi]; exact Or.inl rfl
      · rw [heq]
        generalize decLen b1 x = u at hok2 ⊢
        obtain ⟨res, rd, al⟩ := u
        cases res with
        | error e => exact Or.inr ⟨hok2, rfl⟩
        | ok n =>
          dsimp only
          split
          · exact Or.inr ⟨hok2, rfl⟩
          · rcases readN_sim (stop := stop) rd n hok2 with ⟨r', hi⟩ | ⟨res, b2, hb2, hib2, hok3⟩
            · rw [hi]; exact Or.inl rfl
            · rw [hb2, hib2]
              cases res with
              | error e => exact Or.inr ⟨hok3, rfl⟩
              | ok bs => exact decChunks_sim fuel b2 mw _ _ _ hok3

def DichO (M : Nat) (stop : Bool) (x y : Out) : Prop :=
  x.ret = .err .injected ∨ (Ok M y.rd ∧ x = { y with rd := inj M stop y.rd })

theorem scalarOut_sim {α : Type} (s : St) (mk : α → Body) (tag : Option Int) {x y : R α}
    (hd : DichR M stop x y) : DichO M stop (scalarOut s x mk tag) (scalarOut s y mk tag) := by
  unfold scalarOut
  rcases hd with hi | ⟨hok, heq⟩
  · rw [hi]; exact Or.inl rfl
  · rw [heq]
    obtain ⟨res, rd, al⟩ := y
    cases res <;> exact Or.inr ⟨hok, rfl⟩


theorem DichO_ite (c : Prop) [Decidable c] {x1 x2 y1 y2 : Out}
    (h1 : c → DichO M stop x1 y1) (h2 : ¬ c → DichO M stop x2 y2) :
    DichO M stop (if c then x1 else x2) (if c then y1 else y2) := by
  split
  · exact h1 ‹_›
  · exact h2 ‹_›

theorem acceptValue_sim (coerce : Bool) : ∀ (fuel : Nat) (s : St) (b : Rd) (major : Nat) (tag : Option Int),
    Ok M b →
    DichO M stop (acceptValue coerce s (inj M stop b) major tag fuel) (acceptValue coerce s b major tag fuel) := by
  intro fuel
  induction fuel with
  | zero =>
    intro s b major tag h
    unfold acceptValue
    refine DichO_ite _ (fun _ => ?_) (fun _ => ?_)
    · exact Or.inr ⟨h, rfl⟩
    refine DichO_ite _ (fun _ => ?_) (fun _ => ?_)
    · refine DichO_ite _ (fun _ => ?_) (fun _ => ?_) <;> exact Or.inr ⟨h, rfl⟩
    refine DichO_ite _ (fun _ => ?_) (fun _ => ?_)
    · exact Or.inr ⟨h, rfl⟩
    refine DichO_ite _ (fun _ => ?_) (fun _ => ?_)
    · exact Or.inr ⟨h, rfl⟩
    refine DichO_ite _ (fun _ => ?_) (fun _ => ?_)
    · exact scalarOut_sim _ _ _ (decFloat_sim b major h)
    refine DichO_ite _ (fun _ => ?_) (fun _ => ?_)
    · exact scalarOut_sim _ _ _ (decChunks_sim _ b _ _ _ _ h)
    refine DichO_ite _ (fun _ => ?_) (fun _ => ?_)
    · dsimp only
      rcases decChunks_sim (stop := stop) (b.data.length + 1) b CborEnc.majStr [] 16 16 h with hi | ⟨hok, heq⟩
      · left
        unfold scalarOut
        dsimp only
        rw [show (inj M stop b).data.length = b.data.length from rfl, hi]
      · apply scalarOut_sim
        right
        refine ⟨hok, ?_⟩
        rw [show (inj M stop b).data.length = b.data.length from rfl, heq]
    refine DichO_ite _ (fun _ => ?_) (fun _ => ?_)
    · exact Or.inr ⟨h, rfl⟩
    refine DichO_ite _ (fun _ => ?_) (fun _ => ?_)
    · exact Or.inr ⟨h, rfl⟩
    refine DichO_ite _ (fun _ => ?_) (fun _ => ?_)
    · exact scalarOut_sim _ _ _ (decUint_sim b major h)
    refine DichO_ite _ (fun _ => ?_) (fun _ => ?_)
    · exact scalarOut_sim _ _ _ (decNegInt_sim b major h)
    refine DichO_ite _ (fun _ => ?_) (fun _ => ?_)
    · exact scalarOut_sim _ _ _ (decBytes_sim b major h)
    refine DichO_ite _ (fun _ => ?_) (fun _ => ?_)
    · exact scalarOut_sim _ _ _ (decString_sim b major h)
    refine DichO_ite _ (fun _ => ?_) (fun _ => ?_)
    · dsimp only
      rcases decLen_sim (stop := stop) b major h with hi | ⟨hok, heq⟩
      · rw [hi]; exact Or.inl rfl
      · rw [heq]
        generalize decLen b major = u at hok ⊢
        obtain ⟨res, rd, al⟩ := u
        cases res <;> exact Or.inr ⟨hok, rfl⟩
    refine DichO_ite _ (fun _ => ?_) (fun _ => ?_)
    · dsimp only
      rcases decLen_sim (stop := stop) b major h with hi | ⟨hok, heq⟩
      · rw [hi]; exact Or.inl rfl
      · rw [heq]
        generalize decLen b major = u at hok ⊢
        obtain ⟨res, rd, al⟩ := u
        cases res <;> exact Or.inr ⟨hok, rfl⟩
    refine DichO_ite _ (fun _ => ?_) (fun _ => ?_)
    · cases tag with
      | some _ => exact Or.inr ⟨h, rfl⟩
      | none =>
        dsimp only
        rcases decLen_sim (stop := stop) b major h with hi | ⟨hok, heq⟩
        · rw [hi]; exact Or.inl rfl
        · rw [heq]
          generalize decLen b major = u at hok ⊢
          obtain ⟨res, rd, al⟩ := u
          cases res with
          | error e => exact Or.inr ⟨hok, rfl⟩
          | ok t =>
            dsimp only
            rcases read1_sim (stop := stop) rd hok with ⟨r', hi⟩ | ⟨x, b1, hb, hib, hok1⟩
            · rw [hi]; exact Or.inl rfl
            · rw [hb, hib]
              dsimp only
              exact Or.inr ⟨hok1, rfl⟩
    · exact Or.inr ⟨h, rfl⟩
  | succ n ih =>
    intro s b major tag h
    unfold acceptValue
    refine DichO_ite _ (fun _ => ?_) (fun _ => ?_)
    · exact Or.inr ⟨h, rfl⟩
    refine DichO_ite _ (fun _ => ?_) (fun _ => ?_)
    · refine DichO_ite _ (fun _ => ?_) (fun _ => ?_) <;> exact Or.inr ⟨h, rfl⟩
    refine DichO_ite _ (fun _ => ?_) (fun _ => ?_)
    · exact Or.inr ⟨h, rfl⟩
    refine DichO_ite _ (fun _ => ?_) (fun _ => ?_)
    · exact Or.inr ⟨h, rfl⟩
    refine DichO_ite _ (fun _ => ?_) (fun _ => ?_)
    · exact scalarOut_sim _ _ _ (decFloat_sim b major h)
    refine DichO_ite _ (fun _ => ?_) (fun _ => ?_)
    · exact scalarOut_sim _ _ _ (decChunks_sim _ b _ _ _ _ h)
    refine DichO_ite _ (fun _ => ?_) (fun _ => ?_)
    · dsimp only
      rcases decChunks_sim (stop := stop) (b.data.length + 1) b CborEnc.majStr [] 16 16 h with hi | ⟨hok, heq⟩
      · left
        unfold scalarOut
        dsimp only
        rw [show (inj M stop b).data.length = b.data.length from rfl, hi]
      · apply scalarOut_sim
        right
        refine ⟨hok, ?_⟩
        rw [show (inj M stop b).data.length = b.data.length from rfl, heq]
    refine DichO_ite _ (fun _ => ?_) (fun _ => ?_)
    · exact Or.inr ⟨h, rfl⟩
    refine DichO_ite _ (fun _ => ?_) (fun _ => ?_)
    · exact Or.inr ⟨h, rfl⟩
    refine DichO_ite _ (fun _ => ?_) (fun _ => ?_)
    · exact scalarOut_sim _ _ _ (decUint_sim b major h)
    refine DichO_ite _ (fun _ => ?_) (fun _ => ?_)
    · exact scalarOut_sim _ _ _ (decNegInt_sim b major h)
    refine DichO_ite _ (fun _ => ?_) (fun _ => ?_)
    · exact scalarOut_sim _ _ _ (decBytes_sim b major h)
    refine DichO_ite _ (fun _ => ?_) (fun _ => ?_)
    · exact scalarOut_sim _ _ _ (decString_sim b major h)
    refine DichO_ite _ (fun _ => ?_) (fun _ => ?_)
    · dsimp only
      rcases decLen_sim (stop := stop) b major h with hi | ⟨hok, heq⟩
      · rw [hi]; exact Or.inl rfl
      · rw [heq]
        generalize decLen b major = u at hok ⊢
        obtain ⟨res, rd, al⟩ := u
        cases res <;> exact Or.inr ⟨hok, rfl⟩
    refine DichO_ite _ (fun _ => ?_) (fun _ => ?_)
    · dsimp only
      rcases decLen_sim (stop := stop) b major h with hi | ⟨hok, heq⟩
      · rw [hi]; exact Or.inl rfl
      · rw [heq]
        generalize decLen b major = u at hok ⊢
        obtain ⟨res, rd, al⟩ := u
        cases res <;> exact Or.inr ⟨hok, rfl⟩
    refine DichO_ite _ (fun _ => ?_) (fun _ => ?_)
    · cases tag with
      | some _ => exact Or.inr ⟨h, rfl⟩
      | none =>
        dsimp only
        rcases decLen_sim (stop := stop) b major h with hi | ⟨hok, heq⟩
        · rw [hi]; exact Or.inl rfl
        · rw [heq]
          generalize decLen b major = u at hok ⊢
          obtain ⟨res, rd, al⟩ := u
          cases res with
          | error e => exact Or.inr ⟨hok, rfl⟩
          | ok t =>
            dsimp only
            rcases read1_sim (stop := stop) rd hok with ⟨r', hi⟩ | ⟨x, b1, hb, hib, hok1⟩
            · rw [hi]; exact Or.inl rfl
            · rw [hb, hib]
              dsimp only
              exact ih s b1 x _ hok1
    · exact Or.inr ⟨h, rfl⟩

theorem inContainer_sim {x y : Out} (hd : DichO M stop x y) :
    DichO M stop (inContainer x) (inContainer y) := by
  unfold inContainer
  rcases hd with hi | ⟨hok, heq⟩
  · rw [hi]; exact Or.inl hi
  · rw [heq]
    obtain ⟨st, rd, ret, al⟩ := y
    cases ret <;> exact Or.inr ⟨hok, rfl⟩

theorem withMajor_sim (s : St) (b : Rd) (k : Nat → Rd → Out) (h : Ok M b)
    (hk : ∀ mb b1, Ok M b1 → DichO M stop (k mb (inj M stop b1)) (k mb b1)) :
    DichO M stop (withMajor s (inj M stop b) k) (withMajor s b k) := by
  unfold withMajor
  rcases read1_sim (stop := stop) b h with ⟨r', hi⟩ | ⟨x, b1, hb, hib, hok⟩
  · rw [hi]; exact Or.inl rfl
  · rw [hb, hib]; exact hk x b1 hok

theorem subStep_sim (coerce : Bool) (s : St) (b : Rd) (h : Ok M b) :
    DichO M stop (subStep coerce s (inj M stop b)) (subStep coerce s b) := by
  obtain ⟨stack, phase, left⟩ := s
  cases phase <;> simp only [subStep]
  · exact withMajor_sim _ _ _ h (fun mb b1 h1 => acceptValue_sim coerce _ _ _ _ _ h1)
  · exact withMajor_sim _ _ _ h (fun mb b1 h1 =>
      DichO_ite _ (fun _ => Or.inr ⟨h1, rfl⟩) (fun _ => inContainer_sim (acceptValue_sim coerce _ _ _ _ _ h1)))
  · exact withMajor_sim _ _ _ h (fun mb b1 h1 =>
      DichO_ite _ (fun _ => Or.inr ⟨h1, rfl⟩) (fun _ => inContainer_sim (acceptValue_sim coerce _ _ _ _ _ h1)))
  · exact withMajor_sim _ _ _ h (fun mb b1 h1 =>
      DichO_ite _ (fun _ => Or.inr ⟨h1, rfl⟩) (fun _ => inContainer_sim (acceptValue_sim coerce _ _ _ _ _ h1)))
  · cases left with
    | nil => exact Or.inr ⟨h, rfl⟩
    | cons n l =>
      cases n with
      | zero => exact Or.inr ⟨h, rfl⟩
      | succ n =>
        exact withMajor_sim _ _ _ h (fun mb b1 h1 => inContainer_sim (acceptValue_sim coerce _ _ _ _ _ h1))
  · cases left with
    | nil => exact Or.inr ⟨h, rfl⟩
    | cons n l =>
      cases n with
      | zero => exact Or.inr ⟨h, rfl⟩
      | succ n =>
        exact withMajor_sim _ _ _ h (fun mb b1 h1 => inContainer_sim (acceptValue_sim coerce _ _ _ _ _ h1))
  · exact withMajor_sim _ _ _ h (fun mb b1 h1 => inContainer_sim (acceptValue_sim coerce _ _ _ _ _ h1))

theorem step_sim (coerce : Bool) (s : St) (b : Rd) (h : Ok M b) :
    DichO M stop (step coerce s (inj M stop b)) (step coerce s b) := by
  unfold step
  rcases subStep_sim (stop := stop) coerce s b h with hi | ⟨hok, heq⟩
  · left
    simp only [hi]
  · rw [heq]
    generalize subStep coerce s b = o at hok ⊢
    obtain ⟨st, rd, ret, al⟩ := o
    cases ret with
    | err e => exact Or.inr ⟨hok, rfl⟩
    | tok t d =>
      cases d
      · exact Or.inr ⟨hok, rfl⟩
      · dsimp only
        split <;> exact Or.inr ⟨hok, rfl⟩

/-- If the fault-free run succeeds and reads past the fault position, the faulted run reports the
    injected error. -/
theorem run_sim (coerce : Bool) : ∀ (fuel : Nat) (s : St) (b : Rd) (acc : List Tok) (steps alloc : Nat),
    Ok M b → (run coerce fuel s b acc steps alloc).res = .ok () →
    (run coerce fuel s b acc steps alloc).rd.data.length < M →
    (run coerce fuel s (inj M stop b) acc steps alloc).res = .error .injected
  | 0, s, b, acc, steps, alloc, h, hres, _ => by simp [run] at hres
  | fuel+1, s, b, acc, steps, alloc, h, hres, hlen => by
    unfold run at hres hlen ⊢
    rcases step_sim (stop := stop) coerce s b h with hi | ⟨hok, heq⟩
    · simp only [hi]
    · rw [heq]
      generalize step coerce s b = o at hok hres hlen ⊢
      obtain ⟨st, rd, ret, al⟩ := o
      cases ret with
      | err e => simp at hres
      | tok t d =>
        cases d
        · exact run_sim coerce fuel st rd _ _ _ hok hres hlen
        · simp only [Ok] at hok
          simp only at hlen
          omega

theorem decode_sim (coerce : Bool) (bs : Bytes) (k : Nat) (stop : Bool)
    (h0 : (decode coerce (Rd.ofBytes bs)).res = .ok ())
    (hk : k < bs.length - (decode coerce (Rd.ofBytes bs)).rd.data.length) :
    (decode coerce ⟨bs, some (k, stop), 0⟩).res = .error .injected := by
  have e : (⟨bs, some (k, stop), 0⟩ : Rd) = inj (bs.length - k) stop (Rd.ofBytes bs) := by
    simp only [inj, Rd.ofBytes, Rd.mk.injEq, true_and, and_true, Option.some.injEq, Prod.mk.injEq]
    omega
  rw [e]
  unfold decode at h0 hk ⊢
  simp only [inj_data] at h0 hk ⊢
  exact run_sim coerce _ _ _ _ _ _ ⟨rfl, by simp [Rd.ofBytes]⟩ h0 (by omega)

end Refmt.C16R
