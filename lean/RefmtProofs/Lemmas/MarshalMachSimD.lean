/-
  Simulation lemmas for the struct machine.
-/
import RefmtProofs.Lemmas.MarshalMachSimC
open Refmt Refmt.Obj Refmt.Obj.MM
set_option linter.unusedVariables false
set_option linter.unusedSimpArgs false

namespace Refmt.MachL

variable {ts : Types} {a : Atlas} {trs : Trs}

/-- the struct machine's row after Reset and some steps -/
def strow (row : Row) (v : Val) (i : Int) (vr : Option Val) : Row :=
  { row with struct := { cfg := row.struct.cfg, fields := row.struct.fields, target_rv := v, index := i, value_rv := vr } }

theorem strow_ptr (row v i vr) : (strow row v i vr).ptr = row.ptr := rfl
theorem agreeW_strow (mk : Mask) (row v i vr) : agreeW mk row (strow row v i vr) :=
  ⟨fun _ => rfl, fun _ => rfl, fun _ => rfl⟩

theorem stepM_struct_at {n lo row hi st cur be} :
    stepM ts a trs (n+1) ⟨lo.length, .struct⟩ ⟨lo ++ row :: hi, st, cur, be⟩ =
      stepStruct ts a n (recurse ts a trs n) ⟨lo.length, .struct⟩ row ⟨lo ++ row :: hi, st, cur, be⟩ := by
  simp only [stepM_at, stepBody, getRow]

theorem resetM_struct_at {n lo row hi rt v} :
    resetM ts a trs (n+1) ⟨lo.length, .struct⟩ rt v (lo ++ row :: hi) =
      .ok (lo ++ strow row v (-1) none :: (hi ++ [Row.zero])) := by
  simp only [resetM_at, resetBody, getRow, resetStruct, updRow_at, grow, reassoc, strow]

theorem stepStruct_open {n} {rc : RecurseF} {lo row hi v st cur be} :
    stepStruct ts a n rc ⟨lo.length, .struct⟩ (strow row v (-1) none)
        ⟨lo ++ strow row v (-1) none :: hi, st, cur, be⟩ =
      .ok ⟨⟨.mapOpen (row.struct.fields.filter (emittable v)).length, row.struct.cfg.tag⟩, false,
        ⟨lo ++ strow row v (0 : Nat) none :: hi, st, cur, be⟩⟩ := by
  simp [stepStruct, strow, upd_at, StructM.incr]

theorem seek_none (v : Val) : ∀ (l : List SMField) (i : Nat), l.filter (emittable v) = [] → seekField v l i = none
  | [], _, _ => rfl
  | fe :: l, i, h => by
    have hne : emittable v fe = false := by
      cases hem : emittable v fe
      · rfl
      · simp [List.filter, hem] at h
    have hrest : l.filter (emittable v) = [] := by simpa [List.filter, hne] using h
    have ih := seek_none v l (i + 1) hrest
    unfold emittable at hne
    unfold seekField
    cases hig : fe.ignore
    · simp only [hig, Bool.not_false, Bool.true_and] at hne
      cases htr : traverse fe.route v with
      | none => simp [htr, ih]
      | some fv =>
        simp only [htr, Bool.not_eq_false'] at hne
        simp [htr, hne, ih]
    · simp [ih]

theorem seek_some (v : Val) : ∀ (l : List SMField) (i : Nat) (fe : SMField) (rest : List SMField),
    l.filter (emittable v) = fe :: rest →
    ∃ j fv, seekField v l i = some (i + j, fe, fv) ∧ l[j]? = some fe ∧
      (l.drop (j + 1)).filter (emittable v) = rest ∧ traverse fe.route v = some fv
  | [], _, _, _, h => by simp at h
  | g :: l, i, fe, rest, h => by
    cases hem : emittable v g
    · have hrest : l.filter (emittable v) = fe :: rest := by simpa [List.filter, hem] using h
      obtain ⟨j, fv, h1, h2, h3, h4⟩ := seek_some v l (i + 1) fe rest hrest
      refine ⟨j + 1, fv, ?_, by simpa using h2, by simpa using h3, h4⟩
      have hidx : i + 1 + j = i + (j + 1) := by omega
      rw [hidx] at h1
      unfold emittable at hem
      unfold seekField
      cases hig : g.ignore
      · simp only [hig, Bool.not_false, Bool.true_and] at hem
        cases htr : traverse g.route v with
        | none => simp [htr, h1]
        | some gv =>
          simp only [htr, Bool.not_eq_false'] at hem
          simp [htr, hem, h1]
      · simp [h1]
    · have hh : g = fe ∧ l.filter (emittable v) = rest := by simpa [List.filter, hem] using h
      obtain ⟨rfl, hrest⟩ := hh
      unfold emittable at hem
      cases hig : g.ignore
      · simp only [hig, Bool.not_false, Bool.true_and] at hem
        cases htr : traverse g.route v with
        | none => simp [htr] at hem
        | some gv =>
          simp only [htr, Bool.not_eq_true', Bool.and_eq_false_imp] at hem
          refine ⟨0, gv, ?_, by simp, by simpa using hrest, rfl⟩
          unfold seekField
          simp [hig, htr]
          intro h1 h2
          rw [hem h1] at h2; cases h2
      · simp [hig] at hem

theorem stepStruct_close {n} {rc : RecurseF} {lo row hi v st cur be} {i : Nat} (hhi : hi ≠ [])
    (hle : i ≤ row.struct.fields.length)
    (hnil : (row.struct.fields.drop i).filter (emittable v) = []) :
    stepStruct ts a n rc ⟨lo.length, .struct⟩ (strow row v i none) ⟨lo ++ strow row v i none :: hi, st, cur, be⟩ =
      .ok ⟨⟨.mapClose, none⟩, true,
        ⟨lo ++ strow row v ((row.struct.fields.length : Nat) + 1) none :: hi.dropLast, st, cur, be⟩⟩ := by
  have h1 : ¬ ((i : Int) < 0) := by omega
  by_cases heq : i = row.struct.fields.length
  · have h2 : ((i : Int) = (row.struct.fields.length : Int)) := by omega
    simp only [stepStruct, strow, h1, h2, if_false, if_true]
    simp [updRow_at, StructM.incr, tk, release_at _ _ _ hhi, heq]
  · have h2 : ¬ ((i : Int) = (row.struct.fields.length : Int)) := by omega
    have h3 : ¬ ((i : Int) > (row.struct.fields.length : Int)) := by omega
    simp only [stepStruct, strow, h1, h2, h3, if_false, Int.toNat_natCast, seek_none v _ i hnil]
    simp [updRow_at, tk, release_at _ _ _ hhi]

theorem stepStruct_key {n} {rc : RecurseF} {lo row hi v st cur be fe rest} {i : Nat}
    (hle : i ≤ row.struct.fields.length)
    (hcons : (row.struct.fields.drop i).filter (emittable v) = fe :: rest) :
    ∃ j fv, row.struct.fields[i + j]? = some fe ∧
      (row.struct.fields.drop (i + j + 1)).filter (emittable v) = rest ∧ traverse fe.route v = some fv ∧
      stepStruct ts a n rc ⟨lo.length, .struct⟩ (strow row v i none) ⟨lo ++ strow row v i none :: hi, st, cur, be⟩ =
        .ok ⟨⟨.str fe.name, none⟩, false, ⟨lo ++ strow row v ((i + j : Nat)) (some fv) :: hi, st, cur, be⟩⟩ := by
  obtain ⟨j, fv, h1, h2, h3, h4⟩ := seek_some v _ i fe rest hcons
  have hlt : i < row.struct.fields.length := by
    rcases Nat.lt_or_ge i row.struct.fields.length with h | h
    · exact h
    · rw [List.drop_eq_nil_of_le h] at hcons; simp at hcons
  refine ⟨j, fv, by simpa using h2, by simpa [Nat.add_assoc] using h3, h4, ?_⟩
  have g1 : ¬ ((i : Int) < 0) := by omega
  have g2 : ¬ ((i : Int) = (row.struct.fields.length : Int)) := by omega
  have g3 : ¬ ((i : Int) > (row.struct.fields.length : Int)) := by omega
  simp only [stepStruct, strow, g1, g2, g3, if_false, Int.toNat_natCast, h1]
  simp [upd_at, tk]

theorem stepStruct_value {n} {rc : RecurseF} {lo row hi0 trow trow' kd v st cur be fe fv} {j : Nat}
    (hfe : row.struct.fields[j]? = some fe)
    (hy : yieldM ts a n trow fe.ty = .ok (trow', kd)) :
    stepStruct ts a n rc ⟨lo.length, .struct⟩ (strow row v j (some fv))
        ⟨lo ++ strow row v j (some fv) :: (hi0 ++ [trow]), st, cur, be⟩ =
      rc ⟨lo ++ strow row v ((j : Int) + 1) none :: (hi0 ++ [trow']), st, cur, be⟩ fv fe.ty
        ⟨lo.length + 1 + hi0.length, kd⟩ := by
  have hlt : j < row.struct.fields.length := by
    rcases Nat.lt_or_ge j row.struct.fields.length with h | h
    · exact h
    · simp [List.getElem?_eq_none_iff.mpr h] at hfe
  have g1 : ¬ ((j : Int) < 0) := by omega
  have g2 : ¬ ((j : Int) = (row.struct.fields.length : Int)) := by omega
  have g3 : ¬ ((j : Int) > (row.struct.fields.length : Int)) := by omega
  have hy' : yieldTip ts a n (lo ++ strow row v ((j : Int) + 1) none :: (hi0 ++ [trow])) fe.ty =
      .ok (lo ++ strow row v ((j : Int) + 1) none :: (hi0 ++ [trow']), ⟨lo.length + 1 + hi0.length, kd⟩) := by
    have := yieldTip_snoc (R := lo ++ strow row v ((j : Int) + 1) none :: hi0) hy
    rw [len_at, reassoc, reassoc] at this
    exact this
  simp only [stepStruct, strow, g1, g2, g3, if_false, Int.toNat_natCast, hfe]
  simp only [upd_at, StructM.take]
  have := hy'
  simp only [strow] at this
  simp only [this]

/-- every type can be given a machine in any row: the configuration succeeds (no transform divergence, no panic),
    configures the row for the type and leaves the map machine's `value` flag alone -/
def YieldOK (ts : Types) (a : Atlas) : Prop :=
  ∀ id row, ∃ n row' k, yieldM ts a n row id = .ok (row', k) ∧ CfgV ts a id k row' ∧
    row'.map.value = row.map.value

/-- the struct machine between two fields: position `i`, no value loaded, a non-empty clean run of rows above -/
def StructAt (lo : List Row) (row : Row) (hi : List Row) (v : Val) (st : List MRef) (cur : MRef) (be : Option XFail)
    (s' : MState) : Prop :=
  ∃ (i : Nat) (T : List Row), i ≤ row.struct.fields.length ∧
    (row.struct.fields.drop i).filter (emittable v) = [] ∧ T ≠ [] ∧ Clean T ∧
    s' = ⟨lo ++ strow row v i none :: (hi ++ T), st, some cur, be⟩

theorem snoc_of_ne_nil {α : Type} {T : List α} (h : T ≠ []) : ∃ T0 x, T = T0 ++ [x] :=
  ⟨T.dropLast, T.getLast h, (List.dropLast_concat_getLast h).symm⟩

theorem struct_loop {mk : Mask} {r0 : Row} {lo row hi v st cur be} (hyo : YieldOK ts a)
    (hp : Pass ts a trs cur ⟨lo.length, .struct⟩ lo mk r0) (hag : agreeW mk r0 row) :
    ∀ (xs : List SMField) (f i : Nat) (T : List Row), (∀ f', f' < f → IHV ts a trs f') →
      i ≤ row.struct.fields.length → (row.struct.fields.drop i).filter (emittable v) = xs → T ≠ [] → Clean T →
      (marshalFields ts a trs f xs v).fail ≠ some .panic →
      Seg ts a trs ⟨lo ++ strow row v i none :: (hi ++ T), st, some cur, be⟩
        (marshalFields ts a trs f xs v) (StructAt lo row hi v st cur be) := by
  intro xs
  induction xs with
  | nil =>
    intro f i T hih hle hdrop hT hcl hnp
    cases f with
    | zero => simp [marshalFields_zero, MOut.bad] at hnp
    | succ f =>
      rw [marshalFields_nil]
      exact Seg.nil ⟨i, T, hle, hdrop, hT, hcl, rfl⟩
  | cons fe rest ih =>
    intro f i T hih hle hdrop hT hcl hnp
    cases f with
    | zero => simp [marshalFields_zero, MOut.bad] at hnp
    | succ f =>
      obtain ⟨j, fv, hfe, hrest, htr, hstep⟩ := stepStruct_key (ts := ts) (a := a) (n := 0) (rc := recurse ts a trs 0)
        (lo := lo) (hi := hi ++ T) (st := st) (cur := some cur) (be := be) hle hdrop
      rw [marshalFields_cons, htr] at hnp ⊢
      simp only at hnp ⊢
      refine Seg.seq (P1 := fun s' => s' = ⟨lo ++ strow row v (i + j : Nat) (some fv) :: (hi ++ T), st, some cur, be⟩) ?_ ?_
      · refine Seg.tok (hp.cs_tok (hag.trans (agreeW_strow ..)) (hag.trans (agreeW_strow ..)) (n := 1) ?_).toDS_tok rfl
        rw [stepM_struct_at, hstep]
      · rintro - s' rfl
        have hnp2 := seq_fail_right hnp rfl
        obtain ⟨T0, trow, rfl⟩ := snoc_of_ne_nil hT
        obtain ⟨n0, trow', kd, hy, hcfg, hval⟩ := hyo fe.ty trow
        have hcl' : Clean [trow'] := Clean.cons (by rw [hval]; exact hcl.right.head) (fun _ h => by cases h)
        refine Seg.seq (P1 := fun s' => ∃ T', T' ≠ [] ∧ Clean T' ∧
            s' = ⟨lo ++ strow row v ((i + j : Nat) + 1 : Nat) none :: (hi ++ T'), st, some cur, be⟩) ?_ ?_
        · have hsim := hih f (Nat.lt_succ_self f) fe.ty fv (lo.length + 1 + (hi ++ T0).length) trow' [] kd hcfg hcl'
            (seq_fail_left hnp2)
          have hl := Pass.link (hiP := hi ++ (T0 ++ [trow])) (hi0 := hi ++ T0) (drow := trow') (dhi := []) (st := st)
            (be := be) (x := fv) (rt := fe.ty) (d := ⟨lo.length + 1 + (hi ++ T0).length, kd⟩) hp
            (hag.trans (agreeW_strow mk row v (i + j : Nat) (some fv)))
            (hag.trans (agreeW_strow mk row v (((i + j : Nat) : Int) + 1) none)) ?_
          · refine (seg_recurse hsim (len_at ..) hl.1 hl.2).mono ?_
            rintro s' ⟨drow2, dhi2, rfl, hq, hc⟩
            refine ⟨T0 ++ drow2 :: dhi2, by simp, Clean.append hcl.left hc, ?_⟩
            have hc1 : (((i + j : Nat) : Int) + 1) = (((i + j : Nat) + 1 : Nat) : Int) := by omega
            simp [reassoc, hc1]
          · intro n' res hrec hns
            refine ⟨max n' n0 + 1, ?_⟩
            have hy' : yieldM ts a (max n' n0) trow fe.ty = .ok (trow', kd) := by
              rw [yieldM_mono (Nat.le_max_right _ _) (hy ▸ NS.ok), hy]
            have hrec' : recurse ts a trs n'
                ⟨lo ++ strow row v (((i + j : Nat) : Int) + 1) none :: ((hi ++ T0) ++ [trow']), st, some cur, be⟩
                fv fe.ty ⟨lo.length + 1 + (hi ++ T0).length, kd⟩ = res := by
              rw [← hrec, reassoc]
            rw [stepM_struct_at, ← List.append_assoc hi T0, stepStruct_value hfe hy',
              recurse_mono (Nat.le_max_left _ _) (hrec' ▸ hns), hrec']
        · rintro hnone s' ⟨T', hT', hclT', rfl⟩
          refine ih f (i + j + 1) T' (fun f' hf' => hih f' (Nat.lt_succ_of_lt hf')) ?_ hrest hT' hclT' ?_
          · have : i + j < row.struct.fields.length := by
              rcases Nat.lt_or_ge (i + j) row.struct.fields.length with h | h
              · exact h
              · simp [List.getElem?_eq_none_iff.mpr h] at hfe
            omega
          · exact seq_fail_right hnp2 hnone

/-- `mach.index++` from -1 -/
def structAt0 (r : Row) : Row := { r with struct := { r.struct with index := (0 : Nat) } }

theorem sim_struct {mk vm : Mask} {Q : Row → Prop} {L row hi rt v f id e fs} (hyo : YieldOK ts a)
    (hcfg : row.struct.cfg = e) (hfs : row.struct.fields = fs)
    (hcl : Clean (row :: hi)) (hih : ∀ f', f' < f → IHV ts a trs f')
    (hQ : ∀ r : Row, r.struct.cfg = row.struct.cfg → r.struct.fields = row.struct.fields → Q r)
    (hnp : (marshalBare ts a trs (f+1) id (.structMap e fs) v).fail ≠ some .panic) :
    Sim ts a trs mk vm Q L row hi ⟨L, .struct⟩ rt v (marshalBare ts a trs (f+1) id (.structMap e fs) v) := by
  subst hcfg hfs
  rw [marshalBare_struct] at hnp ⊢
  refine ⟨fun e' h => by simp [MOut.seq, MOut.ok] at h, fun _ => ?_⟩
  have hz : Clean [Row.zero] := Clean.cons rfl (fun _ h => by cases h)
  refine ⟨1, strow row v (-1) none, hi ++ [Row.zero], fun lo hl => by subst hl; exact resetM_struct_at,
    agreeW_strow .., hQ _ rfl rfl, Clean.cons hcl.head (Clean.append hcl.tail hz), fun lo hl => ?_⟩
  subst hl
  refine runsAs_container (fA := structAt0) (hiA := hi ++ [Row.zero])
    (PE := fun rowB st cur be s' => rowB.map.value = false ∧ rowB.struct.cfg = row.struct.cfg ∧
      rowB.struct.fields = row.struct.fields ∧ StructAt lo rowB hi v st cur be s') ?_
    (fun _ => ⟨fun _ => rfl, fun _ => rfl, fun _ => rfl⟩) ?_ ?_
  · intro w st be cur
    refine ⟨1, ?_⟩
    show stepM ts a trs 1 ⟨lo.length, .struct⟩
      ⟨lo ++ strow (setWm vm w row) v (-1) none :: (hi ++ [Row.zero]), st, some cur, be⟩ = _
    rw [stepM_struct_at, stepStruct_open]
    rfl
  · intro w w' cur st be hp
    refine (struct_loop (row := setWm vm w' (structAt0 (setWm vm w (strow row v (-1) none))))
      hyo hp (agreeW.refl _ _) _ f 0 [Row.zero] hih (Nat.zero_le _) rfl (by simp) hz
      (seq_fail_left (seq_fail_right hnp rfl))).mono (fun s' h => ⟨hcl.head, rfl, rfl, h⟩)
  · rintro rowB cur st be s' ⟨hval, hc1, hf1, i, T, hle, hnil, hT, hclT, rfl⟩
    refine ⟨_, _, strow rowB v ((rowB.struct.fields.length : Nat) + 1) none, (hi ++ T).dropLast, 1, rfl,
      agreeW_strow .., ?_, agreeW_strow .., hQ _ hc1 hf1,
      Clean.cons hval (Clean.dropLast (Clean.append hcl.tail hclT))⟩
    rw [stepM_struct_at, stepStruct_close (by simp [hT]) hle hnil]
