/-
  The main induction of the refinement proof: the simulation statement for `marshalV` at every fuel
  (fragment: atlases whose machine selection never yields a transform machine, a union machine or a panic).
-/
import RefmtProofs.Lemmas.MarshalMachSimD
import RefmtProofs.Lemmas.MarshalMachSimT
import RefmtProofs.Lemmas.MarshalMachSimU
open Refmt Refmt.Obj Refmt.Obj.MM
set_option linter.unusedVariables false
set_option linter.unusedSimpArgs false

namespace Refmt.MachL

variable {ts : Types} {a : Atlas} {trs : Trs}

/-- machines covered by the refinement proof -/
def Plain : Mach → Prop
  | .transform .. => False
  | .union .. => False
  | .panic => False
  | _ => True

/-- plain machines other than the wildcard machine (what a transform machine may delegate to) -/
def PlainT : Mach → Prop
  | .wildcard => False
  | m => Plain m

/-- machines covered by the refinement proof, given the atlas: the plain ones, and transform machines whose target
    type is not a pointer type and selects a plain machine other than the wildcard machine -/
def Okm1 (ts : Types) (a : Atlas) : Mach → Prop
  | .transform _ _ mty => (peel ts 64 0 mty).1 = 0 ∧ PlainT (pickBare ts a mty)
  | .union .. => False
  | .panic => False
  | _ => True

/-- machines covered by the refinement proof: those of `Okm1`, and union machines all of whose members select a
    machine of `Okm1` (a struct map, a map, a transform) -/
def Okm (ts : Types) (a : Atlas) : Mach → Prop
  | .union _ ms => ∀ p ∈ ms, ∀ me, a.pool[p.2]? = some me → Okm1 ts a (machForEntry ts me)
  | m => Okm1 ts a m

/-- the hypothesis of the refinement theorem, on the atlas: machine selection (`_yieldBareMarshalMachinePtr`,
    applied to a type with its pointer levels peeled off) never panics; a transform's target type is neither a
    pointer type, nor an interface type, nor a type with a transform of its own; a union's members are struct maps,
    maps or such transforms -/
def Frag (ts : Types) (a : Atlas) : Prop := ∀ id, Okm ts a (pickBare ts a (peel ts 64 0 id).2)

theorem plain_of_plainT {m : Mach} (h : PlainT m) : Plain m := by
  cases m <;> first | exact h | exact h.elim

theorem cfgMach_plain {m : Mach} (hm : Plain m) (row : Row) (id : Nat) :
    ∃ row' k, cfgMach ts a 1 row id m = .ok (row', k) ∧ CfgBare m k row' ∧ getW row' = getW row ∧
      row'.map.value = row.map.value ∧ k ≠ .ptr := by
  cases m <;> simp [Plain] at hm <;> simp only [cfgMach, CfgBare] <;>
    exact ⟨_, _, rfl, by simp, rfl, rfl, by simp⟩

theorem cfgM_of_plain {m : Mach} {k : MK} {row : Row} (hm : Plain m) (h : CfgBare m k row) : CfgM ts a m k row := by
  cases m <;> first | exact h | exact hm.elim

theorem cfgBare_of_plain {m : Mach} {k : MK} {row : Row} (hm : Plain m) (h : CfgM ts a m k row) : CfgBare m k row := by
  cases m <;> first | exact h | exact hm.elim

theorem cfgBare_tr_irrel {m : Mach} {k : MK} {row : Row} (T : TransM) (h : CfgBare m k row) :
    CfgBare m k { row with transform := T } := by
  cases m <;> exact h

theorem peel_fst_ge : ∀ (fuel n id : Nat), n ≤ (peel ts fuel n id).1
  | 0, n, id => by simp [peel]
  | fuel+1, n, id => by
    unfold peel
    split
    · exact Nat.le_trans (Nat.le_succ n) (peel_fst_ge fuel (n+1) _)
    · simp

theorem peel_zero {fuel id : Nat} (h : (peel ts fuel 0 id).1 = 0) : (peel ts fuel 0 id).2 = id := by
  cases fuel with
  | zero => simp [peel]
  | succ fuel =>
    unfold peel at h ⊢
    split
    · next e he =>
      simp only [he] at h
      have := peel_fst_ge (ts := ts) fuel (0 + 1) e
      omega
    · rfl

theorem cfgMach_ok_plain {m : Mach} (hm : Plain m) (row : Row) (id : Nat) :
    ∃ row' k, cfgMach ts a 3 row id m = .ok (row', k) ∧ CfgM ts a m k row' ∧ row'.ptr = row.ptr ∧
      row'.map.value = row.map.value ∧ k ≠ .ptr ∧ row'.union = row.union := by
  obtain ⟨row', k, hc, hcfg, hw, hval, hk⟩ := cfgMach_plain (ts := ts) (a := a) hm row id
  refine ⟨row', k, ?_, cfgM_of_plain hm hcfg, congrArg (·.1) hw, hval, hk, congrArg (·.2.2) hw⟩
  rw [cfgMach_mono (by omega : 1 ≤ 3) (hc ▸ NS.ok), hc]

theorem cfgMach_ok1 {m : Mach} (hm : Okm1 ts a m) (row : Row) (id : Nat) :
    ∃ row' k, cfgMach ts a 3 row id m = .ok (row', k) ∧ CfgM ts a m k row' ∧ row'.ptr = row.ptr ∧
      row'.map.value = row.map.value ∧ k ≠ .ptr ∧ row'.union = row.union := by
  cases m with
  | transform e fn mty =>
    obtain ⟨hp0, hpl⟩ := hm
    have hpl' := plain_of_plainT hpl
    obtain ⟨row2, kd, hc, hcfg, hw, hval, hk⟩ := cfgMach_plain (ts := ts) (a := a) hpl'
      { row with transform := { row.transform with trFunc := fn, mty := mty } } mty
    have hy : yieldM ts a 2 { row with transform := { row.transform with trFunc := fn, mty := mty } } mty =
        .ok (row2, kd) := by
      simp [yieldM, hp0, peel_zero hp0, hc]
    refine ⟨{ row2 with transform := { row2.transform with delegate := some kd, tag := e.tag } }, .transform,
      by simp [cfgMach, hy], ?_, ?_, hval, by simp, ?_⟩
    · have ht : row2.transform = { row.transform with trFunc := fn, mty := mty } := congrArg (·.2.1) hw
      exact ⟨rfl, by rw [ht], by rw [ht], rfl, kd, rfl, cfgBare_tr_irrel _ hcfg⟩
    · exact congrArg (·.1) hw
    · exact congrArg (·.2.2) hw
  | union _ _ => exact hm.elim
  | panic => exact hm.elim
  | _ => apply cfgMach_ok_plain; exact True.intro

theorem okm1_of_okm {m : Mach} (h : Okm ts a m) (hnu : ∀ e ms, m ≠ .union e ms) : Okm1 ts a m := by
  cases m <;> first | exact h | exact absurd rfl (hnu _ _)

theorem cfgMach_ok5 {m : Mach} (hm : Okm1 ts a m) (row : Row) (id : Nat) :
    ∃ row' k, cfgMach ts a 3 row id m = .ok (row', k) ∧ CfgM ts a m k row' ∧ row'.ptr = row.ptr ∧
      row'.map.value = row.map.value ∧ k ≠ .ptr := by
  obtain ⟨row', k, h1, h2, h3, h4, h5, _⟩ := cfgMach_ok1 hm row id
  exact ⟨row', k, h1, h2, h3, h4, h5⟩

theorem cfgMach_ok {m : Mach} (hm : Okm ts a m) (row : Row) (id : Nat) :
    ∃ row' k, cfgMach ts a 3 row id m = .ok (row', k) ∧ CfgM ts a m k row' ∧ row'.ptr = row.ptr ∧
      row'.map.value = row.map.value ∧ k ≠ .ptr := by
  cases m with
  | union e ms =>
    exact ⟨{ row with union := { row.union with cfg := e, members := ms } }, .union, rfl, ⟨rfl, rfl, rfl⟩, rfl, rfl,
      by simp⟩
  | _ => exact cfgMach_ok5 (okm1_of_okm hm (fun _ _ h => by cases h)) row id

theorem cfgM_ptr_irrel {m : Mach} {k : MK} {row : Row} (P : PtrM) (h : CfgM ts a m k row) :
    CfgM ts a m k { row with ptr := P } := by
  cases m <;> first | exact h | (obtain ⟨h1, h2, h3, h4, kd, h5, h6⟩ := h; exact ⟨h1, h2, h3, h4, kd, h5, by cases pickBare ts a _ <;> exact h6⟩)

theorem yieldOK_of_frag (h : Frag ts a) : YieldOK ts a := by
  intro id row
  obtain ⟨row', k, hc, hcfg, hptr, hval, hk⟩ := cfgMach_ok (ts := ts) (a := a) (h id) row (peel ts 64 0 id).2
  by_cases hn : (peel ts 64 0 id).1 = 0
  · refine ⟨4, row', k, ?_, ?_, hval⟩
    · simp [yieldM, hc, hn]
    · simp only [CfgV, hn, if_true]; exact hcfg
  · refine ⟨4, { row' with ptr := { mach := some k, peelCount := (peel ts 64 0 id).1, isNil := false } }, .ptr, ?_, ?_, hval⟩
    · simp [yieldM, hc, hn]
    · simp only [CfgV, hn, if_false]
      exact ⟨trivial, trivial, k, rfl, hk, cfgM_ptr_irrel _ hcfg⟩

theorem atlas_get_ty {id : Nat} {e : Entry} (h : a.get id = some e) : e.ty = id := by
  unfold Atlas.get at h
  have := List.find?_some h
  simp at this
  exact this.2

theorem machForEntry_machTy (e : Entry) : MachTy ts e.ty (machForEntry ts e) := by
  unfold machForEntry
  split <;> try trivial
  next mode hk =>
    cases hg : ts.get e.ty <;> simp [MachTy, hg]

theorem pickBare_machTy (id : Nat) : MachTy ts id (pickBare ts a id) := by
  unfold pickBare
  split
  · trivial
  · trivial
  · split
    · next e he =>
      have := machForEntry_machTy (ts := ts) e
      rwa [atlas_get_ty he] at this
    · cases hd : ts.get id <;> simp [MachTy, elemOf, hd]

theorem primTok_cases (id : Nat) (v : Val) (h : (primTok ts id v).fail ≠ some .panic) :
    ∃ t, primTok ts id v = ⟨[t], none⟩ := by
  unfold primTok at h ⊢
  split <;> first | exact ⟨_, rfl⟩ | simp [MOut.bad] at h

theorem zero_clean : Clean [Row.zero] := Clean.cons rfl (fun _ h => by cases h)

theorem simBare {f : Nat} {mk vm : Mask} (hfrag : Frag ts a) (hih : ∀ f', f' ≤ f → IHV ts a trs f') {id : Nat} {m : Mach}
    {v : Val} {L : Nat} {row : Row} {hi : List Row} {k : MK}
    (hpl : Plain m) (hw : m = .wildcard → vm = FFF)
    (hty : MachTy ts id m) (hcfg : CfgBare m k row) (hcl : Clean (row :: hi))
    (hnp : (marshalBare ts a trs (f+1) id m v).fail ≠ some .panic) :
    Sim ts a trs mk vm (CfgBare m k) L row hi ⟨L, k⟩ id v (marshalBare ts a trs (f+1) id m v) := by
  have hyo := yieldOK_of_frag hfrag
  cases m with
  | prim =>
    cases hcfg
    rw [marshalBare_prim] at hnp ⊢
    obtain ⟨t, ht⟩ := primTok_cases id v hnp
    exact sim_prim hcl ht
  | errThunk =>
    obtain ⟨rfl, herr⟩ := hcfg
    rw [marshalBare_errThunk]
    exact sim_errThunk ⟨rfl, herr⟩
  | wildcard =>
    cases hcfg
    rw [marshalBare_wild] at hnp ⊢
    cases v with
    | iface o =>
      cases o with
      | none => exact sim_wild_nil hcl
      | some p =>
        obtain ⟨dt, dv⟩ := p
        obtain ⟨ny, drow, kd, hy, hcfgd, hval⟩ := hyo dt Row.zero
        simp only at hnp ⊢
        rw [hw rfl]
        exact sim_wild_some hcl hy
          (hih f (Nat.le_refl _) dt dv _ drow [] kd hcfgd (Clean.cons (by rw [hval]; rfl) (fun _ h => by cases h)) hnp)
    | _ => simp [MOut.bad] at hnp
  | slice e =>
    cases hcfg
    rw [marshalBare_slice] at hnp ⊢
    obtain ⟨ny, drow, kd, hy, hcfgd, hval⟩ := hyo e Row.zero
    have hdcl : drow.map.value = false := by rw [hval]; rfl
    cases v with
    | slice o =>
      cases o with
      | none => exact sim_slice_nil hty hy hdcl hcl (fun r => rfl)
      | some es =>
        simp only at hnp ⊢
        exact sim_slice_elems (Or.inl rfl) hty rfl hy hcfgd hdcl hcl (fun f' hf' => hih f' (Nat.le_of_lt hf'))
          (fun r => rfl) (seq_fail_left (seq_fail_right hnp rfl))
    | _ => simp [MOut.bad] at hnp
  | array e =>
    cases hcfg
    rw [marshalBare_array] at hnp ⊢
    obtain ⟨ny, drow, kd, hy, hcfgd, hval⟩ := hyo e Row.zero
    have hdcl : drow.map.value = false := by rw [hval]; rfl
    cases v with
    | arr es =>
      simp only at hnp ⊢
      exact sim_slice_elems (Or.inr rfl) hty rfl hy hcfgd hdcl hcl (fun f' hf' => hih f' (Nat.le_of_lt hf'))
        (fun r => rfl) (seq_fail_left (seq_fail_right hnp rfl))
    | _ => simp [MOut.bad] at hnp
  | map kt vt mode =>
    obtain ⟨rfl, hmode⟩ := hcfg
    obtain ⟨ny, drow, kd, hy, hcfgd, hval⟩ := hyo vt Row.zero
    have hdcl : drow.map.value = false := by rw [hval]; rfl
    exact sim_map hty hmode hy hcfgd hdcl hcl (fun f' hf' => hih f' (Nat.le_of_lt hf'))
      (fun r h2 => ⟨rfl, by rw [h2, hmode]⟩) hnp
  | structMap e fs =>
    obtain ⟨rfl, hc, hfs⟩ := hcfg
    exact sim_struct hyo hc hfs hcl (fun f' hf' => hih f' (Nat.le_of_lt hf'))
      (fun r h2 h3 => ⟨rfl, by rw [h2, hc], by rw [h3, hfs]⟩) hnp
  | transform _ _ _ => exact hpl.elim
  | union _ _ => exact hpl.elim
  | panic => exact hpl.elim

theorem plainT_not_wild {m : Mach} (h : PlainT m) : m ≠ .wildcard := by
  intro hm; subst hm; exact h

theorem simM {f : Nat} {p1 p3 b1 b3 : Bool} (hfrag : Frag ts a) (hih : ∀ f', f' ≤ f → IHV ts a trs f') {id : Nat}
    {m : Mach} {v : Val} {L : Nat} {row : Row} {hi : List Row} {k : MK}
    (hok : Okm1 ts a m) (hw : m = .wildcard → ((b1, false, b3) : Mask) = FFF)
    (hty : MachTy ts id m) (hcfg : CfgM ts a m k row) (hcl : Clean (row :: hi))
    (hnp : (marshalBare ts a trs (f+1) id m v).fail ≠ some .panic) :
    Sim ts a trs (p1, false, p3) (b1, false, b3) (CfgM ts a m k) L row hi ⟨L, k⟩ id v
      (marshalBare ts a trs (f+1) id m v) := by
  cases m with
  | transform e fn mty =>
    obtain ⟨hp0, hpl⟩ := hok
    obtain ⟨rfl, hfn, hmty, htag, kd, hdel, hcb⟩ := hcfg
    rw [marshalBare_transform] at hnp ⊢
    refine sim_transform (Qd := CfgBare (pickBare ts a mty) kd) (rin := fun tv => marshalV ts a trs f mty tv)
      hcl ⟨hfn, hmty, hdel, htag⟩ (fun tv htv => ?_)
      (fun r2 hq2 hc2 => ⟨rfl, hc2.1, hc2.2.1, hc2.2.2.2, kd, hc2.2.2.1, hq2⟩)
      (fun r2 T hq2 => cfgBare_tr_irrel T hq2)
    simp only [htv, retagFirst_fail] at hnp
    cases f with
    | zero => simp [marshalV_zero, MOut.bad] at hnp
    | succ f1 =>
      simp only
      rw [marshalV_succ] at hnp ⊢
      simp only [hp0, if_true, peel_zero hp0] at hnp ⊢
      cases f1 with
      | zero => simp [marshalBare_zero, MOut.bad] at hnp
      | succ f2 =>
        exact simBare hfrag (fun f' hf' => hih f' (by omega)) (plain_of_plainT hpl)
          (fun h => absurd h (plainT_not_wild hpl)) (pickBare_machTy _) (cfgBare_tr_irrel _ hcb)
          (Clean.cons hcl.head hcl.tail) hnp
  | union _ _ => exact hok.elim
  | panic => exact hok.elim
  | prim | errThunk | wildcard | slice _ | array _ | map _ _ _ | structMap _ _ =>
    refine (simBare hfrag hih ?_ hw hty hcfg hcl hnp).monoQ (fun _ h => h)
    exact True.intro

theorem cfgBare_union_irrel {m : Mach} {k : MK} {row : Row} (U : UnionM) (h : CfgBare m k row) :
    CfgBare m k { row with union := U } := by
  cases m <;> exact h

theorem cfgM_union_irrel {m : Mach} {k : MK} {row : Row} (U : UnionM) (hnu : ∀ e ms, m ≠ .union e ms)
    (h : CfgM ts a m k row) : CfgM ts a m k { row with union := U } := by
  cases m with
  | union e ms => exact absurd rfl (hnu e ms)
  | transform e fn mty =>
    obtain ⟨h1, h2, h3, h4, kd, h5, h6⟩ := h
    exact ⟨h1, h2, h3, h4, kd, h5, cfgBare_union_irrel U h6⟩
  | _ => exact h

theorem find_member {ms : List (Bytes × Nat)} {dt : Nat} {name : Bytes} {idx : Nat} {me : Entry}
    (hfind : ms.find? (fun x => (a.pool[x.2]?.map (·.ty)) == some dt) = some (name, idx))
    (hme : a.pool[idx]? = some me) : me.ty = dt ∧ (name, idx) ∈ ms := by
  have h1 := List.find?_some hfind
  have h2 := List.mem_of_find?_eq_some hfind
  simp [hme] at h1
  exact ⟨h1, h2⟩

theorem machForEntry_not_union_of_okm1 {me : Entry} (h : Okm1 ts a (machForEntry ts me)) :
    ∀ e ms, machForEntry ts me ≠ .union e ms := by
  intro e ms heq; rw [heq] at h; exact h

theorem machForEntry_not_wild (me : Entry) : machForEntry ts me ≠ .wildcard := by
  unfold machForEntry
  split <;> try (intro h; cases h)
  split <;> (intro h; cases h)

theorem snoc_cases {α : Type} (l : List α) : l = [] ∨ ∃ l0 x, l = l0 ++ [x] := by
  cases l with
  | nil => exact Or.inl rfl
  | cons y ys => exact Or.inr (snoc_of_ne_nil (by simp))

theorem unionOut_np {name : Bytes} {inner : MOut} (h : (unionOut name inner).fail ≠ some .panic) :
    inner.fail ≠ some .panic := by
  by_cases hb : inner.toks = [] ∧ inner.fail ≠ none
  · cases hf : inner.fail with
    | none => simp
    | some f =>
      rw [unionOut_bad hb.1 hf] at h
      simpa [MOut.bad] using h
  · rw [(unionOut_ok hb).1] at h; exact h

theorem simO {f : Nat} {p1 b1 : Bool} (hfrag : Frag ts a) (hih : ∀ f', f' ≤ f → IHV ts a trs f') {id : Nat}
    {m : Mach} {v : Val} {L : Nat} {row : Row} {hi : List Row} {k : MK}
    (hok : Okm ts a m) (hw : m = .wildcard → ((b1, false, false) : Mask) = FFF)
    (hty : MachTy ts id m) (hcfg : CfgM ts a m k row) (hcl : Clean (row :: hi))
    (hnp : (marshalBare ts a trs (f+1) id m v).fail ≠ some .panic) :
    Sim ts a trs (p1, false, false) (b1, false, false) (CfgM ts a m k) L row hi ⟨L, k⟩ id v
      (marshalBare ts a trs (f+1) id m v) := by
  cases m with
  | union e ms =>
    obtain ⟨rfl, hce, hcm⟩ := hcfg
    rw [marshalBare_union] at hnp ⊢
    cases v with
    | iface o =>
      cases o with
      | none =>
        refine ⟨fun e' _ he => ⟨1, fun lo hl => ?_⟩, fun h => absurd ⟨rfl, by simp [MOut.bad]⟩ h⟩
        simp only [MOut.bad] at he
        cases he; subst hl
        simp [resetM_at, resetBody, getRow, resetUnion]
      | some p =>
        obtain ⟨dt, dv⟩ := p
        simp only at hnp ⊢
        cases hfd : ms.find? (fun x => (a.pool[x.2]?.map (·.ty)) == some dt) with
        | none =>
          simp only [hfd]
          refine ⟨fun e' _ he => ⟨1, fun lo hl => ?_⟩, fun h => absurd ⟨rfl, by simp [MOut.bad]⟩ h⟩
          simp only [MOut.bad] at he
          cases he; subst hl
          simp [resetM_at, resetBody, getRow, resetUnion, hcm, hfd]
        | some pr =>
          obtain ⟨name, idx⟩ := pr
          simp only [hfd] at hnp ⊢
          cases hme : a.pool[idx]? with
          | none => simp [hme, MOut.bad] at hnp
          | some me =>
            simp only [hme] at hnp ⊢
            obtain ⟨hty', hmem⟩ := find_member hfd hme
            subst hty'
            have hok1 : Okm1 ts a (machForEntry ts me) := hok (name, idx) hmem me hme
            have hnu := machForEntry_not_union_of_okm1 hok1
            change (unionOut name (marshalBare ts a trs f me.ty (machForEntry ts me) dv)).fail ≠ some .panic at hnp
            change Sim ts a trs _ _ _ L row hi _ id _ (unionOut name (marshalBare ts a trs f me.ty (machForEntry ts me) dv))
            have hnpi := unionOut_np hnp
            cases f with
            | zero => simp [marshalBare_zero, MOut.bad] at hnpi
            | succ f1 =>
              have hq : ∀ r2 : Row, r2.union.cfg = row.union.cfg → r2.union.members = row.union.members →
                  CfgM ts a (.union e ms) .union r2 := fun r2 h1 h2 => ⟨rfl, by rw [h1, hce], by rw [h2, hcm]⟩
              have hmty : MachTy ts me.ty (machForEntry ts me) := machForEntry_machTy me
              rcases snoc_cases hi with rfl | ⟨hi0, trow, rfl⟩
              · obtain ⟨trow', kd, hc, hcfgd, hptr, hval, hk, hun⟩ :=
                  cfgMach_ok1 (ts := ts) (a := a) hok1 (uTarget dv name row) me.ty
                have hsim := simM (f := f1) (p1 := p1) (p3 := true) (b1 := b1) (b3 := true) (L := L) (hi := [])
                  (row := uDeleg ⟨L, kd⟩ trow') (v := dv) hfrag (fun f' hf' => hih f' (by omega)) hok1
                  (fun h => absurd h (machForEntry_not_wild me)) hmty (cfgM_union_irrel _ hnu hcfgd)
                  (Clean.cons (by show trow'.map.value = false; rw [hval]; exact hcl.head) (fun _ h => by cases h)) hnpi
                exact sim_union_same hcl (by rw [hcm]; exact hfd) hme hc hun hptr hsim hq
              · obtain ⟨trow', kd, hc, hcfgd, hptr, hval, hk, hun⟩ :=
                  cfgMach_ok1 (ts := ts) (a := a) hok1 trow me.ty
                have hclt : trow.map.value = false := hcl.tail.right.head
                have hsim := simM (f := f1) (p1 := false) (p3 := false) (b1 := false) (b3 := false)
                  (L := L + 1 + hi0.length) (hi := []) (row := trow') (v := dv) hfrag
                  (fun f' hf' => hih f' (by omega)) hok1
                  (fun h => absurd h (machForEntry_not_wild me)) hmty hcfgd
                  (Clean.cons (by rw [hval]; exact hclt) (fun _ h => by cases h)) hnpi
                exact sim_union_tip (Clean.cons hcl.head hcl.tail.left) (by rw [hcm]; exact hfd) hme hc hsim hq
    | _ => simp [MOut.bad] at hnp
  | _ => exact simM hfrag hih (okm1_of_okm hok (fun _ _ h => by cases h)) hw hty hcfg hcl hnp

theorem ihv_all (hfrag : Frag ts a) : ∀ f, IHV ts a trs f := by
  intro f
  induction f using Nat.strongRecOn with
  | _ f ih =>
    intro id v L row hi k hcfg hcl hnp
    cases f with
    | zero => simp [marshalV_zero, MOut.bad] at hnp
    | succ f =>
      rw [marshalV_succ] at hnp ⊢
      unfold CfgV at hcfg
      by_cases hn : (peel ts 64 0 id).1 = 0
      · simp only [hn, if_true] at hcfg hnp ⊢
        cases f with
        | zero => simp [marshalBare_zero, MOut.bad] at hnp
        | succ f =>
          have hih : ∀ f', f' ≤ f → IHV ts a trs f' := fun f' hf' => ih f' (by omega)
          have := simO (p1 := false) (b1 := false) (L := L) (hi := hi) hfrag hih
            (hfrag _) (fun _ => rfl) (pickBare_machTy _) hcfg hcl hnp
          rw [peel_zero hn] at this ⊢
          refine this.monoQ (fun r hr => ?_)
          simp only [CfgV, hn, if_true, peel_zero hn]
          exact hr
      · simp only [hn, if_false] at hcfg hnp ⊢
        obtain ⟨rfl, hpc, k', hm, hk', hcb⟩ := hcfg
        cases hd : derefN (peel ts 64 0 id).1 v with
        | none =>
          simp only
          refine sim_ptr_nil (p2 := false) (p3 := false) (b2 := false) (b3 := false) hcl (by rw [hpc, hd]) (fun w => ?_)
          simp only [CfgV, hn, if_false]
          exact ⟨trivial, hpc, k', hm, hk', cfgM_ptr_irrel _ hcb⟩
        | some inner =>
          simp only [hd] at hnp ⊢
          cases f with
          | zero => simp [marshalBare_zero, MOut.bad] at hnp
          | succ f =>
            have hih : ∀ f', f' ≤ f → IHV ts a trs f' := fun f' hf' => ih f' (by omega)
            have := simO (p1 := true) (b1 := false) (L := L) (hi := hi)
              (row := { row with ptr := { row.ptr with isNil := false } })
              hfrag hih (hfrag _) (fun _ => rfl) (pickBare_machTy _) (cfgM_ptr_irrel _ hcb)
              (Clean.cons hcl.head hcl.tail) hnp
            refine sim_ptr_some (p2 := false) (p3 := false) (v1 := false) (b2 := false) (b3 := false)
              hcl (by rw [hpc, hd]) hm this (fun r2 hr2 hp2 => ?_)
            simp only [CfgV, hn, if_false]
            rw [hp2]
            exact ⟨trivial, hpc, k', hm, hk', hr2⟩

/-- `Okm`, as a Boolean -/
def okm1B (ts : Types) (a : Atlas) : Mach → Bool
  | .transform _ _ mty =>
    (peel ts 64 0 mty).1 == 0 &&
      (match pickBare ts a mty with
       | .transform .. => false | .union .. => false | .panic => false | .wildcard => false | _ => true)
  | .union .. => false
  | .panic => false
  | _ => true

theorem okm1_of_okm1B {m : Mach} (h : okm1B ts a m = true) : Okm1 ts a m := by
  cases m with
  | transform e fn mty =>
    simp only [okm1B, Bool.and_eq_true, beq_iff_eq] at h
    refine ⟨h.1, ?_⟩
    have h2 := h.2
    cases hp : pickBare ts a mty <;> simp_all [PlainT, Plain]
  | union _ _ => simp [okm1B] at h
  | panic => simp [okm1B] at h
  | _ => trivial

/-- `Okm`, as a Boolean -/
def okmB (ts : Types) (a : Atlas) : Mach → Bool
  | .union _ ms =>
    ms.all fun p => match a.pool[p.2]? with
      | some me => okm1B ts a (machForEntry ts me)
      | none => true
  | m => okm1B ts a m

theorem okm_of_okm1 {m : Mach} (h : Okm1 ts a m) : Okm ts a m := by
  cases m <;> first | exact h | exact h.elim

theorem okm_of_okmB {m : Mach} (h : okmB ts a m = true) : Okm ts a m := by
  cases m with
  | union e ms =>
    intro p hp me hme
    simp only [okmB, List.all_eq_true] at h
    have := h p hp
    simp only [hme] at this
    exact okm1_of_okm1B this
  | _ => exact okm_of_okm1 (okm1_of_okm1B (by simpa [okmB] using h))

/-- a finite check that implies `Frag`: every listed type, and every atlas entry, selects a covered machine -/
def fragCheck (ts : Types) (a : Atlas) : Bool :=
  ts.all (fun p => okmB ts a (pickBare ts a (peel ts 64 0 p.1).2)) && a.pool.all (fun e => okmB ts a (machForEntry ts e))

theorem lookup_mem {α : Type} : ∀ (l : List (Nat × α)) (id : Nat) (d : α), l.lookup id = some d → (id, d) ∈ l
  | [], _, _, h => by simp [List.lookup] at h
  | (k, x) :: l, id, d, h => by
    unfold List.lookup at h
    split at h
    · next heq =>
      have : id = k := by simpa using heq
      cases h; subst this; simp
    · exact List.mem_cons_of_mem _ (lookup_mem l id d h)

theorem frag_of_check (h : fragCheck ts a = true) : Frag ts a := by
  simp only [fragCheck, Bool.and_eq_true, List.all_eq_true] at h
  obtain ⟨h1, h2⟩ := h
  intro id
  cases hl : ts.lookup id with
  | some d => exact okm_of_okmB (h1 _ (lookup_mem _ _ _ hl))
  | none =>
    have hg : ts.get id = .other := by simp [Types.get, hl]
    have hp : peel ts 64 0 id = (0, id) := by simp [peel, hg]
    rw [hp]
    unfold pickBare
    simp only [hg]
    cases hget : a.get id with
    | none => trivial
    | some e =>
      simp only
      exact okm_of_okmB (h2 e (List.mem_of_find?_eq_some hget))
