/-
  C12, claim (ii) with tags — the induction over `fullTy`: bare machines of the plain kinds and of UNTAGGED struct maps
  (LegRT2.lean with `Hd2T`).  See RefmtProofs/Props/C12Tagged.lean.
-/
import RefmtProofs.Lemmas.TagLeg1
set_option linter.unusedSimpArgs false
set_option linter.unusedVariables false
namespace Refmt.Obj
open Refmt Refmt.C13 Refmt.C11 Refmt.C12 Refmt.C12L

variable {ts : Types} {a : Atlas} {trs : Trs} {it : IfaceTys}

theorem legt_b_slice {f} (he : UEnv ts a it) (ih : LEGT ts a trs it f) (p h id e : Nat) (v : Val) (toks : List Tok) (g : Nat)
    (hp64 : p + 1 ≤ 64) (hd : ts.get id = .slice e) (hn : a.get id = none) (hpe : fullTy ts a p e = true)
    (hv : hasTy ts h id v = true) (hg : f + 1 ≤ g) (hs : fullValB ts a trs it g id (pickBare ts a id) v = true)
    (hm : marshalBare ts a trs (f+1) id (pickBare ts a id) v = ⟨toks, none⟩) :
    LegBT ts a trs it id toks (rtFB ts a trs it g id (pickBare ts a id) v) := by
  obtain ⟨g, rfl⟩ : ∃ g', g = g' + 1 := ⟨g - 1, by omega⟩
  obtain ⟨hpk, hupk⟩ := pick_slice hd hn
  rw [hpk] at hm hs ⊢
  rw [fullValB_slice] at hs
  cases h with
  | zero => simp [hasTy] at hv
  | succ h =>
  cases v <;> simp only [hasTy, hd] at hv <;> try (cases hv; done)
  rename_i o
  cases o with
  | none =>
    rw [marshalBare_slice] at hm
    simp [MOut.ok] at hm; subst hm
    refine ⟨_, _, 3, (UP_null he).toT, fun F hF rest => ?_⟩
    obtain ⟨F, rfl⟩ : ∃ F', F = F' + 1 := ⟨F - 1, by omega⟩
    rw [hupk]
    simp [unmBare_slice, rtFB_slice]
  | some es =>
    rw [marshalBare_slice] at hm
    simp only at hm
    obtain ⟨t1, t23, h1, h23, rfl⟩ := seq_ok hm
    obtain ⟨tl, tc, h2, h3, rfl⟩ := seq_ok h23
    simp [MOut.ok] at h1 h3; subst h1 h3
    have hv' : ∀ x ∈ es, hasTy ts h e x = true := by simpa [hasTy, hd] using hv
    have hs' : ∀ x ∈ es, fullVal ts a trs it g e x = true := by simpa using hs
    obtain ⟨items, N, rfl, hr, hall⟩ := legt_list ih p h e g (by omega) hpe (by omega) es f tl (by omega) hv' hs' h2
    have hup := UPT_arr (trs := trs) he N es.length items (fun i hi => (hall i hi).1)
    refine ⟨_, _, _, by simpa using hup, fun F hF rest => ?_⟩
    obtain ⟨F, rfl⟩ : ∃ F', F = F' + 1 := ⟨F - 1, by omega⟩
    have hl := rd_elems (ts := ts) (a := a) (trs := trs) (it := it) (·.tk2) (·.r) e N items
      (fun i hi => ⟨(hall i hi).1.1.head2, (hall i hi).2⟩) F (by omega) none [] rest (by simp)
    rw [hupk, List.cons_append, List.append_assoc, List.singleton_append, unmBare_slice, rtFB_slice]
    simp [hl, hr]

theorem legt_b_arr {f} (he : UEnv ts a it) (ih : LEGT ts a trs it f) (p h id n e : Nat) (v : Val) (toks : List Tok) (g : Nat)
    (hp64 : p + 1 ≤ 64) (hd : ts.get id = .arr n e) (hn : a.get id = none) (hpe : fullTy ts a p e = true)
    (hv : hasTy ts h id v = true) (hg : f + 1 ≤ g) (hs : fullValB ts a trs it g id (pickBare ts a id) v = true)
    (hm : marshalBare ts a trs (f+1) id (pickBare ts a id) v = ⟨toks, none⟩) :
    LegBT ts a trs it id toks (rtFB ts a trs it g id (pickBare ts a id) v) := by
  obtain ⟨g, rfl⟩ : ∃ g', g = g' + 1 := ⟨g - 1, by omega⟩
  obtain ⟨hpk, hupk⟩ := pick_arr hd hn
  rw [hpk] at hm hs ⊢
  rw [fullValB_array] at hs
  cases h with
  | zero => simp [hasTy] at hv
  | succ h =>
  cases v <;> simp only [hasTy, hd] at hv <;> try (cases hv; done)
  rename_i es
  rw [marshalBare_array] at hm
  simp only at hm
  obtain ⟨t1, t23, h1, h23, rfl⟩ := seq_ok hm
  obtain ⟨tl, tc, h2, h3, rfl⟩ := seq_ok h23
  simp [MOut.ok] at h1 h3; subst h1 h3
  have hv' : es.length = n ∧ ∀ x ∈ es, hasTy ts h e x = true := by simpa [hasTy, hd] using hv
  have hs' : ∀ x ∈ es, fullVal ts a trs it g e x = true := by simpa using hs
  obtain ⟨items, N, rfl, hr, hall⟩ := legt_list ih p h e g (by omega) hpe (by omega) es f tl (by omega) hv'.2 hs' h2
  have hlen : items.length = es.length := by simpa using congrArg List.length hr
  have hup := UPT_arr (trs := trs) he N es.length items (fun i hi => (hall i hi).1)
  refine ⟨_, _, _, by simpa using hup, fun F hF rest => ?_⟩
  obtain ⟨F, rfl⟩ : ∃ F', F = F' + 1 := ⟨F - 1, by omega⟩
  have hl := rd_elems (ts := ts) (a := a) (trs := trs) (it := it) (·.tk2) (·.r) e N items
    (fun i hi => ⟨(hall i hi).1.1.head2, (hall i hi).2⟩) F (by omega) (some n) [] rest (by simp [hlen, hv'.1])
  rw [hupk, List.cons_append, List.append_assoc, List.singleton_append, unmBare_array, rtFB_array]
  simp [hl, hr, arrFix, hv'.1]


theorem legt_b_map {f} (he : UEnv ts a it) (ih : LEGT ts a trs it f) (p h id kt vt : Nat) (bk : Bool) (v : Val) (toks : List Tok) (g : Nat)
    (hp64 : p + 1 ≤ 64) (hd : ts.get id = .map kt vt) (hn : a.get id = none) (hkt : ts.get kt = .prim .string bk)
    (hpe : fullTy ts a p vt = true)
    (hv : hasTy ts h id v = true) (hg : f + 1 ≤ g) (hs : fullValB ts a trs it g id (pickBare ts a id) v = true)
    (hm : marshalBare ts a trs (f+1) id (pickBare ts a id) v = ⟨toks, none⟩) :
    LegBT ts a trs it id toks (rtFB ts a trs it g id (pickBare ts a id) v) := by
  obtain ⟨g, rfl⟩ : ∃ g', g = g' + 1 := ⟨g - 1, by omega⟩
  obtain ⟨hpk, hupk⟩ := pick_map hd hn
  rw [hpk] at hm hs ⊢
  have hmk : mkeyFn ts a kt = some none := by simp [mkeyFn, hkt]
  have huk : ukeyFn ts a kt = some none := by simp [ukeyFn, hkt]
  rw [fullValB_map] at hs
  cases h with
  | zero => simp [hasTy] at hv
  | succ h =>
  cases v <;> simp only [hasTy, hd] at hv <;> try (cases hv; done)
  rename_i o
  cases o with
  | none =>
    rw [marshalBare_map, hmk] at hm
    simp [MOut.ok] at hm; subst hm
    refine ⟨_, _, 3, (UP_null he).toT, fun F hF rest => ?_⟩
    obtain ⟨F, rfl⟩ : ∃ F', F = F' + 1 := ⟨F - 1, by omega⟩
    rw [hupk]
    simp [unmBare_map, huk, rtFB_map]
  | some es =>
    simp only [Bool.and_eq_true, List.all_eq_true] at hs
    obtain ⟨hkeys, hnd⟩ := strKeysB_inv hs.1
    have hv' : ∀ q ∈ es, hasTy ts h vt q.2 = true := by
      intro q hq
      obtain ⟨q1, q2⟩ := q
      have := hv
      simp [hasTy, hd] at this
      exact (this q1 q2 hq).2
    rw [marshalBare_map, hmk] at hm
    simp only [Option.getD_some, mapM_keys es hkeys, Option.isNone_some, Bool.false_eq_true, if_false] at hm
    obtain ⟨t1, t23, h1, h23, rfl⟩ := seq_ok hm
    obtain ⟨tl, tc, h2, h3, rfl⟩ := seq_ok h23
    simp [MOut.ok] at h1 h3; subst h1 h3
    let kvs := es.map fun (q : Val × Val) => (keyStr q.1, q.2)
    have hperm := List.mergeSort_perm kvs (fun x y => keyLe a.defaultSort x.1 y.1)
    have hmem : ∀ q ∈ sortKeys a.defaultSort kvs, ∃ q' ∈ es, q.2 = q'.2 := by
      intro q hq
      have : q ∈ kvs := hperm.mem_iff.mp hq
      simp only [kvs, List.mem_map] at this
      obtain ⟨q', hq', rfl⟩ := this
      exact ⟨q', hq', rfl⟩
    obtain ⟨kitems, N, rfl, hr, hall⟩ := legt_entries ih p h vt g (by omega) hpe (by omega) (sortKeys a.defaultSort kvs) f tl (by omega)
      (fun q hq => by obtain ⟨q', hq', he⟩ := hmem q hq; rw [he]; exact hv' q' hq')
      (fun q hq => by obtain ⟨q', hq', he⟩ := hmem q hq; rw [he]; exact hs.2 q' hq') h2
    have hkeysEq : kitems.map (·.1) = (sortKeys a.defaultSort kvs).map (·.1) := by
      have := congrArg (List.map (·.1)) hr
      simpa [List.map_map, Function.comp_def] using this
    have hnd' : (kitems.map (·.1)).Nodup := by
      rw [hkeysEq]
      have : ((sortKeys a.defaultSort kvs).map (·.1)).Perm (kvs.map (·.1)) := hperm.map _
      rw [this.nodup_iff]
      simpa [kvs, List.map_map, Function.comp_def] using hnd
    have hsorted : sortI a.defaultSort kitems = kitems := by
      apply sortI_of_sorted
      rw [hkeysEq, List.pairwise_map]
      exact C08.sortKeys_sorted a.defaultSort kvs
    have hlen : kitems.length = es.length := by
      have := congrArg List.length hkeysEq
      simpa [kvs, ObjL.sortKeys_length] using this
    have hup := UPT_map (trs := trs) he N es.length kitems hnd' (fun q hq => (hall q hq).1)
    rw [hsorted, hlen] at hup
    refine ⟨_, _, _, by simpa using hup, fun F hF rest => ?_⟩
    obtain ⟨F, rfl⟩ : ∃ F', F = F' + 1 := ⟨F - 1, by omega⟩
    have hl := rd_entries (ts := ts) (a := a) (trs := trs) (it := it) (·.1) (·.2.tk2) (·.2.r) vt N kitems
      (fun q hq => (hall q hq).2) hnd' F (by omega) [] rest (by intro x _; simp [hasKey])
    have hres : (kitems.map fun x => (Val.str x.1, x.2.r)) =
        (sortKeys a.defaultSort kvs).map fun (q : Bytes × Val) => (Val.str q.1, rtF ts a trs it g vt q.2) := by
      have := congrArg (List.map fun (q : Bytes × Val) => (Val.str q.1, q.2)) hr
      simpa [List.map_map, Function.comp_def] using this
    rw [hupk, List.cons_append, List.append_assoc, List.singleton_append, unmBare_map, huk, rtFB_map,
      zeroVal_mapCur0]
    simp only [hl, hres, kvs]
    simp


theorem legt_b_struct {f} (he : UEnv ts a it) (hz : ZeroStable ts) (ih : LEGT ts a trs it f) (p h id : Nat)
    (fds : List FieldDesc) (reg : Bool) (ty : Nat)
    (tag : Option Int) (htag : tag = none) (fields : List SMField) (v : Val) (toks : List Tok) (g : Nat) (hp64 : p + 1 ≤ 64)
    (hd : ts.get id = .struct fds) (hent : a.get id = some ⟨reg, ty, tag, .structMap fields⟩)
    (hnames : (fields.map (·.name)).Nodup) (hroutes : (fields.map (·.route)).Nodup) (hfok : ∀ fld ∈ fields, FOKF ts a p fds fld)
    (hv : hasTy ts h id v = true) (hg : f + 1 ≤ g) (hs : fullValB ts a trs it g id (pickBare ts a id) v = true)
    (hm : marshalBare ts a trs (f+1) id (pickBare ts a id) v = ⟨toks, none⟩) :
    LegBT ts a trs it id toks (rtFB ts a trs it g id (pickBare ts a id) v) := by
  obtain ⟨g, rfl⟩ : ∃ g', g = g' + 1 := ⟨g - 1, by omega⟩
  obtain ⟨hpk, hupk⟩ := pick_struct hd hent
  subst htag
  rw [hpk] at hm hs ⊢
  rw [fullValB_structMap] at hs
  simp only [List.all_eq_true] at hs
  cases h with
  | zero => simp [hasTy] at hv
  | succ h =>
  cases v <;> simp only [hasTy, hd] at hv <;> try (cases hv; done)
  rename_i vs
  simp only [Bool.and_eq_true, beq_iff_eq, List.all_eq_true] at hv
  obtain ⟨hvl, hvall⟩ := hv
  have hv' : ∀ (i : Nat) fd x, fds[i]? = some fd → vs[i]? = some x → hasTy ts h fd.ty x = true := by
    intro i fd x h1 h2
    have : (fd, x) ∈ fds.zip vs := by
      apply List.mem_of_getElem? (i := i)
      simp [List.getElem?_zip_eq_some, h1, h2]
    exact hvall (fd, x) this
  rw [marshalBare_structMap] at hm
  simp only at hm
  obtain ⟨t1, t23, h1, h23, rfl⟩ := seq_ok hm
  obtain ⟨tl, tc, h2, h3, rfl⟩ := seq_ok h23
  simp [MOut.ok] at h1 h3; subst h1 h3
  -- the emitted fields, as items
  obtain ⟨fitems, N, rfl, hfl, hall⟩ := legt_fields ih p h g fds vs (by omega) (by omega) hv'
    (fields.filter (emitP (.struct vs))) f tl (by omega)
    (fun fld hf => hfok fld (List.mem_filter.mp hf).1)
    (fun fld hf fv ht => by
      have := hs fld (List.mem_filter.mp hf).1
      simpa [(List.mem_filter.mp hf).2, ht] using this) h2
  have hmemF : ∀ q ∈ fitems, q.1 ∈ fields := by
    intro q hq
    have : q.1 ∈ fitems.map (·.1) := List.mem_map_of_mem hq
    rw [hfl] at this
    exact (List.mem_filter.mp this).1
  have hlen : fitems.length = (fields.filter (emitP (.struct vs))).length := by
    rw [← hfl]; simp
  -- the untyped pass
  let kitems := fitems.map fun q => (q.1.name, q.2)
  have hkn : (kitems.map (·.1)).Nodup := by
    have e : kitems.map (·.1) = (fitems.map (·.1)).map (·.name) := by simp [kitems, List.map_map, Function.comp_def]
    rw [e, hfl]
    exact (List.filter_sublist.map _).nodup hnames
  have hup := UPT_map (trs := trs) he N (fields.filter (emitP (.struct vs))).length kitems hkn (by
    intro q hq
    simp only [kitems, List.mem_map] at hq
    obtain ⟨q', hq', rfl⟩ := hq
    exact (hall q' hq').1.1)
  have e1 : kitems.flatMap (fun p => (⟨.str p.1, none⟩ : Tok) :: p.2.tk) =
      fitems.flatMap (fun q => (⟨.str q.1.name, none⟩ : Tok) :: q.2.tk) := by
    simp [kitems, List.flatMap_map]
  have e2 : (sortI a.defaultSort kitems).flatMap (fun p => (⟨.str p.1, none⟩ : Tok) :: p.2.tk2) =
      (sortF a.defaultSort fitems).flatMap (fun q => (⟨.str q.1.name, none⟩ : Tok) :: q.2.tk2) := by
    simp only [kitems, sortI_map_sortF, List.flatMap_map]
  have e3 : kitems.length = fitems.length := by simp [kitems]
  rw [e1, e2, e3] at hup
  refine ⟨_, _, _, by simpa using hup, fun F hF rest => ?_⟩
  obtain ⟨F, rfl⟩ : ∃ F', F = F' + 1 := ⟨F - 1, by omega⟩
  have hperm := sortF_perm a.defaultSort fitems
  have hidx : ∀ q ∈ fitems, ∀ i, q.1.route = [i] → routeIdx q.1 = i := by
    intro q _ i hi; simp [routeIdx, hi]
  have hrnd : (fitems.map fun q => routeIdx q.1).Nodup := by
    have hr0 : ((fitems.map (·.1)).map (·.route)).Nodup := by
      rw [hfl]; exact (List.filter_sublist.map _).nodup hroutes
    rw [List.map_map] at hr0
    unfold List.Nodup at hr0 ⊢
    rw [List.pairwise_map] at hr0 ⊢
    refine hr0.imp_of_mem ?_
    intro q q' hq hq' hne heq
    apply hne
    obtain ⟨_, i, _, _, hroute, _⟩ := hall q hq
    obtain ⟨_, i', _, _, hroute', _⟩ := hall q' hq'
    simp only [routeIdx, hroute, hroute', List.headD_cons] at heq
    simp [hroute, hroute', heq]
  have hsl : (sortF a.defaultSort fitems).length = fitems.length := hperm.length_eq
  have hst := rd_struct (ts := ts) (a := a) (trs := trs) (it := it) id fds fields N hd hnames (sortF a.defaultSort fitems)
    (fun q hq => by
      have hq' := hperm.mem_iff.mp hq
      obtain ⟨hgood, i, fd, fv, hroute, hfd, _, _⟩ := hall q hq'
      exact ⟨hmemF q hq', (hfok q.1 (hmemF q hq')).1, hgood.1.1.head2, i, fd, hroute, hfd, hgood.2⟩)
    (((hperm.map _).nodup_iff).mpr hrnd) F (by omega)
    (fds.map fun fd => zeroVal ts 63 fd.ty) 0 (fitems.length : Nat) rest (by simp)
    (fun q hq => by
      have hq' := hperm.mem_iff.mp hq
      obtain ⟨_, i, fd, fv, hroute, hfd, _, _⟩ := hall q hq'
      obtain ⟨_, j, fd', hroute', hfd', hty', _⟩ := hfok q.1 (hmemF q hq')
      rw [hroute] at hroute'
      cases hroute'
      rw [hidx q hq' i hroute, List.getElem?_map, hfd', ← hty', ← hz fd'.ty]; rfl)
    (by simp [hsl])
  have hfold : Val.struct ((sortF a.defaultSort fitems).foldl setStep (fds.map fun fd => zeroVal ts 63 fd.ty)) =
      rtFB ts a trs it (g+1) id (.structMap ⟨reg, ty, none, .structMap fields⟩ fields) (.struct vs) := by
    rw [rtFB_structMap, structFold_eq_filter, zeroVal_struct ts hd, ← hfl,
      fold_fieldStep id fds vs (rtF ts a trs it g) hd fitems _ (by simp)
        (fun q hq => by
          obtain ⟨_, i, fd, fv, hroute, hfd, hvi, hr⟩ := hall q hq
          exact ⟨i, fd, fv, hroute, hfd, hvi, hr⟩),
      foldl_setStep_perm hperm (((hperm.map _).nodup_iff).mpr hrnd)]
  rw [hupk, List.cons_append, List.append_assoc, List.singleton_append, unmBare_structMap, zeroVal_struct ts hd]
  simp only [hst, URes.shift_ok, hfold]
  simp

end Refmt.Obj
