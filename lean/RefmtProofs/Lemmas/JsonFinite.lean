/-
  Trees returned by the JSON reference reader carry finite floats only (`numTok` answers a range error on
  overflow), so together with `PumpL.parse_JT` they are in the JSON encoder's domain (`C03.JWF`, `C16.JWF`).
  Used by C16Pump (JSON → JSON).
-/
import RefmtModel
import RefmtProofs.Lemmas.JsonTree
import RefmtProofs.Lemmas.CborLeaves
set_option linter.unusedSimpArgs false
set_option linter.unusedVariables false
namespace Refmt.JsonFinite
open Refmt Refmt.JsonDec Refmt.Spec.Json Refmt.C05L Refmt.PumpL

def finB : Body → Bool
  | .float x => !floatNonFinite x
  | _ => true

mutual
  def FinT : TV → Bool
    | .scalar t => finB t.body
    | .arr _ _ items => FinTl items
    | .map _ _ es => FinTe es
  def FinTl : List TV → Bool
    | [] => true
    | v :: vs => FinT v && FinTl vs
  def FinTe : List (TV × TV) → Bool
    | [] => true
    | (_, v) :: es => FinT v && FinTe es
end

theorem float_branch_fin (pd : Nat × Bool) (neg : Bool) (b : Body)
    (hpd : pd.2 = false → pd.1 < 0x7ff0000000000000)
    (h : (if pd.2 = true then (Except.error Err.range : Except Err Body)
          else .ok (.float (if neg = true then pd.1 + 9223372036854775808 else pd.1))) = .ok b) :
    finB b = true := by
  split at h
  · cases h
  · rename_i hov
    simp only [Except.ok.injEq] at h; subst h
    have h1 := hpd (by simpa using hov)
    simp only [finB, floatNonFinite, Bool.not_eq_true', beq_eq_false_iff_ne, ne_eq]
    split <;> omega

theorem numTok_fin (text : Bytes) (b : Body) (h : numTok text = .ok b) : finB b = true := by
  unfold numTok at h
  simp only at h
  split at h
  · split at h
    · split at h
      · simp only [Except.ok.injEq] at h; subst h; rfl
      · cases h
    · split at h
      · simp only [Except.ok.injEq] at h; subst h; rfl
      · split at h
        · simp only [Except.ok.injEq] at h; subst h; rfl
        · cases h
  · generalize hpd : FloatText.parseDecimal _ _ = pd at h
    have hlt : pd.2 = false → pd.1 < 0x7ff0000000000000 := by
      rw [← hpd]; exact parseDecimal_lt _ _
    exact float_branch_fin pd (text.head? == some 45) b hlt h

theorem refScalar_fin (b : Nat) (r : Bytes) (body : Body) (r' : Bytes) (h : refScalar b r = some (body, r')) :
    finB body = true := by
  unfold refScalar at h
  split at h
  · cases hl : lexString (r.length + 1) .normal r [] with
    | none => rw [hl] at h; simp at h
    | some p =>
      obtain ⟨raw, r1⟩ := p
      rw [hl] at h
      simp only [Option.map_some, Option.some.injEq, Prod.mk.injEq] at h
      rw [← h.1]; rfl
  split at h
  · split at h
    · simp only [Option.some.injEq, Prod.mk.injEq] at h; rw [← h.1]; rfl
    · cases h
  split at h
  · split at h
    · simp only [Option.some.injEq, Prod.mk.injEq] at h; rw [← h.1]; rfl
    · cases h
  split at h
  · split at h
    · simp only [Option.some.injEq, Prod.mk.injEq] at h; rw [← h.1]; rfl
    · cases h
  split at h
  · simp only at h
    split at h
    · cases h
    · rename_i text r1 hl
      split at h
      · rename_i body' hnt
        simp only [Option.some.injEq, Prod.mk.injEq] at h
        rw [← h.1]
        exact numTok_fin _ _ hnt
      · cases h
  · cases h

def PVF (f : Nat) : Prop := ∀ (bs : Bytes) (v : TV) (r' : Bytes),
  parseValue f bs = some (v, r') → FinT v = true
def PEF (f : Nat) : Prop := ∀ (bs : Bytes) (sm : Bool) (vs : List TV) (r' : Bytes),
  parseElements f bs sm = some (vs, r') → FinTl vs = true
def PMF (f : Nat) : Prop := ∀ (bs : Bytes) (sm : Bool) (ms : List (TV × TV)) (r' : Bytes),
  parseMembers f bs sm = some (ms, r') → FinTe ms = true

theorem parse_fin_all (f : Nat) : PVF f ∧ PEF f ∧ PMF f := by
  induction f with
  | zero =>
    refine ⟨?_, ?_, ?_⟩
    · intro bs v r' h; simp [parseValue] at h
    · intro bs sm vs r' h; simp [parseElements] at h
    · intro bs sm ms r' h; simp [parseMembers] at h
  | succ f ih =>
    obtain ⟨ihV, ihE, ihM⟩ := ih
    refine ⟨?_, ?_, ?_⟩
    · intro bs v r' h
      rw [parseValue_succ] at h
      cases hs : skip bs with
      | nil => rw [hs] at h; simp at h
      | cons b r =>
        rw [hs] at h
        simp only at h
        split at h
        · cases hm : parseMembers f r false with
          | none => rw [hm] at h; simp at h
          | some p =>
            obtain ⟨ms, r1⟩ := p
            rw [hm] at h
            simp only [Option.map_some, Option.some.injEq, Prod.mk.injEq] at h
            have := ihM _ _ _ _ hm
            rw [← h.1]
            simpa [FinT] using this
        split at h
        · cases hm : parseElements f r false with
          | none => rw [hm] at h; simp at h
          | some p =>
            obtain ⟨vs, r1⟩ := p
            rw [hm] at h
            simp only [Option.map_some, Option.some.injEq, Prod.mk.injEq] at h
            have := ihE _ _ _ _ hm
            rw [← h.1]
            simpa [FinT] using this
        · cases hm : refScalar b r with
          | none => rw [hm] at h; simp at h
          | some p =>
            obtain ⟨body, r1⟩ := p
            rw [hm] at h
            simp only [Option.map_some, Option.some.injEq, Prod.mk.injEq] at h
            have := refScalar_fin _ _ _ _ hm
            rw [← h.1]
            simpa [FinT] using this
    · intro bs sm vs r' h
      rw [parseElements_succ] at h
      cases hs : skip bs with
      | nil => rw [hs] at h; simp at h
      | cons b r =>
        rw [hs] at h
        simp only at h
        split at h
        · simp only [Option.some.injEq, Prod.mk.injEq] at h
          rw [← h.1]; rfl
        cases he : es sm b r with
        | none => rw [he] at h; simp at h
        | some ks =>
          rw [he] at h
          cases ks with
          | nil => simp at h
          | cons b1 r1 =>
            simp only at h
            split at h
            · simp only [Option.some.injEq, Prod.mk.injEq] at h
              rw [← h.1]; rfl
            cases hv : parseValue f (b1 :: r1) with
            | none => rw [hv] at h; simp at h
            | some p =>
              obtain ⟨v, r2⟩ := p
              rw [hv] at h
              simp only at h
              have h1 := ihV _ _ _ hv
              cases hm : parseElements f r2 true with
              | none => rw [hm] at h; simp at h
              | some p =>
                obtain ⟨vs', r3⟩ := p
                rw [hm] at h
                simp only [Option.map_some, Option.some.injEq, Prod.mk.injEq] at h
                have h2 := ihE _ _ _ _ hm
                rw [← h.1]
                simp [FinTl, h1, h2]
    · intro bs sm ms r' h
      rw [parseMembers_succ] at h
      cases hs : skip bs with
      | nil => rw [hs] at h; simp at h
      | cons b r =>
        rw [hs] at h
        simp only at h
        split at h
        · simp only [Option.some.injEq, Prod.mk.injEq] at h
          rw [← h.1]; rfl
        cases he : es sm b r with
        | none => rw [he] at h; simp at h
        | some ks =>
          rw [he] at h
          cases ks with
          | nil => simp at h
          | cons b1 r1 =>
            simp only at h
            split at h
            · simp only [Option.some.injEq, Prod.mk.injEq] at h
              rw [← h.1]; rfl
            split at h
            · cases hl : lexString (r1.length + 1) .normal r1 [] with
              | none => rw [hl] at h; simp at h
              | some p =>
                obtain ⟨raw, r2⟩ := p
                rw [hl] at h
                simp only at h
                cases hs2 : skip r2 with
                | nil => rw [hs2] at h; simp at h
                | cons c r3 =>
                  rw [hs2] at h
                  simp only at h
                  split at h
                  · cases hv : parseValue f r3 with
                    | none => rw [hv] at h; simp at h
                    | some p =>
                      obtain ⟨v, r4⟩ := p
                      rw [hv] at h
                      simp only at h
                      have h1 := ihV _ _ _ hv
                      cases hm : parseMembers f r4 true with
                      | none => rw [hm] at h; simp at h
                      | some p =>
                        obtain ⟨ms', r5⟩ := p
                        rw [hm] at h
                        simp only [Option.map_some, Option.some.injEq, Prod.mk.injEq] at h
                        have h2 := ihM _ _ _ _ hm
                        rw [← h.1]
                        simp [FinTe, h1, h2]
                  · cases h
            · cases h

theorem parse_FinT (bs : Bytes) (v : TV) (rest : Bytes) (hp : Spec.Json.parse bs = some (v, rest)) :
    FinT v = true :=
  (parse_fin_all _).1 bs v rest hp

/-! ### JSON-read trees are in the JSON encoder's domain -/

theorem scalar_ok (t : Tok) (hj : jscalar t.body = true) (hf : finB t.body = true) : C03.jsonScalarOk t = true := by
  unfold C03.jsonScalarOk
  cases hb : t.body <;> rw [hb] at hj hf <;> simp [jscalar] at hj <;> simp [finB] at hf
  all_goals first
    | (simp [hj]; done)
    | (simpa using hj)
    | (simp only [Bool.and_eq_true, decide_eq_true_eq, Bool.not_eq_true']; exact ⟨hj, hf⟩)

mutual
  theorem jwfV : ∀ (v : TV), JT v = true → FinT v = true → C03.JWF v = true
    | .scalar t, hj, hf => by
      simp only [JT, Bool.and_eq_true] at hj
      simp only [C03.JWF]
      exact scalar_ok t hj.2 (by simpa [FinT] using hf)
    | .arr tag len items, hj, hf => by
      simp only [JT, Bool.and_eq_true] at hj
      simp only [C03.JWF]
      exact jwfL items hj.2 (by simpa [FinT] using hf)
    | .map tag len es, hj, hf => by
      simp only [JT, Bool.and_eq_true] at hj
      simp only [C03.JWF]
      exact jwfE es hj.2 (by simpa [FinT] using hf)
  theorem jwfL : ∀ (vs : List TV), JTl vs = true → FinTl vs = true → C03.JWFl vs = true
    | [], _, _ => rfl
    | v :: vs, hj, hf => by
      simp only [JTl, Bool.and_eq_true] at hj
      simp only [FinTl, Bool.and_eq_true] at hf
      simp only [C03.JWFl, Bool.and_eq_true]
      exact ⟨jwfV v hj.1 hf.1, jwfL vs hj.2 hf.2⟩
  theorem jwfE : ∀ (es : List (TV × TV)), JTe es = true → FinTe es = true → C03.JWFe es = true
    | [], _, _ => rfl
    | (k, v) :: es, hj, hf => by
      simp only [JTe, Bool.and_eq_true] at hj
      obtain ⟨⟨hk, hv⟩, hes⟩ := hj
      simp only [FinTe, Bool.and_eq_true] at hf
      simp only [C03.JWFe, Bool.and_eq_true]
      refine ⟨⟨?_, jwfV v hv hf.1⟩, jwfE es hes hf.2⟩
      cases k with
      | scalar t =>
        simp only [Bool.and_eq_true] at hk
        cases hb : t.body <;> rw [hb] at hk <;> simp at hk
        simp only [hb]
        simpa using hk.2
      | arr _ _ _ => simp at hk
      | map _ _ _ => simp at hk
end

theorem parse_JWF (bs : Bytes) (v : TV) (rest : Bytes) (hb : ∀ x ∈ bs, x < 256)
    (hp : Spec.Json.parse bs = some (v, rest)) : C03.JWF v = true :=
  jwfV v (parse_JT bs v rest hb hp) (parse_FinT bs v rest hp)

theorem parse_JWF16 (bs : Bytes) (v : TV) (rest : Bytes) (hb : ∀ x ∈ bs, x < 256)
    (hp : Spec.Json.parse bs = some (v, rest)) : C16.JWF v = true := by
  rw [CborLeaves.jwf_eqV]; exact parse_JWF bs v rest hb hp

end Refmt.JsonFinite
