/-
  Stateful object unmarshaller: the keyed union machine  ~  `unmBare … (.union ms)`.
  Its own phases (map open, key, map close) are stepped here; in the delegate phase it is a link of the chain `Wr`
  (`unionS` / `unionX`) above the member's machine, which lives in `slab.tip()` (a row the union machine re-configures).
-/
import RefmtProofs.Lemmas.UnmarshalMachUnionComm
set_option linter.unusedSimpArgs false
set_option linter.unusedVariables false
namespace Refmt.UMachU
open Refmt Refmt.Obj Refmt.Obj.UM Refmt.UMachL

variable {ts : Types} {a : Atlas} {trs : Trs} {it : IfaceTys}

/-- `Reset` of the union machine -/
def unReset (v : Val) (rt : Nat) (u : UnionM) : UnionM := { u with target_rv := v, target_rt := rt, phase := .acceptMapOpen }
/-- the key was accepted: the delegate is recorded -/
def unDel (tmp : Val) (ty : Nat) (dl : URef) (u : UnionM) : UnionM :=
  { u with tmp_rv := tmp, tmp_rt := ty, delegate := some dl, phase := .delegate }

theorem union_reset {f : Nat} {lo hi : List URow} {row : URow} {rt : Nat} {v : Val} :
    resetM ts a (f+1) ⟨lo.length, .union⟩ rt v (lo ++ row :: hi) = .ok (lo ++ uw (unReset v rt) row :: hi) := by
  simp only [resetM, resetBody, getRow, resetUnion, updRow_at]
  rfl

theorem union_step_open {f : Nat} {lo hi : List URow} {row : URow} {stk st be} {t : Tok}
    (hph : row.union.phase = .acceptMapOpen) :
    stepM ts a trs it (f+1) ⟨lo.length, .union⟩ ⟨lo ++ row :: hi, stk, st, be⟩ t
      = match t.body with
        | .mapOpen len =>
          if len != -1 && len != 1 then .error (.f .err)
          else .ok ⟨none, ⟨lo ++ uw (fun u => { u with phase := .acceptKey }) row :: hi, stk, st, be⟩⟩
        | _ => .error (.f .err) := by
  simp only [stepM, stepBody, getRow, stepUnion, hph]
  cases t.body with
  | mapOpen len =>
    simp only []
    split
    · rfl
    · simp only [cont, upd_at]; rfl
  | _ => rfl

theorem union_step_close {f : Nat} {lo hi : List URow} {row : URow} {stk st be} {t : Tok}
    (hph : row.union.phase = .acceptMapClose) :
    stepM ts a trs it (f+1) ⟨lo.length, .union⟩ ⟨lo ++ row :: hi, stk, st, be⟩ t
      = match t.body with
        | .mapClose => .ok ⟨some (.iface (some (row.union.tmp_rt, row.union.tmp_rv))), ⟨lo ++ row :: hi, stk, st, be⟩⟩
        | _ => .error (.f .err) := by
  simp only [stepM, stepBody, getRow, stepUnion, hph]
  cases t.body <;> rfl

/-- the member lookup of both models -/
def findM (ms : List (Bytes × Nat)) (name : Bytes) : Option (Bytes × Nat) := ms.find? fun m => m.1 == name

theorem findM_eq (ms : List (Bytes × Nat)) (name : Bytes) :
    (ms.find? fun (nm, _) => nm == name) = findM ms name := by
  unfold findM; congr 1

theorem union_step_key_bad {f : Nat} {lo hi : List URow} {row : URow} {stk st be} {t : Tok}
    (hph : row.union.phase = .acceptKey)
    (hbad : (∀ name, t.body ≠ .str name) ∨ (∃ name, t.body = .str name ∧ findM row.union.members name = none)) :
    stepM ts a trs it (f+1) ⟨lo.length, .union⟩ ⟨lo ++ row :: hi, stk, st, be⟩ t = .error (.f .err) := by
  simp only [stepM, stepBody, getRow, stepUnion, hph]
  rcases hbad with h | ⟨name, h1, h2⟩
  · cases hb : t.body with
    | str name => exact absurd hb (h name)
    | _ => rfl
  · rw [h1]; simp only [findM_eq, h2]; rfl

theorem union_step_key_nopool {f : Nat} {lo hi : List URow} {row : URow} {stk st be} {t : Tok} {name nm : Bytes} {idx : Nat}
    (hph : row.union.phase = .acceptKey) (ht : t.body = .str name)
    (hfind : findM row.union.members name = some (nm, idx)) (hpool : a.pool[idx]? = none) :
    stepM ts a trs it (f+1) ⟨lo.length, .union⟩ ⟨lo ++ row :: hi, stk, st, be⟩ t = .error (.f .panic) := by
  simp only [stepM, stepBody, getRow, stepUnion, hph, ht, findM_eq, hfind, hpool]
  rfl

theorem union_step_key {f : Nat} {lo hi : List URow} {row : URow} {stk st be} {t : Tok} {name nm : Bytes} {idx : Nat}
    {me : Entry} {trow trow' : URow} {k : MK} {R2 : List URow}
    (hph : row.union.phase = .acceptKey) (ht : t.body = .str name)
    (hfind : findM row.union.members name = some (nm, idx)) (hpool : a.pool[idx]? = some me)
    (htip : (lo ++ row :: hi)[tipIx (lo ++ row :: hi)]? = some trow)
    (hcfg : cfgU ts a f trow me.ty (umachForEntry ts me) = .ok (trow', k))
    (hres : resetM ts a f ⟨tipIx (lo ++ row :: hi), k⟩ me.ty (zeroVal ts 64 me.ty)
      ((lo ++ row :: hi).set (tipIx (lo ++ row :: hi)) trow') = .ok R2) :
    stepM ts a trs it (f+1) ⟨lo.length, .union⟩ ⟨lo ++ row :: hi, stk, st, be⟩ t
      = .ok ⟨none, ⟨updRow R2 lo.length (uw (unDel (zeroVal ts 64 me.ty) me.ty ⟨tipIx (lo ++ row :: hi), k⟩)),
          stk, st, be⟩⟩ := by
  simp only [stepM, stepBody, getRow, stepUnion, hph, ht, findM_eq, hfind, hpool, htip, hcfg, hres, cont]
  rfl

/-- the simulation statements for the containers at one level of the functional fuel -/
def SimL (S : List Nat) (wi : Option Nat) (m : Nat) : Prop :=
  SimE ts a trs it S m ∧ SimAr ts a trs it S m ∧ SimM ts a trs it S m ∧ SimSt ts a trs it S wi m

theorem okSub_leaf {S : List Nat} {wi : Option Nat} {M : UMach} (h : okSub ts a S wi M) :
    isLeaf M ∧ okMach ts a S wi M := by
  cases M <;> first | exact h.elim | exact ⟨trivial, h⟩ | exact ⟨trivial, h.1⟩

/-- the member's machine `⟨L.length, k⟩` in the tip row `T`, below a chain that `up` builds above it, Reset and run:
    against the functional model's member value -/
theorem simDelegate {S : List Nat} {wi : Option Nat} {n : Nat} (hS : Closed ts a S wi)
    (hAll : ∀ m, m < n → SimL (ts := ts) (a := a) (trs := trs) (it := it) S wi m)
    {ty : Nat} {M : UMach} (hokm : okMember ts a S wi M) (hmap : ∀ kt e, M = .map kt e → ts.get ty = .map kt e)
    (L : List URow) (T : URow) (stk : List URef) (be : Option XFail) (c : URef) (un : Option Nat) (w0 : Val → Val)
    (du : Nat) (k : MK) (hcfg : CfgBare ts a T ty k M)
    (hup : ∀ T' : URow, T'.ptr = T.ptr → T'.union = T.union → T'.wild = T.wild → ∀ {kk F w dd},
      Wr trs.u ⟨L.length, k⟩ L T' kk F w dd none → Wr trs.u c L T' kk F (w0 ∘ w) (dd + du) un)
    (hdu : du ≤ 2) (cur : Val) (toks : List Tok) (fr sf1 sf : Nat) (hfr : 7 ≤ fr) (hsf1 : 10 ≤ sf1) (hsf : 17 ≤ sf) :
    Agree ts a trs it none un c sf be stk L T some w0
      (rtpB ts a trs it fr sf1 sf (L ++ T :: []) stk be c ⟨L.length, k⟩ ty cur toks)
      (unmBare ts a trs it n ty M cur toks) := by
  cases n with
  | zero => simp [unmBare, Agree]
  | succ m =>
  obtain ⟨hE, hAr, hMp, hSt⟩ := hAll m (Nat.lt_succ_self m)
  cases M with
  | structMap fs =>
    obtain ⟨rfl, hfl⟩ := hcfg
    exact simB_struct hSt hokm cur L T [] stk be c some (w0 ∘ _root_.id) (0 + du) toks fr sf1 sf hfl
      (hup T rfl rfl rfl (Wr.refl L T .struct)) (by omega) (by omega) hsf1 hsf
  | map kt e =>
    obtain rfl : k = .map := hcfg
    exact simB_map hS hMp (hmap kt e rfl) hokm.1 cur L T [] stk be c some (w0 ∘ _root_.id) (0 + du) toks fr sf1 sf
      (hup T rfl rfl rfl (Wr.refl L T .map)) (by omega) (by omega) hsf1 hsf
  | transform fn uty =>
    obtain ⟨rfl, hfn, hrt, k', hdl, hcl⟩ := hcfg
    obtain ⟨hlf, hokM⟩ := okSub_leaf hokm.2
    cases toks with
    | nil => simp [rtpB, unmBare, Agree]
    | cons t rest =>
    obtain ⟨f, rfl⟩ : ∃ f, fr = f + 1 := ⟨fr - 1, by omega⟩
    rw [unmBare_transform]
    cases m with
    | zero => simp [unmBare, trF, Agree]
    | succ m' =>
    obtain ⟨hE', hAr', hMp', hSt'⟩ := hAll m' (by omega)
    have hrr : rtpB ts a trs it (f + 1) sf1 sf (L ++ T :: []) stk be c ⟨L.length, .transform⟩ ty cur (t :: rest)
        = rtpB ts a trs it f sf1 sf (L ++ rowTr T (trReset ts T.transform cur) :: []) stk be c ⟨L.length, k'⟩
            uty (zeroVal ts 64 uty) (t :: rest) := by
      simp only [rtpB, transform_reset hdl, hrt]
    rw [hrr]
    have hw := hup (rowTr T (trReset ts T.transform cur)) rfl rfl rfl
      (Wr.trS (U := trs.u) L (rowTr T (trReset ts T.transform cur)) (k := k') hdl)
    rw [show (rowTr T (trReset ts T.transform cur)).transform.trFunc = fn from hfn] at hw
    have hA := simLeaf hS hE' hAr' hMp' hSt' uty hokM hlf (zeroVal ts 64 uty) L
      (rowTr T (trReset ts T.transform cur)) [] stk be c k' (trs.u fn) (w0 ∘ _root_.id) (1 + du) (t :: rest)
      f sf1 sf (hcl.same ⟨rfl, rfl, rfl, rfl, rfl, rfl, rfl, rfl, rfl, rfl, rfl, rfl⟩) hw (by omega) (by omega) hsf1 hsf
    exact hA.toTr.same ⟨rfl, rfl, rfl, rfl, rfl, rfl, rfl, rfl, rfl, rfl, rfl, rfl⟩
  | _ => exact hokm.elim

/-- the `Reset` of a covered member's machine in the tip row succeeds (`clash_union_reset` is excluded) -/
theorem memberResetOk {S : List Nat} {wi : Option Nat} {f : Nat} (hS : Closed ts a S wi) {ty : Nat} {M : UMach}
    (hokm : okMember ts a S wi M) (hmap : ∀ kt e, M = .map kt e → ts.get ty = .map kt e)
    (L : List URow) (T : URow) (k : MK) (hcfg : CfgBare ts a T ty k M) (v : Val) :
    ∃ R2, resetM ts a (f+7) ⟨L.length, k⟩ ty v (L ++ T :: []) = .ok R2 := by
  cases M with
  | structMap fs =>
    obtain ⟨rfl, _⟩ := hcfg
    exact ⟨_, struct_reset⟩
  | map kt e =>
    obtain rfl : k = .map := hcfg
    obtain ⟨crow, ck, hreq, _⟩ := requisition_cov (f := f + 2) (R := L ++ T :: []) hS hokm.1
    obtain ⟨kf, hkf⟩ := Option.isSome_iff_exists.mp hokm.2
    exact ⟨_, map_reset_ok (hmap kt e rfl) hkf hreq⟩
  | transform fn uty =>
    obtain ⟨rfl, hfn, hrt, k', hdl, hcl⟩ := hcfg
    rw [transform_reset hdl, hrt]
    have hs := hokm.2
    revert hs hcl
    cases hM' : upickBare ts a uty with
    | structMap fs' =>
      intro hcl hs
      obtain ⟨rfl, _⟩ := hcl
      exact ⟨_, struct_reset⟩
    | slice e =>
      intro hcl hs
      obtain rfl : k' = .slice := hcl
      obtain ⟨crow, ck, hreq, _⟩ := requisition_cov (f := f + 1) (R := L ++ rowTr T (trReset ts T.transform v) :: []) hS hs
      exact ⟨_, slice_reset (upick_slice hM') hreq⟩
    | array nn e =>
      intro hcl hs
      obtain rfl : k' = .array := hcl
      obtain ⟨crow, ck, hreq, _⟩ := requisition_cov (f := f + 1) (R := L ++ rowTr T (trReset ts T.transform v) :: []) hS hs
      exact ⟨_, array_reset (upick_array hM') hreq⟩
    | map kt e =>
      intro hcl hs
      obtain rfl : k' = .map := hcl
      obtain ⟨crow, ck, hreq, _⟩ := requisition_cov (f := f + 1) (R := L ++ rowTr T (trReset ts T.transform v) :: []) hS hs.1
      obtain ⟨kf, hkf⟩ := Option.isSome_iff_exists.mp hs.2
      exact ⟨_, map_reset_ok (upick_map hM') hkf hreq⟩
    | _ => intro hcl hs; exact hs.elim
  | _ => exact hokm.elim

/-- the chain from the driver's machine down to the union machine, above a delegate in the union machine's own row -/
theorem upS {c : URef} {lo : List URow} {row : URow} {w : Val → Val} {d : Nat} (hwp : WrP c lo row .union w d)
    (T' : URow) (hp : T'.ptr = row.ptr) {k : MK} (hph : T'.union.phase = .delegate)
    (hdl : T'.union.delegate = some ⟨lo.length, k⟩) {kk F w' dd}
    (h : Wr trs.u ⟨lo.length, k⟩ lo T' kk F w' dd none) :
    Wr trs.u c lo T' kk F w' (dd + (1 + d)) (some lo.length) := by
  cases hwp with
  | refl => exact Wr.unionS hph hdl h
  | ptrS hm hf =>
    exact Wr.ptrUS (by rw [hp]; exact hm) (by rw [hp]; exact hf) (Wr.unionS hph hdl h)

/-- the same, the delegate living in a row further up -/
theorem upX {c : URef} {lo : List URow} {row : URow} {w : Val → Val} {d : Nat} (hwp : WrP c lo row .union w d)
    (ru : URow) (hp : ru.ptr = row.ptr) (mid : List URow) {k : MK} (hph : ru.union.phase = .delegate)
    (hdl : ru.union.delegate = some ⟨(lo ++ ru :: mid).length, k⟩) (T' : URow) {kk F w' dd}
    (h : Wr trs.u ⟨(lo ++ ru :: mid).length, k⟩ (lo ++ ru :: mid) T' kk F w' dd none) :
    Wr trs.u c (lo ++ ru :: mid) T' kk F w' (dd + (1 + d)) (some lo.length) := by
  cases hwp with
  | refl => exact Wr.unionX (i := lo.length) (r0 := ru) (by simp) hph hdl h
  | ptrS hm hf =>
    exact Wr.ptrUX (i := lo.length) (r0 := ru) (by simp) (by rw [hp]; exact hm) (by rw [hp]; exact hf)
      (Wr.unionX (i := lo.length) (r0 := ru) (by simp) hph hdl h)

/-- a chain through a union machine never reports done -/
theorem Wr.nd {c lo row mk F w d i} (h : Wr trs.u c lo row mk F w d (some i)) (hi : List URow) (stk st be) (t : Tok)
    (f : Nat) : ∀ res, stepM ts a trs it (f+d) c ⟨lo ++ row :: hi, stk, st, be⟩ t = .ok res → res.done = none := by
  intro res hres
  rw [h.step] at hres
  generalize mapDone w (mapDoneO F (stepM ts a trs it f ⟨lo.length, mk⟩ ⟨lo ++ row :: hi, stk, st, be⟩ t)) = y at hres
  cases y with
  | error e => cases hres
  | ok r => cases r with | mk dn s' => cases dn <;> (simp only [finU] at hres; cases hres; rfl)

theorem pump_eq_pump1 {sf : Nat} {s : UState} {t : Tok} {rest : List Tok}
    (h : ∀ res, ustep ts a trs it sf s t = .ok res → res.done = none) :
    pump ts a trs it sf s (t :: rest) = pump1 ts a trs it sf sf s (t :: rest) := by
  simp only [pump, pump1]
  cases hu : ustep ts a trs it sf s t with
  | error x => rfl
  | ok res => simp only [h res hu]

theorem ustep_nd {f : Nat} {R stk c be} {t : Tok}
    (h : ∀ res, stepM ts a trs it f c ⟨R, stk, some c, be⟩ t = .ok res → res.done = none) :
    ∀ res, ustep ts a trs it (f+1) ⟨R, stk, some c, be⟩ t = .ok res → res.done = none := by
  intro res hres
  simp only [ustep, ustepBody] at hres
  cases hs : stepM ts a trs it f c ⟨R, stk, some c, be⟩ t with
  | error x => rw [hs] at hres; cases hres
  | ok r =>
    rw [hs] at hres
    have hd := h r hs
    simp only [hd] at hres
    injection hres with hres
    rw [← hres]; exact hd

/-- rows `lo ++ row :: hi` seen from the tip -/
theorem tip_split (lo : List URow) (row : URow) (hi : List URow) :
    (hi = []) ∨ (∃ mid T, hi = mid ++ [T]) := by
  by_cases h : hi = []
  · exact Or.inl h
  · obtain ⟨mid, T, hT⟩ := snoc_of_ne_nil hi h
    exact Or.inr ⟨mid, T, hT⟩

/-- what the functional model makes of the member's result: the closing token -/
def unionTail (ty : Nat) : URes → URes
  | .ok v r u =>
    (match r with
     | [] => .more (u + 2)
     | c :: r' =>
       (match c.body with
        | .mapClose => .ok (.iface (some (ty, v))) r' (u + 3)
        | _ => .err (u + 2)))
  | x => x.shift 2

theorem unmBare_union_member {S : List Nat} {wi : Option Nat} {n base : Nat} {ms : List (Bytes × Nat)} {cur : Val}
    {t k : Tok} {rest2 : List Tok} {len : Int} {name nm : Bytes} {idx : Nat} {me : Entry}
    (hb : t.body = .mapOpen len) (hlen : (len != -1 && len != 1) = false) (hk : k.body = .str name)
    (hfind : findM ms name = some (nm, idx)) (hpool : a.pool[idx]? = some me)
    (hM : okMember ts a S wi (umachForEntry ts me)) :
    unmBare ts a trs it (n+1) base (.union ms) cur (t :: k :: rest2)
      = unionTail me.ty (unmBare ts a trs it n me.ty (umachForEntry ts me) (zeroVal ts 64 me.ty) rest2) := by
  rw [unmBare.eq_def]
  simp only [hb, hlen, hk, findM_eq, hfind, hpool, Bool.false_eq_true, if_false]
  revert hM
  cases umachForEntry ts me <;> intro hM <;> first | exact hM.elim | rfl

theorem Agree.shiftK {b b' un c sf be stk lo row row2 F w x r} (k : Nat)
    (h : Agree ts a trs it b un c sf be stk lo row2 F w x r)
    (hk : ∀ r', Keep b row2 r' → Keep b' row r') :
    Agree ts a trs it b' un c sf be stk lo row F w (x.shift k) (r.shift k) := by
  cases r with
  | ok v rest u =>
    obtain ⟨h3, h'⟩ := h
    refine ⟨by omega, ?_⟩
    cases hF : F v with
    | none =>
      rw [hF] at h'
      simp only [] at h' ⊢
      rw [h']; simp [URes.shift]; omega
    | some v' =>
      rw [hF] at h'
      obtain ⟨row', hi', fa, h1, h2, h4⟩ := h'
      refine ⟨row', hi', fa, hk _ h1, h2, ?_⟩
      rw [h4, shift_shift]
      congr 1; omega
  | more u => simp only [Agree] at h; simp [Agree, h, URes.shift]
  | err u => simp only [Agree] at h; simp [Agree, h, URes.shift]
  | panic u => simp [Agree, URes.shift]

theorem WrP.congr3 {c lo row row' mk w d} (h : WrP c lo row mk w d) (h1 : row'.ptr.mach = row.ptr.mach)
    (h2 : row'.ptr.firstStep = row.ptr.firstStep) (h3 : row'.ptr.peelCount = row.ptr.peelCount) :
    WrP c lo row' mk w d := by
  cases h with
  | refl => exact .refl _ _ _
  | ptrS hm hf =>
    have := WrP.ptrS (lo := lo) (row := row') (by rw [h1]; exact hm) (by rw [h2]; exact hf)
    rw [h3] at this; exact this

/-- what is known of the union machine's row after its delegate completed with `v` -/
def Closing (row rowF : URow) (v : Val) (ty : Nat) : Prop :=
  rowF.ptr.mach = row.ptr.mach ∧ rowF.ptr.peelCount = row.ptr.peelCount ∧ rowF.ptr.firstStep = row.ptr.firstStep ∧
  rowF.union.members = row.union.members ∧ rowF.union.phase = .acceptMapClose ∧ rowF.union.tmp_rv = v ∧
  rowF.union.tmp_rt = ty

/-- after the key: the member's machine (Reset, run) below the union machine, then the closing token -/
theorem union_after_key {S : List Nat} {wi : Option Nat} {n : Nat} (hS : Closed ts a S wi)
    (hAll : ∀ m, m < n → SimL (ts := ts) (a := a) (trs := trs) (it := it) S wi m)
    {ty : Nat} {M : UMach} (hokm : okMember ts a S wi M) (hmap : ∀ kt e, M = .map kt e → ts.get ty = .map kt e)
    {c : URef} {lo : List URow} {row : URow} {w : Val → Val} {d : Nat} (hwp : WrP c lo row .union w d)
    (Lp : List URow) (Tp : URow) (k : MK) (stk : List URef) (be : Option XFail)
    (hcfg : CfgBare ts a Tp ty k M)
    (hup : ∀ T' : URow, T'.ptr = Tp.ptr → T'.union = Tp.union → ∀ {kk F w' dd},
      Wr trs.u ⟨Lp.length, k⟩ Lp T' kk F w' dd none → Wr trs.u c Lp T' kk F w' (dd + (1 + d)) (some lo.length))
    (hfin : ∀ (T3 : URow) (hi3 : List URow) (v : Val), SameCfg Tp T3 →
      ∃ rowF hiF, updRow (Lp ++ T3 :: hi3) lo.length (closeU v) = lo ++ rowF :: hiF ∧ Closing row rowF v ty)
    {N : Nat} (hN : Lp.length = N)
    (cur : Val) (toks : List Tok) (fr sf : Nat) (hfr : 8 ≤ fr) (hsf : 17 ≤ sf) :
    Agree ts a trs it (some true) none c sf be stk lo row some w
      ((rtpB ts a trs it fr sf sf (Lp ++ Tp :: []) stk be c ⟨N, k⟩ ty cur toks).shift 2)
      (unionTail ty (unmBare ts a trs it n ty M cur toks)) := by
  subst hN
  have hd := hwp.le
  have hA := simDelegate (trs := trs) (it := it) hS hAll hokm hmap Lp Tp stk be c (some lo.length) _root_.id (1 + d) k hcfg
    (fun T' hp hu _ => hup T' hp hu) (by omega)
    cur toks fr sf sf (by omega) (by omega) hsf
  revert hA
  generalize rtpB ts a trs it fr sf sf (Lp ++ Tp :: []) stk be c ⟨Lp.length, k⟩ ty cur toks = x
  generalize unmBare ts a trs it n ty M cur toks = r
  intro hA
  cases r with
  | panic u => simp [unionTail, URes.shift, Agree]
  | more u => simp only [Agree] at hA; simp [unionTail, URes.shift, Agree, hA]
  | err u => simp only [Agree] at hA; simp [unionTail, URes.shift, Agree, hA]
  | ok v r' u =>
    obtain ⟨hu, T3, hi3, fa, hs3, hfa, hx⟩ := hA
    obtain ⟨rowF, hiF, hR, hm, hpc, hfs, hmem, hph, htv, htt⟩ := hfin T3 hi3 v hs3
    simp only [kontU, _root_.id, hR] at hx
    have hwF : WrP c lo rowF .union w d := hwp.congr3 hm hfs hpc
    have hsw : ∀ r', Keep none rowF r' → Keep (some true) row r' := by
      intro r' hk
      have hk' : SameCfg rowF r' := hk
      exact SameCfgW.trans ⟨hm, hpc, hmem⟩ hk'.weak
    cases r' with
    | nil =>
      simp only [unionTail]
      rw [hx]
      simp [pump, URes.shift, Agree]; omega
    | cons cl r'' =>
      obtain ⟨g, rfl⟩ : ∃ g, sf = g + 1 + d + 1 := ⟨sf - d - 2, by omega⟩
      have hst := union_step_close (ts := ts) (a := a) (trs := trs) (it := it) (f := g) (lo := lo) (hi := hiF)
        (stk := stk) (st := some c) (be := be) (t := cl) hph
      by_cases hc : cl.body = .mapClose
      · simp only [hc] at hst
        have hfinA := Agree.fin (rest := r'') hwF.toWr hst (SameCfg.refl rowF) (by omega)
        have h2 := hfinA.shiftK (b' := some true) (row := row) (u + 2) hsw
        simp only [unionTail, hc]
        rw [hx, shift_shift, shift_shift, show 1 + (u - 1 + 2) = u + 2 by omega]
        rw [htv, htt] at h2
        have e : (URes.ok (Val.iface (some (ty, v))) r'' 1).shift (u + 2) = .ok (Val.iface (some (ty, v))) r'' (u + 3) := by
          simp only [URes.shift]; congr 1; omega
        rw [e] at h2; exact h2
      · have herr : stepM ts a trs it (g + 1) ⟨lo.length, .union⟩ ⟨lo ++ rowF :: hiF, stk, some c, be⟩ cl
            = .error (.f .err) := by
          rw [hst]; split
          · rename_i hb; exact absurd hb hc
          · rfl
        have hpass := (hwF.toWr (U := trs.u)).pass (trs := trs) herr (Or.inl ⟨_, rfl⟩)
        simp only [unionTail]
        rw [hx, pump_err hpass]
        simp [XFail.toURes, URes.shift, Agree]; omega

/-- the pump after the delegate's `Reset` (done at the key token) is the Reset-then-pump of the leaf lemmas -/
theorem pump_as_rtpB {g sf : Nat} {Rpre Rpost : List URow} {stk be} {c dl : URef} {ty : Nat} {cur : Val}
    (hres : resetM ts a g dl ty cur Rpre = .ok Rpost)
    (hnd : ∀ t, ∀ res, ustep ts a trs it sf ⟨Rpost, stk, some c, be⟩ t = .ok res → res.done = none)
    (toks : List Tok) :
    pump ts a trs it sf ⟨Rpost, stk, some c, be⟩ toks = rtpB ts a trs it g sf sf Rpre stk be c dl ty cur toks := by
  cases toks with
  | nil => rfl
  | cons t rest =>
    simp only [rtpB, hres]
    exact pump_eq_pump1 (hnd t)

/-- the key token and what follows, the tip row being the union machine's own -/
theorem union_key_S {S : List Nat} {wi : Option Nat} {n : Nat} (hS : Closed ts a S wi)
    (hAll : ∀ m, m < n → SimL (ts := ts) (a := a) (trs := trs) (it := it) S wi m)
    {me : Entry} (hokm : okMember ts a S wi (umachForEntry ts me))
    {c : URef} {lo : List URow} {row2 : URow} {w : Val → Val} {d : Nat} (hwp : WrP c lo row2 .union w d)
    (hph : row2.union.phase = .acceptKey) (stk : List URef) (be : Option XFail) (kt : Tok) (rest2 : List Tok)
    {name nm : Bytes} {idx : Nat} (hk : kt.body = .str name)
    (hfind : findM row2.union.members name = some (nm, idx)) (hpool : a.pool[idx]? = some me)
    (sf : Nat) (hsf : 17 ≤ sf) :
    Agree ts a trs it (some true) none c sf be stk lo row2 some w
      ((pump ts a trs it sf ⟨lo ++ row2 :: [], stk, some c, be⟩ (kt :: rest2)).shift 1)
      (unionTail me.ty (unmBare ts a trs it n me.ty (umachForEntry ts me) (zeroVal ts 64 me.ty) rest2)) := by
  have hd := hwp.le
  obtain ⟨g, rfl⟩ : ∃ g, sf = g + 7 + 1 + d + 1 := ⟨sf - d - 9, by omega⟩
  obtain ⟨T', k, hcfgU, hTp, hTu, hcfg, hku, hkp, hktr, _⟩ := cfgMember (f := g + 4) row2 me.ty hokm
  obtain ⟨R2, hres⟩ := memberResetOk (f := g) hS hokm (fun kt e h => umachForEntry_map h) lo T' k hcfg (zeroVal ts 64 me.ty)
  have htipix : tipIx (lo ++ row2 :: []) = lo.length := by simp [tipIx]
  have hstep := union_step_key (ts := ts) (a := a) (trs := trs) (it := it) (f := g + 7) (lo := lo) (hi := [])
    (row := row2) (stk := stk) (st := some c) (be := be) (t := kt) (trow := row2) (trow' := T') (k := k) (R2 := R2)
    hph hk hfind hpool (by rw [htipix]; simp) hcfgU (by rw [htipix]; simpa using hres)
  rw [htipix] at hstep
  have hpass := (hwp.toWr (U := trs.u)).pass (trs := trs) hstep (Or.inr ⟨_, rfl⟩)
  rw [pump_cont hpass, shift_shift]
  -- the rows before the delegate's Reset, the union fields already written
  have hpre : updRow (lo ++ T' :: []) lo.length (uw (unDel (zeroVal ts 64 me.ty) me.ty ⟨lo.length, k⟩))
      = lo ++ uw (unDel (zeroVal ts 64 me.ty) me.ty ⟨lo.length, k⟩) T' :: [] := updRow_at _ _ _ _
  have hres' := reset_uw (ts := ts) (a := a) (unDel (zeroVal ts 64 me.ty) me.ty ⟨lo.length, k⟩) lo.length (g + 7)
    ⟨lo.length, k⟩ me.ty (zeroVal ts 64 me.ty) (lo ++ T' :: []) (by simp) hku
    (by intro hkt r hr; rw [getRow] at hr; cases hr; exact hktr hkt)
  rw [hres, hpre] at hres'
  -- the rows after it
  obtain ⟨T3, hi3, hR2, hp3⟩ := cfg_frame hcfg (g + 7) me.ty (zeroVal ts 64 me.ty) T' [] R2 rfl hres
  have hnd : ∀ t, ∀ res, ustep ts a trs it (g + 7 + 1 + d + 1)
      ⟨updRow R2 lo.length (uw (unDel (zeroVal ts 64 me.ty) me.ty ⟨lo.length, k⟩)), stk, some c, be⟩ t = .ok res →
      res.done = none := by
    intro t
    rw [hR2, updRow_at]
    have hch := upS (trs := trs) hwp (uw (unDel (zeroVal ts 64 me.ty) me.ty ⟨lo.length, k⟩) T3)
      (by show T3.ptr = row2.ptr; rw [hp3, hTp]) (k := k) rfl rfl (Wr.refl lo _ k)
    have hnd1 := hch.nd (ts := ts) (a := a) (it := it) hi3 stk (some c) be t (g + 7)
    rw [show g + 7 + (0 + (1 + d)) = g + 7 + 1 + d by omega] at hnd1
    exact ustep_nd hnd1
  rw [pump_as_rtpB hres' hnd]
  refine union_after_key hS hAll hokm (fun kt e h => umachForEntry_map h) hwp lo
    (uw (unDel (zeroVal ts 64 me.ty) me.ty ⟨lo.length, k⟩) T') k stk be
    (hcfg.sameC ⟨rfl, rfl, rfl, rfl, rfl, rfl, rfl, rfl, rfl, rfl⟩) ?_ ?_ rfl _ rest2 (g + 7) _ (by omega) hsf
  · intro T'' hp hu kk F w' dd h
    exact upS hwp T'' (by rw [hp]; exact hTp) (by rw [hu]; rfl) (by rw [hu]; rfl) h
  · intro T4 hi4 v hs4
    refine ⟨closeU v T4, hi4, updRow_at _ _ _ _, ?_⟩
    obtain ⟨a0, a1, a2, a3, a4, a5, a6, a7, a8, a9, a10, a11⟩ := hs4
    refine ⟨?_, ?_, ?_, ?_, rfl, rfl, ?_⟩
    · show T4.ptr.mach = _; rw [a0]; show T'.ptr.mach = _; rw [hTp]
    · show T4.ptr.peelCount = _; rw [a1]; show T'.ptr.peelCount = _; rw [hTp]
    · show T4.ptr.firstStep = _; rw [a11]; show T'.ptr.firstStep = _; rw [hTp]
    · show T4.union.members = _; rw [a9]; show T'.union.members = _; rw [hTu]
    · show T4.union.tmp_rt = _; rw [a10]; rfl

/-- the key token and what follows, the tip row being a row further up -/
theorem union_key_X {S : List Nat} {wi : Option Nat} {n : Nat} (hS : Closed ts a S wi)
    (hAll : ∀ m, m < n → SimL (ts := ts) (a := a) (trs := trs) (it := it) S wi m)
    {me : Entry} (hokm : okMember ts a S wi (umachForEntry ts me))
    {c : URef} {lo : List URow} {row2 : URow} {w : Val → Val} {d : Nat} (hwp : WrP c lo row2 .union w d)
    (hph : row2.union.phase = .acceptKey) (mid : List URow) (T : URow) (stk : List URef) (be : Option XFail) (kt : Tok)
    (rest2 : List Tok) {name nm : Bytes} {idx : Nat} (hk : kt.body = .str name)
    (hfind : findM row2.union.members name = some (nm, idx)) (hpool : a.pool[idx]? = some me)
    (sf : Nat) (hsf : 17 ≤ sf) :
    Agree ts a trs it (some true) none c sf be stk lo row2 some w
      ((pump ts a trs it sf ⟨lo ++ row2 :: (mid ++ [T]), stk, some c, be⟩ (kt :: rest2)).shift 1)
      (unionTail me.ty (unmBare ts a trs it n me.ty (umachForEntry ts me) (zeroVal ts 64 me.ty) rest2)) := by
  have hd := hwp.le
  obtain ⟨g, rfl⟩ : ∃ g, sf = g + 7 + 1 + d + 1 := ⟨sf - d - 9, by omega⟩
  obtain ⟨T', k, hcfgU, hTp, hTu, hcfg, hku, hkp, hktr, _⟩ := cfgMember (f := g + 4) T me.ty hokm
  generalize hN : lo.length + 1 + mid.length = N
  have hLlen : (lo ++ row2 :: mid).length = N := by simp; omega
  obtain ⟨R2, hres⟩ := memberResetOk (f := g) hS hokm (fun kt e h => umachForEntry_map h) (lo ++ row2 :: mid) T' k hcfg
    (zeroVal ts 64 me.ty)
  rw [hLlen] at hres
  have hRR : ∀ x : URow, lo ++ row2 :: (mid ++ [x]) = (lo ++ row2 :: mid) ++ x :: [] := by intro x; simp
  have htipix : tipIx (lo ++ row2 :: (mid ++ [T])) = N := by simp [tipIx]; omega
  have hstep := union_step_key (ts := ts) (a := a) (trs := trs) (it := it) (f := g + 7) (lo := lo) (hi := mid ++ [T])
    (row := row2) (stk := stk) (st := some c) (be := be) (t := kt) (trow := T) (trow' := T') (k := k) (R2 := R2)
    hph hk hfind hpool (by rw [htipix, hRR, ← hLlen]; simp) hcfgU
    (by rw [htipix, hRR, ← hLlen, List.set_append_right _ _ (Nat.le_refl _)]; simpa [hLlen] using hres)
  rw [htipix] at hstep
  have hpass := (hwp.toWr (U := trs.u)).pass (trs := trs) hstep (Or.inr ⟨_, rfl⟩)
  rw [pump_cont hpass, shift_shift]
  generalize hU : unDel (zeroVal ts 64 me.ty) me.ty ⟨N, k⟩ = U at *
  have hUp : (U row2.union).phase = .delegate ∧ (U row2.union).delegate = some ⟨N, k⟩ ∧
      (U row2.union).members = row2.union.members ∧ (U row2.union).tmp_rt = me.ty := by
    subst hU; exact ⟨rfl, rfl, rfl, rfl⟩
  have hLp : (lo ++ uw U row2 :: mid).length = N := by simp; omega
  have hpre : updRow ((lo ++ row2 :: mid) ++ T' :: []) lo.length (uw U) = (lo ++ uw U row2 :: mid) ++ T' :: [] := by
    rw [show (lo ++ row2 :: mid) ++ T' :: [] = lo ++ row2 :: (mid ++ T' :: []) by simp, updRow_at]; simp
  have hres' := reset_uw (ts := ts) (a := a) U lo.length (g + 7) ⟨N, k⟩ me.ty (zeroVal ts 64 me.ty)
    ((lo ++ row2 :: mid) ++ T' :: []) (by simp) hku
    (by intro hkt r hr; rw [← hLlen, getRow] at hr; cases hr; exact hktr hkt)
  rw [hres, hpre] at hres'
  obtain ⟨T3, hi3, hR2, hp3⟩ := cfg_frame hcfg (g + 7) me.ty (zeroVal ts 64 me.ty) T' [] R2 rfl
    (by rw [hLlen]; exact hres)
  have hnd : ∀ t, ∀ res, ustep ts a trs it (g + 7 + 1 + d + 1)
      ⟨updRow R2 lo.length (uw U), stk, some c, be⟩ t = .ok res → res.done = none := by
    intro t
    rw [hR2, show (lo ++ row2 :: mid) ++ T3 :: hi3 = lo ++ row2 :: (mid ++ T3 :: hi3) by simp, updRow_at,
      show lo ++ uw U row2 :: (mid ++ T3 :: hi3) = (lo ++ uw U row2 :: mid) ++ T3 :: hi3 by simp]
    have hch := upX (trs := trs) hwp (uw U row2) rfl mid (k := k) hUp.1 (by rw [hLp]; exact hUp.2.1) T3
      (Wr.refl (lo ++ uw U row2 :: mid) T3 k)
    have hnd1 := hch.nd (ts := ts) (a := a) (it := it) hi3 stk (some c) be t (g + 7)
    rw [show g + 7 + (0 + (1 + d)) = g + 7 + 1 + d by omega] at hnd1
    exact ustep_nd hnd1
  rw [pump_as_rtpB hres' hnd]
  refine union_after_key hS hAll hokm (fun kt e h => umachForEntry_map h) hwp (lo ++ uw U row2 :: mid) T' k stk be
    hcfg ?_ ?_ hLp _ rest2 (g + 7) _ (by omega) hsf
  · intro T'' hp hu kk F w' dd h
    exact upX hwp (uw U row2) rfl mid hUp.1 (by rw [hLp]; exact hUp.2.1) T'' h
  · intro T4 hi4 v hs4
    refine ⟨closeU v (uw U row2), mid ++ T4 :: hi4, ?_, rfl, rfl, rfl, hUp.2.2.1, rfl, rfl, hUp.2.2.2⟩
    rw [show (lo ++ uw U row2 :: mid) ++ T4 :: hi4 = lo ++ uw U row2 :: (mid ++ T4 :: hi4) by simp, updRow_at]

/-- the keyed union machine -/
theorem simB_union {S : List Nat} {wi : Option Nat} {n : Nat} (hS : Closed ts a S wi)
    (hAll : ∀ m, m < n → SimL (ts := ts) (a := a) (trs := trs) (it := it) S wi m)
    {base : Nat} {ms : List (Bytes × Nat)} (hok : ∀ m ∈ ms, okMemIdx ts a S wi m.2)
    (cur : Val) (lo : List URow) (row : URow) (hi : List URow) (stk : List URef) (be : Option XFail) (c : URef)
    (w : Val → Val) (d : Nat) (toks : List Tok) (fr sf1 sf : Nat) (hmem : row.union.members = ms)
    (hwp : WrP c lo row .union w d) (hfr : 7 ≤ fr) (hsf1 : 10 ≤ sf1) (hsf : 17 ≤ sf) :
    Agree ts a trs it (some true) none c sf be stk lo row some w
      (rtpB ts a trs it fr sf1 sf (lo ++ row :: hi) stk be c ⟨lo.length, .union⟩ base cur toks)
      (unmBare ts a trs it (n+1) base (.union ms) cur toks) := by
  have hd := hwp.le
  cases toks with
  | nil => simp [rtpB, unmBare, Agree]
  | cons t rest =>
    obtain ⟨f, rfl⟩ : ∃ f, fr = f + 1 := ⟨fr - 1, by omega⟩
    obtain ⟨g, rfl⟩ : ∃ g, sf1 = g + 1 + d + 1 := ⟨sf1 - d - 2, by omega⟩
    simp only [rtpB, union_reset]
    have hw1 : WrP c lo (uw (unReset cur base) row) .union w d := hwp.congr rfl
    have hopen := union_step_open (ts := ts) (a := a) (trs := trs) (it := it) (f := g) (lo := lo) (hi := hi)
      (row := uw (unReset cur base) row) (stk := stk) (st := some c) (be := be) (t := t) rfl
    by_cases hgood : ∃ len, t.body = .mapOpen len ∧ (len != -1 && len != 1) = false
    · obtain ⟨len, hb, hlen⟩ := hgood
      simp only [hb, hlen, Bool.false_eq_true, if_false] at hopen
      have hpass := (hw1.toWr (U := trs.u)).pass (trs := trs) hopen (Or.inr ⟨_, rfl⟩)
      rw [pump1_cont hpass]
      generalize hrow2 : uw (fun u => { u with phase := UPhase.acceptKey }) (uw (unReset cur base) row) = row2
      have hw2 : WrP c lo row2 .union w d := by subst hrow2; exact hw1.congr rfl
      have hmem2 : row2.union.members = ms := by subst hrow2; exact hmem
      have hph2 : row2.union.phase = .acceptKey := by subst hrow2; rfl
      have hW : SameCfgW row row2 := by subst hrow2; exact ⟨rfl, rfl, rfl⟩
      cases rest with
      | nil => rw [unmBare.eq_def]; simp [hb, hlen, pump, URes.shift, Agree]
      | cons kt rest2 =>
        obtain ⟨h', rfl⟩ : ∃ h', sf = h' + 1 + d + 1 := ⟨sf - d - 2, by omega⟩
        by_cases hkey : ∃ name nm idx, kt.body = .str name ∧ findM ms name = some (nm, idx)
        · obtain ⟨name, nm, idx, hk, hfind⟩ := hkey
          cases hpool : a.pool[idx]? with
          | none =>
            have hfun : unmBare ts a trs it (n+1) base (.union ms) cur (t :: kt :: rest2) = .panic 1 := by
              rw [unmBare.eq_def]
              simp only [hb, hlen, hk, findM_eq, hfind, hpool, Bool.false_eq_true, if_false]
            rw [hfun]; trivial
          | some me =>
            have hokm : okMember ts a S wi (umachForEntry ts me) := by
              have := hok (nm, idx) (List.mem_of_find?_eq_some hfind)
              simpa [okMemIdx, hpool] using this
            rw [unmBare_union_member hb hlen hk hfind hpool hokm]
            have hA : Agree ts a trs it (some true) none c (h' + 1 + d + 1) be stk lo row2 some w
                ((pump ts a trs it (h' + 1 + d + 1) ⟨lo ++ row2 :: hi, stk, some c, be⟩ (kt :: rest2)).shift 1)
                (unionTail me.ty (unmBare ts a trs it n me.ty (umachForEntry ts me) (zeroVal ts 64 me.ty) rest2)) := by
              rcases tip_split lo row2 hi with rfl | ⟨mid, T, rfl⟩
              · exact union_key_S hS hAll hokm hw2 hph2 stk be kt rest2 hk (by rw [hmem2]; exact hfind) hpool _ hsf
              · exact union_key_X hS hAll hokm hw2 hph2 mid T stk be kt rest2 hk (by rw [hmem2]; exact hfind) hpool _ hsf
            have := hA.shiftK (b' := some true) (row := row) 0 (fun r' hk' => SameCfgW.trans hW hk')
            simpa using this
        · have hbad : (∀ name, kt.body ≠ .str name) ∨
              (∃ name, kt.body = .str name ∧ findM row2.union.members name = none) := by
            by_cases hs : ∃ name, kt.body = .str name
            · obtain ⟨name, hk⟩ := hs
              cases hf : findM ms name with
              | none => exact Or.inr ⟨name, hk, by rw [hmem2]; exact hf⟩
              | some p => exact absurd ⟨name, p.1, p.2, hk, hf⟩ hkey
            · exact Or.inl (fun name h => hs ⟨name, h⟩)
          have herr := union_step_key_bad (ts := ts) (a := a) (trs := trs) (it := it) (f := h') (lo := lo) (hi := hi)
            (row := row2) (stk := stk) (st := some c) (be := be) (t := kt) hph2 hbad
          have hpass2 := (hw2.toWr (U := trs.u)).pass (trs := trs) herr (Or.inl ⟨_, rfl⟩)
          rw [pump_err hpass2]
          have hfun : unmBare ts a trs it (n+1) base (.union ms) cur (t :: kt :: rest2) = .err 1 := by
            rw [unmBare.eq_def]
            simp only [hb, hlen, Bool.false_eq_true, if_false]
            rcases hbad with h | ⟨name, hk, hf⟩
            · split
              · rename_i name hk; exact absurd hk (h name)
              · rfl
            · rw [hmem2] at hf
              simp only [hk, findM_eq, hf]
          rw [hfun]
          simp [Agree, XFail.toURes, URes.shift]
    · have herr : stepM ts a trs it (g + 1) ⟨lo.length, .union⟩
          ⟨lo ++ uw (unReset cur base) row :: hi, stk, some c, be⟩ t = .error (.f .err) := by
        rw [hopen]
        split
        · rename_i len hb
          split
          · rfl
          · rename_i hl; exact absurd ⟨len, hb, by simpa using hl⟩ hgood
        · rfl
      have hpass := (hw1.toWr (U := trs.u)).pass (trs := trs) herr (Or.inl ⟨_, rfl⟩)
      rw [pump1_err hpass]
      have hfun : unmBare ts a trs it (n+1) base (.union ms) cur (t :: rest) = .err 0 := by
        rw [unmBare.eq_def]
        simp only []
        split
        · rename_i len hb
          split
          · rfl
          · rename_i hl; exact absurd ⟨len, hb, by simpa using hl⟩ hgood
        · rfl
      rw [hfun]
      simp [Agree, XFail.toURes]

end Refmt.UMachU
