/-
  The JSON text of a token tree as a function (`txtV`), the retyped tree (`retV`), and the lexical
  lemmas about it: whitespace, string literals, numbers, scalars against the reference reader and `stripWs`.
-/
import RefmtProofs.Lemmas.FloatChars
set_option linter.unusedSimpArgs false
set_option linter.unusedVariables false
namespace Refmt.C03L
open Refmt Refmt.JsonEnc Refmt.JsonDec Refmt.Spec.Json

/-! ### The text the encoder writes, as a function of the tree -/

def scalarTxt : Body → Bytes
  | .str s => 34 :: (esc s ++ [34])
  | .bool true => [116, 114, 117, 101]
  | .bool false => [102, 97, 108, 115, 101]
  | .int i => intDigits i
  | .uint n => natDigits n
  | .float b => FloatText.jsonFloat b
  | .null => [110, 117, 108, 108]
  | _ => []

/-- separator before an entry at depth `d` -/
def sep (c : Cfg) (d : Nat) (sm : Bool) : Bytes :=
  (if sm then [44] else []) ++ (c.lineBytes ++ (List.replicate d c.indent).flatten)

/-- what precedes the closing bracket of a container at depth `d` -/
def closeSep (c : Cfg) (d : Nat) (sm : Bool) : Bytes :=
  if sm then c.lineBytes ++ (List.replicate (d - 1) c.indent).flatten else []

def colon (c : Cfg) : Bytes := 58 :: (if c.line.isSome then [32] else [])

def keyTxt : TV → Bytes
  | .scalar t => scalarTxt t.body
  | _ => []

mutual
  def txtV (c : Cfg) (d : Nat) : TV → Bytes
    | .scalar t => scalarTxt t.body
    | .arr _ _ items => 91 :: (txtL c (d + 1) false items ++ (closeSep c (d + 1) (!items.isEmpty) ++ [93]))
    | .map _ _ es => 123 :: (txtE c (d + 1) false es ++ (closeSep c (d + 1) (!es.isEmpty) ++ [125]))
  def txtL (c : Cfg) (d : Nat) (sm : Bool) : List TV → Bytes
    | [] => []
    | v :: vs => sep c d sm ++ (txtV c d v ++ txtL c d true vs)
  def txtE (c : Cfg) (d : Nat) (sm : Bool) : List (TV × TV) → Bytes
    | [] => []
    | (k, v) :: es => sep c d sm ++ (keyTxt k ++ (colon c ++ (txtV c d v ++ txtE c d true es)))
end

mutual
  def retV : TV → TV
    | .scalar t => .scalar (retypeTok t)
    | .arr _ _ items => .arr none (-1) (retL items)
    | .map _ _ es => .map none (-1) (retE es)
  def retL : List TV → List TV
    | [] => []
    | v :: vs => retV v :: retL vs
  def retE : List (TV × TV) → List (TV × TV)
    | [] => []
    | (k, v) :: es => (retV k, retV v) :: retE es
end

mutual
  theorem retV_flatten : ∀ (v : TV), (retV v).flatten = v.flatten.map retypeTok
    | .scalar t => by simp [retV, TV.flatten]
    | .arr tag len items => by
      simp only [retV, TV.flatten, List.map_cons, List.map_append, List.map_nil, retL_flatten items]
      rfl
    | .map tag len es => by
      simp only [retV, TV.flatten, List.map_cons, List.map_append, List.map_nil, retE_flatten es]
      rfl
  theorem retL_flatten : ∀ (vs : List TV), TV.flattenList (retL vs) = (TV.flattenList vs).map retypeTok
    | [] => by simp [retL, TV.flattenList]
    | v :: vs => by simp [retL, TV.flattenList, retV_flatten v, retL_flatten vs]
  theorem retE_flatten : ∀ (es : List (TV × TV)), TV.flattenEntries (retE es) = (TV.flattenEntries es).map retypeTok
    | [] => by simp [retE, TV.flattenEntries]
    | (k, v) :: es => by simp [retE, TV.flattenEntries, retV_flatten k, retV_flatten v, retE_flatten es]
end


/-! ### Whitespace, stop bytes -/

def WsOnly (w : Bytes) : Prop := ∀ x ∈ w, isWs x = true

theorem WsOnly.nil : WsOnly [] := by intro x hx; simp at hx
theorem WsOnly.append {a b : Bytes} (ha : WsOnly a) (hb : WsOnly b) : WsOnly (a ++ b) := by
  intro x hx; simp only [List.mem_append] at hx; rcases hx with h | h; exact ha x h; exact hb x h
theorem WsOnly.replicate (w : Bytes) (n : Nat) (h : WsOnly w) : WsOnly (List.replicate n w).flatten := by
  induction n with
  | zero => simpa using WsOnly.nil
  | succ n ih => rw [List.replicate_succ, List.flatten_cons]; exact WsOnly.append h ih

theorem isWs_numEnd {b : Nat} (h : isWs b = true) : numEnd b = true := by
  simp only [isWs, Bool.or_eq_true, beq_iff_eq] at h
  rcases h with ((rfl | rfl) | rfl) | rfl <;> decide

theorem Stop_ws_cons (w : Bytes) (b : Nat) (rest : Bytes) (hw : WsOnly w) (hb : numEnd b = true) :
    Stop (w ++ b :: rest) = true := by
  cases w with
  | nil => simpa [Stop] using hb
  | cons x w' => simpa [Stop] using isWs_numEnd (hw x (by simp))

theorem skip_ws : ∀ (w : Bytes) (rest : Bytes), WsOnly w → skip (w ++ rest) = skip rest
  | [], _, _ => rfl
  | x :: w, rest, h => by
    simp only [List.cons_append, skip, h x (by simp), if_true]
    exact skip_ws w rest (fun y hy => h y (by simp [hy]))

theorem skip_cons (b : Nat) (r : Bytes) (h : isWs b = false) : skip (b :: r) = b :: r := by
  simp [skip, h]

/-! ### String literals -/

theorem strStep_plain (c : Nat) (h1 : 0x20 ≤ c) (h2 : c ≠ 34) (h3 : c ≠ 92) : strStep .normal c = .ok (some .normal) := by
  have : ¬ c < 32 := by omega
  simp [strStep, h2, h3, this]
theorem strStep_bs : strStep .normal 92 = .ok (some .esc) := by simp [strStep]
theorem strStep_quote : strStep .normal 34 = .ok none := by simp [strStep]
theorem strStep_esc (x : Nat) (hx : x = 34 ∨ x = 92 ∨ x = 110 ∨ x = 114 ∨ x = 116) : strStep .esc x = .ok (some .normal) := by
  rcases hx with rfl | rfl | rfl | rfl | rfl <;> simp [strStep]
theorem strStep_u : strStep .esc 117 = .ok (some .u0) := by simp [strStep]
theorem strStep_u0 (a : Nat) (h : isHex a = true) : strStep .u0 a = .ok (some .u1) := by simp [strStep, h]
theorem strStep_u1 (a : Nat) (h : isHex a = true) : strStep .u1 a = .ok (some .u2) := by simp [strStep, h]
theorem strStep_u2 (a : Nat) (h : isHex a = true) : strStep .u2 a = .ok (some .u3) := by simp [strStep, h]
theorem strStep_u3 (a : Nat) (h : isHex a = true) : strStep .u3 a = .ok (some .normal) := by simp [strStep, h]

theorem lexString_step (fuel : Nat) (st st' : SS) (b : Nat) (r acc : Bytes) (h : strStep st b = .ok (some st')) :
    lexString (fuel + 1) st (b :: r) acc = lexString fuel st' r (b :: acc) := by
  simp [lexString, h]

theorem lexString_body {body : Bytes} (h : SBody body) : ∀ (fuel : Nat) (acc rest : Bytes), body.length < fuel →
    lexString fuel .normal (body ++ 34 :: rest) acc = some (acc.reverse ++ body, rest) := by
  induction h with
  | nil =>
    intro fuel acc rest hf
    obtain ⟨k, rfl⟩ : ∃ k, fuel = k + 1 := ⟨fuel - 1, by omega⟩
    simp [lexString, strStep_quote]
  | plain c r h1 h2 h3 _ ih =>
    intro fuel acc rest hf
    obtain ⟨k, rfl⟩ : ∃ k, fuel = k + 1 := ⟨fuel - 1, by omega⟩
    rw [List.cons_append, lexString_step _ _ _ _ _ _ (strStep_plain c h1 h2 h3),
      ih k (c :: acc) rest (by simp at hf; omega)]
    simp
  | esc x r hx _ ih =>
    intro fuel acc rest hf
    obtain ⟨k, rfl⟩ : ∃ k, fuel = k + 2 := ⟨fuel - 2, by simp at hf; omega⟩
    simp only [List.cons_append]
    rw [lexString_step _ _ _ _ _ _ strStep_bs, lexString_step _ _ _ _ _ _ (strStep_esc x hx),
      ih k _ rest (by simp at hf; omega)]
    simp
  | uni a b c d r ha hb hc hd _ ih =>
    intro fuel acc rest hf
    obtain ⟨k, rfl⟩ : ∃ k, fuel = k + 6 := ⟨fuel - 6, by simp at hf; omega⟩
    simp only [List.cons_append]
    rw [lexString_step _ _ _ _ _ _ strStep_bs, lexString_step _ _ _ _ _ _ strStep_u,
      lexString_step _ _ _ _ _ _ (strStep_u0 a ha), lexString_step _ _ _ _ _ _ (strStep_u1 b hb),
      lexString_step _ _ _ _ _ _ (strStep_u2 c hc), lexString_step _ _ _ _ _ _ (strStep_u3 d hd),
      ih k _ rest (by simp at hf; omega)]
    simp

theorem stripWs_body {body : Bytes} (h : SBody body) : ∀ (rest : Bytes),
    stripWs (body ++ 34 :: rest) true false = body ++ 34 :: stripWs rest false false := by
  induction h with
  | nil => intro rest; simp [stripWs]
  | plain c r h1 h2 h3 _ ih => intro rest; simp [stripWs, h2, h3, ih]
  | esc x r hx _ ih => intro rest; simp [stripWs, ih]
  | uni a b c d r ha hb hc hd _ ih =>
    intro rest
    have ne : ∀ y, isHex y = true → y ≠ 92 ∧ y ≠ 34 := by
      intro y hy; simp [isHex] at hy; omega
    simp [stripWs, ih, ne a ha, ne b hb, ne c hc, ne d hd]

theorem stripWs_plain : ∀ (t rest : Bytes), (∀ x ∈ t, isWs x = false ∧ x ≠ 34) →
    stripWs (t ++ rest) false false = t ++ stripWs rest false false
  | [], _, _ => rfl
  | x :: t, rest, h => by
    have hx := h x (by simp)
    simp only [List.cons_append, stripWs, Bool.false_eq_true, if_false, beq_iff_eq, hx.1, hx.2]
    rw [stripWs_plain t rest (fun y hy => h y (by simp [hy]))]

theorem stripWs_ws : ∀ (w rest : Bytes), WsOnly w → stripWs (w ++ rest) false false = stripWs rest false false
  | [], _, _ => rfl
  | x :: w, rest, h => by
    have hx := h x (by simp)
    have : x ≠ 34 := by intro e; subst e; simp [isWs] at hx
    simp only [List.cons_append, stripWs, Bool.false_eq_true, if_false, beq_iff_eq, hx, this, if_true]
    exact stripWs_ws w rest (fun y hy => h y (by simp [hy]))

theorem numChar_plain {x : Nat} (h : numChar x = true) : isWs x = false ∧ x ≠ 34 := by
  simp [numChar, isDigit] at h
  simp [isWs]
  omega


/-! ### Scalars -/

/-- the encoder accepts the body as a scalar value -/
def encOk : Body → Bool
  | .float x => !floatNonFinite x
  | .str _ | .bool _ | .int _ | .uint _ | .null => true
  | _ => false

/-- the float text is a number the scanners read completely and `numTok` can type -/
def floatOk (x : Nat) : Bool :=
  numberOk (FloatText.jsonFloat x) &&
    (match numTok (FloatText.jsonFloat x) with | .ok _ => true | .error _ => false)

/-- the body is written as a text that reads back as `retypeTok` of it -/
def decOk : Body → Bool
  | .float x => !floatNonFinite x && floatOk x
  | .uint n => n < two64
  | .int i => -(two63 : Int) ≤ i && i < (two63 : Int)
  | .str _ | .bool _ | .null => true
  | _ => false

theorem decOk_encOk {b : Body} (h : decOk b = true) : encOk b = true := by
  cases b <;> simp_all [decOk, encOk]

def vStartByte (b : Nat) : Prop := isWs b = false ∧ b ≠ 93 ∧ b ≠ 44 ∧ b ≠ 125

def isNumBody : Body → Bool
  | .int _ | .uint _ | .float _ => true
  | _ => false

theorem intDigits_chars (i : Int) : ∀ x ∈ intDigits i, numChar x = true := by
  unfold intDigits
  split
  · intro x hx
    simp only [List.mem_cons] at hx
    rcases hx with rfl | hx
    · decide
    · exact isDigit_numChar (natDigits_digits _ x hx)
  · intro x hx; exact isDigit_numChar (natDigits_digits _ x hx)

theorem num_facts (b : Body) (h : decOk b = true) (hn : isNumBody b = true) :
    numberOk (scalarTxt b) = true ∧ numTok (scalarTxt b) = .ok (retypeTok ⟨b, none⟩).body := by
  cases b <;> simp [isNumBody] at hn
  · rename_i i
    simp only [decOk, Bool.and_eq_true, decide_eq_true_eq] at h
    refine ⟨?_, by simpa [scalarTxt, retypeTok] using numTok_int i h.1 h.2⟩
    simp only [scalarTxt, intDigits]
    split
    · exact numberOk_neg _ (by omega)
    · exact numberOk_nat _
  · rename_i n
    simp only [decOk, decide_eq_true_eq] at h
    refine ⟨numberOk_nat n, ?_⟩
    simp only [scalarTxt, retypeTok, numTok_nat n h]
  · rename_i x
    simp only [decOk, floatOk, Bool.and_eq_true] at h
    refine ⟨h.2.1, ?_⟩
    have h2 := h.2.2
    simp only [scalarTxt, retypeTok]
    split at h2
    · rename_i b' hb; rw [hb]
    · simp at h2

theorem numberOk_head (T : Bytes) (h : numberOk T = true) :
    ∃ b0 r st, T = b0 :: r ∧ (b0 = 45 ∨ isDigit b0 = true) ∧ numRun (numStart b0) r = some st ∧ numAccept st = true := by
  cases T with
  | nil => simp [numberOk] at h
  | cons b0 r =>
    simp only [numberOk, Bool.and_eq_true, Bool.or_eq_true, beq_iff_eq] at h
    obtain ⟨h1, h2⟩ := h
    split at h2
    · rename_i st hs; exact ⟨b0, r, st, rfl, h1, hs, h2⟩
    · simp at h2

theorem numHead_start {b0 : Nat} (h : b0 = 45 ∨ isDigit b0 = true) : vStartByte b0 := by
  simp only [isDigit, Bool.and_eq_true, decide_eq_true_eq] at h
  simp only [vStartByte, isWs, Bool.or_eq_false_iff, beq_eq_false_iff_ne, ne_eq]
  omega

theorem parseValue_num (T : Bytes) (b' : Body) (hok : numberOk T = true) (ht : numTok T = .ok b')
    (fuel : Nat) (rest : Bytes) (hs : Stop rest = true) :
    parseValue (fuel + 1) (T ++ rest) = some (.scalar ⟨b', none⟩, rest) := by
  obtain ⟨b0, r, st, rfl, hb0, hrun, hacc⟩ := numberOk_head T hok
  have hv := numHead_start hb0
  have hd : (b0 == 45 || isDigit b0) = true := by
    rcases hb0 with rfl | h <;> simp [*]
  have h1 : b0 ≠ 123 ∧ b0 ≠ 91 ∧ b0 ≠ 34 ∧ b0 ≠ 110 ∧ b0 ≠ 116 ∧ b0 ≠ 102 := by
    simp only [isDigit, Bool.and_eq_true, decide_eq_true_eq] at hb0; omega
  have hlex := lexNumber_run r (numStart b0) st [b0] ((r ++ rest).length + 2) rest hrun hacc hs
    (by simp; omega)
  simp only [List.cons_append, parseValue, skip_cons b0 _ hv.1, beq_iff_eq, h1, if_false, hd, if_true]
  simp only [numStart] at hlex
  simp only [beq_iff_eq] at hlex
  rw [hlex]
  simp [ht]

theorem parseValue_str (s : Bytes) (fuel : Nat) (rest : Bytes) :
    parseValue (fuel + 1) ((34 :: (esc s ++ [34])) ++ rest) = some (.scalar ⟨.str (toValidUtf8 s), none⟩, rest) := by
  have hE := esc_Esc s
  have hlex := lexString_body hE.body ((esc s ++ 34 :: rest).length + 1) [] rest (by simp; omega)
  have hu := hE.unquote ((esc s).length + 1) (by omega)
  simp only [List.cons_append, List.append_assoc, List.nil_append, parseValue]
  rw [skip_cons 34 _ (by decide)]
  simp only [show (34 : Nat) ≠ 123 by decide, show (34 : Nat) ≠ 91 by decide, beq_iff_eq, if_false, if_true]
  have : (esc s ++ 34 :: rest).length + 1 = (esc s ++ 34 :: rest).length + 1 := rfl
  rw [hlex]
  simp [hu]

theorem parseValue_scalar (b : Body) (h : decOk b = true) (fuel : Nat) (rest : Bytes) (hs : Stop rest = true) :
    parseValue (fuel + 1) (scalarTxt b ++ rest) = some (.scalar (retypeTok ⟨b, none⟩), rest) := by
  by_cases hn : isNumBody b = true
  · obtain ⟨h1, h2⟩ := num_facts b h hn
    exact parseValue_num _ _ h1 h2 fuel rest hs
  · cases b <;> simp [isNumBody] at hn <;> simp [decOk] at h
    · simp [scalarTxt, parseValue, skip, isWs, startsWith, retypeTok]
    · rename_i s
      simpa [scalarTxt, retypeTok] using parseValue_str s fuel rest
    · rename_i x
      cases x <;> simp [scalarTxt, parseValue, skip, isWs, startsWith, retypeTok]

theorem scalarTxt_head (b : Body) (h : decOk b = true) : ∃ hd tl, scalarTxt b = hd :: tl ∧ vStartByte hd := by
  by_cases hn : isNumBody b = true
  · obtain ⟨h1, _⟩ := num_facts b h hn
    obtain ⟨b0, r, st, e, hb0, _, _⟩ := numberOk_head _ h1
    exact ⟨b0, r, e, numHead_start hb0⟩
  · cases b <;> simp [isNumBody] at hn <;> simp [decOk] at h
    · exact ⟨_, _, rfl, by unfold vStartByte; decide⟩
    · exact ⟨_, _, rfl, by unfold vStartByte; decide⟩
    · rename_i x; cases x <;> exact ⟨_, _, rfl, by unfold vStartByte; decide⟩


theorem txtV_head (c : Cfg) (d : Nat) (v : TV) (h : ∀ t, v = .scalar t → decOk t.body = true) :
    ∃ hd tl, txtV c d v = hd :: tl ∧ vStartByte hd := by
  cases v with
  | scalar t => simpa [txtV] using scalarTxt_head t.body (h t rfl)
  | arr _ _ items => exact ⟨91, _, by rw [txtV], by unfold vStartByte; decide⟩
  | map _ _ es => exact ⟨123, _, by rw [txtV], by unfold vStartByte; decide⟩

theorem stripWs_scalar (b : Body) (h : encOk b = true) (rest : Bytes) :
    stripWs (scalarTxt b ++ rest) false false = scalarTxt b ++ stripWs rest false false := by
  cases b <;> simp [encOk] at h
  · exact stripWs_plain _ rest (by decide)
  · rename_i s
    have := stripWs_body (esc_Esc s).body rest
    simp [scalarTxt, stripWs, this]
  · rename_i x; cases x <;> exact stripWs_plain _ rest (by decide)
  · rename_i i; exact stripWs_plain _ rest (fun x hx => numChar_plain (intDigits_chars i x hx))
  · rename_i n; exact stripWs_plain _ rest (fun x hx => numChar_plain (isDigit_numChar (natDigits_digits n x hx)))
  · rename_i x; exact stripWs_plain _ rest (fun y hy => numChar_plain (jsonFloat_chars x y hy))

end Refmt.C03L
