/-
  Stateful object unmarshaller: the slice machine between elements  ~  `unmElems … none`.
  `SimV n → SimE n → SimE (n+1)`.
-/
import RefmtProofs.Lemmas.UnmarshalMachUnionSlice
set_option linter.unusedSimpArgs false
set_option linter.unusedVariables false
namespace Refmt.UMachU
open Refmt Refmt.Obj Refmt.Obj.UM Refmt.UMachL

variable {ts : Types} {a : Atlas} {trs : Trs} {it : IfaceTys}

theorem Agree.shift {un c sf be stk lo row row2 F w x r} (k : Nat) (h : Agree ts a trs it none un c sf be stk lo row2 F w x r)
    (hs : SameCfg row row2) : Agree ts a trs it none un c sf be stk lo row F w (x.shift k) (r.shift k) := by
  cases r with
  | ok v rest u =>
    obtain ⟨h3, h'⟩ := h
    refine ⟨by omega, ?_⟩
    cases hF : F v with
    | none =>
      rw [hF] at h'
      simp only [] at h' ⊢
      rw [h']; simp [URes.shift]; omega
    | some v' =>
      rw [hF] at h'
      obtain ⟨row', hi', fa, h1, h2, h4⟩ := h'
      refine ⟨row', hi', fa, hs.trans h1, h2, ?_⟩
      rw [h4, shift_shift]
      congr 1; omega
  | more u => simp only [Agree] at h; simp [Agree, h, URes.shift]
  | err u => simp only [Agree] at h; simp [Agree, h, URes.shift]
  | panic u => simp [Agree, URes.shift]

theorem set_snoc (l : List Val) (z v : Val) : (l ++ [z]).set l.length v = l ++ [v] := by
  induction l with
  | nil => rfl
  | cons x l ih => simp [ih]

/-- what follows the functional model's result for one element -/
def bindU (r : URes) (k : Val → List Tok → Nat → URes) : URes :=
  match r with
  | .ok v rest u => k v rest u
  | y => y

theorem unmElems_elem {n e : Nat} {acc : List Val} {t : Tok} {rest : List Tok}
    (h1 : t.body ≠ .mapClose) (h2 : t.body ≠ .arrClose) :
    unmElems ts a trs it (n+1) e none acc (t :: rest)
      = bindU (unmV ts a trs it n e (zeroVal ts 64 e) (t :: rest))
          (fun v r u => (unmElems ts a trs it n e none (v :: acc) r).shift u) := by
  simp only [unmElems, bindU]
  split <;> simp_all
  cases unmV ts a trs it n e (zeroVal ts 64 e) (t :: rest) <;> rfl

variable (ts a trs it)

/-- the slice machine's row between two elements: `acc` are the elements so far (last first), the element machine is
    `⟨j, cck⟩` -/
def SliceSt (row : URow) (e : Nat) (acc : List Val) (j : Nat) (cck : MK) : Prop :=
  row.slice.phase = .acceptValueOrClose ∧ row.slice.working = acc.reverse ∧ row.slice.value_rt = e ∧
  row.slice.valueZero_rv = zeroVal ts 64 e ∧ row.slice.valueMach = some ⟨j, cck⟩ ∧ row.slice.index = acc.length

def SimE (S : List Nat) (n : Nat) : Prop :=
  ∀ e ∈ S, ∀ (acc : List Val) (lo : List URow) (row : URow) (mid : List URow) (crow : URow) (hi : List URow)
    (stk : List URef) (be : Option XFail) (c : URef) (cck : MK) (F : Val → Option Val) (w : Val → Val) (d : Nat) (toks : List Tok) (sf : Nat),
    SliceSt ts row e acc (lo.length + 1 + mid.length) cck → CfgV ts a crow e cck → ∀ {un : Option Nat}, Wr trs.u c lo row .slice F w d un → d ≤ 3 →
    17 ≤ sf →
    Agree ts a trs it none un c sf be stk lo row F w
      (pump ts a trs it sf ⟨lo ++ row :: (mid ++ crow :: hi), stk, some c, be⟩ toks)
      (unmElems ts a trs it n e none acc toks)

variable {ts a trs it}

theorem simE_zero (S : List Nat) : SimE ts a trs it S 0 := by
  intro e he acc lo row mid crow hi stk be c cck F w d toks sf hst hcc un hw hd hsf
  simp [unmElems, Agree]

theorem snoc_of_ne_nil {α : Type} (l : List α) (h : l ≠ []) : ∃ l' x, l = l' ++ [x] :=
  ⟨l.dropLast, l.getLast h, (List.dropLast_concat_getLast h).symm⟩

theorem simE_succ {S : List Nat} {n : Nat} (hV : SimV ts a trs it S n) (hE : SimE ts a trs it S n) :
    SimE ts a trs it S (n+1) := by
  intro e he acc lo row mid crow hi stk be c cck F w d toks sf hst hcc un hw hd hsf
  obtain ⟨hph, hwk, hvt, hvz, hvm, hix⟩ := hst
  cases toks with
  | nil => simp [pump, unmElems, Agree]
  | cons t rest =>
    obtain ⟨g, rfl⟩ : ∃ g, sf = g + 1 + 1 + d + 1 := ⟨sf - d - 3, by omega⟩
    by_cases h1 : t.body = .mapClose
    · have hs : stepM ts a trs it (g + 1 + 1 + d) c
          ⟨lo ++ row :: (mid ++ crow :: hi), stk, some c, be⟩ t = .error (.f .err) := by
        rw [hw.step, slice_step_mapClose hph h1]; rfl
      rw [pump_err hs]
      simp [unmElems, h1, Agree, XFail.toURes]
    · by_cases h2 : t.body = .arrClose
      · obtain ⟨hi', x, hx⟩ := snoc_of_ne_nil (mid ++ crow :: hi) (by simp)
        have hl : stepM ts a trs it (g + 1 + 1) ⟨lo.length, .slice⟩
            ⟨lo ++ row :: (mid ++ crow :: hi), stk, some c, be⟩ t
            = .ok ⟨some (.slice (some acc.reverse)),
                ⟨lo ++ rowSl row (slClose row.slice) :: hi', stk, some c, be⟩⟩ := by
          rw [slice_step_arrClose hph h2, hx, dropLast_at, hwk]
        simp only [unmElems, h2]
        exact Agree.fin hw hl (rowSl_same _ _) (by omega)
      · have hs : stepM ts a trs it (g + 1 + 1 + d) c
            ⟨lo ++ row :: (mid ++ crow :: hi), stk, some c, be⟩ t
            = recurse ts a trs it (g + 1)
                ⟨lo ++ rowSl row (slNext row.slice) :: (mid ++ crow :: hi), stk, some c, be⟩ t
                (zeroVal ts 64 e) e ⟨lo.length + 1 + mid.length, cck⟩ := by
          rw [hw.step, slice_step_elem hph h1 h2 hvm, mapDoneO_recurse, mapDone_recurse, finU_recurse, hvt, hvz]
        rw [pump_rec hs, unmElems_elem h1 h2]
        have hR : lo ++ rowSl row (slNext row.slice) :: (mid ++ crow :: hi)
            = (lo ++ rowSl row (slNext row.slice) :: mid) ++ crow :: hi := by simp
        have hj : lo.length + 1 + mid.length = (lo ++ rowSl row (slNext row.slice) :: mid).length := by
          simp; omega
        rw [hR, hj]
        have hA := hV e he (zeroVal ts 64 e) (lo ++ rowSl row (slNext row.slice) :: mid) crow hi
          (c :: stk) be cck (t :: rest) g g (g + 1 + 1 + d + 1) hcc (by omega) (by omega) hsf
        revert hA
        generalize unmV ts a trs it n e (zeroVal ts 64 e) (t :: rest) = r
        generalize rtp ts a trs it g g (g + 1 + 1 + d + 1) _ _ be _ e (zeroVal ts 64 e) (t :: rest) = X
        intro hA
        cases r with
        | panic u => trivial
        | more u => exact hA
        | err u => exact hA
        | ok v r u =>
          obtain ⟨hu, crow', hi', fa, hc1, hfa, hX⟩ := hA
          obtain ⟨fa', rfl⟩ : ∃ f, fa = f + 1 + d := ⟨fa - 1 - d, by omega⟩
          have hw1 : Wr trs.u c lo (rowSl row (slNext row.slice)) .slice F w d un := hw.congr rfl
          have hab : absorbM ts (fa' + 1 + d) c v
              ((lo ++ rowSl row (slNext row.slice) :: mid) ++ crow' :: hi')
              = .ok (lo ++ rowSl row (slAbs (slNext row.slice) v) :: (mid ++ crow' :: hi')) := by
            rw [show (lo ++ rowSl row (slNext row.slice) :: mid) ++ crow' :: hi'
              = lo ++ rowSl row (slNext row.slice) :: (mid ++ crow' :: hi') by simp, hw1.absorb, slice_absorb]
            rfl
          simp only [bindU]
          rw [hX]
          simp only [kontU, kont, id, hab]
          have hst2 : SliceSt ts (rowSl row (slAbs (slNext row.slice) v)) e (v :: acc) (lo.length + 1 + mid.length) cck := by
            refine ⟨hph, ?_, hvt, hvz, hvm, ?_⟩
            · show (row.slice.working ++ [row.slice.valueZero_rv]).set (row.slice.index + 1 - 1) v = (v :: acc).reverse
              have h := set_snoc acc.reverse row.slice.valueZero_rv v
              rw [List.length_reverse] at h
              rw [hwk, hix, Nat.add_sub_cancel, h, List.reverse_cons]
            · simp [slAbs, slNext, hix]
          have hA2 := hE e he (v :: acc) lo (rowSl row (slAbs (slNext row.slice) v)) mid crow' hi' stk be c cck F w d r
            (g + 1 + 1 + d + 1) hst2 (CfgV.keep ts a hcc hc1) (hw.congr rfl) hd hsf
          have hA3 := hA2.shift (row := row) u (rowSl_same _ _)
          rw [shift_shift, show 1 + (u - 1) = u by omega]
          exact hA3

end Refmt.UMachU
