-- the JSON round-trip induction over `fullTy`: facts about `retypeTok`, statements, list / map-entry / struct-field /
-- pointer-chain steps (see RefmtProofs/Props/C01JsonFull.lean; mirrors RefmtProofs/Lemmas/FullRT1.lean)
import RefmtProofs.Lemmas.JFullDefs
set_option linter.unusedSimpArgs false
set_option linter.unusedVariables false
set_option linter.unusedTactic false
set_option linter.unreachableTactic false
namespace Refmt.Obj
open Refmt Refmt.C13 Refmt.C11 Refmt.C12

local notation "rt" => Spec.Json.retypeTok

/-! ### what `retypeTok` does -/

theorem ite_err_float {c : Prop} [Decidable c] {e : Err} {X : Nat} {b : Body}
    (h : (if c then Except.error e else Except.ok (Body.float X)) = Except.ok b) : ∃ x, b = .float x := by
  split at h
  · cases h
  · cases h; exact ⟨_, rfl⟩

/-- `numTok` only produces number tokens -/
theorem numTok_kind (text : Bytes) (b : Body) (h : JsonDec.numTok text = .ok b) :
    (∃ i, b = .int i) ∨ (∃ n, b = .uint n) ∨ (∃ x, b = .float x) := by
  unfold JsonDec.numTok at h
  simp only at h
  split at h
  · split at h
    · split at h
      · cases h; exact Or.inl ⟨_, rfl⟩
      · cases h
    · split at h
      · cases h; exact Or.inl ⟨_, rfl⟩
      · split at h
        · cases h; exact Or.inr (Or.inl ⟨_, rfl⟩)
        · cases h
  · exact Or.inr (Or.inr (ite_err_float h))

/-- the body of a re-typed float token is a number -/
theorem rt_float_kind (x : Nat) (tg : Option Int) :
    (∃ i, rt ⟨.float x, tg⟩ = ⟨.int i, none⟩) ∨ (∃ n, rt ⟨.float x, tg⟩ = ⟨.uint n, none⟩) ∨
      (∃ y, rt ⟨.float x, tg⟩ = ⟨.float y, none⟩) := by
  simp only [Spec.Json.retypeTok]
  cases hn : JsonDec.numTok (FloatText.jsonFloat x) with
  | error e => exact Or.inr (Or.inr ⟨x, rfl⟩)
  | ok b' =>
    rcases numTok_kind _ _ hn with ⟨i, rfl⟩ | ⟨n, rfl⟩ | ⟨y, rfl⟩
    · exact Or.inl ⟨i, rfl⟩
    · exact Or.inr (Or.inl ⟨n, rfl⟩)
    · exact Or.inr (Or.inr ⟨y, rfl⟩)

theorem rt_tag (b : Body) (tg tg' : Option Int) : rt ⟨b, tg⟩ = rt ⟨b, tg'⟩ := rfl
theorem rt_untag (t : Tok) : rt t = rt ⟨t.body, none⟩ := rfl
@[simp] theorem rt_null (tg : Option Int) : rt ⟨.null, tg⟩ = ⟨.null, none⟩ := rfl
@[simp] theorem rt_arrClose (tg : Option Int) : rt ⟨.arrClose, tg⟩ = ⟨.arrClose, none⟩ := rfl
@[simp] theorem rt_mapClose (tg : Option Int) : rt ⟨.mapClose, tg⟩ = ⟨.mapClose, none⟩ := rfl
@[simp] theorem rt_arrOpen (l : Int) (tg : Option Int) : rt ⟨.arrOpen l, tg⟩ = ⟨.arrOpen (-1), none⟩ := rfl
@[simp] theorem rt_mapOpen (l : Int) (tg : Option Int) : rt ⟨.mapOpen l, tg⟩ = ⟨.mapOpen (-1), none⟩ := rfl
@[simp] theorem rt_bool (b : Bool) (tg : Option Int) : rt ⟨.bool b, tg⟩ = ⟨.bool b, none⟩ := rfl
@[simp] theorem rt_int (i : Int) (tg : Option Int) : rt ⟨.int i, tg⟩ = ⟨.int i, none⟩ := rfl
theorem rt_str {s : Bytes} (h : toValidUtf8 s = s) (tg : Option Int) : rt ⟨.str s, tg⟩ = ⟨.str s, none⟩ := by
  simp [Spec.Json.retypeTok, h]

theorem rt_null_iff (t : Tok) : (rt t).body = .null ↔ t.body = .null := by
  obtain ⟨body, tag⟩ := t
  cases body with
  | float b => rcases rt_float_kind b tag with ⟨i, h1⟩ | ⟨n, h1⟩ | ⟨y, h1⟩ <;> rw [h1] <;> simp
  | uint n => simp only [Spec.Json.retypeTok]; split <;> simp
  | _ => simp [Spec.Json.retypeTok]

theorem rt_arrClose_iff (t : Tok) : (rt t).body = .arrClose ↔ t.body = .arrClose := by
  obtain ⟨body, tag⟩ := t
  cases body with
  | float b => rcases rt_float_kind b tag with ⟨i, h1⟩ | ⟨n, h1⟩ | ⟨y, h1⟩ <;> rw [h1] <;> simp
  | uint n => simp only [Spec.Json.retypeTok]; split <;> simp
  | _ => simp [Spec.Json.retypeTok]

theorem rt_mapClose_iff (t : Tok) : (rt t).body = .mapClose ↔ t.body = .mapClose := by
  obtain ⟨body, tag⟩ := t
  cases body with
  | float b => rcases rt_float_kind b tag with ⟨i, h1⟩ | ⟨n, h1⟩ | ⟨y, h1⟩ <;> rw [h1] <;> simp
  | uint n => simp only [Spec.Json.retypeTok]; split <;> simp
  | _ => simp [Spec.Json.retypeTok]

/-! ### names -/

theorem names_struct {a : Atlas} (hn : namesUtf8 a = true) {id : Nat} {reg : Bool} {ty : Nat} {tag : Option Int}
    {fields : List SMField} (he : a.get id = some ⟨reg, ty, tag, .structMap fields⟩) :
    ∀ fld ∈ fields, toValidUtf8 fld.name = fld.name := by
  intro fld hf
  have hmem := C01L.mem_pool_of_get he
  have := List.all_eq_true.mp hn _ hmem
  simp only at this
  simpa using List.all_eq_true.mp this fld hf

theorem names_union {a : Atlas} (hn : namesUtf8 a = true) {id : Nat} {reg : Bool} {ty : Nat} {tag : Option Int}
    {members : List (Bytes × Nat)} (he : a.get id = some ⟨reg, ty, tag, .union members⟩) :
    ∀ m ∈ members, toValidUtf8 m.1 = m.1 := by
  intro m hm
  have hmem := C01L.mem_pool_of_get he
  have := List.all_eq_true.mp hn _ hmem
  simp only at this
  simpa using List.all_eq_true.mp this m hm

section
variable (ts : Types) (a : Atlas) (trs : Trs) (it : IfaceTys)

/-- The JSON round-trip induction: `RTF` (RefmtProofs/Lemmas/FullRT1.lean) with the unmarshaller fed the tokens as
    re-typed by a JSON encode / decode (`retypeTok`), reconstructing `rtJ`. -/
structure RTJ (f : Nat) : Prop where
  v : ∀ p h id v toks g, p ≤ 64 → fullTy ts a p id = true → hasTy ts h id v = true → f ≤ g → fullValJ ts a trs it g id v = true →
      marshalV ts a trs f id v = ⟨toks, none⟩ → HeadSpec toks ∧ ∀ F, f < F → ∀ rest,
      unmV ts a trs it F id (zeroVal ts 64 id) (toks.map rt ++ rest) = .ok (rtJ ts a trs it g id v) rest toks.length
  b : ∀ p h id v toks g, p + 1 ≤ 64 → fullTy ts a (p + 1) id = true → (∀ e, ts.get id ≠ .ptr e) → hasTy ts h id v = true → f ≤ g →
      fullValJB ts a trs it g id (pickBare ts a id) v = true →
      marshalBare ts a trs f id (pickBare ts a id) v = ⟨toks, none⟩ → HeadSpec toks ∧ ∀ F, f < F → ∀ rest,
      unmBare ts a trs it F id (upickBare ts a id) (zeroVal ts 64 id) (toks.map rt ++ rest) =
        .ok (rtJB ts a trs it g id (pickBare ts a id) v) rest toks.length
  l : ∀ p h e vs toks g, p ≤ 64 → fullTy ts a p e = true → (∀ x ∈ vs, hasTy ts h e x = true) → f ≤ g →
      (∀ x ∈ vs, fullValJ ts a trs it g e x = true) →
      marshalList ts a trs f e vs = ⟨toks, none⟩ → ∀ F, f < F → ∀ cap acc rest, (∀ n, cap = some n → acc.length + vs.length ≤ n) →
      unmElems ts a trs it F e cap acc (toks.map rt ++ ⟨.arrClose, none⟩ :: rest) =
        .ok (.slice (some (acc.reverse ++ vs.map (rtJ ts a trs it g e)))) rest (toks.length + 1)
  m : ∀ p h vt (kvs : List (Bytes × Val)) toks g, p ≤ 64 → fullTy ts a p vt = true → (∀ q ∈ kvs, hasTy ts h vt q.2 = true) → f ≤ g →
      (∀ q ∈ kvs, fullValJ ts a trs it g vt q.2 = true) → (kvs.map (·.1)).Nodup → (∀ q ∈ kvs, toValidUtf8 q.1 = q.1) →
      marshalEntries ts a trs f vt kvs = ⟨toks, none⟩ → ∀ F, f < F → ∀ es0 rest, (∀ q ∈ kvs, hasKey (.str q.1) es0 = false) →
      unmMapEntries ts a trs it F none vt es0 (toks.map rt ++ ⟨.mapClose, none⟩ :: rest) =
        .ok (.map (some (es0 ++ kvs.map fun (q : Bytes × Val) => (Val.str q.1, rtJ ts a trs it g vt q.2)))) rest (toks.length + 1)
  s : ∀ p h id fds (fields fl : List SMField) (vs : List Val) toks g, p ≤ 64 → ts.get id = .struct fds →
      (fields.map (·.name)).Nodup → (fl.map (·.route)).Nodup → (∀ fld ∈ fl, fld ∈ fields ∧ FOKF ts a p fds fld) →
      (∀ fld ∈ fl, toValidUtf8 fld.name = fld.name) →
      (∀ (i : Nat) fd x, fds[i]? = some fd → vs[i]? = some x → hasTy ts h fd.ty x = true) → f ≤ g →
      (∀ fld ∈ fl, ∀ fv, traverse fld.route (.struct vs) = some fv → fullValJ ts a trs it g fld.ty fv = true) →
      marshalFields ts a trs f fl (.struct vs) = ⟨toks, none⟩ → ∀ F, f < F →
      ∀ (cs : List Val) (idx : Nat) rest, cs.length = fds.length →
      (∀ fld ∈ fl, ∀ (i : Nat), fld.route = [i] → cs[i]? = some (zeroVal ts 64 fld.ty)) →
      unmStruct ts a trs it F id fields (-1) idx (.struct cs) (toks.map rt ++ ⟨.mapClose, none⟩ :: rest) =
        .ok (fl.foldl (fieldStep ts id (.struct vs) (rtJ ts a trs it g)) (.struct cs)) rest (toks.length + 1)

theorem rtj_zero : RTJ ts a trs it 0 where
  v := by intro p h id v toks g _ _ _ _ _ hm; simp [marshalV, MOut.bad] at hm
  b := by intro p h id v toks g _ _ _ _ _ _ hm; simp [marshalBare, MOut.bad] at hm
  l := by intro p h e vs toks g _ _ _ _ _ hm; simp [marshalList, MOut.bad] at hm
  m := by intro p h vt kvs toks g _ _ _ _ _ _ _ hm; simp [marshalEntries, MOut.bad] at hm
  s := by intro p h id fds fields fl vs toks g _ _ _ _ _ _ _ _ _ hm; simp [marshalFields, MOut.bad] at hm

/-! ### null serializations under JSON (tags do not count) -/

theorem isBareNullSerJ_false {f dt : Nat} {dv : Val} {t : Tok} {r : List Tok}
    (hm : marshalV ts a trs f dt dv = ⟨t :: r, none⟩) (ht : t.body ≠ .null) (hf : f ≤ 1000) :
    isBareNullSer .json ts a trs dt dv = false := by
  have := C07.marshal_fuel_mono_le ts a trs f 1000 dt dv _ hm (by simp) hf
  unfold isBareNullSer
  rw [this]
  cases r with
  | cons x xs => rfl
  | nil =>
    obtain ⟨tb, tt⟩ := t
    cases tb <;> first | rfl | exact absurd rfl ht

theorem isBareNullSerJ_null {f dt : Nat} {dv : Val} {tg : Option Int}
    (hm : marshalV ts a trs f dt dv = ⟨[⟨.null, tg⟩], none⟩) (hf : f ≤ 1000) :
    isBareNullSer .json ts a trs dt dv = true := by
  have := C07.marshal_fuel_mono_le ts a trs f 1000 dt dv _ hm (by simp) hf
  unfold isBareNullSer
  rw [this]
  simp

end

variable {ts : Types} {a : Atlas} {trs : Trs} {it : IfaceTys}

/-! ### lists, map entries, struct fields -/

theorem rtj_l {f} (ih : RTJ ts a trs it f) : ∀ p h e vs toks g, p ≤ 64 → fullTy ts a p e = true → (∀ x ∈ vs, hasTy ts h e x = true) → f + 1 ≤ g →
      (∀ x ∈ vs, fullValJ ts a trs it g e x = true) →
      marshalList ts a trs (f+1) e vs = ⟨toks, none⟩ → ∀ F, f + 1 < F → ∀ cap acc rest, (∀ n, cap = some n → acc.length + vs.length ≤ n) →
      unmElems ts a trs it F e cap acc (toks.map rt ++ ⟨.arrClose, none⟩ :: rest) =
        .ok (.slice (some (acc.reverse ++ vs.map (rtJ ts a trs it g e)))) rest (toks.length + 1) := by
  intro p h e vs toks g hp64 hp hv hg hfv hm F hF cap acc rest hcap
  obtain ⟨F, rfl⟩ : ∃ F', F = F' + 1 := ⟨F - 1, by omega⟩
  cases vs with
  | nil =>
    rw [marshalList_nil] at hm
    simp [MOut.ok] at hm; subst hm
    simp [unmElems_cons]
  | cons x xs =>
    rw [marshalList_cons] at hm
    obtain ⟨tx, txs, h1, h2, rfl⟩ := seq_ok hm
    obtain ⟨hhs, hx⟩ := ih.v p h e x tx g hp64 hp (hv x (by simp)) (by omega) (hfv x (by simp)) h1
    obtain ⟨t, r, rfl, hc1, hc2⟩ := hhs.head
    have hx := hx F (by omega) (txs.map rt ++ ⟨.arrClose, none⟩ :: rest)
    have hxs := ih.l p h e xs txs g hp64 hp (fun y hy => hv y (by simp [hy])) (by omega) (fun y hy => hfv y (by simp [hy])) h2 F (by omega)
      cap (rtJ ts a trs it g e x :: acc) rest (fun n hn => by have := hcap n hn; simp at this ⊢; omega)
    have hcf : capFull cap acc = false := by
      unfold capFull
      cases cap with
      | none => rfl
      | some n => have := hcap n rfl; simp at this ⊢; omega
    have e1 : (t :: r ++ txs).map rt ++ ⟨.arrClose, none⟩ :: rest =
        rt t :: (r.map rt ++ (txs.map rt ++ ⟨.arrClose, none⟩ :: rest)) := by simp
    rw [e1, unmElems_cons]
    have e2 : rt t :: (r.map rt ++ (txs.map rt ++ ⟨.arrClose, none⟩ :: rest)) =
        (t :: r).map rt ++ (txs.map rt ++ ⟨.arrClose, none⟩ :: rest) := by simp
    split
    · rename_i hb; exact absurd ((rt_mapClose_iff t).1 hb) hc2
    · rename_i hb; exact absurd ((rt_arrClose_iff t).1 hb) hc1
    · rw [hcf, e2, hx]
      simp [hxs]
      omega

theorem rtj_m {f} (ih : RTJ ts a trs it f) : ∀ p h vt (kvs : List (Bytes × Val)) toks g, p ≤ 64 → fullTy ts a p vt = true → (∀ q ∈ kvs, hasTy ts h vt q.2 = true) → f + 1 ≤ g →
      (∀ q ∈ kvs, fullValJ ts a trs it g vt q.2 = true) → (kvs.map (·.1)).Nodup → (∀ q ∈ kvs, toValidUtf8 q.1 = q.1) →
      marshalEntries ts a trs (f+1) vt kvs = ⟨toks, none⟩ → ∀ F, f + 1 < F → ∀ es0 rest, (∀ q ∈ kvs, hasKey (.str q.1) es0 = false) →
      unmMapEntries ts a trs it F none vt es0 (toks.map rt ++ ⟨.mapClose, none⟩ :: rest) =
        .ok (.map (some (es0 ++ kvs.map fun (q : Bytes × Val) => (Val.str q.1, rtJ ts a trs it g vt q.2)))) rest (toks.length + 1) := by
  intro p h vt kvs toks g hp64 hp hv hg hfv hnd hutf hm F hF es0 rest hes
  obtain ⟨F, rfl⟩ : ∃ F', F = F' + 1 := ⟨F - 1, by omega⟩
  cases kvs with
  | nil =>
    rw [marshalEntries_nil] at hm
    simp [MOut.ok] at hm; subst hm
    simp [unmMapEntries_cons]
  | cons q qs =>
    obtain ⟨s, x⟩ := q
    rw [marshalEntries_cons] at hm
    obtain ⟨t1, t23, h1, h23, rfl⟩ := seq_ok hm
    obtain ⟨tx, txs, h2, h3, rfl⟩ := seq_ok h23
    simp [MOut.ok] at h1; subst h1
    obtain ⟨-, hx⟩ := ih.v p h vt x tx g hp64 hp (hv (s, x) (by simp)) (by omega) (hfv (s, x) (by simp)) h2
    have hx := hx F (by omega) (txs.map rt ++ ⟨.mapClose, none⟩ :: rest)
    simp only [List.map_cons, List.nodup_cons] at hnd
    have hxs := ih.m p h vt qs txs g hp64 hp (fun y hy => hv y (by simp [hy])) (by omega) (fun y hy => hfv y (by simp [hy])) hnd.2
      (fun y hy => hutf y (by simp [hy])) h3 F (by omega)
      (es0 ++ [(.str s, rtJ ts a trs it g vt x)]) rest (fun y hy => by
        rw [hasKey_append_str, hes y (by simp [hy])]
        simp only [Bool.false_or, beq_eq_false_iff_ne]
        intro he
        exact hnd.1 (by rw [he]; exact List.mem_map_of_mem hy))
    have hs : toValidUtf8 s = s := hutf (s, x) (by simp)
    have e1 : ([(⟨.str s, none⟩ : Tok)] ++ (tx ++ txs)).map rt ++ ⟨.mapClose, none⟩ :: rest =
        ⟨.str s, none⟩ :: (tx.map rt ++ (txs.map rt ++ ⟨.mapClose, none⟩ :: rest)) := by simp [rt_str hs]
    rw [e1, unmMapEntries_cons]
    simp only [mapKey, hes (s, x) (by simp), hx]
    simp [hxs]
    omega

theorem rtj_s {f} (ih : RTJ ts a trs it f) : ∀ p h id fds (fields fl : List SMField) (vs : List Val) toks g, p ≤ 64 → ts.get id = .struct fds →
      (fields.map (·.name)).Nodup → (fl.map (·.route)).Nodup → (∀ fld ∈ fl, fld ∈ fields ∧ FOKF ts a p fds fld) →
      (∀ fld ∈ fl, toValidUtf8 fld.name = fld.name) →
      (∀ (i : Nat) fd x, fds[i]? = some fd → vs[i]? = some x → hasTy ts h fd.ty x = true) → f + 1 ≤ g →
      (∀ fld ∈ fl, ∀ fv, traverse fld.route (.struct vs) = some fv → fullValJ ts a trs it g fld.ty fv = true) →
      marshalFields ts a trs (f+1) fl (.struct vs) = ⟨toks, none⟩ → ∀ F, f + 1 < F →
      ∀ (cs : List Val) (idx : Nat) rest, cs.length = fds.length →
      (∀ fld ∈ fl, ∀ (i : Nat), fld.route = [i] → cs[i]? = some (zeroVal ts 64 fld.ty)) →
      unmStruct ts a trs it F id fields (-1) idx (.struct cs) (toks.map rt ++ ⟨.mapClose, none⟩ :: rest) =
        .ok (fl.foldl (fieldStep ts id (.struct vs) (rtJ ts a trs it g)) (.struct cs)) rest (toks.length + 1) := by
  intro p h id fds fields fl vs toks g hp64 hd hnames hroutes hfl hutf hv hg hfv hm F hF cs idx rest hcs hzero
  obtain ⟨F, rfl⟩ : ∃ F', F = F' + 1 := ⟨F - 1, by omega⟩
  cases fl with
  | nil =>
    rw [marshalFields_nil] at hm
    simp [MOut.ok] at hm; subst hm
    simp [unmStruct_cons]
  | cons fld fl' =>
    obtain ⟨hmem, hign, i, fd, hroute, hfd, hty, hst⟩ := hfl fld (by simp)
    have hfvx := hfv fld (by simp)
    rw [marshalFields_cons, hroute, traverse_one] at hm
    rw [hroute, traverse_one] at hfvx
    cases hvi : vs[i]? with
    | none => rw [hvi] at hm; simp [MOut.bad] at hm
    | some fv =>
    rw [hvi] at hm
    simp only at hm
    obtain ⟨t1, t23, h1, h23, rfl⟩ := seq_ok hm
    obtain ⟨tx, txs, h2, h3, rfl⟩ := seq_ok h23
    simp [MOut.ok] at h1; subst h1
    have hvfv : hasTy ts h fld.ty fv = true := by rw [← hty]; exact hv i fd fv hfd hvi
    obtain ⟨hhs, hx⟩ := ih.v p h fld.ty fv tx g hp64 hst hvfv (by omega) (hfvx fv hvi) h2
    obtain ⟨t, r, rfl, hc1, hc2⟩ := hhs.head
    have hx := hx F (by omega) (txs.map rt ++ ⟨.mapClose, none⟩ :: rest)
    have hci : cs[i]? = some (zeroVal ts 64 fld.ty) := hzero fld (by simp) i hroute
    simp only [List.map_cons, List.nodup_cons] at hroutes
    have hxs := ih.s p h id fds fields fl' vs txs g hp64 hd hnames hroutes.2 (fun y hy => hfl y (by simp [hy]))
      (fun y hy => hutf y (by simp [hy])) hv (by omega)
      (fun y hy => hfv y (by simp [hy])) h3 F (by omega)
      (cs.set i (rtJ ts a trs it g fld.ty fv)) (idx + 1) rest (by simp [hcs])
      (fun y hy j hj => by
        have hne : i ≠ j := by
          intro he
          apply hroutes.1
          rw [hroute, he, ← hj]
          exact List.mem_map_of_mem hy
        rw [List.getElem?_set_ne hne]
        exact hzero y (by simp [hy]) j hj)
    have hnm : toValidUtf8 fld.name = fld.name := hutf fld (by simp)
    have e1 : ([(⟨.str fld.name, none⟩ : Tok)] ++ (t :: r ++ txs)).map rt ++ ⟨.mapClose, none⟩ :: rest =
        ⟨.str fld.name, none⟩ :: rt t :: (r.map rt ++ (txs.map rt ++ ⟨.mapClose, none⟩ :: rest)) := by simp [rt_str hnm]
    have e2 : rt t :: (r.map rt ++ (txs.map rt ++ ⟨.mapClose, none⟩ :: rest)) =
        (t :: r).map rt ++ (txs.map rt ++ ⟨.mapClose, none⟩ :: rest) := by simp
    have hstep : fieldStep ts id (.struct vs) (rtJ ts a trs it g) (.struct cs) fld = .struct (cs.set i (rtJ ts a trs it g fld.ty fv)) := by
      unfold fieldStep
      rw [hroute, traverse_one, hvi]
      simp only
      rw [setRoute_one ts _ hd hfd hci]
      rfl
    rw [e1, unmStruct_cons]
    simp only [find?_name fields hnames fld hmem, hign, Bool.false_eq_true, if_false]
    rw [hroute, getRoute_one ts hd hfd hci]
    simp only
    rw [e2, hx]
    simp only [URes.bind'_ok, structCont]
    rw [setRoute_one ts _ hd hfd hci]
    simp only [hxs, List.foldl_cons, hstep, URes.shift_ok]
    simp
    omega

/-! ### pointer chains -/

theorem rtj_v {f} (hf : f + 1 ≤ 1000) (ih : RTJ ts a trs it f) : ∀ p h id v toks g, p ≤ 64 → fullTy ts a p id = true → hasTy ts h id v = true →
      f + 1 ≤ g → fullValJ ts a trs it g id v = true →
      marshalV ts a trs (f+1) id v = ⟨toks, none⟩ → HeadSpec toks ∧ ∀ F, f + 1 < F → ∀ rest,
      unmV ts a trs it F id (zeroVal ts 64 id) (toks.map rt ++ rest) = .ok (rtJ ts a trs it g id v) rest toks.length := by
  intro p h id v toks g hp64 hp hv hg hfv hm
  obtain ⟨g, rfl⟩ : ∃ g', g = g' + 1 := ⟨g - 1, by omega⟩
  obtain ⟨n, base, p', hpeel, hpb, hnp, hch, hp'p⟩ := full_peel ts a p 64 0 id hp hp64
  simp only [Nat.zero_add] at hpeel
  have hp'64 : p' + 1 ≤ 64 := by omega
  rw [marshalV_succ, hpeel] at hm
  rw [fullValJ_succ, hpeel] at hfv
  rw [rtJ_succ, hpeel]
  simp only at hm hfv ⊢
  cases n with
  | zero =>
    cases hch
    simp only [beq_self_eq_true, if_true] at hm hfv ⊢
    obtain ⟨hhs, hu⟩ := ih.b p' h id v toks g hp'64 hpb hnp hv (by omega) hfv hm
    refine ⟨hhs, fun F hF rest => ?_⟩
    obtain ⟨F, rfl⟩ : ∃ F', F = F' + 1 := ⟨F - 1, by omega⟩
    obtain ⟨t, r, rfl, -, -⟩ := hhs.head
    rw [List.map_cons, List.cons_append, unmV_cons, hpeel]
    simpa using hu F (by omega) rest
  | succ n =>
    have hn0 : ((n + 1 == 0) = false) := by simp
    simp only [hn0] at hm hfv ⊢
    rcases chain_hasTy ts (n + 1) id base h v hch hv with hdn | ⟨inner, h', hdn, hvi⟩
    · rw [hdn] at hm ⊢
      simp [MOut.ok] at hm; subst hm
      refine ⟨Or.inl ⟨none, rfl⟩, fun F hF rest => ?_⟩
      obtain ⟨F, rfl⟩ : ∃ F', F = F' + 1 := ⟨F - 1, by omega⟩
      rw [List.map_cons, List.cons_append, unmV_cons, hpeel]
      simp
    · rw [hdn] at hm hfv ⊢
      simp only [Bool.false_eq_true, if_false] at hm hfv ⊢
      obtain ⟨hhs, hu⟩ := ih.b p' h' base inner toks g hp'64 hpb hnp hvi (by omega) hfv hm
      refine ⟨hhs, fun F hF rest => ?_⟩
      obtain ⟨F, rfl⟩ : ∃ F', F = F' + 1 := ⟨F - 1, by omega⟩
      have hu := hu F (by omega) rest
      have hic := innerCur_zeroVal ts (n + 1) id base hch
      rcases hhs with ⟨tg, rfl⟩ | ⟨t, r, rfl, hnn, h1, h2⟩
      · have hnull := isNullSer_null ts a trs hnp hm (by omega)
        rw [List.map_cons, List.cons_append, unmV_cons, hpeel]
        simp [hnull]
      · have hnull := isNullSer_nonnull ts a trs hnp hm hnn (by omega)
        have hnn' : (rt t).body ≠ .null := fun hb => hnn ((rt_null_iff t).1 hb)
        rw [List.map_cons, List.cons_append, unmV_cons, hpeel]
        simp only [hn0, hnull, Bool.false_eq_true, if_false, hic]
        rw [List.map_cons, List.cons_append] at hu
        first
          | (rw [hu]; rfl)
          | (split
             · rename_i hb; exact absurd hb hnn'
             · rw [hu]; rfl)

end Refmt.Obj
