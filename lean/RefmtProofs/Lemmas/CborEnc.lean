/-
  Encoder-machine lemmas for C02: `runOut` over a prefix that only answers `cont`,
  single-step facts of `CborEnc.step`, and write/spec byte equalities.
-/
import RefmtProofs.Lemmas.Heads
set_option linter.unusedSimpArgs false
set_option linter.unusedVariables false
namespace Refmt.C02L
open Refmt Refmt.CborEnc

/-- From `s`, the tokens `ts` are all answered `cont`, write `ws`, and leave the machine in `s'`. -/
def Runs (s : St) (ts : List Tok) (ws : List Bytes) (s' : St) : Prop :=
  ∀ more, runOut step s (ts ++ more) =
    (List.replicate ts.length Flag.cont ++ (runOut step s' more).1, ws ++ (runOut step s' more).2)

theorem Runs.nil (s : St) : Runs s [] [] s := by
  intro more; simp

theorem Runs.cons {s s' : St} {t : Tok} {ts : List Tok} {ws : List Bytes}
    (hf : (step s t).ret.flag = .cont) (h : Runs (step s t).st ts ws s') :
    Runs s (t :: ts) ((step s t).writes ++ ws) s' := by
  intro more
  have := h more
  simp only [List.cons_append, runOut, hf, this, List.length_cons, List.replicate_succ,
    List.append_assoc]

theorem Runs.append {s s' s'' : St} {ts us : List Tok} {ws ws' : List Bytes}
    (h1 : Runs s ts ws s') (h2 : Runs s' us ws' s'') : Runs s (ts ++ us) (ws ++ ws') s'' := by
  intro more
  rw [List.append_assoc, h1 (us ++ more), h2 more]
  simp only [List.length_append, List.append_assoc, ← List.replicate_append_replicate]

theorem Runs.single {s : St} {t : Tok} (hf : (step s t).ret.flag = .cont) :
    Runs s [t] (step s t).writes (step s t).st := by
  have := Runs.cons hf (Runs.nil (step s t).st)
  simpa using this

/-- A `cont` prefix followed by one token answered `done`. -/
theorem Runs.finish {s s' : St} {ts : List Tok} {ws : List Bytes} {t : Tok}
    (h : Runs s ts ws s') (hf : (step s' t).ret.flag = .done) :
    runOut step s (ts ++ [t]) = (List.replicate ts.length Flag.cont ++ [Flag.done], ws ++ (step s' t).writes) := by
  rw [h [t]]
  simp [runOut, hf]

/-! ### Writes = spec bytes -/

theorem tagHead_flatten (tag : Option Int) : (tagHead tag).flatten = Spec.Cbor.tagBytes tag := by
  cases tag <;> simp [tagHead, Spec.Cbor.tagBytes, emitHead_flatten, majTag]

theorem toU64_of_nonneg (x : Int) (h0 : 0 ≤ x) (h1 : x < (two64 : Int)) : toU64 x = x.toNat := by
  unfold toU64
  rw [Int.emod_eq_of_lt h0 h1]

theorem scalarWrites_flatten (b : Body)
    (hi : ∀ i, b = .int i → - (two63 : Int) ≤ i ∧ i < (two63 : Int)) :
    (scalarWrites b).flatten = Spec.Cbor.encBody b := by
  cases b with
  | bool x => cases x <;> simp [scalarWrites, Spec.Cbor.encBody, sigTrue, sigFalse]
  | int i =>
    have := hi i rfl
    simp only [scalarWrites, Spec.Cbor.encBody, encInt]
    split
    · simp [emitHead_flatten, majUint]
    · rw [toU64_of_nonneg, emitHead_flatten]; simp [majNeg]
      · omega
      · unfold two64; unfold two63 at this; omega
  | _ => simp [scalarWrites, Spec.Cbor.encBody, emitHead_flatten, sigNil, majStr, majBytes, majUint, sigF64]

theorem openWrites_flatten (isMap : Bool) (len : Int) (h0 : 0 ≤ len) (h1 : len < (two63 : Int)) :
    (openWrites isMap len).flatten = Spec.Cbor.head (if isMap then 0xa0 else 0x80) len.toNat := by
  unfold openWrites
  rw [if_pos h0, emitHead_flatten, toU64_of_nonneg _ h0]
  · cases isMap <;> simp [majMap, majArr]
  · unfold two64; unfold two63 at h1; omega

/-! ### Single steps -/

theorem step_scalar (stk : List Phase) (cur c : Phase) (t : Tok) (hs : t.body.isScalar = true)
    (hc : valuePos cur = some c) :
    step ⟨stk, cur⟩ t = ⟨⟨stk, c⟩, tagHead t.tag ++ scalarWrites t.body, .ck (cur == .any)⟩ := by
  cases hb : t.body <;> simp [hb, Body.isScalar] at hs <;>
    simp [step, hb, stepValueOnly, stepKeyable, hc]

theorem step_key (stk : List Phase) (k kv : Phase) (t : Tok) (hk : keyOk .cbor t.body = true)
    (hc : keyPos k = some kv) :
    step ⟨stk, k⟩ t = ⟨⟨stk, kv⟩, tagHead t.tag ++ scalarWrites t.body, .ck (k == .any)⟩ := by
  have hv : valuePos k = none := by cases k <;> simp [keyPos] at hc <;> rfl
  cases hb : t.body <;> simp [hb, keyOk] at hk <;>
    simp [step, hb, stepKeyable, hc, hv]

theorem step_arrOpen (stk : List Phase) (cur c : Phase) (tag : Option Int) (len : Int)
    (hc : valuePos cur = some c) :
    step ⟨stk, cur⟩ ⟨.arrOpen len, tag⟩ =
      ⟨⟨openPhase false len :: stk, openPhase false len⟩, tagHead tag ++ openWrites false len, .ck false⟩ := by
  simp [step, stepOpen, hc, push]

theorem step_mapOpen (stk : List Phase) (cur c : Phase) (tag : Option Int) (len : Int)
    (hc : valuePos cur = some c) :
    step ⟨stk, cur⟩ ⟨.mapOpen len, tag⟩ =
      ⟨⟨openPhase true len :: stk, openPhase true len⟩, tagHead tag ++ openWrites true len, .ck false⟩ := by
  simp [step, stepOpen, hc, push]

end Refmt.C02L
