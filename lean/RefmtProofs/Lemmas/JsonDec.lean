/-
  Decoder-machine lemmas for C05: the fault-free reader, `skipWs` against `skip`, the two
  scanners against the reference lexers, the scalar dispatch of `acceptValue`, single steps of
  the machine, and `run` against the recursive reference reader.
-/
import RefmtModel
set_option linter.unusedSimpArgs false
set_option linter.unusedVariables false
namespace Refmt.C05L
open Refmt Refmt.JsonDec Refmt.Spec.Json

/-! ### Reader without faults -/

@[simp] theorem read1_cons (b : Nat) (r : Bytes) (pb : Nat) :
    Rd.read1 ⟨b :: r, none, pb⟩ = (.ok (b, ⟨r, none, 0⟩), ⟨r, none, 0⟩) := by
  simp [Rd.read1]

@[simp] theorem read1_nil (pb : Nat) : Rd.read1 ⟨[], none, pb⟩ = (.error .eof, ⟨[], none, pb⟩) := by
  simp [Rd.read1]

/-! ### Whitespace -/

theorem skip_cons_notws {b : Nat} (r : Bytes) (h : isWs b = false) : skip (b :: r) = b :: r := by
  simp [skip, h]

theorem skip_head {bs : Bytes} {b : Nat} {r : Bytes} (h : skip bs = b :: r) : isWs b = false := by
  induction bs with
  | nil => simp [skip] at h
  | cons x xs ih =>
    simp only [skip] at h
    split at h
    · exact ih h
    · rename_i hx
      simp only [List.cons.injEq] at h
      rw [← h.1]; simpa using hx

theorem skip_len (bs : Bytes) : (skip bs).length ≤ bs.length := by
  induction bs with
  | nil => simp [skip]
  | cons x xs ih =>
    simp only [skip]
    split
    · simp only [List.length_cons]; omega
    · simp

theorem skip_idem (bs : Bytes) : skip (skip bs) = skip bs := by
  cases h : skip bs with
  | nil => simp [skip]
  | cons b r => exact skip_cons_notws r (skip_head h)

theorem skipWs_cons (n : Nat) : ∀ (bs : Bytes) (pb : Nat) (b : Nat) (r : Bytes), bs.length < n → skip bs = b :: r →
    skipWs n ⟨bs, none, pb⟩ = (.ok (b, ⟨r, none, 0⟩), ⟨r, none, 0⟩) := by
  induction n with
  | zero => intro bs pb b r h; omega
  | succ n ih =>
    intro bs pb b r hl hs
    cases bs with
    | nil => simp [skip] at hs
    | cons x xs =>
      simp only [List.length_cons] at hl
      simp only [skipWs, read1_cons]
      simp only [skip] at hs
      by_cases hx : isWs x = true
      · rw [if_pos hx] at hs ⊢
        exact ih xs 0 b r (by omega) hs
      · rw [if_neg hx] at hs ⊢
        simp only [List.cons.injEq] at hs
        rw [hs.1, hs.2]

theorem skipWs_nil (n : Nat) : ∀ (bs : Bytes) (pb : Nat), bs.length < n → skip bs = [] →
    ∃ rd', skipWs n ⟨bs, none, pb⟩ = (.error .eof, rd') := by
  induction n with
  | zero => intro bs pb h; omega
  | succ n ih =>
    intro bs pb hl hs
    cases bs with
    | nil => exact ⟨_, by simp only [skipWs, read1_nil]; rfl⟩
    | cons x xs =>
      simp only [List.length_cons] at hl
      simp only [skipWs, read1_cons]
      simp only [skip] at hs
      by_cases hx : isWs x = true
      · rw [if_pos hx] at hs ⊢
        exact ih xs 0 (by omega) hs
      · rw [if_neg hx] at hs
        cases hs

/-! ### Strings -/

theorem scanString_some (n : Nat) : ∀ (st : SS) (bs acc : Bytes) (pb : Nat) (raw r' : Bytes),
    lexString n st bs acc = some (raw, r') →
    scanString n st ⟨bs, none, pb⟩ acc = (.ok (raw, ⟨r', none, 0⟩), ⟨r', none, 0⟩) := by
  induction n with
  | zero => intro st bs acc pb raw r' h; simp [lexString] at h
  | succ n ih =>
    intro st bs acc pb raw r' h
    cases bs with
    | nil => simp [lexString] at h
    | cons b r =>
      simp only [lexString] at h
      simp only [scanString, read1_cons]
      cases hs : strStep st b with
      | error e => rw [hs] at h; simp at h
      | ok o =>
        rw [hs] at h
        cases o with
        | none =>
          simp only [Option.some.injEq, Prod.mk.injEq] at h
          simp only [h.1, h.2]
        | some st' => exact ih st' r (b :: acc) 0 raw r' h

theorem scanString_none (n : Nat) : ∀ (st : SS) (bs acc : Bytes) (pb : Nat),
    lexString n st bs acc = none →
    ∃ e rd', scanString n st ⟨bs, none, pb⟩ acc = (.error e, rd') := by
  induction n with
  | zero => intro st bs acc pb h; exact ⟨_, _, by simp only [scanString]; rfl⟩
  | succ n ih =>
    intro st bs acc pb h
    cases bs with
    | nil => exact ⟨_, _, by simp only [scanString, read1_nil]; rfl⟩
    | cons b r =>
      simp only [lexString] at h
      simp only [scanString, read1_cons]
      cases hs : strStep st b with
      | error e => exact ⟨_, _, rfl⟩
      | ok o =>
        rw [hs] at h
        cases o with
        | none => simp at h
        | some st' => exact ih st' r (b :: acc) 0 h

/-! ### Numbers -/

theorem scanNumber_some (n : Nat) : ∀ (st : NS) (bs acc : Bytes) (pb : Nat) (text r' : Bytes),
    lexNumber n st bs acc = some (text, r') →
    ∃ pb', scanNumber n st ⟨bs, none, pb⟩ acc = (.ok (text, ⟨r', none, pb'⟩), ⟨r', none, pb'⟩) := by
  induction n with
  | zero => intro st bs acc pb text r' h; simp [lexNumber] at h
  | succ n ih =>
    intro st bs acc pb text r' h
    cases bs with
    | nil =>
      simp only [lexNumber] at h
      simp only [scanNumber, read1_nil]
      cases hs : numStep st 32 with
      | error e => rw [hs] at h; simp at h
      | ok o =>
        rw [hs] at h
        simp only [Option.some.injEq, Prod.mk.injEq] at h
        exact ⟨pb, by simp only [h.1, ← h.2]⟩
    | cons b r =>
      simp only [lexNumber] at h
      simp only [scanNumber, read1_cons]
      cases hs : numStep st b with
      | error e => rw [hs] at h; simp at h
      | ok o =>
        rw [hs] at h
        cases o with
        | none =>
          simp only [Option.some.injEq, Prod.mk.injEq] at h
          exact ⟨1, by simp only [Rd.unread1, Option.map_none, h.1, ← h.2]⟩
        | some st' => exact ih st' r (b :: acc) 0 text r' h

theorem scanNumber_none (n : Nat) : ∀ (st : NS) (bs acc : Bytes) (pb : Nat),
    lexNumber n st bs acc = none →
    ∃ e rd', scanNumber n st ⟨bs, none, pb⟩ acc = (.error e, rd') := by
  induction n with
  | zero => intro st bs acc pb h; exact ⟨_, _, by simp only [scanNumber]; rfl⟩
  | succ n ih =>
    intro st bs acc pb h
    cases bs with
    | nil =>
      simp only [lexNumber] at h
      simp only [scanNumber, read1_nil]
      cases hs : numStep st 32 with
      | error e => exact ⟨_, _, rfl⟩
      | ok o => rw [hs] at h; simp at h
    | cons b r =>
      simp only [lexNumber] at h
      simp only [scanNumber, read1_cons]
      cases hs : numStep st b with
      | error e => exact ⟨_, _, rfl⟩
      | ok o =>
        rw [hs] at h
        cases o with
        | none => simp at h
        | some st' => exact ih st' r (b :: acc) 0 h

/-! ### Scalars -/

theorem decString_some (r : Bytes) (pb : Nat) (raw r' : Bytes)
    (h : lexString (r.length + 1) .normal r [] = some (raw, r')) :
    decString ⟨r, none, pb⟩ =
      (.ok ((parseString (raw.length + 1) raw).getD [], ⟨r', none, 0⟩), ⟨r', none, 0⟩) := by
  simp only [decString, scanString_some _ _ _ _ pb _ _ h]

theorem decString_none (r : Bytes) (pb : Nat) (h : lexString (r.length + 1) .normal r [] = none) :
    ∃ e rd', decString ⟨r, none, pb⟩ = (.error e, rd') := by
  obtain ⟨e, rd', he⟩ := scanString_none _ _ _ _ pb h
  exact ⟨e, rd', by simp only [decString, he]⟩

theorem literal_ok (s : St) (r : Bytes) (pb : Nat) (p : Bytes) (body : Body) (hp : p.length ≠ 0)
    (h : startsWith p r = true) :
    literal s ⟨r, none, pb⟩ p body = ⟨s, ⟨r.drop p.length, none, 0⟩, .tok ⟨body, none⟩ true⟩ := by
  simp only [startsWith, beq_iff_eq] at h
  have hl : p.length ≤ r.length := by
    have := congrArg List.length h
    simp only [List.length_take] at this
    omega
  simp [literal, Rd.readN, hp, hl, h]

theorem literal_bad (s : St) (r : Bytes) (pb : Nat) (p : Bytes) (body : Body) (hp : p.length ≠ 0)
    (h : startsWith p r = false) :
    ∃ e rd', literal s ⟨r, none, pb⟩ p body = ⟨s, rd', .err e⟩ := by
  simp only [startsWith, beq_eq_false_iff_ne, ne_eq] at h
  by_cases hl : p.length ≤ r.length
  · exact ⟨_, _, by simp [literal, Rd.readN, hp, hl, h]; exact ⟨rfl, rfl⟩⟩
  · by_cases he : r.isEmpty = true
    · exact ⟨_, _, by simp [literal, Rd.readN, hp, hl, he]; exact ⟨rfl, rfl⟩⟩
    · exact ⟨_, _, by simp [literal, Rd.readN, hp, hl, he]; exact ⟨rfl, rfl⟩⟩

/-- the scalar branches of `parseValue` -/
def refScalar (b : Nat) (r : Bytes) : Option (Body × Bytes) :=
  if b == 34 then
    (lexString (r.length + 1) .normal r []).map fun (raw, r') =>
      (.str ((parseString (raw.length + 1) raw).getD []), r')
  else if b == 110 then (if startsWith [117, 108, 108] r then some (.null, r.drop 3) else none)
  else if b == 116 then (if startsWith [114, 117, 101] r then some (.bool true, r.drop 3) else none)
  else if b == 102 then (if startsWith [97, 108, 115, 101] r then some (.bool false, r.drop 4) else none)
  else if b == 45 || isDigit b then
    let st : NS := if b == 45 then .neg else if b == 48 then .s0 else .s1
    match lexNumber (r.length + 2) st r [b] with
    | none => none
    | some (text, r') => (match numTok text with | .ok body => some (body, r') | .error _ => none)
  else none

theorem parseValue_succ (f : Nat) (bs : Bytes) :
    parseValue (f + 1) bs =
      match skip bs with
      | [] => none
      | b :: r =>
        if b == 123 then (parseMembers f r false).map fun (es, r') => (.map none (-1) es, r')
        else if b == 91 then (parseElements f r false).map fun (vs, r') => (.arr none (-1) vs, r')
        else (refScalar b r).map fun (body, r') => (.scalar ⟨body, none⟩, r') := by
  rw [parseValue]
  cases hs : skip bs with
  | nil => rfl
  | cons b r =>
    simp only [refScalar]
    by_cases h1 : (b == 123) = true
    · simp only [h1, if_true]
    rw [if_neg h1, if_neg h1]
    by_cases h2 : (b == 91) = true
    · simp only [h2, if_true]
    rw [if_neg h2, if_neg h2]
    by_cases h3 : (b == 34) = true
    · simp only [h3, if_true, Option.map_map]; rfl
    rw [if_neg h3, if_neg h3]
    by_cases h4 : (b == 110) = true
    · simp only [h4, if_true]; split <;> rfl
    rw [if_neg h4, if_neg h4]
    by_cases h5 : (b == 116) = true
    · simp only [h5, if_true]; split <;> rfl
    rw [if_neg h5, if_neg h5]
    by_cases h6 : (b == 102) = true
    · simp only [h6, if_true]; split <;> rfl
    rw [if_neg h6, if_neg h6]
    by_cases h7 : (b == 45 || isDigit b) = true
    · simp only [h7, if_true]
      cases lexNumber (r.length + 2) (if (b == 45) = true then NS.neg else if (b == 48) = true then NS.s0 else NS.s1) r [b] with
      | none => rfl
      | some p =>
        obtain ⟨text, r'⟩ := p
        simp only
        cases numTok text <;> rfl
    rw [if_neg h7, if_neg h7]
    rfl

def numSt (b : Nat) : NS := if b == 45 then .neg else if b == 48 then .s0 else .s1

theorem decNumber_some (r : Bytes) (pb b : Nat) (text r' : Bytes) (body : Body)
    (h : lexNumber (r.length + 2) (numSt b) r [b] = some (text, r')) (ht : numTok text = .ok body) :
    ∃ pb', decNumber ⟨r, none, pb⟩ b = (.ok (body, ⟨r', none, pb'⟩), ⟨r', none, pb'⟩) := by
  obtain ⟨pb', hp⟩ := scanNumber_some _ _ _ _ pb _ _ h
  refine ⟨pb', ?_⟩
  unfold numSt at hp
  simp only [decNumber, hp, ht]

theorem decNumber_none (r : Bytes) (pb b : Nat)
    (h : lexNumber (r.length + 2) (numSt b) r [b] = none) :
    ∃ e rd', decNumber ⟨r, none, pb⟩ b = (.error e, rd') := by
  obtain ⟨e, rd', hp⟩ := scanNumber_none _ _ _ _ pb h
  refine ⟨e, rd', ?_⟩
  unfold numSt at hp
  simp only [decNumber, hp]

theorem decNumber_range (r : Bytes) (pb b : Nat) (text r' : Bytes) (e : Err)
    (h : lexNumber (r.length + 2) (numSt b) r [b] = some (text, r')) (ht : numTok text = .error e) :
    ∃ e rd', decNumber ⟨r, none, pb⟩ b = (.error e, rd') := by
  obtain ⟨pb', hp⟩ := scanNumber_some _ _ _ _ pb _ _ h
  refine ⟨e, ⟨r', none, pb'⟩, ?_⟩
  unfold numSt at hp
  simp only [decNumber, hp, ht]

theorem av_scalar_some (b : Nat) (r : Bytes) (body : Body) (r' : Bytes)
    (h : refScalar b r = some (body, r')) (h1 : b ≠ 123) (h2 : b ≠ 91) (s : St) (pb : Nat) :
    ∃ pb', acceptValue s ⟨r, none, pb⟩ b = ⟨s, ⟨r', none, pb'⟩, .tok ⟨body, none⟩ true⟩ := by
  unfold refScalar at h
  unfold acceptValue
  rw [if_neg (by simpa using h1), if_neg (by simpa using h2)]
  by_cases h34 : b = 34
  · subst h34
    simp only [beq_self_eq_true, if_true] at h
    cases hl : lexString (r.length + 1) .normal r [] with
    | none => rw [hl] at h; simp at h
    | some p =>
      obtain ⟨raw, r1⟩ := p
      rw [hl] at h
      simp only [Option.map_some, Option.some.injEq, Prod.mk.injEq] at h
      refine ⟨0, ?_⟩
      simp [decString_some r pb raw r1 hl, h.1, h.2]
  rw [if_neg (by simpa using h34)] at h
  by_cases h110 : b = 110
  · subst h110
    simp only [beq_self_eq_true, if_true] at h
    split at h
    · rename_i hs
      simp only [Option.some.injEq, Prod.mk.injEq] at h
      obtain ⟨rfl, rfl⟩ := h
      refine ⟨0, ?_⟩
      simp [literal_ok s r pb [117, 108, 108] .null (by simp) hs]
    · cases h
  rw [if_neg (by simpa using h110)] at h
  by_cases h116 : b = 116
  · subst h116
    simp only [beq_self_eq_true, if_true] at h
    split at h
    · rename_i hs
      simp only [Option.some.injEq, Prod.mk.injEq] at h
      obtain ⟨rfl, rfl⟩ := h
      refine ⟨0, ?_⟩
      simp [literal_ok s r pb [114, 117, 101] (.bool true) (by simp) hs]
    · cases h
  rw [if_neg (by simpa using h116)] at h
  by_cases h102 : b = 102
  · subst h102
    simp only [beq_self_eq_true, if_true] at h
    split at h
    · rename_i hs
      simp only [Option.some.injEq, Prod.mk.injEq] at h
      obtain ⟨rfl, rfl⟩ := h
      refine ⟨0, ?_⟩
      simp [literal_ok s r pb [97, 108, 115, 101] (.bool false) (by simp) hs]
    · cases h
  rw [if_neg (by simpa using h102)] at h
  by_cases hn : (b == 45 || isDigit b) = true
  · rw [if_pos hn] at h
    simp only at h
    rw [if_neg (by simpa using h110), if_neg (by simpa using h34), if_neg (by simpa using h102),
      if_neg (by simpa using h116), if_pos hn]
    cases hl : lexNumber (r.length + 2) (numSt b) r [b] with
    | none => unfold numSt at hl; rw [hl] at h; simp at h
    | some p =>
      obtain ⟨text, r1⟩ := p
      have hl' := hl
      unfold numSt at hl'
      rw [hl'] at h
      simp only at h
      cases ht : numTok text with
      | error e => rw [ht] at h; simp at h
      | ok body' =>
        rw [ht] at h
        simp only [Option.some.injEq, Prod.mk.injEq] at h
        obtain ⟨pb', hd⟩ := decNumber_some r pb b text r1 body' hl ht
        refine ⟨pb', ?_⟩
        simp only [hd, h.1, h.2]
  · rw [if_neg hn] at h
    cases h

theorem av_scalar_none (b : Nat) (r : Bytes)
    (h : refScalar b r = none) (h1 : b ≠ 123) (h2 : b ≠ 91) (s : St) (pb : Nat) :
    ∃ e rd', acceptValue s ⟨r, none, pb⟩ b = ⟨s, rd', .err e⟩ := by
  unfold refScalar at h
  unfold acceptValue
  rw [if_neg (by simpa using h1), if_neg (by simpa using h2)]
  by_cases h34 : b = 34
  · subst h34
    simp only [beq_self_eq_true, if_true, Option.map_eq_none_iff] at h
    obtain ⟨e, rd', hd⟩ := decString_none r pb h
    exact ⟨e, rd', by simp [hd]⟩
  rw [if_neg (by simpa using h34)] at h
  by_cases h110 : b = 110
  · subst h110
    simp only [beq_self_eq_true, if_true] at h
    split at h
    · cases h
    · rename_i hs
      obtain ⟨e, rd', hd⟩ := literal_bad s r pb [117, 108, 108] .null (by simp) (by simpa using hs)
      exact ⟨e, rd', by simp [hd]⟩
  rw [if_neg (by simpa using h110)] at h
  by_cases h116 : b = 116
  · subst h116
    simp only [beq_self_eq_true, if_true] at h
    split at h
    · cases h
    · rename_i hs
      obtain ⟨e, rd', hd⟩ := literal_bad s r pb [114, 117, 101] (.bool true) (by simp) (by simpa using hs)
      exact ⟨e, rd', by simp [hd]⟩
  rw [if_neg (by simpa using h116)] at h
  by_cases h102 : b = 102
  · subst h102
    simp only [beq_self_eq_true, if_true] at h
    split at h
    · cases h
    · rename_i hs
      obtain ⟨e, rd', hd⟩ := literal_bad s r pb [97, 108, 115, 101] (.bool false) (by simp) (by simpa using hs)
      exact ⟨e, rd', by simp [hd]⟩
  rw [if_neg (by simpa using h102)] at h
  rw [if_neg (by simpa using h110), if_neg (by simpa using h34), if_neg (by simpa using h102),
    if_neg (by simpa using h116)]
  by_cases hn : (b == 45 || isDigit b) = true
  · rw [if_pos hn] at h
    simp only at h
    rw [if_pos hn]
    cases hl : lexNumber (r.length + 2) (numSt b) r [b] with
    | none =>
      obtain ⟨e, rd', hd⟩ := decNumber_none r pb b hl
      exact ⟨e, rd', by simp only [hd]⟩
    | some p =>
      obtain ⟨text, r1⟩ := p
      have hl' := hl
      unfold numSt at hl'
      rw [hl'] at h
      simp only at h
      cases ht : numTok text with
      | ok body' => rw [ht] at h; simp at h
      | error e0 =>
        obtain ⟨e, rd', hd⟩ := decNumber_range r pb b text r1 e0 hl ht
        exact ⟨e, rd', by simp only [hd]⟩
  · rw [if_neg hn]
    exact ⟨_, _, rfl⟩

/-! ### `run`, one step at a time -/

def IsErr (o : RunOut) : Prop := ∃ e, o.res = .error e

/-- the stack pop at the end of `step` -/
def post (o : Out) : Out :=
  match o.ret with
  | .err _ => o
  | .tok _ false => o
  | .tok t true =>
    match o.st.stack with
    | [] => o
    | [_] => o
    | f :: rest => { o with st := ⟨rest, f⟩, ret := .tok t false }

theorem step_eq (s : St) (rd : Rd) : step s rd = post (subStep s rd) := rfl

/-- `run` after its first step produced `o` -/
def runFrom (F : Nat) (o : Out) (acc : List Tok) (steps : Nat) : RunOut :=
  match o.ret with
  | .err e => ⟨acc.reverse, .error e, o.rd, steps + 1⟩
  | .tok t true => ⟨(t :: acc).reverse, .ok (), o.rd, steps + 1⟩
  | .tok t false => run F o.st o.rd (t :: acc) (steps + 1)

theorem run_succ (F : Nat) (s : St) (rd : Rd) (acc : List Tok) (steps : Nat) :
    run (F + 1) s rd acc steps = runFrom F (step s rd) acc steps := by
  simp only [run, runFrom]
  split <;> simp_all

/-- where the machine is after the value (or container) read in state `s` is complete:
    finished if `s` is the top level, otherwise running on from `s` -/
def fin (s : St) (F : Nat) (rd : Rd) (acc : List Tok) (steps : Nat) : RunOut :=
  match s.stack with
  | [] => ⟨acc.reverse, .ok (), rd, steps⟩
  | _ :: _ => run F s rd acc steps

theorem run_err_mono (k : Nat) : ∀ (F : Nat) (s : St) (rd : Rd) (acc : List Tok) (steps : Nat),
    IsErr (run (F + k) s rd acc steps) → IsErr (run F s rd acc steps) := by
  intro F
  induction F with
  | zero => intro s rd acc steps _; exact ⟨_, rfl⟩
  | succ F ih =>
    intro s rd acc steps h
    have e : F + 1 + k = (F + k) + 1 := by omega
    rw [e] at h
    simp only [run] at h ⊢
    split
    · exact ⟨_, rfl⟩
    · rename_i t ht
      rw [ht] at h
      obtain ⟨e, he⟩ := h
      cases he
    · rename_i t ht
      rw [ht] at h
      exact ih _ _ _ _ h

theorem runFrom_err_mono (k F : Nat) (o : Out) (acc : List Tok) (steps : Nat)
    (h : IsErr (runFrom (F + k) o acc steps)) : IsErr (runFrom F o acc steps) := by
  unfold runFrom at h ⊢
  split
  · exact ⟨_, rfl⟩
  · rename_i t ht
    rw [ht] at h
    exact h
  · rename_i t ht
    rw [ht] at h
    exact run_err_mono k _ _ _ _ _ h

theorem run_of_sub_err (F : Nat) (s : St) (rd : Rd) (acc : List Tok) (steps : Nat) (s' : St) (rd' : Rd) (e : Err)
    (h : subStep s rd = ⟨s', rd', .err e⟩) : IsErr (run F s rd acc steps) := by
  cases F with
  | zero => exact ⟨_, rfl⟩
  | succ F =>
    rw [run_succ, step_eq, h]
    exact ⟨e, rfl⟩

/-- a sub-step that closes the container whose frame sits on `p :: rest` -/
theorem run_of_sub_done (F : Nat) (s : St) (rd : Rd) (acc : List Tok) (steps : Nat)
    (p : JsonDec.Frame) (rest : List JsonDec.Frame) (fr : JsonDec.Frame) (rd' : Rd) (t : Tok)
    (h : subStep s rd = ⟨⟨p :: rest, fr⟩, rd', .tok t true⟩) :
    run (F + 1) s rd acc steps = fin ⟨rest, p⟩ F rd' (t :: acc) (steps + 1) := by
  rw [run_succ, step_eq, h]
  cases rest with
  | nil => rfl
  | cons q rest' => rfl

/-- the first step of a value read by `acceptValue` in state `sIn` -/
def entryOut (sIn : St) (rd1 : Rd) (b : Nat) : Out :=
  if sIn.stack.isEmpty then post (acceptValue sIn rd1 b) else inContainer (acceptValue sIn rd1 b)

theorem post_inContainer (o : Out) : post (inContainer o) = inContainer o := by
  unfold inContainer
  split
  · rename_i t d h; simp only [post]
  · rename_i e h; simp only [post, h]

theorem step_of_sub_nested (s sIn : St) (rd rd1 : Rd) (b : Nat) (q : JsonDec.Frame) (stk : List JsonDec.Frame)
    (hq : sIn.stack = q :: stk) (h : subStep s rd = inContainer (acceptValue sIn rd1 b)) :
    step s rd = entryOut sIn rd1 b := by
  rw [step_eq, h, post_inContainer]
  simp [entryOut, hq]

/-! ### The reference reader: normal forms and consumed lengths -/

/-- where the next entry of a container starts (after the comma if one is required) -/
def es (sm : Bool) (b : Nat) (r : Bytes) : Option Bytes :=
  if sm then (if b == 44 then some (skip r) else none) else some (b :: r)

theorem parseValue_nil (f : Nat) : parseValue f [] = none := by
  cases f with
  | zero => simp [parseValue]
  | succ f => simp [parseValue, skip]

theorem parseElements_succ (f : Nat) (bs : Bytes) (sm : Bool) :
    parseElements (f + 1) bs sm =
      match skip bs with
      | [] => none
      | b :: r =>
        if b == 93 then some ([], r) else
        match es sm b r with
        | none => none
        | some [] => none
        | some (b1 :: r1) =>
          if b1 == 93 then some ([], r1) else
          match parseValue f (b1 :: r1) with
          | none => none
          | some (v, r2) => (parseElements f r2 true).map fun (vs, r3) => (v :: vs, r3) := by
  rw [parseElements]
  cases hs : skip bs with
  | nil => rfl
  | cons b r =>
    simp only
    by_cases h93 : (b == 93) = true
    · simp only [h93, if_true]
    rw [if_neg h93, if_neg h93]
    cases sm with
    | false => simp only [es, Bool.false_eq_true, if_false, if_neg h93]; rfl
    | true =>
      simp only [es, if_true]
      by_cases h44 : (b == 44) = true
      · simp only [h44, if_true]
        cases hr : skip r with
        | nil => simp [parseValue_nil]
        | cons b1 r1 =>
          by_cases h : b1 = 93
          · subst h; simp
          · have h' : ¬ ((b1 == 93) = true) := by simpa using h
            simp only [if_neg h']
            split
            · rename_i r' he; simp at he; exact (h he.1).elim
            · rfl
      · simp [h44]

def unq (raw : Bytes) : Bytes := (parseString (raw.length + 1) raw).getD []

theorem parseMembers_succ (f : Nat) (bs : Bytes) (sm : Bool) :
    parseMembers (f + 1) bs sm =
      match skip bs with
      | [] => none
      | b :: r =>
        if b == 125 then some ([], r) else
        match es sm b r with
        | none => none
        | some [] => none
        | some (b1 :: r1) =>
          if b1 == 125 then some ([], r1) else
          if b1 == 34 then
            match lexString (r1.length + 1) .normal r1 [] with
            | none => none
            | some (raw, r2) =>
              match skip r2 with
              | [] => none
              | c :: r3 =>
                if c == 58 then
                  match parseValue f r3 with
                  | none => none
                  | some (v, r4) =>
                    (parseMembers f r4 true).map fun (es, r5) =>
                      ((.scalar ⟨.str (unq raw), none⟩, v) :: es, r5)
                else none
          else none := by
  rw [parseMembers]
  cases hs : skip bs with
  | nil => rfl
  | cons b r =>
    simp only
    by_cases h125 : (b == 125) = true
    · simp only [h125, if_true]
    rw [if_neg h125, if_neg h125]
    have key : ∀ (b1 : Nat) (r1 : Bytes) (hsm : b1 = 125 → sm = true),
        (match b1 :: r1 with
          | 125 :: r' => if sm = true then some ([], r') else none
          | 34 :: r1 =>
            match lexString (r1.length + 1) .normal r1 [] with
            | none => none
            | some (raw, r2) =>
              match skip r2 with
              | 58 :: r3 =>
                match parseValue f r3 with
                | none => none
                | some (v, r4) =>
                  (parseMembers f r4 true).map fun (es, r5) =>
                    ((TV.scalar ⟨.str ((parseString (raw.length + 1) raw).getD []), none⟩, v) :: es, r5)
              | _ => none
          | _ => none) =
        (if b1 == 125 then some ([], r1) else
          if b1 == 34 then
            match lexString (r1.length + 1) .normal r1 [] with
            | none => none
            | some (raw, r2) =>
              match skip r2 with
              | [] => none
              | c :: r3 =>
                if c == 58 then
                  match parseValue f r3 with
                  | none => none
                  | some (v, r4) =>
                    (parseMembers f r4 true).map fun (es, r5) =>
                      ((.scalar ⟨.str (unq raw), none⟩, v) :: es, r5)
                else none
          else none) := by
      intro b1 r1 hsm
      by_cases h1 : b1 = 125
      · subst h1; simp [hsm rfl]
      by_cases h2 : b1 = 34
      · subst h2
        simp only [show (34 == 125) = false by decide, Bool.false_eq_true, if_false, beq_self_eq_true, if_true]
        cases lexString (r1.length + 1) .normal r1 [] with
        | none => rfl
        | some p =>
          obtain ⟨raw, r2⟩ := p
          simp only
          cases skip r2 with
          | nil => rfl
          | cons c r3 =>
            by_cases h58 : c = 58
            · subst h58; simp only [beq_self_eq_true, if_true]; rfl
            · have h' : ¬ ((c == 58) = true) := by simpa using h58
              simp only [if_neg h']
              split
              · rename_i he; simp at he; exact (h58 he.1).elim
              · rfl
      · have h1' : ¬ ((b1 == 125) = true) := by simpa using h1
        have h2' : ¬ ((b1 == 34) = true) := by simpa using h2
        rw [if_neg h1', if_neg h2']
        split
        · rename_i he; simp at he; exact (h1 he.1).elim
        · rename_i he; simp at he; exact (h2 he.1).elim
        · rfl
    cases sm with
    | false =>
      simp only [es, Bool.false_eq_true, if_false]
      have := key b r (by intro hb; simp [hb] at h125)
      simp only [Bool.false_eq_true, if_false] at this
      exact this
    | true =>
      simp only [es, if_true]
      by_cases h44 : (b == 44) = true
      · simp only [h44, if_true]
        cases hr : skip r with
        | nil => rfl
        | cons b1 r1 =>
          have := key b1 r1 (by intro _; rfl)
          simp only [if_true] at this
          exact this
      · simp [h44]

theorem lexString_len (n : Nat) : ∀ (st : SS) (bs acc raw r' : Bytes),
    lexString n st bs acc = some (raw, r') → r'.length < bs.length := by
  induction n with
  | zero => intro st bs acc raw r' h; simp [lexString] at h
  | succ n ih =>
    intro st bs acc raw r' h
    cases bs with
    | nil => simp [lexString] at h
    | cons b r =>
      simp only [lexString] at h
      cases hs : strStep st b with
      | error e => rw [hs] at h; simp at h
      | ok o =>
        rw [hs] at h
        cases o with
        | none =>
          simp only [Option.some.injEq, Prod.mk.injEq] at h
          simp [← h.2]
        | some st' =>
          have := ih st' r (b :: acc) raw r' h
          simp only [List.length_cons]; omega

theorem lexNumber_len (n : Nat) : ∀ (st : NS) (bs acc text r' : Bytes),
    lexNumber n st bs acc = some (text, r') → r'.length ≤ bs.length := by
  induction n with
  | zero => intro st bs acc text r' h; simp [lexNumber] at h
  | succ n ih =>
    intro st bs acc text r' h
    cases bs with
    | nil =>
      simp only [lexNumber] at h
      split at h
      · cases h
      · simp only [Option.some.injEq, Prod.mk.injEq] at h
        simp [← h.2]
    | cons b r =>
      simp only [lexNumber] at h
      cases hs : numStep st b with
      | error e => rw [hs] at h; simp at h
      | ok o =>
        rw [hs] at h
        cases o with
        | none =>
          simp only [Option.some.injEq, Prod.mk.injEq] at h
          simp [← h.2]
        | some st' =>
          have := ih st' r (b :: acc) text r' h
          simp only [List.length_cons]; omega

theorem refScalar_len (b : Nat) (r : Bytes) (body : Body) (r' : Bytes) (h : refScalar b r = some (body, r')) :
    r'.length ≤ r.length := by
  unfold refScalar at h
  split at h
  · cases hl : lexString (r.length + 1) .normal r [] with
    | none => rw [hl] at h; simp at h
    | some p =>
      obtain ⟨raw, r1⟩ := p
      rw [hl] at h
      simp only [Option.map_some, Option.some.injEq, Prod.mk.injEq] at h
      have := lexString_len _ _ _ _ _ _ hl
      rw [← h.2]; omega
  split at h
  · split at h
    · simp only [Option.some.injEq, Prod.mk.injEq] at h; rw [← h.2]; simp
    · cases h
  split at h
  · split at h
    · simp only [Option.some.injEq, Prod.mk.injEq] at h; rw [← h.2]; simp
    · cases h
  split at h
  · split at h
    · simp only [Option.some.injEq, Prod.mk.injEq] at h; rw [← h.2]; simp
    · cases h
  split at h
  · simp only at h
    split at h
    · cases h
    · rename_i text r1 hl
      split at h
      · simp only [Option.some.injEq, Prod.mk.injEq] at h
        have := lexNumber_len _ _ _ _ _ _ hl
        rw [← h.2]; exact this
      · cases h
  · cases h

def PVlen (f : Nat) : Prop := ∀ (bs : Bytes) (v : TV) (r' : Bytes),
  parseValue f bs = some (v, r') → v.flatten.length + r'.length ≤ bs.length
def PElen (f : Nat) : Prop := ∀ (bs : Bytes) (sm : Bool) (vs : List TV) (r' : Bytes),
  parseElements f bs sm = some (vs, r') → (TV.flattenList vs).length + 1 + r'.length ≤ bs.length
def PMlen (f : Nat) : Prop := ∀ (bs : Bytes) (sm : Bool) (ms : List (TV × TV)) (r' : Bytes),
  parseMembers f bs sm = some (ms, r') → (TV.flattenEntries ms).length + 1 + r'.length ≤ bs.length

theorem es_len (sm : Bool) (b : Nat) (r ks : Bytes) (h : es sm b r = some ks) : ks.length ≤ r.length + 1 := by
  unfold es at h
  split at h
  · split at h
    · simp only [Option.some.injEq] at h; rw [← h]; have := skip_len r; omega
    · cases h
  · simp only [Option.some.injEq] at h; rw [← h]; simp

theorem parse_len (f : Nat) : PVlen f ∧ PElen f ∧ PMlen f := by
  induction f with
  | zero =>
    refine ⟨?_, ?_, ?_⟩
    · intro bs v r' h; simp [parseValue] at h
    · intro bs sm vs r' h; simp [parseElements] at h
    · intro bs sm ms r' h; simp [parseMembers] at h
  | succ f ih =>
    obtain ⟨ihV, ihE, ihM⟩ := ih
    refine ⟨?_, ?_, ?_⟩
    · intro bs v r' h
      rw [parseValue_succ] at h
      have hsl := skip_len bs
      cases hs : skip bs with
      | nil => rw [hs] at h; simp at h
      | cons b r =>
        rw [hs] at h hsl
        simp only [List.length_cons] at hsl
        simp only at h
        split at h
        · cases hm : parseMembers f r false with
          | none => rw [hm] at h; simp at h
          | some p =>
            obtain ⟨ms, r1⟩ := p
            rw [hm] at h
            simp only [Option.map_some, Option.some.injEq, Prod.mk.injEq] at h
            have := ihM _ _ _ _ hm
            rw [← h.1, ← h.2]
            simp only [TV.flatten, List.length_cons, List.length_append, List.length_nil]
            omega
        split at h
        · cases hm : parseElements f r false with
          | none => rw [hm] at h; simp at h
          | some p =>
            obtain ⟨vs, r1⟩ := p
            rw [hm] at h
            simp only [Option.map_some, Option.some.injEq, Prod.mk.injEq] at h
            have := ihE _ _ _ _ hm
            rw [← h.1, ← h.2]
            simp only [TV.flatten, List.length_cons, List.length_append, List.length_nil]
            omega
        · cases hm : refScalar b r with
          | none => rw [hm] at h; simp at h
          | some p =>
            obtain ⟨body, r1⟩ := p
            rw [hm] at h
            simp only [Option.map_some, Option.some.injEq, Prod.mk.injEq] at h
            have := refScalar_len _ _ _ _ hm
            rw [← h.1, ← h.2]
            simp only [TV.flatten, List.length_cons, List.length_nil]
            omega
    · intro bs sm vs r' h
      rw [parseElements_succ] at h
      have hsl := skip_len bs
      cases hs : skip bs with
      | nil => rw [hs] at h; simp at h
      | cons b r =>
        rw [hs] at h hsl
        simp only [List.length_cons] at hsl
        simp only at h
        split at h
        · simp only [Option.some.injEq, Prod.mk.injEq] at h
          rw [← h.1, ← h.2]; simp [TV.flattenList]; omega
        cases he : es sm b r with
        | none => rw [he] at h; simp at h
        | some ks =>
          have hk := es_len _ _ _ _ he
          rw [he] at h
          cases ks with
          | nil => simp at h
          | cons b1 r1 =>
            simp only [List.length_cons] at hk
            simp only at h
            split at h
            · simp only [Option.some.injEq, Prod.mk.injEq] at h
              rw [← h.1, ← h.2]; simp [TV.flattenList]; omega
            cases hv : parseValue f (b1 :: r1) with
            | none => rw [hv] at h; simp at h
            | some p =>
              obtain ⟨v, r2⟩ := p
              rw [hv] at h
              simp only at h
              have h1 := ihV _ _ _ hv
              simp only [List.length_cons] at h1
              cases hm : parseElements f r2 true with
              | none => rw [hm] at h; simp at h
              | some p =>
                obtain ⟨vs', r3⟩ := p
                rw [hm] at h
                simp only [Option.map_some, Option.some.injEq, Prod.mk.injEq] at h
                have h2 := ihE _ _ _ _ hm
                rw [← h.1, ← h.2]
                simp only [TV.flattenList, List.length_append]
                omega
    · intro bs sm ms r' h
      rw [parseMembers_succ] at h
      have hsl := skip_len bs
      cases hs : skip bs with
      | nil => rw [hs] at h; simp at h
      | cons b r =>
        rw [hs] at h hsl
        simp only [List.length_cons] at hsl
        simp only at h
        split at h
        · simp only [Option.some.injEq, Prod.mk.injEq] at h
          rw [← h.1, ← h.2]; simp [TV.flattenEntries]; omega
        cases he : es sm b r with
        | none => rw [he] at h; simp at h
        | some ks =>
          have hk := es_len _ _ _ _ he
          rw [he] at h
          cases ks with
          | nil => simp at h
          | cons b1 r1 =>
            simp only [List.length_cons] at hk
            simp only at h
            split at h
            · simp only [Option.some.injEq, Prod.mk.injEq] at h
              rw [← h.1, ← h.2]; simp [TV.flattenEntries]; omega
            split at h
            · cases hl : lexString (r1.length + 1) .normal r1 [] with
              | none => rw [hl] at h; simp at h
              | some p =>
                obtain ⟨raw, r2⟩ := p
                rw [hl] at h
                simp only at h
                have h0 := lexString_len _ _ _ _ _ _ hl
                have hsl2 := skip_len r2
                cases hs2 : skip r2 with
                | nil => rw [hs2] at h; simp at h
                | cons c r3 =>
                  rw [hs2] at h hsl2
                  simp only [List.length_cons] at hsl2
                  simp only at h
                  split at h
                  · cases hv : parseValue f r3 with
                    | none => rw [hv] at h; simp at h
                    | some p =>
                      obtain ⟨v, r4⟩ := p
                      rw [hv] at h
                      simp only at h
                      have h1 := ihV _ _ _ hv
                      cases hm : parseMembers f r4 true with
                      | none => rw [hm] at h; simp at h
                      | some p =>
                        obtain ⟨ms', r5⟩ := p
                        rw [hm] at h
                        simp only [Option.map_some, Option.some.injEq, Prod.mk.injEq] at h
                        have h2 := ihM _ _ _ _ hm
                        rw [← h.1, ← h.2]
                        simp only [TV.flattenEntries, TV.flatten, List.length_append, List.length_cons,
                          List.length_nil]
                        omega
                  · cases h
            · cases h

/-! ### Sub-steps of the machine -/

theorem sub_eof (s : St) (bs : Bytes) (pb : Nat) (hs : skip bs = []) :
    ∃ rd' e, subStep s ⟨bs, none, pb⟩ = ⟨s, rd', .err e⟩ := by
  obtain ⟨rd', h⟩ := skipWs_nil (bs.length + 1) bs pb (by omega) hs
  exact ⟨rd', .eof, by simp only [subStep, h]⟩

theorem sub_ok (s : St) (bs : Bytes) (pb b : Nat) (r : Bytes) (hs : skip bs = b :: r) :
    subStep s ⟨bs, none, pb⟩ =
      match s.frame.k with
      | .value => acceptValue s ⟨r, none, 0⟩ b
      | .arr => afterSome s ⟨r, none, 0⟩ b 93 .arrClose arrEntry
      | .mapKey => afterSome s ⟨r, none, 0⟩ b 125 .mapClose mapEntry
      | .mapVal => inContainer (acceptValue { s with frame := ⟨.mapKey, true⟩ } ⟨r, none, 0⟩ b) := by
  simp only [subStep, skipWs_cons (bs.length + 1) bs pb b r (by omega) hs]
  rfl

theorem afterSome_none (s : St) (sm : Bool) (hsm : s.frame.some = sm) (r : Bytes) (b close : Nat) (ct : Body)
    (entry : St → Rd → Nat → Out) (hb : b ≠ close) (he : es sm b r = none) :
    ∃ rd' e, afterSome s ⟨r, none, 0⟩ b close ct entry = ⟨s, rd', .err e⟩ := by
  unfold es at he
  cases sm with
  | false => simp at he
  | true =>
    simp only [if_true] at he
    split at he
    · cases he
    · rename_i h44
      exact ⟨_, _, by
        simp only [afterSome, hsm, if_true, if_neg h44, if_neg (show ¬ ((b == close) = true) by simpa using hb)]; rfl⟩

theorem afterSome_nil (s : St) (sm : Bool) (hsm : s.frame.some = sm) (r : Bytes) (b close : Nat) (ct : Body)
    (entry : St → Rd → Nat → Out) (hb : b ≠ close) (he : es sm b r = some []) :
    ∃ rd' e, afterSome s ⟨r, none, 0⟩ b close ct entry = ⟨s, rd', .err e⟩ := by
  unfold es at he
  cases sm with
  | false => simp at he
  | true =>
    simp only [if_true] at he
    split at he
    · rename_i h44
      simp only [Option.some.injEq] at he
      obtain ⟨rd', h⟩ := skipWs_nil (r.length + 1) r 0 (by omega) he
      exact ⟨rd', .eof, by
        simp only [afterSome, hsm, if_true, if_pos h44, if_neg (show ¬ ((b == close) = true) by simpa using hb), h]⟩
    · cases he

theorem afterSome_entry (s : St) (sm : Bool) (hsm : s.frame.some = sm) (r : Bytes) (b close : Nat) (ct : Body)
    (entry : St → Rd → Nat → Out) (hb : b ≠ close) (b1 : Nat) (r1 : Bytes) (he : es sm b r = some (b1 :: r1)) :
    afterSome s ⟨r, none, 0⟩ b close ct entry = entry s ⟨r1, none, 0⟩ b1 := by
  unfold es at he
  cases sm with
  | false =>
    simp only [Bool.false_eq_true, if_false, Option.some.injEq, List.cons.injEq] at he
    simp only [afterSome, hsm, Bool.false_eq_true, if_false, he.1, he.2]
  | true =>
    simp only [if_true] at he
    split at he
    · rename_i h44
      simp only [Option.some.injEq] at he
      have h := skipWs_cons (r.length + 1) r 0 b1 r1 (by omega) he
      simp only [afterSome, hsm, if_true, if_pos h44, if_neg (show ¬ ((b == close) = true) by simpa using hb), h]
    · cases he

theorem sub_arr_close (stk : List JsonDec.Frame) (sm : Bool) (bs : Bytes) (pb : Nat) (r : Bytes)
    (hs : skip bs = 93 :: r) :
    subStep ⟨stk, ⟨.arr, sm⟩⟩ ⟨bs, none, pb⟩ = ⟨⟨stk, ⟨.arr, sm⟩⟩, ⟨r, none, 0⟩, .tok ⟨.arrClose, none⟩ true⟩ := by
  rw [sub_ok _ _ _ _ _ hs]
  cases sm <;> simp [afterSome, arrEntry]

theorem sub_map_close (stk : List JsonDec.Frame) (sm : Bool) (bs : Bytes) (pb : Nat) (r : Bytes)
    (hs : skip bs = 125 :: r) :
    subStep ⟨stk, ⟨.mapKey, sm⟩⟩ ⟨bs, none, pb⟩ =
      ⟨⟨stk, ⟨.mapKey, sm⟩⟩, ⟨r, none, 0⟩, .tok ⟨.mapClose, none⟩ true⟩ := by
  rw [sub_ok _ _ _ _ _ hs]
  cases sm <;> simp [afterSome, mapEntry]

theorem sub_arr_none (stk : List JsonDec.Frame) (sm : Bool) (bs : Bytes) (pb b : Nat) (r : Bytes)
    (hs : skip bs = b :: r) (hb : b ≠ 93) (he : es sm b r = none ∨ es sm b r = some []) :
    ∃ rd' e, subStep ⟨stk, ⟨.arr, sm⟩⟩ ⟨bs, none, pb⟩ = ⟨⟨stk, ⟨.arr, sm⟩⟩, rd', .err e⟩ := by
  rw [sub_ok _ _ _ _ _ hs]
  rcases he with he | he
  · exact afterSome_none _ sm rfl r b 93 _ _ hb he
  · exact afterSome_nil _ sm rfl r b 93 _ _ hb he

theorem sub_map_none (stk : List JsonDec.Frame) (sm : Bool) (bs : Bytes) (pb b : Nat) (r : Bytes)
    (hs : skip bs = b :: r) (hb : b ≠ 125) (he : es sm b r = none ∨ es sm b r = some []) :
    ∃ rd' e, subStep ⟨stk, ⟨.mapKey, sm⟩⟩ ⟨bs, none, pb⟩ = ⟨⟨stk, ⟨.mapKey, sm⟩⟩, rd', .err e⟩ := by
  rw [sub_ok _ _ _ _ _ hs]
  rcases he with he | he
  · exact afterSome_none _ sm rfl r b 125 _ _ hb he
  · exact afterSome_nil _ sm rfl r b 125 _ _ hb he

theorem sub_arr_entry (stk : List JsonDec.Frame) (sm : Bool) (bs : Bytes) (pb b : Nat) (r : Bytes)
    (hs : skip bs = b :: r) (hb : b ≠ 93) (b1 : Nat) (r1 : Bytes) (he : es sm b r = some (b1 :: r1)) :
    subStep ⟨stk, ⟨.arr, sm⟩⟩ ⟨bs, none, pb⟩ = arrEntry ⟨stk, ⟨.arr, sm⟩⟩ ⟨r1, none, 0⟩ b1 := by
  rw [sub_ok _ _ _ _ _ hs]
  exact afterSome_entry _ sm rfl r b 93 _ _ hb b1 r1 he

theorem sub_map_entry (stk : List JsonDec.Frame) (sm : Bool) (bs : Bytes) (pb b : Nat) (r : Bytes)
    (hs : skip bs = b :: r) (hb : b ≠ 125) (b1 : Nat) (r1 : Bytes) (he : es sm b r = some (b1 :: r1)) :
    subStep ⟨stk, ⟨.mapKey, sm⟩⟩ ⟨bs, none, pb⟩ = mapEntry ⟨stk, ⟨.mapKey, sm⟩⟩ ⟨r1, none, 0⟩ b1 := by
  rw [sub_ok _ _ _ _ _ hs]
  exact afterSome_entry _ sm rfl r b 125 _ _ hb b1 r1 he

theorem arrEntry_close (s : St) (rd : Rd) : arrEntry s rd 93 = ⟨s, rd, .tok ⟨.arrClose, none⟩ true⟩ := by
  simp [arrEntry]

theorem arrEntry_value (stk : List JsonDec.Frame) (sm : Bool) (rd : Rd) (b : Nat) (hb : b ≠ 93) :
    arrEntry ⟨stk, ⟨.arr, sm⟩⟩ rd b = inContainer (acceptValue ⟨stk, ⟨.arr, true⟩⟩ rd b) := by
  simp [arrEntry, hb]

theorem mapEntry_close (s : St) (rd : Rd) : mapEntry s rd 125 = ⟨s, rd, .tok ⟨.mapClose, none⟩ true⟩ := by
  simp [mapEntry]

theorem mapEntry_notkey (s : St) (rd : Rd) (b : Nat) (h1 : b ≠ 125) (h2 : b ≠ 34) :
    mapEntry s rd b = ⟨s, rd, .err .syntax⟩ := by
  simp [mapEntry, h1, h2]

theorem mapEntry_badkey (s : St) (r1 : Bytes) (pb : Nat) (h : lexString (r1.length + 1) .normal r1 [] = none) :
    ∃ rd' e, mapEntry s ⟨r1, none, pb⟩ 34 = ⟨s, rd', .err e⟩ := by
  obtain ⟨e, rd', hd⟩ := decString_none r1 pb h
  exact ⟨rd', e, by simp [mapEntry, hd]⟩

theorem mapEntry_nocolon (s : St) (r1 : Bytes) (pb : Nat) (raw r2 : Bytes)
    (h : lexString (r1.length + 1) .normal r1 [] = some (raw, r2))
    (hc : skip r2 = [] ∨ ∃ c r3, skip r2 = c :: r3 ∧ c ≠ 58) :
    ∃ rd' e, mapEntry s ⟨r1, none, pb⟩ 34 = ⟨s, rd', .err e⟩ := by
  have hd := decString_some r1 pb raw r2 h
  rcases hc with hc | ⟨c, r3, hc, hne⟩
  · obtain ⟨rd', hw⟩ := skipWs_nil (r2.length + 1) r2 0 (by omega) hc
    exact ⟨rd', _, by simp [mapEntry, hd, hw]; rfl⟩
  · have hw := skipWs_cons (r2.length + 1) r2 0 c r3 (by omega) hc
    exact ⟨_, _, by simp [mapEntry, hd, hw, hne]; exact ⟨rfl, rfl⟩⟩

theorem mapEntry_key (stk : List JsonDec.Frame) (fr : JsonDec.Frame) (r1 : Bytes) (pb : Nat) (raw r2 r3 : Bytes)
    (h : lexString (r1.length + 1) .normal r1 [] = some (raw, r2)) (hc : skip r2 = 58 :: r3) :
    mapEntry ⟨stk, fr⟩ ⟨r1, none, pb⟩ 34 =
      ⟨⟨stk, ⟨.mapVal, false⟩⟩, ⟨r3, none, 0⟩, .tok ⟨.str (unq raw), none⟩ false⟩ := by
  have hd := decString_some r1 pb raw r2 h
  have hw := skipWs_cons (r2.length + 1) r2 0 58 r3 (by omega) hc
  simp [mapEntry, hd, hw, unq]

theorem sub_mapVal (stk : List JsonDec.Frame) (sm : Bool) (bs : Bytes) (pb b : Nat) (r : Bytes)
    (hs : skip bs = b :: r) :
    subStep ⟨stk, ⟨.mapVal, sm⟩⟩ ⟨bs, none, pb⟩ =
      inContainer (acceptValue ⟨stk, ⟨.mapKey, true⟩⟩ ⟨r, none, 0⟩ b) := by
  rw [sub_ok _ _ _ _ _ hs]

theorem sub_value (stk : List JsonDec.Frame) (sm : Bool) (bs : Bytes) (pb b : Nat) (r : Bytes)
    (hs : skip bs = b :: r) :
    subStep ⟨stk, ⟨.value, sm⟩⟩ ⟨bs, none, pb⟩ = acceptValue ⟨stk, ⟨.value, sm⟩⟩ ⟨r, none, 0⟩ b := by
  rw [sub_ok _ _ _ _ _ hs]

/-! ### The first step of a value -/

theorem entry_arr (sIn : St) (rd : Rd) :
    entryOut sIn rd 91 = ⟨push sIn .arr, rd, .tok ⟨.arrOpen (-1), none⟩ false⟩ := by
  unfold entryOut
  split <;> simp [acceptValue, post, inContainer]

theorem entry_map (sIn : St) (rd : Rd) :
    entryOut sIn rd 123 = ⟨push sIn .mapKey, rd, .tok ⟨.mapOpen (-1), none⟩ false⟩ := by
  unfold entryOut
  split <;> simp [acceptValue, post, inContainer]

theorem entry_scalar_some (b : Nat) (r : Bytes) (body : Body) (r' : Bytes)
    (h : refScalar b r = some (body, r')) (h1 : b ≠ 123) (h2 : b ≠ 91)
    (sIn : St) (pb F : Nat) (acc : List Tok) (steps : Nat) :
    ∃ pb', runFrom (F + 1) (entryOut sIn ⟨r, none, pb⟩ b) acc steps =
      fin sIn (F + 1) ⟨r', none, pb'⟩ (⟨body, none⟩ :: acc) (steps + 1) := by
  obtain ⟨pb', hav⟩ := av_scalar_some b r body r' h h1 h2 sIn pb
  refine ⟨pb', ?_⟩
  unfold entryOut
  rw [hav]
  obtain ⟨stk, fr⟩ := sIn
  cases stk with
  | nil => simp [post, runFrom, fin]
  | cons q stk => simp [inContainer, runFrom, fin]

theorem entry_scalar_none (b : Nat) (r : Bytes)
    (h : refScalar b r = none) (h1 : b ≠ 123) (h2 : b ≠ 91)
    (sIn : St) (pb F : Nat) (acc : List Tok) (steps : Nat) :
    IsErr (runFrom F (entryOut sIn ⟨r, none, pb⟩ b) acc steps) := by
  obtain ⟨e, rd', hav⟩ := av_scalar_none b r h h1 h2 sIn pb
  unfold entryOut
  rw [hav]
  split
  · exact ⟨e, by simp [post, runFrom]⟩
  · exact ⟨e, by simp [inContainer, runFrom]⟩

theorem fin_eta (sIn : St) (F : Nat) (rd : Rd) (acc : List Tok) (steps : Nat) :
    fin ⟨sIn.stack, sIn.frame⟩ F rd acc steps = fin sIn F rd acc steps := rfl

/-! ### The machine against the recursive reader: success -/

def VS (f : Nat) : Prop := ∀ (bs : Bytes) (v : TV) (r' : Bytes) (b : Nat) (r : Bytes),
  parseValue f bs = some (v, r') → skip bs = b :: r →
  ∀ (sIn : St) (pb F : Nat) (acc : List Tok) (steps : Nat),
    ∃ pb', runFrom (v.flatten.length + F) (entryOut sIn ⟨r, none, pb⟩ b) acc steps =
      fin sIn (F + 1) ⟨r', none, pb'⟩ (v.flatten.reverse ++ acc) (steps + v.flatten.length)

def ES (f : Nat) : Prop := ∀ (bs : Bytes) (sm : Bool) (vs : List TV) (r' : Bytes),
  parseElements f bs sm = some (vs, r') →
  ∀ (p : JsonDec.Frame) (rest : List JsonDec.Frame) (pb F : Nat) (acc : List Tok) (steps : Nat),
    run ((TV.flattenList vs).length + 1 + F) ⟨p :: rest, ⟨.arr, sm⟩⟩ ⟨bs, none, pb⟩ acc steps =
      fin ⟨rest, p⟩ F ⟨r', none, 0⟩ (⟨.arrClose, none⟩ :: ((TV.flattenList vs).reverse ++ acc))
        (steps + (TV.flattenList vs).length + 1)

def MS (f : Nat) : Prop := ∀ (bs : Bytes) (sm : Bool) (ms : List (TV × TV)) (r' : Bytes),
  parseMembers f bs sm = some (ms, r') →
  ∀ (p : JsonDec.Frame) (rest : List JsonDec.Frame) (pb F : Nat) (acc : List Tok) (steps : Nat),
    run ((TV.flattenEntries ms).length + 1 + F) ⟨p :: rest, ⟨.mapKey, sm⟩⟩ ⟨bs, none, pb⟩ acc steps =
      fin ⟨rest, p⟩ F ⟨r', none, 0⟩ (⟨.mapClose, none⟩ :: ((TV.flattenEntries ms).reverse ++ acc))
        (steps + (TV.flattenEntries ms).length + 1)

theorem VS_succ (f : Nat) (hE : ES f) (hM : MS f) : VS (f + 1) := by
  intro bs v r' b r h hs sIn pb F acc steps
  rw [parseValue_succ, hs] at h
  simp only at h
  by_cases h123 : b = 123
  · subst h123
    simp only [beq_self_eq_true, if_true] at h
    cases hm : parseMembers f r false with
    | none => rw [hm] at h; simp at h
    | some p =>
      obtain ⟨ms, r1⟩ := p
      rw [hm] at h
      simp only [Option.map_some, Option.some.injEq, Prod.mk.injEq] at h
      obtain ⟨rfl, rfl⟩ := h
      refine ⟨0, ?_⟩
      rw [entry_map]
      have := hM r false ms r1 hm sIn.frame sIn.stack pb (F + 1) (⟨.mapOpen (-1), none⟩ :: acc) (steps + 1)
      rw [fin_eta] at this
      have e1 : (TV.map none (-1) ms).flatten.length + F = (TV.flattenEntries ms).length + 1 + (F + 1) := by
        simp [TV.flatten]; omega
      simp only [runFrom, push]
      rw [e1, this]
      congr 1
      · simp [TV.flatten]
      · simp [TV.flatten]; omega
  rw [if_neg (by simpa using h123)] at h
  by_cases h91 : b = 91
  · subst h91
    simp only [beq_self_eq_true, if_true] at h
    cases hm : parseElements f r false with
    | none => rw [hm] at h; simp at h
    | some p =>
      obtain ⟨vs, r1⟩ := p
      rw [hm] at h
      simp only [Option.map_some, Option.some.injEq, Prod.mk.injEq] at h
      obtain ⟨rfl, rfl⟩ := h
      refine ⟨0, ?_⟩
      rw [entry_arr]
      have := hE r false vs r1 hm sIn.frame sIn.stack pb (F + 1) (⟨.arrOpen (-1), none⟩ :: acc) (steps + 1)
      rw [fin_eta] at this
      have e1 : (TV.arr none (-1) vs).flatten.length + F = (TV.flattenList vs).length + 1 + (F + 1) := by
        simp [TV.flatten]; omega
      simp only [runFrom, push]
      rw [e1, this]
      congr 1
      · simp [TV.flatten]
      · simp [TV.flatten]; omega
  rw [if_neg (by simpa using h91)] at h
  cases hm : refScalar b r with
  | none => rw [hm] at h; simp at h
  | some p =>
    obtain ⟨body, r1⟩ := p
    rw [hm] at h
    simp only [Option.map_some, Option.some.injEq, Prod.mk.injEq] at h
    obtain ⟨rfl, rfl⟩ := h
    obtain ⟨pb', hp⟩ := entry_scalar_some b r body r1 hm h123 h91 sIn pb F acc steps
    refine ⟨pb', ?_⟩
    have e1 : (TV.scalar ⟨body, none⟩).flatten.length + F = F + 1 := by simp [TV.flatten]; omega
    rw [e1, hp]
    simp [TV.flatten]

theorem es_skip (sm : Bool) (bs : Bytes) (b : Nat) (r ks : Bytes) (hs : skip bs = b :: r)
    (he : es sm b r = some ks) : skip ks = ks := by
  unfold es at he
  split at he
  · split at he
    · simp only [Option.some.injEq] at he; rw [← he]; exact skip_idem r
    · cases he
  · simp only [Option.some.injEq] at he; rw [← he]; exact skip_cons_notws r (skip_head hs)

theorem fin_cons (q : JsonDec.Frame) (stk : List JsonDec.Frame) (fr : JsonDec.Frame) (F : Nat) (rd : Rd)
    (acc : List Tok) (steps : Nat) :
    fin ⟨q :: stk, fr⟩ F rd acc steps = run F ⟨q :: stk, fr⟩ rd acc steps := rfl

theorem ES_succ (f : Nat) (hV : VS f) (hE : ES f) : ES (f + 1) := by
  intro bs sm vs r' h p rest pb F acc steps
  rw [parseElements_succ] at h
  cases hs : skip bs with
  | nil => rw [hs] at h; simp at h
  | cons b r =>
    rw [hs] at h
    simp only at h
    by_cases h93 : b = 93
    · subst h93
      simp only [beq_self_eq_true, if_true, Option.some.injEq, Prod.mk.injEq] at h
      obtain ⟨rfl, rfl⟩ := h
      have := run_of_sub_done F _ _ acc steps p rest ⟨.arr, sm⟩ _ _ (sub_arr_close (p :: rest) sm bs pb r hs)
      simpa [TV.flattenList, Nat.add_comm] using this
    rw [if_neg (by simpa using h93)] at h
    cases he : es sm b r with
    | none => rw [he] at h; simp at h
    | some ks =>
      rw [he] at h
      cases ks with
      | nil => simp at h
      | cons b1 r1 =>
        simp only at h
        have hsub := sub_arr_entry (p :: rest) sm bs pb b r hs h93 b1 r1 he
        by_cases h93' : b1 = 93
        · subst h93'
          simp only [beq_self_eq_true, if_true, Option.some.injEq, Prod.mk.injEq] at h
          obtain ⟨rfl, rfl⟩ := h
          rw [arrEntry_close] at hsub
          have := run_of_sub_done F _ _ acc steps p rest ⟨.arr, sm⟩ _ _ hsub
          simpa [TV.flattenList, Nat.add_comm] using this
        rw [if_neg (by simpa using h93')] at h
        rw [arrEntry_value _ _ _ _ h93'] at hsub
        have hstep := step_of_sub_nested _ ⟨p :: rest, ⟨.arr, true⟩⟩ _ _ _ p rest rfl hsub
        cases hv : parseValue f (b1 :: r1) with
        | none => rw [hv] at h; simp at h
        | some pr =>
          obtain ⟨v, r2⟩ := pr
          rw [hv] at h
          simp only at h
          cases hm : parseElements f r2 true with
          | none => rw [hm] at h; simp at h
          | some pr =>
            obtain ⟨vs', r3⟩ := pr
            rw [hm] at h
            simp only [Option.map_some, Option.some.injEq, Prod.mk.injEq] at h
            obtain ⟨rfl, rfl⟩ := h
            obtain ⟨pb', hV'⟩ := hV (b1 :: r1) v r2 b1 r1 hv (es_skip sm bs b r _ hs he)
              ⟨p :: rest, ⟨.arr, true⟩⟩ 0 ((TV.flattenList vs').length + F) acc steps
            have hE' := hE r2 true vs' r3 hm p rest pb' F (v.flatten.reverse ++ acc) (steps + v.flatten.length)
            have e1 : (TV.flattenList (v :: vs')).length + 1 + F =
                (v.flatten.length + ((TV.flattenList vs').length + F)) + 1 := by
              simp [TV.flattenList]; omega
            have e2 : (TV.flattenList vs').length + F + 1 = (TV.flattenList vs').length + 1 + F := by omega
            rw [e1, run_succ, hstep, hV', fin_cons, e2, hE']
            congr 1
            · simp [TV.flattenList]
            · simp [TV.flattenList]; omega

theorem MS_succ (f : Nat) (hV : VS f) (hM : MS f) : MS (f + 1) := by
  intro bs sm ms r' h p rest pb F acc steps
  rw [parseMembers_succ] at h
  cases hs : skip bs with
  | nil => rw [hs] at h; simp at h
  | cons b r =>
    rw [hs] at h
    simp only at h
    by_cases h125 : b = 125
    · subst h125
      simp only [beq_self_eq_true, if_true, Option.some.injEq, Prod.mk.injEq] at h
      obtain ⟨rfl, rfl⟩ := h
      have := run_of_sub_done F _ _ acc steps p rest ⟨.mapKey, sm⟩ _ _ (sub_map_close (p :: rest) sm bs pb r hs)
      simpa [TV.flattenEntries, Nat.add_comm] using this
    rw [if_neg (by simpa using h125)] at h
    cases he : es sm b r with
    | none => rw [he] at h; simp at h
    | some ks =>
      rw [he] at h
      cases ks with
      | nil => simp at h
      | cons b1 r1 =>
        simp only at h
        have hsub := sub_map_entry (p :: rest) sm bs pb b r hs h125 b1 r1 he
        by_cases h125' : b1 = 125
        · subst h125'
          simp only [beq_self_eq_true, if_true, Option.some.injEq, Prod.mk.injEq] at h
          obtain ⟨rfl, rfl⟩ := h
          rw [mapEntry_close] at hsub
          have := run_of_sub_done F _ _ acc steps p rest ⟨.mapKey, sm⟩ _ _ hsub
          simpa [TV.flattenEntries, Nat.add_comm] using this
        rw [if_neg (by simpa using h125')] at h
        by_cases h34 : b1 = 34
        · subst h34
          simp only [beq_self_eq_true, if_true] at h
          cases hl : lexString (r1.length + 1) .normal r1 [] with
          | none => rw [hl] at h; simp at h
          | some pr =>
            obtain ⟨raw, r2⟩ := pr
            rw [hl] at h
            simp only at h
            cases hs2 : skip r2 with
            | nil => rw [hs2] at h; simp at h
            | cons c r3 =>
              rw [hs2] at h
              simp only at h
              by_cases h58 : c = 58
              · subst h58
                simp only [beq_self_eq_true, if_true] at h
                rw [mapEntry_key _ _ _ _ _ _ _ hl hs2] at hsub
                cases hv : parseValue f r3 with
                | none => rw [hv] at h; simp at h
                | some pr =>
                  obtain ⟨v, r4⟩ := pr
                  rw [hv] at h
                  simp only at h
                  cases hm : parseMembers f r4 true with
                  | none => rw [hm] at h; simp at h
                  | some pr =>
                    obtain ⟨ms', r5⟩ := pr
                    rw [hm] at h
                    simp only [Option.map_some, Option.some.injEq, Prod.mk.injEq] at h
                    obtain ⟨rfl, rfl⟩ := h
                    -- the value starts at the first non-blank byte of r3
                    cases hs3 : skip r3 with
                    | nil =>
                      cases f with
                      | zero => simp [parseValue] at hv
                      | succ f => rw [parseValue_succ, hs3] at hv; simp at hv
                    | cons b4 r4' =>
                      have hsubV := sub_mapVal (p :: rest) false r3 0 b4 r4' hs3
                      have hstepV := step_of_sub_nested _ ⟨p :: rest, ⟨.mapKey, true⟩⟩ _ _ _ p rest rfl hsubV
                      obtain ⟨pb', hV'⟩ := hV r3 v r4 b4 r4' hv hs3
                        ⟨p :: rest, ⟨.mapKey, true⟩⟩ 0 ((TV.flattenEntries ms').length + F)
                        (⟨.str (unq raw), none⟩ :: acc) (steps + 1)
                      have hM' := hM r4 true ms' r5 hm p rest pb' F
                        (v.flatten.reverse ++ (⟨.str (unq raw), none⟩ :: acc)) (steps + 1 + v.flatten.length)
                      have e1 : (TV.flattenEntries ((TV.scalar ⟨.str (unq raw), none⟩, v) :: ms')).length + 1 + F =
                          ((v.flatten.length + ((TV.flattenEntries ms').length + F)) + 1) + 1 := by
                        simp [TV.flattenEntries, TV.flatten]; omega
                      have e2 : (TV.flattenEntries ms').length + F + 1 = (TV.flattenEntries ms').length + 1 + F := by
                        omega
                      rw [e1, run_succ, step_eq, hsub]
                      simp only [post, runFrom]
                      rw [run_succ, hstepV, hV', fin_cons, e2, hM']
                      congr 1
                      · simp [TV.flattenEntries, TV.flatten]
                      · simp [TV.flattenEntries, TV.flatten]; omega
              · rw [if_neg (by simpa using h58)] at h
                cases h
        · rw [if_neg (by simpa using h34)] at h
          cases h

/-! ### The machine against the recursive reader: rejection -/

def VF (f : Nat) : Prop := ∀ (bs : Bytes) (b : Nat) (r : Bytes),
  parseValue f bs = none → 2 * bs.length + 1 ≤ f → skip bs = b :: r →
  ∀ (sIn : St) (pb F : Nat) (acc : List Tok) (steps : Nat),
    IsErr (runFrom F (entryOut sIn ⟨r, none, pb⟩ b) acc steps)

def EF (f : Nat) : Prop := ∀ (bs : Bytes) (sm : Bool),
  parseElements f bs sm = none → 2 * bs.length + 2 ≤ f →
  ∀ (p : JsonDec.Frame) (rest : List JsonDec.Frame) (pb F : Nat) (acc : List Tok) (steps : Nat),
    IsErr (run F ⟨p :: rest, ⟨.arr, sm⟩⟩ ⟨bs, none, pb⟩ acc steps)

def MF (f : Nat) : Prop := ∀ (bs : Bytes) (sm : Bool),
  parseMembers f bs sm = none → 2 * bs.length + 2 ≤ f →
  ∀ (p : JsonDec.Frame) (rest : List JsonDec.Frame) (pb F : Nat) (acc : List Tok) (steps : Nat),
    IsErr (run F ⟨p :: rest, ⟨.mapKey, sm⟩⟩ ⟨bs, none, pb⟩ acc steps)

theorem flatten_pos (v : TV) : 1 ≤ v.flatten.length := by
  cases v <;> simp [TV.flatten]

theorem VF_succ (f : Nat) (hE : EF f) (hM : MF f) : VF (f + 1) := by
  intro bs b r h hf hs sIn pb F acc steps
  rw [parseValue_succ, hs] at h
  simp only at h
  have hsl := skip_len bs
  rw [hs] at hsl
  simp only [List.length_cons] at hsl
  by_cases h123 : b = 123
  · subst h123
    simp only [beq_self_eq_true, if_true, Option.map_eq_none_iff] at h
    rw [entry_map]
    simp only [runFrom, push]
    exact hM r false h (by omega) _ _ _ _ _ _
  rw [if_neg (by simpa using h123)] at h
  by_cases h91 : b = 91
  · subst h91
    simp only [beq_self_eq_true, if_true, Option.map_eq_none_iff] at h
    rw [entry_arr]
    simp only [runFrom, push]
    exact hE r false h (by omega) _ _ _ _ _ _
  rw [if_neg (by simpa using h91)] at h
  simp only [Option.map_eq_none_iff] at h
  exact entry_scalar_none b r h h123 h91 sIn pb F acc steps

theorem isErr_of_step (s : St) (rd : Rd) (acc : List Tok) (steps F : Nat)
    (h : ∀ F, IsErr (runFrom F (step s rd) acc steps)) : IsErr (run F s rd acc steps) := by
  cases F with
  | zero => exact ⟨_, rfl⟩
  | succ F => rw [run_succ]; exact h F

theorem EF_succ (f : Nat) (hVF : VF f) (hV : VS f) (hE : EF f) (hl : PVlen f) : EF (f + 1) := by
  intro bs sm h hf p rest pb F acc steps
  rw [parseElements_succ] at h
  have hsl := skip_len bs
  cases hs : skip bs with
  | nil =>
    obtain ⟨rd', e, hsub⟩ := sub_eof ⟨p :: rest, ⟨.arr, sm⟩⟩ bs pb hs
    exact run_of_sub_err F _ _ acc steps _ _ _ hsub
  | cons b r =>
    rw [hs] at h hsl
    simp only [List.length_cons] at hsl
    simp only at h
    by_cases h93 : b = 93
    · subst h93; simp at h
    rw [if_neg (by simpa using h93)] at h
    cases he : es sm b r with
    | none =>
      obtain ⟨rd', e, hsub⟩ := sub_arr_none (p :: rest) sm bs pb b r hs h93 (Or.inl he)
      exact run_of_sub_err F _ _ acc steps _ _ _ hsub
    | some ks =>
      have hk := es_len _ _ _ _ he
      rw [he] at h
      cases ks with
      | nil =>
        obtain ⟨rd', e, hsub⟩ := sub_arr_none (p :: rest) sm bs pb b r hs h93 (Or.inr he)
        exact run_of_sub_err F _ _ acc steps _ _ _ hsub
      | cons b1 r1 =>
        simp only [List.length_cons] at hk
        simp only at h
        have hsub := sub_arr_entry (p :: rest) sm bs pb b r hs h93 b1 r1 he
        by_cases h93' : b1 = 93
        · subst h93'; simp at h
        rw [if_neg (by simpa using h93')] at h
        rw [arrEntry_value _ _ _ _ h93'] at hsub
        have hstep := step_of_sub_nested _ ⟨p :: rest, ⟨.arr, true⟩⟩ _ _ _ p rest rfl hsub
        have hsk := es_skip sm bs b r _ hs he
        cases hv : parseValue f (b1 :: r1) with
        | none =>
          apply isErr_of_step
          intro F'
          rw [hstep]
          exact hVF (b1 :: r1) b1 r1 hv (by simp only [List.length_cons]; omega) hsk _ _ _ _ _
        | some pr =>
          obtain ⟨v, r2⟩ := pr
          rw [hv] at h
          simp only [Option.map_eq_none_iff] at h
          have hlen := hl _ _ _ hv
          simp only [List.length_cons] at hlen
          have hpos := flatten_pos v
          obtain ⟨pb', hV'⟩ := hV (b1 :: r1) v r2 b1 r1 hv hsk ⟨p :: rest, ⟨.arr, true⟩⟩ 0 F acc steps
          apply run_err_mono (v.flatten.length + 1)
          have e1 : F + (v.flatten.length + 1) = (v.flatten.length + F) + 1 := by omega
          rw [e1, run_succ, hstep, hV', fin_cons]
          exact hE r2 true h (by omega) _ _ _ _ _ _

theorem MF_succ (f : Nat) (hVF : VF f) (hV : VS f) (hM : MF f) (hl : PVlen f) : MF (f + 1) := by
  intro bs sm h hf p rest pb F acc steps
  rw [parseMembers_succ] at h
  have hsl := skip_len bs
  cases hs : skip bs with
  | nil =>
    obtain ⟨rd', e, hsub⟩ := sub_eof ⟨p :: rest, ⟨.mapKey, sm⟩⟩ bs pb hs
    exact run_of_sub_err F _ _ acc steps _ _ _ hsub
  | cons b r =>
    rw [hs] at h hsl
    simp only [List.length_cons] at hsl
    simp only at h
    by_cases h125 : b = 125
    · subst h125; simp at h
    rw [if_neg (by simpa using h125)] at h
    cases he : es sm b r with
    | none =>
      obtain ⟨rd', e, hsub⟩ := sub_map_none (p :: rest) sm bs pb b r hs h125 (Or.inl he)
      exact run_of_sub_err F _ _ acc steps _ _ _ hsub
    | some ks =>
      have hk := es_len _ _ _ _ he
      rw [he] at h
      cases ks with
      | nil =>
        obtain ⟨rd', e, hsub⟩ := sub_map_none (p :: rest) sm bs pb b r hs h125 (Or.inr he)
        exact run_of_sub_err F _ _ acc steps _ _ _ hsub
      | cons b1 r1 =>
        simp only [List.length_cons] at hk
        simp only at h
        have hsub := sub_map_entry (p :: rest) sm bs pb b r hs h125 b1 r1 he
        by_cases h125' : b1 = 125
        · subst h125'; simp at h
        rw [if_neg (by simpa using h125')] at h
        by_cases h34 : b1 = 34
        · subst h34
          simp only [beq_self_eq_true, if_true] at h
          cases hlx : lexString (r1.length + 1) .normal r1 [] with
          | none =>
            obtain ⟨rd', e, hme⟩ := mapEntry_badkey ⟨p :: rest, ⟨.mapKey, sm⟩⟩ r1 0 hlx
            rw [hme] at hsub
            exact run_of_sub_err F _ _ acc steps _ _ _ hsub
          | some pr =>
            obtain ⟨raw, r2⟩ := pr
            rw [hlx] at h
            simp only at h
            have h0 := lexString_len _ _ _ _ _ _ hlx
            have hsl2 := skip_len r2
            cases hs2 : skip r2 with
            | nil =>
              obtain ⟨rd', e, hme⟩ := mapEntry_nocolon ⟨p :: rest, ⟨.mapKey, sm⟩⟩ r1 0 raw r2 hlx (Or.inl hs2)
              rw [hme] at hsub
              exact run_of_sub_err F _ _ acc steps _ _ _ hsub
            | cons c r3 =>
              rw [hs2] at h hsl2
              simp only [List.length_cons] at hsl2
              simp only at h
              by_cases h58 : c = 58
              · subst h58
                simp only [beq_self_eq_true, if_true] at h
                rw [mapEntry_key _ _ _ _ _ _ _ hlx hs2] at hsub
                -- the key token is emitted; then the value
                apply isErr_of_step
                intro F'
                rw [step_eq, hsub]
                simp only [post, runFrom]
                have hsl3 := skip_len r3
                cases hs3 : skip r3 with
                | nil =>
                  obtain ⟨rd', e, hsubV⟩ := sub_eof ⟨p :: rest, ⟨.mapVal, false⟩⟩ r3 0 hs3
                  exact run_of_sub_err F' _ _ _ _ _ _ _ hsubV
                | cons b4 r4' =>
                  have hsubV := sub_mapVal (p :: rest) false r3 0 b4 r4' hs3
                  have hstepV := step_of_sub_nested _ ⟨p :: rest, ⟨.mapKey, true⟩⟩ _ _ _ p rest rfl hsubV
                  cases hv : parseValue f r3 with
                  | none =>
                    apply isErr_of_step
                    intro F''
                    rw [hstepV]
                    exact hVF r3 b4 r4' hv (by omega) hs3 _ _ _ _ _
                  | some pr =>
                    obtain ⟨v, r4⟩ := pr
                    rw [hv] at h
                    simp only [Option.map_eq_none_iff] at h
                    have hlen := hl _ _ _ hv
                    have hpos := flatten_pos v
                    obtain ⟨pb', hV'⟩ := hV r3 v r4 b4 r4' hv hs3 ⟨p :: rest, ⟨.mapKey, true⟩⟩ 0 F'
                      (⟨.str (unq raw), none⟩ :: acc) (steps + 1)
                    apply run_err_mono (v.flatten.length + 1)
                    have e1 : F' + (v.flatten.length + 1) = (v.flatten.length + F') + 1 := by omega
                    rw [e1, run_succ, hstepV, hV', fin_cons]
                    exact hM r4 true h (by omega) _ _ _ _ _ _
              · obtain ⟨rd', e, hme⟩ := mapEntry_nocolon ⟨p :: rest, ⟨.mapKey, sm⟩⟩ r1 0 raw r2 hlx
                  (Or.inr ⟨c, r3, hs2, h58⟩)
                rw [hme] at hsub
                exact run_of_sub_err F _ _ acc steps _ _ _ hsub
        · rw [mapEntry_notkey _ _ _ h125' h34] at hsub
          exact run_of_sub_err F _ _ acc steps _ _ _ hsub

/-! ### Assembly -/

theorem all_fuel (f : Nat) : VS f ∧ ES f ∧ MS f ∧ VF f ∧ EF f ∧ MF f := by
  induction f with
  | zero =>
    refine ⟨?_, ?_, ?_, ?_, ?_, ?_⟩
    · intro bs v r' b r h; simp [parseValue] at h
    · intro bs sm vs r' h; simp [parseElements] at h
    · intro bs sm ms r' h; simp [parseMembers] at h
    · intro bs b r h hf; omega
    · intro bs sm h hf; omega
    · intro bs sm h hf; omega
  | succ f ih =>
    obtain ⟨hV, hE, hM, hVF, hEF, hMF⟩ := ih
    have hl := (parse_len f).1
    exact ⟨VS_succ f hE hM, ES_succ f hV hE, MS_succ f hV hM, VF_succ f hEF hMF,
      EF_succ f hVF hV hEF hl, MF_succ f hVF hV hMF hl⟩

theorem decode_refines (bs : Bytes) :
    let o := JsonDec.decode (Rd.ofBytes bs)
    match Spec.Json.parse bs with
    | some (v, rest) => o.toks = v.flatten ∧ o.res = .ok () ∧ o.rd.data = rest
    | none => ∃ e, o.res = .error e := by
  obtain ⟨hV, _, _, hVF, _, _⟩ := all_fuel (2 * bs.length + 2)
  have hl := (parse_len (2 * bs.length + 2)).1
  show match parseValue (2 * bs.length + 2) bs with
    | some (v, rest) =>
      (run (2 * bs.length + 2) init ⟨bs, none, 0⟩ [] 0).toks = v.flatten ∧
      (run (2 * bs.length + 2) init ⟨bs, none, 0⟩ [] 0).res = .ok () ∧
      (run (2 * bs.length + 2) init ⟨bs, none, 0⟩ [] 0).rd.data = rest
    | none => ∃ e, (run (2 * bs.length + 2) init ⟨bs, none, 0⟩ [] 0).res = .error e
  cases hs : skip bs with
  | nil =>
    have : parseValue (2 * bs.length + 2) bs = none := by
      rw [show 2 * bs.length + 2 = (2 * bs.length + 1) + 1 by omega, parseValue_succ, hs]
    rw [this]
    obtain ⟨rd', e, hsub⟩ := sub_eof init bs 0 hs
    exact run_of_sub_err _ _ _ [] 0 _ _ _ hsub
  | cons b r =>
    have hstep : step init ⟨bs, none, 0⟩ = entryOut init ⟨r, none, 0⟩ b := by
      rw [step_eq]
      have := sub_value [] false bs 0 b r hs
      simp only [init] at this ⊢
      rw [this]
      simp [entryOut]
    cases hp : parseValue (2 * bs.length + 2) bs with
    | none =>
      simp only
      have := hVF bs b r hp (by omega) hs init 0 (2 * bs.length + 1) [] 0
      rw [← hstep, ← run_succ] at this
      exact this
    | some pr =>
      obtain ⟨v, r'⟩ := pr
      simp only
      have hlen := hl _ _ _ hp
      have hpos := flatten_pos v
      obtain ⟨pb', h⟩ := hV bs v r' b r hp hs init 0 (2 * bs.length + 1 - v.flatten.length) [] 0
      have e1 : 2 * bs.length + 2 = (v.flatten.length + (2 * bs.length + 1 - v.flatten.length)) + 1 := by omega
      rw [e1, run_succ, hstep, h]
      simp [fin, init]

end Refmt.C05L
