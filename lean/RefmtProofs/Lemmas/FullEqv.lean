-- the round-trip value `rtF` against the specified value `normV`, on the class `fullTy` (RefmtProofs/Props/C13Full.lean)
import RefmtProofs.Lemmas.FullBasic
set_option linter.unusedSimpArgs false
set_option linter.unusedVariables false
namespace Refmt.Obj
open Refmt Refmt.C13 Refmt.C11 Refmt.C12

variable {ts : Types} {a : Atlas} {trs : Trs} {it : IfaceTys}

/-! ### machine selection for the new kinds -/

theorem pick_transform {id : Nat} {reg : Bool} {ty : Nat} {tag : Option Int} {fn mty uty : Nat}
    (hb : isBuiltin (ts.get id) = false) (he : a.get id = some ⟨reg, ty, tag, .transform fn mty uty⟩) :
    pickBare ts a id = .transform ⟨reg, ty, tag, .transform fn mty uty⟩ fn mty ∧ upickBare ts a id = .transform fn uty := by
  cases hd : ts.get id with
  | prim k b => cases b <;> simp [isBuiltin, hd] at hb <;> simp [pickBare, upickBare, hd, he, machForEntry, umachForEntry]
  | bytes b => cases b <;> simp [isBuiltin, hd] at hb <;> simp [pickBare, upickBare, hd, he, machForEntry, umachForEntry]
  | _ => simp [pickBare, upickBare, hd, he, machForEntry, umachForEntry]

theorem pick_union {id : Nat} {m : Bool} {reg : Bool} {ty : Nat} {tag : Option Int} {members : List (Bytes × Nat)}
    (hd : ts.get id = .iface m) (he : a.get id = some ⟨reg, ty, tag, .union members⟩) :
    pickBare ts a id = .union ⟨reg, ty, tag, .union members⟩ members ∧ upickBare ts a id = .union members := by
  simp [pickBare, upickBare, hd, he, machForEntry, umachForEntry]

theorem pick_wild {id : Nat} {m : Bool} (hd : ts.get id = .iface m) (hn : a.get id = none) :
    pickBare ts a id = .wildcard ∧ upickBare ts a id = .wildcard := by
  simp [pickBare, upickBare, hd, hn]

/-- a union member's machine is the machine of its (struct) type -/
theorem member_mach {p : Nat} {mem : Bytes × Nat} (hm : MOKF ts a p mem) :
    ∃ me fs fds, a.pool[mem.2]? = some me ∧ me.k = .structMap fs ∧ ts.get me.ty = .struct fds ∧
      machForEntry ts me = pickBare ts a me.ty ∧ umachForEntry ts me = upickBare ts a me.ty ∧
      pickBare ts a me.ty = .structMap me fs ∧ upickBare ts a me.ty = .structMap fs ∧
      fullTy ts a p me.ty = true := by
  obtain ⟨me, fs, fds, hme, hget, hk, hd, hf⟩ := hm
  obtain ⟨reg, ty, tag, k⟩ := me
  simp only at hk hd hget hf
  subst hk
  obtain ⟨h1, h2⟩ := pick_struct hd hget
  exact ⟨_, fs, fds, hme, rfl, hd, by simp [machForEntry, h1], by simp [umachForEntry, h2], h1, h2, hf⟩

theorem find_member_ty {members : List (Bytes × Nat)} {dt : Nat} {nm : Bytes} {idx : Nat} {me : Entry}
    (hf : (members.find? fun (x : Bytes × Nat) => (a.pool[x.2]?.map (·.ty)) == some dt) = some (nm, idx))
    (hme : a.pool[idx]? = some me) : (nm, idx) ∈ members ∧ me.ty = dt := by
  refine ⟨List.mem_of_find?_eq_some hf, ?_⟩
  have := List.find?_some hf
  simpa [hme] using this

theorem fullTy_iface (he : UEnv ts a it) (p : Nat) : fullTy ts a (p+1) it.iface = true := by
  simp [fullTy, he.iface, he.noIface]
theorem fullTy_sliceI (he : UEnv ts a it) (p : Nat) : fullTy ts a (p+2) it.sliceI = true := by
  rw [fullTy]
  simp only [he.sliceI, he.noSlice]
  exact fullTy_iface he p
theorem fullTy_mapSI (he : UEnv ts a it) (p : Nat) : fullTy ts a (p+2) it.mapSI = true := by
  rw [fullTy]
  simp only [he.mapSI, he.noMap, he.str, Bool.true_and]
  exact fullTy_iface he p

theorem boxAs_iface (he : UEnv ts a it) (x : Val) : boxAs ts it.iface x = x := by
  simp [boxAs, he.iface]

theorem strKeysB_inv {es : List (Val × Val)} (h : strKeysB es = true) :
    (∀ q ∈ es, ∃ s, q.1 = Val.str s) ∧ (es.map fun p => keyStr p.1).Nodup := by
  simp only [strKeysB, Bool.and_eq_true, List.all_eq_true, decide_eq_true_eq] at h
  refine ⟨fun q hq => ?_, h.2⟩
  have := h.1 q hq
  obtain ⟨k, x⟩ := q
  cases k <;> simp [isStrVal] at this
  exact ⟨_, rfl⟩

/-! ### struct folds under `ValEqv''` -/

theorem normStep_structF {id : Nat} {fds : List FieldDesc} (hd : ts.get id = .struct fds) (v : Val) {p : Nat}
    {fld : SMField} (hf : FOKF ts a p fds fld) (he : emitP v fld = true) :
    ∃ (i : Nat) (fv : Val), i < fds.length ∧ fld.route = [i] ∧ traverse fld.route v = some fv ∧
      ∀ (N : Nat → Val → Val) (cs : List Val), cs.length = fds.length →
        normStep ts id v N (.struct cs) fld = .struct (cs.set i (N fld.ty fv)) := by
  obtain ⟨hign, i, fd, hroute, hfd, hty, hst⟩ := hf
  have hi : i < fds.length := (List.getElem?_eq_some_iff.mp hfd).1
  cases ht : traverse fld.route v with
  | none => simp [emitP, ht] at he
  | some fv =>
    refine ⟨i, fv, hi, hroute, rfl, fun N cs hcs => ?_⟩
    have hci : cs[i]? = some cs[i] := List.getElem?_eq_getElem (by omega)
    rw [normStep_eq, he]
    simp only [if_true, fieldStep, ht]
    rw [hroute, setRoute_one ts _ hd hfd hci]
    rfl

theorem fold_eqvF {id : Nat} {fds : List FieldDesc} (hd : ts.get id = .struct fds) (v : Val) (N1 N2 : Nat → Val → Val) (p : Nat) :
    ∀ (fields : List SMField), (∀ fld ∈ fields, FOKF ts a p fds fld) →
    (∀ fld ∈ fields, emitP v fld = true → ∀ fv, traverse fld.route v = some fv → ValEqv'' (N1 fld.ty fv) (N2 fld.ty fv)) →
    ∀ cs1 cs2 : List Val, cs1.length = fds.length → cs2.length = fds.length →
    (∀ (j : Nat) (x y : Val), cs1[j]? = some x → cs2[j]? = some y → ValEqv'' x y) →
    ValEqv'' (fields.foldl (normStep ts id v N1) (.struct cs1)) (fields.foldl (normStep ts id v N2) (.struct cs2)) := by
  intro fields
  induction fields with
  | nil =>
    intro _ _ cs1 cs2 h1 h2 hpt
    exact ValEqv''.struct (by omega) hpt
  | cons fld fs ih =>
    intro hfok hN cs1 cs2 h1 h2 hpt
    simp only [List.foldl_cons]
    have ihh := ih (fun y hy => hfok y (by simp [hy])) (fun y hy => hN y (by simp [hy]))
    cases he : emitP v fld with
    | false =>
      rw [normStep_skip v N1 he, normStep_skip v N2 he]
      exact ihh cs1 cs2 h1 h2 hpt
    | true =>
      obtain ⟨i, fv, hi, hroute, ht, hstep⟩ := normStep_structF hd v (hfok fld (by simp)) he
      rw [hstep N1 cs1 h1, hstep N2 cs2 h2]
      refine ihh _ _ (by simp [h1]) (by simp [h2]) (fun j x y hx hy => ?_)
      simp only [List.getElem?_set] at hx hy
      split at hx
      · rename_i hij
        subst hij
        simp only [h1, h2, hi, if_true, Option.some.injEq] at hx hy
        subst hx hy
        exact hN fld (by simp) he fv ht
      · rename_i hij
        simp only [hij, if_false] at hy
        exact hpt j x y hx hy

/-- the map case: entries in key order against entries in the value's order -/
theorem map_eqv (mode : KeySort) (es : List (Val × Val)) (R N : Val → Val) (hstr : ∀ q ∈ es, ∃ s, q.1 = Val.str s)
    (hRN : ∀ q ∈ es, ValEqv'' (R q.2) (N q.2)) :
    ValEqv'' (.map (some ((sortKeys mode (es.map fun (k, x) => (keyStr k, x))).map fun (s, x) => (Val.str s, R x))))
      (.map (some (es.map fun (k, x) => (k, N x)))) := by
  refine ValEqv''.map (zs := es.map fun q => (q.1, R q.2)) ?_ (by simp) ?_ ?_
  · have hperm := (List.mergeSort_perm (es.map fun x => (keyStr x.1, x.2))
      (fun x y => keyLe mode x.1 y.1)).map (fun (q : Bytes × Val) => (Val.str q.1, R q.2))
    refine hperm.trans (List.Perm.of_eq ?_)
    rw [List.map_map]
    refine List.map_congr_left (fun q hq => ?_)
    obtain ⟨s, hs1⟩ := hstr q hq
    obtain ⟨q1, q2⟩ := q
    simp only at hs1; subst hs1
    simp [keyStr]
  · intro q hq
    obtain ⟨x, hx, rfl⟩ := zip_map_mem _ _ es q hq
    rfl
  · intro q hq
    obtain ⟨x, hx, rfl⟩ := zip_map_mem _ _ es q hq
    exact hRN x hx

/-! ### the round-trip value is the specified value up to the order of map entries -/

theorem rtf_eqv_norm (htr : TrsEqv trs) (he : UEnv ts a it) (g : Nat) :
    (∀ p id v, p ≤ 64 → fullTy ts a p id = true → fullVal ts a trs it g id v = true →
      ValEqv'' (rtF ts a trs it g id v) (normV .pretty ts a trs it g id v)) ∧
    (∀ p id v, p + 1 ≤ 64 → fullTy ts a (p + 1) id = true → (∀ e, ts.get id ≠ .ptr e) →
      fullValB ts a trs it g id (pickBare ts a id) v = true →
      ValEqv'' (rtFB ts a trs it g id (pickBare ts a id) v) (normBare .pretty ts a trs it g id (pickBare ts a id) v)) := by
  induction g with
  | zero =>
    exact ⟨fun _ _ v _ _ _ => by simp only [rtF, normV]; exact ValEqv''.refl v,
           fun _ _ v _ _ _ _ => by simp only [rtFB, normBare]; exact ValEqv''.refl v⟩
  | succ g ih =>
    constructor
    · intro p id v hp64 hp hs
      obtain ⟨n, base, p', hpeel, hpb, hnp, hch, hp'p⟩ := full_peel ts a p 64 0 id hp hp64
      simp only [Nat.zero_add] at hpeel
      rw [fullVal_succ, hpeel] at hs
      rw [rtF_succ, normV_succ, hpeel]
      simp only at hs ⊢
      split
      · rename_i hn0
        rw [if_pos hn0] at hs
        exact ih.2 p' base v (by omega) hpb hnp hs
      · rename_i hn0
        rw [if_neg hn0] at hs
        cases hdn : derefN n v with
        | none => exact ValEqv''.refl _
        | some inner =>
          rw [hdn] at hs
          simp only at hs ⊢
          split
          · exact ValEqv''.refl _
          · exact ValEqv''.wrap (ih.2 p' base inner (by omega) hpb hnp hs) n
    · intro p id v hp64 hp hnp hs
      cases fullTy_view hp hnp with
      | prim kk b hd hn => rw [(pick_prim hd hn).1, rtFB_prim, normBare_prim]; exact ValEqv''.refl _
      | bytes b hd hn => rw [(pick_bytes hd hn).1, rtFB_prim, normBare_prim]; exact ValEqv''.refl _
      | byteArr n hd hn => rw [(pick_byteArr hd hn).1, rtFB_prim, normBare_prim]; exact ValEqv''.refl _
      | slice e hd hn hpe =>
        rw [(pick_slice hd hn).1] at hs ⊢
        rw [rtFB_slice, normBare_slice]
        rw [fullValB_slice] at hs
        cases v <;> try exact ValEqv''.refl _
        rename_i o
        cases o with
        | none => exact ValEqv''.refl _
        | some vs =>
          simp only [List.all_eq_true] at hs
          refine ValEqv''.slice (by simp) (fun q hq => ?_)
          obtain ⟨x, hx, rfl⟩ := zip_map_mem _ _ vs q hq
          exact ih.1 p e x (by omega) hpe (hs x hx)
      | arr n e hd hn hpe =>
        rw [(pick_arr hd hn).1] at hs ⊢
        rw [rtFB_array, normBare_array]
        rw [fullValB_array] at hs
        cases v <;> try exact ValEqv''.refl _
        rename_i vs
        simp only [List.all_eq_true] at hs
        refine ValEqv''.arr (by simp) (fun q hq => ?_)
        obtain ⟨x, hx, rfl⟩ := zip_map_mem _ _ vs q hq
        exact ih.1 p e x (by omega) hpe (hs x hx)
      | map kt vt bk hd hn hkt hpe =>
        rw [(pick_map hd hn).1] at hs ⊢
        rw [rtFB_map, normBare_map]
        rw [fullValB_map] at hs
        cases v <;> try exact ValEqv''.refl _
        rename_i o
        cases o with
        | none => exact ValEqv''.refl _
        | some es =>
          simp only [Bool.and_eq_true, List.all_eq_true] at hs
          obtain ⟨hstr, -⟩ := strKeysB_inv hs.1
          exact map_eqv a.defaultSort es _ _ hstr (fun q hq => ih.1 p vt q.2 (by omega) hpe (hs.2 q hq))
      | wild hd hn =>
        rw [(pick_wild hd hn).1] at hs ⊢
        cases v <;> try (rw [rtFB.eq_def, normBare.eq_def]; exact ValEqv''.refl _)
        rename_i o
        cases o with
        | none => rw [rtFB_wild_none, normBare_wild_none]; exact ValEqv''.refl _
        | some q =>
          obtain ⟨dt, dv⟩ := q
          rw [fullValB_wild] at hs
          simp only [Bool.and_eq_true] at hs
          obtain ⟨hdnp, hs⟩ := hs
          have hdnp' := (notPtrB_iff _).mp hdnp
          have hpl : peel ts 64 0 dt = (0, dt) := C12L.peel_nonptr ts 64 0 dt hdnp'
          rw [rtFB_wild_some, normBare_wild_some, hpl]
          simp only [derefN]
          cases hc : isBareNullSer .pretty ts a trs dt dv with
          | true => simp only [if_true]; exact ValEqv''.refl _
          | false =>
            simp only [Bool.false_eq_true, if_false]
            split at hs
            · rename_i hpk
              simp only [hpk]
              exact ValEqv''.refl _
            · rename_i e' hpk
              simp only [Bool.and_eq_true, beq_iff_eq] at hs
              obtain ⟨rfl, hs⟩ := hs
              have he' : e' = it.iface := by
                have := C12.pick_sliceI he
                rw [hpk] at this
                cases this; rfl
              subst he'
              cases dv <;> try (cases hs; done)
              rename_i o
              cases o with
              | none => cases hs
              | some vs =>
                simp only [hpk, List.all_eq_true] at hs ⊢
                refine ValEqv''.iface (ValEqv''.slice (by simp) (fun q hq => ?_))
                obtain ⟨x, hx, rfl⟩ := zip_map_mem _ _ vs q hq
                simp only [boxAs_iface he]
                exact ih.1 1 it.iface x (by omega) (fullTy_iface he 0) (hs x hx)
            · rename_i k' vt' mode' hpk
              simp only [Bool.and_eq_true, beq_iff_eq] at hs
              obtain ⟨rfl, hs⟩ := hs
              have he' : vt' = it.iface ∧ mode' = a.defaultSort := by
                have := C12.pick_mapSI he
                rw [hpk] at this
                cases this; exact ⟨rfl, rfl⟩
              obtain ⟨rfl, rfl⟩ := he'
              cases dv <;> try (cases hs; done)
              rename_i o
              cases o with
              | none => cases hs
              | some es =>
                simp only [hpk, Bool.and_eq_true, List.all_eq_true] at hs ⊢
                obtain ⟨hstr, -⟩ := strKeysB_inv hs.1
                refine ValEqv''.iface ?_
                simp only [boxAs_iface he]
                exact map_eqv a.defaultSort es _ _ hstr (fun q hq => ih.1 1 it.iface q.2 (by omega) (fullTy_iface he 0) (hs.2 q hq))
            · rename_i e' fs' hpk
              simp only [Bool.and_eq_true] at hs
              simp only [hpk]
              refine ValEqv''.iface ?_
              have := ih.2 63 dt dv (by omega) hs.1.2 hdnp' hs.2
              rw [hpk] at this
              exact this
            · rename_i e' fn' mty' hpk
              simp only [Bool.and_eq_true] at hs
              simp only [hpk]
              refine ValEqv''.iface ?_
              have := ih.2 63 dt dv (by omega) hs.1.2 hdnp' hs.2
              rw [hpk] at this
              exact this
            · cases hs
      | struct fds reg ty tag fields hd hent hnames hroutes hfok =>
        rw [(pick_struct hd hent).1] at hs ⊢
        rw [rtFB_structMap, normBare_structMap]
        rw [fullValB_structMap] at hs
        simp only [List.all_eq_true] at hs
        unfold structFold
        rw [zeroVal_struct ts hd]
        refine fold_eqvF hd v _ _ p fields hfok (fun fld hf hemit fv ht => ?_) _ _ (by simp) (by simp)
          (fun j x y hx hy => by rw [hx] at hy; cases hy; exact ValEqv''.refl _)
        have := hs fld hf
        simp only [hemit, Bool.not_true, Bool.false_or, ht] at this
        obtain ⟨_, i, fd, hroute, _, _, hst⟩ := hfok fld hf
        exact ih.1 p fld.ty fv (by omega) hst this
      | transform reg ty tag fn mty hb hent hmp htb hm =>
        rw [(pick_transform hb hent).1] at hs ⊢
        rw [rtFB_transform, normBare_transform]
        rw [fullValB_transform] at hs
        cases htm : trs.m fn v with
        | none => exact ValEqv''.refl _
        | some tv =>
          simp only [htm, Bool.and_eq_true] at hs ⊢
          obtain ⟨⟨_, hfv⟩, hu⟩ := hs
          obtain ⟨b, hb'⟩ := Option.isSome_iff_exists.mp hu
          obtain ⟨a', ha', hab⟩ := htr fn _ _ b (ih.1 p mty tv (by omega) hm hfv) hb'
          rw [ha', hb']
          exact hab
      | union m reg ty tag members hd hent hnames hmem =>
        rw [(pick_union hd hent).1] at hs ⊢
        rw [rtFB_union, normBare_union]
        rw [fullValB_union] at hs
        cases v <;> try exact ValEqv''.refl _
        rename_i o
        cases o with
        | none => exact ValEqv''.refl _
        | some q =>
          obtain ⟨dt, dv⟩ := q
          simp only at hs ⊢
          cases hfind : (members.find? fun (x : Bytes × Nat) => (a.pool[x.2]?.map (·.ty)) == some dt) with
          | none => simp only [hfind]; exact ValEqv''.refl _
          | some q =>
            obtain ⟨nm, idx⟩ := q
            simp only [hfind] at hs ⊢
            cases hme : a.pool[idx]? with
            | none => simp only [hme]; exact ValEqv''.refl _
            | some me =>
              simp only [hme] at hs ⊢
              obtain ⟨hin, hty⟩ := find_member_ty hfind hme
              obtain ⟨me', fs, fds, hme', hk, hds, hmach, -, -, -, hfull⟩ := member_mach (hmem _ hin)
              simp only at hme'
              rw [hme] at hme'
              cases hme'
              subst hty
              rw [hmach] at hs ⊢
              obtain ⟨p', rfl⟩ : ∃ p', p = p' + 1 := by
                cases p with
                | zero => simp [fullTy] at hfull
                | succ p' => exact ⟨p', rfl⟩
              exact ValEqv''.iface (ih.2 p' me.ty dv (by omega) hfull (by simp [hds]) hs)

end Refmt.Obj
