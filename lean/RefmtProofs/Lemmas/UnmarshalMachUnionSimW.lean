/-
  Stateful object unmarshaller: the wildcard machine handing over to its delegate in `slab.tip()`.
-/
import RefmtProofs.Lemmas.UnmarshalMachUnionWildF
set_option linter.unusedSimpArgs false
set_option linter.unusedVariables false
namespace Refmt.UMachU
open Refmt Refmt.Obj Refmt.Obj.UM Refmt.UMachL

variable {ts : Types} {a : Atlas} {trs : Trs} {it : IfaceTys}

/-- the leaf lives in a row above: seen from the wrapper's row -/
theorem Agree.lower {un c sf be stk lo row row2 mid grow F w x r}
    (h : Agree ts a trs it none un c sf be stk (lo ++ row2 :: mid) grow F w x r) (hs : SameCfg row row2) :
    Agree ts a trs it none un c sf be stk lo row F w x r := by
  cases r with
  | ok v rest u =>
    obtain ⟨h3, h'⟩ := h
    refine ⟨h3, ?_⟩
    cases hF : F v with
    | none => rw [hF] at h'; exact h'
    | some v' =>
      rw [hF] at h'
      obtain ⟨row', hi', fa, h1, h2, h4⟩ := h'
      refine ⟨row2, mid ++ row' :: hi', fa, hs, h2, ?_⟩
      rw [h4]; simp
  | more u => exact h
  | err u => exact h
  | panic u => trivial

theorem Agree.same {un c sf be stk lo row row2 F w x r} (h : Agree ts a trs it none un c sf be stk lo row2 F w x r)
    (hs : SameCfg row row2) : Agree ts a trs it none un c sf be stk lo row F w x r := by
  have := h.shift (row := row) 0 hs
  simpa using this

theorem Agree.mapV {un c sf be stk lo row w g x r} (h : Agree ts a trs it none un c sf be stk lo row some (w ∘ g) x r) :
    Agree ts a trs it none un c sf be stk lo row some w x (mapV g r) := by
  cases r with
  | ok v rest u => exact h
  | more u => exact h
  | err u => exact h
  | panic u => trivial

/-- the wildcard machine's first step on an open token: Reset of the delegate `⟨L.length, k⟩`, then the delegate's
    first step; `L ++ G :: []` are the rows once the wildcard machine has recorded its delegate -/
theorem wild_first {f d sf : Nat} {c : URef} {lo hi : List URow} {row1 : URow} {w : Val → Val} {stk be} {t : Tok}
    {rest : List Tok} {L : List URow} {G : URow} {k : MK} {ty : Nat} {cur0 : Val} {g : Val → Val}
    (hw : Wr trs.u c lo row1 .wild some w d none) (hk : k = .map ∨ k = .slice)
    (hstep : ∀ st, stepM ts a trs it (f+1) ⟨lo.length, .wild⟩ ⟨lo ++ row1 :: hi, stk, st, be⟩ t
      = match resetM ts a f ⟨L.length, k⟩ ty cur0 (L ++ G :: []) with
        | .error x => .error x
        | .ok R2 => mapDone g (stepM ts a trs it f ⟨L.length, k⟩ ⟨R2, stk, st, be⟩ t))
    (hw2 : Wr trs.u c L G k some (w ∘ g) (d + 1) none) :
    pump1 ts a trs it (f + 1 + d + 1) sf ⟨lo ++ row1 :: hi, stk, some c, be⟩ (t :: rest)
      = rtpB ts a trs it f (f + 1 + d + 1) sf (L ++ G :: []) stk be c ⟨L.length, k⟩ ty cur0 (t :: rest) := by
  simp only [rtpB]
  have hs := hw.step (ts := ts) (a := a) (trs := trs) (it := it) hi stk (some c) be t (f + 1)
  rw [hstep] at hs
  cases hr : resetM ts a f ⟨L.length, k⟩ ty cur0 (L ++ G :: []) with
  | error x =>
    rw [hr] at hs
    exact pump1_err hs
  | ok R2 =>
    rw [hr] at hs
    obtain ⟨G2, hi2, rfl, hpw, _⟩ := reset_frame_ms hk hr
    have hw2' := hw2.congr hpw
    apply pump1_congr
    rw [hs, show f + 1 + d = f + (d + 1) by omega, hw2'.step hi2 stk (some c) be t f, mapDoneO_some, mapDoneO_some,
      mapDone_comp]

/-- where `slab.tip()` is: the wildcard machine's own row (nothing above it) or the last row above it; in both cases the
    wrappers extend to the delegate there -/
theorem wild_geom {sf : Nat} {be stk} {c : URef} {lo hi : List URow} {row1 : URow} {w g : Val → Val} {d : Nat} {k : MK}
    (hw : WrP c lo row1 .wild w d) (Gf : URef → URow) (hptr : ∀ dd, (Gf dd).ptr = row1.ptr)
    (hdl : ∀ dd, (Gf dd).wild.delegate = some dd) (hg : ∀ dd, ifaceW (Gf dd) = g)
    (hsame : ∀ dd, SameCfg row1 (Gf dd)) :
    ∃ L G, lo ++ Gf ⟨tipIx (lo ++ row1 :: hi), k⟩ :: hi = L ++ G :: [] ∧ tipIx (lo ++ row1 :: hi) = L.length ∧
      Wr trs.u c L G k some (w ∘ g) (d + 1) none ∧
      (∀ x r, Agree ts a trs it none un c sf be stk L G some (w ∘ g) x r →
        Agree ts a trs it none un c sf be stk lo row1 some (w ∘ g) x r) := by
  by_cases hh : hi = []
  · subst hh
    have htip : tipIx (lo ++ row1 :: []) = lo.length := by simp [tipIx]
    rw [htip]
    refine ⟨lo, Gf ⟨lo.length, k⟩, rfl, rfl, ?_, ?_⟩
    · have h1 := (hw.congr (hptr ⟨lo.length, k⟩)).trans (U := trs.u) (Wr.wildS (hdl ⟨lo.length, k⟩) (Wr.refl lo _ k))
      rw [hg, show 0 + 1 + d = d + 1 by omega] at h1
      exact h1
    · intro x r h
      exact h.same (hsame _)
  · obtain ⟨mid, grow, rfl⟩ := snoc_of_ne_nil hi hh
    have htip : tipIx (lo ++ row1 :: (mid ++ [grow])) = lo.length + 1 + mid.length := by
      simp [tipIx]; omega
    rw [htip]
    refine ⟨lo ++ Gf ⟨lo.length + 1 + mid.length, k⟩ :: mid, grow, by simp, by simp; omega, ?_, ?_⟩
    · have hlen : (lo ++ Gf ⟨lo.length + 1 + mid.length, k⟩ :: mid).length = lo.length + 1 + mid.length := by
        simp; omega
      have hb : Wr trs.u ⟨lo.length, .wild⟩ (lo ++ Gf ⟨lo.length + 1 + mid.length, k⟩ :: mid) grow k some
          (ifaceW (Gf ⟨lo.length + 1 + mid.length, k⟩) ∘ _root_.id) 1 none := by
        refine Wr.wildX (r0 := Gf ⟨lo.length + 1 + mid.length, k⟩) (by simp) (hdl _) ?_
        have := Wr.refl (U := trs.u) (lo ++ Gf ⟨lo.length + 1 + mid.length, k⟩ :: mid) grow k
        rw [hlen] at this
        exact this
      have h1 := (hw.congr (hptr ⟨lo.length + 1 + mid.length, k⟩)).lift mid grow hb
      rw [hg, show 1 + d = d + 1 by omega] at h1
      exact h1
    · intro x r h
      exact h.lower (hsame _)

/-- `wild_first` for any delegate whose `Reset` keeps what the chain looks at -/
theorem wild_firstT {f d sf : Nat} {c : URef} {lo hi : List URow} {row1 : URow} {w : Val → Val} {stk be} {t : Tok}
    {rest : List Tok} {L : List URow} {G : URow} {k : MK} {ty : Nat} {cur0 : Val} {g : Val → Val}
    (hw : Wr trs.u c lo row1 .wild some w d none)
    (hfr : ∀ R2, resetM ts a f ⟨L.length, k⟩ ty cur0 (L ++ G :: []) = .ok R2 →
      ∃ G2 hi2, R2 = L ++ G2 :: hi2 ∧ G2.ptr = G.ptr ∧ G2.wild = G.wild ∧ G2.union = G.union ∧
        G2.transform.delegate = G.transform.delegate ∧ G2.transform.trFunc = G.transform.trFunc)
    (hstep : ∀ st, stepM ts a trs it (f+1) ⟨lo.length, .wild⟩ ⟨lo ++ row1 :: hi, stk, st, be⟩ t
      = match resetM ts a f ⟨L.length, k⟩ ty cur0 (L ++ G :: []) with
        | .error x => .error x
        | .ok R2 => mapDone g (stepM ts a trs it f ⟨L.length, k⟩ ⟨R2, stk, st, be⟩ t))
    (hw2 : Wr trs.u c L G k some (w ∘ g) (d + 1) none) :
    pump1 ts a trs it (f + 1 + d + 1) sf ⟨lo ++ row1 :: hi, stk, some c, be⟩ (t :: rest)
      = rtpB ts a trs it f (f + 1 + d + 1) sf (L ++ G :: []) stk be c ⟨L.length, k⟩ ty cur0 (t :: rest) := by
  simp only [rtpB]
  have hs := hw.step (ts := ts) (a := a) (trs := trs) (it := it) hi stk (some c) be t (f + 1)
  rw [hstep] at hs
  cases hr : resetM ts a f ⟨L.length, k⟩ ty cur0 (L ++ G :: []) with
  | error x =>
    rw [hr] at hs
    exact pump1_err hs
  | ok R2 =>
    rw [hr] at hs
    obtain ⟨G2, hi2, rfl, h1, h2, h3, h4, h5⟩ := hfr R2 hr
    have hw2' := hw2.congr2 h1 h2 h3 h4 h5
    apply pump1_congr
    rw [hs, show f + 1 + d = f + (d + 1) by omega, hw2'.step hi2 stk (some c) be t f, mapDoneO_some, mapDoneO_some,
      mapDone_comp]

/-- the simulation of the machine of a tagged atlas entry, Reset and run in a borrowed tip row below a chain that `hup`
    builds (a hypothesis of `simB_wild`: the proof needs the leaf machines, which come later) -/
def TagSim (S : List Nat) (n : Nat) : Prop :=
  ∀ (g : Int) (e : Entry), a.getByTag g = some e →
    ∀ (L : List URow) (T : URow) (stk : List URef) (be : Option XFail) (c : URef) (w0 : Val → Val) (du : Nat) (k : MK),
    CfgBare ts a T e.ty k (upickBare ts a e.ty) →
    (∀ T' : URow, T'.ptr = T.ptr → T'.union = T.union → T'.wild = T.wild → ∀ {kk F w' dd},
      Wr trs.u ⟨L.length, k⟩ L T' kk F w' dd none → Wr trs.u c L T' kk F (w0 ∘ w') (dd + du) none) →
    du ≤ 2 → ∀ (cur : Val) (toks : List Tok) (fr sf1 sf : Nat), 7 ≤ fr → 10 ≤ sf1 → 17 ≤ sf →
    Agree ts a trs it none none c sf be stk L T some w0
      (rtpB ts a trs it fr sf1 sf (L ++ T :: []) stk be c ⟨L.length, k⟩ e.ty cur toks)
      (unmBare ts a trs it n e.ty (upickBare ts a e.ty) cur toks)

end Refmt.UMachU
