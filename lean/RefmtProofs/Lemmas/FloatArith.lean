/-
  Arithmetic of `FloatText.roundRat` / `FloatText.parseDecimal`:
  a positive rational below `2^1024 - 2^970` (the midpoint above MaxFloat64) never sets the overflow flag.
-/
import RefmtModel.Base.FloatText
import Mathlib.Tactic.Ring
import Mathlib.Tactic.Linarith
set_option linter.unusedSimpArgs false
set_option linter.unusedVariables false
namespace Refmt.FloatL
open Refmt Refmt.FloatText

/-! ### scaling comparisons by powers of a base -/

theorem scale_le (β X Y a0 b0 a b : Nat) (hβ : 0 < β) (h : a0 + b = a + b0) (h0 : X * β ^ a0 ≤ Y * β ^ b0) :
    X * β ^ a ≤ Y * β ^ b := by
  have hp : 0 < β ^ b0 := Nat.pow_pos hβ
  apply Nat.le_of_mul_le_mul_right _ hp
  calc X * β ^ a * β ^ b0 = X * β ^ (a + b0) := by rw [Nat.pow_add]; ring
    _ = X * β ^ (a0 + b) := by rw [h]
    _ = X * β ^ a0 * β ^ b := by rw [Nat.pow_add]; ring
    _ ≤ Y * β ^ b0 * β ^ b := Nat.mul_le_mul_right _ h0
    _ = Y * β ^ b * β ^ b0 := by ring

theorem scale_lt (β X Y a0 b0 a b : Nat) (hβ : 0 < β) (h : a0 + b = a + b0) (h0 : X * β ^ a0 < Y * β ^ b0) :
    X * β ^ a < Y * β ^ b := by
  have hp : 0 < β ^ b0 := Nat.pow_pos hβ
  have hb : 0 < β ^ b := Nat.pow_pos hβ
  apply Nat.lt_of_mul_lt_mul_right (a := β ^ b0)
  calc X * β ^ a * β ^ b0 = X * β ^ (a + b0) := by rw [Nat.pow_add]; ring
    _ = X * β ^ (a0 + b) := by rw [h]
    _ = X * β ^ a0 * β ^ b := by rw [Nat.pow_add]; ring
    _ < Y * β ^ b0 * β ^ b := Nat.mul_lt_mul_of_pos_right h0 hb
    _ = Y * β ^ b * β ^ b0 := by ring

/-! ### bit length -/

theorem bitLen_pos {n : Nat} (h : n ≠ 0) : 1 ≤ bitLen n := by
  simp [bitLen, h]

theorem bitLen_lower {n : Nat} (h : n ≠ 0) : 2 ^ (bitLen n - 1) ≤ n := by
  simp only [bitLen, h, if_false, Nat.add_sub_cancel]
  exact Nat.log2_self_le h

theorem bitLen_upper (n : Nat) : n < 2 ^ bitLen n := by
  by_cases h : n = 0
  · simp [bitLen, h]
  · simp only [bitLen, h, if_false]
    exact Nat.lt_log2_self

/-! ### the binary exponent chosen by `roundRat` -/

/-- `e` in `roundRat` -/
def expOf (num den : Nat) : Int :=
  let g : Int := (bitLen num : Int) - (bitLen den : Int)
  let ge : Bool := if g ≥ 0 then num ≥ den * 2 ^ g.toNat else num * 2 ^ (-g).toNat ≥ den
  if ge then g else g - 1

/-- `2^e ≤ num/den`, for every way of writing `e = a - b` -/
theorem expOf_lower (num den : Nat) (hn : num ≠ 0) (hd : den ≠ 0) (a b : Nat)
    (h : (a : Int) - b = expOf num den) : den * 2 ^ a ≤ num * 2 ^ b := by
  have n1 := bitLen_pos hn
  have n2 := bitLen_lower hn
  have d1 := bitLen_pos hd
  have d3 := bitLen_upper den
  unfold expOf at h
  simp only at h
  by_cases hg : (bitLen num : Int) - (bitLen den : Int) ≥ 0
  · obtain ⟨G, hG⟩ : ∃ G : Nat, bitLen num = bitLen den + G := ⟨bitLen num - bitLen den, by omega⟩
    have hG' : ((bitLen num : Int) - (bitLen den : Int)).toNat = G := by omega
    simp only [hg, if_true, hG', decide_eq_true_eq] at h
    by_cases hge : num ≥ den * 2 ^ G
    · simp only [hge, if_true] at h
      exact scale_le 2 den num G 0 a b (by decide) (by omega) (by simpa using hge)
    · simp only [hge, if_false] at h
      -- e = G - 1 ;  den < 2^bd, 2^(bd + G - 1) ≤ num
      have key : den * 2 ^ G ≤ num * 2 ^ 1 := by
        have : 2 ^ (bitLen den + G - 1) * 2 ^ 1 = 2 ^ bitLen den * 2 ^ G := by
          rw [← Nat.pow_add, ← Nat.pow_add]; congr 1; omega
        rw [hG] at n2
        calc den * 2 ^ G ≤ 2 ^ bitLen den * 2 ^ G := Nat.mul_le_mul_right _ (Nat.le_of_lt d3)
          _ = 2 ^ (bitLen den + G - 1) * 2 ^ 1 := this.symm
          _ ≤ num * 2 ^ 1 := Nat.mul_le_mul_right _ n2
      exact scale_le 2 den num G 1 a b (by decide) (by omega) key
  · obtain ⟨G, hG, hG0⟩ : ∃ G : Nat, bitLen den = bitLen num + G ∧ 0 < G := ⟨bitLen den - bitLen num, by omega, by omega⟩
    have hG' : (-((bitLen num : Int) - (bitLen den : Int))).toNat = G := by omega
    simp only [hg, if_false, hG', decide_eq_true_eq] at h
    by_cases hge : num * 2 ^ G ≥ den
    · simp only [hge, if_true] at h
      exact scale_le 2 den num 0 G a b (by decide) (by omega) (by simpa using hge)
    · simp only [hge, if_false] at h
      have key : den * 2 ^ 0 ≤ num * 2 ^ (G + 1) := by
        have : 2 ^ (bitLen num - 1) * 2 ^ (G + 1) = 2 ^ bitLen den := by
          rw [← Nat.pow_add]; congr 1; omega
        calc den * 2 ^ 0 = den := by simp
          _ ≤ 2 ^ bitLen den := Nat.le_of_lt d3
          _ = 2 ^ (bitLen num - 1) * 2 ^ (G + 1) := this.symm
          _ ≤ num * 2 ^ (G + 1) := Nat.mul_le_mul_right _ n2
      exact scale_le 2 den num 0 (G + 1) a b (by decide) (by omega) key

/-- `num/den < 2^(e+1)`, for every way of writing `e + 1 = a - b` -/
theorem expOf_upper (num den : Nat) (hn : num ≠ 0) (hd : den ≠ 0) (a b : Nat)
    (h : (a : Int) - b = expOf num den + 1) : num * 2 ^ b < den * 2 ^ a := by
  have n1 := bitLen_pos hn
  have n3 := bitLen_upper num
  have d1 := bitLen_pos hd
  have d2 := bitLen_lower hd
  unfold expOf at h
  simp only at h
  by_cases hg : (bitLen num : Int) - (bitLen den : Int) ≥ 0
  · obtain ⟨G, hG⟩ : ∃ G : Nat, bitLen num = bitLen den + G := ⟨bitLen num - bitLen den, by omega⟩
    have hG' : ((bitLen num : Int) - (bitLen den : Int)).toNat = G := by omega
    simp only [hg, if_true, hG', decide_eq_true_eq] at h
    by_cases hge : num ≥ den * 2 ^ G
    · simp only [hge, if_true] at h
      have key : num * 2 ^ 0 < den * 2 ^ (G + 1) := by
        have : 2 ^ (bitLen den - 1) * 2 ^ (G + 1) = 2 ^ bitLen num := by
          rw [← Nat.pow_add]; congr 1; omega
        calc num * 2 ^ 0 = num := by simp
          _ < 2 ^ bitLen num := n3
          _ = 2 ^ (bitLen den - 1) * 2 ^ (G + 1) := this.symm
          _ ≤ den * 2 ^ (G + 1) := Nat.mul_le_mul_right _ d2
      exact scale_lt 2 num den 0 (G + 1) b a (by decide) (by omega) key
    · simp only [hge, if_false] at h
      exact scale_lt 2 num den 0 G b a (by decide) (by omega) (by simpa using hge)
  · obtain ⟨G, hG, hG0⟩ : ∃ G : Nat, bitLen den = bitLen num + G ∧ 0 < G := ⟨bitLen den - bitLen num, by omega, by omega⟩
    have hG' : (-((bitLen num : Int) - (bitLen den : Int))).toNat = G := by omega
    simp only [hg, if_false, hG', decide_eq_true_eq] at h
    by_cases hge : num * 2 ^ G ≥ den
    · simp only [hge, if_true] at h
      -- e = -G, e + 1 = 1 - G ; num * 2^(G-1) < den
      have key : num * 2 ^ (G - 1) < den * 2 ^ 0 := by
        have : 2 ^ bitLen num * 2 ^ (G - 1) = 2 ^ (bitLen den - 1) := by
          rw [← Nat.pow_add]; congr 1; omega
        calc num * 2 ^ (G - 1) < 2 ^ bitLen num * 2 ^ (G - 1) := Nat.mul_lt_mul_of_pos_right n3 (Nat.pow_pos (by decide))
          _ = 2 ^ (bitLen den - 1) := this
          _ ≤ den := d2
          _ = den * 2 ^ 0 := by simp
      exact scale_lt 2 num den (G - 1) 0 b a (by decide) (by omega) key
    · simp only [hge, if_false] at h
      exact scale_lt 2 num den G 0 b a (by decide) (by omega) (by simpa using hge)

end Refmt.FloatL

namespace Refmt.FloatL
open Refmt Refmt.FloatText

/-! ### rounding -/

/-- the round-half-even step of `roundRat` -/
def roundCore (n2 d2 : Nat) : Nat :=
  if 2 * (n2 % d2) > d2 || (2 * (n2 % d2) == d2 && (n2 / d2) % 2 == 1) then n2 / d2 + 1 else n2 / d2

theorem roundCore_le (n2 d2 M : Nat) (hd : 0 < d2) (h : n2 < M * d2) : roundCore n2 d2 ≤ M := by
  have hq : n2 / d2 < M := (Nat.div_lt_iff_lt_mul hd).2 h
  unfold roundCore
  split <;> omega

theorem roundCore_lt (n2 d2 M : Nat) (hd : 0 < d2) (h : 2 * n2 < (2 * M - 1) * d2) : roundCore n2 d2 < M := by
  have hM : 1 ≤ M := by
    rcases Nat.eq_zero_or_pos M with h0 | h0
    · subst h0; simp at h
    · exact h0
  have hdm := Nat.div_add_mod n2 d2
  have hr : n2 % d2 < d2 := Nat.mod_lt _ hd
  have hq : n2 / d2 < M := by
    apply (Nat.div_lt_iff_lt_mul hd).2
    have : (2 * M - 1) * d2 ≤ 2 * M * d2 := Nat.mul_le_mul_right _ (by omega)
    have : 2 * n2 < 2 * (M * d2) := by rw [← Nat.mul_assoc]; omega
    omega
  unfold roundCore
  by_cases hq' : n2 / d2 + 1 < M
  · split <;> omega
  · have hqe : n2 / d2 = M - 1 := by omega
    -- then 2 r < d2, no rounding up
    have h1 : (2 * M - 1) * d2 = 2 * (d2 * (M - 1)) + d2 := by
      obtain ⟨k, rfl⟩ : ∃ k, M = k + 1 := ⟨M - 1, by omega⟩
      have : 2 * (k + 1) - 1 = 2 * k + 1 := by omega
      rw [this]; simp only [Nat.add_sub_cancel]; ring
    rw [hqe] at hdm
    have h2 : 2 * (n2 % d2) < d2 := by omega
    have c1 : ¬ (2 * (n2 % d2) > d2) := by omega
    have c2 : ¬ (2 * (n2 % d2) = d2) := by omega
    rw [if_neg (by simp [c1, c2])]
    omega

/-- `2^1024 - 2^970 = (2^54 - 1) * 2^970`: the midpoint between MaxFloat64 and `2^1024` -/
def BND : Nat := 18014398509481983 * 2 ^ 970

theorem roundRat_eq (num den : Nat) (hn : num ≠ 0) : roundRat num den =
    (let e := expOf num den
     let sh : Int := if e < -1022 then 1074 else 52 - e
     let n2 := if sh ≥ 0 then num * 2 ^ sh.toNat else num
     let d2 := if sh ≥ 0 then den else den * 2 ^ (-sh).toNat
     let bits := if e < -1022 then roundCore n2 d2 else ((e + 1022).toNat) * p52 + roundCore n2 d2
     if bits ≥ 0x7ff0000000000000 then (0x7ff0000000000000, true) else (bits, false)) := by
  unfold roundRat
  rw [if_neg hn]
  rfl

end Refmt.FloatL

namespace Refmt.FloatL
open Refmt Refmt.FloatText

theorem BND_lt : BND < 2 ^ 1024 := by
  have : (2:Nat) ^ 1024 = 18014398509481984 * 2 ^ 970 := by
    rw [show (18014398509481984 : Nat) = 2 ^ 54 by norm_num, ← Nat.pow_add]
  rw [this]; unfold BND
  exact Nat.mul_lt_mul_of_pos_right (by decide) (Nat.pow_pos (by decide))

/-- a rational below `2^1024 - 2^970` does not overflow -/
theorem roundRat_noovf (num den : Nat) (hd : den ≠ 0) (h : num < BND * den) : (roundRat num den).2 = false := by
  by_cases hn : num = 0
  · simp [roundRat, hn]
  rw [roundRat_eq num den hn]
  have hlo := expOf_lower num den hn hd
  have hup := expOf_upper num den hn hd
  generalize expOf num den = e at hlo hup
  have hdpos : 0 < den := Nat.pos_of_ne_zero hd
  simp only
  by_cases hsub : e < -1022
  · -- subnormal: the significand is at most 2^52
    simp only [hsub, if_true, show (1074 : Int) ≥ 0 by decide, show (1074 : Int).toNat = 1074 by decide]
    have hu := hup (e + 1 + 1074).toNat (1074 + (-(e + 1 + 1074)).toNat) (by omega)
    have hq : roundCore (num * 2 ^ 1074) den ≤ 2 ^ 52 := by
      apply roundCore_le _ _ _ hdpos
      have h1 : num * 2 ^ 1074 ≤ num * 2 ^ (1074 + (-(e + 1 + 1074)).toNat) :=
        Nat.mul_le_mul_left _ (Nat.pow_le_pow_right (by decide) (by omega))
      have h2 : den * 2 ^ (e + 1 + 1074).toNat ≤ den * 2 ^ 52 :=
        Nat.mul_le_mul_left _ (Nat.pow_le_pow_right (by decide) (by omega))
      rw [Nat.mul_comm (2 ^ 52) den]
      omega
    have : ¬ (roundCore (num * 2 ^ 1074) den ≥ 9218868437227405312) := by
      have : (2:Nat) ^ 52 = 4503599627370496 := by norm_num
      omega
    rw [if_neg this]
  · simp only [hsub, if_false]
    -- e ≤ 1023
    have he : e ≤ 1023 := by
      by_contra hc
      have hl := hlo e.toNat 0 (by omega)
      have : (2:Nat) ^ 1024 ≤ 2 ^ e.toNat := Nat.pow_le_pow_right (by decide) (by omega)
      have h3 : den * 2 ^ 1024 ≤ den * 2 ^ e.toNat := Nat.mul_le_mul_left _ this
      have h4 : BND * den < 2 ^ 1024 * den := Nat.mul_lt_mul_of_pos_right BND_lt hdpos
      rw [Nat.mul_comm (2 ^ 1024) den] at h4
      simp only [Nat.pow_zero, Nat.mul_one] at hl
      omega
    -- the significand is at most 2^53, and below 2^53 when e = 1023
    have hq : roundCore (if 52 - e ≥ 0 then num * 2 ^ (52 - e).toNat else num)
        (if 52 - e ≥ 0 then den else den * 2 ^ (-(52 - e)).toNat) ≤ 2 ^ 53 ∧
        (e = 1023 → roundCore (if 52 - e ≥ 0 then num * 2 ^ (52 - e).toNat else num)
        (if 52 - e ≥ 0 then den else den * 2 ^ (-(52 - e)).toNat) < 2 ^ 53) := by
      by_cases hsh : 52 - e ≥ 0
      · simp only [hsh, if_true]
        refine ⟨?_, fun h1023 => by omega⟩
        apply roundCore_le _ _ _ hdpos
        have hu := hup 53 (52 - e).toNat (by omega)
        rw [Nat.mul_comm (2 ^ 53) den]; exact hu
      · simp only [hsh, if_false]
        have hd2 : 0 < den * 2 ^ (-(52 - e)).toNat := Nat.mul_pos hdpos (Nat.pow_pos (by decide))
        refine ⟨?_, fun h1023 => ?_⟩
        · apply roundCore_le _ _ _ hd2
          have hu := hup (e + 1).toNat 0 (by omega)
          have : (e + 1).toNat = (-(52 - e)).toNat + 53 := by omega
          rw [this, Nat.pow_add] at hu
          simp only [Nat.pow_zero, Nat.mul_one] at hu
          calc num < den * (2 ^ (-(52 - e)).toNat * 2 ^ 53) := hu
            _ = 2 ^ 53 * (den * 2 ^ (-(52 - e)).toNat) := by ring
        · subst h1023
          apply roundCore_lt _ _ _ hd2
          have : (-(52 - (1023 : Int))).toNat = 971 := by decide
          rw [this]
          have h2 : 2 * num < 2 * (BND * den) := by omega
          have h3 : 2 * (BND * den) = (2 * 2 ^ 53 - 1) * (den * 2 ^ 971) := by
            unfold BND
            rw [show (2 * 2 ^ 53 - 1 : Nat) = 18014398509481983 by norm_num,
              show (2:Nat) ^ 971 = 2 ^ 970 * 2 by rw [Nat.pow_succ]]
            ring
          omega
    generalize roundCore (if 52 - e ≥ 0 then num * 2 ^ (52 - e).toNat else num)
        (if 52 - e ≥ 0 then den else den * 2 ^ (-(52 - e)).toNat) = q at hq
    have h53 : (2:Nat) ^ 53 = 9007199254740992 := by norm_num
    have : ¬ ((e + 1022).toNat * p52 + q ≥ 9218868437227405312) := by
      unfold p52
      obtain ⟨hq1, hq2⟩ := hq
      by_cases h1023 : e = 1023
      · have := hq2 h1023
        subst h1023
        have : ((1023 : Int) + 1022).toNat = 2045 := by decide
        omega
      · have : (e + 1022).toNat ≤ 2044 := by omega
        omega
    rw [if_neg this]

end Refmt.FloatL

namespace Refmt.FloatL
open Refmt Refmt.FloatText

theorem two1024_lt : (2:Nat) ^ 1024 < 10 ^ 401 := by
  -- 2^1024 = (2^93)^11 * 2,  10^401 = (10^28)^11 * 10^93,  2^93 ≤ 10^28
  have h3 : (2:Nat) ^ 1024 = (2 ^ 93) ^ 11 * 2 := by rw [← Nat.pow_mul, ← Nat.pow_succ]
  have h4 : (10:Nat) ^ 401 = (10 ^ 28) ^ 11 * 10 ^ 93 := by rw [← Nat.pow_mul, ← Nat.pow_add]
  rw [h3, h4]
  have h5 : (2:Nat) ^ 93 ≤ 10 ^ 28 := by norm_num
  have h6 : ((2:Nat) ^ 93) ^ 11 ≤ (10 ^ 28) ^ 11 := Nat.pow_le_pow_left h5 11
  have h7 : (2 : Nat) < 10 ^ 93 := by norm_num
  calc (2 ^ 93) ^ 11 * 2 ≤ (10 ^ 28) ^ 11 * 2 := Nat.mul_le_mul_right _ h6
    _ < (10 ^ 28) ^ 11 * 10 ^ 93 := Nat.mul_lt_mul_of_pos_left h7 (Nat.pow_pos (Nat.pow_pos (by decide)))

/-- a decimal `d * 10^e10` below `2^1024 - 2^970` parses without overflow -/
theorem parseDecimal_noovf (d : Nat) (e10 : Int)
    (h : ∀ a b : Nat, (a : Int) - b = e10 → d * 10 ^ a < BND * 10 ^ b) : (parseDecimal d e10).2 = false := by
  unfold parseDecimal
  by_cases hd : d = 0
  · simp [hd]
  rw [if_neg hd]
  by_cases he : e10 ≥ 0
  · rw [if_pos he]
    have h1 := h e10.toNat 0 (by omega)
    simp only [Nat.pow_zero, Nat.mul_one] at h1
    have hle : ¬ e10 > 400 := by
      intro hc
      have : (10:Nat) ^ 401 ≤ 10 ^ e10.toNat := Nat.pow_le_pow_right (by decide) (by omega)
      have : 10 ^ e10.toNat ≤ d * 10 ^ e10.toNat := Nat.le_mul_of_pos_left _ (Nat.pos_of_ne_zero hd)
      have := BND_lt
      have := two1024_lt
      omega
    rw [if_neg hle]
    exact roundRat_noovf _ 1 (by decide) (by simpa using h1)
  · rw [if_neg he]
    split
    · rfl
    · have h1 := h 0 (-e10).toNat (by omega)
      simp only [Nat.pow_zero, Nat.mul_one] at h1
      exact roundRat_noovf _ _ (Nat.pos_iff_ne_zero.1 (Nat.pow_pos (by decide))) h1

end Refmt.FloatL
