/-
  C15 support: basic facts about `runCursor` / `runSched` of client programs (`Prog`, Props/C15.lean), used by
  the proofs that the decoder models are clients of the reader interface (Lemmas/C15Cbor.lean,
  Lemmas/C15Json.lean, Props/C15Prog.lean).
-/
import RefmtModel
import RefmtProofs.Props.C15
import RefmtProofs.Lemmas.Bounds
set_option linter.unusedSimpArgs false
set_option linter.unusedVariables false
namespace Refmt.C15Prog
open Refmt Refmt.C15

variable {β : Type}

/-- read one byte, never push it back -/
def rd1 (k : Except Err Nat → Prog β) : Prog β := .read1 (fun _ => false) k

/-- `runCursor` of a plain one-byte read, in the shape the decoder models use `Rd.read1` -/
theorem run_rd1 (k : Except Err Nat → Prog β) (rd : Rd) :
    runCursor (rd1 k) rd =
      match rd.read1 with
      | (.ok (b, rd1), _) => runCursor (k (.ok b)) rd1
      | (.error e, rd') => runCursor (k (.error e)) rd' := by
  unfold rd1
  rw [runCursor]
  rcases rd.read1 with ⟨e | ⟨b, rd1⟩, rd'⟩ <;> simp

/-- `runCursor` of a one-byte read with push-back decision `u` -/
theorem run_read1 (u : Nat → Bool) (k : Except Err Nat → Prog β) (rd : Rd) :
    runCursor (.read1 u k) rd =
      match rd.read1 with
      | (.ok (b, rd1), _) => if u b then runCursor (k (.ok b)) (rd1.unread1 b) else runCursor (k (.ok b)) rd1
      | (.error e, rd') => runCursor (k (.error e)) rd' := by
  rw [runCursor]
  rcases rd.read1 with ⟨e | ⟨b, rd1⟩, rd'⟩ <;> simp

theorem run_readN (n : Nat) (k : Except Err Bytes → Prog β) (rd : Rd) :
    runCursor (.readN n k) rd =
      match rd.readN n with
      | (r, rd') => runCursor (k r) rd' := by
  rw [runCursor]

theorem run_ret (a : β) (rd : Rd) : runCursor (.ret a) rd = some a := by
  rw [runCursor]

end Refmt.C15Prog
