/-
  Trees returned by the CBOR reference parser carry scalar bodies in their scalar nodes
  (`TV.scalar` never holds an open / close token).
-/
import RefmtModel
import RefmtProofs.Lemmas.CborParse
set_option linter.unusedSimpArgs false
set_option linter.unusedVariables false
namespace Refmt.PumpL
open Refmt Refmt.Spec.Cbor Refmt.C04

mutual
  def SB : TV → Bool
    | .scalar t => t.body.isScalar
    | .arr _ _ items => SBl items
    | .map _ _ es => SBe es
  def SBl : List TV → Bool
    | [] => true
    | v :: vs => SB v && SBl vs
  def SBe : List (TV × TV) → Bool
    | [] => true
    | (k, v) :: es => SB k && SB v && SBe es
end

theorem headOf_scalar (coerce : Bool) (bs : Bytes) (b : Body) (r : Bytes)
    (hh : headOf coerce bs = some (.scalar b r)) : b.isScalar = true := by
  cases bs with
  | nil => simp [headOf] at hh
  | cons x xs =>
    simp only [headOf] at hh
    by_cases h7 : (x / 32 == 7) = true
    · rw [if_pos h7] at hh
      repeat' split at hh
      all_goals first
        | (simp at hh; done)
        | (simp at hh; obtain ⟨rfl, _⟩ := hh; rfl)
    rw [if_neg h7] at hh
    by_cases h31 : (x % 32 == 31) = true
    · rw [if_pos h31] at hh
      repeat' split at hh
      all_goals first
        | (simp at hh; done)
        | (simp only [Option.map_eq_some_iff] at hh
           obtain ⟨⟨s, r'⟩, hc, hh⟩ := hh
           simp at hh; obtain ⟨rfl, _⟩ := hh; rfl)
    · rw [if_neg h31] at hh
      cases ha : arg (x % 32) xs with
      | none => rw [ha] at hh; simp at hh
      | some p =>
        obtain ⟨n, r'⟩ := p
        rw [ha] at hh
        dsimp only at hh
        repeat' split at hh
        all_goals first
          | (simp at hh; done)
          | (simp at hh; obtain ⟨rfl, _⟩ := hh; rfl)

def SBall (coerce : Bool) (f : Nat) : Prop :=
  (∀ bs tag v r, parseItem coerce f bs tag = some (v, r) → SB v = true) ∧
  (∀ k bs vs r, parseN coerce f k bs = some (vs, r) → SBl vs = true) ∧
  (∀ k bs es r, parseEntriesN coerce f k bs = some (es, r) → SBe es = true) ∧
  (∀ bs vs r, parseUntilBreak coerce f bs = some (vs, r) → SBl vs = true) ∧
  (∀ bs es r, parseEntriesUntilBreak coerce f bs = some (es, r) → SBe es = true)

theorem sbAll (coerce : Bool) : ∀ f, SBall coerce f := by
  intro f
  induction f with
  | zero =>
    refine ⟨?_, ?_, ?_, ?_, ?_⟩
    · intro bs tag v r h; simp [parseItem] at h
    · intro k bs vs r h; simp [parseN] at h
    · intro k bs vs r h; simp [parseEntriesN] at h
    · intro bs vs r h; simp [parseUntilBreak] at h
    · intro bs vs r h; simp [parseEntriesUntilBreak] at h
  | succ f ih =>
    obtain ⟨ihI, ihN, ihEN, ihUB, ihEUB⟩ := ih
    refine ⟨?_, ?_, ?_, ?_, ?_⟩
    · intro bs tag v r h
      rw [parseItem_eq] at h
      cases hh : headOf coerce bs with
      | none => rw [hh] at h; simp [itemOf] at h
      | some hd =>
        rw [hh] at h
        cases hd with
        | scalar b r0 =>
          simp only [itemOf, Option.some.injEq, Prod.mk.injEq] at h
          obtain ⟨rfl, rfl⟩ := h
          simp only [SB]
          exact headOf_scalar coerce bs b _ hh
        | arrI r0 =>
          simp only [itemOf] at h
          obtain ⟨⟨vs, r'⟩, hp, he⟩ := map_some h
          simp only [Prod.mk.injEq] at he
          obtain ⟨rfl, rfl⟩ := he
          simpa [SB] using ihUB _ _ _ hp
        | mapI r0 =>
          simp only [itemOf] at h
          obtain ⟨⟨vs, r'⟩, hp, he⟩ := map_some h
          simp only [Prod.mk.injEq] at he
          obtain ⟨rfl, rfl⟩ := he
          simpa [SB] using ihEUB _ _ _ hp
        | arrD n r0 =>
          simp only [itemOf] at h
          obtain ⟨⟨vs, r'⟩, hp, he⟩ := map_some h
          simp only [Prod.mk.injEq] at he
          obtain ⟨rfl, rfl⟩ := he
          simpa [SB] using ihN _ _ _ _ hp
        | mapD n r0 =>
          simp only [itemOf] at h
          obtain ⟨⟨vs, r'⟩, hp, he⟩ := map_some h
          simp only [Prod.mk.injEq] at he
          obtain ⟨rfl, rfl⟩ := he
          simpa [SB] using ihEN _ _ _ _ hp
        | tag n r0 =>
          simp only [itemOf] at h
          cases tag with
          | some t => simp at h
          | none =>
            dsimp only at h
            exact ihI _ _ _ _ h
    · intro k bs vs r h
      cases k with
      | zero => simp [parseN] at h; obtain ⟨rfl, rfl⟩ := h; rfl
      | succ k =>
        simp only [parseN] at h
        split at h
        · simp at h
        · rename_i v r1 hi
          obtain ⟨⟨vs', r'⟩, hp, he⟩ := map_some h
          simp only [Prod.mk.injEq] at he
          obtain ⟨rfl, rfl⟩ := he
          simp [SBl, ihI _ _ _ _ hi, ihN _ _ _ _ hp]
    · intro k bs es r h
      cases k with
      | zero => simp [parseEntriesN] at h; obtain ⟨rfl, rfl⟩ := h; rfl
      | succ k =>
        simp only [parseEntriesN] at h
        split at h
        · simp at h
        · rename_i key r1 hi
          split at h
          · simp at h
          · rename_i v r2 hi2
            obtain ⟨⟨es', r'⟩, hp, he⟩ := map_some h
            simp only [Prod.mk.injEq] at he
            obtain ⟨rfl, rfl⟩ := he
            simp [SBe, ihI _ _ _ _ hi, ihI _ _ _ _ hi2, ihEN _ _ _ _ hp]
    · intro bs vs r h
      simp only [parseUntilBreak] at h
      split at h
      · simp at h; obtain ⟨rfl, rfl⟩ := h; rfl
      · split at h
        · simp at h
        · rename_i v r1 hi
          obtain ⟨⟨vs', r'⟩, hp, he⟩ := map_some h
          simp only [Prod.mk.injEq] at he
          obtain ⟨rfl, rfl⟩ := he
          simp [SBl, ihI _ _ _ _ hi, ihUB _ _ _ hp]
    · intro bs es r h
      simp only [parseEntriesUntilBreak] at h
      split at h
      · simp at h; obtain ⟨rfl, rfl⟩ := h; rfl
      · split at h
        · simp at h
        · rename_i key r1 hi
          split at h
          · simp at h
          · rename_i v r2 hi2
            obtain ⟨⟨es', r'⟩, hp, he⟩ := map_some h
            simp only [Prod.mk.injEq] at he
            obtain ⟨rfl, rfl⟩ := he
            simp [SBe, ihI _ _ _ _ hi, ihI _ _ _ _ hi2, ihEUB _ _ _ hp]

theorem parse_SB (coerce : Bool) (bs : Bytes) (v : TV) (rest : Bytes)
    (h : Spec.Cbor.parse coerce bs = some (v, rest)) : SB v = true :=
  (sbAll coerce _).1 _ _ _ _ h

end Refmt.PumpL
