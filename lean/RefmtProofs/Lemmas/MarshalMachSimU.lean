/-
  Simulation lemma for the keyed-union machine (its delegate lives in the tip row, which may be its own row).
-/
import RefmtProofs.Lemmas.MarshalMachSimT
open Refmt Refmt.Obj Refmt.Obj.MM
set_option linter.unusedVariables false
set_option linter.unusedSimpArgs false

namespace Refmt.MachL

variable {ts : Types} {a : Atlas} {trs : Trs}

/-- set the union machine's phase -/
def uStep (p : UPhase) (r : Row) : Row := { r with union := { r.union with step := p } }

theorem stepM_union_at {n lo row hi st cur be} :
    stepM ts a trs (n+1) ⟨lo.length, .union⟩ ⟨lo ++ row :: hi, st, cur, be⟩ =
      stepUnion (stepM ts a trs n) ⟨lo.length, .union⟩ row ⟨lo ++ row :: hi, st, cur, be⟩ := by
  simp only [stepM_at, stepBody, getRow]

theorem stepU_open {n lo row hi st cur be} (h : row.union.step = .emitMapOpen) :
    stepM ts a trs (n+1) ⟨lo.length, .union⟩ ⟨lo ++ row :: hi, st, cur, be⟩ =
      .ok ⟨⟨.mapOpen 1, none⟩, false, ⟨lo ++ uStep .emitKey row :: hi, st, cur, be⟩⟩ := by
  rw [stepM_union_at]
  simp [stepUnion, h, upd_at, tk, uStep]

theorem stepU_key {n lo row hi st cur be} (h : row.union.step = .emitKey) :
    stepM ts a trs (n+1) ⟨lo.length, .union⟩ ⟨lo ++ row :: hi, st, cur, be⟩ =
      .ok ⟨⟨.str row.union.elementName, none⟩, false, ⟨lo ++ uStep .delegate row :: hi, st, cur, be⟩⟩ := by
  rw [stepM_union_at]
  simp [stepUnion, h, upd_at, tk, uStep]

theorem stepU_close {n lo row hi st cur be} (h : row.union.step = .emitMapClose) :
    stepM ts a trs (n+1) ⟨lo.length, .union⟩ ⟨lo ++ row :: hi, st, cur, be⟩ =
      .ok ⟨⟨.mapClose, none⟩, true, ⟨lo ++ uStep .nil row :: hi, st, cur, be⟩⟩ := by
  rw [stepM_union_at]
  simp [stepUnion, h, upd_at, tk, uStep]

/-- delegate phase, the delegate's step does not report done: passed on -/
theorem stepU_pass {n lo row hi st cur be d res}
    (h : row.union.step = .delegate) (hd : row.union.delegate = some d)
    (hs : stepM ts a trs n d ⟨lo ++ row :: hi, st, cur, be⟩ = .ok res) (hnd : res.done = false) :
    stepM ts a trs (n+1) ⟨lo.length, .union⟩ ⟨lo ++ row :: hi, st, cur, be⟩ = .ok res := by
  rw [stepM_union_at]
  simp [stepUnion, h, hd, hs, hnd]

theorem stepU_err {n lo row hi st cur be d e}
    (h : row.union.step = .delegate) (hd : row.union.delegate = some d)
    (hs : stepM ts a trs n d ⟨lo ++ row :: hi, st, cur, be⟩ = .error e) :
    stepM ts a trs (n+1) ⟨lo.length, .union⟩ ⟨lo ++ row :: hi, st, cur, be⟩ = .error e := by
  rw [stepM_union_at]
  simp [stepUnion, h, hd, hs]

/-- delegate phase, the delegate reports done: the union machine does not, and goes to its closing phase -/
theorem stepU_done {n lo row hi st cur be d t row' hi' st' cur' be'}
    (h : row.union.step = .delegate) (hd : row.union.delegate = some d)
    (hs : stepM ts a trs n d ⟨lo ++ row :: hi, st, cur, be⟩ = .ok ⟨t, true, ⟨lo ++ row' :: hi', st', cur', be'⟩⟩) :
    stepM ts a trs (n+1) ⟨lo.length, .union⟩ ⟨lo ++ row :: hi, st, cur, be⟩ =
      .ok ⟨t, false, ⟨lo ++ uStep .emitMapClose row' :: hi', st', cur', be'⟩⟩ := by
  rw [stepM_union_at]
  simp [stepUnion, h, hd, hs, upd_at, uStep]

/-- the union machine's row once the member is known -/
def uTarget (dv : Val) (name : Bytes) (r : Row) : Row :=
  { r with union := { r.union with target_rv := dv, elementName := name } }
def uDeleg (d : MRef) (r : Row) : Row := { r with union := { r.union with delegate := some d } }

theorem set_at (lo : List Row) (row x : Row) (hi : List Row) : (lo ++ row :: hi).set lo.length x = lo ++ x :: hi := by
  simp

/-- `Reset` of the union machine when its row is the tip: the delegate is configured in the same row -/
theorem resetU_same {n lo row rt dt dv name idx me trow' kd}
    (hfind : row.union.members.find? (fun x => (a.pool[x.2]?.map (·.ty)) == some dt) = some (name, idx))
    (hme : a.pool[idx]? = some me)
    (hc : cfgMach ts a n (uTarget dv name row) me.ty (machForEntry ts me) = .ok (trow', kd)) :
    resetM ts a trs (n+1) ⟨lo.length, .union⟩ rt (.iface (some (dt, dv))) (lo ++ row :: []) =
      match resetM ts a trs n ⟨lo.length, kd⟩ me.ty dv (lo ++ uDeleg ⟨lo.length, kd⟩ trow' :: []) with
      | .error x => .error x
      | .ok R4 => .ok (updRow R4 lo.length (uStep .emitMapOpen)) := by
  have hlen : ∀ x : Row, (lo ++ [x]).length - 1 = lo.length := by intro x; simp
  have hc' := hc
  simp only [uTarget] at hc'
  simp only [resetM_at, resetBody, getRow, resetUnion, hfind, hme, updRow_at, hlen, hc', set_at, uDeleg]
  rfl

/-- the functional result of the union machine, from its member's -/
def unionOut (name : Bytes) (inner : MOut) : MOut :=
  match inner.toks, inner.fail with
  | [], some f => .bad f
  | _, _ =>
    (MOut.ok [⟨.mapOpen 1, none⟩, ⟨.str name, none⟩]).seq fun _ => inner.seq fun _ => .ok [⟨.mapClose, none⟩]

theorem unionOut_bad {name : Bytes} {inner : MOut} {f : Fail} (h1 : inner.toks = []) (h2 : inner.fail = some f) :
    unionOut name inner = .bad f := by
  simp [unionOut, h1, h2]

theorem unionOut_ok {name : Bytes} {inner : MOut} (h : ¬ (inner.toks = [] ∧ inner.fail ≠ none)) :
    (unionOut name inner).fail = inner.fail ∧
    (unionOut name inner).toks = ⟨.mapOpen 1, none⟩ :: ⟨.str name, none⟩ ::
      (inner.toks ++ if inner.fail = none then [⟨.mapClose, none⟩] else []) := by
  unfold unionOut
  split
  · next h1 h2 => exact absurd ⟨h1, by simp [h2]⟩ h
  · cases hf : inner.fail <;> simp [MOut.seq, MOut.ok, hf]

theorem agreeW_ptr_only {p1 : Bool} {r r' : Row} (h : p1 = true → r'.ptr = r.ptr) : agreeW (p1, false, false) r r' :=
  ⟨h, fun x => (by cases x), fun x => (by cases x)⟩

theorem sim_union_same {p1 b1 : Bool} {Q Qd : Row → Prop} {L row rt dt dv name idx me trow' kd nc} {rin : MOut}
    (hcl : Clean [row])
    (hfind : row.union.members.find? (fun x => (a.pool[x.2]?.map (·.ty)) == some dt) = some (name, idx))
    (hme : a.pool[idx]? = some me)
    (hc : cfgMach ts a nc (uTarget dv name row) me.ty (machForEntry ts me) = .ok (trow', kd))
    (htu : trow'.union = (uTarget dv name row).union) (htp : trow'.ptr = row.ptr)
    (hsim : Sim ts a trs (p1, false, true) (b1, false, true) Qd L (uDeleg ⟨L, kd⟩ trow') [] ⟨L, kd⟩ me.ty dv rin)
    (hq : ∀ r2 : Row, r2.union.cfg = row.union.cfg → r2.union.members = row.union.members → Q r2) :
    Sim ts a trs (p1, false, false) (b1, false, false) Q L row [] ⟨L, .union⟩ rt (.iface (some (dt, dv)))
      (unionOut name rin) := by
  obtain ⟨hs1, hs2⟩ := hsim
  have hreset : ∀ (lo : List Row) n, lo.length = L → nc ≤ n →
      resetM ts a trs (n+1) ⟨L, .union⟩ rt (.iface (some (dt, dv))) (lo ++ row :: []) =
      match resetM ts a trs n ⟨L, kd⟩ me.ty dv (lo ++ uDeleg ⟨L, kd⟩ trow' :: []) with
      | .error x => .error x
      | .ok R4 => .ok (updRow R4 L (uStep .emitMapOpen)) := by
    intro lo n hl hn; subst hl
    exact resetU_same hfind hme (by rw [cfgMach_mono hn (hc ▸ NS.ok), hc])
  refine ⟨fun e h1 h2 => ?_, fun hne => ?_⟩
  · -- the member's Reset fails
    have hbad : rin.toks = [] ∧ rin.fail ≠ none := by
      apply Classical.byContradiction; intro hcon
      have := (unionOut_ok (name := name) hcon).2
      rw [h1] at this; cases this
    obtain ⟨f, hf⟩ : ∃ f, rin.fail = some f := by
      cases h : rin.fail with
      | none => exact absurd h hbad.2
      | some f => exact ⟨f, rfl⟩
    rw [unionOut_bad hbad.1 hf] at h2
    cases h2
    obtain ⟨n, hn⟩ := hs1 e hbad.1 hf
    refine ⟨max nc n + 1, fun lo hl => ?_⟩
    rw [hreset lo _ hl (Nat.le_max_left _ _), resetM_mono (Nat.le_max_right _ _) ((hn lo hl) ▸ NS.f), hn lo hl]
  · have hin : ¬ (rin.toks = [] ∧ rin.fail ≠ none) := by
      rintro ⟨h1, h2⟩
      obtain ⟨f, hf⟩ : ∃ f, rin.fail = some f := by
        cases h : rin.fail with
        | none => exact absurd h h2
        | some f => exact ⟨f, rfl⟩
      apply hne
      rw [unionOut_bad h1 hf]
      exact ⟨rfl, by simp [MOut.bad]⟩
    obtain ⟨hofail, hotoks⟩ := unionOut_ok (name := name) hin
    obtain ⟨n, row1, hi1, hr, hag1, hq1, hc1, hrun⟩ := hs2 hin
    -- the union sub-struct of the row after the member's Reset
    have hu1 : row1.union = { (uTarget dv name row).union with delegate := some ⟨L, kd⟩ } := by
      rw [hag1.2.2 rfl]; simp only [uDeleg, htu]
    have hp1 : p1 = true → row1.ptr = row.ptr := fun h => by rw [hag1.1 h]; exact htp
    refine ⟨max nc n + 1, uStep .emitMapOpen row1, hi1, fun lo hl => ?_, agreeW_ptr_only hp1,
      hq _ (by simp [uStep, hu1, uTarget]) (by simp [uStep, hu1, uTarget]), Clean.cons hc1.head hc1.tail,
      fun lo hl => ?_⟩
    · rw [hreset lo _ hl (Nat.le_max_left _ _), resetM_mono (Nat.le_max_right _ _) ((hr lo hl) ▸ NS.ok), hr lo hl]
      subst hl
      simp only [updRow_at]
    · subst hl
      intro w cur st be
      refine ⟨1, ⟨.mapOpen 1, none⟩, false, uStep .emitKey (setWm (b1, false, false) w (uStep .emitMapOpen row1)), hi1,
        stepU_open rfl, agreeW_ptr_only (fun _ => rfl), fun h => (by cases h), fun _ => ?_⟩
      refine ⟨⟨.str name, none⟩ :: (rin.toks ++ if rin.fail = none then [⟨.mapClose, none⟩] else []), hotoks,
        fun w' hp => ?_⟩
      rw [hofail]
      generalize hY : setWm (b1, false, false) w'
        (uStep .emitKey (setWm (b1, false, false) w (uStep .emitMapOpen row1))) = Y at hp ⊢
      have hYu : Y.union = { row1.union with step := .emitKey } := by subst hY; rfl
      have hZ : uStep .delegate Y = setWm (b1, false, true) (getW (uStep .delegate Y)) row1 := by
        subst hY; cases b1 <;> rfl
      have hZu : (uStep .delegate Y).union = { row1.union with step := .delegate } := by
        simp only [uStep, hYu]
      -- the key
      have hkey : CS ts a trs ⟨lo ++ Y :: hi1, st, some cur, be⟩
          (.ok ⟨⟨.str name, none⟩, false, ⟨lo ++ uStep .delegate Y :: hi1, st, some cur, be⟩⟩) := by
        refine hp.cs_tok (n := 1) (agreeW.refl _ _) (agreeW_ptr_only (fun _ => rfl)) ?_
        rw [stepU_key (by rw [hYu]), hYu, hu1]
        rfl
      -- the member's first step, in the delegate phase
      obtain ⟨n1, t1, done1, rowA, hiA, hst, hagA, hdone, hnd⟩ := hrun lo rfl (getW (uStep .delegate Y)) cur st be
      rw [← hZ] at hst hagA
      have hZstep : (uStep .delegate Y).union.step = .delegate := rfl
      have hZdel : (uStep .delegate Y).union.delegate = some ⟨lo.length, kd⟩ := by rw [hZu, hu1]
      have hAu : rowA.union = (uStep .delegate Y).union := hagA.2.2 rfl
      have hAp : p1 = true → rowA.ptr = Y.ptr := fun h => hagA.1 h
      have hcfgU : ∀ r2 : Row, r2.union = rowA.union → ∀ ph, Q (uStep ph r2) := by
        intro r2 h2 ph
        refine hq _ ?_ ?_ <;> simp [uStep, h2, hAu, hYu, hu1, uTarget]
      cases done1 with
      | true =>
        obtain ⟨hrin, hqA, hcA⟩ := hdone rfl
        have hd1 : CS ts a trs ⟨lo ++ uStep .delegate Y :: hi1, st, some cur, be⟩
            (.ok ⟨t1, false, ⟨lo ++ uStep .emitMapClose rowA :: hiA, st, some cur, be⟩⟩) := by
          refine hp.cs_tok (n := n1+1) (agreeW_ptr_only (fun _ => rfl)) (agreeW_ptr_only hAp) ?_
          exact stepU_done hZstep hZdel hst
        unfold Rest
        rw [hrin]
        simp only
        refine ⟨[⟨.str name, none⟩, t1], ⟨.mapClose, none⟩, uStep .emitMapClose rowA, hiA,
          uStep .nil (uStep .emitMapClose rowA), hiA, 1, by simp,
          ⟨_, hkey.toDS_tok, _, hd1.toDS_tok, rfl⟩, agreeW_ptr_only hAp, stepU_close rfl, agreeW_ptr_only hAp,
          hcfgU _ rfl _, Clean.cons hcA.head hcA.tail⟩
      | false =>
        obtain ⟨restd, htoksd, hrestd⟩ := hnd rfl
        have hd1 : CS ts a trs ⟨lo ++ uStep .delegate Y :: hi1, st, some cur, be⟩
            (.ok ⟨t1, false, ⟨lo ++ rowA :: hiA, st, some cur, be⟩⟩) := by
          refine hp.cs_tok (n := n1+1) (agreeW_ptr_only (fun _ => rfl)) (agreeW_ptr_only hAp) ?_
          exact stepU_pass hZstep hZdel hst rfl
        -- in the delegate phase the union machine passes the member's steps on
        have hpd : Pass ts a trs cur ⟨lo.length, kd⟩ lo (p1, false, true) rowA := by
          refine ⟨fun row' hi' st' be' n' res hag hs hnd' hshape => ?_, fun row' hi' st' be' n' e hag hs => ?_⟩
          · obtain ⟨row'', hi'', hrows, hag''⟩ := hshape
            have hu' : row'.union = (uStep .delegate Y).union := by rw [hag.2.2 rfl, hAu]
            refine hp.1 row' hi' st' be' (n'+1) res (agreeW_ptr_only (fun h => by rw [hag.1 h, hAp h])) ?_ hnd'
              ⟨row'', hi'', hrows, agreeW_ptr_only (fun h => by rw [hag''.1 h, hAp h])⟩
            exact stepU_pass (by rw [hu']; rfl) (by rw [hu', hZdel]) hs hnd'
          · have hu' : row'.union = (uStep .delegate Y).union := by rw [hag.2.2 rfl, hAu]
            refine hp.2 row' hi' st' be' (n'+1) e (agreeW_ptr_only (fun h => by rw [hag.1 h, hAp h])) ?_
            exact stepU_err (by rw [hu']; rfl) (by rw [hu', hZdel]) hs
        have hR := hrestd (getW rowA) (by rw [setWm_self]; exact hpd)
        rw [setWm_self] at hR
        unfold Rest at hR ⊢
        cases hf : rin.fail with
        | some e =>
          simp only [hf] at hR ⊢
          obtain ⟨smid, hem, hds⟩ := hR
          refine ⟨smid, ?_, hds⟩
          rw [htoksd]
          simp only [List.append_nil, if_neg (by simp : ¬ (some e = none))]
          exact ⟨_, hkey.toDS_tok, _, hd1.toDS_tok, hem⟩
        | none =>
          simp only [hf] at hR ⊢
          obtain ⟨mid, last, rowM, hiM, row2, hi2, n2, y1, y2, y3, y4, y5, y6, y7⟩ := hR
          have hMu : rowM.union = (uStep .delegate Y).union := by rw [y3.2.2 rfl, hAu]
          have h2u : row2.union = rowA.union := y5.2.2 rfl
          have hlast : CS ts a trs ⟨lo ++ rowM :: hiM, st, some cur, be⟩
              (.ok ⟨last, false, ⟨lo ++ uStep .emitMapClose row2 :: hi2, st, some cur, be⟩⟩) := by
            refine hp.cs_tok (n := n2+1) (agreeW_ptr_only (fun h => by rw [y3.1 h, hAp h]))
              (agreeW_ptr_only (fun h => by show row2.ptr = Y.ptr; rw [y5.1 h, hAp h])) ?_
            exact stepU_done (by rw [hMu]; rfl) (by rw [hMu, hZdel]) y4
          refine ⟨⟨.str name, none⟩ :: t1 :: (mid ++ [last]), ⟨.mapClose, none⟩, uStep .emitMapClose row2, hi2,
            uStep .nil (uStep .emitMapClose row2), hi2, 1, by rw [htoksd, y1]; simp,
            ⟨_, hkey.toDS_tok, _, hd1.toDS_tok, Emits.append y2 (Emits.one hlast.toDS_tok)⟩,
            agreeW_ptr_only (fun h => by show row2.ptr = Y.ptr; rw [y5.1 h, hAp h]), stepU_close rfl,
            agreeW_ptr_only (fun h => by show row2.ptr = Y.ptr; rw [y5.1 h, hAp h]),
            hcfgU _ h2u _, Clean.cons y7.head y7.tail⟩

theorem getRow_tip (lo : List Row) (row : Row) (hi0 : List Row) (x : Row) :
    (lo ++ row :: (hi0 ++ [x]))[lo.length + 1 + hi0.length]? = some x := by
  rw [← reassoc, ← len_at lo row hi0]
  exact getRow _ _ _

theorem set_tip (lo : List Row) (row : Row) (hi0 : List Row) (x y : Row) :
    (lo ++ row :: (hi0 ++ [x])).set (lo.length + 1 + hi0.length) y = lo ++ row :: (hi0 ++ [y]) := by
  rw [← reassoc, ← len_at lo row hi0, set_at, reassoc]

/-- `Reset` of the union machine when there are rows above its own: the delegate is configured in the tip row -/
theorem resetU_tip {n lo row hi0 trow rt dt dv name idx me trow' kd}
    (hfind : row.union.members.find? (fun x => (a.pool[x.2]?.map (·.ty)) == some dt) = some (name, idx))
    (hme : a.pool[idx]? = some me)
    (hc : cfgMach ts a n trow me.ty (machForEntry ts me) = .ok (trow', kd)) :
    resetM ts a trs (n+1) ⟨lo.length, .union⟩ rt (.iface (some (dt, dv))) (lo ++ row :: (hi0 ++ [trow])) =
      match resetM ts a trs n ⟨lo.length + 1 + hi0.length, kd⟩ me.ty dv
          (lo ++ uDeleg ⟨lo.length + 1 + hi0.length, kd⟩ (uTarget dv name row) :: (hi0 ++ [trow'])) with
      | .error x => .error x
      | .ok R4 => .ok (updRow R4 lo.length (uStep .emitMapOpen)) := by
  have hlen : ∀ x : Row, (lo ++ x :: (hi0 ++ [trow])).length - 1 = lo.length + 1 + hi0.length := by
    intro x; simp; omega
  simp only [resetM_at, resetBody, getRow, resetUnion, hfind, hme, updRow_at, hlen, getRow_tip, hc, set_tip, uDeleg,
    uTarget]
  rfl

theorem sim_union_tip {p1 b1 : Bool} {mkd vmd : Mask} {Q Qd : Row → Prop} {L row hi0 trow rt dt dv name idx me trow' kd nc}
    {rin : MOut} (hcl : Clean (row :: hi0))
    (hfind : row.union.members.find? (fun x => (a.pool[x.2]?.map (·.ty)) == some dt) = some (name, idx))
    (hme : a.pool[idx]? = some me)
    (hc : cfgMach ts a nc trow me.ty (machForEntry ts me) = .ok (trow', kd))
    (hsim : Sim ts a trs mkd vmd Qd (L + 1 + hi0.length) trow' [] ⟨L + 1 + hi0.length, kd⟩ me.ty dv rin)
    (hq : ∀ r2 : Row, r2.union.cfg = row.union.cfg → r2.union.members = row.union.members → Q r2) :
    Sim ts a trs (p1, false, false) (b1, false, false) Q L row (hi0 ++ [trow]) ⟨L, .union⟩ rt (.iface (some (dt, dv)))
      (unionOut name rin) := by
  obtain ⟨hs1, hs2⟩ := hsim
  have hreset : ∀ (lo : List Row) n, lo.length = L → nc ≤ n →
      resetM ts a trs (n+1) ⟨L, .union⟩ rt (.iface (some (dt, dv))) (lo ++ row :: (hi0 ++ [trow])) =
      match resetM ts a trs n ⟨L + 1 + hi0.length, kd⟩ me.ty dv
          (lo ++ uDeleg ⟨L + 1 + hi0.length, kd⟩ (uTarget dv name row) :: (hi0 ++ [trow'])) with
      | .error x => .error x
      | .ok R4 => .ok (updRow R4 L (uStep .emitMapOpen)) := by
    intro lo n hl hn; subst hl
    exact resetU_tip hfind hme (by rw [cfgMach_mono hn (hc ▸ NS.ok), hc])
  have hlen : ∀ (lo : List Row) (r' : Row), lo.length = L → (lo ++ r' :: hi0).length = L + 1 + hi0.length := by
    intro lo r' hl; rw [len_at, hl]
  refine ⟨fun e h1 h2 => ?_, fun hne => ?_⟩
  · have hbad : rin.toks = [] ∧ rin.fail ≠ none := by
      apply Classical.byContradiction; intro hcon
      have := (unionOut_ok (name := name) hcon).2
      rw [h1] at this; cases this
    obtain ⟨f, hf⟩ : ∃ f, rin.fail = some f := by
      cases h : rin.fail with
      | none => exact absurd h hbad.2
      | some f => exact ⟨f, rfl⟩
    rw [unionOut_bad hbad.1 hf] at h2
    cases h2
    obtain ⟨n, hn⟩ := hs1 e hbad.1 hf
    refine ⟨max nc n + 1, fun lo hl => ?_⟩
    have := hn (lo ++ uDeleg ⟨L + 1 + hi0.length, kd⟩ (uTarget dv name row) :: hi0) (hlen lo _ hl)
    rw [reassoc] at this
    rw [hreset lo _ hl (Nat.le_max_left _ _), resetM_mono (Nat.le_max_right _ _) (this ▸ NS.f), this]
  · have hin : ¬ (rin.toks = [] ∧ rin.fail ≠ none) := by
      rintro ⟨h1, h2⟩
      obtain ⟨f, hf⟩ : ∃ f, rin.fail = some f := by
        cases h : rin.fail with
        | none => exact absurd h h2
        | some f => exact ⟨f, rfl⟩
      apply hne
      rw [unionOut_bad h1 hf]
      exact ⟨rfl, by simp [MOut.bad]⟩
    obtain ⟨hofail, hotoks⟩ := unionOut_ok (name := name) hin
    obtain ⟨n, row1, hi1, hr, _, hq1, hc1, hrun⟩ := hs2 hin
    refine ⟨max nc n + 1, uStep .emitMapOpen (uDeleg ⟨L + 1 + hi0.length, kd⟩ (uTarget dv name row)),
      hi0 ++ row1 :: hi1, fun lo hl => ?_, agreeW_ptr_only (fun _ => rfl), hq _ rfl rfl,
      Clean.cons hcl.head (Clean.append hcl.tail hc1), fun lo hl => ?_⟩
    · have := hr (lo ++ uDeleg ⟨L + 1 + hi0.length, kd⟩ (uTarget dv name row) :: hi0) (hlen lo _ hl)
      rw [reassoc] at this
      rw [hreset lo _ hl (Nat.le_max_left _ _), resetM_mono (Nat.le_max_right _ _) (this ▸ NS.ok), this]
      subst hl
      simp only [reassoc, updRow_at]
    · subst hl
      intro w cur st be
      refine ⟨1, ⟨.mapOpen 1, none⟩, false,
        uStep .emitKey (setWm (b1, false, false) w
          (uStep .emitMapOpen (uDeleg ⟨lo.length + 1 + hi0.length, kd⟩ (uTarget dv name row)))),
        hi0 ++ row1 :: hi1, stepU_open rfl, agreeW_ptr_only (fun _ => rfl), fun h => (by cases h), fun _ => ?_⟩
      refine ⟨⟨.str name, none⟩ :: (rin.toks ++ if rin.fail = none then [⟨.mapClose, none⟩] else []), hotoks,
        fun w' hp => ?_⟩
      rw [hofail]
      generalize hY : setWm (b1, false, false) w' (uStep .emitKey (setWm (b1, false, false) w
        (uStep .emitMapOpen (uDeleg ⟨lo.length + 1 + hi0.length, kd⟩ (uTarget dv name row))))) = Y at hp ⊢
      have hYu : Y.union = { (uDeleg ⟨lo.length + 1 + hi0.length, kd⟩ (uTarget dv name row)).union with
          step := .emitKey } := by subst hY; rfl
      have hYm : Y.map = row.map := by subst hY; rfl
      have hkey : CS ts a trs ⟨lo ++ Y :: (hi0 ++ row1 :: hi1), st, some cur, be⟩
          (.ok ⟨⟨.str name, none⟩, false, ⟨lo ++ uStep .delegate Y :: (hi0 ++ row1 :: hi1), st, some cur, be⟩⟩) := by
        refine hp.cs_tok (n := 1) (agreeW.refl _ _) (agreeW_ptr_only (fun _ => rfl)) ?_
        rw [stepU_key (by rw [hYu]), hYu]
        rfl
      have hZstep : (uStep .delegate Y).union.step = .delegate := rfl
      have hZdel : (uStep .delegate Y).union.delegate = some ⟨lo.length + 1 + hi0.length, kd⟩ := by
        simp only [uStep, hYu, uDeleg]
      have hcfgU : ∀ ph, Q (uStep ph (uStep .delegate Y)) := by
        intro ph
        refine hq _ ?_ ?_ <;> simp [uStep, hYu, uDeleg, uTarget]
      have hclZ : ∀ ph, (uStep ph (uStep .delegate Y)).map.value = false := by
        intro ph; show Y.map.value = false; rw [hYm]; exact hcl.head
      obtain ⟨n1, t1, done1, rowA, hiA, hst, _, hdone, hnd⟩ :=
        hrun (lo ++ uStep .delegate Y :: hi0) (len_at ..) (getW row1) cur st be
      rw [setWm_self] at hst
      simp only [reassoc] at hst
      cases done1 with
      | true =>
        obtain ⟨hrin, hqA, hcA⟩ := hdone rfl
        have hd1 : CS ts a trs ⟨lo ++ uStep .delegate Y :: (hi0 ++ row1 :: hi1), st, some cur, be⟩
            (.ok ⟨t1, false, ⟨lo ++ uStep .emitMapClose (uStep .delegate Y) :: (hi0 ++ rowA :: hiA), st, some cur, be⟩⟩) := by
          refine hp.cs_tok (n := n1+1) (agreeW_ptr_only (fun _ => rfl)) (agreeW_ptr_only (fun _ => rfl)) ?_
          exact stepU_done hZstep hZdel hst
        unfold Rest
        rw [hrin]
        simp only
        refine ⟨[⟨.str name, none⟩, t1], ⟨.mapClose, none⟩, uStep .emitMapClose (uStep .delegate Y), hi0 ++ rowA :: hiA,
          uStep .nil (uStep .emitMapClose (uStep .delegate Y)), hi0 ++ rowA :: hiA, 1, by simp,
          ⟨_, hkey.toDS_tok, _, hd1.toDS_tok, rfl⟩, agreeW_ptr_only (fun _ => rfl), stepU_close rfl,
          agreeW_ptr_only (fun _ => rfl), hcfgU _,
          Clean.cons (hclZ _) (Clean.append hcl.tail hcA)⟩
      | false =>
        obtain ⟨restd, htoksd, hrestd⟩ := hnd rfl
        have hd1 : CS ts a trs ⟨lo ++ uStep .delegate Y :: (hi0 ++ row1 :: hi1), st, some cur, be⟩
            (.ok ⟨t1, false, ⟨lo ++ uStep .delegate Y :: (hi0 ++ rowA :: hiA), st, some cur, be⟩⟩) := by
          refine hp.cs_tok (n := n1+1) (agreeW_ptr_only (fun _ => rfl)) (agreeW_ptr_only (fun _ => rfl)) ?_
          exact stepU_pass hZstep hZdel hst rfl
        have hpd : Pass ts a trs cur ⟨lo.length + 1 + hi0.length, kd⟩ (lo ++ uStep .delegate Y :: hi0) mkd rowA := by
          refine ⟨fun row' hi' st' be' n' res hag hs hnd' hshape => ?_, fun row' hi' st' be' n' e hag hs => ?_⟩
          · obtain ⟨row'', hi'', hrows, hag''⟩ := hshape
            rw [reassoc] at hs ⊢
            refine hp.1 (uStep .delegate Y) (hi0 ++ row' :: hi') st' be' (n'+1) res (agreeW_ptr_only (fun _ => rfl)) ?_ hnd'
              ⟨uStep .delegate Y, hi0 ++ row'' :: hi'', by rw [hrows, reassoc], agreeW_ptr_only (fun _ => rfl)⟩
            exact stepU_pass hZstep hZdel hs hnd'
          · rw [reassoc] at hs ⊢
            refine hp.2 (uStep .delegate Y) (hi0 ++ row' :: hi') st' be' (n'+1) e (agreeW_ptr_only (fun _ => rfl)) ?_
            exact stepU_err hZstep hZdel hs
        have hR := hrestd (getW rowA) (by rw [setWm_self]; exact hpd)
        rw [setWm_self] at hR
        unfold Rest at hR ⊢
        cases hf : rin.fail with
        | some e =>
          simp only [hf, reassoc] at hR ⊢
          obtain ⟨smid, hem, hds⟩ := hR
          refine ⟨smid, ?_, hds⟩
          rw [htoksd]
          simp only [List.append_nil, if_neg (by simp : ¬ (some e = none))]
          exact ⟨_, hkey.toDS_tok, _, hd1.toDS_tok, hem⟩
        | none =>
          simp only [hf, reassoc] at hR ⊢
          obtain ⟨mid, last, rowM, hiM, row2, hi2, n2, y1, y2, y3, y4, y5, y6, y7⟩ := hR
          have hlast : CS ts a trs ⟨lo ++ uStep .delegate Y :: (hi0 ++ rowM :: hiM), st, some cur, be⟩
              (.ok ⟨last, false, ⟨lo ++ uStep .emitMapClose (uStep .delegate Y) :: (hi0 ++ row2 :: hi2), st, some cur, be⟩⟩) := by
            refine hp.cs_tok (n := n2+1) (agreeW_ptr_only (fun _ => rfl)) (agreeW_ptr_only (fun _ => rfl)) ?_
            exact stepU_done hZstep hZdel y4
          refine ⟨⟨.str name, none⟩ :: t1 :: (mid ++ [last]), ⟨.mapClose, none⟩,
            uStep .emitMapClose (uStep .delegate Y), hi0 ++ row2 :: hi2,
            uStep .nil (uStep .emitMapClose (uStep .delegate Y)), hi0 ++ row2 :: hi2, 1, by rw [htoksd, y1]; simp,
            ⟨_, hkey.toDS_tok, _, hd1.toDS_tok, Emits.append y2 (Emits.one hlast.toDS_tok)⟩,
            agreeW_ptr_only (fun _ => rfl), stepU_close rfl, agreeW_ptr_only (fun _ => rfl), hcfgU _,
            Clean.cons (hclZ _) (Clean.append hcl.tail y7)⟩
