/-
  `numTok` on the shapes of text that `FloatText.fmtE` / `FloatText.fmtF` produce: which decimal it hands to
  `parseDecimal`, and that integral texts below `2^63` are typed as ints.
-/
import RefmtProofs.Lemmas.FloatShortest
set_option linter.unusedSimpArgs false
set_option linter.unusedVariables false
namespace Refmt.FloatL
open Refmt Refmt.FloatText Refmt.JsonDec Refmt.C03L

/-- `numTok` after the sign has been split off -/
def numTokCore (neg : Bool) (body : Bytes) : Except Err Body :=
  let isInt := !(body.any fun c => c == 46 || c == 101 || c == 69)
  if isInt then
    let v := digitsVal body
    if neg then (if v ≤ two63 then .ok (.int (-(v : Int))) else .error .range)
    else if v < two63 then .ok (.int v)
    else if v < two64 then .ok (.uint v)
    else .error .range
  else
    let mant := body.takeWhile fun c => c != 101 && c != 69
    let expPart := (body.dropWhile fun c => c != 101 && c != 69).drop 1
    let ip := mant.takeWhile (· != 46)
    let fp := (mant.dropWhile (· != 46)).drop 1
    let eneg := expPart.head? == some 45
    let edig := if expPart.head? == some 45 || expPart.head? == some 43 then expPart.drop 1 else expPart
    let ev : Int := if eneg then -(digitsVal edig : Int) else (digitsVal edig : Int)
    let (bits, ovf) := FloatText.parseDecimal (digitsVal (ip ++ fp)) (ev - (fp.length : Int))
    if ovf then .error .range
    else .ok (.float (if neg then bits + 9223372036854775808 else bits))

theorem numTok_signed (neg : Bool) (f : Nat) (rest : Bytes) (hf : isDigit f = true) :
    numTok ((if neg then [45] else []) ++ f :: rest) = numTokCore neg (f :: rest) := by
  have hf' := isDigit_iff.1 hf
  cases neg
  · have h45 : ¬ f = 45 := by omega
    simp only [Bool.false_eq_true, if_false, List.nil_append]
    unfold numTok numTokCore
    simp only [List.head?_cons, Option.some.injEq, beq_iff_eq, h45, decide_false, Bool.false_eq_true, if_false]
  · simp only [if_true, List.cons_append, List.nil_append]
    unfold numTok numTokCore
    simp only [List.head?_cons, beq_self_eq_true, if_true, List.drop_one, List.tail_cons, List.any_cons,
      show ((45 : Nat) == 46 || (45 : Nat) == 101 || (45 : Nat) == 69) = false by decide, Bool.false_or]

/-- integral texts below `2^63` are ints -/
theorem numTokCore_int (neg : Bool) (body : Bytes) (hd : Digs body) (hv : digitsVal body < two63) :
    ∃ b, numTokCore neg body = .ok b := by
  unfold numTokCore
  simp only [digits_noexp body hd, Bool.not_false, if_true]
  cases neg
  · simp only [Bool.false_eq_true, if_false, hv, if_true]; exact ⟨_, rfl⟩
  · simp only [if_true, Nat.le_of_lt hv]; exact ⟨_, rfl⟩

def notE (c : Nat) : Bool := c != 101 && c != 69
def notDot (c : Nat) : Bool := c != 46

theorem digit_notE {x : Nat} (h : isDigit x = true) : notE x = true := by
  have := isDigit_iff.1 h
  simp [notE]; omega
theorem digit_notDot {x : Nat} (h : isDigit x = true) : notDot x = true := by
  have := isDigit_iff.1 h
  simp [notDot]; omega

/-- mantissa `ip ++ F` (`F` empty or `.fp`) followed by `E` (empty or `e±ed`) -/
theorem numTokCore_float (neg : Bool) (ip fp F E : Bytes) (ev : Int)
    (hip : Digs ip)
    (hF : (F = [] ∧ fp = []) ∨ (F = 46 :: fp ∧ Digs fp))
    (hE : (E = [] ∧ ev = 0) ∨ (∃ ed, E = 101 :: 43 :: ed ∧ Digs ed ∧ ev = (digitsVal ed : Int)) ∨
      (∃ ed, E = 101 :: 45 :: ed ∧ Digs ed ∧ ev = -(digitsVal ed : Int)))
    (hne : F ≠ [] ∨ E ≠ [])
    (hov : (parseDecimal (digitsVal (ip ++ fp)) (ev - (fp.length : Int))).2 = false) :
    ∃ b, numTokCore neg (ip ++ F ++ E) = .ok b := by
  -- the mantissa has no `e`
  have hmE : ∀ x ∈ ip ++ F, notE x = true := by
    intro x hx
    simp only [List.mem_append] at hx
    rcases hx with hx | hx
    · exact digit_notE (hip x hx)
    · rcases hF with ⟨rfl, _⟩ | ⟨rfl, hfp⟩
      · simp at hx
      · simp only [List.mem_cons] at hx
        rcases hx with rfl | hx
        · decide
        · exact digit_notE (hfp x hx)
  have hE0 : E = [] ∨ ∃ t, E = 101 :: t := by
    rcases hE with ⟨h, _⟩ | ⟨ed, h, _⟩ | ⟨ed, h, _⟩
    · exact Or.inl h
    · exact Or.inr ⟨_, h⟩
    · exact Or.inr ⟨_, h⟩
  have hmant : (ip ++ F ++ E).takeWhile notE = ip ++ F := by
    rw [List.takeWhile_append_of_pos hmE]
    rcases hE0 with rfl | ⟨t, rfl⟩
    · simp
    · rw [List.takeWhile_cons_of_neg (by decide)]; simp
  have hexp : (ip ++ F ++ E).dropWhile notE = E := by
    rw [List.dropWhile_append_of_pos hmE]
    rcases hE0 with rfl | ⟨t, rfl⟩
    · simp
    · rw [List.dropWhile_cons_of_neg (by decide)]
  have hipD : ∀ x ∈ ip, notDot x = true := fun x hx => digit_notDot (hip x hx)
  have hip' : (ip ++ F).takeWhile notDot = ip := by
    rw [List.takeWhile_append_of_pos hipD]
    rcases hF with ⟨rfl, _⟩ | ⟨rfl, _⟩
    · simp
    · rw [List.takeWhile_cons_of_neg (by decide)]; simp
  have hfp' : ((ip ++ F).dropWhile notDot).drop 1 = fp := by
    rw [List.dropWhile_append_of_pos hipD]
    rcases hF with ⟨rfl, rfl⟩ | ⟨rfl, _⟩
    · simp
    · rw [List.dropWhile_cons_of_neg (by decide)]; simp
  have hany : (ip ++ F ++ E).any (fun c => c == 46 || c == 101 || c == 69) = true := by
    rw [List.any_eq_true]
    rcases hne with h | h
    · rcases hF with ⟨rfl, _⟩ | ⟨rfl, _⟩
      · exact absurd rfl h
      · exact ⟨46, by simp, by decide⟩
    · rcases hE0 with rfl | ⟨t, rfl⟩
      · exact absurd rfl h
      · exact ⟨101, by simp, by decide⟩
  unfold numTokCore
  simp only [hany, Bool.not_true, Bool.false_eq_true, if_false]
  change ∃ b, (match FloatText.parseDecimal
      (digitsVal (((ip ++ F ++ E).takeWhile notE).takeWhile notDot ++
        (((ip ++ F ++ E).takeWhile notE).dropWhile notDot).drop 1))
      ((if (((ip ++ F ++ E).dropWhile notE).drop 1).head? == some 45 then
          -(digitsVal (if (((ip ++ F ++ E).dropWhile notE).drop 1).head? == some 45 ||
              (((ip ++ F ++ E).dropWhile notE).drop 1).head? == some 43 then
              (((ip ++ F ++ E).dropWhile notE).drop 1).drop 1 else (((ip ++ F ++ E).dropWhile notE).drop 1)) : Int)
        else (digitsVal (if (((ip ++ F ++ E).dropWhile notE).drop 1).head? == some 45 ||
              (((ip ++ F ++ E).dropWhile notE).drop 1).head? == some 43 then
              (((ip ++ F ++ E).dropWhile notE).drop 1).drop 1 else (((ip ++ F ++ E).dropWhile notE).drop 1)) : Int)) -
        (((((ip ++ F ++ E).takeWhile notE).dropWhile notDot).drop 1).length : Int)) with
    | (bits, ovf) => if ovf then Except.error Err.range
        else Except.ok (Body.float (if neg then bits + 9223372036854775808 else bits))) = Except.ok b
  rw [hmant, hexp, hip', hfp']
  have hev : (if (E.drop 1).head? == some 45 then
          -(digitsVal (if (E.drop 1).head? == some 45 || (E.drop 1).head? == some 43 then
              (E.drop 1).drop 1 else (E.drop 1)) : Int)
        else (digitsVal (if (E.drop 1).head? == some 45 || (E.drop 1).head? == some 43 then
              (E.drop 1).drop 1 else (E.drop 1)) : Int)) = ev := by
    rcases hE with ⟨rfl, rfl⟩ | ⟨ed, rfl, _, rfl⟩ | ⟨ed, rfl, _, rfl⟩
    · simp [digitsVal]
    · simp
    · simp
  rw [hev]
  generalize parseDecimal (digitsVal (ip ++ fp)) (ev - (fp.length : Int)) = pr at hov
  obtain ⟨bits, ovf⟩ := pr
  simp only at hov
  subst hov
  exact ⟨_, rfl⟩

end Refmt.FloatL
