/-
  Write faults (C16): generic lemmas about `WSt.writes` / `runFaulty`, and the facts about the two
  encoder models needed to instantiate them.
-/
import RefmtModel
import RefmtProofs.Props.C14
set_option linter.unusedSimpArgs false
set_option linter.unusedVariables false
namespace Refmt.C16L
open Refmt

/-! ### the writer wrapper -/

theorem writes_calls (f : Option WFault) : ∀ (ws : List Bytes) (w : WSt),
    (WSt.writes f w ws).calls = w.calls + ws.length
  | [], w => by simp [WSt.writes]
  | bs :: rest, w => by
    simp only [WSt.writes, List.length_cons]
    rw [writes_calls f rest]
    simp only []
    omega

theorem writes_failed_mono (f : Option WFault) : ∀ (ws : List Bytes) (w : WSt), w.failed = true →
    (WSt.writes f w ws).failed = true
  | [], w, h => by simpa [WSt.writes] using h
  | bs :: rest, w, h => by
    simp only [WSt.writes]
    exact writes_failed_mono f rest _ (by simp [h])

theorem writes_none_failed : ∀ (ws : List Bytes) (w : WSt),
    (WSt.writes none w ws).failed = w.failed
  | [], w => by simp [WSt.writes]
  | bs :: rest, w => by
    simp only [WSt.writes]
    rw [writes_none_failed rest]
    simp

theorem hits_before (f : WFault) (i : Nat) (bs : Bytes) (h : i < f.k) : f.hits i bs = false := by
  unfold WFault.hits
  have h1 : (i == f.k) = false := by simp; omega
  have h2 : decide (i > f.k) = false := by simp; omega
  simp [h1, h2]

theorem writes_no_hit (f : WFault) : ∀ (ws : List Bytes) (w : WSt), w.failed = false →
    w.calls + ws.length ≤ f.k → (WSt.writes (some f) w ws).failed = false
  | [], w, h, _ => by simpa [WSt.writes] using h
  | bs :: rest, w, h, hk => by
    simp only [WSt.writes]
    simp only [List.length_cons] at hk
    apply writes_no_hit f rest
    · simp [h, hits_before f w.calls bs (by omega)]
    · simp only []; omega

theorem writes_hit (f : WFault) : ∀ (ws : List Bytes) (w : WSt), w.calls ≤ f.k →
    f.k < w.calls + ws.length → f.hits f.k (ws.getD (f.k - w.calls) []) = true →
    (WSt.writes (some f) w ws).failed = true
  | [], w, _, h2, _ => by simp at h2; omega
  | bs :: rest, w, h1, h2, hh => by
    simp only [WSt.writes]
    simp only [List.length_cons] at h2
    by_cases hc : w.calls = f.k
    · apply writes_failed_mono
      have : f.k - w.calls = 0 := by omega
      rw [this] at hh
      simp only [List.getD_cons_zero] at hh
      simp [hc, hh]
    · apply writes_hit f rest
      · simp only []; omega
      · simp only []; omega
      · have : f.k - w.calls = (f.k - (w.calls + 1)) + 1 := by omega
        rw [this, List.getD_cons_succ] at hh
        exact hh

/-! ### runs -/

theorem runOut_fst {σ : Type} (step : σ → Tok → EncOut σ) : ∀ (ts : List Tok) (s : σ),
    (runOut step s ts).1 = runFlags step s ts
  | [], s => rfl
  | t :: ts, s => by
    simp only [runOut, runFlags]
    cases h : (step s t).ret.flag <;> simp [runOut_fst step ts]

theorem flagW_of_not_failed (r : Ret) (w : WSt) (h : w.failed = false) : r.flagW w = r.flag := by
  cases r <;> simp [Ret.flagW, Ret.flag, h]

theorem no_fault_same {σ : Type} (step : σ → Tok → EncOut σ) : ∀ (ts : List Tok) (s : σ) (w : WSt),
    w.failed = false → (runFaulty step none s w ts).1 = runFlags step s ts
  | [], s, w, _ => rfl
  | t :: ts, s, w, hw => by
    have hw' : (w.writes none (step s t).writes).failed = false := by
      rw [writes_none_failed]; exact hw
    simp only [runFaulty, runFlags]
    rw [flagW_of_not_failed _ _ hw']
    cases h : (step s t).ret.flag <;> simp [no_fault_same step ts _ _ hw']

/-- A step is *honest* if a nil-error return (`Ret.plain`) never follows a `Write` call. -/
def Honest {σ : Type} (step : σ → Tok → EncOut σ) : Prop :=
  ∀ s t d, (step s t).ret = .plain d → (step s t).writes = []

def FlagsOk (fl : List Flag) : Prop := ∀ x ∈ fl, x = Flag.cont ∨ x = Flag.done

/-- The generic statement: the fault-free run answers only continue/done, makes more than
    `f.k - w.calls` further writes, and write number `f.k` is one the wrapper notices; then the
    faulty run ends with an error. -/
theorem fault_reported {σ : Type} (step : σ → Tok → EncOut σ) (f : WFault) (hG : Honest step) :
    ∀ (ts : List Tok) (s : σ) (w : WSt), w.failed = false → w.calls ≤ f.k →
      f.k < w.calls + (runOut step s ts).2.length →
      f.hits f.k ((runOut step s ts).2.getD (f.k - w.calls) []) = true →
      FlagsOk (runOut step s ts).1 →
      (runFaulty step (some f) s w ts).1.getLast? = some Flag.err
  | [], s, w, _, _, h2, _, _ => by simp [runOut] at h2; omega
  | t :: ts, s, w, hw, h1, h2, hh, hfl => by
    have hcalls := writes_calls (some f) (step s t).writes w
    by_cases hin : f.k < w.calls + (step s t).writes.length
    · -- the faulty write happens in this step
      have hne : (step s t).writes ≠ [] := by
        intro h; rw [h] at hin; simp at hin; omega
      have hget : (runOut step s (t :: ts)).2.getD (f.k - w.calls) [] =
          (step s t).writes.getD (f.k - w.calls) [] := by
        simp only [runOut]
        cases h : (step s t).ret.flag <;> simp only []
        simp only [List.getD_eq_getElem?_getD]
        rw [List.getElem?_append_left (by omega)]
      rw [hget] at hh
      have hfail := writes_hit f (step s t).writes w h1 hin hh
      cases hr : (step s t).ret with
      | ck d => simp [runFaulty, hr, Ret.flagW, hfail]
      | plain d => exact absurd (hG s t d hr) hne
      | bad =>
        have := hfl Flag.err (by simp [runOut, hr, Ret.flag])
        simp at this
      | panic =>
        have := hfl Flag.panic (by simp [runOut, hr, Ret.flag])
        simp at this
    · -- not yet
      have hnf := writes_no_hit f (step s t).writes w hw (by omega)
      simp only [runFaulty]
      rw [flagW_of_not_failed _ _ hnf]
      cases hr : (step s t).ret.flag with
      | cont =>
        simp only [runOut, hr] at h2 hh hfl
        simp only [List.length_append] at h2
        have ih := fault_reported step f hG ts (step s t).st (w.writes (some f) (step s t).writes) hnf
          (by rw [hcalls]; omega) (by rw [hcalls]; omega)
          (by
            rw [hcalls]
            simp only [List.getD_eq_getElem?_getD] at hh ⊢
            rw [List.getElem?_append_right (by omega)] at hh
            have : f.k - w.calls - (step s t).writes.length = f.k - (w.calls + (step s t).writes.length) := by
              omega
            rw [this] at hh
            exact hh)
          (fun x hx => hfl x (by simp [hx]))
        simp only [List.getLast?_cons, ih, Option.getD_some]
      | done => simp only [runOut, hr] at h2; omega
      | err =>
        have := hfl Flag.err (by simp [runOut, hr])
        simp at this
      | panic =>
        have := hfl Flag.panic (by simp [runOut, hr])
        simp at this

/-! ### the CBOR encoder model is honest (every state, every token) -/

theorem cbor_popRet_honest (s : CborEnc.St) (d : Bool) :
    (CborEnc.popRet s [] false).ret = .plain d → (CborEnc.popRet s [] false).writes = [] := by
  intro _
  unfold CborEnc.popRet
  cases CborEnc.pop s <;> rfl

theorem cbor_honest : Honest CborEnc.step := by
  intro s t d h
  obtain ⟨body, tag⟩ := t
  cases body <;> simp only [CborEnc.step] at h ⊢
  case mapOpen len =>
    simp only [CborEnc.stepOpen] at h
    split at h <;> simp at h
  case arrOpen len =>
    simp only [CborEnc.stepOpen] at h
    split at h <;> simp at h
  case mapClose =>
    simp only [CborEnc.stepMapClose] at h ⊢
    split at h
    · exact cbor_popRet_honest s d h
    · simp only [CborEnc.popRet] at h
      split at h <;> simp at h
    · simp at h
  case arrClose =>
    simp only [CborEnc.stepArrClose] at h ⊢
    split at h
    · exact cbor_popRet_honest s d h
    · simp only [CborEnc.popRet] at h
      split at h <;> simp at h
    · simp at h
  all_goals
    first
    | (simp only [CborEnc.stepValueOnly] at h
       split at h <;> simp at h)
    | (simp only [CborEnc.stepKeyable] at h
       split at h
       · simp at h
       · split at h <;> simp at h)

/-! ### the JSON encoder model never returns a nil error explicitly -/

theorem json_valueRet_ne (s : JsonEnc.St) (pre : List Bytes) (d d' : Bool) (fl : JsonEnc.Flush) :
    (JsonEnc.valueRet s pre d fl).ret ≠ .plain d' := by
  cases fl <;> simp [JsonEnc.valueRet]

theorem json_honest (c : JsonEnc.Cfg) (ff : Nat → Bytes) : Honest (JsonEnc.step c ff) := by
  intro s t d h
  exfalso
  obtain ⟨body, tag⟩ := t
  simp only [JsonEnc.step] at h
  split at h
  · cases body <;> simp only [JsonEnc.stepAny] at h <;>
      first | exact json_valueRet_ne _ _ _ _ _ h | simp at h
  · cases body <;> simp only [JsonEnc.stepMapKey] at h <;>
      first | (split at h <;> simp at h) | simp at h
  · cases body <;> simp only [JsonEnc.stepMapVal] at h <;>
      first | exact json_valueRet_ne _ _ _ _ _ h | simp at h
  · cases body <;> simp only [JsonEnc.stepArr] at h <;>
      first | exact json_valueRet_ne _ _ _ _ _ h | (split at h <;> simp at h) | simp at h

/-! ### JSON documents are accepted (through the recogniser of C14) -/

theorem flagsOk_cons_cont {fl : List Flag} (h : FlagsOk fl) : FlagsOk (Flag.cont :: fl) := by
  intro x hx
  simp only [List.mem_cons] at hx
  rcases hx with rfl | hx
  · exact Or.inl rfl
  · exact h x hx

theorem flagsOk_done : FlagsOk [Flag.done] := by
  intro x hx; simp at hx; exact Or.inr hx

/-- flags after a complete value in context `stk` -/
def AfterOk (fmt : Fmt) (stk : List Frame) (rest : List Tok) : Prop :=
  match afterValue stk with
  | .cont stk' => FlagsOk (recFlags fmt stk' rest)
  | .done => True
  | .reject => False

theorem afterOk_flags (fmt : Fmt) (stk : List Frame) (rest : List Tok) (h : AfterOk fmt stk rest) :
    FlagsOk (match afterValue stk with
      | .cont stk' => Flag.cont :: recFlags fmt stk' rest
      | .done => [Flag.done]
      | .reject => [Flag.err]) := by
  unfold AfterOk at h
  cases ha : afterValue stk with
  | cont stk' => rw [ha] at h; exact flagsOk_cons_cont h
  | done => exact flagsOk_done
  | reject => rw [ha] at h; exact h.elim

theorem recFlags_cons (fmt : Fmt) (stk : List Frame) (t : Tok) (ts : List Tok) :
    recFlags fmt stk (t :: ts) =
      (match recStep fmt stk t.body with
       | .cont stk' => Flag.cont :: recFlags fmt stk' ts
       | .done => [Flag.done]
       | .reject => [Flag.err]) := rfl

theorem afterOk_not_mapKey (fmt : Fmt) (stk r : List Frame) (rest : List Tok) (h : AfterOk fmt stk rest) :
    stk ≠ .mapKey :: r := by
  intro he; subst he; simp [AfterOk, afterValue] at h

theorem recStep_value (fmt : Fmt) (stk : List Frame) (b : Body) (h : ∀ r, stk ≠ .mapKey :: r) :
    recStep fmt stk b = recValue fmt stk b := by
  unfold recStep
  split
  · exact absurd rfl (h _)
  · rfl

end Refmt.C16L
