-- the round-trip induction over `fullTy`: keyed unions and transforms (see RefmtProofs/Props/C13Full.lean)
import RefmtProofs.Lemmas.FullRT2
set_option linter.unusedSimpArgs false
set_option linter.unusedVariables false
namespace Refmt.Obj
open Refmt Refmt.C13 Refmt.C11 Refmt.C12

variable {ts : Types} {a : Atlas} {trs : Trs} {it : IfaceTys}

/-! ### keyed unions -/

theorem find?_member_name (members : List (Bytes × Nat)) (hnd : (members.map (·.1)).Nodup) (nm : Bytes) (idx : Nat)
    (hm : (nm, idx) ∈ members) : (members.find? fun (n, _) => n == nm) = some (nm, idx) := by
  induction members with
  | nil => cases hm
  | cons q qs ih =>
    simp only [List.map_cons, List.nodup_cons] at hnd
    rcases List.mem_cons.mp hm with rfl | hm'
    · simp [List.find?_cons]
    · have hne : (q.1 == nm) = false := by
        simp only [beq_eq_false_iff_ne]
        intro he
        exact hnd.1 (by rw [he]; exact List.mem_map_of_mem (f := (·.1)) hm')
      obtain ⟨q1, q2⟩ := q
      simp only at hne
      simp only [List.find?_cons, hne]
      exact ih hnd.2 hm'

theorem rtf_b_union {f} (ih : RTF ts a trs it f) (p h id : Nat) (m reg : Bool) (ty : Nat) (tag : Option Int)
    (members : List (Bytes × Nat)) (v : Val) (toks : List Tok) (g : Nat) (hp64 : p + 1 ≤ 64)
    (hd : ts.get id = .iface m) (he : a.get id = some ⟨reg, ty, tag, .union members⟩)
    (hnames : (members.map (·.1)).Nodup) (hmem : ∀ mem ∈ members, MOKF ts a p mem)
    (hv : hasTy ts h id v = true) (hg : f + 1 ≤ g) (hs : fullValB ts a trs it g id (pickBare ts a id) v = true)
    (hm : marshalBare ts a trs (f+1) id (pickBare ts a id) v = ⟨toks, none⟩) :
    HeadSpec toks ∧ ∀ F, f + 1 < F → ∀ rest,
      unmBare ts a trs it F id (upickBare ts a id) (zeroVal ts 64 id) (toks ++ rest) =
        .ok (rtFB ts a trs it g id (pickBare ts a id) v) rest toks.length := by
  obtain ⟨g, rfl⟩ : ∃ g', g = g' + 1 := ⟨g - 1, by omega⟩
  obtain ⟨hpk, hupk⟩ := pick_union hd he
  rw [hpk] at hm hs ⊢; rw [hupk]
  rw [fullValB_union] at hs
  rw [marshalBare_union] at hm
  cases h with
  | zero => simp [hasTy] at hv
  | succ h =>
  cases v <;> try (simp [MOut.bad] at hm; done)
  rename_i o
  cases o with
  | none => simp [MOut.bad] at hm
  | some q =>
    obtain ⟨dt, dv⟩ := q
    have hvd : hasTy ts h dt dv = true := by simpa [hasTy, hd] using hv
    simp only at hm hs
    cases hfind : (members.find? fun (x : Bytes × Nat) => (a.pool[x.2]?.map (·.ty)) == some dt) with
    | none => simp only [hfind] at hm; simp [MOut.bad] at hm
    | some q =>
      obtain ⟨nm, idx⟩ := q
      simp only [hfind] at hm hs
      cases hme : a.pool[idx]? with
      | none => simp only [hme] at hm; simp [MOut.bad] at hm
      | some me =>
        simp only [hme] at hm hs
        obtain ⟨hin, hty⟩ := find_member_ty hfind hme
        obtain ⟨me', fs, fds, hme', hk, hds, hmach, humach, hpkd, hupkd, hfull⟩ := member_mach (hmem _ hin)
        simp only at hme'
        rw [hme] at hme'
        cases hme'
        subst hty
        rw [hmach] at hm hs
        obtain ⟨p', rfl⟩ : ∃ p', p = p' + 1 := by
          cases p with
          | zero => simp [fullTy] at hfull
          | succ p' => exact ⟨p', rfl⟩
        have hnpd : ∀ e, ts.get me.ty ≠ .ptr e := by simp [hds]
        cases hinner : marshalBare ts a trs f me.ty (pickBare ts a me.ty) dv with
        | mk ti fi =>
        rw [hinner] at hm
        simp only at hm
        have hfi : fi = none := by
          cases fi with
          | none => rfl
          | some ff =>
            exfalso
            cases ti with
            | nil => simp [MOut.bad] at hm
            | cons t0 r0 =>
              simp only [MOut.seq, MOut.ok] at hm
              simp at hm
        subst hfi
        have hm2 : (MOut.ok [⟨.mapOpen 1, none⟩, ⟨.str nm, none⟩]).seq (fun _ =>
            (MOut.mk ti none).seq fun _ => MOut.ok [⟨.mapClose, none⟩]) = ⟨toks, none⟩ := by
          cases ti <;> simpa using hm
        obtain ⟨t1, t23, h1, h23, rfl⟩ := seq_ok hm2
        obtain ⟨tl, tc, h2, h3, rfl⟩ := seq_ok h23
        simp [MOut.ok] at h1 h2 h3; subst h1 h2 h3
        obtain ⟨hhs, hu⟩ := ih.b p' h me.ty dv ti g (by omega) hfull hnpd hvd (by omega) hs hinner
        refine ⟨Or.inr ⟨⟨.mapOpen 1, none⟩, _, rfl, by simp, by simp, by simp⟩, fun F hF rest => ?_⟩
        obtain ⟨F, rfl⟩ : ∃ F', F = F' + 1 := ⟨F - 1, by omega⟩
        have hu := hu F (by omega) (⟨.mapClose, none⟩ :: rest)
        rw [hupkd] at hu
        have humach' : umachForEntry ts me = .structMap fs := by rw [humach, hupkd]
        have e1 : ([⟨.mapOpen 1, none⟩, ⟨.str nm, none⟩] ++ (ti ++ [⟨.mapClose, none⟩])) ++ rest =
            ⟨.mapOpen 1, none⟩ :: ⟨.str nm, none⟩ :: (ti ++ ⟨.mapClose, none⟩ :: rest) := by simp
        rw [e1, unmBare_union, rtFB_union]
        simp only [hfind, hme, hmach, find?_member_name members hnames nm idx hin, humach', hu]
        simp [unionClose]

/-! ### transforms -/

theorem retag_inv {tag : Option Int} {o : MOut} {toks : List Tok} (h : retagFirst tag o = ⟨toks, none⟩) :
    ∃ toks0, o = ⟨toks0, none⟩ ∧ toks.length = toks0.length ∧
      (toks = toks0 ∨ ∃ t0 r g, tag = some g ∧ toks0 = t0 :: r ∧ toks = ⟨t0.body, some g⟩ :: r) := by
  obtain ⟨ot, of⟩ := o
  cases tag with
  | none =>
    simp only [retagFirst, MOut.mk.injEq] at h
    obtain ⟨rfl, rfl⟩ := h
    exact ⟨_, rfl, rfl, Or.inl rfl⟩
  | some g =>
    cases ot with
    | nil =>
      simp only [retagFirst, MOut.mk.injEq] at h
      obtain ⟨rfl, rfl⟩ := h
      exact ⟨_, rfl, rfl, Or.inl rfl⟩
    | cons t rest =>
      simp only [retagFirst, MOut.mk.injEq] at h
      obtain ⟨rfl, rfl⟩ := h
      exact ⟨_, rfl, by simp, Or.inr ⟨t, rest, g, rfl, rfl, rfl⟩⟩

/-- every machine but the untyped slot and the (delegating) transform reads the body of the first token only -/
theorem unmBare_retag (m : UMach) (hm1 : m ≠ .wildcard) (hm2 : ∀ fn uty, m ≠ .transform fn uty)
    (F id : Nat) (cur : Val) (b : Body) (tg tg' : Option Int) (rest : List Tok) :
    unmBare ts a trs it F id m cur (⟨b, tg⟩ :: rest) = unmBare ts a trs it F id m cur (⟨b, tg'⟩ :: rest) := by
  cases F with
  | zero => simp [unmBare]
  | succ F =>
    cases m with
    | prim => rw [unmBare_prim, unmBare_prim]; rfl
    | slice e => rw [unmBare_slice, unmBare_slice]
    | array n e => rw [unmBare_array, unmBare_array]
    | map kt vt => rw [unmBare_map, unmBare_map]
    | wildcard => exact absurd rfl hm1
    | structMap fs => rw [unmBare_structMap, unmBare_structMap]
    | transform fn uty => exact absurd rfl (hm2 fn uty)
    | union ms => rw [unmBare_union, unmBare_union]
    | errThunk => rw [unmBare_errThunk, unmBare_errThunk]
    | panic => rw [unmBare_panic, unmBare_panic]

theorem view_tagBlind {p id : Nat} (hview : FullView ts a p id) (hb : tagBlind ts a id = true) :
    upickBare ts a id ≠ .wildcard ∧ ∀ fn uty, upickBare ts a id ≠ .transform fn uty := by
  cases hview with
  | prim k b hd hn => rw [(pick_prim hd hn).2]; simp
  | bytes b hd hn => rw [(pick_bytes hd hn).2]; simp
  | byteArr n hd hn => rw [(pick_byteArr hd hn).2]; simp
  | slice e hd hn _ => rw [(pick_slice hd hn).2]; simp
  | arr n e hd hn _ => rw [(pick_arr hd hn).2]; simp
  | map kt vt bk hd hn _ _ => rw [(pick_map hd hn).2]; simp
  | wild hd hn => simp [tagBlind, hd, hn] at hb
  | struct fds reg ty tag fields hd he _ _ _ => rw [(pick_struct hd he).2]; simp
  | transform reg ty tag fn mty _ he _ _ _ => simp [tagBlind, he] at hb
  | union m reg ty tag members hd he _ _ => rw [(pick_union hd he).2]; simp

theorem rtf_b_transform {f} (htr : TrsEqv trs) (he : UEnv ts a it) (ih : RTF ts a trs it f) (p h id : Nat) (reg : Bool) (ty : Nat)
    (tag : Option Int) (fn mty : Nat) (v : Val) (toks : List Tok) (g : Nat) (hp64 : p + 1 ≤ 64)
    (hb : isBuiltin (ts.get id) = false) (hent : a.get id = some ⟨reg, ty, tag, .transform fn mty mty⟩)
    (hmp : ∀ e, ts.get mty ≠ .ptr e) (htb : tag = none ∨ tagBlind ts a mty = true) (hfm : fullTy ts a p mty = true)
    (hg : f + 1 ≤ g) (hs : fullValB ts a trs it g id (pickBare ts a id) v = true)
    (hm : marshalBare ts a trs (f+1) id (pickBare ts a id) v = ⟨toks, none⟩) :
    HeadSpec toks ∧ ∀ F, f + 1 < F → ∀ rest,
      unmBare ts a trs it F id (upickBare ts a id) (zeroVal ts 64 id) (toks ++ rest) =
        .ok (rtFB ts a trs it g id (pickBare ts a id) v) rest toks.length := by
  obtain ⟨g, rfl⟩ : ∃ g', g = g' + 1 := ⟨g - 1, by omega⟩
  obtain ⟨hpk, hupk⟩ := pick_transform hb hent
  rw [hpk] at hm hs ⊢; rw [hupk]
  rw [fullValB_transform] at hs
  rw [marshalBare_transform] at hm
  cases htm : trs.m fn v with
  | none => simp only [htm] at hm; simp [MOut.bad] at hm
  | some tv =>
    simp only [htm, Bool.and_eq_true] at hm hs
    obtain ⟨⟨hvt, hfv⟩, hsome⟩ := hs
    obtain ⟨toks0, ho, hlen, hcase⟩ := retag_inv hm
    obtain ⟨hhs0, hu⟩ := ih.v p 1000 mty tv toks0 g (by omega) hfm hvt (by omega) hfv ho
    obtain ⟨b', hb'⟩ := Option.isSome_iff_exists.mp hsome
    obtain ⟨a', ha', -⟩ := htr fn _ _ b' ((rtf_eqv_norm htr he g).1 p mty tv (by omega) hfm hfv) hb'
    obtain ⟨p', rfl⟩ : ∃ p', p = p' + 1 := by
      cases p with
      | zero => simp [fullTy] at hfm
      | succ p' => exact ⟨p', rfl⟩
    refine ⟨?_, fun F hF rest => ?_⟩
    · rcases hcase with rfl | ⟨t0, r, gg, -, rfl, rfl⟩
      · exact hhs0
      · rcases hhs0 with ⟨tg, h0⟩ | ⟨t, r', h0, h1, h2, h3⟩
        · simp only [List.cons.injEq] at h0
          obtain ⟨rfl, rfl⟩ := h0
          exact Or.inl ⟨some gg, rfl⟩
        · simp only [List.cons.injEq] at h0
          obtain ⟨rfl, rfl⟩ := h0
          exact Or.inr ⟨_, _, rfl, h1, h2, h3⟩
    · obtain ⟨F, rfl⟩ : ∃ F', F = F' + 1 := ⟨F - 1, by omega⟩
      have hu' := hu (F + 1) (by omega) rest
      rw [rtFB_transform]
      simp only [htm, ha', Option.getD_some]
      rcases hcase with rfl | ⟨t0, r, gg, htag, rfl, rfl⟩
      · obtain ⟨t0, r0, rfl, -, -⟩ := hhs0.head
        rw [List.cons_append, unmV_nonptr ts a trs it hmp] at hu'
        rw [List.cons_append, unmBare_transform, hu']
        simp [trPost, ha']
      · rw [List.cons_append, unmV_nonptr ts a trs it hmp] at hu'
        have htb' : tagBlind ts a mty = true := by
          rcases htb with h0 | h0
          · rw [htag] at h0; cases h0
          · exact h0
        obtain ⟨hw1, hw2⟩ := view_tagBlind (fullTy_view hfm hmp) htb'
        rw [List.cons_append, unmBare_transform,
          unmBare_retag (upickBare ts a mty) hw1 hw2 F mty _ t0.body (some gg) t0.tag, hu']
        simp [trPost, ha'] at hlen ⊢
        try omega

end Refmt.Obj
