/-
  Stateful object unmarshaller: `requisitionMachine` for a type of a closed set yields a configured row.
-/
import RefmtProofs.Lemmas.UnmarshalMachSimA
set_option linter.unusedSimpArgs false
set_option linter.unusedVariables false
namespace Refmt.UMachL
open Refmt Refmt.Obj Refmt.Obj.UM

variable {ts : Types} {a : Atlas} {trs : Trs} {it : IfaceTys}

theorem yieldLeaf_cov {S : List Nat} {wi : Option Nat} {f base : Nat} {M : UMach} (hM : upickBare ts a base = M)
    (h : okLeaf S wi M) :
    ∃ row' k, yieldBare ts a (f+2) URow.zero base = .ok (row', k) ∧ CfgLeaf row' base k M ∧
      row'.ptr = URow.zero.ptr ∧ row'.transform = URow.zero.transform ∧ k ≠ .transform := by
  simp only [yieldBare, hM]
  cases M <;> simp only [okLeaf] at h <;> simp only [cfgU] <;>
    first
    | exact ⟨_, _, rfl, by simp [CfgLeaf, URow.zero], rfl, rfl, by simp⟩
    | exact h.elim

theorem yieldBare_cov {S : List Nat} {wi : Option Nat} {f base : Nat} (h : okMach ts a S wi (upickBare ts a base)) :
    ∃ row' k, yieldBare ts a (f+4) URow.zero base = .ok (row', k) ∧ CfgBare ts a row' base k (upickBare ts a base) ∧
      row'.ptr = URow.zero.ptr := by
  cases hM : upickBare ts a base with
  | wildcard => exact ⟨URow.zero, .wild, by simp [yieldBare, cfgU, hM], by simp [CfgBare], rfl⟩
  | transform fn uty =>
    rw [hM] at h
    obtain ⟨hp, hl⟩ := h
    obtain ⟨row1, k', hy, hc, hp1, ht1, hk'⟩ := yieldLeaf_cov (f := f) rfl hl
    refine ⟨{ row1 with transform := { row1.transform with trFunc := fn, recv_rt := uty, delegate := some k' } },
      .transform, ?_, ?_, hp1⟩
    · have hb : (k' == MK.transform) = false := by simp [hk']
      simp only [yieldBare, hM]
      simp only [cfgU, hp, hy, hb, Bool.false_eq_true, if_false]
    · refine ⟨rfl, rfl, rfl, k', rfl, ?_⟩
      revert hc
      generalize upickBare ts a uty = M'
      cases M' <;> simp [CfgLeaf]
  | prim | errThunk | slice _ | array _ _ | map _ _ | structMap _ =>
    rw [hM] at h
    obtain ⟨row1, k', hy, hc, hp1, _, _⟩ := yieldLeaf_cov (f := f + 2) hM (show okLeaf S wi _ from h)
    exact ⟨row1, k', hy, hc, hp1⟩
  | _ => rw [hM] at h; exact h.elim

theorem requisition_cov {S : List Nat} {wi : Option Nat} {f : Nat} {R : List URow} {id : Nat} (hS : Closed ts a S wi) (hid : id ∈ S) :
    ∃ crow ck, requisition ts a (f+4) R id = .ok (R ++ [crow], ⟨R.length, ck⟩) ∧ CfgV ts a crow id ck := by
  obtain ⟨row', k, hy, hc, hp⟩ := yieldBare_cov (f := f) (hS id hid)
  simp only [requisition, yieldU, hy]
  by_cases h0 : (peel ts 64 0 id).1 = 0
  · refine ⟨row', k, by simp [h0], k, hc, by simp [h0]⟩
  · have hc' : CfgBare ts a { row' with ptr := { row'.ptr with mach := some k, peelCount := (peel ts 64 0 id).1 } }
        (peel ts 64 0 id).2 k (upickBare ts a (peel ts 64 0 id).2) := by
      revert hc
      generalize upickBare ts a (peel ts 64 0 id).2 = M
      intro hc
      cases M with
      | transform fn uty =>
        obtain ⟨h1, h2, h3, k', h4, h5⟩ := hc
        refine ⟨h1, h2, h3, k', h4, ?_⟩
        revert h5
        generalize upickBare ts a uty = M'
        cases M' <;> simp [CfgLeaf]
      | wildcard => exact hc
      | _ => simpa [CfgBare, CfgLeaf] using hc
    exact ⟨_, .ptr, by simp [h0], k, hc', by simp [h0]⟩

end Refmt.UMachL
