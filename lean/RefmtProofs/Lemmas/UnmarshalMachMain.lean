/-
  Stateful object unmarshaller: all simulation statements by induction on the functional model's fuel, and the run of
  a bound instance.
-/
import RefmtProofs.Lemmas.UnmarshalMachSimBSt
set_option linter.unusedSimpArgs false
set_option linter.unusedVariables false
namespace Refmt.UMachL
open Refmt Refmt.Obj Refmt.Obj.UM

variable {ts : Types} {a : Atlas} {trs : Trs} {it : IfaceTys}

/-- the machines that are leaves of a row's chain -/
def isLeaf : UMach → Prop
  | .prim | .errThunk | .slice _ | .array _ _ | .map _ _ | .structMap _ => True
  | _ => False

/-- the leaf machines, below any chain of wrappers -/
theorem simLeaf {S : List Nat} {wi : Option Nat} {n : Nat} (hS : Closed ts a S wi) (hE : SimE ts a trs it S n)
    (hAr : SimAr ts a trs it S n) (hMp : SimM ts a trs it S n) (hSt : SimSt ts a trs it S wi n)
    (base : Nat) (hok : okMach ts a S wi (upickBare ts a base)) (hlf : isLeaf (upickBare ts a base))
    (cur : Val) (lo : List URow) (row : URow) (hi : List URow) (stk : List URef) (be : Option XFail) (c : URef) (k : MK)
    (F : Val → Option Val) (w : Val → Val) (d : Nat) (toks : List Tok) (fr sf1 sf : Nat)
    (hcfg : CfgLeaf row base k (upickBare ts a base)) (hw : Wr trs.u c lo row k F w d) (hd2 : d ≤ 2)
    (hfr : 6 ≤ fr) (hsf1 : 8 ≤ sf1) (hsf : 14 ≤ sf) :
    Agree ts a trs it sf be stk lo row F w
      (rtpB ts a trs it fr sf1 sf (lo ++ row :: hi) stk be c ⟨lo.length, k⟩ base cur toks)
      (unmBare ts a trs it (n+1) base (upickBare ts a base) cur toks) := by
  cases hM : upickBare ts a base with
  | prim =>
    rw [hM] at hcfg
    obtain ⟨rfl, hty, hak⟩ := hcfg
    exact simB_prim cur lo row hi stk be c F w d toks fr sf1 sf hty hak hw hd2 hfr hsf1 hsf
  | errThunk =>
    rw [hM] at hcfg
    obtain ⟨rfl, he⟩ := hcfg
    exact simB_err cur lo row hi stk be c F w toks fr sf1 sf he hfr
  | slice e =>
    rw [hM] at hcfg hok
    cases hcfg
    exact simB_slice hS hE (upick_slice hM) hok cur lo row hi stk be c F w d toks fr sf1 sf hw hd2 (by omega) hsf1 hsf
  | array N e =>
    rw [hM] at hcfg hok
    cases hcfg
    exact simB_array hS hAr hM hok cur lo row hi stk be c F w d toks fr sf1 sf hw hd2 (by omega) hsf1 hsf
  | map kt vt =>
    rw [hM] at hcfg hok
    cases hcfg
    exact simB_map hS hMp (upick_map hM) hok cur lo row hi stk be c F w d toks fr sf1 sf hw hd2 (by omega) hsf1 hsf
  | structMap fields =>
    rw [hM] at hcfg hok
    obtain ⟨rfl, hfl⟩ := hcfg
    exact simB_struct hSt hok cur lo row hi stk be c F w d toks fr sf1 sf hfl hw hd2 hfr hsf1 hsf
  | _ => rw [hM] at hlf; exact hlf.elim

/-- what the functional model's transform case makes of the delegate's result -/
def trF (U : Val → Option Val) : URes → URes
  | .ok rv r u => (match U rv with | some v => .ok v r u | none => .err (u - 1))
  | y => y

theorem unmBare_transform {n base fn uty : Nat} {cur : Val} {t : Tok} {rest : List Tok} :
    unmBare ts a trs it (n+1) base (.transform fn uty) cur (t :: rest)
      = trF (trs.u fn) (unmBare ts a trs it n uty (upickBare ts a uty) (zeroVal ts 64 uty) (t :: rest)) := by
  rw [unmBare.eq_def]
  simp only [trF]
  cases unmBare ts a trs it n uty (upickBare ts a uty) (zeroVal ts 64 uty) (t :: rest) with
  | ok rv r u => simp only []; cases trs.u fn rv <;> rfl
  | _ => rfl

theorem Agree.toTr {sf be stk lo row U w x r} (h : Agree ts a trs it sf be stk lo row U w x r) :
    Agree ts a trs it sf be stk lo row some w x (trF U r) := by
  cases r with
  | ok rv rest u =>
    obtain ⟨h1, h2⟩ := h
    simp only [trF]
    cases hU : U rv with
    | none => rw [hU] at h2; exact h2
    | some v => rw [hU] at h2; exact ⟨h1, h2⟩
  | more u => exact h
  | err u => exact h
  | panic u => trivial

/-- the transform machine: its `Reset` is its delegate's, its `Step` the delegate's followed by the user function -/
theorem simB_transform {S : List Nat} {wi : Option Nat} {n : Nat} (hS : Closed ts a S wi)
    (hL : ∀ m, m + 1 = n → SimE ts a trs it S m ∧ SimAr ts a trs it S m ∧ SimM ts a trs it S m ∧
      SimSt ts a trs it S wi m)
    {base fn uty : Nat} (hok : okLeaf S wi (upickBare ts a uty))
    (cur : Val) (lo : List URow) (row : URow) (hi : List URow) (stk : List URef) (be : Option XFail) (c : URef)
    (w : Val → Val) (d : Nat) (toks : List Tok) (fr sf1 sf : Nat)
    (hfn : row.transform.trFunc = fn) (hrt : row.transform.recv_rt = uty) {k' : MK}
    (hdl : row.transform.delegate = some k') (hcl : CfgLeaf row uty k' (upickBare ts a uty))
    (hwp : WrP c lo row .transform w d) (hfr : 7 ≤ fr) (hsf1 : 8 ≤ sf1) (hsf : 14 ≤ sf) :
    Agree ts a trs it sf be stk lo row some w
      (rtpB ts a trs it fr sf1 sf (lo ++ row :: hi) stk be c ⟨lo.length, .transform⟩ base cur toks)
      (unmBare ts a trs it (n+1) base (.transform fn uty) cur toks) := by
  cases toks with
  | nil => simp [rtpB, unmBare, Agree]
  | cons t rest =>
    obtain ⟨f, rfl⟩ : ∃ f, fr = f + 1 := ⟨fr - 1, by omega⟩
    have hd := hwp.le
    rw [unmBare_transform]
    cases n with
    | zero => simp [unmBare, trF, Agree]
    | succ m =>
    obtain ⟨hE, hAr, hMp, hSt⟩ := hL m rfl
    have hrr : rtpB ts a trs it (f + 1) sf1 sf (lo ++ row :: hi) stk be c ⟨lo.length, .transform⟩ base cur (t :: rest)
        = rtpB ts a trs it f sf1 sf (lo ++ rowTr row (trReset ts row.transform cur) :: hi) stk be c ⟨lo.length, k'⟩
            uty (zeroVal ts 64 uty) (t :: rest) := by
      simp only [rtpB, transform_reset hdl, hrt]
    rw [hrr]
    have hw : Wr trs.u c lo (rowTr row (trReset ts row.transform cur)) k' (trs.u fn) (w ∘ _root_.id) (1 + d) := by
      have h1 := (hwp.congr (row' := rowTr row (trReset ts row.transform cur)) rfl).trans (U := trs.u)
        (Wr.trS lo (rowTr row (trReset ts row.transform cur)) (k := k') hdl)
      rw [show (rowTr row (trReset ts row.transform cur)).transform.trFunc = fn from hfn] at h1
      exact h1
    have hlf : isLeaf (upickBare ts a uty) := by
      revert hok; generalize upickBare ts a uty = M; intro hok
      cases M <;> first | trivial | exact hok.elim
    have hokm : okMach ts a S wi (upickBare ts a uty) := by
      revert hok hlf; generalize upickBare ts a uty = M; intro hok hlf
      cases M <;> first | exact hok | exact hlf.elim
    have hA := simLeaf hS hE hAr hMp hSt uty hokm hlf (zeroVal ts 64 uty) lo
      (rowTr row (trReset ts row.transform cur)) hi stk be c k' (trs.u fn) (w ∘ _root_.id) (1 + d) (t :: rest)
      f sf1 sf (hcl.same ⟨rfl, rfl, rfl, rfl, rfl, rfl, rfl, rfl, rfl⟩) hw (by omega) (by omega) hsf1 hsf
    exact hA.toTr.same ⟨rfl, rfl, rfl, rfl, rfl, rfl, rfl, rfl, rfl⟩

theorem simB_succ {S : List Nat} {wi : Option Nat} {n : Nat} (hS : Closed ts a S wi)
    (hWd : wildIn S wi → WildHyp ts a it S) (hE : SimE ts a trs it S n)
    (hAr : SimAr ts a trs it S n) (hMp : SimM ts a trs it S n) (hSt : SimSt ts a trs it S wi n)
    (hE2 : ∀ m, m + 2 = n → SimE ts a trs it S m) (hM2 : ∀ m, m + 2 = n → SimM ts a trs it S m)
    (hL : ∀ m, m + 1 = n → SimE ts a trs it S m ∧ SimAr ts a trs it S m ∧ SimM ts a trs it S m ∧
      SimSt ts a trs it S wi m) :
    SimB ts a trs it S wi (n+1) := by
  intro base hok cur lo row hi stk be c k w d toks fr sf1 sf hcfg hwp hfr hsf1 hsf
  have hw : Wr trs.u c lo row k some w d := hwp.toWr
  have hd2 : d ≤ 2 := by have := hwp.le; omega
  by_cases hlf : isLeaf (upickBare ts a base)
  · have hcl : CfgLeaf row base k (upickBare ts a base) := by
      revert hcfg hlf; generalize upickBare ts a base = M; intro hcfg hlf
      cases M <;> first | exact hcfg | exact hlf.elim
    exact simLeaf hS hE hAr hMp hSt base hok hlf cur lo row hi stk be c k some w d toks fr sf1 sf hcl hw hd2
      (by omega) hsf1 hsf
  · cases hM : upickBare ts a base with
    | wildcard =>
      rw [hM] at hcfg hok
      cases hcfg
      exact simB_wild hS (hWd hok) hE2 hM2 cur lo row hi stk be c w d toks fr sf1 sf hwp (by omega) hsf1 hsf
    | transform fn uty =>
      rw [hM] at hcfg hok
      obtain ⟨rfl, hfn, hrt, k', hdl, hcl⟩ := hcfg
      exact simB_transform hS hL hok.2 cur lo row hi stk be c w d toks fr sf1 sf hfn hrt hdl hcl hwp hfr hsf1 hsf
    | prim => rw [hM] at hlf; exact (hlf trivial).elim
    | errThunk => rw [hM] at hlf; exact (hlf trivial).elim
    | slice e => rw [hM] at hlf; exact (hlf trivial).elim
    | array N e => rw [hM] at hlf; exact (hlf trivial).elim
    | map kt vt => rw [hM] at hlf; exact (hlf trivial).elim
    | structMap fs => rw [hM] at hlf; exact (hlf trivial).elim
    | _ => rw [hM] at hok; exact hok.elim

variable (ts a trs it) in
/-- all simulation statements at functional fuel `n` -/
def Bundle (S : List Nat) (wi : Option Nat) (n : Nat) : Prop :=
  SimV ts a trs it S n ∧ SimB ts a trs it S wi n ∧ SimE ts a trs it S n ∧ SimAr ts a trs it S n ∧
    SimM ts a trs it S n ∧ SimSt ts a trs it S wi n

theorem sim_all {S : List Nat} {wi : Option Nat} (hS : Closed ts a S wi) (hWd : wildIn S wi → WildHyp ts a it S)
    (n : Nat) : ∀ m, m ≤ n → Bundle ts a trs it S wi m := by
  induction n with
  | zero =>
    intro m hm
    obtain rfl : m = 0 := by omega
    exact ⟨simV_zero S, simB_zero S wi, simE_zero S, simAr_zero S, simM_zero S, simSt_zero S wi⟩
  | succ n ih =>
    intro m hm
    by_cases hle : m ≤ n
    · exact ih m hle
    · obtain rfl : m = n + 1 := by omega
      obtain ⟨hV, hB, hE, hAr, hMp, hSt⟩ := ih n (Nat.le_refl n)
      have hE2 : ∀ m, m + 2 = n → SimE ts a trs it S m := fun m h => (ih m (by omega)).2.2.1
      have hM2 : ∀ m, m + 2 = n → SimM ts a trs it S m := fun m h => (ih m (by omega)).2.2.2.2.1
      have hL : ∀ m, m + 1 = n → SimE ts a trs it S m ∧ SimAr ts a trs it S m ∧ SimM ts a trs it S m ∧
          SimSt ts a trs it S wi m := fun m h =>
        ⟨(ih m (by omega)).2.2.1, (ih m (by omega)).2.2.2.1, (ih m (by omega)).2.2.2.2.1, (ih m (by omega)).2.2.2.2.2⟩
      exact ⟨simV_succ hS hB, simB_succ hS hWd hE hAr hMp hSt hE2 hM2 hL, simE_succ hV hE, simAr_succ hV hAr,
        simM_succ hV hMp, simSt_succ hS hWd hE2 hM2 hV hSt⟩

theorem pump1_top (sf : Nat) (R : List URow) (c : Option URef) (be : Option XFail) (toks : List Tok) :
    pump1 ts a trs it sf sf ⟨R, [], c, be⟩ toks = pump ts a trs it sf ⟨R, [], c, be⟩ toks := by
  cases toks with
  | nil => rfl
  | cons t rest =>
    simp only [pump1, pump]
    cases ustep ts a trs it sf ⟨R, [], c, be⟩ t with
    | error x => rfl
    | ok res => cases hd : res.done <;> simp [hd]

/-- a bound instance run on the tokens is Reset-then-pump of the first machine -/
theorem urun_bind {S : List Nat} {wi : Option Nat} (hS : Closed ts a S wi) {id : Nat} (hid : id ∈ S) (sf : Nat) (hsf : 4 ≤ sf)
    (dirty : UState) (cur : Val) (toks : List Tok) :
    ∃ crow ck, CfgV ts a crow id ck ∧
      urun ts a trs it sf (UM.bind ts a sf dirty id cur) toks
        = rtp ts a trs it sf sf sf ([] ++ crow :: []) [] none ⟨([] : List URow).length, ck⟩ id cur toks := by
  obtain ⟨f, rfl⟩ : ∃ f, sf = f + 4 := ⟨sf - 4, by omega⟩
  obtain ⟨crow, ck, hreq, hcc⟩ := requisition_cov (f := f) (R := []) hS hid
  refine ⟨crow, ck, hcc, ?_⟩
  cases toks with
  | nil => simp [urun, rtp]
  | cons t rest =>
    simp only [UM.bind, hreq, rtp, List.nil_append, List.length_nil]
    cases hr : resetM ts a (f + 4) ⟨0, ck⟩ id cur [crow] with
    | error x => simp [urun]
    | ok R1 => simp only [urun]; rw [pump1_top]

theorem refines_closed {S : List Nat} {wi : Option Nat} (hS : Closed ts a S wi)
    (hWd : wildIn S wi → WildHyp ts a it S) {id : Nat} (hid : id ∈ S) (fuel : Nat) (cur : Val)
    (toks : List Tok) (hnp : ∀ u, unmV ts a trs it fuel id cur toks ≠ .panic u) (sf : Nat) (hsf : 14 ≤ sf)
    (dirty : UState) :
    urun ts a trs it sf (UM.bind ts a sf dirty id cur) toks = unmV ts a trs it fuel id cur toks := by
  obtain ⟨crow, ck, hcc, hrun⟩ := urun_bind (trs := trs) (it := it) hS hid sf (by omega) dirty cur toks
  rw [hrun]
  have hA := (sim_all (trs := trs) (it := it) hS hWd fuel fuel (Nat.le_refl _)).1 id hid cur [] crow [] [] none ck toks sf sf sf hcc
    (by omega) (by omega) hsf
  revert hA hnp
  generalize unmV ts a trs it fuel id cur toks = r
  intro hnp hA
  cases r with
  | panic u => exact absurd rfl (hnp u)
  | more u => exact hA
  | err u => exact hA
  | ok v rest u =>
    obtain ⟨hu, row', hi', fa, _, _, hx⟩ := hA
    rw [hx]
    simp only [kont, URes.shift, _root_.id]
    congr 1; omega

end Refmt.UMachL
