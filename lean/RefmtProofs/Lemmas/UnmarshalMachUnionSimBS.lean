/-
  Stateful object unmarshaller: the slice machine from its `Reset`  ~  `unmBare … (.slice e)`.
-/
import RefmtProofs.Lemmas.UnmarshalMachUnionSimE
set_option linter.unusedSimpArgs false
set_option linter.unusedVariables false
namespace Refmt.UMachU
open Refmt Refmt.Obj Refmt.Obj.UM Refmt.UMachL

variable {ts : Types} {a : Atlas} {trs : Trs} {it : IfaceTys}

theorem umachForEntry_not_slice (e : Entry) (x : Nat) : umachForEntry ts e ≠ .slice x := by
  unfold umachForEntry
  split <;> try simp
  split <;> simp

theorem upick_slice {base e : Nat} (h : upickBare ts a base = .slice e) : ts.get base = .slice e := by
  unfold upickBare at h
  split at h
  · cases h
  · cases h
  · split at h
    · exact absurd h (umachForEntry_not_slice _ _)
    · split at h <;> simp_all

theorem unmBare_slice {n base e : Nat} {cur : Val} {t : Tok} {rest : List Tok} :
    unmBare ts a trs it (n+1) base (.slice e) cur (t :: rest) =
      match t.body with
      | .null => .ok (.slice none) rest 1
      | .arrOpen _ => (unmElems ts a trs it n e none [] rest).shift 1
      | _ => .err 0 := by
  simp only [unmBare]
  cases t.body <;> rfl

theorem simB_slice {S : List Nat} {wi : Option Nat} {n : Nat} (hS : Closed ts a S wi) (hE : SimE ts a trs it S n) {base e : Nat}
    (hrt : ts.get base = .slice e) (he : e ∈ S)
    (cur : Val) (lo : List URow) (row : URow) (hi : List URow) (stk : List URef) (be : Option XFail) (c : URef)
    (F : Val → Option Val) (w : Val → Val) (d : Nat) (toks : List Tok) (fr sf1 sf : Nat)
    {un : Option Nat} (hw : Wr trs.u c lo row .slice F w d un) (hd : d ≤ 3) (hfr : 5 ≤ fr) (hsf1 : 10 ≤ sf1) (hsf : 17 ≤ sf) :
    Agree ts a trs it none un c sf be stk lo row F w
      (rtpB ts a trs it fr sf1 sf (lo ++ row :: hi) stk be c ⟨lo.length, .slice⟩ base cur toks)
      (unmBare ts a trs it (n+1) base (.slice e) cur toks) := by
  cases toks with
  | nil => simp [rtpB, unmBare, Agree]
  | cons t rest =>
    obtain ⟨f, rfl⟩ : ∃ f, fr = f + 4 + 1 := ⟨fr - 5, by omega⟩
    obtain ⟨g, rfl⟩ : ∃ g, sf1 = g + 1 + d + 1 := ⟨sf1 - d - 2, by omega⟩
    obtain ⟨crow, cck, hreq, hcc⟩ := requisition_cov (f := f) (R := lo ++ row :: hi) hS he
    rw [unmBare_slice]
    simp only [rtpB, slice_reset hrt hreq]
    have hw1 : Wr trs.u c lo (rowSl row (slReset ts cur e (lo ++ row :: hi).length cck)) .slice F w d un := hw.congr rfl
    cases hb : t.body with
    | null =>
      have hs := hw1.step (ts := ts) (a := a) (trs := trs) (it := it) (hi ++ [crow]) stk
        (some c) be t (g + 1)
      exact Agree.fin1 hw1 (slice_step_init_null rfl hb) (rowSl_same _ _) (by omega)
    | arrOpen len =>
      have hs := hw1.step (ts := ts) (a := a) (trs := trs) (it := it) (hi ++ [crow]) stk
        (some c) be t (g + 1)
      rw [slice_step_init_open rfl hb] at hs
      rw [pump1_cont hs]
      have hst : SliceSt ts (rowSl (rowSl row (slReset ts cur e (lo ++ row :: hi).length cck))
          (slOpen (rowSl row (slReset ts cur e (lo ++ row :: hi).length cck)).slice)) e [] (lo.length + 1 + hi.length)
          cck := by
        refine ⟨rfl, rfl, rfl, rfl, ?_, rfl⟩
        show some (URef.mk (lo ++ row :: hi).length cck) = _
        simp; omega
      have hA := hE e he [] lo _ hi crow [] stk be c cck F w d rest sf hst hcc (hw.congr rfl) hd hsf
      exact hA.shift 1 ((rowSl_same _ _).trans (rowSl_same _ _))
    | _ =>
      have hs := hw1.step (ts := ts) (a := a) (trs := trs) (it := it) (hi ++ [crow]) stk
        (some c) be t (g + 1)
      rw [slice_step_init_other rfl (by simp [hb]) (by simp [hb])] at hs
      rw [pump1_err hs]
      simp [Agree, XFail.toURes]

end Refmt.UMachU
