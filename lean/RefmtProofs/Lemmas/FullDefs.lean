/-
  Definitions for the full-domain completeness theorem (RefmtProofs/Props/C13Full.lean):

  * `fullTy`   : the class of types (everything in `C11.structTy`, plus keyed unions, transforms, untyped slots);
  * `fullVal`  : the value side conditions (Bool-valued, mirrors the recursion of `normV` so that the fuel at which the
                 specification is evaluated is the fuel at which the side conditions are stated);
  * `rtF`      : the value the token-level round trip really returns (`normV` with every map in marshalling order);
  * `ValEqv''` : `C11`'s `ValEqv'` plus congruence under `.iface (some (dt, ·))`;
  * `TrsEqv`   : the user's unmarshal transforms do not observe the order of map entries.
-/
import RefmtProofs.Props.C11
import RefmtProofs.Props.C12
set_option linter.unusedSimpArgs false
set_option linter.unusedVariables false
namespace Refmt.Obj
open Refmt Refmt.C13 Refmt.C11

def isStrVal : Val → Bool
  | .str _ => true
  | _ => false

def notPtrB : TyDesc → Bool
  | .ptr _ => false
  | _ => true

def isBuiltin : TyDesc → Bool
  | .prim _ true => true
  | .bytes true => true
  | _ => false

/-- the unmarshalling machine of the type does not look at the tag of the first token (every machine but the
    untyped slot; a transform delegates, so it is excluded here to keep the criterion one level deep) -/
def tagBlind (ts : Types) (a : Atlas) (id : Nat) : Bool :=
  match a.get id with
  | some e => (match e.k with | .transform _ _ _ => false | _ => true)
  | none => (match ts.get id with | .iface _ => false | _ => true)

/-- what `fullTy` asks of one field of a struct-map entry (as `C11.structTy`) -/
def fieldOkB (fds : List FieldDesc) (f : SMField) : Bool :=
  !f.ignore &&
  (match f.route with
   | [i] => (match fds[i]? with | some fd => fd.exported && fd.ty == f.ty | none => false)
   | _ => false)

/-- The type class of the full completeness theorem.  Everything `C11.structTy` contains (struct-map entries may in
    addition carry a tag), and
    (U) keyed unions: an interface type with a registered `.union` entry, member names pairwise distinct, every member
        pointing at the registered struct-map entry of a `fullTy` struct type;
    (T) transforms: a (non-builtin, non-pointer) type with a registered `.transform fn mty uty` entry, `mty = uty`, `mty`
        a `fullTy` type that is not a pointer type; if the entry is tagged, `mty`'s machine must not look at the tag
        of the first token (`tagBlind`);
    (I) untyped slots: `interface{}` types without atlas entry (what they may hold is a condition on values: `fullVal`). -/
def fullTy (ts : Types) (a : Atlas) : Nat → Nat → Bool
  | 0, _ => false
  | fuel+1, id =>
    match ts.get id with
    | .ptr e => fullTy ts a fuel e
    | d =>
      match a.get id with
      | none =>
        (match d with
         | .prim _ _ => true
         | .bytes _ => true
         | .byteArr _ => true
         | .slice e => fullTy ts a fuel e
         | .arr _ e => fullTy ts a fuel e
         | .map k e => (match ts.get k with | .prim .string _ => true | _ => false) && fullTy ts a fuel e
         | .iface m => !m
         | _ => false)
      | some ⟨_, _, tag, k⟩ =>
        (match k with
         | .structMap fields =>
           (match d with
            | .struct fds =>
              decide ((fields.map (·.name)).Nodup) && decide ((fields.map (·.route)).Nodup) &&
              fields.all fun f => fieldOkB fds f && fullTy ts a fuel f.ty
            | _ => false)
         | .transform _ mty uty =>
           !isBuiltin d && mty == uty && notPtrB (ts.get mty) && (tag.isNone || tagBlind ts a mty) && fullTy ts a fuel mty
         | .union members =>
           (match d with
            | .iface _ =>
              decide ((members.map (·.1)).Nodup) &&
              members.all fun m =>
                (match a.pool[m.2]? with
                 | some me =>
                   (a.get me.ty == some me) && (match me.k with | .structMap _ => true | _ => false) &&
                   (match ts.get me.ty with | .struct _ => true | _ => false) && fullTy ts a fuel me.ty
                 | none => false)
            | _ => false)
         | _ => false)

/-- the entry's tag leads back to the entry (`GetEntryByTag`) -/
def taggedB (a : Atlas) (e : Entry) : Bool :=
  match e.tag with
  | some tg => a.getByTag tg == some e
  | none => false

def strKeysB (es : List (Val × Val)) : Bool :=
  es.all (fun p => isStrVal p.1) && decide ((es.map fun p => keyStr p.1).Nodup)

mutual
  /-- Value side conditions, by the recursion of `normV` (so `fullVal … g id v` talks about `normV … g id v`):
      * maps: keys are strings, pairwise distinct;
      * transforms: the marshal transform's result inhabits the target type, satisfies the side conditions, and the
        unmarshal transform succeeds on the specified (`normV`) intermediate value;
      * untyped slots hold nil, or a non-pointer scalar-kinded value, or a native `[]interface{}` / `map[string]interface{}`
        of such, or a value of a registered TAGGED struct-map / transform type of the class `fullTy`. -/
  def fullVal (ts : Types) (a : Atlas) (trs : Trs) (it : IfaceTys) : Nat → Nat → Val → Bool
    | 0, _, _ => true
    | g+1, id, v =>
      let (n, base) := peel ts 64 0 id
      if n == 0 then fullValB ts a trs it g base (pickBare ts a base) v
      else
        match derefN n v with
        | none => true
        | some inner => fullValB ts a trs it g base (pickBare ts a base) inner
  def fullValB (ts : Types) (a : Atlas) (trs : Trs) (it : IfaceTys) : Nat → Nat → Mach → Val → Bool
    | 0, _, _, _ => true
    | g+1, id, m, v =>
      match m with
      | .slice e => (match v with | .slice (some vs) => vs.all (fullVal ts a trs it g e) | _ => true)
      | .array e => (match v with | .arr vs => vs.all (fullVal ts a trs it g e) | _ => true)
      | .map _ vt _ =>
        (match v with
         | .map (some es) => strKeysB es && es.all (fun p => fullVal ts a trs it g vt p.2)
         | _ => true)
      | .structMap _ fields =>
        fields.all fun f =>
          !emitP v f || (match traverse f.route v with | some fv => fullVal ts a trs it g f.ty fv | none => true)
      | .transform _ fn mty =>
        (match trs.m fn v with
         | some tv =>
           hasTy ts 1000 mty tv && fullVal ts a trs it g mty tv &&
           (trs.u fn (normV .pretty ts a trs it g mty tv)).isSome
         | none => true)
      | .union _ members =>
        (match v with
         | .iface (some (dt, dv)) =>
           (match members.find? fun (_, idx) => (a.pool[idx]?.map (·.ty)) == some dt with
            | some (_, idx) =>
              (match a.pool[idx]? with
               | some me => fullValB ts a trs it g dt (machForEntry ts me) dv
               | none => true)
            | none => true)
         | _ => true)
      | .wildcard =>
        (match v with
         | .iface (some (dt, dv)) =>
           notPtrB (ts.get dt) &&
           (match pickBare ts a dt with
            | .prim => true
            | .slice _ =>
              dt == it.sliceI &&
              (match dv with | .slice (some vs) => vs.all (fullVal ts a trs it g it.iface) | _ => false)
            | .map _ _ _ =>
              dt == it.mapSI &&
              (match dv with
               | .map (some es) => strKeysB es && es.all (fun p => fullVal ts a trs it g it.iface p.2)
               | _ => false)
            | .structMap e _ =>
              taggedB a e && fullTy ts a 64 dt && fullValB ts a trs it g dt (pickBare ts a dt) dv
            | .transform e _ _ =>
              taggedB a e && fullTy ts a 64 dt && fullValB ts a trs it g dt (pickBare ts a dt) dv
            | _ => false)
         | _ => true)
      | _ => true
end

mutual
  /-- the value the token-level round trip returns: `normV .pretty` with the entries of every map in marshalling
      (key) order -/
  def rtF (ts : Types) (a : Atlas) (trs : Trs) (it : IfaceTys) : Nat → Nat → Val → Val
    | 0, _, v => v
    | fuel+1, id, v =>
      let (n, base) := peel ts 64 0 id
      if n == 0 then rtFB ts a trs it fuel base (pickBare ts a base) v
      else
        match derefN n v with
        | none => .ptr none
        | some inner =>
          if isNullSer ts a trs base inner then .ptr none
          else wrapPtr n (rtFB ts a trs it fuel base (pickBare ts a base) inner)
  def rtFB (ts : Types) (a : Atlas) (trs : Trs) (it : IfaceTys) : Nat → Nat → Mach → Val → Val
    | 0, _, _, v => v
    | fuel+1, id, m, v =>
      match m with
      | .slice e => (match v with | .slice (some vs) => .slice (some (vs.map (rtF ts a trs it fuel e))) | x => x)
      | .array e => (match v with | .arr vs => .arr (vs.map (rtF ts a trs it fuel e)) | x => x)
      | .map _ vt mode =>
        (match v with
         | .map (some es) =>
           .map (some ((sortKeys mode (es.map fun (k, x) => (keyStr k, x))).map fun (s, x) => (Val.str s, rtF ts a trs it fuel vt x)))
         | x => x)
      | .structMap _ fields => structFold ts id fields v (fun t x => rtF ts a trs it fuel t x)
      | .transform _ fn mty =>
        (match trs.m fn v with
         | some tv => (trs.u fn (rtF ts a trs it fuel mty tv)).getD v
         | none => v)
      | .union _ members =>
        (match v with
         | .iface (some (dt, dv)) =>
           (match members.find? fun (_, idx) => (a.pool[idx]?.map (·.ty)) == some dt with
            | some (_, idx) =>
              (match a.pool[idx]? with
               | some me => .iface (some (dt, rtFB ts a trs it fuel dt (machForEntry ts me) dv))
               | none => v)
            | none => v)
         | x => x)
      | .wildcard =>
        (match v with
         | .iface (some (dt, dv)) =>
           if isBareNullSer .pretty ts a trs dt dv then .iface none else
           (match pickBare ts a (peel ts 64 0 dt).2, derefN (peel ts 64 0 dt).1 dv with
            | .prim, some pv =>
              (match pv with
               | .bool b => .iface (some (it.bool, .bool b))
               | .int i => .iface (some (it.int, .int i))
               | .uint u => if u < two63 then .iface (some (it.int, .int u)) else .iface (some (it.uint64, .uint u))
               | .float b => .iface (some (normFloatIface .pretty it b))
               | .str s => .iface (some (it.str, .str s))
               | .bytes (some b) => .iface (some (it.bytes, .bytes (some b)))
               | .byteArr b => .iface (some (it.bytes, .bytes (some b)))
               | x => .iface (some (dt, x)))
            | .slice e, some (.slice (some vs)) =>
              .iface (some (it.sliceI, .slice (some (vs.map fun x => rtF ts a trs it fuel it.iface (boxAs ts e x)))))
            | .array e, some (.arr vs) =>
              .iface (some (it.sliceI, .slice (some (vs.map fun x => rtF ts a trs it fuel it.iface (boxAs ts e x)))))
            | .map _ vt mode, some (.map (some es)) =>
              .iface (some (it.mapSI, .map (some ((sortKeys mode (es.map fun (k, x) => (keyStr k, x))).map fun (s, x) =>
                (Val.str s, rtF ts a trs it fuel it.iface (boxAs ts vt x))))))
            | _, some pv =>
              .iface (some ((peel ts 64 0 dt).2, rtFB ts a trs it fuel (peel ts 64 0 dt).2 (pickBare ts a (peel ts 64 0 dt).2) pv))
            | _, none => .iface none)
         | x => x)
      | m => normBare .pretty ts a trs it (fuel+1) id m v
end

/-- `ValEqv'` (equality up to the order of map entries, with struct congruence) plus congruence under the
    dynamic type of an interface value -/
inductive ValEqv'' : Val → Val → Prop
  | refl (v : Val) : ValEqv'' v v
  | slice {xs ys : List Val} : xs.length = ys.length → (∀ p ∈ xs.zip ys, ValEqv'' p.1 p.2) →
      ValEqv'' (.slice (some xs)) (.slice (some ys))
  | arr {xs ys : List Val} : xs.length = ys.length → (∀ p ∈ xs.zip ys, ValEqv'' p.1 p.2) →
      ValEqv'' (.arr xs) (.arr ys)
  | ptr {x y : Val} : ValEqv'' x y → ValEqv'' (.ptr (some x)) (.ptr (some y))
  | map {es zs es' : List (Val × Val)} : es.Perm zs → zs.length = es'.length →
      (∀ p ∈ zs.zip es', p.1.1 = p.2.1) → (∀ p ∈ zs.zip es', ValEqv'' p.1.2 p.2.2) →
      ValEqv'' (.map (some es)) (.map (some es'))
  | struct {xs ys : List Val} : xs.length = ys.length →
      (∀ (j : Nat) (x y : Val), xs[j]? = some x → ys[j]? = some y → ValEqv'' x y) → ValEqv'' (.struct xs) (.struct ys)
  | iface {dt : Nat} {x y : Val} : ValEqv'' x y → ValEqv'' (.iface (some (dt, x))) (.iface (some (dt, y)))

theorem ValEqv'.toEqv'' {x y : Val} (h : ValEqv' x y) : ValEqv'' x y := by
  induction h with
  | refl v => exact ValEqv''.refl v
  | slice hl _ ih => exact ValEqv''.slice hl ih
  | arr hl _ ih => exact ValEqv''.arr hl ih
  | ptr _ ih => exact ValEqv''.ptr ih
  | map hp hl hk _ ih => exact ValEqv''.map hp hl hk ih
  | struct hl _ ih => exact ValEqv''.struct hl ih

theorem ValEqv''.wrap {x y : Val} (h : ValEqv'' x y) : ∀ n, ValEqv'' (wrapPtr n x) (wrapPtr n y)
  | 0 => h
  | n+1 => ValEqv''.ptr (ValEqv''.wrap h n)

/-- the user's unmarshal transforms do not observe the order of map entries: on inputs equal up to that order they
    succeed together, with results equal up to that order -/
def TrsEqv (trs : Trs) : Prop :=
  ∀ (fn : Nat) (x y b : Val), ValEqv'' x y → trs.u fn y = some b → ∃ a', trs.u fn x = some a' ∧ ValEqv'' a' b

end Refmt.Obj
