/-
  Every byte of `FloatText.jsonFloat` is a digit, a sign, a point or `e` (no semantic fact about the digits is used).
-/
import RefmtProofs.Lemmas.JsonNum
set_option linter.unusedSimpArgs false
set_option linter.unusedVariables false
namespace Refmt.C03L
open Refmt Refmt.FloatText

theorem strip_sub : ∀ (l : List Nat) (x : Nat), x ∈ shortest.strip l → x ∈ l
  | [], x, h => by simp [shortest.strip] at h
  | y :: ys, x, h => by
    simp only [shortest.strip] at h
    split at h
    · split at h
      · simp at h
      · simp at h; simp [h]
    · simp only [List.mem_cons] at h
      rcases h with rfl | h
      · simp
      · exact List.mem_cons_of_mem _ (strip_sub ys x h)

theorem shortest_digits (bits : Nat) : ∀ x ∈ (shortest bits).1, isDigit x = true := by
  unfold shortest
  simp only
  split
  · intro x hx; simp at hx; subst hx; decide
  · split
    · intro x hx; simp at hx; subst hx; decide
    · intro x hx
      exact natDigits_digits _ x (strip_sub _ x hx)

theorem isDigit_numChar {x : Nat} (h : isDigit x = true) : numChar x = true := by simp [numChar, h]

theorem fmtE_chars (neg : Bool) (ds : Bytes) (dp : Int) (h : ∀ x ∈ ds, isDigit x = true) :
    ∀ x ∈ fmtE neg ds dp, numChar x = true := by
  intro x hx
  unfold fmtE at hx
  simp only [List.mem_append, List.mem_cons, List.not_mem_nil, or_false] at hx
  rcases hx with ((((hx | hx) | hx) | hx) | hx) | hx
  · split at hx <;> simp at hx; subst hx; decide
  · subst hx
    cases ds with
    | nil => decide
    | cons d _ => exact isDigit_numChar (h d (by simp))
  · split at hx
    · simp at hx
    · simp only [List.mem_cons] at hx
      rcases hx with rfl | hx
      · decide
      · exact isDigit_numChar (h x (List.mem_of_mem_drop hx))
  · subst hx; decide
  · subst hx; split <;> decide
  · split at hx
    · simp only [List.mem_cons] at hx
      rcases hx with rfl | hx
      · decide
      · exact isDigit_numChar (natDigits_digits _ x hx)
    · exact isDigit_numChar (natDigits_digits _ x hx)

theorem fmtF_chars (neg : Bool) (ds : Bytes) (dp : Int) (h : ∀ x ∈ ds, isDigit x = true) :
    ∀ x ∈ fmtF neg ds dp, numChar x = true := by
  intro x hx
  unfold fmtF at hx
  have hsign : ∀ y ∈ (if neg = true then [45] else ([] : Bytes)), numChar y = true := by
    intro y hy; split at hy <;> simp at hy; subst hy; decide
  simp only at hx
  split at hx
  · simp only [List.mem_append, List.mem_cons, List.not_mem_nil, or_false, List.mem_replicate] at hx
    rcases hx with ((hx | hx) | hx) | hx
    · exact hsign x hx
    · rcases hx with rfl | rfl <;> decide
    · rw [hx.2]; decide
    · exact isDigit_numChar (h x hx)
  · split at hx
    · simp only [List.mem_append, List.mem_replicate] at hx
      rcases hx with (hx | hx) | hx
      · exact hsign x hx
      · exact isDigit_numChar (h x hx)
      · rw [hx.2]; decide
    · simp only [List.mem_append, List.mem_cons, List.not_mem_nil, or_false] at hx
      rcases hx with ((hx | hx) | hx) | hx
      · exact hsign x hx
      · exact isDigit_numChar (h x (List.mem_of_mem_take hx))
      · subst hx; decide
      · exact isDigit_numChar (h x (List.mem_of_mem_drop hx))

theorem jsonFloat_chars (bits : Nat) : ∀ x ∈ jsonFloat bits, numChar x = true := by
  unfold jsonFloat
  simp only
  have hd := shortest_digits bits
  generalize (shortest bits).1 = ds at hd ⊢
  generalize (shortest bits).2 = dp
  split
  · split
    · rename_i hc
      intro x hx
      simp only [List.mem_append, List.mem_cons, List.not_mem_nil, or_false] at hx
      rcases hx with hx | hx
      · exact fmtE_chars _ ds dp hd x (List.mem_of_mem_take hx)
      · subst hx
        simp only [Bool.and_eq_true, decide_eq_true_eq] at hc
        have hl := hc.1.1.1
        rw [List.getD_eq_getElem?_getD, List.getElem?_eq_getElem (by omega)]
        exact fmtE_chars _ ds dp hd _ (List.getElem_mem _)
    · exact fmtE_chars _ ds dp hd
  · exact fmtF_chars _ ds dp hd

end Refmt.C03L
