/-
  C12, claim (ii) — the untyped pass (`UP`) on scalars, arrays and maps (see RefmtProofs/Props/C12Typed.lean).
-/
import RefmtProofs.Lemmas.LegDefs
set_option linter.unusedSimpArgs false
set_option linter.unusedVariables false
namespace Refmt.Obj
open Refmt Refmt.C13 Refmt.C11 Refmt.C12 Refmt.C12L

variable {ts : Types} {a : Atlas} {trs : Trs} {it : IfaceTys}

theorem zeroVal_iface (he : UEnv ts a it) : zeroVal ts 64 it.iface = .iface none := by
  show zeroVal ts (63+1) it.iface = _
  rw [zeroVal.eq_def]
  simp [he.iface]

theorem UP_null (he : UEnv ts a it) : UP ts a trs it 3 [⟨.null, none⟩] (.iface none) [⟨.null, none⟩] := by
  refine ⟨Or.inl ⟨rfl, rfl⟩, fun F hF => ⟨fun rest => ?_, ?_⟩⟩
  · obtain ⟨F, rfl⟩ : ∃ F', F = F' + 3 := ⟨F - 3, by omega⟩
    rw [List.cons_append, uV_iface trs he, uW_null]; rfl
  · obtain ⟨F, rfl⟩ : ∃ F', F = F' + 2 := ⟨F - 2, by omega⟩
    exact mV_nil trs he F

/-- what the untyped pass makes of a scalar token: the value held by the slot, and the body written again -/
def scalU (it : IfaceTys) : Body → Option ((Nat × Val) × Body)
  | .str s => some ((it.str, .str s), .str s)
  | .bytes b => some ((it.bytes, .bytes (some b)), .bytes b)
  | .bool b => some ((it.bool, .bool b), .bool b)
  | .float f => some ((it.f64, .float f), .float f)
  | .int i => some ((it.int, .int i), .int i)
  | .uint n => if n < two63 then some ((it.int, .int n), .int n) else some ((it.uint64, .uint n), .uint n)
  | _ => none

theorem UP_scalar (he : UEnv ts a it) (b b' : Body) (u : Nat × Val) (h : scalU it b = some (u, b')) :
    UP ts a trs it 5 [⟨b, none⟩] (.iface (some u)) [⟨b', none⟩] := by
  have hnc : NC ⟨b, none⟩ ∧ NC ⟨b', none⟩ ∧ SameOpen b b' := by
    cases b <;> simp only [scalU] at h <;> try (cases h; done)
    all_goals first
      | (simp only [Option.some.injEq, Prod.mk.injEq] at h; obtain ⟨-, rfl⟩ := h; simp [NC, SameOpen])
      | (split at h <;> (simp only [Option.some.injEq, Prod.mk.injEq] at h; obtain ⟨-, rfl⟩ := h; simp [NC, SameOpen]))
  refine ⟨Or.inr ⟨_, _, _, _, rfl, rfl, rfl, rfl, hnc.1, hnc.2.1, hnc.2.2⟩, fun F hF => ⟨fun rest => ?_, ?_⟩⟩
  · obtain ⟨F, rfl⟩ : ∃ F', F = F' + 3 := ⟨F - 3, by omega⟩
    rw [List.cons_append, uV_iface trs he]
    cases b <;> simp only [scalU] at h <;> try (cases h; done)
    case str s => cases h; rw [uW_str]; rfl
    case bytes s => cases h; rw [uW_bytes]; rfl
    case bool s => cases h; rw [uW_bool]; rfl
    case float s => cases h; rw [uW_float]; rfl
    case int s => cases h; rw [uW_int]; rfl
    case uint n =>
      rw [uW_uint]
      split at h <;> cases h <;> simp [*]
  · obtain ⟨F, rfl⟩ : ∃ F', F = F' + 4 := ⟨F - 4, by omega⟩
    obtain ⟨d, x⟩ := u
    rw [mV_some trs he]
    cases b <;> simp only [scalU] at h <;> try (cases h; done)
    case str s => cases h; rw [mV_str trs he]; rfl
    case bytes s => cases h; rw [mV_bytes trs he]; rfl
    case bool s => cases h; rw [mV_bool trs he]; rfl
    case float s => cases h; rw [mV_f64 trs he]; rfl
    case int s => cases h; rw [mV_int trs he]; rfl
    case uint n =>
      split at h <;> cases h
      · rw [mV_int trs he]; rfl
      · rw [mV_uint64 trs he]; rfl


/-! ### arrays -/

theorem UP_arr (he : UEnv ts a it) (N : Nat) (l : Int) (items : List Item)
    (h : ∀ i ∈ items, UP ts a trs it N i.tk i.u i.tk2) :
    UP ts a trs it (N + items.length + 6)
      (⟨.arrOpen l, none⟩ :: (items.flatMap (·.tk) ++ [⟨.arrClose, none⟩]))
      (.iface (some (it.sliceI, .slice (some (items.map (·.u))))))
      (⟨.arrOpen items.length, none⟩ :: (items.flatMap (·.tk2) ++ [⟨.arrClose, none⟩])) := by
  refine ⟨Or.inr ⟨_, _, _, _, rfl, rfl, rfl, rfl, by simp [NC], by simp [NC], by simp [SameOpen]⟩,
    fun F hF => ⟨fun rest => ?_, ?_⟩⟩
  · obtain ⟨F, rfl⟩ : ∃ F', F = F' + 4 := ⟨F - 4, by omega⟩
    have hr := rd_elems (ts := ts) (a := a) (trs := trs) (it := it) (·.tk) (·.u) it.iface N items
      (fun i hi => ⟨(h i hi).1.head1, fun F hF => ((h i hi).2 F hF).1⟩) F (by omega) none [] rest (by simp)
    have e1 : (⟨.arrOpen l, none⟩ :: (items.flatMap (·.tk) ++ [⟨.arrClose, none⟩])) ++ rest =
        ⟨.arrOpen l, none⟩ :: (items.flatMap (·.tk) ++ ⟨.arrClose, none⟩ :: rest) := by simp
    rw [e1, uV_iface trs he, uW_arr, hr]
    simp
  · obtain ⟨F, rfl⟩ : ∃ F', F = F' + 4 := ⟨F - 4, by omega⟩
    have hm := m_list (ts := ts) (a := a) (trs := trs) (·.u) (·.tk2) it.iface N items
      (fun i hi F hF => ((h i hi).2 F hF).2) F (by omega)
    rw [mV_some trs he, mV_slice trs he, hm]
    simp [MOut.seq, MOut.ok]

/-! ### maps -/

/-- keyed items in the marshaller's key order -/
def sortI {β : Type} (mode : KeySort) (l : List (Bytes × β)) : List (Bytes × β) :=
  l.mergeSort fun x y => keyLe mode x.1 y.1

theorem sortI_perm {β : Type} (mode : KeySort) (l : List (Bytes × β)) : (sortI mode l).Perm l :=
  List.mergeSort_perm l _

theorem sortKeys_map_sortI {β : Type} (mode : KeySort) (g : β → Val) (l : List (Bytes × β)) :
    sortKeys mode (l.map fun p => (p.1, g p.2)) = (sortI mode l).map fun p => (p.1, g p.2) := by
  unfold sortKeys sortI
  exact (List.map_mergeSort (f := fun (p : Bytes × β) => (p.1, g p.2)) (r := fun (x y : Bytes × β) => keyLe mode x.1 y.1)
    (s := fun (x y : Bytes × Val) => keyLe mode x.1 y.1) (fun _ _ _ _ => rfl)).symm

theorem UP_map (he : UEnv ts a it) (N : Nat) (l : Int) (kitems : List (Bytes × Item))
    (hnd : (kitems.map (·.1)).Nodup) (h : ∀ p ∈ kitems, UP ts a trs it N p.2.tk p.2.u p.2.tk2) :
    UP ts a trs it (N + kitems.length + 6)
      (⟨.mapOpen l, none⟩ :: (kitems.flatMap (fun p => ⟨.str p.1, none⟩ :: p.2.tk) ++ [⟨.mapClose, none⟩]))
      (.iface (some (it.mapSI, .map (some (kitems.map fun p => (Val.str p.1, p.2.u))))))
      (⟨.mapOpen kitems.length, none⟩ ::
        ((sortI a.defaultSort kitems).flatMap (fun p => ⟨.str p.1, none⟩ :: p.2.tk2) ++ [⟨.mapClose, none⟩])) := by
  refine ⟨Or.inr ⟨_, _, _, _, rfl, rfl, rfl, rfl, by simp [NC], by simp [NC], by simp [SameOpen]⟩,
    fun F hF => ⟨fun rest => ?_, ?_⟩⟩
  · obtain ⟨F, rfl⟩ : ∃ F', F = F' + 4 := ⟨F - 4, by omega⟩
    have hr := rd_entries (ts := ts) (a := a) (trs := trs) (it := it) (·.1) (·.2.tk) (·.2.u) it.iface N kitems
      (fun p hp F hF => ((h p hp).2 F hF).1) hnd F (by omega) [] rest (by intro x _; simp [hasKey])
    have e1 : (⟨.mapOpen l, none⟩ :: (kitems.flatMap (fun p => ⟨.str p.1, none⟩ :: p.2.tk) ++ [⟨.mapClose, none⟩])) ++ rest =
        ⟨.mapOpen l, none⟩ :: (kitems.flatMap (fun p => ⟨.str p.1, none⟩ :: p.2.tk) ++ ⟨.mapClose, none⟩ :: rest) := by simp
    rw [e1, uV_iface trs he, uW_map trs he, hr]
    simp
  · obtain ⟨F, rfl⟩ : ∃ F', F = F' + 4 := ⟨F - 4, by omega⟩
    have hlen : (sortI a.defaultSort kitems).length = kitems.length := (sortI_perm _ _).length_eq
    have hm := m_entries (ts := ts) (a := a) (trs := trs) (·.1) (·.2.u) (·.2.tk2) it.iface N (sortI a.defaultSort kitems)
      (fun p hp F hF => ((h p ((sortI_perm _ _).mem_iff.mp hp)).2 F hF).2) F (by omega)
    rw [mV_some trs he, mV_map trs he F _ (by
      intro p hp
      simp only [List.mem_map] at hp
      obtain ⟨q, _, rfl⟩ := hp
      exact ⟨_, rfl⟩)]
    have e2 : ((kitems.map fun p => (Val.str p.1, p.2.u)).map fun p => (keyOf p.1, p.2)) =
        kitems.map fun p => (p.1, (fun (i : Item) => i.u) p.2) := by
      simp [List.map_map, Function.comp_def, keyOf]
    rw [e2, sortKeys_map_sortI, hm]
    simp [MOut.seq, MOut.ok]

end Refmt.Obj
