/-
  Correctness of `FloatText.roundRat`: a positive rational inside the rounding interval of a finite positive
  binary64 value `m * 2^e` (between the midpoints to its two neighbours; inclusive iff `m` is even; the lower
  midpoint is the asymmetric `(m - 1/4) * 2^e` at a power-of-two boundary) is rounded to that value.
-/
import RefmtProofs.Lemmas.FloatArith
import Mathlib.Tactic.Ring
import Mathlib.Tactic.Linarith
import Mathlib.Tactic.NormNum
set_option linter.unusedSimpArgs false
set_option linter.unusedVariables false
namespace Refmt.FloatL
open Refmt Refmt.FloatText

/-! ### the round-half-even step -/

/-- `n / d` lies between `M - 1/2` and `M + 1/2` (ends allowed iff `M` is even): it rounds to `M` -/
theorem roundCore_eq (n d M : Nat) (hd : 0 < d) (hM : 1 ≤ M)
    (h1 : (2 * M - 1) * d ≤ 2 * n) (h1' : M % 2 = 1 → (2 * M - 1) * d < 2 * n)
    (h2 : 2 * n ≤ (2 * M + 1) * d) (h2' : M % 2 = 1 → 2 * n < (2 * M + 1) * d) :
    roundCore n d = M := by
  have hdm := Nat.div_add_mod n d
  have hr : n % d < d := Nat.mod_lt _ hd
  obtain ⟨K, rfl⟩ : ∃ K, M = K + 1 := ⟨M - 1, by omega⟩
  have e1 : (2 * (K + 1) - 1) * d = 2 * (d * K) + d := by
    have : 2 * (K + 1) - 1 = 2 * K + 1 := by omega
    rw [this]; ring
  have e2 : (2 * (K + 1) + 1) * d = 2 * (d * K) + 3 * d := by ring
  rw [e1] at h1 h1'
  rw [e2] at h2 h2'
  -- the quotient is `K` or `K + 1`
  have hq1 : K ≤ n / d := by
    by_contra hc
    have : n / d + 1 ≤ K := by omega
    have : d * (n / d + 1) ≤ d * K := Nat.mul_le_mul_left _ this
    rw [Nat.mul_add, Nat.mul_one] at this
    omega
  have hq2 : n / d ≤ K + 1 := by
    by_contra hc
    have : K + 2 ≤ n / d := by omega
    have : d * (K + 2) ≤ d * (n / d) := Nat.mul_le_mul_left _ this
    rw [Nat.mul_add] at this
    omega
  unfold roundCore
  rcases (by omega : n / d = K ∨ n / d = K + 1) with hq | hq
  · rw [hq] at hdm ⊢
    by_cases hgt : 2 * (n % d) > d
    · simp [hgt]
    · have heq : 2 * (n % d) = d := by omega
      have hK : K % 2 = 1 := by
        by_contra hc
        have := h1' (by omega)
        omega
      simp [heq, hK]
  · rw [hq] at hdm ⊢
    rw [Nat.mul_add, Nat.mul_one] at hdm
    have hngt : ¬ 2 * (n % d) > d := by omega
    by_cases heq : 2 * (n % d) = d
    · have hK : (K + 1) % 2 = 0 := by
        by_contra hc
        have := h2' (by omega)
        omega
      have : ¬ (K + 1) % 2 = 1 := by omega
      simp [hngt, heq, this]
    · simp [hngt, heq]

/-- the scaling step of `roundRat` followed by the rounding step, with the scale written as `P - Q` -/
theorem roundCore_sh (num den M : Nat) (sh : Int) (P Q : Nat) (hPQ : (P : Int) - Q = sh) (hden : 0 < den) (hM : 1 ≤ M)
    (h1 : (2 * M - 1) * den * 2 ^ Q ≤ 2 * num * 2 ^ P)
    (h1' : M % 2 = 1 → (2 * M - 1) * den * 2 ^ Q < 2 * num * 2 ^ P)
    (h2 : 2 * num * 2 ^ P ≤ (2 * M + 1) * den * 2 ^ Q)
    (h2' : M % 2 = 1 → 2 * num * 2 ^ P < (2 * M + 1) * den * 2 ^ Q) :
    roundCore (if sh ≥ 0 then num * 2 ^ sh.toNat else num) (if sh ≥ 0 then den else den * 2 ^ (-sh).toNat) = M := by
  by_cases hs : sh ≥ 0
  · simp only [hs, if_true]
    apply roundCore_eq _ _ _ hden hM
    · have := scale_le 2 ((2 * M - 1) * den) (2 * num) Q P 0 sh.toNat (by decide) (by omega) h1
      calc (2 * M - 1) * den = (2 * M - 1) * den * 2 ^ 0 := by simp
        _ ≤ 2 * num * 2 ^ sh.toNat := this
        _ = 2 * (num * 2 ^ sh.toNat) := by ring
    · intro hodd
      have := scale_lt 2 ((2 * M - 1) * den) (2 * num) Q P 0 sh.toNat (by decide) (by omega) (h1' hodd)
      calc (2 * M - 1) * den = (2 * M - 1) * den * 2 ^ 0 := by simp
        _ < 2 * num * 2 ^ sh.toNat := this
        _ = 2 * (num * 2 ^ sh.toNat) := by ring
    · have := scale_le 2 (2 * num) ((2 * M + 1) * den) P Q sh.toNat 0 (by decide) (by omega) h2
      calc 2 * (num * 2 ^ sh.toNat) = 2 * num * 2 ^ sh.toNat := by ring
        _ ≤ (2 * M + 1) * den * 2 ^ 0 := this
        _ = (2 * M + 1) * den := by simp
    · intro hodd
      have := scale_lt 2 (2 * num) ((2 * M + 1) * den) P Q sh.toNat 0 (by decide) (by omega) (h2' hodd)
      calc 2 * (num * 2 ^ sh.toNat) = 2 * num * 2 ^ sh.toNat := by ring
        _ < (2 * M + 1) * den * 2 ^ 0 := this
        _ = (2 * M + 1) * den := by simp
  · simp only [hs, if_false]
    have hd2 : 0 < den * 2 ^ (-sh).toNat := Nat.mul_pos hden (Nat.pow_pos (by decide))
    apply roundCore_eq _ _ _ hd2 hM
    · have := scale_le 2 ((2 * M - 1) * den) (2 * num) Q P (-sh).toNat 0 (by decide) (by omega) h1
      calc (2 * M - 1) * (den * 2 ^ (-sh).toNat) = (2 * M - 1) * den * 2 ^ (-sh).toNat := by ring
        _ ≤ 2 * num * 2 ^ 0 := this
        _ = 2 * num := by simp
    · intro hodd
      have := scale_lt 2 ((2 * M - 1) * den) (2 * num) Q P (-sh).toNat 0 (by decide) (by omega) (h1' hodd)
      calc (2 * M - 1) * (den * 2 ^ (-sh).toNat) = (2 * M - 1) * den * 2 ^ (-sh).toNat := by ring
        _ < 2 * num * 2 ^ 0 := this
        _ = 2 * num := by simp
    · have := scale_le 2 (2 * num) ((2 * M + 1) * den) P Q 0 (-sh).toNat (by decide) (by omega) h2
      calc 2 * num = 2 * num * 2 ^ 0 := by simp
        _ ≤ (2 * M + 1) * den * 2 ^ (-sh).toNat := this
        _ = (2 * M + 1) * (den * 2 ^ (-sh).toNat) := by ring
    · intro hodd
      have := scale_lt 2 (2 * num) ((2 * M + 1) * den) P Q 0 (-sh).toNat (by decide) (by omega) (h2' hodd)
      calc 2 * num = 2 * num * 2 ^ 0 := by simp
        _ < (2 * M + 1) * den * 2 ^ (-sh).toNat := this
        _ = (2 * M + 1) * (den * 2 ^ (-sh).toNat) := by ring

end Refmt.FloatL

namespace Refmt.FloatL
open Refmt Refmt.FloatText

/-! ### `roundRat` rounds every rational of the rounding interval of `m * 2^e` to `m * 2^e` -/

/-- **Correctness of `roundRat`.**  `m * 2^e` is a finite positive binary64 value in canonical form
    (`1 ≤ m < 2^53`, `-1074 ≤ e ≤ 971`, `m < 2^52` only for `e = -1074`); its bit pattern is
    `(e + 1074) * 2^52 + m`.  `bl` says that the value is a power of two with a closer lower neighbour.
    The rational `num / den` lies between the midpoints (numerators over `2^(e-2)`, written as `2^A / 2^B`):
    `(4m-2 | 4m-1) * 2^(e-2) ≤ num/den ≤ (4m+2) * 2^(e-2)`, strictly when `m` is odd.
    Then `roundRat` returns that bit pattern, without overflow. -/
theorem roundRat_spec (num den m : Nat) (e : Int) (A B : Nat) (hAB : (A : Int) - B = e - 2)
    (hden : den ≠ 0) (hm1 : 1 ≤ m) (hm2 : m < 9007199254740992) (he1 : -1074 ≤ e) (he2 : e ≤ 971)
    (hsub : m < 4503599627370496 → e = -1074)
    (bl : Bool) (hbl : bl = true ↔ (m = 4503599627370496 ∧ -1074 < e))
    (hlo : (if bl then 4 * m - 1 else 4 * m - 2) * den * 2 ^ A ≤ num * 2 ^ B)
    (hlo' : m % 2 = 1 → (if bl then 4 * m - 1 else 4 * m - 2) * den * 2 ^ A < num * 2 ^ B)
    (hhi : num * 2 ^ B ≤ (4 * m + 2) * den * 2 ^ A)
    (hhi' : m % 2 = 1 → num * 2 ^ B < (4 * m + 2) * den * 2 ^ A) :
    roundRat num den = ((e + 1074).toNat * p52 + m, false) := by
  have hdpos : 0 < den := Nat.pos_of_ne_zero hden
  have hTpos : 0 < den * 2 ^ A := Nat.mul_pos hdpos (Nat.pow_pos (by decide))
  rw [Nat.mul_assoc] at hlo hlo' hhi hhi'
  have hn : num ≠ 0 := by
    intro h0; subst h0
    have : 0 < (if bl then 4 * m - 1 else 4 * m - 2) * (den * 2 ^ A) :=
      Nat.mul_pos (by split <;> omega) hTpos
    omega
  rw [roundRat_eq num den hn]
  have hlow := expOf_lower num den hn hden
  have hupp := expOf_upper num den hn hden
  generalize expOf num den = E at hlow hupp
  -- the position of `num/den` relative to powers of two, in units of `T = den * 2^A` over `N = num * 2^B`
  have hL : ∀ j : Nat, (j : Int) ≤ E - e + 2 → den * 2 ^ A * 2 ^ j ≤ num * 2 ^ B := by
    intro j hj
    have h := hlow (A + j + (E - e + 2 - j).toNat) B (by push_cast; omega)
    calc den * 2 ^ A * 2 ^ j ≤ den * 2 ^ A * 2 ^ j * 2 ^ (E - e + 2 - j).toNat :=
          Nat.le_mul_of_pos_right _ (Nat.pow_pos (by decide))
      _ = den * 2 ^ (A + j + (E - e + 2 - j).toNat) := by rw [Nat.pow_add, Nat.pow_add]; ring
      _ ≤ num * 2 ^ B := h
  have hU : ∀ j : Nat, E - e + 3 ≤ (j : Int) → num * 2 ^ B < den * 2 ^ A * 2 ^ j := by
    intro j hj
    have h := hupp (A + j) (B + (j - (E - e + 3)).toNat) (by push_cast; omega)
    calc num * 2 ^ B ≤ num * 2 ^ B * 2 ^ (j - (E - e + 3)).toNat :=
          Nat.le_mul_of_pos_right _ (Nat.pow_pos (by decide))
      _ = num * 2 ^ (B + (j - (E - e + 3)).toNat) := by rw [Nat.pow_add]; ring
      _ < den * 2 ^ (A + j) := h
      _ = den * 2 ^ A * 2 ^ j := by rw [Nat.pow_add]; ring
  generalize hT : den * 2 ^ A = T at *
  generalize hN : num * 2 ^ B = N at *
  -- the weak lower bound
  have hlo2 : (4 * m - 2) * T ≤ N := by
    refine Nat.le_trans (Nat.mul_le_mul_right _ ?_) hlo
    split <;> omega
  have hlo2' : m % 2 = 1 → (4 * m - 2) * T < N := by
    intro ho
    refine Nat.lt_of_le_of_lt (Nat.mul_le_mul_right _ ?_) (hlo' ho)
    split <;> omega
  have p53 : (2:Nat) ^ 53 = 9007199254740992 := by norm_num
  have p54 : (2:Nat) ^ 54 = 18014398509481984 := by norm_num
  have p55 : (2:Nat) ^ 55 = 36028797018963968 := by norm_num
  -- bounds on `E = floor(log2(num/den))`
  have b1 : E ≤ e + 52 := by
    by_contra hc
    have h := hL 55 (by omega)
    have : (4 * m + 2) * T < 36028797018963968 * T := Nat.mul_lt_mul_of_pos_right (by omega) hTpos
    rw [p55] at h
    omega
  have b2 : m < 4503599627370496 → E ≤ e + 51 := by
    intro hm
    by_contra hc
    have h := hL 54 (by omega)
    have : (4 * m + 2) * T < 18014398509481984 * T := Nat.mul_lt_mul_of_pos_right (by omega) hTpos
    rw [p54] at h
    omega
  have b3 : 4503599627370496 ≤ m → e + 51 ≤ E := by
    intro hm
    by_contra hc
    have h := hU 53 (by omega)
    have : 9007199254740992 * T ≤ (4 * m - 2) * T := Nat.mul_le_mul_right _ (by omega)
    rw [p53] at h
    omega
  have b4 : 4503599627370496 < m → e + 52 ≤ E := by
    intro hm
    have := b3 (by omega)
    by_contra hc
    have h := hU 54 (by omega)
    have : 18014398509481984 * T ≤ (4 * m - 2) * T := Nat.mul_le_mul_right _ (by omega)
    rw [p54] at h
    omega
  -- rounding at the exponent of `m * 2^e` gives `m`
  have hround : ∀ sh : Int, sh = -e →
      roundCore (if sh ≥ 0 then num * 2 ^ sh.toNat else num) (if sh ≥ 0 then den else den * 2 ^ (-sh).toNat) = m := by
    intro sh hsh
    have k1 : (2 * m - 1) * den * 2 ^ (A + 2) = 2 * ((4 * m - 2) * T) := by
      have : 4 * m - 2 = 2 * (2 * m - 1) := by omega
      rw [this, ← hT, Nat.pow_add]; ring
    have k2 : (2 * m + 1) * den * 2 ^ (A + 2) = 2 * ((4 * m + 2) * T) := by
      rw [← hT, Nat.pow_add]; ring
    have k3 : 2 * num * 2 ^ B = 2 * N := by rw [← hN]; ring
    apply roundCore_sh num den m sh B (A + 2) (by push_cast; omega) hdpos hm1
    · rw [k1, k3]; omega
    · intro ho; rw [k1, k3]; have := hlo2' ho; omega
    · rw [k2, k3]; omega
    · intro ho; rw [k2, k3]; have := hhi' ho; omega
  simp only
  by_cases hE : E < -1022
  · -- subnormal branch of `roundRat`
    have he : e = -1074 := by
      by_cases hm : m < 4503599627370496
      · exact hsub hm
      · have := b3 (by omega); omega
    simp only [hE, if_true]
    rw [hround 1074 (by omega)]
    have : ¬ ((e + 1074).toNat * p52 + m ≥ 9218868437227405312) := by
      subst he; unfold p52; simp; omega
    subst he
    have h0 : ((-1074 : Int) + 1074).toNat = 0 := by decide
    rw [h0]
    simp only [Nat.zero_mul, Nat.zero_add]
    rw [if_neg (by omega)]
  · simp only [hE, if_false]
    have hm52 : 4503599627370496 ≤ m := by
      by_contra hc
      have := b2 (by omega)
      have := hsub (by omega)
      omega
    have b3' := b3 hm52
    rcases (by omega : E = e + 52 ∨ E = e + 51) with hEe | hEe
    · rw [hround (52 - E) (by omega)]
      have h1 : (E + 1022).toNat = (e + 1074).toNat := by congr 1; omega
      rw [h1]
      have hlt : ¬ ((e + 1074).toNat * p52 + m ≥ 9218868437227405312) := by
        have : (e + 1074).toNat ≤ 2045 := by omega
        unfold p52; omega
      rw [if_neg hlt]
    · -- just below a power of two: the significand rounds up to `2^53`
      have hm : m = 4503599627370496 := by
        by_contra hc
        have := b4 (by omega)
        omega
      have hbl' : bl = true := hbl.2 ⟨hm, by omega⟩
      subst hm
      simp only [hbl', if_true] at hlo
      have hu := hU 54 (by omega)
      rw [p54] at hu
      have hr : roundCore (if 52 - E ≥ 0 then num * 2 ^ (52 - E).toNat else num)
          (if 52 - E ≥ 0 then den else den * 2 ^ (-(52 - E)).toNat) = 9007199254740992 := by
        have k1 : (2 * 9007199254740992 - 1) * den * 2 ^ (A + 1) = 2 * ((4 * 4503599627370496 - 1) * T) := by
          rw [← hT, Nat.pow_add]; norm_num; ring
        have k2 : (2 * 9007199254740992 + 1) * den * 2 ^ (A + 1) = 2 * (18014398509481985 * T) := by
          rw [← hT, Nat.pow_add]; norm_num; ring
        have k3 : 2 * num * 2 ^ B = 2 * N := by rw [← hN]; ring
        apply roundCore_sh num den 9007199254740992 (52 - E) B (A + 1) (by push_cast; omega) hdpos (by decide)
        · rw [k1, k3]; omega
        · intro ho; omega
        · rw [k2, k3]; omega
        · intro ho; omega
      rw [hr]
      have h1 : (E + 1022).toNat + 1 = (e + 1074).toNat := by omega
      have hlt : ¬ ((E + 1022).toNat * p52 + 9007199254740992 ≥ 9218868437227405312) := by
        have : (e + 1074).toNat ≤ 2045 := by omega
        unfold p52; omega
      rw [if_neg hlt]
      have hfin : (E + 1022).toNat * p52 + 9007199254740992 = (e + 1074).toNat * p52 + 4503599627370496 := by
        rw [← h1]; unfold p52; omega
      rw [hfin]

end Refmt.FloatL
