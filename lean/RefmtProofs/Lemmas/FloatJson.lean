/-
  `FloatText.jsonFloat` of a finite bit pattern is a complete JSON number that `numTok` can type.
-/
import RefmtProofs.Lemmas.FloatTok
import RefmtProofs.Lemmas.JsonText
set_option linter.unusedSimpArgs false
set_option linter.unusedVariables false
namespace Refmt.FloatL
open Refmt Refmt.FloatText Refmt.JsonDec Refmt.C03L

/-- the `e-0X` clean-up of `jsonFloat` -/
def cleanup (b : Bytes) : Bytes :=
  let n := b.length
  if n ≥ 4 && b.getD (n - 4) 0 == 101 && b.getD (n - 3) 0 == 45 && b.getD (n - 2) 0 == 48 then
    b.take (n - 2) ++ [b.getD (n - 1) 0]
  else b

theorem jsonFloat_eq (bits : Nat) : jsonFloat bits =
    if (bits % 9223372036854775808 != 0 &&
        (decide ((shortest bits).2 < -5) || decide (bits % 9223372036854775808 ≥ 0x43e0000000000000))) = true then
      cleanup (fmtE (decide (bits ≥ 9223372036854775808)) (shortest bits).1 (shortest bits).2)
    else fmtF (decide (bits ≥ 9223372036854775808)) (shortest bits).1 (shortest bits).2 := rfl

theorem getD_mid (Q : List Nat) (x : Nat) (t : List Nat) : (Q ++ x :: t).getD Q.length 0 = x := by
  simp [List.getD_eq_getElem?_getD]

theorem two_last (l : List Nat) (h : 2 ≤ l.length) : ∃ l0 y z, l = l0 ++ [y, z] := by
  rcases List.eq_nil_or_concat l with rfl | ⟨l1, z, rfl⟩
  · simp at h
  · rcases List.eq_nil_or_concat l1 with rfl | ⟨l0, y, rfl⟩
    · simp at h
    · exact ⟨l0, y, z, by simp⟩

/-- the clean-up leaves the text alone or turns the exponent digits `0z` into `z` -/
theorem cleanup_shape (P : Bytes) (sg : Nat) (D : Bytes) (hD : Digs D) (hlen : 2 ≤ D.length) :
    cleanup (P ++ 101 :: sg :: D) = P ++ 101 :: sg :: D ∨
      (∃ z, D = [48, z] ∧ cleanup (P ++ 101 :: sg :: D) = P ++ 101 :: sg :: [z]) := by
  obtain ⟨D0, y, z, rfl⟩ := two_last D hlen
  unfold cleanup
  simp only
  split
  · rename_i hc
    right
    simp only [Bool.and_eq_true, beq_iff_eq, decide_eq_true_eq] at hc
    obtain ⟨⟨⟨_, _⟩, h3⟩, h2⟩ := hc
    have e1 : P ++ 101 :: sg :: (D0 ++ [y, z]) = (P ++ 101 :: sg :: D0) ++ y :: [z] := by simp
    have hn : (P ++ 101 :: sg :: (D0 ++ [y, z])).length = (P ++ 101 :: sg :: D0).length + 2 := by
      simp only [List.length_append, List.length_cons, List.length_nil]; omega
    have hy : y = 48 := by
      rw [hn, Nat.add_sub_cancel, e1, getD_mid] at h2; exact h2
    have hz : (P ++ 101 :: sg :: (D0 ++ [y, z])).getD ((P ++ 101 :: sg :: (D0 ++ [y, z])).length - 1) 0 = z := by
      have e2 : P ++ 101 :: sg :: (D0 ++ [y, z]) = (P ++ 101 :: sg :: D0 ++ [y]) ++ z :: [] := by simp
      have hn2 : (P ++ 101 :: sg :: (D0 ++ [y, z])).length - 1 = (P ++ 101 :: sg :: D0 ++ [y]).length := by
        simp only [List.length_append, List.length_cons, List.length_nil]; omega
      rw [hn2, e2, getD_mid]
    rcases List.eq_nil_or_concat D0 with rfl | ⟨D1, w, rfl⟩
    · refine ⟨z, by simp [hy], ?_⟩
      rw [hz, hn, Nat.add_sub_cancel, e1, List.take_left']
      · simp
      · rfl
    · exfalso
      have e3 : P ++ 101 :: sg :: (D1.concat w ++ [y, z]) = (P ++ 101 :: sg :: D1) ++ w :: [y, z] := by simp
      have hn3 : (P ++ 101 :: sg :: (D1.concat w ++ [y, z])).length - 3 = (P ++ 101 :: sg :: D1).length := by
        simp only [List.length_append, List.length_cons, List.length_nil, List.length_concat]; omega
      rw [hn3, e3, getD_mid] at h3
      have := isDigit_iff.1 (hD w (by simp))
      omega
  · left; rfl

end Refmt.FloatL

namespace Refmt.FloatL
open Refmt Refmt.FloatText Refmt.JsonDec Refmt.C03L

/-- `digitsVal ds * 10^(dp - |ds|) < X`, in the sign-free form -/
def ValLt (ds : Bytes) (dp : Int) (X : Nat) : Prop :=
  ∀ a b : Nat, (a : Int) - b = dp - (ds.length : Int) → digitsVal ds * 10 ^ a < X * 10 ^ b

/-- the text is a complete number for the scanner and `numTok` types it -/
def TextOk (t : Bytes) : Prop := numberOk t = true ∧ ∃ b, numTok t = .ok b

theorem digitsVal_cons0 (l : Bytes) : digitsVal (48 :: l) = digitsVal l := by
  have := digitsVal_zeros_left 1 l
  simpa using this

/-- the `%e` text, with any exponent digit string of the right value -/
theorem eText_ok (neg : Bool) (f : Nat) (r : Bytes) (sg : Nat) (D : Bytes) (dp : Int)
    (hd : Digs (f :: r)) (hD : Digs D) (hne : D ≠ [])
    (hsg : (sg = 43 ∧ (digitsVal D : Int) = dp - 1) ∨ (sg = 45 ∧ -(digitsVal D : Int) = dp - 1))
    (hv : ValLt (f :: r) dp BND) :
    TextOk (((if neg then [45] else []) ++ [f] ++ (if r.isEmpty then [] else 46 :: r)) ++ 101 :: sg :: D) := by
  constructor
  · have := numberOk_eShape neg f r sg D hd.head hd.tail (by rcases hsg with ⟨h, _⟩ | ⟨h, _⟩ <;> simp [h]) hD hne
    simpa using this
  · have e1 : ((if neg then [45] else []) ++ [f] ++ (if r.isEmpty then [] else 46 :: r)) ++ 101 :: sg :: D =
        (if neg then [45] else []) ++ f :: ((if r.isEmpty then [] else 46 :: r) ++ 101 :: sg :: D) := by simp
    rw [e1, numTok_signed neg f _ hd.head]
    have e2 : f :: ((if r.isEmpty then [] else 46 :: r) ++ 101 :: sg :: D) =
        [f] ++ (if r.isEmpty then [] else 46 :: r) ++ 101 :: sg :: D := by simp
    rw [e2]
    refine numTokCore_float neg [f] r _ _ (dp - 1) (Digs.cons hd.head Digs.nil) ?_ ?_ (Or.inr (by simp)) ?_
    · cases r with
      | nil => left; simp
      | cons x xs => right; exact ⟨by simp, hd.tail⟩
    · rcases hsg with ⟨rfl, h⟩ | ⟨rfl, h⟩
      · right; left; exact ⟨D, rfl, hD, h.symm⟩
      · right; right; exact ⟨D, rfl, hD, h.symm⟩
    · apply parseDecimal_noovf
      intro a b hab
      have : [f] ++ r = f :: r := rfl
      rw [this]
      exact hv a b (by simp only [List.length_cons]; omega)

theorem natDigits_len2 (n : Nat) (h : ¬ n < 10) : 2 ≤ (natDigits n).length := by
  rw [natDigits_ge n h]
  obtain ⟨b, r, e, _, _⟩ := natDigits_form (n / 10)
  rw [e]; simp

theorem fmtE_ok (neg : Bool) (f : Nat) (r : Bytes) (dp : Int) (hd : Digs (f :: r)) (hv : ValLt (f :: r) dp BND) :
    TextOk (cleanup (fmtE neg (f :: r) dp)) := by
  have hfm : fmtE neg (f :: r) dp =
      ((if neg then [45] else []) ++ [f] ++ (if r.isEmpty then [] else 46 :: r)) ++
        101 :: (if dp - 1 < 0 then 45 else 43) ::
          (if (dp - 1).natAbs < 10 then 48 :: natDigits (dp - 1).natAbs else natDigits (dp - 1).natAbs) := by
    simp [fmtE]
  rw [hfm]
  generalize hD : (if (dp - 1).natAbs < 10 then 48 :: natDigits (dp - 1).natAbs else natDigits (dp - 1).natAbs) = D
  have hDd : Digs D := by
    rw [← hD]; split
    · exact Digs.cons (by decide) (Digs.nat _)
    · exact Digs.nat _
  have hDl : 2 ≤ D.length := by
    rw [← hD]; split
    · rename_i h; rw [natDigits_lt _ h]; simp
    · rename_i h; exact natDigits_len2 _ h
  have hDv : digitsVal D = (dp - 1).natAbs := by
    rw [← hD]; split
    · rw [digitsVal_cons0, digitsVal_natDigits]
    · rw [digitsVal_natDigits]
  have hsg : ∀ D' : Bytes, digitsVal D' = (dp - 1).natAbs →
      ((if dp - 1 < 0 then 45 else 43) = 43 ∧ (digitsVal D' : Int) = dp - 1) ∨
      ((if dp - 1 < 0 then 45 else 43) = 45 ∧ -(digitsVal D' : Int) = dp - 1) := by
    intro D' h
    by_cases hneg : dp - 1 < 0
    · right; simp only [hneg, if_true, true_and]; rw [h]; omega
    · left; simp only [hneg, if_false, true_and]; rw [h]; omega
  rcases cleanup_shape ((if neg then [45] else []) ++ [f] ++ (if r.isEmpty then [] else 46 :: r))
    (if dp - 1 < 0 then 45 else 43) D hDd hDl with h | ⟨z, hz, h⟩
  · rw [h]
    exact eText_ok neg f r _ D dp hd hDd (by intro h0; rw [h0] at hDl; simp at hDl) (hsg D hDv) hv
  · rw [h]
    have hz' : Digs [z] := by
      rw [hz] at hDd; exact hDd.tail
    have hzv : digitsVal [z] = (dp - 1).natAbs := by
      rw [← hDv, hz, digitsVal_cons0]
    exact eText_ok neg f r _ [z] dp hd hz' (by simp) (hsg [z] hzv) hv

end Refmt.FloatL

namespace Refmt.FloatL
open Refmt Refmt.FloatText Refmt.JsonDec Refmt.C03L

theorem LeadOk.ne_nil {ds : Bytes} {dp : Int} (h : LeadOk ds dp) : ds ≠ [] := by
  rcases h with ⟨rfl, _⟩ | ⟨b, r, rfl, _⟩ <;> simp

theorem fmtF_ok (neg : Bool) (ds : Bytes) (dp : Int) (hd : Digs ds) (hl : LeadOk ds dp)
    (hv : ValLt ds dp BND) (hv2 : ValLt ds dp two63) : TextOk (fmtF neg ds dp) := by
  unfold fmtF
  simp only
  by_cases h1 : dp ≤ 0
  · -- 0.000ddd
    rw [if_pos h1]
    constructor
    · exact numberOk_fracShape neg _ ds hd hl.ne_nil
    · have e1 : (if neg then [45] else []) ++ [48, 46] ++ List.replicate (-dp).toNat 48 ++ ds =
          (if neg then [45] else []) ++ 48 :: (46 :: (List.replicate (-dp).toNat 48 ++ ds)) := by simp
      rw [e1, numTok_signed neg 48 _ (by decide)]
      have e2 : 48 :: (46 :: (List.replicate (-dp).toNat 48 ++ ds)) =
          [48] ++ (46 :: (List.replicate (-dp).toNat 48 ++ ds)) ++ [] := by simp
      rw [e2]
      refine numTokCore_float neg [48] (List.replicate (-dp).toNat 48 ++ ds) _ _ 0 (by intro x hx; simp at hx; subst hx; decide)
        (Or.inr ⟨rfl, (Digs.zeros _).append hd⟩) (Or.inl ⟨rfl, rfl⟩) (Or.inl (by simp)) ?_
      apply parseDecimal_noovf
      intro a b hab
      have : digitsVal ([48] ++ (List.replicate (-dp).toNat 48 ++ ds)) = digitsVal ds := by
        rw [List.singleton_append, digitsVal_cons0, digitsVal_zeros_left]
      rw [this]
      exact hv a b (by simp only [List.length_append, List.length_replicate] at hab; omega)
  · rw [if_neg h1]
    by_cases h2 : dp.toNat ≥ ds.length
    · -- ddd000 : an integer text below 2^63
      rw [if_pos h2]
      obtain ⟨f, r, rfl⟩ : ∃ f r, ds = f :: r := by
        cases ds with
        | nil => exact absurd rfl hl.ne_nil
        | cons f r => exact ⟨f, r, rfl⟩
      have e1 : (if neg then [45] else []) ++ f :: r ++ List.replicate (dp.toNat - (f :: r).length) 48 =
          (if neg then [45] else []) ++ f :: (r ++ List.replicate (dp.toNat - (f :: r).length) 48) := by simp
      rw [e1]
      constructor
      · rcases hl with ⟨h, hdp⟩ | ⟨b, r', h, hb⟩
        · simp only [List.cons.injEq] at h
          obtain ⟨rfl, rfl⟩ := h
          subst hdp
          simpa using numberOk_zero neg
        · simp only [List.cons.injEq] at h
          obtain ⟨rfl, rfl⟩ := h
          exact numberOk_intShape neg f _ hb (hd.tail.append (Digs.zeros _))
      · rw [numTok_signed neg f _ hd.head]
        apply numTokCore_int
        · exact Digs.cons hd.head (hd.tail.append (Digs.zeros _))
        · have : f :: (r ++ List.replicate (dp.toNat - (f :: r).length) 48) =
              (f :: r) ++ List.replicate (dp.toNat - (f :: r).length) 48 := by simp
          rw [this, digitsVal_zeros]
          have := hv2 (dp.toNat - (f :: r).length) 0 (by omega)
          simpa using this
    · -- ddd.ddd
      rw [if_neg h2]
      rcases hl with ⟨h, hdp⟩ | ⟨b, r, rfl, hb⟩
      · subst h; subst hdp; simp at h2
      · have hpos : 0 < dp.toNat := by omega
        have htake : (b :: r).take dp.toNat = b :: r.take (dp.toNat - 1) := by
          obtain ⟨n, hn⟩ : ∃ n, dp.toNat = n + 1 := ⟨dp.toNat - 1, by omega⟩
          rw [hn]; simp
        have hdrop_ne : (b :: r).drop dp.toNat ≠ [] := by
          intro h0
          have := List.drop_eq_nil_iff.1 h0
          omega
        constructor
        · rw [htake]
          exact numberOk_pointShape neg b _ _ hb (hd.tail.take _) (hd.drop _) hdrop_ne
        · have e1 : (if neg then [45] else []) ++ (b :: r).take dp.toNat ++ [46] ++ (b :: r).drop dp.toNat =
              (if neg then [45] else []) ++ b :: (r.take (dp.toNat - 1) ++ 46 :: (b :: r).drop dp.toNat) := by
            rw [htake]; simp
          rw [e1, numTok_signed neg b _ hd.head]
          have e2 : b :: (r.take (dp.toNat - 1) ++ 46 :: (b :: r).drop dp.toNat) =
              (b :: r).take dp.toNat ++ (46 :: (b :: r).drop dp.toNat) ++ [] := by
            rw [htake]; simp
          rw [e2]
          refine numTokCore_float neg _ ((b :: r).drop dp.toNat) _ _ 0 (hd.take _)
            (Or.inr ⟨rfl, hd.drop _⟩) (Or.inl ⟨rfl, rfl⟩) (Or.inl (by simp)) ?_
          apply parseDecimal_noovf
          intro a c hab
          rw [List.take_append_drop]
          exact hv a c (by simp only [List.length_drop] at hab; omega)

end Refmt.FloatL

namespace Refmt.FloatL
open Refmt Refmt.FloatText Refmt.JsonDec Refmt.C03L

theorem KHI_twice (t : Nat) : KHI * t = 18014398509481983 * (t * 2) := by
  unfold KHI; omega

theorem KHI_BND : KHI * 2 ^ 969 = BND := by
  have h : (2:Nat) ^ 970 = 2 ^ 969 * 2 := by rw [Nat.pow_succ]
  have h2 : BND = 18014398509481983 * (2 ^ 969 * 2) := congrArg (fun z => 18014398509481983 * z) h
  exact Eq.trans (KHI_twice _) h2.symm

theorem KHI_two63 : KHI * 2 ^ 8 < two63 := by unfold KHI two63; norm_num

/-- The text written for a finite float is a complete JSON number and `numTok` types it. -/
theorem jsonFloat_ok (x : Nat) (hfin : floatNonFinite x = false) : TextOk (jsonFloat x) := by
  have hfin' : ((x % 9223372036854775808) / p52) % 2048 ≠ 2047 := by
    unfold floatNonFinite at hfin
    simp only [beq_eq_false_iff_ne, ne_eq] at hfin
    unfold p52
    omega
  obtain ⟨hd, hl, hv, hv2⟩ := shortest_sem x hfin'
  rw [KHI_BND] at hv
  rw [jsonFloat_eq]
  generalize (shortest x).1 = ds at *
  generalize (shortest x).2 = dp at *
  split
  · obtain ⟨f, r, rfl⟩ : ∃ f r, ds = f :: r := by
      cases ds with
      | nil => exact absurd rfl hl.ne_nil
      | cons f r => exact ⟨f, r, rfl⟩
    exact fmtE_ok _ f r dp hd hv
  · rename_i hu
    have hex : x % 9223372036854775808 / p52 ≤ 1085 := by
      unfold p52
      simp only [Bool.and_eq_true, bne_iff_ne, ne_eq, Bool.or_eq_true, decide_eq_true_eq, not_and, not_or] at hu
      by_cases h0 : x % 9223372036854775808 = 0
      · rw [h0]; decide
      · have := (hu h0).2
        omega
    have hv2' : ValLt ds dp two63 := by
      intro a b hab
      have h1 := hv2 hex a b hab
      have h2 : KHI * 2 ^ 8 * 10 ^ b ≤ two63 * 10 ^ b := Nat.mul_le_mul_right _ (Nat.le_of_lt KHI_two63)
      exact Nat.lt_of_lt_of_le h1 h2
    exact fmtF_ok _ ds dp hd hl hv hv2'

/-- `floatOk` holds for every finite bit pattern -/
theorem floatOk_finite (x : Nat) (hfin : floatNonFinite x = false) : floatOk x = true := by
  obtain ⟨h1, b, h2⟩ := jsonFloat_ok x hfin
  unfold floatOk
  rw [h1, h2]
  rfl

end Refmt.FloatL
