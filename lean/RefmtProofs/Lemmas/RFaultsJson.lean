/-
  Read faults (C16), JSON decoder: every function of the decoder model either reports the injected
  error or commutes with `inj M stop`.
-/
import RefmtModel
import RefmtProofs.Lemmas.RFaults
set_option linter.unusedSimpArgs false
set_option linter.unusedVariables false
namespace Refmt.C16R.Json
open Refmt Refmt.JsonDec Refmt.C16R

variable {M : Nat} {stop : Bool}

theorem skipWs_sim : ∀ (fuel : Nat) (b : Rd), Ok M b →
    DichP M stop (skipWs fuel (inj M stop b)) (skipWs fuel b)
  | 0, b, h => Or.inr ⟨h, rfl⟩
  | fuel+1, b, h => by
    unfold skipWs
    rcases read1_sim (stop := stop) b h with ⟨r', hi⟩ | ⟨x, b1, hb, hib, hok⟩
    · rw [hi]; exact Or.inl ⟨_, rfl⟩
    · rw [hb, hib]
      dsimp only
      split
      · exact skipWs_sim fuel b1 hok
      · exact Or.inr ⟨⟨hok, hok⟩, rfl⟩

theorem scanString_sim : ∀ (fuel : Nat) (st : SS) (b : Rd) (acc : Bytes), Ok M b →
    DichP M stop (scanString fuel st (inj M stop b) acc) (scanString fuel st b acc)
  | 0, st, b, acc, h => Or.inr ⟨h, rfl⟩
  | fuel+1, st, b, acc, h => by
    unfold scanString
    rcases read1_sim (stop := stop) b h with ⟨r', hi⟩ | ⟨x, b1, hb, hib, hok⟩
    · rw [hi]; exact Or.inl ⟨_, rfl⟩
    · rw [hb, hib]
      dsimp only
      cases strStep st x with
      | error _ => exact Or.inr ⟨hok, rfl⟩
      | ok o =>
        cases o with
        | none => exact Or.inr ⟨⟨hok, hok⟩, rfl⟩
        | some st' => exact scanString_sim fuel st' b1 _ hok

theorem scanNumber_sim : ∀ (fuel : Nat) (st : NS) (b : Rd) (acc : Bytes), Ok M b →
    DichP M stop (scanNumber fuel st (inj M stop b) acc) (scanNumber fuel st b acc)
  | 0, st, b, acc, h => Or.inr ⟨h, rfl⟩
  | fuel+1, st, b, acc, h => by
    unfold scanNumber
    rcases read1_sim (stop := stop) b h with ⟨r', hi⟩ | ⟨x, b1, hb, hib, hok⟩
    · rw [hi]; exact Or.inl ⟨_, rfl⟩
    · rw [hb, hib]
      dsimp only
      cases numStep st x with
      | error _ => exact Or.inr ⟨hok, rfl⟩
      | ok o =>
        cases o with
        | none =>
          obtain ⟨e, hok2⟩ := unread1_inj (stop := stop) b1 x hok
          dsimp only
          rw [e]
          exact Or.inr ⟨⟨hok2, hok2⟩, rfl⟩
        | some st' => exact scanNumber_sim fuel st' b1 _ hok

theorem decString_sim (b : Rd) (h : Ok M b) :
    DichP M stop (decString (inj M stop b)) (decString b) := by
  unfold decString
  simp only [inj_data]
  rcases scanString_sim (stop := stop) (b.data.length + 1) .normal b [] h with ⟨r', hi⟩ | ⟨hokp, heq⟩
  · rw [hi]; exact Or.inl ⟨_, rfl⟩
  · rw [heq]
    generalize scanString (b.data.length + 1) .normal b [] = p at hokp ⊢
    obtain ⟨res, r'⟩ := p
    cases res with
    | error e => exact Or.inr ⟨hokp, rfl⟩
    | ok q =>
      obtain ⟨raw, rd1⟩ := q
      exact Or.inr ⟨⟨hokp.1, hokp.1⟩, rfl⟩

theorem decNumber_sim (b : Rd) (b0 : Nat) (h : Ok M b) :
    DichP M stop (decNumber (inj M stop b) b0) (decNumber b b0) := by
  unfold decNumber
  simp only [inj_data]
  generalize (if b0 == 45 then NS.neg else if b0 == 48 then NS.s0 else NS.s1) = st
  rcases scanNumber_sim (stop := stop) (b.data.length + 2) st b [b0] h with ⟨r', hi⟩ | ⟨hokp, heq⟩
  · rw [hi]; exact Or.inl ⟨_, rfl⟩
  · rw [heq]
    generalize scanNumber (b.data.length + 2) st b [b0] = p at hokp ⊢
    obtain ⟨res, r'⟩ := p
    cases res with
    | error e => exact Or.inr ⟨hokp, rfl⟩
    | ok q =>
      obtain ⟨text, rd1⟩ := q
      simp only [mapP]
      cases numTok text with
      | error e => exact Or.inr ⟨hokp.1, rfl⟩
      | ok body => exact Or.inr ⟨⟨hokp.1, hokp.1⟩, rfl⟩

def DichO (M : Nat) (stop : Bool) (x y : Out) : Prop :=
  x.ret = .err .injected ∨ (Ok M y.rd ∧ x = { y with rd := inj M stop y.rd })

theorem DichO_ite (c : Prop) [Decidable c] {x1 x2 y1 y2 : Out}
    (h1 : c → DichO M stop x1 y1) (h2 : ¬ c → DichO M stop x2 y2) :
    DichO M stop (if c then x1 else x2) (if c then y1 else y2) := by
  split
  · exact h1 ‹_›
  · exact h2 ‹_›

theorem literal_sim (s : St) (b : Rd) (rest : Bytes) (body : Body) (h : Ok M b) :
    DichO M stop (literal s (inj M stop b) rest body) (literal s b rest body) := by
  unfold literal
  rcases readN_sim (stop := stop) b rest.length h with ⟨r', hi⟩ | ⟨res, b1, hb, hib, hok⟩
  · rw [hi]; exact Or.inl rfl
  · rw [hb, hib]
    cases res with
    | error e => cases e <;> exact Or.inr ⟨hok, rfl⟩
    | ok bs =>
      dsimp only
      split <;> exact Or.inr ⟨hok, rfl⟩

theorem acceptValue_sim (s : St) (b : Rd) (mb : Nat) (h : Ok M b) :
    DichO M stop (acceptValue s (inj M stop b) mb) (acceptValue s b mb) := by
  unfold acceptValue
  refine DichO_ite _ (fun _ => ?_) (fun _ => ?_)
  · exact Or.inr ⟨h, rfl⟩
  refine DichO_ite _ (fun _ => ?_) (fun _ => ?_)
  · exact Or.inr ⟨h, rfl⟩
  refine DichO_ite _ (fun _ => ?_) (fun _ => ?_)
  · exact literal_sim _ _ _ _ h
  refine DichO_ite _ (fun _ => ?_) (fun _ => ?_)
  · rcases decString_sim (stop := stop) b h with ⟨r', hi⟩ | ⟨hokp, heq⟩
    · rw [hi]; exact Or.inl rfl
    · rw [heq]
      generalize decString b = p at hokp ⊢
      obtain ⟨res, r'⟩ := p
      cases res with
      | error e => exact Or.inr ⟨hokp, rfl⟩
      | ok q =>
        obtain ⟨str, rd1⟩ := q
        exact Or.inr ⟨hokp.1, rfl⟩
  refine DichO_ite _ (fun _ => ?_) (fun _ => ?_)
  · exact literal_sim _ _ _ _ h
  refine DichO_ite _ (fun _ => ?_) (fun _ => ?_)
  · exact literal_sim _ _ _ _ h
  refine DichO_ite _ (fun _ => ?_) (fun _ => ?_)
  · rcases decNumber_sim (stop := stop) b mb h with ⟨r', hi⟩ | ⟨hokp, heq⟩
    · rw [hi]; exact Or.inl rfl
    · rw [heq]
      generalize decNumber b mb = p at hokp ⊢
      obtain ⟨res, r'⟩ := p
      cases res with
      | error e => exact Or.inr ⟨hokp, rfl⟩
      | ok q =>
        obtain ⟨body, rd1⟩ := q
        exact Or.inr ⟨hokp.1, rfl⟩
  · exact Or.inr ⟨h, rfl⟩

theorem inContainer_sim {x y : Out} (hd : DichO M stop x y) :
    DichO M stop (inContainer x) (inContainer y) := by
  unfold inContainer
  rcases hd with hi | ⟨hok, heq⟩
  · rw [hi]; exact Or.inl hi
  · rw [heq]
    obtain ⟨st, rd, ret⟩ := y
    cases ret <;> exact Or.inr ⟨hok, rfl⟩

theorem arrEntry_sim (s : St) (b : Rd) (mb : Nat) (h : Ok M b) :
    DichO M stop (arrEntry s (inj M stop b) mb) (arrEntry s b mb) := by
  unfold arrEntry
  refine DichO_ite _ (fun _ => ?_) (fun _ => ?_)
  · exact Or.inr ⟨h, rfl⟩
  · exact inContainer_sim (acceptValue_sim _ _ _ h)

theorem mapEntry_sim (s : St) (b : Rd) (mb : Nat) (h : Ok M b) :
    DichO M stop (mapEntry s (inj M stop b) mb) (mapEntry s b mb) := by
  unfold mapEntry
  refine DichO_ite _ (fun _ => ?_) (fun _ => ?_)
  · exact Or.inr ⟨h, rfl⟩
  refine DichO_ite _ (fun _ => ?_) (fun _ => ?_)
  · exact Or.inr ⟨h, rfl⟩
  rcases decString_sim (stop := stop) b h with ⟨r', hi⟩ | ⟨hokp, heq⟩
  · rw [hi]; exact Or.inl rfl
  · rw [heq]
    generalize decString b = p at hokp ⊢
    obtain ⟨res, r'⟩ := p
    cases res with
    | error e => exact Or.inr ⟨hokp, rfl⟩
    | ok q =>
      obtain ⟨key, rd1⟩ := q
      simp only [mapP, inj_data]
      rcases skipWs_sim (stop := stop) (rd1.data.length + 1) rd1 hokp.1 with ⟨r', hi⟩ | ⟨hokp2, heq2⟩
      · rw [hi]; exact Or.inl rfl
      · rw [heq2]
        generalize skipWs (rd1.data.length + 1) rd1 = p2 at hokp2 ⊢
        obtain ⟨res2, r2⟩ := p2
        cases res2 with
        | error e => exact Or.inr ⟨hokp2, rfl⟩
        | ok q2 =>
          obtain ⟨c, rd2⟩ := q2
          simp only [mapP]
          split <;> exact Or.inr ⟨hokp2.1, rfl⟩

theorem afterSome_sim (s : St) (b : Rd) (mb close : Nat) (closeTok : Body) (entry : St → Rd → Nat → Out)
    (he : ∀ s b mb, Ok M b → DichO M stop (entry s (inj M stop b) mb) (entry s b mb)) (h : Ok M b) :
    DichO M stop (afterSome s (inj M stop b) mb close closeTok entry) (afterSome s b mb close closeTok entry) := by
  unfold afterSome
  refine DichO_ite _ (fun _ => ?_) (fun _ => ?_)
  · refine DichO_ite _ (fun _ => ?_) (fun _ => ?_)
    · exact Or.inr ⟨h, rfl⟩
    refine DichO_ite _ (fun _ => ?_) (fun _ => ?_)
    · simp only [inj_data]
      rcases skipWs_sim (stop := stop) (b.data.length + 1) b h with ⟨r', hi⟩ | ⟨hokp2, heq2⟩
      · rw [hi]; exact Or.inl rfl
      · rw [heq2]
        generalize skipWs (b.data.length + 1) b = p2 at hokp2 ⊢
        obtain ⟨res2, r2⟩ := p2
        cases res2 with
        | error e => exact Or.inr ⟨hokp2, rfl⟩
        | ok q2 =>
          obtain ⟨c, rd2⟩ := q2
          exact he s rd2 c hokp2.1
    · exact Or.inr ⟨h, rfl⟩
  · exact he s b mb h

theorem subStep_sim (s : St) (b : Rd) (h : Ok M b) :
    DichO M stop (subStep s (inj M stop b)) (subStep s b) := by
  unfold subStep
  simp only [inj_data]
  rcases skipWs_sim (stop := stop) (b.data.length + 1) b h with ⟨r', hi⟩ | ⟨hokp2, heq2⟩
  · rw [hi]; exact Or.inl rfl
  · rw [heq2]
    generalize skipWs (b.data.length + 1) b = p2 at hokp2 ⊢
    obtain ⟨res2, r2⟩ := p2
    cases res2 with
    | error e => exact Or.inr ⟨hokp2, rfl⟩
    | ok q2 =>
      obtain ⟨mb, rd1⟩ := q2
      simp only [mapP]
      cases s.frame.k with
      | value => exact acceptValue_sim _ _ _ hokp2.1
      | arr => exact afterSome_sim _ _ _ _ _ _ arrEntry_sim hokp2.1
      | mapKey => exact afterSome_sim _ _ _ _ _ _ mapEntry_sim hokp2.1
      | mapVal => exact inContainer_sim (acceptValue_sim _ _ _ hokp2.1)

theorem step_sim (s : St) (b : Rd) (h : Ok M b) :
    DichO M stop (step s (inj M stop b)) (step s b) := by
  unfold step
  rcases subStep_sim (stop := stop) s b h with hi | ⟨hok, heq⟩
  · left
    simp only [hi]
  · rw [heq]
    generalize subStep s b = o at hok ⊢
    obtain ⟨st, rd, ret⟩ := o
    cases ret with
    | err e => exact Or.inr ⟨hok, rfl⟩
    | tok t d =>
      cases d
      · exact Or.inr ⟨hok, rfl⟩
      · dsimp only
        split <;> exact Or.inr ⟨hok, rfl⟩

theorem run_sim : ∀ (fuel : Nat) (s : St) (b : Rd) (acc : List Tok) (steps : Nat),
    Ok M b → (run fuel s b acc steps).res = .ok () →
    (run fuel s b acc steps).rd.data.length < M →
    (run fuel s (inj M stop b) acc steps).res = .error .injected
  | 0, s, b, acc, steps, h, hres, _ => by simp [run] at hres
  | fuel+1, s, b, acc, steps, h, hres, hlen => by
    unfold run at hres hlen ⊢
    rcases step_sim (stop := stop) s b h with hi | ⟨hok, heq⟩
    · simp only [hi]
    · rw [heq]
      generalize step s b = o at hok hres hlen ⊢
      obtain ⟨st, rd, ret⟩ := o
      cases ret with
      | err e => simp at hres
      | tok t d =>
        cases d
        · exact run_sim fuel st rd _ _ hok hres hlen
        · simp only [Ok] at hok
          simp only at hlen
          omega

theorem decode_sim (bs : Bytes) (k : Nat) (stop : Bool)
    (h0 : (decode (Rd.ofBytes bs)).res = .ok ())
    (hk : k < bs.length - (decode (Rd.ofBytes bs)).rd.data.length) :
    (decode ⟨bs, some (k, stop), 0⟩).res = .error .injected := by
  have e : (⟨bs, some (k, stop), 0⟩ : Rd) = inj (bs.length - k) stop (Rd.ofBytes bs) := by
    simp only [inj, Rd.ofBytes, Rd.mk.injEq, true_and, and_true, Option.some.injEq, Prod.mk.injEq]
    omega
  rw [e]
  unfold decode at h0 hk ⊢
  simp only [inj_data] at h0 hk ⊢
  exact run_sim _ _ _ _ _ ⟨rfl, by simp [Rd.ofBytes]⟩ h0 (by omega)

end Refmt.C16R.Json
