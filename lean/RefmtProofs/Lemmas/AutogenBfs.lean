/-
  A functional reading of one BFS level (`scanLevel`) of the struct-mapping autogeneration model:
  per struct field, the emitted entry (`fieldOut`) and the embedded struct queued for the next
  level (`childOut`); the queue/count update (`enq`); and the per-node step (`outerStep`).
-/
import RefmtModel
import RefmtProofs.Lemmas.Autogen
set_option linter.unusedSimpArgs false
set_option linter.unusedVariables false
namespace Refmt.Autogen
open Refmt Refmt.Obj

abbrev Node := List Nat × Nat

/-- the entry a struct field contributes directly (at most one) -/
def fieldOut (ts : Types) (u : UTab) (froute : List Nat) (p : FieldDesc × Nat) : List AField :=
  let sf := p.1
  let i := p.2
  let skip := if sf.embedded then (!sf.exported && !kindIsStruct ts (derefOnce ts sf.ty)) else !sf.exported
  if skip then [] else
  let tag := sf.tag.getD []
  if tag == [45] then [] else
  let nm := if isValidTag u (parseTag tag).1 then (parseTag tag).1 else []
  let ft := derefOnce ts sf.ty
  if !nm.isEmpty || !sf.embedded || !kindIsStruct ts ft then
    if !sf.exported then [] else
    [⟨if nm.isEmpty then downcaseFirst u sf.name else nm, froute ++ [i], sf.ty, !nm.isEmpty,
      optContains (parseTag tag).2 [111, 109, 105, 116, 101, 109, 112, 116, 121]⟩]
  else []

/-- the embedded struct a field sends to the next level (at most one) -/
def childOut (ts : Types) (u : UTab) (froute : List Nat) (p : FieldDesc × Nat) : List Node :=
  let sf := p.1
  let i := p.2
  let skip := if sf.embedded then (!sf.exported && !kindIsStruct ts (derefOnce ts sf.ty)) else !sf.exported
  if skip then [] else
  let tag := sf.tag.getD []
  if tag == [45] then [] else
  let nm := if isValidTag u (parseTag tag).1 then (parseTag tag).1 else []
  let ft := derefOnce ts sf.ty
  if !nm.isEmpty || !sf.embedded || !kindIsStruct ts ft then []
  else [(froute ++ [i], ft)]

/-- queue a node for the next level unless its type is already queued; count it (`d`: the parent type was
    itself reached more than once, so the count saturates at 2) -/
def enq (d : Bool) (q : List Node × List (Nat × Nat)) (c : Node) : List Node × List (Nat × Nat) :=
  (if (q.2.lookup c.2).getD 0 == 0 then q.1 ++ [c] else q.1,
   (c.2, if d then 2 else (q.2.lookup c.2).getD 0 + 1) :: q.2.filter (·.1 != c.2))

def dupl (d : Bool) (l : List AField) : List AField := if d then l.flatMap (fun x => [x, x]) else l

theorem dupl_nil (d : Bool) : dupl d [] = [] := by cases d <;> rfl

theorem dupl_append (d : Bool) (a b : List AField) : dupl d (a ++ b) = dupl d a ++ dupl d b := by
  cases d <;> simp [dupl]

theorem mem_dupl (d : Bool) (l : List AField) (x : AField) : x ∈ dupl d l ↔ x ∈ l := by
  cases d
  · simp [dupl]
  · simp only [dupl, if_true, List.mem_flatMap]
    constructor
    · rintro ⟨a, ha, hx⟩
      simp at hx
      rw [hx]; exact ha
    · intro h; exact ⟨x, h, by simp⟩

def fieldsOf (ts : Types) (u : UTab) (n : Node) : List AField :=
  match ts.get n.2 with
  | .struct fds => fds.zipIdx.flatMap (fieldOut ts u n.1)
  | _ => []

def childrenOf (ts : Types) (u : UTab) (n : Node) : List Node :=
  match ts.get n.2 with
  | .struct fds => fds.zipIdx.flatMap (childOut ts u n.1)
  | _ => []

abbrev BState := List AField × List Node × List (Nat × Nat) × List Nat

def outerStep (ts : Types) (u : UTab) (count : List (Nat × Nat)) (acc : BState) (c : Node) : BState :=
  if acc.2.2.2.contains c.2 then acc else
  (acc.1 ++ dupl (decide ((count.lookup c.2).getD 0 > 1)) (fieldsOf ts u c),
   (List.foldl (enq (decide ((count.lookup c.2).getD 0 > 1))) (acc.2.1, acc.2.2.1) (childrenOf ts u c)).1,
   (List.foldl (enq (decide ((count.lookup c.2).getD 0 > 1))) (acc.2.1, acc.2.2.1) (childrenOf ts u c)).2,
   c.2 :: acc.2.2.2)

/-- the inner fold of `scanLevel` over the fields of one struct -/
theorem inner_fold (ts : Types) (u : UTab) (count : List (Nat × Nat)) (froute : List Nat) (fty : Nat) :
    ∀ (l : List (FieldDesc × Nat)) (fields : List AField) (next : List Node) (nextCount : List (Nat × Nat)) (vis : List Nat),
    l.foldl (fun (acc2 : List AField × List (List Nat × Nat) × List (Nat × Nat) × List Nat) (p : FieldDesc × Nat) =>
        let (fields, next, nextCount, vis) := acc2
        let (sf, i) := p
        let skip :=
          if sf.embedded then (!sf.exported && !kindIsStruct ts (derefOnce ts sf.ty)) else !sf.exported
        if skip then acc2 else
        let tag := sf.tag.getD []
        if tag == [45] then acc2 else
        let (nm0, opts) := parseTag tag
        let nm := if isValidTag u nm0 then nm0 else []
        let route := froute ++ [i]
        let ft := derefOnce ts sf.ty
        if !nm.isEmpty || !sf.embedded || !kindIsStruct ts ft then
          if !sf.exported then acc2 else
          let fld : AField := ⟨if nm.isEmpty then downcaseFirst u sf.name else nm, route, sf.ty, !nm.isEmpty, optContains opts [111, 109, 105, 116, 101, 109, 112, 116, 121]⟩
          let dup := (count.lookup fty).getD 0 > 1
          (fields ++ (if dup then [fld, fld] else [fld]), next, nextCount, vis)
        else
          let c := (nextCount.lookup ft).getD 0
          let c' := if (count.lookup fty).getD 0 > 1 then 2 else c + 1
          let nextCount' := (ft, c') :: nextCount.filter (·.1 != ft)
          (fields, if c == 0 then next ++ [(route, ft)] else next, nextCount', vis)) (fields, next, nextCount, vis)
    = (fields ++ dupl (decide ((count.lookup fty).getD 0 > 1)) (l.flatMap (fieldOut ts u froute)),
       (List.foldl (enq (decide ((count.lookup fty).getD 0 > 1))) (next, nextCount) (l.flatMap (childOut ts u froute))).1,
       (List.foldl (enq (decide ((count.lookup fty).getD 0 > 1))) (next, nextCount) (l.flatMap (childOut ts u froute))).2, vis) := by
  intro l
  induction l with
  | nil => intro fields next nextCount vis; simp [dupl_nil]
  | cons p l ih =>
    intro fields next nextCount vis
    obtain ⟨sf, i⟩ := p
    rw [List.foldl_cons, List.flatMap_cons, List.flatMap_cons, dupl_append, List.foldl_append]
    by_cases hskip : (if sf.embedded then (!sf.exported && !kindIsStruct ts (derefOnce ts sf.ty)) else !sf.exported) = true
    · simp only [hskip, fieldOut, childOut, if_true]
      rw [ih]
      simp [dupl_nil]
    · simp only [hskip, fieldOut, childOut, if_false]
      by_cases htag : (sf.tag.getD [] == [45]) = true
      · simp only [htag, if_true, Bool.false_eq_true, if_false]
        rw [ih]
        simp [dupl_nil]
      · simp only [htag, if_true, Bool.false_eq_true, if_false]
        by_cases hcond : (!List.isEmpty (if isValidTag u (parseTag (sf.tag.getD [])).fst = true then
              (parseTag (sf.tag.getD [])).fst else []) || !sf.embedded || !kindIsStruct ts (derefOnce ts sf.ty)) = true
        · simp only [hcond, if_true]
          by_cases hexp : (!sf.exported) = true
          · simp only [hexp, if_true]
            rw [ih]
            simp [dupl_nil]
          · simp only [hexp, if_false, Bool.false_eq_true]
            rw [ih]
            cases hd : decide ((List.lookup fty count).getD 0 > 1)
            · have hd' : ¬ ((List.lookup fty count).getD 0 > 1) := by simpa using hd
              simp [dupl, hd']
            · have hd' : ((List.lookup fty count).getD 0 > 1) := by simpa using hd
              simp [dupl, hd']
        · simp only [hcond, if_false, Bool.false_eq_true]
          rw [ih]
          simp [dupl_nil, enq]

theorem scanLevel_eq (ts : Types) (u : UTab) (current : List Node) (count : List (Nat × Nat)) (visited : List Nat) :
    scanLevel ts u current count visited = current.foldl (outerStep ts u count) ([], [], [], visited) := by
  unfold scanLevel
  congr 1
  funext acc f
  obtain ⟨fields, next, nextCount, vis⟩ := acc
  obtain ⟨froute, fty⟩ := f
  simp only [outerStep]
  by_cases hv : vis.contains fty = true
  · simp only [hv, if_true]
  · simp only [hv, if_false, Bool.false_eq_true, fieldsOf, childrenOf]
    cases hty : ts.get fty with
    | struct fds =>
      simp only []
      rw [inner_fold]
    | _ => simp [dupl_nil]

/-! ### what a field / a queued node looks like -/

theorem mem_fieldOut (ts : Types) (u : UTab) (r : List Nat) (sf : FieldDesc) (i : Nat) (x : AField)
    (h : x ∈ fieldOut ts u r (sf, i)) :
    x.route = r ++ [i] ∧ x.ty = sf.ty ∧ sf.exported = true ∧ sf.tag ≠ some [45] ∧
    x.omitEmpty = optContains (parseTag (sf.tag.getD [])).2 [111, 109, 105, 116, 101, 109, 112, 116, 121] := by
  unfold fieldOut at h
  simp only at h
  by_cases hskip : (if sf.embedded then (!sf.exported && !kindIsStruct ts (derefOnce ts sf.ty)) else !sf.exported) = true
  · simp only [hskip, if_true, List.not_mem_nil] at h
  · simp only [hskip, if_false, Bool.false_eq_true] at h
    by_cases htag : (sf.tag.getD [] == [45]) = true
    · simp only [htag, if_true, List.not_mem_nil] at h
    · simp only [htag, if_false, Bool.false_eq_true] at h
      by_cases hcond : (!List.isEmpty (if isValidTag u (parseTag (sf.tag.getD [])).fst = true then
            (parseTag (sf.tag.getD [])).fst else []) || !sf.embedded || !kindIsStruct ts (derefOnce ts sf.ty)) = true
      · simp only [hcond, if_true] at h
        by_cases hexp : (!sf.exported) = true
        · simp only [hexp, if_true, List.not_mem_nil] at h
        · simp only [hexp, if_false, Bool.false_eq_true, List.mem_singleton] at h
          subst h
          refine ⟨rfl, rfl, by simpa using hexp, ?_, rfl⟩
          intro ht
          rw [ht] at htag
          simp at htag
      · simp only [hcond, if_false, Bool.false_eq_true, List.not_mem_nil] at h

theorem mem_childOut (ts : Types) (u : UTab) (r : List Nat) (sf : FieldDesc) (i : Nat) (n : Node)
    (h : n ∈ childOut ts u r (sf, i)) :
    n = (r ++ [i], derefOnce ts sf.ty) ∧ kindIsStruct ts (derefOnce ts sf.ty) = true := by
  unfold childOut at h
  simp only at h
  by_cases hskip : (if sf.embedded then (!sf.exported && !kindIsStruct ts (derefOnce ts sf.ty)) else !sf.exported) = true
  · simp only [hskip, if_true, List.not_mem_nil] at h
  · simp only [hskip, if_false, Bool.false_eq_true] at h
    by_cases htag : (sf.tag.getD [] == [45]) = true
    · simp only [htag, if_true, List.not_mem_nil] at h
    · simp only [htag, if_false, Bool.false_eq_true] at h
      by_cases hcond : (!List.isEmpty (if isValidTag u (parseTag (sf.tag.getD [])).fst = true then
            (parseTag (sf.tag.getD [])).fst else []) || !sf.embedded || !kindIsStruct ts (derefOnce ts sf.ty)) = true
      · simp only [hcond, if_true, List.not_mem_nil] at h
      · simp only [hcond, if_false, Bool.false_eq_true, List.mem_singleton] at h
        refine ⟨h, ?_⟩
        simp only [Bool.or_eq_true, Bool.not_eq_true', not_or, Bool.not_eq_false] at hcond
        exact hcond.2

theorem mem_fieldsOf (ts : Types) (u : UTab) (c : Node) (x : AField) (h : x ∈ fieldsOf ts u c) :
    ∃ fds sf i, ts.get c.2 = .struct fds ∧ fds[i]? = some sf ∧ x ∈ fieldOut ts u c.1 (sf, i) := by
  unfold fieldsOf at h
  split at h
  · rename_i fds hfds
    rw [List.mem_flatMap] at h
    obtain ⟨⟨sf, i⟩, hp, hx⟩ := h
    exact ⟨fds, sf, i, hfds, List.mk_mem_zipIdx_iff_getElem?.mp hp, hx⟩
  · simp at h

theorem mem_childrenOf (ts : Types) (u : UTab) (c : Node) (n : Node) (h : n ∈ childrenOf ts u c) :
    ∃ fds sf i, ts.get c.2 = .struct fds ∧ fds[i]? = some sf ∧ n ∈ childOut ts u c.1 (sf, i) := by
  unfold childrenOf at h
  split at h
  · rename_i fds hfds
    rw [List.mem_flatMap] at h
    obtain ⟨⟨sf, i⟩, hp, hx⟩ := h
    exact ⟨fds, sf, i, hfds, List.mk_mem_zipIdx_iff_getElem?.mp hp, hx⟩
  · simp at h

/-! ### membership through one level and through `bfs` -/

theorem mem_foldl_enq (d : Bool) : ∀ (L : List Node) (q : List Node × List (Nat × Nat)) (n : Node),
    n ∈ (L.foldl (enq d) q).1 → n ∈ q.1 ∨ n ∈ L := by
  intro L
  induction L with
  | nil => intro q n h; exact Or.inl h
  | cons c L ih =>
    intro q n h
    rw [List.foldl_cons] at h
    rcases ih _ n h with h | h
    · simp only [enq] at h
      split at h
      · rw [List.mem_append] at h
        rcases h with h | h
        · exact Or.inl h
        · right; simp at h; simp [h]
      · exact Or.inl h
    · right; simp [h]

theorem mem_foldl_outer (ts : Types) (u : UTab) (count : List (Nat × Nat)) :
    ∀ (current : List Node) (st : BState),
      (∀ x ∈ (current.foldl (outerStep ts u count) st).1, x ∈ st.1 ∨ ∃ c ∈ current, x ∈ fieldsOf ts u c) ∧
      (∀ n ∈ (current.foldl (outerStep ts u count) st).2.1, n ∈ st.2.1 ∨ ∃ c ∈ current, n ∈ childrenOf ts u c) := by
  intro current
  induction current with
  | nil => intro st; exact ⟨fun x h => Or.inl h, fun n h => Or.inl h⟩
  | cons c cs ih =>
    intro st
    rw [List.foldl_cons]
    obtain ⟨ih1, ih2⟩ := ih (outerStep ts u count st c)
    constructor
    · intro x hx
      rcases ih1 x hx with h | ⟨c', hc', h⟩
      · unfold outerStep at h
        split at h
        · exact Or.inl h
        · simp only [List.mem_append, mem_dupl] at h
          rcases h with h | h
          · exact Or.inl h
          · exact Or.inr ⟨c, by simp, h⟩
      · exact Or.inr ⟨c', by simp [hc'], h⟩
    · intro n hn
      rcases ih2 n hn with h | ⟨c', hc', h⟩
      · unfold outerStep at h
        split at h
        · exact Or.inl h
        · simp only at h
          rcases mem_foldl_enq _ _ _ n h with h | h
          · exact Or.inl h
          · exact Or.inr ⟨c, by simp, h⟩
      · exact Or.inr ⟨c', by simp [hc'], h⟩

/-- level-indexed invariant through `bfs`: `PN k` holds of the nodes of level `k`, `PF` of every field found -/
theorem bfs_mem (ts : Types) (u : UTab) (PN : Nat → Node → Prop) (PF : AField → Prop)
    (hchild : ∀ k c, PN k c → ∀ n ∈ childrenOf ts u c, PN (k + 1) n)
    (hfield : ∀ k c, PN k c → k < 64 → ∀ x ∈ fieldsOf ts u c, PF x) :
    ∀ (fuel k : Nat) (current : List Node) (count : List (Nat × Nat)) (visited : List Nat) (acc : List AField),
      k + fuel = 64 → (∀ c ∈ current, PN k c) → (∀ x ∈ acc, PF x) →
      ∀ x ∈ bfs ts u fuel current count visited acc, PF x := by
  intro fuel
  induction fuel with
  | zero => intro k current count visited acc _ _ hacc x hx; simp only [bfs] at hx; exact hacc x hx
  | succ fuel ih =>
    intro k current count visited acc hk hcur hacc x hx
    cases current with
    | nil => simp only [bfs] at hx; exact hacc x hx
    | cons c0 cs =>
      rw [bfs] at hx
      · rw [scanLevel_eq] at hx
        obtain ⟨h1, h2⟩ := mem_foldl_outer ts u count (c0 :: cs) ([], [], [], visited)
        refine ih (k + 1) _ _ _ _ (by omega) ?_ ?_ x hx
        · intro n hn
          rcases h2 n hn with h | ⟨c, hc, h⟩
          · simp at h
          · exact hchild k c (hcur c hc) n h
        · intro y hy
          rw [List.mem_append] at hy
          rcases hy with hy | hy
          · exact hacc y hy
          · rcases h1 y hy with h | ⟨c, hc, h⟩
            · simp at h
            · exact hfield k c (hcur c hc) (by omega) y h
      · intro h; cases h

end Refmt.Autogen
