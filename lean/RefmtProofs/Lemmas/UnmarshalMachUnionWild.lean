/-
  Stateful object unmarshaller: the wildcard machine's `Reset` and first `Step`, one equation per case
  (atlases without tagged entries).
-/
import RefmtProofs.Lemmas.UnmarshalMachUnionSimBM
set_option linter.unusedSimpArgs false
set_option linter.unusedVariables false
namespace Refmt.UMachU
open Refmt Refmt.Obj Refmt.Obj.UM Refmt.UMachL

variable {ts : Types} {a : Atlas} {trs : Trs} {it : IfaceTys}

/-- a row with its wildcard machine replaced -/
def rowWd (row : URow) (wm : WildM) : URow := { row with wild := wm }

@[simp] theorem rowWd_ptr (row wm) : (rowWd row wm).ptr = row.ptr := rfl
@[simp] theorem rowWd_wild (row wm) : (rowWd row wm).wild = wm := rfl
theorem rowWd_same (row wm) : SameCfg row (rowWd row wm) := ⟨rfl, rfl, rfl, rfl, rfl, rfl, rfl, rfl, rfl, rfl, rfl, rfl⟩

def wdReset (wm : WildM) (v : Val) (rt : Nat) : WildM :=
  { wm with target_rv := v, target_rt := rt, delegate := none, holder := none }
def wdMap (it : IfaceTys) (wm : WildM) (d : URef) : WildM :=
  { wm with target_rv := .iface (some (it.mapSI, .map (some []))), dyn := it.mapSI, delegate := some d }
def wdSlice (it : IfaceTys) (wm : WildM) (d : URef) : WildM :=
  { wm with holder := some it.sliceI, delegate := some d }

theorem wild_reset {f : Nat} {lo hi : List URow} {row : URow} {rt : Nat} {v : Val} :
    resetM ts a (f+1) ⟨lo.length, .wild⟩ rt v (lo ++ row :: hi)
      = .ok (lo ++ rowWd row (wdReset row.wild v rt) :: hi) := by
  simp only [resetM, resetBody, getRow, resetWild, updRow_at]
  rfl

theorem wild_step_tag {f : Nat} {lo hi : List URow} {row : URow} {stk st be} {t : Tok} {g : Int}
    (hdl : row.wild.delegate = none) (ht : t.tag = some g) (hg : a.getByTag g = none) :
    stepM ts a trs it (f+1) ⟨lo.length, .wild⟩ ⟨lo ++ row :: hi, stk, st, be⟩ t = .error (.f .err) := by
  simp only [stepM, stepBody, getRow, stepWild, hdl, ht, hg]
  rfl

theorem wild_step_meth {f : Nat} {lo hi : List URow} {row : URow} {stk st be} {t : Tok}
    (hdl : row.wild.delegate = none) (ht : t.tag = none) (hm : hasMethods ts row.wild.target_rt = true)
    (h1 : t.body ≠ .null) (h2 : t.body ≠ .mapClose) (h3 : t.body ≠ .arrClose) :
    stepM ts a trs it (f+1) ⟨lo.length, .wild⟩ ⟨lo ++ row :: hi, stk, st, be⟩ t = .error (.f .err) := by
  simp only [stepM, stepBody, getRow, stepWild, hdl, ht, hm, Bool.true_and, if_true]
  rfl

theorem wild_step_close {f : Nat} {lo hi : List URow} {row : URow} {stk st be} {t : Tok}
    (hdl : row.wild.delegate = none) (ht : t.tag = none) (hb : t.body = .mapClose ∨ t.body = .arrClose) :
    stepM ts a trs it (f+1) ⟨lo.length, .wild⟩ ⟨lo ++ row :: hi, stk, st, be⟩ t = .error (.f .err) := by
  rcases hb with hb | hb <;>
    simp only [stepM, stepBody, getRow, stepWild, hdl, ht, hb, Bool.and_false, Bool.false_eq_true, if_false] <;> rfl

theorem wild_step_null {f : Nat} {lo hi : List URow} {row : URow} {stk st be} {t : Tok}
    (hdl : row.wild.delegate = none) (ht : t.tag = none) (hb : t.body = .null) :
    stepM ts a trs it (f+1) ⟨lo.length, .wild⟩ ⟨lo ++ row :: hi, stk, st, be⟩ t
      = .ok ⟨some (.iface none), ⟨lo ++ row :: hi, stk, st, be⟩⟩ := by
  simp only [stepM, stepBody, getRow, stepWild, hdl, ht, hb, Bool.and_false, Bool.false_eq_true, if_false, fin]

theorem wild_step_scalar {f : Nat} {lo hi : List URow} {row : URow} {stk st be} {t : Tok}
    (hdl : row.wild.delegate = none) (ht : t.tag = none) (hm : hasMethods ts row.wild.target_rt = false)
    (h1 : t.body ≠ .null) (h2 : t.body ≠ .mapClose) (h3 : t.body ≠ .arrClose) (h4 : ∀ len, t.body ≠ .mapOpen len)
    (h5 : ∀ len, t.body ≠ .arrOpen len) :
    stepM ts a trs it (f+1) ⟨lo.length, .wild⟩ ⟨lo ++ row :: hi, stk, st, be⟩ t
      = match anyVal it t with
        | some v => .ok ⟨some v, ⟨lo ++ row :: hi, stk, st, be⟩⟩
        | none => .error (.f .panic) := by
  simp only [stepM, stepBody, getRow, stepWild, hdl, ht, hm, Bool.false_and, Bool.false_eq_true, if_false]
  cases anyVal it t <;> rfl

theorem wild_step_mapOpen {f : Nat} {lo hi : List URow} {row : URow} {stk st be} {t : Tok} {len : Int}
    (hdl : row.wild.delegate = none) (ht : t.tag = none) (hm : hasMethods ts row.wild.target_rt = false)
    (hb : t.body = .mapOpen len) :
    stepM ts a trs it (f+1) ⟨lo.length, .wild⟩ ⟨lo ++ row :: hi, stk, st, be⟩ t
      = match resetM ts a f ⟨tipIx (lo ++ row :: hi), .map⟩ it.mapSI (.map (some []))
          (lo ++ rowWd row (wdMap it row.wild ⟨tipIx (lo ++ row :: hi), .map⟩) :: hi) with
        | .error x => .error x
        | .ok R2 => mapDone (fun v => .iface (some (it.mapSI, v)))
            (stepM ts a trs it f ⟨tipIx (lo ++ row :: hi), .map⟩ ⟨R2, stk, st, be⟩ t) := by
  simp only [stepM, stepBody, getRow, stepWild, hdl, ht, hm, hb, Bool.false_and, Bool.false_eq_true, if_false,
    updRow_at, wildFwd]
  rfl

theorem wild_step_arrOpen {f : Nat} {lo hi : List URow} {row : URow} {stk st be} {t : Tok} {len : Int}
    (hdl : row.wild.delegate = none) (ht : t.tag = none) (hm : hasMethods ts row.wild.target_rt = false)
    (hb : t.body = .arrOpen len) :
    stepM ts a trs it (f+1) ⟨lo.length, .wild⟩ ⟨lo ++ row :: hi, stk, st, be⟩ t
      = match resetM ts a f ⟨tipIx (lo ++ row :: hi), .slice⟩ it.sliceI (.slice (some []))
          (lo ++ rowWd row (wdSlice it row.wild ⟨tipIx (lo ++ row :: hi), .slice⟩) :: hi) with
        | .error x => .error x
        | .ok R2 => mapDone (fun v => .iface (some (it.sliceI, v)))
            (stepM ts a trs it f ⟨tipIx (lo ++ row :: hi), .slice⟩ ⟨R2, stk, st, be⟩ t) := by
  simp only [stepM, stepBody, getRow, stepWild, hdl, ht, hm, hb, Bool.false_and, Bool.false_eq_true, if_false,
    updRow_at, wildFwd]
  rfl

/-- a tagged token whose entry was found: the wildcard machine records holder type and delegate -/
def wdTag (wm : WildM) (ty : Nat) (d : URef) : WildM := { wm with holder := some ty, delegate := some d }

theorem wild_step_tag_meth {f : Nat} {lo hi : List URow} {row : URow} {stk st be} {t : Tok} {g : Int} {e : Entry}
    (hdl : row.wild.delegate = none) (ht : t.tag = some g) (hg : a.getByTag g = some e)
    (hm : hasMethods ts row.wild.target_rt = true) :
    stepM ts a trs it (f+1) ⟨lo.length, .wild⟩ ⟨lo ++ row :: hi, stk, st, be⟩ t = .error (.f .err) := by
  simp only [stepM, stepBody, getRow, stepWild, hdl, ht, hg, hm, if_true]
  rfl

theorem wild_step_tag_found {f : Nat} {lo hi : List URow} {row : URow} {stk st be} {t : Tok} {g : Int} {e : Entry}
    {trow trow' : URow} {k : MK}
    (hdl : row.wild.delegate = none) (ht : t.tag = some g) (hg : a.getByTag g = some e)
    (hm : hasMethods ts row.wild.target_rt = false)
    (htip : (lo ++ row :: hi)[tipIx (lo ++ row :: hi)]? = some trow)
    (hy : yieldBare ts a f trow e.ty = .ok (trow', k)) :
    stepM ts a trs it (f+1) ⟨lo.length, .wild⟩ ⟨lo ++ row :: hi, stk, st, be⟩ t
      = match resetM ts a f ⟨tipIx (lo ++ row :: hi), k⟩ e.ty (zeroVal ts 64 e.ty)
          (updRow ((lo ++ row :: hi).set (tipIx (lo ++ row :: hi)) trow') lo.length
            fun r => rowWd r (wdTag r.wild e.ty ⟨tipIx (lo ++ row :: hi), k⟩)) with
        | .error x => .error x
        | .ok R2 => mapDone (fun v => .iface (some (e.ty, v)))
            (stepM ts a trs it f ⟨tipIx (lo ++ row :: hi), k⟩ ⟨R2, stk, st, be⟩ t) := by
  simp only [stepM, stepBody, getRow, stepWild, hdl, ht, hg, hm, Bool.false_eq_true, if_false, htip, hy, wildFwd]
  rfl

end Refmt.UMachU
