/-
  Stateful object unmarshaller: the array machine's `Reset`, `Step` and `absorb`, one equation per case.
-/
import RefmtProofs.Lemmas.UnmarshalMachUnionSimBP
set_option linter.unusedSimpArgs false
set_option linter.unusedVariables false
namespace Refmt.UMachU
open Refmt Refmt.Obj Refmt.Obj.UM Refmt.UMachL

variable {ts : Types} {a : Atlas} {trs : Trs} {it : IfaceTys}

/-- a row with its array machine replaced -/
def rowAr (row : URow) (am : ArrayM) : URow := { row with array := am }

@[simp] theorem rowAr_ptr (row am) : (rowAr row am).ptr = row.ptr := rfl
@[simp] theorem rowAr_array (row am) : (rowAr row am).array = am := rfl
theorem rowAr_same (row am) : SameCfg row (rowAr row am) := ⟨rfl, rfl, rfl, rfl, rfl, rfl, rfl, rfl, rfl, rfl, rfl, rfl⟩

def arReset (v : Val) (rt e n j : Nat) (cck : MK) : ArrayM :=
  { target_rv := v, target_rt := rt, value_rt := e, valueMach := some ⟨j, cck⟩, phase := .initial, index := 0,
    maxLen := n }
def arOpen (ts : Types) (am : ArrayM) : ArrayM :=
  { am with phase := .acceptValueOrClose, target_rv := .arr (List.replicate am.maxLen (zeroVal ts 64 am.value_rt)) }
def arNext (am : ArrayM) : ArrayM := { am with index := am.index + 1 }
def arAbs (am : ArrayM) (v : Val) : ArrayM :=
  { am with target_rv := .arr ((arrElems am.target_rv).set (am.index - 1) v) }

theorem array_reset {f : Nat} {lo hi : List URow} {row : URow} {rt n e : Nat} {v : Val} {crow : URow} {cck : MK}
    (hrt : ts.get rt = .arr n e)
    (hreq : requisition ts a f (lo ++ row :: hi) e = .ok ((lo ++ row :: hi) ++ [crow], ⟨(lo ++ row :: hi).length, cck⟩)) :
    resetM ts a (f+1) ⟨lo.length, .array⟩ rt v (lo ++ row :: hi)
      = .ok (lo ++ rowAr row (arReset v rt e n (lo ++ row :: hi).length cck) :: (hi ++ [crow])) := by
  simp only [resetM, resetBody, getRow, resetArray, hrt, hreq, updRow_snoc]
  rfl

theorem array_step_init_open {f : Nat} {lo hi : List URow} {row : URow} {stk st be} {t : Tok} {len : Int}
    (hph : row.array.phase = .initial) (ht : t.body = .arrOpen len) :
    stepM ts a trs it (f+1) ⟨lo.length, .array⟩ ⟨lo ++ row :: hi, stk, st, be⟩ t
      = .ok ⟨none, ⟨lo ++ rowAr row (arOpen ts row.array) :: hi, stk, st, be⟩⟩ := by
  simp only [stepM, stepBody, getRow, stepArray, hph, ht, cont, UState.upd, updRow_at]
  rfl

theorem array_step_init_null {f : Nat} {lo hi : List URow} {row : URow} {stk st be} {t : Tok}
    (hph : row.array.phase = .initial) (ht : t.body = .null) :
    stepM ts a trs it (f+1) ⟨lo.length, .array⟩ ⟨lo ++ row :: hi, stk, st, be⟩ t
      = .ok ⟨some (zeroVal ts 64 row.array.target_rt), ⟨lo ++ row :: hi, stk, st, be⟩⟩ := by
  simp only [stepM, stepBody, getRow, stepArray, hph, ht, fin]

theorem array_step_init_other {f : Nat} {lo hi : List URow} {row : URow} {stk st be} {t : Tok}
    (hph : row.array.phase = .initial) (h1 : ∀ len, t.body ≠ .arrOpen len) (h2 : t.body ≠ .null) :
    stepM ts a trs it (f+1) ⟨lo.length, .array⟩ ⟨lo ++ row :: hi, stk, st, be⟩ t = .error (.f .err) := by
  simp only [stepM, stepBody, getRow, stepArray, hph]
  rfl

theorem array_step_mapClose {f : Nat} {lo hi : List URow} {row : URow} {stk st be} {t : Tok}
    (hph : row.array.phase = .acceptValueOrClose) (ht : t.body = .mapClose) :
    stepM ts a trs it (f+1) ⟨lo.length, .array⟩ ⟨lo ++ row :: hi, stk, st, be⟩ t = .error (.f .err) := by
  simp only [stepM, stepBody, getRow, stepArray, hph, ht]
  rfl

theorem array_step_arrClose {f : Nat} {lo hi : List URow} {row : URow} {stk st be} {t : Tok}
    (hph : row.array.phase = .acceptValueOrClose) (ht : t.body = .arrClose) :
    stepM ts a trs it (f+1) ⟨lo.length, .array⟩ ⟨lo ++ row :: hi, stk, st, be⟩ t
      = .ok ⟨some row.array.target_rv, ⟨release (lo ++ row :: hi), stk, st, be⟩⟩ := by
  simp only [stepM, stepBody, getRow, stepArray, hph, ht, fin]

theorem array_step_full {f : Nat} {lo hi : List URow} {row : URow} {stk st be} {t : Tok}
    (hph : row.array.phase = .acceptValueOrClose) (h1 : t.body ≠ .mapClose) (h2 : t.body ≠ .arrClose)
    (hfull : row.array.index ≥ row.array.maxLen) :
    stepM ts a trs it (f+1) ⟨lo.length, .array⟩ ⟨lo ++ row :: hi, stk, st, be⟩ t = .error (.f .err) := by
  simp only [stepM, stepBody, getRow, stepArray, hph, hfull, if_true]
  rfl

theorem array_step_elem {f : Nat} {lo hi : List URow} {row : URow} {stk st be} {t : Tok} {d : URef}
    (hph : row.array.phase = .acceptValueOrClose) (h1 : t.body ≠ .mapClose) (h2 : t.body ≠ .arrClose)
    (hfull : ¬ row.array.index ≥ row.array.maxLen) (hd : row.array.valueMach = some d) :
    stepM ts a trs it (f+1) ⟨lo.length, .array⟩ ⟨lo ++ row :: hi, stk, st, be⟩ t
      = recurse ts a trs it f ⟨lo ++ rowAr row (arNext row.array) :: hi, stk, st, be⟩ t
          ((arrElems row.array.target_rv)[row.array.index]?.getD (zeroVal ts 64 row.array.value_rt))
          row.array.value_rt d := by
  simp only [stepM, stepBody, getRow, stepArray, hph, hd, hfull, if_false, UState.upd, updRow_at]
  simp [rowAr, arNext, hph, hd]

theorem array_absorb {f : Nat} {lo hi : List URow} {row : URow} {v : Val} :
    absorbM ts (f+1) ⟨lo.length, .array⟩ v (lo ++ row :: hi) = .ok (lo ++ rowAr row (arAbs row.array v) :: hi) := by
  simp only [absorbM, absorbBody, getRow, updRow_at]
  rfl

end Refmt.UMachU
