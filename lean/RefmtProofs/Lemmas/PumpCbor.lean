/-
  The CBOR decoder machine on a clean reader (no injected fault, no push-back):
  every step leaves a clean reader that is no longer, and every step that does not end the run
  decreases `2 * remaining bytes + stack depth`.  Hence `run` never runs out of fuel `2 * n + 2`
  (no hypothesis on the byte values is needed).
-/
import RefmtModel
import RefmtProofs.Lemmas.CborBasic
import RefmtProofs.Lemmas.PumpL
set_option linter.unusedSimpArgs false
set_option linter.unusedVariables false
namespace Refmt.PumpL
open Refmt Refmt.CborDec Refmt.C04

/-- `rd'` is clean and holds at most `n` bytes -/
def CL (n : Nat) (rd' : Rd) : Prop := rd'.fault = none ∧ rd'.pb = 0 ∧ rd'.data.length ≤ n

theorem CL.mk' (bs : Bytes) (n : Nat) (h : bs.length ≤ n) : CL n ⟨bs, none, 0⟩ := ⟨rfl, rfl, h⟩

theorem CL.eta {n : Nat} {rd : Rd} (h : CL n rd) : rd = ⟨rd.data, none, 0⟩ := by
  obtain ⟨d, f, p⟩ := rd
  obtain ⟨h1, h2, _⟩ := h
  simp only at h1 h2
  subst h1; subst h2; rfl

theorem CL.mono {n m : Nat} {rd : Rd} (h : CL n rd) (hnm : n ≤ m) : CL m rd :=
  ⟨h.1, h.2.1, Nat.le_trans h.2.2 hnm⟩

theorem readN_CL (bs : Bytes) (n : Nat) : CL bs.length (Rd.readN ⟨bs, none, 0⟩ n).2 := by
  by_cases h : n ≤ bs.length
  · rw [readN_ok bs n h]; exact CL.mk' _ _ (by simp)
  · obtain ⟨e, he⟩ := readN_err bs n (by omega)
    rw [he]; exact CL.mk' _ _ (by simp)

/-- reading at least one byte -/
theorem readN_CL_pos (bs : Bytes) (n : Nat) (hn : 0 < n) : CL (bs.length - 1) (Rd.readN ⟨bs, none, 0⟩ n).2 := by
  by_cases h : n ≤ bs.length
  · rw [readN_ok bs n h]; exact CL.mk' _ _ (by simp; omega)
  · obtain ⟨e, he⟩ := readN_err bs n (by omega)
    rw [he]; exact CL.mk' _ _ (by simp)

theorem decUint_CL (bs : Bytes) (major : Nat) : CL bs.length (decUint ⟨bs, none, 0⟩ major).rd := by
  unfold decUint
  simp only
  split
  · exact CL.mk' _ _ (Nat.le_refl _)
  split
  · cases bs with
    | nil => simp only [read1_nil]; exact CL.mk' _ _ (Nat.le_refl _)
    | cons b r => simp only [read1_cons]; exact CL.mk' _ _ (by simp)
  split
  · have := readN_CL bs 2
    rcases h : Rd.readN ⟨bs, none, 0⟩ 2 with ⟨x | x, rd'⟩ <;> rw [h] at this <;> exact this
  split
  · have := readN_CL bs 4
    rcases h : Rd.readN ⟨bs, none, 0⟩ 4 with ⟨x | x, rd'⟩ <;> rw [h] at this <;> exact this
  split
  · have := readN_CL bs 8
    rcases h : Rd.readN ⟨bs, none, 0⟩ 8 with ⟨x | x, rd'⟩ <;> rw [h] at this <;> exact this
  · exact CL.mk' _ _ (Nat.le_refl _)

theorem decNegInt_CL (bs : Bytes) (major : Nat) : CL bs.length (decNegInt ⟨bs, none, 0⟩ major).rd := by
  unfold decNegInt
  simp only
  have := decUint_CL bs major
  split
  · exact this
  · split <;> exact this

theorem decLen_CL (bs : Bytes) (major : Nat) : CL bs.length (decLen ⟨bs, none, 0⟩ major).rd := by
  unfold decLen
  simp only
  have := decUint_CL bs major
  split
  · exact this
  · split <;> exact this

theorem readN_after {n : Nat} {rd : Rd} (h : CL n rd) (k : Nat) : CL n (rd.readN k).2 := by
  rw [h.eta]
  exact (readN_CL rd.data k).mono h.2.2

theorem decBytes_CL (bs : Bytes) (major : Nat) : CL bs.length (decBytes ⟨bs, none, 0⟩ major).rd := by
  unfold decBytes
  simp only
  have hl := decLen_CL bs major
  split
  · exact hl
  · split
    · exact hl
    · rename_i n _ _
      have := readN_after hl n
      rcases h : (decLen ⟨bs, none, 0⟩ major).rd.readN n with ⟨x | x, rd'⟩ <;> rw [h] at this <;> exact this

theorem decString_CL (bs : Bytes) (major : Nat) : CL bs.length (decString ⟨bs, none, 0⟩ major).rd := by
  unfold decString
  simp only
  have hl := decLen_CL bs major
  split
  · exact hl
  · split
    · exact hl
    · rename_i n _ _
      have := readN_after hl n
      rcases h : (decLen ⟨bs, none, 0⟩ major).rd.readN n with ⟨x | x, rd'⟩ <;> rw [h] at this <;> exact this

theorem decFloat_CL (bs : Bytes) (major : Nat) : CL bs.length (decFloat ⟨bs, none, 0⟩ major).rd := by
  unfold decFloat
  split
  · have := readN_CL bs 2
    rcases h : Rd.readN ⟨bs, none, 0⟩ 2 with ⟨x | x, rd'⟩ <;> rw [h] at this <;> exact this
  split
  · have := readN_CL bs 4
    rcases h : Rd.readN ⟨bs, none, 0⟩ 4 with ⟨x | x, rd'⟩ <;> rw [h] at this <;> exact this
  · have := readN_CL bs 8
    rcases h : Rd.readN ⟨bs, none, 0⟩ 8 with ⟨x | x, rd'⟩ <;> rw [h] at this <;> exact this

theorem decChunks_CL : ∀ (fuel : Nat) (bs : Bytes) (mw : Nat) (acc : Bytes) (cap alloc : Nat),
    CL bs.length (decChunks fuel ⟨bs, none, 0⟩ mw acc cap alloc).rd
  | 0, bs, mw, acc, cap, alloc => by simp only [decChunks]; exact CL.mk' _ _ (Nat.le_refl _)
  | fuel+1, bs, mw, acc, cap, alloc => by
    cases bs with
    | nil => simp only [decChunks, read1_nil]; exact CL.mk' _ _ (Nat.le_refl _)
    | cons b r =>
      simp only [decChunks, read1_cons]
      have hr : CL (b :: r).length (⟨r, none, 0⟩ : Rd) := CL.mk' _ _ (by simp)
      split
      · exact hr
      split
      · exact hr
      have hl := (decLen_CL r b).mono (show r.length ≤ (b :: r).length by simp)
      split
      · exact hl
      · rename_i n hn
        split
        · exact hl
        · have h2 := readN_after hl n
          rcases h : (decLen ⟨r, none, 0⟩ b).rd.readN n with ⟨x | x, rd'⟩ <;> rw [h] at h2
          · exact h2
          · have h2' : CL (b :: r).length rd' := h2
            rw [h2'.eta]
            exact (decChunks_CL fuel rd'.data mw _ _ _).mono h2'.2.2

theorem scalarOut_rd {α : Type} (s : St) (r : R α) (mk : α → Body) (tag : Option Int) :
    (scalarOut s r mk tag).rd = r.rd ∧ (scalarOut s r mk tag).st = s := by
  unfold scalarOut
  split <;> exact ⟨rfl, rfl⟩

/-- result of `acceptValue`: clean reader, no longer; the stack grows by at most one frame -/
def AVok (n : Nat) (s : St) (o : Out) : Prop := CL n o.rd ∧ o.st.stack.length ≤ s.stack.length + 1

theorem AVok.same {n : Nat} {s : St} {rd : Rd} {ret : CborDec.Ret} {a : Nat} (h : CL n rd) : AVok n s ⟨s, rd, ret, a⟩ :=
  ⟨h, Nat.le_succ _⟩

theorem AVok.scalar {α : Type} {n : Nat} {s : St} {r : R α} {mk : α → Body} {tag : Option Int} (h : CL n r.rd) :
    AVok n s (scalarOut s r mk tag) := by
  obtain ⟨h1, h2⟩ := scalarOut_rd s r mk tag
  refine ⟨by rw [h1]; exact h, by rw [h2]; exact Nat.le_succ _⟩

theorem AVok.ite {n : Nat} {s : St} {c : Prop} [Decidable c] {a b : Out} (ha : AVok n s a) (hb : AVok n s b) :
    AVok n s (if c then a else b) := by
  split <;> assumption

theorem AVok.open_ (s : St) (bs : Bytes) (major : Nat) (ph : Phase) (f : Nat → CborDec.Ret) :
    AVok bs.length s
      (match (decLen ⟨bs, none, 0⟩ major).res with
       | .ok n => ⟨push { s with left := n :: s.left } ph, (decLen ⟨bs, none, 0⟩ major).rd, f n, 0⟩
       | .error e => ⟨s, (decLen ⟨bs, none, 0⟩ major).rd, .err e, 0⟩) := by
  split
  · exact ⟨decLen_CL bs major, by simp [push]⟩
  · exact AVok.same (decLen_CL bs major)

theorem AVok.mono {n m : Nat} {s : St} {o : Out} (h : AVok n s o) (hnm : n ≤ m) : AVok m s o :=
  ⟨h.1.mono hnm, h.2⟩

theorem AVok.tagB (s : St) (bs : Bytes) (major : Nat) (tag : Option Int) (k : Rd → Nat → Nat → Out)
    (hk : ∀ (r : Bytes) (mb t : Nat), r.length ≤ bs.length → AVok bs.length s (k ⟨r, none, 0⟩ mb t)) :
    AVok bs.length s
      (match tag with
       | some _ => ⟨s, ⟨bs, none, 0⟩, .err .syntax, 0⟩
       | none =>
         match (decLen ⟨bs, none, 0⟩ major).res with
         | .error e => ⟨s, (decLen ⟨bs, none, 0⟩ major).rd, .err e, 0⟩
         | .ok t =>
           match (decLen ⟨bs, none, 0⟩ major).rd.read1 with
           | (.error e, rd') => ⟨s, rd', .err e, 0⟩
           | (.ok (mb, rd1), _) => k rd1 mb t) := by
  have hl := decLen_CL bs major
  split
  · exact AVok.same (CL.mk' _ _ (Nat.le_refl _))
  · split
    · exact AVok.same hl
    · generalize (decLen ⟨bs, none, 0⟩ major).rd = rdl at hl ⊢
      obtain ⟨d, fl, pb⟩ := rdl
      obtain ⟨h1, h2, h3⟩ := hl
      simp only at h1 h2 h3
      subst h1; subst h2
      cases d with
      | nil => simp only [read1_nil]; exact AVok.same (CL.mk' _ _ (by simp))
      | cons b r =>
        simp only [read1_cons]
        exact hk r b _ (by simp at h3; omega)

theorem acceptValue_ok (coerce : Bool) : ∀ (fuel : Nat) (s : St) (bs : Bytes) (major : Nat) (tag : Option Int),
    AVok bs.length s (acceptValue coerce s ⟨bs, none, 0⟩ major tag fuel) := by
  intro fuel
  induction fuel with
  | zero =>
    intro s bs major tag
    have h0 : CL bs.length (⟨bs, none, 0⟩ : Rd) := CL.mk' _ _ (Nat.le_refl _)
    unfold acceptValue
    repeat' apply AVok.ite
    all_goals first
      | exact AVok.same h0
      | exact AVok.scalar (decFloat_CL bs major)
      | exact AVok.scalar (decChunks_CL _ bs _ _ _ _)
      | exact AVok.scalar (decUint_CL bs major)
      | exact AVok.scalar (decNegInt_CL bs major)
      | exact AVok.scalar (decBytes_CL bs major)
      | exact AVok.scalar (decString_CL bs major)
      | exact ⟨h0, by simp [push]⟩
      | exact AVok.open_ s bs major _ _
      | skip
    refine AVok.tagB s bs major tag _ ?_
    intro r mb t hr
    exact AVok.same (CL.mk' _ _ hr)
  | succ fuel ih =>
    intro s bs major tag
    have h0 : CL bs.length (⟨bs, none, 0⟩ : Rd) := CL.mk' _ _ (Nat.le_refl _)
    unfold acceptValue
    repeat' apply AVok.ite
    all_goals first
      | exact AVok.same h0
      | exact AVok.scalar (decFloat_CL bs major)
      | exact AVok.scalar (decChunks_CL _ bs _ _ _ _)
      | exact AVok.scalar (decUint_CL bs major)
      | exact AVok.scalar (decNegInt_CL bs major)
      | exact AVok.scalar (decBytes_CL bs major)
      | exact AVok.scalar (decString_CL bs major)
      | exact ⟨h0, by simp [push]⟩
      | exact AVok.open_ s bs major _ _
      | skip
    refine AVok.tagB s bs major tag _ ?_
    intro r mb t hr
    exact (ih s r mb _).mono hr

/-- outcome of one sub-step on `⟨bs, none, 0⟩` in state `s` -/
def SubOk (bs : Bytes) (s : St) (o : Out) : Prop :=
  CL bs.length o.rd ∧
  ((∃ e, o.ret = .err e) ∨
   (2 * o.rd.data.length + o.st.stack.length + 1 ≤ 2 * bs.length + s.stack.length) ∨
   (o.st.stack = s.stack ∧ ∃ t, o.ret = .tok t true))

theorem SubOk.of_av {b : Nat} {r : Bytes} {s s' : St} (hs : s'.stack = s.stack) {o : Out}
    (h : AVok r.length s' o) : SubOk (b :: r) s o := by
  obtain ⟨h1, h2⟩ := h
  refine ⟨h1.mono (by simp), Or.inr (Or.inl ?_)⟩
  have := h1.2.2
  rw [hs] at h2
  simp only [List.length_cons]
  omega

theorem SubOk.of_av_in {b : Nat} {r : Bytes} {s s' : St} (hs : s'.stack = s.stack) {o : Out}
    (h : AVok r.length s' o) : SubOk (b :: r) s (inContainer o) := by
  have : AVok r.length s' (inContainer o) := by
    unfold inContainer
    split
    · exact h
    · exact h
  exact SubOk.of_av hs this

theorem SubOk.err (bs : Bytes) (s s' : St) (e : Err) (a : Nat) : SubOk bs s ⟨s', ⟨bs, none, 0⟩, .err e, a⟩ :=
  ⟨CL.mk' _ _ (Nat.le_refl _), Or.inl ⟨e, rfl⟩⟩

theorem SubOk.close (b : Nat) (r : Bytes) (s : St) (t : Tok) (d : Bool) (a : Nat) :
    SubOk (b :: r) s ⟨s, ⟨r, none, 0⟩, .tok t d, a⟩ :=
  ⟨CL.mk' _ _ (by simp), Or.inr (Or.inl (by simp only [List.length_cons]; omega))⟩

theorem subStep_ok (coerce : Bool) (s : St) (bs : Bytes) : SubOk bs s (subStep coerce s ⟨bs, none, 0⟩) := by
  obtain ⟨stk, ph, lf⟩ := s
  cases ph with
  | acceptValue =>
    cases bs with
    | nil => simp only [subStep, withMajor, read1_nil]; exact SubOk.err _ _ _ _ _
    | cons b r =>
      simp only [subStep, withMajor, read1_cons]
      exact SubOk.of_av rfl (acceptValue_ok coerce 1 _ r b none)
  | arrIndef =>
    cases bs with
    | nil => simp only [subStep, withMajor, read1_nil]; exact SubOk.err _ _ _ _ _
    | cons b r =>
      simp only [subStep, withMajor, read1_cons]
      split
      · exact SubOk.close _ _ _ _ _ _
      · exact SubOk.of_av_in rfl (acceptValue_ok coerce 1 _ r b none)
  | mapIndefKey =>
    cases bs with
    | nil => simp only [subStep, withMajor, read1_nil]; exact SubOk.err _ _ _ _ _
    | cons b r =>
      simp only [subStep, withMajor, read1_cons]
      split
      · exact SubOk.close _ _ _ _ _ _
      · exact SubOk.of_av_in rfl (acceptValue_ok coerce 1 _ r b none)
  | mapIndefVal =>
    cases bs with
    | nil => simp only [subStep, withMajor, read1_nil]; exact SubOk.err _ _ _ _ _
    | cons b r =>
      simp only [subStep, withMajor, read1_cons]
      split
      · exact ⟨CL.mk' _ _ (by simp), Or.inl ⟨_, rfl⟩⟩
      · exact SubOk.of_av_in rfl (acceptValue_ok coerce 1 _ r b none)
  | mapDefVal =>
    cases bs with
    | nil => simp only [subStep, withMajor, read1_nil]; exact SubOk.err _ _ _ _ _
    | cons b r =>
      simp only [subStep, withMajor, read1_cons]
      exact SubOk.of_av_in rfl (acceptValue_ok coerce 1 _ r b none)
  | arrDef =>
    cases lf with
    | nil => simp only [subStep]; exact SubOk.err _ _ _ _ _
    | cons n l =>
      cases n with
      | zero =>
        simp only [subStep]
        exact ⟨CL.mk' _ _ (Nat.le_refl _), Or.inr (Or.inr ⟨rfl, _, rfl⟩)⟩
      | succ n =>
        cases bs with
        | nil => simp only [subStep, withMajor, read1_nil]; exact SubOk.err _ _ _ _ _
        | cons b r =>
          simp only [subStep, withMajor, read1_cons]
          exact SubOk.of_av_in rfl (acceptValue_ok coerce 1 _ r b none)
  | mapDefKey =>
    cases lf with
    | nil => simp only [subStep]; exact SubOk.err _ _ _ _ _
    | cons n l =>
      cases n with
      | zero =>
        simp only [subStep]
        exact ⟨CL.mk' _ _ (Nat.le_refl _), Or.inr (Or.inr ⟨rfl, _, rfl⟩)⟩
      | succ n =>
        cases bs with
        | nil => simp only [subStep, withMajor, read1_nil]; exact SubOk.err _ _ _ _ _
        | cons b r =>
          simp only [subStep, withMajor, read1_cons]
          exact SubOk.of_av_in rfl (acceptValue_ok coerce 1 _ r b none)

/-- the measure: twice the remaining bytes plus the stack depth -/
def cborMu (s : St) (rd : Rd) : Nat := 2 * rd.data.length + s.stack.length

theorem step_ok (coerce : Bool) (s : St) (bs : Bytes) :
    CL bs.length (step coerce s ⟨bs, none, 0⟩).rd ∧
    ∀ t, (step coerce s ⟨bs, none, 0⟩).ret = .tok t false →
      cborMu (step coerce s ⟨bs, none, 0⟩).st (step coerce s ⟨bs, none, 0⟩).rd < cborMu s ⟨bs, none, 0⟩ := by
  obtain ⟨hcl, hcase⟩ := subStep_ok coerce s bs
  unfold step cborMu
  simp only
  generalize subStep coerce s ⟨bs, none, 0⟩ = o at hcl hcase
  obtain ⟨st, rd, ret, al⟩ := o
  simp only at hcl hcase
  cases ret with
  | err e => exact ⟨hcl, fun t h => by simp at h⟩
  | tok t d =>
    cases d with
    | false =>
      refine ⟨hcl, fun t' _ => ?_⟩
      rcases hcase with ⟨e, he⟩ | h | ⟨_, t2, h2⟩
      · simp at he
      · simp only; omega
      · simp at h2
    | true =>
      simp only
      obtain ⟨stk, ph, lf⟩ := st
      cases stk with
      | nil => exact ⟨hcl, fun t h => by simp at h⟩
      | cons p rest =>
        cases rest with
        | nil => exact ⟨hcl, fun t h => by simp at h⟩
        | cons q rest' =>
          refine ⟨hcl, fun t' _ => ?_⟩
          have := hcl.2.2
          rcases hcase with ⟨e, he⟩ | h | ⟨hs, _⟩
          · simp at he
          · simp only [List.length_cons] at h ⊢; omega
          · simp only at hs
            rw [← hs]
            simp only [List.length_cons]; omega

/-- `run` from a clean reader ends on a clean reader -/
theorem cbor_srcRun_clean (coerce : Bool) : ∀ (f : Nat) (s : St) (bs : Bytes),
    CL bs.length (srcRun (Pump.cborSrc coerce) f s ⟨bs, none, 0⟩).2.2
  | 0, s, bs => by simp only [srcRun]; exact CL.mk' _ _ (Nat.le_refl _)
  | f+1, s, bs => by
    have hst := (step_ok coerce s bs).1
    simp only [srcRun, Pump.cborSrc]
    cases hr : (step coerce s ⟨bs, none, 0⟩).ret with
    | err e => exact hst
    | tok t d =>
      cases d with
      | true => exact hst
      | false =>
        simp only
        rw [hst.eta]
        exact (cbor_srcRun_clean coerce f _ _).mono hst.2.2

/-- fuel above the measure is irrelevant -/
theorem cbor_srcRun_indep (coerce : Bool) (f f' : Nat) (s : St) (bs : Bytes)
    (h1 : cborMu s ⟨bs, none, 0⟩ < f) (h2 : cborMu s ⟨bs, none, 0⟩ < f') :
    srcRun (Pump.cborSrc coerce) f s ⟨bs, none, 0⟩ = srcRun (Pump.cborSrc coerce) f' s ⟨bs, none, 0⟩ := by
  refine srcRun_indep (Pump.cborSrc coerce) cborMu (fun _ rd => rd.fault = none ∧ rd.pb = 0) ?_ f f' s _ ⟨rfl, rfl⟩ h1 h2
  intro s rd s' rd' t hi hs
  obtain ⟨d, fl, pb⟩ := rd
  obtain ⟨hf, hp⟩ := hi
  simp only at hf hp
  subst hf; subst hp
  obtain ⟨hcl, hlt⟩ := step_ok coerce s d
  simp only [Pump.cborSrc] at hs
  cases hr : (step coerce s ⟨d, none, 0⟩).ret with
  | err e => rw [hr] at hs; simp at hs
  | tok t2 d2 =>
    rw [hr] at hs
    simp only [Pump.SrcStep.tok.injEq] at hs
    obtain ⟨rfl, rfl, rfl, rfl⟩ := hs
    exact ⟨⟨hcl.1, hcl.2.1⟩, hlt _ hr⟩

end Refmt.PumpL
