/-
  Stateful object unmarshaller: the statements of the simulation, by the functional model's fuel `n`.
    `SimV n` : Reset-then-pump of a configured machine  ~  `unmV n`
    `SimB n` : Reset of the leaf below same-row wrappers, then pump  ~  `unmBare n`
  `Agree` : how a run of the stateful model (`x`) corresponds to a result `r` of the functional model; when the value is
  complete the driver continues as `kont` says, on rows that differ from the initial ones only from the machine's row on,
  that row keeping its configuration (`SameCfg`).
-/
import RefmtProofs.Lemmas.UnmarshalMachWr
set_option linter.unusedSimpArgs false
set_option linter.unusedVariables false
namespace Refmt.UMachL
open Refmt Refmt.Obj Refmt.Obj.UM

/-- the configuration fields (those `requisitionMachine` writes) agree -/
def SameCfg (row row' : URow) : Prop :=
  row'.ptr.mach = row.ptr.mach ∧ row'.ptr.peelCount = row.ptr.peelCount ∧ row'.prim.ty = row.prim.ty ∧ row'.prim.anyKind = row.prim.anyKind ∧ row'.err = row.err ∧
  row'.struct.fields = row.struct.fields ∧ row'.transform.trFunc = row.transform.trFunc ∧
  row'.transform.recv_rt = row.transform.recv_rt ∧ row'.transform.delegate = row.transform.delegate

theorem SameCfg.refl (row : URow) : SameCfg row row := ⟨rfl, rfl, rfl, rfl, rfl, rfl, rfl, rfl, rfl⟩
theorem SameCfg.trans {r1 r2 r3 : URow} (h1 : SameCfg r1 r2) (h2 : SameCfg r2 r3) : SameCfg r1 r3 := by
  obtain ⟨a0, a1, a2, a3, a4, a5, a6, a7, a8⟩ := h1
  obtain ⟨b0, b1, b2, b3, b4, b5, b6, b7, b8⟩ := h2
  exact ⟨b0.trans a0, b1.trans a1, b2.trans a2, b3.trans a3, b4.trans a4, b5.trans a5, b6.trans a6, b7.trans a7,
    b8.trans a8⟩

theorem CfgLeaf.same {row row' : URow} {base k M} (h : CfgLeaf row base k M) (hs : SameCfg row row') :
    CfgLeaf row' base k M := by
  obtain ⟨a0, a1, a2, a3, a4, a5, a6, a7, a8⟩ := hs
  cases M <;> simp_all [CfgLeaf]

theorem CfgBare.same {ts : Types} {a : Atlas} {row row' : URow} {base k M} (h : CfgBare ts a row base k M)
    (hs : SameCfg row row') : CfgBare ts a row' base k M := by
  cases M with
  | wildcard => exact h
  | transform fn uty =>
    obtain ⟨h1, h2, h3, k', h4, h5⟩ := h
    obtain ⟨a0, a1, a2, a3, a4, a5, a6, a7, a8⟩ := hs
    exact ⟨h1, a6.trans h2, a7.trans h3, k', a8.trans h4, h5.same ⟨a0, a1, a2, a3, a4, a5, a6, a7, a8⟩⟩
  | _ => simp only [CfgBare] at h ⊢; exact CfgLeaf.same h hs

variable (ts : Types) (a : Atlas) (trs : Trs) (it : IfaceTys)

theorem CfgV.same {row row' : URow} {id ck} (h : CfgV ts a row id ck) (hs : SameCfg row row') :
    CfgV ts a row' id ck := by
  obtain ⟨k, hb, hp⟩ := h
  refine ⟨k, hb.same hs, ?_⟩
  rw [hs.1, hs.2.1]; exact hp

/-- Reset the leaf `m` (below the same-row wrappers of `c`), then pump with `c` current -/
def rtpB (fr sf1 sf : Nat) (R : List URow) (stk : List URef) (be : Option XFail) (c m : URef) (id : Nat) (cur : Val) :
    List Tok → URes
  | [] => .more 0
  | t :: rest =>
    match resetM ts a fr m id cur R with
    | .error x => x.toURes
    | .ok R1 => pump1 ts a trs it sf1 sf ⟨R1, stk, some c, be⟩ (t :: rest)

theorem rtp_eq (fr sf1 sf R stk be c id cur toks) :
    rtp ts a trs it fr sf1 sf R stk be c id cur toks = rtpB ts a trs it fr sf1 sf R stk be c c id cur toks := by
  cases toks <;> rfl

/-- run `x` of the stateful model against result `r` of the functional one; the machine lives in row `lo.length` -/
def Agree (sf : Nat) (be : Option XFail) (stk : List URef) (lo : List URow) (row : URow) (F : Val → Option Val)
    (w : Val → Val) (x r : URes) : Prop :=
  match r with
  | .panic _ => True
  | .more u => x = .more u
  | .err u => x = .err u
  | .ok v rest u => 1 ≤ u ∧
      match F v with
      | some v' => ∃ row' hi' fa, SameCfg row row' ∧ 4 ≤ fa ∧
          x = (kont ts a trs it fa sf be stk (w v') (lo ++ row' :: hi') rest).shift (u - 1)
      | none => x = .err (u - 1)

def SimV (S : List Nat) (n : Nat) : Prop :=
  ∀ id ∈ S, ∀ (cur : Val) (lo : List URow) (row : URow) (hi : List URow) (stk : List URef) (be : Option XFail) (ck : MK)
    (toks : List Tok) (fr sf1 sf : Nat), CfgV ts a row id ck → 8 ≤ fr → 9 ≤ sf1 → 14 ≤ sf →
    Agree ts a trs it sf be stk lo row some _root_.id
      (rtp ts a trs it fr sf1 sf (lo ++ row :: hi) stk be ⟨lo.length, ck⟩ id cur toks) (unmV ts a trs it n id cur toks)

def SimB (S : List Nat) (wi : Option Nat) (n : Nat) : Prop :=
  ∀ base, okMach ts a S wi (upickBare ts a base) →
    ∀ (cur : Val) (lo : List URow) (row : URow) (hi : List URow) (stk : List URef) (be : Option XFail) (c : URef) (k : MK)
    (w : Val → Val) (d : Nat) (toks : List Tok) (fr sf1 sf : Nat),
    CfgBare ts a row base k (upickBare ts a base) → WrP c lo row k w d → 7 ≤ fr → 8 ≤ sf1 → 14 ≤ sf →
    Agree ts a trs it sf be stk lo row some w
      (rtpB ts a trs it fr sf1 sf (lo ++ row :: hi) stk be c ⟨lo.length, k⟩ base cur toks)
      (unmBare ts a trs it n base (upickBare ts a base) cur toks)

variable {ts a trs it}

/-- what a wrapper does to the functional model's result -/
def mapV (g : Val → Val) : URes → URes
  | .ok v rest u => .ok (g v) rest u
  | y => y

/-- from the bare result to the pointer machine's -/
theorem Agree.toV {sf be stk lo row row0 g x r} (h : Agree ts a trs it sf be stk lo row some g x r)
    (hr : SameCfg row0 row) :
    Agree ts a trs it sf be stk lo row0 some id x (mapV g r) := by
  cases r with
  | ok v rest u =>
    obtain ⟨h3, row', hi', fa, h1, h2, h4⟩ := h
    exact ⟨h3, row', hi', fa, hr.trans h1, h2, h4⟩
  | more u => exact h
  | err u => exact h
  | panic u => trivial

end Refmt.UMachL
