/-
  The decimal that `FloatText.shortest` picks parses back (`FloatText.parseDecimal`) to the float it was made from:
  the candidate passed the `inside` test of `shortestAux`, i.e. lies in the rounding interval, and
  `roundRat` rounds everything in that interval to the float (`roundRat_spec`).
-/
import RefmtProofs.Lemmas.FloatRound
import RefmtProofs.Lemmas.FloatShortest
set_option linter.unusedSimpArgs false
set_option linter.unusedVariables false
namespace Refmt.FloatL
open Refmt Refmt.FloatText Refmt.JsonDec Refmt.C03L

/-! ### canonical form of `decompose` -/

theorem decompose_canon (abs : Nat) (h0 : abs ≠ 0) (hfin : abs / p52 < 2047) :
    1 ≤ (decompose abs).1 ∧ (decompose abs).1 < 9007199254740992 ∧
    -1074 ≤ (decompose abs).2 ∧ (decompose abs).2 ≤ 971 ∧
    ((decompose abs).1 < 4503599627370496 → (decompose abs).2 = -1074) ∧
    (((abs % p52 == 0) && decide (abs / p52 > 1)) = true ↔
      ((decompose abs).1 = 4503599627370496 ∧ -1074 < (decompose abs).2)) ∧
    ((decompose abs).2 + 1074).toNat * p52 + (decompose abs).1 = abs := by
  unfold decompose p52 at *
  simp only
  have hmod : abs / 4503599627370496 % 2048 = abs / 4503599627370496 := Nat.mod_eq_of_lt (by omega)
  rw [hmod]
  by_cases hex : abs / 4503599627370496 = 0
  · simp only [hex, beq_self_eq_true, if_true]
    have : abs % 4503599627370496 = abs := by omega
    refine ⟨by omega, by omega, by omega, by omega, fun _ => trivial, ?_, ?_⟩
    · simp
    · simp; omega
  · have : (abs / 4503599627370496 == 0) = false := by simp [hex]
    simp only [this, Bool.false_eq_true, if_false]
    have hlt := Nat.mod_lt abs (show 0 < 4503599627370496 by decide)
    refine ⟨by omega, by omega, by omega, by omega, fun h => by omega, ?_, ?_⟩
    · simp only [Bool.and_eq_true, beq_iff_eq, decide_eq_true_eq]
      constructor
      · intro h; omega
      · intro h; omega
    · omega

theorem pow_if_num (s : Int) : (if s ≥ 0 then 2 ^ s.toNat else 1) = 2 ^ s.toNat := by
  split
  · rfl
  · have : s.toNat = 0 := by omega
    rw [this]; rfl

theorem pow_if_den (s : Int) : (if s ≥ 0 then 1 else 2 ^ (-s).toNat) = 2 ^ (-s).toNat := by
  split
  · have : (-s).toNat = 0 := by omega
    rw [this]; rfl
  · rfl

/-! ### inside the interval, sign-free -/

/-- the decimal `d * 10^e10` lies in the rounding interval described by `sd` -/
def InsideV (sd : SD) (d : Nat) (e10 : Int) : Prop :=
  ∀ a b : Nat, (a : Int) - b = e10 →
    (sd.loN * 10 ^ b ≤ d * 10 ^ a * sd.den ∧ (sd.incl = false → sd.loN * 10 ^ b < d * 10 ^ a * sd.den)) ∧
    (d * 10 ^ a * sd.den ≤ sd.hiN * 10 ^ b ∧ (sd.incl = false → d * 10 ^ a * sd.den < sd.hiN * 10 ^ b))

theorem insideB_lower (d : SD) (k : Int) (c : Nat) (h : insideB d k c = true) (a b : Nat) (hab : (a : Int) - b = k) :
    d.loN * 10 ^ b ≤ c * 10 ^ a * d.den ∧ (d.incl = false → d.loN * 10 ^ b < c * 10 ^ a * d.den) := by
  unfold insideB at h
  simp only at h
  have e1 : ∀ x, c * 10 ^ x * d.den = (c * d.den) * 10 ^ x := fun x => by ring
  rw [e1]
  by_cases hk : k ≥ 0
  · simp only [hk, if_true] at h
    have hle : d.loN * 1 ≤ c * 10 ^ k.toNat * d.den ∧ (d.incl = false → d.loN * 1 < c * 10 ^ k.toNat * d.den) := by
      cases hi : d.incl <;> simp only [hi, if_true, if_false, Bool.false_eq_true, Bool.and_eq_true, qle, qlt,
        decide_eq_true_eq] at h
      · exact ⟨Nat.le_of_lt h.1, fun _ => h.1⟩
      · exact ⟨h.1, fun hc => by simp at hc⟩
    rw [e1] at hle
    constructor
    · exact scale_le 10 d.loN (c * d.den) 0 k.toNat b a (by decide) (by omega) (by simpa using hle.1)
    · intro hi
      exact scale_lt 10 d.loN (c * d.den) 0 k.toNat b a (by decide) (by omega) (by simpa using hle.2 hi)
  · simp only [hk, if_false] at h
    have hle : d.loN * 10 ^ (-k).toNat ≤ c * d.den ∧ (d.incl = false → d.loN * 10 ^ (-k).toNat < c * d.den) := by
      cases hi : d.incl <;> simp only [hi, if_true, if_false, Bool.false_eq_true, Bool.and_eq_true, qle, qlt,
        decide_eq_true_eq] at h
      · exact ⟨Nat.le_of_lt h.1, fun _ => h.1⟩
      · exact ⟨h.1, fun hc => by simp at hc⟩
    constructor
    · exact scale_le 10 d.loN (c * d.den) (-k).toNat 0 b a (by decide) (by omega) (by simpa using hle.1)
    · intro hi
      exact scale_lt 10 d.loN (c * d.den) (-k).toNat 0 b a (by decide) (by omega) (by simpa using hle.2 hi)

theorem insideB_insideV (sd : SD) (k : Int) (c : Nat) (h : insideB sd k c = true) : InsideV sd c k :=
  fun a b hab => ⟨insideB_lower sd k c h a b hab, insideB_upper sd k c h a b hab⟩

/-- moving trailing zeros of the digits into the exponent -/
theorem insideV_strip (sd : SD) (d j : Nat) (k : Int) (h : InsideV sd (d * 10 ^ j) k) : InsideV sd d (k + j) := by
  intro a b hab
  obtain ⟨⟨h1, h1'⟩, ⟨h2, h2'⟩⟩ := h a (b + j) (by push_cast; omega)
  have hp : 0 < 10 ^ j := Nat.pow_pos (by decide)
  have e1 : sd.loN * 10 ^ (b + j) = sd.loN * 10 ^ b * 10 ^ j := by rw [Nat.pow_add]; ring
  have e2 : d * 10 ^ j * 10 ^ a * sd.den = d * 10 ^ a * sd.den * 10 ^ j := by ring
  have e3 : sd.hiN * 10 ^ (b + j) = sd.hiN * 10 ^ b * 10 ^ j := by rw [Nat.pow_add]; ring
  rw [e1, e2] at h1 h1'
  rw [e2, e3] at h2 h2'
  exact ⟨⟨Nat.le_of_mul_le_mul_right h1 hp, fun hi => Nat.lt_of_mul_lt_mul_right (h1' hi)⟩,
    ⟨Nat.le_of_mul_le_mul_right h2 hp, fun hi => Nat.lt_of_mul_lt_mul_right (h2' hi)⟩⟩

theorem lt_pow_natDigits (n : Nat) : n < 10 ^ (natDigits n).length := by
  induction n using Nat.strongRecOn with
  | _ n ih =>
    by_cases h : n < 10
    · rw [natDigits_lt n h]; simpa using h
    · rw [natDigits_ge n h, List.length_append, List.length_singleton, Nat.pow_succ]
      have := ih (n / 10) (by omega)
      omega

theorem pow1076_lt : (2:Nat) ^ 1076 < 10 ^ 801 := by
  have h2 : (2:Nat) ^ 1076 ≤ 2 ^ 1077 := Nat.pow_le_pow_right (by decide) (by decide)
  have h3 : (2:Nat) ^ 1077 = (2 ^ 3) ^ 359 := by rw [← Nat.pow_mul]
  have h4 : (10:Nat) ^ 801 = 10 ^ 359 * 10 ^ 442 := by rw [← Nat.pow_add]
  rw [h4]
  have h6 : ((2:Nat) ^ 3) ^ 359 ≤ 10 ^ 359 := Nat.pow_le_pow_left (by norm_num) 359
  have h7 : (1 : Nat) < 10 ^ 442 := Nat.one_lt_pow (by omega) (by omega)
  calc 2 ^ 1076 ≤ (2 ^ 3) ^ 359 := by rw [← h3]; exact h2
    _ ≤ 10 ^ 359 := h6
    _ = 10 ^ 359 * 1 := by simp
    _ < 10 ^ 359 * 10 ^ 442 := Nat.mul_lt_mul_of_pos_left h7 (Nat.pow_pos (by decide))

end Refmt.FloatL

namespace Refmt.FloatL
open Refmt Refmt.FloatText Refmt.JsonDec Refmt.C03L

theorem two1024_eq : (2:Nat) ^ 1024 = 36028797018963968 * 2 ^ 969 := by
  rw [show (36028797018963968 : Nat) = 2 ^ 55 by norm_num, ← Nat.pow_add]

/-- A decimal inside the rounding interval of the finite non-zero magnitude `abs` parses back to `abs`. -/
theorem insideV_parse (abs : Nat) (h0 : abs ≠ 0) (hfin : abs / p52 < 2047) (d : Nat) (e10 : Int)
    (h : InsideV (sdOf abs) d e10) : parseDecimal d e10 = (abs, false) := by
  obtain ⟨hm1, hm2, he1, he2, hsub, hbl, hbits⟩ := decompose_canon abs h0 hfin
  unfold sdOf at h
  generalize (decompose abs).1 = m at *
  generalize (decompose abs).2 = e at *
  generalize ((abs % p52 == 0) && decide (abs / p52 > 1)) = bl at *
  have hloN : (mkSD m e bl).loN = (if bl then 4 * m - 1 else 4 * m - 2) * 2 ^ (e - 2).toNat := by
    rw [mkSD_loN, pow_if_num]
  have hhiN : (mkSD m e bl).hiN = (4 * m + 2) * 2 ^ (e - 2).toNat := by
    rw [mkSD_hiN, pow_if_num]
  have hdenE : (mkSD m e bl).den = 2 ^ (-(e - 2)).toNat := by
    rw [mkSD_den, pow_if_den]
  have hincl : (mkSD m e bl).incl = (m % 2 == 0) := rfl
  have hodd : m % 2 = 1 → (mkSD m e bl).incl = false := by
    intro ho; rw [hincl]; simp [ho]
  generalize mkSD m e bl = sd at *
  generalize hA : (e - 2).toNat = A at *
  generalize hB : (-(e - 2)).toNat = B at *
  have hAB : (A : Int) - B = e - 2 := by omega
  have hloC : 1 ≤ (if bl then 4 * m - 1 else 4 * m - 2) := by split <;> omega
  generalize hloCdef : (if bl then 4 * m - 1 else 4 * m - 2) = loC at *
  have hlopos : 0 < sd.loN := by rw [hloN]; exact Nat.mul_pos hloC (Nat.pow_pos (by decide))
  obtain ⟨⟨g1, g1'⟩, ⟨g2, g2'⟩⟩ := h e10.toNat (-e10).toNat (by omega)
  have hd : d ≠ 0 := by
    intro hd; subst hd
    have : 0 < sd.loN * 10 ^ (-e10).toNat := Nat.mul_pos hlopos (Nat.pow_pos (by decide))
    simp at g1
    omega
  rw [← hbits]
  unfold parseDecimal
  rw [if_neg hd]
  by_cases he10 : e10 ≥ 0
  · rw [if_pos he10]
    have hb0 : (-e10).toNat = 0 := by omega
    rw [hb0] at g1 g1' g2 g2'
    simp only [Nat.pow_zero, Nat.mul_one] at g1 g1' g2 g2'
    rw [hloN, hdenE] at g1 g1'
    rw [hhiN, hdenE] at g2 g2'
    have hle : ¬ e10 > 400 := by
      intro hc
      have k1 : (10:Nat) ^ 401 ≤ 10 ^ e10.toNat := Nat.pow_le_pow_right (by decide) (by omega)
      have k2 : 10 ^ e10.toNat ≤ d * 10 ^ e10.toNat := Nat.le_mul_of_pos_left _ (Nat.pos_of_ne_zero hd)
      have k3 : d * 10 ^ e10.toNat ≤ d * 10 ^ e10.toNat * 2 ^ B := Nat.le_mul_of_pos_right _ (Nat.pow_pos (by decide))
      have k4 : (4 * m + 2) * 2 ^ A < 36028797018963968 * 2 ^ A :=
        Nat.mul_lt_mul_of_pos_right (by omega) (Nat.pow_pos (by decide))
      have k5 : 36028797018963968 * 2 ^ A ≤ 36028797018963968 * 2 ^ 969 :=
        Nat.mul_le_mul_left _ (Nat.pow_le_pow_right (by decide) (by omega))
      have := two1024_lt
      have := two1024_eq
      omega
    rw [if_neg hle]
    apply roundRat_spec (d * 10 ^ e10.toNat) 1 m e A B hAB (by decide) hm1 hm2 he1 he2 hsub bl hbl
    · rw [hloCdef]; simpa using g1
    · intro ho; rw [hloCdef]; simpa using g1' (hodd ho)
    · simpa [Nat.mul_assoc] using g2
    · intro ho; simpa [Nat.mul_assoc] using g2' (hodd ho)
  · rw [if_neg he10]
    have ha0 : e10.toNat = 0 := by omega
    rw [ha0] at g1 g1' g2 g2'
    simp only [Nat.pow_zero, Nat.mul_one] at g1 g1' g2 g2'
    rw [hloN, hdenE] at g1 g1'
    rw [hhiN, hdenE] at g2 g2'
    have hle : ¬ (-e10 > 800 + ((natDigits d).length : Int)) := by
      intro hc
      have hlen := lt_pow_natDigits d
      generalize (natDigits d).length = L at *
      have k1 : (10:Nat) ^ (801 + L) ≤ 10 ^ (-e10).toNat := Nat.pow_le_pow_right (by decide) (by omega)
      have k2 : 10 ^ (-e10).toNat ≤ loC * 2 ^ A * 10 ^ (-e10).toNat :=
        Nat.le_mul_of_pos_left _ (Nat.mul_pos hloC (Nat.pow_pos (by decide)))
      have k3 : d * 2 ^ B < 10 ^ L * 2 ^ B := Nat.mul_lt_mul_of_pos_right hlen (Nat.pow_pos (by decide))
      have k4 : 10 ^ L * 2 ^ B ≤ 10 ^ L * 2 ^ 1076 :=
        Nat.mul_le_mul_left _ (Nat.pow_le_pow_right (by decide) (by omega))
      have k5 : 10 ^ L * 2 ^ 1076 < 10 ^ L * 10 ^ 801 :=
        Nat.mul_lt_mul_of_pos_left pow1076_lt (Nat.pow_pos (by decide))
      have k6 : (10:Nat) ^ (801 + L) = 10 ^ L * 10 ^ 801 := by rw [Nat.pow_add]; ring
      omega
    rw [if_neg hle]
    apply roundRat_spec d (10 ^ (-e10).toNat) m e A B hAB (Nat.pos_iff_ne_zero.1 (Nat.pow_pos (by decide)))
      hm1 hm2 he1 he2 hsub bl hbl
    · rw [hloCdef]
      calc loC * 10 ^ (-e10).toNat * 2 ^ A = loC * 2 ^ A * 10 ^ (-e10).toNat := by ring
        _ ≤ d * 2 ^ B := g1
    · intro ho
      rw [hloCdef]
      calc loC * 10 ^ (-e10).toNat * 2 ^ A = loC * 2 ^ A * 10 ^ (-e10).toNat := by ring
        _ < d * 2 ^ B := g1' (hodd ho)
    · calc d * 2 ^ B ≤ (4 * m + 2) * 2 ^ A * 10 ^ (-e10).toNat := g2
        _ = (4 * m + 2) * 10 ^ (-e10).toNat * 2 ^ A := by ring
    · intro ho
      calc d * 2 ^ B < (4 * m + 2) * 2 ^ A * 10 ^ (-e10).toNat := g2' (hodd ho)
        _ = (4 * m + 2) * 10 ^ (-e10).toNat * 2 ^ A := by ring

end Refmt.FloatL

namespace Refmt.FloatL
open Refmt Refmt.FloatText Refmt.JsonDec Refmt.C03L

/-- `roundRat_spec` in terms of the bit pattern: `v` is a finite non-zero magnitude, `sdOf v` its rounding interval
    `[loN/den, hiN/den]` (as `mkSD` builds it, closed iff the significand is even).  Every positive rational in
    that interval is rounded to `v`. -/
theorem roundRat_bits (v : Nat) (hv0 : v ≠ 0) (hfin : v / p52 < 2047) (num den : Nat) (hden : den ≠ 0)
    (hlo : (sdOf v).loN * den ≤ num * (sdOf v).den)
    (hlo' : (sdOf v).incl = false → (sdOf v).loN * den < num * (sdOf v).den)
    (hhi : num * (sdOf v).den ≤ (sdOf v).hiN * den)
    (hhi' : (sdOf v).incl = false → num * (sdOf v).den < (sdOf v).hiN * den) :
    roundRat num den = (v, false) := by
  obtain ⟨hm1, hm2, he1, he2, hsub, hbl, hbits⟩ := decompose_canon v hv0 hfin
  unfold sdOf at hlo hlo' hhi hhi'
  generalize (decompose v).1 = m at *
  generalize (decompose v).2 = e at *
  generalize ((v % p52 == 0) && decide (v / p52 > 1)) = bl at *
  have hloN : (mkSD m e bl).loN = (if bl then 4 * m - 1 else 4 * m - 2) * 2 ^ (e - 2).toNat := by
    rw [mkSD_loN, pow_if_num]
  have hhiN : (mkSD m e bl).hiN = (4 * m + 2) * 2 ^ (e - 2).toNat := by
    rw [mkSD_hiN, pow_if_num]
  have hdenE : (mkSD m e bl).den = 2 ^ (-(e - 2)).toNat := by
    rw [mkSD_den, pow_if_den]
  have hincl : (mkSD m e bl).incl = (m % 2 == 0) := rfl
  have hodd : m % 2 = 1 → (mkSD m e bl).incl = false := by
    intro ho; rw [hincl]; simp [ho]
  rw [hloN, hdenE] at hlo hlo'
  rw [hhiN, hdenE] at hhi hhi'
  rw [← hbits]
  apply roundRat_spec num den m e (e - 2).toNat (-(e - 2)).toNat (by omega) hden hm1 hm2 he1 he2 hsub bl hbl
  · calc (if bl then 4 * m - 1 else 4 * m - 2) * den * 2 ^ (e - 2).toNat
        = (if bl then 4 * m - 1 else 4 * m - 2) * 2 ^ (e - 2).toNat * den := by ring
      _ ≤ num * 2 ^ (-(e - 2)).toNat := hlo
  · intro ho
    calc (if bl then 4 * m - 1 else 4 * m - 2) * den * 2 ^ (e - 2).toNat
        = (if bl then 4 * m - 1 else 4 * m - 2) * 2 ^ (e - 2).toNat * den := by ring
      _ < num * 2 ^ (-(e - 2)).toNat := hlo' (hodd ho)
  · calc num * 2 ^ (-(e - 2)).toNat ≤ (4 * m + 2) * 2 ^ (e - 2).toNat * den := hhi
      _ = (4 * m + 2) * den * 2 ^ (e - 2).toNat := by ring
  · intro ho
    calc num * 2 ^ (-(e - 2)).toNat < (4 * m + 2) * 2 ^ (e - 2).toNat * den := hhi' (hodd ho)
      _ = (4 * m + 2) * den * 2 ^ (e - 2).toNat := by ring

end Refmt.FloatL
