/-
  Stateful object unmarshaller: the map machine's `Reset`, `Step` and `absorb`, one equation per case.
-/
import RefmtProofs.Lemmas.UnmarshalMachUnionSimBA
set_option linter.unusedSimpArgs false
set_option linter.unusedVariables false
namespace Refmt.UMachU
open Refmt Refmt.Obj Refmt.Obj.UM Refmt.UMachL

variable {ts : Types} {a : Atlas} {trs : Trs} {it : IfaceTys}

/-- a row with its map machine replaced -/
def rowMp (row : URow) (mm : MapM) : URow := { row with map := mm }

@[simp] theorem rowMp_ptr (row mm) : (rowMp row mm).ptr = row.ptr := rfl
@[simp] theorem rowMp_map (row mm) : (rowMp row mm).map = mm := rfl
theorem rowMp_same (row mm) : SameCfg row (rowMp row mm) := ⟨rfl, rfl, rfl, rfl, rfl, rfl, rfl, rfl, rfl, rfl, rfl, rfl⟩

def mpReset (ts : Types) (v : Val) (kt vt : Nat) (kf : Option Nat) (j : Nat) (cck : MK) : MapM :=
  { target_rv := v, value_rt := vt, valueMach := some ⟨j, cck⟩, valueZero_rv := zeroVal ts 64 vt,
    key_rv := zeroVal ts 64 kt, keyDestringer := kf, tmp_rv := zeroVal ts 64 vt, phase := .initial }
def mpOpen (mm : MapM) : MapM :=
  { mm with phase := .acceptKeyOrClose, target_rv := .map (some (mapEntries mm.target_rv)) }
def mpCommit (mm : MapM) : MapM :=
  { mm with target_rv := .map (some (mapEntries mm.target_rv ++ [(mm.key_rv, mm.tmp_rv)])) }
def mpKey (mm : MapM) (k : Val) : MapM := { mm with key_rv := k, phase := .acceptValue }
def mpVal (mm : MapM) : MapM := { mm with phase := .acceptAnotherKeyOrClose, tmp_rv := mm.valueZero_rv }
def mpAbs (mm : MapM) (v : Val) : MapM := { mm with tmp_rv := v }

/-- the row the key phases work on: a pending entry is committed first -/
def effRow (row : URow) : URow :=
  match row.map.phase with
  | .acceptAnotherKeyOrClose => rowMp row (mpCommit row.map)
  | _ => row

theorem effRow_same (row : URow) : SameCfg row (effRow row) := by
  unfold effRow; split
  · exact rowMp_same _ _
  · exact SameCfg.refl _

theorem effRow_ptr (row : URow) : (effRow row).ptr = row.ptr := by
  unfold effRow; split <;> rfl

theorem effRow_pw (row : URow) :
    ((effRow row).ptr, (effRow row).wild, (effRow row).transform, (effRow row).union) = (row.ptr, row.wild, row.transform, row.union) := by
  unfold effRow; split <;> rfl

theorem map_reset_ok {f : Nat} {lo hi : List URow} {row : URow} {rt kt vt : Nat} {kf : Option Nat} {v : Val}
    {crow : URow} {cck : MK} (hrt : ts.get rt = .map kt vt) (hkf : keyFnOfU ts a kt = some kf)
    (hreq : requisition ts a f (lo ++ row :: hi) vt = .ok ((lo ++ row :: hi) ++ [crow], ⟨(lo ++ row :: hi).length, cck⟩)) :
    resetM ts a (f+1) ⟨lo.length, .map⟩ rt v (lo ++ row :: hi)
      = .ok (lo ++ rowMp row (mpReset ts v kt vt kf (lo ++ row :: hi).length cck) :: (hi ++ [crow])) := by
  simp only [resetM, resetBody, getRow, resetMap, hrt, hreq, hkf, updRow_snoc]
  rfl

theorem map_reset_err {f : Nat} {lo hi : List URow} {row : URow} {rt kt vt : Nat} {v : Val}
    {crow : URow} {cck : MK} (hrt : ts.get rt = .map kt vt) (hkf : keyFnOfU ts a kt = none)
    (hreq : requisition ts a f (lo ++ row :: hi) vt = .ok ((lo ++ row :: hi) ++ [crow], ⟨(lo ++ row :: hi).length, cck⟩)) :
    resetM ts a (f+1) ⟨lo.length, .map⟩ rt v (lo ++ row :: hi) = .error (.f .err) := by
  simp only [resetM, resetBody, getRow, resetMap, hrt, hreq, hkf]

theorem map_step_init_open {f : Nat} {lo hi : List URow} {row : URow} {stk st be} {t : Tok} {len : Int}
    (hph : row.map.phase = .initial) (ht : t.body = .mapOpen len) :
    stepM ts a trs it (f+1) ⟨lo.length, .map⟩ ⟨lo ++ row :: hi, stk, st, be⟩ t
      = .ok ⟨none, ⟨lo ++ rowMp row (mpOpen row.map) :: hi, stk, st, be⟩⟩ := by
  simp only [stepM, stepBody, getRow, stepMap, hph, ht, cont, UState.upd, updRow_at]
  rfl

theorem map_step_init_null {f : Nat} {lo hi : List URow} {row : URow} {stk st be} {t : Tok}
    (hph : row.map.phase = .initial) (ht : t.body = .null) :
    stepM ts a trs it (f+1) ⟨lo.length, .map⟩ ⟨lo ++ row :: hi, stk, st, be⟩ t
      = .ok ⟨some (.map none), ⟨lo ++ row :: hi, stk, st, be⟩⟩ := by
  simp only [stepM, stepBody, getRow, stepMap, hph, ht, fin]

theorem map_step_init_other {f : Nat} {lo hi : List URow} {row : URow} {stk st be} {t : Tok}
    (hph : row.map.phase = .initial) (h1 : ∀ len, t.body ≠ .mapOpen len) (h2 : t.body ≠ .null) :
    stepM ts a trs it (f+1) ⟨lo.length, .map⟩ ⟨lo ++ row :: hi, stk, st, be⟩ t = .error (.f .err) := by
  simp only [stepM, stepBody, getRow, stepMap, hph]
  rfl

/-- the key a string token denotes -/
def keyOf (trs : Trs) (kf : Option Nat) (x : Bytes) : Option Val :=
  match kf with
  | none => some (.str x)
  | some fn => trs.u fn (.str x)

theorem map_step_keyphase {f : Nat} {lo hi : List URow} {row : URow} {stk st be} {t : Tok}
    (hph : row.map.phase = .acceptKeyOrClose ∨ row.map.phase = .acceptAnotherKeyOrClose) :
    stepM ts a trs it (f+1) ⟨lo.length, .map⟩ ⟨lo ++ row :: hi, stk, st, be⟩ t
      = mapKeyOrClose trs ⟨lo.length, .map⟩ (effRow row).map ⟨lo ++ effRow row :: hi, stk, st, be⟩ t := by
  rcases hph with h | h
  · simp only [stepM, stepBody, getRow, stepMap, h, effRow]
  · simp only [stepM, stepBody, getRow, stepMap, h, effRow, UState.upd, updRow_at]
    simp [rowMp, mpCommit, h]

theorem mapKey_close {m : URef} {mm : MapM} {R : List URow} {stk st be} {t : Tok} (ht : t.body = .mapClose) :
    mapKeyOrClose trs m mm ⟨R, stk, st, be⟩ t = .ok ⟨some mm.target_rv, ⟨release R, stk, st, be⟩⟩ := by
  simp only [mapKeyOrClose, ht, fin]

theorem mapKey_other {m : URef} {mm : MapM} {s : UState} {t : Tok} (h1 : t.body ≠ .mapClose)
    (h2 : ∀ x, t.body ≠ .str x) : mapKeyOrClose trs m mm s t = .error (.f .err) := by
  simp only [mapKeyOrClose]
  rfl

theorem mapKey_str {lo hi : List URow} {row : URow} {stk st be} {t : Tok} {x : Bytes} (ht : t.body = .str x) :
    mapKeyOrClose trs ⟨lo.length, .map⟩ row.map ⟨lo ++ row :: hi, stk, st, be⟩ t
      = match keyOf trs row.map.keyDestringer x with
        | none => .error (.f .err)
        | some k =>
          if hasKey k (mapEntries row.map.target_rv) then .error (.f .err)
          else .ok ⟨none, ⟨lo ++ rowMp row (mpKey row.map k) :: hi, stk, st, be⟩⟩ := by
  have fin2 : ∀ k : Val,
      (if hasKey k (mapEntries row.map.target_rv) then xerr
       else cont ((UState.mk (lo ++ row :: hi) stk st be).upd lo.length fun r =>
          { r with map := { r.map with key_rv := k, phase := .acceptValue } }))
      = (if hasKey k (mapEntries row.map.target_rv) then .error (.f .err)
         else .ok ⟨none, ⟨lo ++ rowMp row (mpKey row.map k) :: hi, stk, st, be⟩⟩) := by
    intro k
    split
    · rfl
    · simp only [cont, UState.upd, updRow_at]; rfl
  cases hkd : row.map.keyDestringer with
  | none =>
    simp only [mapKeyOrClose, ht, keyOf, hkd]
    exact fin2 _
  | some fn =>
    simp only [mapKeyOrClose, ht, keyOf, hkd]
    cases trs.u fn (.str x) with
    | none => rfl
    | some k => exact fin2 k

theorem map_step_value {f : Nat} {lo hi : List URow} {row : URow} {stk st be} {t : Tok} {d : URef}
    (hph : row.map.phase = .acceptValue) (hd : row.map.valueMach = some d) :
    stepM ts a trs it (f+1) ⟨lo.length, .map⟩ ⟨lo ++ row :: hi, stk, st, be⟩ t
      = recurse ts a trs it f ⟨lo ++ rowMp row (mpVal row.map) :: hi, stk, st, be⟩ t row.map.valueZero_rv
          row.map.value_rt d := by
  simp only [stepM, stepBody, getRow, stepMap, hph, hd, UState.upd, updRow_at]
  simp [rowMp, mpVal, hd]

theorem map_absorb {f : Nat} {lo hi : List URow} {row : URow} {v : Val} :
    absorbM ts (f+1) ⟨lo.length, .map⟩ v (lo ++ row :: hi) = .ok (lo ++ rowMp row (mpAbs row.map v) :: hi) := by
  simp only [absorbM, absorbBody, getRow, updRow_at]
  rfl

end Refmt.UMachU
