/-
  Lemmas for C01 (CBOR transport): from "every token of the marshaller's output is carriable" plus the
  tree facts of C07 to the hypotheses of C02 (`WFv`, `Supported`, declared lengths ≥ -1).
-/
import RefmtModel
import RefmtProofs.Props.C02
import RefmtProofs.Props.C07
set_option linter.unusedSimpArgs false
set_option linter.unusedVariables false
namespace Refmt.C01L
open Refmt Refmt.Obj

/-- same body as `C01.carryCbor` (that definition lives in the property file; `C01.carryCbor_eq` ties them) -/
def cborOk (t : Tok) : Bool :=
  (match t.body with
   | .uint n => decide (n < two64)
   | .int i => decide (-(two63 : Int) ≤ i) && decide (i < (two63 : Int))
   | .float b => decide (b < two64)
   | .str s => decide (s.length ≤ 33554432)
   | .bytes b => decide (b.length ≤ 33554432)
   | .mapOpen l | .arrOpen l => decide (l < (two63 : Int))
   | _ => true) &&
  (match t.tag with | some g => decide (0 ≤ g) && decide (g < (two63 : Int)) | none => true)

/-- declared lengths are non-negative -/
def lenNN (t : Tok) : Bool :=
  match t.body with
  | .arrOpen l => decide (0 ≤ l)
  | .mapOpen l => decide (0 ≤ l)
  | _ => true

/-! ### the marshaller only declares exact (non-negative) lengths -/

theorem seq_all (p : Tok → Bool) (x : MOut) (f : Unit → MOut) (hx : x.toks.all p = true)
    (hf : (f ()).toks.all p = true) : (x.seq f).toks.all p = true := by
  unfold MOut.seq
  split
  · exact hx
  · simp only [List.all_append, Bool.and_eq_true]; exact ⟨hx, hf⟩

theorem retag_lenNN (tag : Option Int) (o : MOut) (h : o.toks.all lenNN = true) :
    (retagFirst tag o).toks.all lenNN = true := by
  unfold retagFirst
  split
  · rename_i g t rest heq
    rw [heq] at h
    simp only [List.all_cons, Bool.and_eq_true] at h ⊢
    exact ⟨by simpa [lenNN] using h.1, h.2⟩
  · exact h

theorem bad_lenNN (f : Fail) : (MOut.bad f).toks.all lenNN = true := rfl

theorem primTok_lenNN (ts : Types) (id : Nat) (v : Val) : (primTok ts id v).toks.all lenNN = true := by
  unfold primTok; split <;> rfl

section
variable (ts : Types) (a : Atlas) (trs : Trs)

theorem marshal_lenNN_all (fuel : Nat) :
    (∀ id v, (marshalV ts a trs fuel id v).toks.all lenNN = true) ∧
    (∀ id m v, (marshalBare ts a trs fuel id m v).toks.all lenNN = true) ∧
    (∀ e es, (marshalList ts a trs fuel e es).toks.all lenNN = true) ∧
    (∀ e es, (marshalEntries ts a trs fuel e es).toks.all lenNN = true) ∧
    (∀ fs v, (marshalFields ts a trs fuel fs v).toks.all lenNN = true) := by
  induction fuel with
  | zero =>
    refine ⟨?_, ?_, ?_, ?_, ?_⟩ <;> intros <;> simp only [marshalV, marshalBare, marshalList, marshalEntries, marshalFields] <;> rfl
  | succ n ih =>
    obtain ⟨hv, hb, hl, he, hf⟩ := ih
    refine ⟨?_, ?_, ?_, ?_, ?_⟩
    · intro id v
      simp only [marshalV]
      split
      · exact hb _ _ _
      · split
        · rfl
        · exact hb _ _ _
    · intro id m v
      have hclose1 : ∀ (l : Int) (tag : Option Int) (x : MOut) (c : Tok), 0 ≤ l → x.toks.all lenNN = true → lenNN c = true →
          ((MOut.ok [⟨.arrOpen l, tag⟩]).seq fun _ => x.seq fun _ => .ok [c]).toks.all lenNN = true := by
        intro l tag x c h0 hx hc
        refine seq_all _ _ _ (by simp [MOut.ok, lenNN, h0]) (seq_all _ _ _ hx (by simp [MOut.ok, hc]))
      have hclose2 : ∀ (l : Int) (tag : Option Int) (x : MOut) (c : Tok), 0 ≤ l → x.toks.all lenNN = true → lenNN c = true →
          ((MOut.ok [⟨.mapOpen l, tag⟩]).seq fun _ => x.seq fun _ => .ok [c]).toks.all lenNN = true := by
        intro l tag x c h0 hx hc
        refine seq_all _ _ _ (by simp [MOut.ok, lenNN, h0]) (seq_all _ _ _ hx (by simp [MOut.ok, hc]))
      cases m with
      | prim => unfold marshalBare; simp only; exact primTok_lenNN _ _ _
      | errThunk => unfold marshalBare; rfl
      | panic => unfold marshalBare; rfl
      | wildcard =>
        unfold marshalBare; simp only
        split
        · rfl
        · exact hv _ _
        · rfl
      | slice e =>
        unfold marshalBare; simp only
        split
        · rfl
        · exact hclose1 _ _ _ _ (by omega) (hl _ _) rfl
        · rfl
      | array e =>
        unfold marshalBare; simp only
        split
        · exact hclose1 _ _ _ _ (by omega) (hl _ _) rfl
        · rfl
      | map kt vt mode =>
        unfold marshalBare; simp only
        split
        · rfl
        · split
          · rfl
          · split
            · rfl
            · exact hclose2 _ _ _ _ (by omega) (he _ _) rfl
        · rfl
      | structMap e fields =>
        unfold marshalBare; simp only
        exact hclose2 _ _ _ _ (by omega) (hf _ _) rfl
      | transform e fn mty =>
        unfold marshalBare; simp only
        split
        · rfl
        · exact retag_lenNN _ _ (hv _ _)
      | union e members =>
        unfold marshalBare; simp only
        split
        · rfl
        · split
          · rfl
          · split
            · rfl
            · split
              · rfl
              · refine seq_all _ _ _ (by simp [MOut.ok, lenNN]) (seq_all _ _ _ (hb _ _ _) (by simp [MOut.ok, lenNN]))
        · rfl
    · intro e es
      cases es with
      | nil => simp only [marshalList]; rfl
      | cons x xs => simp only [marshalList]; exact seq_all _ _ _ (hv _ _) (hl _ _)
    · intro e es
      cases es with
      | nil => simp only [marshalEntries]; rfl
      | cons x xs =>
        obtain ⟨k, x⟩ := x
        simp only [marshalEntries]
        exact seq_all _ _ _ (by simp [MOut.ok, lenNN]) (seq_all _ _ _ (hv _ _) (he _ _))
    · intro fs v
      cases fs with
      | nil => simp only [marshalFields]; rfl
      | cons f rest =>
        simp only [marshalFields]
        split
        · rfl
        · exact seq_all _ _ _ (by simp [MOut.ok, lenNN]) (seq_all _ _ _ (hv _ _) (hf _ _))

theorem marshal_lenNN (fuel id : Nat) (v : Val) : (marshalV ts a trs fuel id v).toks.all lenNN = true :=
  (marshal_lenNN_all ts a trs fuel).1 id v

end

/-! ### token-list predicates to tree predicates -/

theorem cborOk_tag {t : Tok} (h : cborOk t = true) :
    (match t.tag with | some g => decide (0 ≤ g) && decide (g < (two63 : Int)) | none => true) = true := by
  unfold cborOk at h; simp only [Bool.and_eq_true] at h; exact h.2

theorem cborOk_scalar {t : Tok} (h : cborOk t = true) (hs : t.body.isScalar = true) : C02.tokInRange t = true := by
  obtain ⟨body, tag⟩ := t
  unfold cborOk at h
  unfold C02.tokInRange
  simp only [Bool.and_eq_true] at h ⊢
  refine ⟨?_, ?_⟩
  · cases body <;> simp_all [Body.isScalar]
  · cases tag <;> simp_all

mutual
  theorem wf_of_flat : ∀ (tv : TV), tv.flatten.all cborOk = true → C07.Leaves tv = true → C07.KeysStr tv = true →
      C02.WFv tv = true
    | .scalar t, h, hl, _ => by
      simp only [TV.flatten, List.all_cons, List.all_nil, Bool.and_true] at h
      simp only [C07.Leaves] at hl
      simpa [C02.WFv] using cborOk_scalar h hl
    | .arr tag len items, h, hl, hk => by
      simp only [TV.flatten, List.all_cons, List.all_append, Bool.and_eq_true] at h
      simp only [C07.Leaves] at hl
      simp only [C07.KeysStr] at hk
      have h0 := h.1
      unfold cborOk at h0
      simp only [Bool.and_eq_true, decide_eq_true_eq] at h0
      have := wfl_of_flat items h.2.1 hl hk
      simp only [C02.WFv, Bool.and_eq_true, decide_eq_true_eq]
      refine ⟨⟨?_, h0.1⟩, this⟩
      cases tag <;> simp_all
    | .map tag len es, h, hl, hk => by
      simp only [TV.flatten, List.all_cons, List.all_append, Bool.and_eq_true] at h
      simp only [C07.Leaves] at hl
      simp only [C07.KeysStr] at hk
      have h0 := h.1
      unfold cborOk at h0
      simp only [Bool.and_eq_true, decide_eq_true_eq] at h0
      have := wfe_of_flat es h.2.1 hl hk
      simp only [C02.WFv, Bool.and_eq_true, decide_eq_true_eq]
      refine ⟨⟨?_, h0.1⟩, this⟩
      cases tag <;> simp_all
  theorem wfl_of_flat : ∀ (vs : List TV), (TV.flattenList vs).all cborOk = true → C07.LeavesL vs = true →
      C07.KeysStrL vs = true → C02.WFl vs = true
    | [], _, _, _ => rfl
    | v :: vs, h, hl, hk => by
      simp only [TV.flattenList, List.all_append, Bool.and_eq_true] at h
      simp only [C07.LeavesL, Bool.and_eq_true] at hl
      simp only [C07.KeysStrL, Bool.and_eq_true] at hk
      simp only [C02.WFl, Bool.and_eq_true]
      exact ⟨wf_of_flat v h.1 hl.1 hk.1, wfl_of_flat vs h.2 hl.2 hk.2⟩
  theorem wfe_of_flat : ∀ (es : List (TV × TV)), (TV.flattenEntries es).all cborOk = true → C07.LeavesE es = true →
      C07.KeysStrE es = true → C02.WFe es = true
    | [], _, _, _ => rfl
    | (k, v) :: es, h, hl, hk => by
      simp only [TV.flattenEntries, List.all_append, Bool.and_eq_true] at h
      simp only [C07.LeavesE, Bool.and_eq_true] at hl
      simp only [C07.KeysStrE, Bool.and_eq_true] at hk
      simp only [C02.WFe, Bool.and_eq_true]
      have hkw : C02.WFv k = true := wf_of_flat k h.1 hl.1.1 (by cases k <;> simp_all [C07.KeysStr])
      refine ⟨⟨⟨?_, hkw⟩, wf_of_flat v h.2.1 hl.1.2 hk.1.2⟩, wfe_of_flat es h.2.2 hl.2 hk.2⟩
      cases k with
      | scalar t =>
        obtain ⟨body, tag⟩ := t
        cases body <;> simp_all [C02.keyTok, keyOk]
      | arr _ _ _ => simp at hk
      | map _ _ _ => simp at hk
end

mutual
  theorem sup_of_flat : ∀ (tv : TV), tv.flatten.all cborOk = true → tv.lengthsOk = true → C02.Supported tv = true
    | .scalar t, h, _ => by
      simp only [TV.flatten, List.all_cons, List.all_nil, Bool.and_true] at h
      obtain ⟨body, tag⟩ := t
      unfold cborOk at h
      cases body <;> simp_all [C02.Supported]
    | .arr tag len items, h, hl => by
      simp only [TV.flatten, List.all_cons, List.all_append, Bool.and_eq_true] at h
      simp only [TV.lengthsOk, Bool.and_eq_true] at hl
      simp only [C02.Supported, Bool.and_eq_true]
      exact ⟨hl.1, supl_of_flat items h.2.1 hl.2⟩
    | .map tag len es, h, hl => by
      simp only [TV.flatten, List.all_cons, List.all_append, Bool.and_eq_true] at h
      simp only [TV.lengthsOk, Bool.and_eq_true] at hl
      simp only [C02.Supported, Bool.and_eq_true]
      exact ⟨hl.1, supe_of_flat es h.2.1 hl.2⟩
  theorem supl_of_flat : ∀ (vs : List TV), (TV.flattenList vs).all cborOk = true → TV.lengthsOkList vs = true →
      C02.SupportedL vs = true
    | [], _, _ => rfl
    | v :: vs, h, hl => by
      simp only [TV.flattenList, List.all_append, Bool.and_eq_true] at h
      simp only [TV.lengthsOkList, Bool.and_eq_true] at hl
      simp only [C02.SupportedL, Bool.and_eq_true]
      exact ⟨sup_of_flat v h.1 hl.1, supl_of_flat vs h.2 hl.2⟩
  theorem supe_of_flat : ∀ (es : List (TV × TV)), (TV.flattenEntries es).all cborOk = true →
      TV.lengthsOkEntries es = true → C02.SupportedE es = true
    | [], _, _ => rfl
    | (k, v) :: es, h, hl => by
      simp only [TV.flattenEntries, List.all_append, Bool.and_eq_true] at h
      simp only [TV.lengthsOkEntries, Bool.and_eq_true] at hl
      simp only [C02.SupportedE, Bool.and_eq_true]
      exact ⟨⟨sup_of_flat k h.1 hl.1.1, sup_of_flat v h.2.1 hl.1.2⟩, supe_of_flat es h.2.2 hl.2⟩
end

theorem getLast_replicate_done (n : Nat) :
    (List.replicate n Flag.cont ++ [Flag.done]).getLast? = some Flag.done := by
  simp

/-- CBOR transport of a token tree whose flattening is carriable -/
theorem transport_tree (tv : TV) (hc : tv.flatten.all cborOk = true) (hn : tv.flatten.all lenNN = true)
    (hl : tv.lengthsOk = true) (hk : C07.KeysStr tv = true) (hv : C07.Leaves tv = true) :
    (runOut CborEnc.step CborEnc.init tv.flatten).1.getLast? = some Flag.done ∧
    (let o := CborDec.decode false (Rd.ofBytes (runOut CborEnc.step CborEnc.init tv.flatten).2.flatten)
     o.toks = tv.flatten.map C02.canonTok ∧ o.res = .ok () ∧ o.rd.data = []) := by
  have hwf := wf_of_flat tv hc hv hk
  have hsup := sup_of_flat tv hc hl
  obtain ⟨h1, h2⟩ := C02.enc_eq_spec tv hwf
  refine ⟨by rw [h1]; exact getLast_replicate_done _, ?_⟩
  rw [h2]
  have := C02.roundtrip_norm tv [] hwf hsup
  simp only [List.append_nil] at this
  have e : tv.flatten.map C02.normTok = tv.flatten.map C02.canonTok := by
    apply List.map_congr_left
    intro t ht
    apply C02.normTok_eq_canonTok
    intro l hl'
    have := List.all_eq_true.mp hn t ht
    unfold lenNN at this
    rcases hl' with hb | hb <;> rw [hb] at this <;> simp at this <;> omega
  rw [e] at this
  exact this

end Refmt.C01L
