/-
  C12, claim (ii) — the induction over `fullTy`: scalars, untyped slots.  See RefmtProofs/Props/C12Typed.lean.
-/
import RefmtProofs.Lemmas.LegRT2
import RefmtProofs.Lemmas.UnmCanon
set_option linter.unusedSimpArgs false
set_option linter.unusedVariables false
namespace Refmt.Obj
open Refmt Refmt.C13 Refmt.C11 Refmt.C12 Refmt.C12L Refmt.C01L

variable {ts : Types} {a : Atlas} {trs : Trs} {it : IfaceTys}

/-! ### scalar tokens -/

/-- the primitive machine writes one untagged token: a null, or a scalar the untyped pass knows -/
theorem primTok_tok (it : IfaceTys) {id : Nat} {v : Val} {toks : List Tok} (hm : primTok ts id v = ⟨toks, none⟩) :
    ∃ b, toks = [⟨b, none⟩] ∧ (b = .null ∨ ∃ u b', scalU it b = some (u, b')) := by
  cases v <;> try (simp [primTok, MOut.bad] at hm; done)
  case bytes o =>
    cases o <;> (simp [primTok, MOut.ok] at hm; subst hm)
    · exact ⟨_, rfl, Or.inl rfl⟩
    · exact ⟨_, rfl, Or.inr ⟨_, _, rfl⟩⟩
  case uint n =>
    simp [primTok, MOut.ok] at hm; subst hm
    refine ⟨_, rfl, Or.inr ?_⟩
    simp only [scalU]
    split <;> exact ⟨_, _, rfl⟩
  all_goals
    simp [primTok, MOut.ok] at hm; subst hm
    exact ⟨_, rfl, Or.inr ⟨_, _, rfl⟩⟩

theorem canon'_int_nat (n : Nat) (hn : n < two63) : canon' ⟨.int n, none⟩ = ⟨.uint n, none⟩ := by
  unfold canon'
  have h1 : (0 : Int) ≤ (n : Int) := by omega
  have h2 : (n : Int) < (two63 : Int) := by omega
  simp [h1, h2]

/-- the primitive machine does not see the untyped pass's re-spelling of a scalar -/
theorem storePrim_scalU (d : TyDesc) {b b' : Body} {u : Nat × Val} (h : scalU it b = some (u, b')) :
    storePrim d ⟨b', none⟩ = storePrim d ⟨b, none⟩ := by
  cases b <;> simp only [scalU] at h <;> try (cases h; done)
  case uint n =>
    split at h
    · rename_i hn
      cases h
      rw [← storePrim_canon', canon'_int_nat n hn]
    · cases h; rfl
  all_goals (cases h; rfl)

/-- the untyped slot reads a scalar and its re-spelling alike -/
theorem unmWild_scalU {b b' : Body} {u : Nat × Val} (h : scalU it b = some (u, b')) (F : Nat) (rest : List Tok) :
    unmWild ts a trs it (F+1) false ⟨b', none⟩ rest = .ok (.iface (some u)) rest 1 ∧
    unmWild ts a trs it (F+1) false ⟨b, none⟩ rest = .ok (.iface (some u)) rest 1 := by
  cases b <;> simp only [scalU] at h <;> try (cases h; done)
  case str s => cases h; exact ⟨uW_str trs F s rest, uW_str trs F s rest⟩
  case bytes s => cases h; exact ⟨uW_bytes trs F s rest, uW_bytes trs F s rest⟩
  case bool s => cases h; exact ⟨uW_bool trs F s rest, uW_bool trs F s rest⟩
  case float s => cases h; exact ⟨uW_float trs F s rest, uW_float trs F s rest⟩
  case int s => cases h; exact ⟨uW_int trs F s rest, uW_int trs F s rest⟩
  case uint n =>
    split at h
    · rename_i hn
      cases h
      exact ⟨uW_int trs F n rest, by rw [uW_uint]; simp [hn]⟩
    · rename_i hn
      cases h
      exact ⟨by rw [uW_uint]; simp [hn], by rw [uW_uint]; simp [hn]⟩

theorem leg_b_prim {f} (he : UEnv ts a it) (h id : Nat) (v : Val) (toks : List Tok) (g : Nat) (hv : hasTy ts h id v = true)
    (hd : (∃ k b, ts.get id = .prim k b) ∨ (∃ b, ts.get id = .bytes b) ∨ (∃ n, ts.get id = .byteArr n))
    (hpick : pickBare ts a id = .prim ∧ upickBare ts a id = .prim) (hg : f + 1 ≤ g)
    (hm : marshalBare ts a trs (f+1) id (pickBare ts a id) v = ⟨toks, none⟩) :
    LegB ts a trs it id toks (rtFB ts a trs it g id (pickBare ts a id) v) := by
  obtain ⟨g, rfl⟩ : ∃ g', g = g' + 1 := ⟨g - 1, by omega⟩
  rw [hpick.1, marshalBare_prim] at hm
  obtain ⟨tok, htok, hs, -, -, -⟩ := prim_rt ts h id v toks hv hd hm
  obtain ⟨b, rfl, hb⟩ := primTok_tok it hm
  cases htok
  rw [hpick.1, rtFB_prim]
  rcases hb with rfl | ⟨u, b', hsc⟩
  · refine ⟨_, _, 3, UP_null he, fun F hF rest => ?_⟩
    obtain ⟨F, rfl⟩ : ∃ F', F = F' + 1 := ⟨F - 1, by omega⟩
    rw [hpick.2]
    simp [unmBare_prim, hs]
  · refine ⟨_, _, 5, UP_scalar he b b' u hsc, fun F hF rest => ?_⟩
    obtain ⟨F, rfl⟩ : ∃ F', F = F' + 1 := ⟨F - 1, by omega⟩
    rw [hpick.2]
    simp [unmBare_prim, storePrim_scalU (it := it) _ hsc, hs]

/-! ### untyped slots -/

theorem upick_sliceI (he : UEnv ts a it) : upickBare ts a it.sliceI = .slice it.iface := by
  simp [upickBare, he.sliceI, he.noSlice]
theorem upick_mapSI (he : UEnv ts a it) : upickBare ts a it.mapSI = .map it.str it.iface := by
  simp [upickBare, he.mapSI, he.noMap]

/-- an untyped slot reading an array: what `[]interface{}` reads, boxed -/
theorem wild_arr (he : UEnv ts a it) (id : Nat) (hmeth : ifaceMeth ts id = false) (l : Int) (r : List Tok) (R : Val) (F n : Nat)
    (rest : List Tok)
    (hrd : unmV ts a trs it (F+1) it.sliceI (zeroVal ts 64 it.sliceI) (⟨.arrOpen l, none⟩ :: r ++ rest) = .ok R rest n) (cur : Val) :
    unmBare ts a trs it (F+2) id .wildcard cur (⟨.arrOpen l, none⟩ :: r ++ rest) = .ok (.iface (some (it.sliceI, R))) rest n := by
  have hnp : ∀ e, ts.get it.sliceI ≠ .ptr e := by simp [he.sliceI]
  rw [List.cons_append, unmV_nonptr ts a trs it hnp, upick_sliceI he, zeroVal_slice' he.sliceI] at hrd
  rw [List.cons_append, unmBare_wild, unmWild_eq]
  simp only [hmeth, wildRej_false, Bool.false_eq_true, if_false, hrd]
  simp

/-- an untyped slot reading a map: what `map[string]interface{}` reads, boxed -/
theorem wild_map (he : UEnv ts a it) (id : Nat) (hmeth : ifaceMeth ts id = false) (l : Int) (r : List Tok) (R : Val) (F n : Nat)
    (rest : List Tok)
    (hrd : unmV ts a trs it (F+1) it.mapSI (zeroVal ts 64 it.mapSI) (⟨.mapOpen l, none⟩ :: r ++ rest) = .ok R rest n) (cur : Val) :
    unmBare ts a trs it (F+2) id .wildcard cur (⟨.mapOpen l, none⟩ :: r ++ rest) = .ok (.iface (some (it.mapSI, R))) rest n := by
  have hnp : ∀ e, ts.get it.mapSI ≠ .ptr e := by simp [he.mapSI]
  rw [List.cons_append, unmV_nonptr ts a trs it hnp, upick_mapSI he, zeroVal_map' he.mapSI,
    unmBare_map_cur F it.mapSI it.str it.iface (.map none) (.map (some [])) _ rfl] at hrd
  rw [List.cons_append, unmBare_wild, unmWild_eq]
  simp only [hmeth, wildRej_false, Bool.false_eq_true, if_false, hrd]
  simp


theorem ok_inj_val {v v' : Val} {r r' : List Tok} {u u' : Nat} (h : URes.ok v r u = URes.ok v' r' u') : v = v' := by
  cases h; rfl

theorem leg_b_wild {f} (hf : f + 1 ≤ 1000) (he : UEnv ts a it) (hnt : NoTags a) (hrtf : RTF ts a trs it f) (ih : LEG ts a trs it f)
    (h id : Nat) (v : Val) (toks : List Tok) (g : Nat)
    (hd : ts.get id = .iface false) (hn : a.get id = none)
    (hv : hasTy ts h id v = true) (hg : f + 1 ≤ g) (hs : fullValB ts a trs it g id (pickBare ts a id) v = true)
    (hm : marshalBare ts a trs (f+1) id (pickBare ts a id) v = ⟨toks, none⟩)
    (hR : ∀ F, f + 1 < F → ∀ rest, unmBare ts a trs it F id (upickBare ts a id) (zeroVal ts 64 id) (toks ++ rest) =
        .ok (rtFB ts a trs it g id (pickBare ts a id) v) rest toks.length) :
    LegB ts a trs it id toks (rtFB ts a trs it g id (pickBare ts a id) v) := by
  obtain ⟨g, rfl⟩ : ∃ g', g = g' + 1 := ⟨g - 1, by omega⟩
  obtain ⟨hpk, hupk⟩ := pick_wild hd hn
  have hR' := hR
  rw [hupk] at hR'
  rw [hpk] at hm hs
  rw [marshalBare_wild] at hm
  have hmeth : ifaceMeth ts id = false := by simp [ifaceMeth, hd]
  cases h with
  | zero => simp [hasTy] at hv
  | succ h =>
  cases v <;> try (simp [MOut.bad] at hm; done)
  rename_i o
  cases o with
  | none =>
    simp [MOut.ok] at hm; subst hm
    exact ⟨_, _, f + 3, (UP_null he).mono (by omega), fun F hF rest => hR F (by omega) rest⟩
  | some q =>
    obtain ⟨dt, dv⟩ := q
    have hvd : hasTy ts h dt dv = true := by simpa [hasTy, hd] using hv
    simp only at hm
    rw [fullValB_wild] at hs
    simp only [Bool.and_eq_true] at hs
    obtain ⟨hdnp, hs⟩ := hs
    have hnp := (notPtrB_iff _).mp hdnp
    obtain ⟨f, rfl⟩ : ∃ f', f = f' + 1 := by
      cases f with
      | zero => simp [marshalV, MOut.bad] at hm
      | succ f' => exact ⟨f', rfl⟩
    have hmB : marshalBare ts a trs f dt (pickBare ts a dt) dv = ⟨toks, none⟩ := by
      rwa [marshalV_nonptr ts a trs hnp] at hm
    split at hs
    · -- scalar kinds
      rename_i hpkd
      rw [hpkd] at hmB
      obtain ⟨f, rfl⟩ : ∃ f', f = f' + 1 := by
        cases f with
        | zero => simp [marshalBare, MOut.bad] at hmB
        | succ f' => exact ⟨f', rfl⟩
      rw [marshalBare_prim] at hmB
      obtain ⟨b, rfl, hb⟩ := primTok_tok it hmB
      rcases hb with rfl | ⟨u, b', hsc⟩
      · exact ⟨_, _, f + 5, (UP_null he).mono (by omega), fun F hF rest => hR F (by omega) rest⟩
      · refine ⟨_, _, f + 5, (UP_scalar he b b' u hsc).mono (by omega), fun F hF rest => ?_⟩
        obtain ⟨F, rfl⟩ : ∃ F', F = F' + 2 := ⟨F - 2, by omega⟩
        have h1 := hR' (F + 2) (by omega) rest
        rw [List.cons_append, List.nil_append, unmBare_wild, hmeth, (unmWild_scalU hsc F rest).2] at h1
        rw [hupk, List.cons_append, List.nil_append, unmBare_wild, hmeth, (unmWild_scalU hsc F rest).1, ← ok_inj_val h1]
        rfl
    · -- native []interface{}
      rename_i e' hpkd
      simp only [Bool.and_eq_true, beq_iff_eq] at hs
      obtain ⟨rfl, hs⟩ := hs
      have he' : e' = it.iface := by
        have := C12.pick_sliceI he
        rw [hpkd] at this
        cases this; rfl
      subst he'
      cases dv <;> try (cases hs; done)
      rename_i o
      cases o with
      | none => cases hs
      | some vs =>
        simp only [List.all_eq_true] at hs
        have hfv : fullVal ts a trs it (g+2) it.sliceI (.slice (some vs)) = true := by
          rw [fullVal_nonptr ts a trs it hnp, hpkd, fullValB_slice]; simpa using hs
        obtain ⟨u, tk2, N, hgood⟩ := ih.v 2 h it.sliceI (.slice (some vs)) toks (g+2) (by omega) (fullTy_sliceI he 0) hvd (by omega) hfv hm
        obtain ⟨-, hu⟩ := hrtf.v 2 h it.sliceI (.slice (some vs)) toks (g+2) (by omega) (fullTy_sliceI he 0) hvd (by omega) hfv hm
        rw [hpkd] at hmB
        obtain ⟨f, rfl⟩ : ∃ f', f = f' + 1 := by
          cases f with
          | zero => simp [marshalBare, MOut.bad] at hmB
          | succ f' => exact ⟨f', rfl⟩
        rw [marshalBare_slice] at hmB
        simp only at hmB
        obtain ⟨t1, t23, h1, h23, rfl⟩ := seq_ok hmB
        simp [MOut.ok] at h1; subst h1
        rcases hgood.1.1 with ⟨h0, -⟩ | ⟨t, r, t', r', h0, rfl, -, htag', -, -, hso⟩
        · simp at h0
        · simp only [List.cons_append, List.nil_append, List.cons.injEq] at h0
          obtain ⟨rfl, rfl⟩ := h0
          obtain ⟨l', hl'⟩ := hso.1 _ rfl
          obtain ⟨tb', tt'⟩ := t'
          simp only at htag' hl'
          subst htag' hl'
          refine ⟨u, _, N + f + 6, hgood.1.mono (by omega), fun F hF rest => ?_⟩
          obtain ⟨F, rfl⟩ : ∃ F', F = F' + 2 := ⟨F - 2, by omega⟩
          have h1 := hR' (F + 2) (by omega) rest
          have h2 := wild_arr he id hmeth _ t23 _ F _ rest (hu (F + 1) (by omega) rest) (zeroVal ts 64 id)
          rw [List.cons_append, List.nil_append] at h1
          rw [h2] at h1
          have h3 := wild_arr he id hmeth _ r' _ F _ rest (hgood.2 (F + 1) (by omega) rest) (zeroVal ts 64 id)
          rw [hupk]
          dsimp only at h3 ⊢
          rw [h3, ← ok_inj_val h1]
    · -- native map[string]interface{}
      rename_i k' vt' mode' hpkd
      simp only [Bool.and_eq_true, beq_iff_eq] at hs
      obtain ⟨rfl, hs⟩ := hs
      have he' : k' = it.str ∧ vt' = it.iface ∧ mode' = a.defaultSort := by
        have := C12.pick_mapSI he
        rw [hpkd] at this
        cases this; exact ⟨rfl, rfl, rfl⟩
      obtain ⟨rfl, rfl, rfl⟩ := he'
      cases dv <;> try (cases hs; done)
      rename_i o
      cases o with
      | none => cases hs
      | some es =>
        simp only [Bool.and_eq_true, List.all_eq_true] at hs
        obtain ⟨hkeys, hnd⟩ := strKeysB_inv hs.1
        have hfv : fullVal ts a trs it (g+2) it.mapSI (.map (some es)) = true := by
          rw [fullVal_nonptr ts a trs it hnp, hpkd, fullValB_map]
          simp only [Bool.and_eq_true, List.all_eq_true]
          exact hs
        obtain ⟨u, tk2, N, hgood⟩ := ih.v 2 h it.mapSI (.map (some es)) toks (g+2) (by omega) (fullTy_mapSI he 0) hvd (by omega) hfv hm
        obtain ⟨-, hu⟩ := hrtf.v 2 h it.mapSI (.map (some es)) toks (g+2) (by omega) (fullTy_mapSI he 0) hvd (by omega) hfv hm
        rw [hpkd] at hmB
        obtain ⟨f, rfl⟩ : ∃ f', f = f' + 1 := by
          cases f with
          | zero => simp [marshalBare, MOut.bad] at hmB
          | succ f' => exact ⟨f', rfl⟩
        have hmk : mkeyFn ts a it.str = some none := by simp [mkeyFn, he.str]
        rw [marshalBare_map, hmk] at hmB
        simp only [Option.getD_some, mapM_keys es hkeys, Option.isNone_some, Bool.false_eq_true, if_false] at hmB
        obtain ⟨t1, t23, h1, h23, rfl⟩ := seq_ok hmB
        simp [MOut.ok] at h1; subst h1
        rcases hgood.1.1 with ⟨h0, -⟩ | ⟨t, r, t', r', h0, rfl, -, htag', -, -, hso⟩
        · simp at h0
        · simp only [List.cons_append, List.nil_append, List.cons.injEq] at h0
          obtain ⟨rfl, rfl⟩ := h0
          obtain ⟨l', hl'⟩ := hso.2 _ rfl
          obtain ⟨tb', tt'⟩ := t'
          simp only at htag' hl'
          subst htag' hl'
          refine ⟨u, _, N + f + 6, hgood.1.mono (by omega), fun F hF rest => ?_⟩
          obtain ⟨F, rfl⟩ : ∃ F', F = F' + 2 := ⟨F - 2, by omega⟩
          have h1 := hR' (F + 2) (by omega) rest
          have h2 := wild_map he id hmeth _ t23 _ F _ rest (hu (F + 1) (by omega) rest) (zeroVal ts 64 id)
          rw [List.cons_append, List.nil_append] at h1
          rw [h2] at h1
          have h3 := wild_map he id hmeth _ r' _ F _ rest (hgood.2 (F + 1) (by omega) rest) (zeroVal ts 64 id)
          rw [hupk]
          dsimp only at h3 ⊢
          rw [h3, ← ok_inj_val h1]
    · -- a struct type in an untyped slot must be tagged: excluded by `NoTags`
      rename_i e' fs' hpkd
      simp only [Bool.and_eq_true] at hs
      obtain ⟨⟨htg, hfull⟩, hsB⟩ := hs
      have hge := (view_entry (fullTy_view (p := 63) hfull hnp)).1 e' fs' hpkd
      simp [taggedB, hnt.get hge] at htg
    · rename_i e' fn' mty' hpkd
      simp only [Bool.and_eq_true] at hs
      obtain ⟨⟨htg, hfull⟩, hsB⟩ := hs
      have hge := (view_entry (fullTy_view (p := 63) hfull hnp)).2 e' fn' mty' hpkd
      simp [taggedB, hnt.get hge] at htg
    · cases hs

end Refmt.Obj
