/-
  What `Spec.Cbor.parse` guarantees about the leaves of the tree it returns, on input made of bytes:
  unsigned integers below 2^64, negative integers at least -2^63, float bit patterns below 2^64 (half and
  single precision are widened exactly), strings made of bytes.  With the common data model of C10 this is
  the JSON encoder's domain (`C03.JWF`, `C16.JWF`).  Used by C10Value and C16Pump.
-/
import RefmtModel
import RefmtProofs.Lemmas.CborParse
import RefmtProofs.Lemmas.CborMachine
import RefmtProofs.Lemmas.HalfTable
import RefmtProofs.Lemmas.JsonTree
import RefmtProofs.Props.C03
import RefmtProofs.Props.C10
import RefmtProofs.Props.C16
set_option linter.unusedSimpArgs false
set_option linter.unusedVariables false
namespace Refmt.CborLeaves
open Refmt Refmt.Spec.Cbor Refmt.C04 Refmt.PumpL

/-! ### arithmetic -/

theorem f32to64_lt (x : Nat) : f32to64 x < two64 := by
  have hs : x / 2147483648 % 2 < 2 := Nat.mod_lt _ (by decide)
  have he : x / 8388608 % 256 < 256 := Nat.mod_lt _ (by decide)
  have hm : x % 8388608 < 8388608 := Nat.mod_lt _ (by decide)
  unfold f32to64 two64 pow2_63 pow2_52
  simp only []
  generalize x / 2147483648 % 2 = s at *
  generalize x / 8388608 % 256 = e at *
  generalize x % 8388608 = m at *
  split
  · split
    · omega
    · have : m * 536870912 % 2251799813685248 < 2251799813685248 := Nat.mod_lt _ (by decide)
      omega
  · split
    · split
      · omega
      · rename_i hm0
        have hm0' : m ≠ 0 := by simpa using hm0
        have h1 : 2 ^ m.log2 ≤ m := Nat.log2_self_le hm0'
        have h2 : m < 2 ^ (m.log2 + 1) := Nat.lt_log2_self
        have hk : m.log2 < 23 := (Nat.log2_lt hm0').2 (by simpa using hm)
        generalize m.log2 = k at *
        have h3 : m - 2 ^ k < 2 ^ k := by rw [Nat.pow_succ] at h2; omega
        have h4 : (m - 2 ^ k) * 2 ^ (52 - k) < 2 ^ k * 2 ^ (52 - k) :=
          Nat.mul_lt_mul_of_pos_right h3 (Nat.pow_pos (by decide))
        have h5 : 2 ^ k * 2 ^ (52 - k) = 4503599627370496 := by
          rw [← Nat.pow_add, show k + (52 - k) = 52 by omega]
        rw [h5] at h4
        omega
    · rename_i h255 h0
      have h255' : e ≠ 255 := by simpa using h255
      omega

theorem beTake_lt (r : Bytes) (hr : PumpL.B256 r) (n : Nat) (hl : r.length ≥ n) : beVal (r.take n) < 256 ^ n := by
  have := beVal_lt (r.take n) (take_bytes _ _ hr)
  have h2 : (r.take n).length = n := by simp; omega
  rw [h2] at this
  exact this

theorem half_lt (r : Bytes) (hr : PumpL.B256 r) (hl : r.length ≥ 2) : halfToF64 (beVal (r.take 2)) < two64 := by
  have hlt : beVal (r.take 2) < 65536 := by simpa using beTake_lt r hr 2 hl
  rw [← HalfTable.half_exact _ hlt]
  exact f32to64_lt _

theorem be8_lt (r : Bytes) (hr : PumpL.B256 r) (hl : r.length ≥ 8) : beVal (r.take 8) < two64 := by
  simpa [two64] using beTake_lt r hr 8 hl

theorem arg_lt (ai : Nat) (bs : Bytes) (hb : PumpL.B256 bs) (n : Nat) (r : Bytes) (h : arg ai bs = some (n, r)) :
    n < two64 := by
  unfold arg at h
  unfold two64
  split at h
  · simp at h; omega
  split at h
  · cases bs with
    | nil => simp at h
    | cons b t => simp at h; have := hb.head; omega
  split at h
  · split at h
    · simp at h; have := beTake_lt bs hb 2 (by omega); omega
    · simp at h
  split at h
  · split at h
    · simp at h; have := beTake_lt bs hb 4 (by omega); omega
    · simp at h
  split at h
  · split at h
    · simp at h; have := beTake_lt bs hb 8 (by omega); omega
    · simp at h
  · simp at h

theorem b256_take {a : Bytes} (h : PumpL.B256 a) (n : Nat) : PumpL.B256 (a.take n) :=
  fun x hx => h x (List.mem_of_mem_take hx)

theorem b256_of_rest {bs r : Bytes} {n : Nat} (hb : PumpL.B256 bs) (h : Rest bs r n) : PumpL.B256 r :=
  fun x hx => hb x (h.1.subset hx)

theorem chunks_B256 (major : Nat) : ∀ (f : Nat) (bs acc s r : Bytes), PumpL.B256 bs → PumpL.B256 acc →
    chunks major f bs acc = some (s, r) → PumpL.B256 s
  | 0, bs, acc, s, r, _, _, h => by simp [chunks] at h
  | f+1, [], acc, s, r, _, _, h => by simp [chunks] at h
  | f+1, b :: t, acc, s, r, hb, ha, h => by
    simp only [chunks] at h
    split at h
    · simp at h; rw [← h.1]; exact ha
    split at h
    · simp at h
    split at h
    · simp at h
    · rename_i n r' harg
      split at h
      · simp at h
      · have hr' : PumpL.B256 r' := b256_of_rest hb.tail (arg_rest _ _ _ _ harg)
        exact chunks_B256 major f _ _ _ _ (hr'.drop n) (ha.append (b256_take hr' n)) h

/-! ### leaves -/

def leafOk : Body → Bool
  | .uint n => decide (n < two64)
  | .int i => decide (-(two63 : Int) ≤ i) && decide (i < (two63 : Int))
  | .float x => decide (x < two64)
  | .str s => s.all (· < 256)
  | .bytes s => s.all (· < 256)
  | .null => true
  | .bool _ => true
  | _ => false

mutual
  /-- every leaf of the tree is within the wire ranges -/
  def LB : TV → Bool
    | .scalar t => leafOk t.body
    | .arr _ _ items => LBl items
    | .map _ _ es => LBe es
  def LBl : List TV → Bool
    | [] => true
    | v :: vs => LB v && LBl vs
  def LBe : List (TV × TV) → Bool
    | [] => true
    | (k, v) :: es => LB k && LB v && LBe es
end

theorem headOf_leaf (coerce : Bool) (bs : Bytes) (hbs : PumpL.B256 bs) (b : Body) (r : Bytes)
    (hh : headOf coerce bs = some (.scalar b r)) : leafOk b = true := by
  cases bs with
  | nil => simp [headOf] at hh
  | cons x xs =>
    have hxs : PumpL.B256 xs := hbs.tail
    simp only [headOf] at hh
    by_cases h7 : (x / 32 == 7) = true
    · rw [if_pos h7] at hh
      repeat' split at hh
      all_goals first
        | (simp at hh; done)
        | (simp at hh; obtain ⟨rfl, _⟩ := hh; rfl)
        | (simp at hh; obtain ⟨rfl, _⟩ := hh
           simp only [leafOk, decide_eq_true_eq]
           first
             | exact half_lt xs hxs (by assumption)
             | exact f32to64_lt _
             | exact be8_lt xs hxs (by assumption))
    rw [if_neg h7] at hh
    by_cases h31 : (x % 32 == 31) = true
    · rw [if_pos h31] at hh
      repeat' split at hh
      all_goals first
        | (simp at hh; done)
        | (simp only [Option.map_eq_some_iff] at hh
           obtain ⟨⟨s, r'⟩, hc, hh⟩ := hh
           simp at hh; obtain ⟨rfl, _⟩ := hh
           simp only [leafOk]
           exact all_of_B256 (chunks_B256 _ _ _ _ _ _ hxs PumpL.B256.nil hc))
    · rw [if_neg h31] at hh
      cases ha : arg (x % 32) xs with
      | none => rw [ha] at hh; simp at hh
      | some p =>
        obtain ⟨n, r'⟩ := p
        rw [ha] at hh
        dsimp only at hh
        have hn := arg_lt _ _ hxs _ _ ha
        have hr' : PumpL.B256 r' := b256_of_rest hxs (arg_rest _ _ _ _ ha)
        repeat' split at hh
        all_goals first
          | (simp at hh; done)
          | (simp at hh; obtain ⟨rfl, _⟩ := hh
             simp only [leafOk, decide_eq_true_eq]; exact hn)
          | (rename_i hlt
             simp at hh; obtain ⟨rfl, _⟩ := hh
             simp only [leafOk, Bool.and_eq_true, decide_eq_true_eq]
             unfold two63 at hlt ⊢
             omega)
          | (simp at hh; obtain ⟨rfl, _⟩ := hh
             simp only [leafOk]
             exact all_of_B256 (b256_take hr' n))

def LBall (coerce : Bool) (f : Nat) : Prop :=
  (∀ bs tag v r, PumpL.B256 bs → parseItem coerce f bs tag = some (v, r) → LB v = true) ∧
  (∀ k bs vs r, PumpL.B256 bs → parseN coerce f k bs = some (vs, r) → LBl vs = true) ∧
  (∀ k bs es r, PumpL.B256 bs → parseEntriesN coerce f k bs = some (es, r) → LBe es = true) ∧
  (∀ bs vs r, PumpL.B256 bs → parseUntilBreak coerce f bs = some (vs, r) → LBl vs = true) ∧
  (∀ bs es r, PumpL.B256 bs → parseEntriesUntilBreak coerce f bs = some (es, r) → LBe es = true)

theorem lbAll (coerce : Bool) : ∀ f, LBall coerce f := by
  intro f
  induction f with
  | zero =>
    refine ⟨?_, ?_, ?_, ?_, ?_⟩
    · intro bs tag v r _ h; simp [parseItem] at h
    · intro k bs vs r _ h; simp [parseN] at h
    · intro k bs vs r _ h; simp [parseEntriesN] at h
    · intro bs vs r _ h; simp [parseUntilBreak] at h
    · intro bs vs r _ h; simp [parseEntriesUntilBreak] at h
  | succ f ih =>
    obtain ⟨ihI, ihN, ihEN, ihUB, ihEUB⟩ := ih
    have shI := (shape coerce f).1
    refine ⟨?_, ?_, ?_, ?_, ?_⟩
    · intro bs tag v r hb h
      rw [parseItem_eq] at h
      cases hh : headOf coerce bs with
      | none => rw [hh] at h; simp [itemOf] at h
      | some hd =>
        rw [hh] at h
        have hrest : PumpL.B256 hd.rest := b256_of_rest hb (headOf_rest _ _ _ hh)
        cases hd with
        | scalar b r0 =>
          simp only [itemOf, Option.some.injEq, Prod.mk.injEq] at h
          obtain ⟨rfl, rfl⟩ := h
          simp only [LB]
          exact headOf_leaf coerce bs hb b _ hh
        | arrI r0 =>
          simp only [itemOf] at h
          obtain ⟨⟨vs, r'⟩, hp, he⟩ := map_some h
          simp only [Prod.mk.injEq] at he
          obtain ⟨rfl, rfl⟩ := he
          simpa [LB] using ihUB _ _ _ hrest hp
        | mapI r0 =>
          simp only [itemOf] at h
          obtain ⟨⟨vs, r'⟩, hp, he⟩ := map_some h
          simp only [Prod.mk.injEq] at he
          obtain ⟨rfl, rfl⟩ := he
          simpa [LB] using ihEUB _ _ _ hrest hp
        | arrD n r0 =>
          simp only [itemOf] at h
          obtain ⟨⟨vs, r'⟩, hp, he⟩ := map_some h
          simp only [Prod.mk.injEq] at he
          obtain ⟨rfl, rfl⟩ := he
          simpa [LB] using ihN _ _ _ _ hrest hp
        | mapD n r0 =>
          simp only [itemOf] at h
          obtain ⟨⟨vs, r'⟩, hp, he⟩ := map_some h
          simp only [Prod.mk.injEq] at he
          obtain ⟨rfl, rfl⟩ := he
          simpa [LB] using ihEN _ _ _ _ hrest hp
        | tag n r0 =>
          simp only [itemOf] at h
          cases tag with
          | some t => simp at h
          | none =>
            dsimp only at h
            exact ihI _ _ _ _ hrest h
    · intro k bs vs r hb h
      cases k with
      | zero => simp [parseN] at h; obtain ⟨rfl, rfl⟩ := h; rfl
      | succ k =>
        simp only [parseN] at h
        split at h
        · simp at h
        · rename_i v r1 hi
          obtain ⟨⟨vs', r'⟩, hp, he⟩ := map_some h
          simp only [Prod.mk.injEq] at he
          obtain ⟨rfl, rfl⟩ := he
          have hr1 : PumpL.B256 r1 := b256_of_rest hb (shI _ _ _ _ hi).1
          simp [LBl, ihI _ _ _ _ hb hi, ihN _ _ _ _ hr1 hp]
    · intro k bs es r hb h
      cases k with
      | zero => simp [parseEntriesN] at h; obtain ⟨rfl, rfl⟩ := h; rfl
      | succ k =>
        simp only [parseEntriesN] at h
        split at h
        · simp at h
        · rename_i key r1 hi
          split at h
          · simp at h
          · rename_i v r2 hi2
            obtain ⟨⟨es', r'⟩, hp, he⟩ := map_some h
            simp only [Prod.mk.injEq] at he
            obtain ⟨rfl, rfl⟩ := he
            have hr1 : PumpL.B256 r1 := b256_of_rest hb (shI _ _ _ _ hi).1
            have hr2 : PumpL.B256 r2 := b256_of_rest hr1 (shI _ _ _ _ hi2).1
            simp [LBe, ihI _ _ _ _ hb hi, ihI _ _ _ _ hr1 hi2, ihEN _ _ _ _ hr2 hp]
    · intro bs vs r hb h
      simp only [parseUntilBreak] at h
      split at h
      · simp at h; obtain ⟨rfl, rfl⟩ := h; rfl
      · split at h
        · simp at h
        · rename_i v r1 hi
          obtain ⟨⟨vs', r'⟩, hp, he⟩ := map_some h
          simp only [Prod.mk.injEq] at he
          obtain ⟨rfl, rfl⟩ := he
          have hr1 : PumpL.B256 r1 := b256_of_rest hb (shI _ _ _ _ hi).1
          simp [LBl, ihI _ _ _ _ hb hi, ihUB _ _ _ hr1 hp]
    · intro bs es r hb h
      simp only [parseEntriesUntilBreak] at h
      split at h
      · simp at h; obtain ⟨rfl, rfl⟩ := h; rfl
      · split at h
        · simp at h
        · rename_i key r1 hi
          split at h
          · simp at h
          · rename_i v r2 hi2
            obtain ⟨⟨es', r'⟩, hp, he⟩ := map_some h
            simp only [Prod.mk.injEq] at he
            obtain ⟨rfl, rfl⟩ := he
            have hr1 : PumpL.B256 r1 := b256_of_rest hb (shI _ _ _ _ hi).1
            have hr2 : PumpL.B256 r2 := b256_of_rest hr1 (shI _ _ _ _ hi2).1
            simp [LBe, ihI _ _ _ _ hb hi, ihI _ _ _ _ hr1 hi2, ihEUB _ _ _ hr2 hp]

/-- **leaves of a parsed CBOR item are within the wire ranges** -/
theorem parse_LB (coerce : Bool) (bs : Bytes) (v : TV) (rest : Bytes) (hb : ∀ x ∈ bs, x < 256)
    (h : Spec.Cbor.parse coerce bs = some (v, rest)) : LB v = true :=
  (lbAll coerce _).1 _ _ _ _ hb h

/-! ### the common data model with wire-range leaves is the JSON encoder's domain -/

theorem scalar_ok03 (t : Tok) (hc : C10.common (.scalar t) = true) (hl : leafOk t.body = true) :
    C03.jsonScalarOk t = true := by
  simp only [C10.common, Bool.and_eq_true] at hc
  obtain ⟨_, hc⟩ := hc
  unfold C03.jsonScalarOk
  cases hb : t.body <;> rw [hb] at hc hl <;> simp [leafOk] at hl <;> simp at hc <;>
    first | exact hc.elim | (simp [hl, hc]; done) | (simpa using hl)

mutual
  theorem jwf03V : ∀ (v : TV), C10.common v = true → LB v = true → C03.JWF v = true
    | .scalar t, hc, hl => by
      simp only [C03.JWF]
      exact scalar_ok03 t hc (by simpa [LB] using hl)
    | .arr tag len items, hc, hl => by
      simp only [C10.common, Bool.and_eq_true] at hc
      simp only [C03.JWF]
      exact jwf03L items hc.2 (by simpa [LB] using hl)
    | .map tag len es, hc, hl => by
      simp only [C10.common, Bool.and_eq_true] at hc
      simp only [C03.JWF]
      exact jwf03E es hc.2 (by simpa [LB] using hl)
  theorem jwf03L : ∀ (vs : List TV), C10.commonL vs = true → LBl vs = true → C03.JWFl vs = true
    | [], _, _ => rfl
    | v :: vs, hc, hl => by
      simp only [C10.commonL, Bool.and_eq_true] at hc
      simp only [LBl, Bool.and_eq_true] at hl
      simp only [C03.JWFl, Bool.and_eq_true]
      exact ⟨jwf03V v hc.1 hl.1, jwf03L vs hc.2 hl.2⟩
  theorem jwf03E : ∀ (es : List (TV × TV)), C10.commonE es = true → LBe es = true → C03.JWFe es = true
    | [], _, _ => rfl
    | (k, v) :: es, hc, hl => by
      simp only [C10.commonE, Bool.and_eq_true] at hc
      obtain ⟨⟨hk, hv⟩, hes⟩ := hc
      simp only [LBe, Bool.and_eq_true] at hl
      obtain ⟨⟨lk, lv⟩, les⟩ := hl
      simp only [C03.JWFe, Bool.and_eq_true]
      refine ⟨⟨?_, jwf03V v hv lv⟩, jwf03E es hes les⟩
      cases k with
      | scalar t =>
        simp only [Bool.and_eq_true] at hk
        simp only [LB] at lk
        cases hb : t.body <;> rw [hb] at hk lk <;> simp at hk
        simp only [hb]
        simpa [leafOk] using lk
      | arr _ _ _ => simp at hk
      | map _ _ _ => simp at hk
end

/-- `C16.JWF` is the same predicate as `C03.JWF` (two copies of one definition) -/
theorem scalarOk_eq (t : Tok) : C16.jsonScalarOk t = C03.jsonScalarOk t := rfl

mutual
  theorem jwf_eqV : ∀ (v : TV), C16.JWF v = C03.JWF v
    | .scalar t => by simp only [C16.JWF, C03.JWF, scalarOk_eq]
    | .arr _ _ items => by simp only [C16.JWF, C03.JWF, jwf_eqL items]
    | .map _ _ es => by simp only [C16.JWF, C03.JWF, jwf_eqE es]
  theorem jwf_eqL : ∀ (vs : List TV), C16.JWFl vs = C03.JWFl vs
    | [] => rfl
    | v :: vs => by simp only [C16.JWFl, C03.JWFl, jwf_eqV v, jwf_eqL vs]
  theorem jwf_eqE : ∀ (es : List (TV × TV)), C16.JWFe es = C03.JWFe es
    | [] => rfl
    | (k, v) :: es => by
      simp only [C16.JWFe, C03.JWFe, jwf_eqV v, jwf_eqE es]
      cases k with
      | scalar t => obtain ⟨b, tg⟩ := t; cases b <;> rfl
      | arr _ _ _ => rfl
      | map _ _ _ => rfl
end

/-- a CBOR item of the common data model, read from bytes, is in the JSON encoder's domain -/
theorem parse_common_JWF (coerce : Bool) (bs : Bytes) (v : TV) (rest : Bytes) (hb : ∀ x ∈ bs, x < 256)
    (hp : Spec.Cbor.parse coerce bs = some (v, rest)) (hc : C10.common v = true) : C03.JWF v = true :=
  jwf03V v hc (parse_LB coerce bs v rest hb hp)

theorem parse_common_JWF16 (coerce : Bool) (bs : Bytes) (v : TV) (rest : Bytes) (hb : ∀ x ∈ bs, x < 256)
    (hp : Spec.Cbor.parse coerce bs = some (v, rest)) (hc : C10.common v = true) : C16.JWF v = true := by
  rw [jwf_eqV]; exact parse_common_JWF coerce bs v rest hb hp hc

end Refmt.CborLeaves
