/-
  Stateful object unmarshaller: rows seen as `lo ++ row :: hi`, and the driver (`ustep`, `pump`, `pump1`) in terms
  of what the current machine's `Step` returned.
-/
import RefmtProofs.Lemmas.UnmarshalMachUnionDefs
set_option linter.unusedSimpArgs false
set_option linter.unusedVariables false
namespace Refmt.UMachU
open Refmt Refmt.Obj Refmt.Obj.UM Refmt.UMachL

variable {ts : Types} {a : Atlas} {trs : Trs} {it : IfaceTys}

theorem getRow (lo : List URow) (row : URow) (hi : List URow) : (lo ++ row :: hi)[lo.length]? = some row := by
  simp

theorem updRow_at (lo : List URow) (row : URow) (hi : List URow) (f : URow → URow) :
    updRow (lo ++ row :: hi) lo.length f = lo ++ f row :: hi := by
  simp [updRow]

theorem upd_at (lo : List URow) (row : URow) (hi : List URow) (f : URow → URow) (st be) (cur : Option URef) :
    (UState.mk (lo ++ row :: hi) st cur be).upd lo.length f = ⟨lo ++ f row :: hi, st, cur, be⟩ := by
  simp [UState.upd, updRow_at]

theorem release_snoc (R : List URow) (x : URow) : release (R ++ [x]) = R := by
  simp [release]

theorem ustep_err {f R stk c be t x} (h : stepM ts a trs it f c ⟨R, stk, some c, be⟩ t = .error x) :
    ustep ts a trs it (f+1) ⟨R, stk, some c, be⟩ t = .error x := by
  simp [ustep, ustepBody, h]

theorem ustep_cont {f R stk c be t s'} (h : stepM ts a trs it f c ⟨R, stk, some c, be⟩ t = .ok ⟨none, s'⟩) :
    ustep ts a trs it (f+1) ⟨R, stk, some c, be⟩ t = .ok ⟨none, s'⟩ := by
  simp [ustep, ustepBody, h]

theorem pump_err {f R stk c be t rest x} (h : stepM ts a trs it f c ⟨R, stk, some c, be⟩ t = .error x) :
    pump ts a trs it (f+1) ⟨R, stk, some c, be⟩ (t :: rest) = x.toURes := by
  simp [pump, ustep_err h]

theorem pump_cont {f R stk c be t rest s'} (h : stepM ts a trs it f c ⟨R, stk, some c, be⟩ t = .ok ⟨none, s'⟩) :
    pump ts a trs it (f+1) ⟨R, stk, some c, be⟩ (t :: rest) = (pump ts a trs it (f+1) s' rest).shift 1 := by
  simp [pump, ustep_cont h]

theorem pump_done {f R stk c be t rest v R' c'}
    (h : stepM ts a trs it f c ⟨R, stk, some c, be⟩ t = .ok ⟨some v, ⟨R', stk, c', be⟩⟩) :
    pump ts a trs it (f+1) ⟨R, stk, some c, be⟩ (t :: rest) = kont ts a trs it f (f+1) be stk v R' rest := by
  cases stk with
  | nil => simp [pump, ustep, ustepBody, h, kont]
  | cons p stk =>
    simp only [pump, ustep, ustepBody, h, kont]
    cases absorbM ts f p v R' <;> simp

theorem pump1_err {f sf R stk c be t rest x} (h : stepM ts a trs it f c ⟨R, stk, some c, be⟩ t = .error x) :
    pump1 ts a trs it (f+1) sf ⟨R, stk, some c, be⟩ (t :: rest) = x.toURes := by
  simp [pump1, ustep_err h]

theorem pump1_cont {f sf R stk c be t rest s'} (h : stepM ts a trs it f c ⟨R, stk, some c, be⟩ t = .ok ⟨none, s'⟩) :
    pump1 ts a trs it (f+1) sf ⟨R, stk, some c, be⟩ (t :: rest) = (pump ts a trs it sf s' rest).shift 1 := by
  simp [pump1, ustep_cont h]

theorem pump1_done {f sf R stk c be t rest v R' c'}
    (h : stepM ts a trs it f c ⟨R, stk, some c, be⟩ t = .ok ⟨some v, ⟨R', stk, c', be⟩⟩) :
    pump1 ts a trs it (f+1) sf ⟨R, stk, some c, be⟩ (t :: rest) = kont ts a trs it f sf be stk v R' rest := by
  cases stk with
  | nil => simp [pump1, ustep, ustepBody, h, kont]
  | cons p stk =>
    simp only [pump1, ustep, ustepBody, h, kont]
    cases absorbM ts f p v R' <;> simp

end Refmt.UMachU
