/-
  C12, claim (ii) with tags — the re-marshal of the round-trip value: keyed unions, transforms, pointer chains, and the
  induction itself.  See RefmtProofs/Props/C12Tagged.lean.
-/
import RefmtProofs.Lemmas.TagIdm3
set_option linter.unusedSimpArgs false
set_option linter.unusedVariables false
namespace Refmt.Obj
open Refmt Refmt.C13 Refmt.C11 Refmt.C12 Refmt.C12L

variable {ts : Types} {a : Atlas} {trs : Trs} {it : IfaceTys}

theorem idm_b_union {f} (ih : IDM ts a trs it f) (p h id : Nat) (m reg : Bool) (ty : Nat) (tag : Option Int)
    (members : List (Bytes × Nat)) (v : Val) (toks : List Tok) (g : Nat) (hp64 : p + 1 ≤ 64)
    (hd : ts.get id = .iface m) (hent : a.get id = some ⟨reg, ty, tag, .union members⟩)
    (hnames : (members.map (·.1)).Nodup) (hmem : ∀ mem ∈ members, MOKF ts a p mem)
    (hstm : ∀ mem ∈ members, ∀ me, a.pool[mem.2]? = some me → StabTy ts a trs p me.ty)
    (hv : hasTy ts h id v = true) (hg : f + 1 ≤ g) (hs : fullValB ts a trs it g id (pickBare ts a id) v = true)
    (hm : marshalBare ts a trs (f+1) id (pickBare ts a id) v = ⟨toks, none⟩) :
    IdmB ts a trs it id toks (rtFB ts a trs it g id (pickBare ts a id) v) := by
  obtain ⟨g, rfl⟩ : ∃ g', g = g' + 1 := ⟨g - 1, by omega⟩
  obtain ⟨hpk, hupk⟩ := pick_union hd hent
  rw [hpk] at hm hs ⊢
  rw [fullValB_union] at hs
  rw [marshalBare_union] at hm
  cases h with
  | zero => simp [hasTy] at hv
  | succ h =>
  cases v <;> try (simp [MOut.bad] at hm; done)
  rename_i o
  cases o with
  | none => simp [MOut.bad] at hm
  | some q =>
    obtain ⟨dt, dv⟩ := q
    have hvd : hasTy ts h dt dv = true := by simpa [hasTy, hd] using hv
    simp only at hm hs
    cases hfind : (members.find? fun (x : Bytes × Nat) => (a.pool[x.2]?.map (·.ty)) == some dt) with
    | none => simp only [hfind] at hm; simp [MOut.bad] at hm
    | some q =>
      obtain ⟨nm, idx⟩ := q
      simp only [hfind] at hm hs
      cases hme : a.pool[idx]? with
      | none => simp only [hme] at hm; simp [MOut.bad] at hm
      | some me =>
        simp only [hme] at hm hs
        obtain ⟨hin, hty⟩ := find_member_ty hfind hme
        obtain ⟨me', fs, fds, hme', hk, hds, hmach, humach, hpkd, hupkd, hfull⟩ := member_mach (hmem _ hin)
        simp only at hme'
        rw [hme] at hme'
        cases hme'
        subst hty
        rw [hmach] at hm hs
        have hstme := hstm _ hin me hme
        obtain ⟨p', rfl⟩ : ∃ p', p = p' + 1 := by
          cases p with
          | zero => simp [fullTy] at hfull
          | succ p' => exact ⟨p', rfl⟩
        have hnpd : ∀ e, ts.get me.ty ≠ .ptr e := by simp [hds]
        cases hinner : marshalBare ts a trs f me.ty (pickBare ts a me.ty) dv with
        | mk ti fi =>
        rw [hinner] at hm
        simp only at hm
        have hfi : fi = none := by
          cases fi with
          | none => rfl
          | some ff =>
            exfalso
            cases ti with
            | nil => simp [MOut.bad] at hm
            | cons t0 r0 =>
              simp only [MOut.seq, MOut.ok] at hm
              simp at hm
        subst hfi
        have hm2 : (MOut.ok [⟨.mapOpen 1, none⟩, ⟨.str nm, none⟩]).seq (fun _ =>
            (MOut.mk ti none).seq fun _ => MOut.ok [⟨.mapClose, none⟩]) = ⟨toks, none⟩ := by
          cases ti <;> simpa using hm
        obtain ⟨t1, t23, h1, h23, rfl⟩ := seq_ok hm2
        obtain ⟨tl, tc, h2, h3, rfl⟩ := seq_ok h23
        simp [MOut.ok] at h1 h2 h3; subst h1 h2 h3
        obtain ⟨ti2, N, hhd, hgood⟩ := ih.b p' h me.ty dv ti g (by omega) hfull hstme hnpd hvd (by omega) hs hinner
        dsimp only at hhd hgood
        have hw : rtFB ts a trs it (g+1) id (.union ⟨reg, ty, tag, .union members⟩ members) (.iface (some (me.ty, dv))) =
            .iface (some (me.ty, rtFB ts a trs it g me.ty (pickBare ts a me.ty) dv)) := by
          rw [rtFB_union]
          simp only [hfind, hme, hmach]
        rw [hw]
        refine ⟨⟨.mapOpen 1, none⟩ :: ⟨.str nm, none⟩ :: (ti2 ++ [⟨.mapClose, none⟩]), N + 1,
          ⟨_, _, _, _, rfl, rfl, fun h => h, by simp, by simp, by simp, by simp, by simp [SameOpen], Or.inr ⟨by simp, by simp⟩⟩,
          fun F hF => ⟨?_, fun rest => ?_⟩⟩
        · obtain ⟨F, rfl⟩ : ∃ F', F = F' + 1 := ⟨F - 1, by omega⟩
          have hmi := (hgood F (by omega)).1
          dsimp only
          rw [hpk, marshalBare_union]
          simp only [hfind, hme, hmach, hmi]
          cases ti2 <;> simp [MOut.seq, MOut.ok]
        · obtain ⟨F, rfl⟩ : ∃ F', F = F' + 1 := ⟨F - 1, by omega⟩
          have hu := (hgood F (by omega)).2 (⟨.mapClose, none⟩ :: rest)
          unfold RdB at hu
          rw [hupkd] at hu
          have humach' : umachForEntry ts me = .structMap fs := by rw [humach, hupkd]
          dsimp only
          rw [hupk]
          simp only [List.cons_append, List.append_assoc, List.singleton_append, unmBare_union]
          simp only [hfind, hme, hmach, find?_member_name members hnames nm idx hin, humach']
          simp only [List.nil_append, hu]
          simp [unionClose]

/-- the transform machine's tagging of a first token -/
def retagTok (tag : Option Int) (t : Tok) : Tok :=
  match tag with
  | some g => ⟨t.body, some g⟩
  | none => t

theorem retagFirst_cons (tag : Option Int) (t : Tok) (r : List Tok) :
    retagFirst tag ⟨t :: r, none⟩ = ⟨retagTok tag t :: r, none⟩ := by
  cases tag <;> rfl

theorem idm_b_transform {f} (htr : TrsEqv trs) (he : UEnv ts a it) (ih : IDM ts a trs it f) (p h id : Nat)
    (reg : Bool) (ty : Nat)
    (tag : Option Int) (fn mty : Nat) (v : Val) (toks : List Tok) (g : Nat) (hp64 : p + 1 ≤ 64)
    (hb : isBuiltin (ts.get id) = false) (hent : a.get id = some ⟨reg, ty, tag, .transform fn mty mty⟩)
    (hmp : ∀ e, ts.get mty ≠ .ptr e) (htb : tag = none ∨ tagBlind ts a mty = true) (hfm : fullTy ts a p mty = true)
    (hret : RetractFn trs fn) (hstm : StabTy ts a trs p mty)
    (hg : f + 1 ≤ g) (hs : fullValB ts a trs it g id (pickBare ts a id) v = true)
    (hm : marshalBare ts a trs (f+1) id (pickBare ts a id) v = ⟨toks, none⟩) :
    IdmB ts a trs it id toks (rtFB ts a trs it g id (pickBare ts a id) v) := by
  obtain ⟨g, rfl⟩ : ∃ g', g = g' + 1 := ⟨g - 1, by omega⟩
  obtain ⟨hpk, hupk⟩ := pick_transform hb hent
  rw [hpk] at hm hs ⊢
  rw [fullValB_transform] at hs
  rw [marshalBare_transform] at hm
  cases htm : trs.m fn v with
  | none => simp only [htm] at hm; simp [MOut.bad] at hm
  | some tv =>
    simp only [htm, Bool.and_eq_true] at hm hs
    obtain ⟨⟨hvt, hfv⟩, hsome⟩ := hs
    obtain ⟨toks0, ho, hlen, hcase⟩ := retag_inv hm
    obtain ⟨tk0', N, hhd, hgood⟩ := ih.v p 1000 mty tv toks0 g (by omega) hfm hstm hvt (by omega) hfv ho
    dsimp only at hhd hgood
    obtain ⟨b', hb'⟩ := Option.isSome_iff_exists.mp hsome
    obtain ⟨a', ha', -⟩ := htr fn _ _ b' ((rtf_eqv_norm htr he g).1 p mty tv (by omega) hfm hfv) hb'
    have hma := hret _ _ ha'
    obtain ⟨p', rfl⟩ : ∃ p', p = p' + 1 := by
      cases p with
      | zero => simp [fullTy] at hfm
      | succ p' => exact ⟨p', rfl⟩
    have hw : rtFB ts a trs it (g+1) id (.transform ⟨reg, ty, tag, .transform fn mty mty⟩ fn mty) v = a' := by
      rw [rtFB_transform]
      simp only [htm, ha', Option.getD_some]
    rw [hw]
    obtain ⟨t, r, t', r', rfl, rfl, hhd'⟩ := hhd.retag tag
    -- the first rendering, with the head spelled out
    have htoks : toks = retagTok tag t :: r := by
      rcases hcase with rfl | ⟨t0, r0, gg, htag, h0, rfl⟩
      · cases tag with
        | none => rfl
        | some gg =>
          rw [ho, retagFirst_cons] at hm
          simp only [MOut.mk.injEq, and_true] at hm
          exact hm.symm
      · simp only [List.cons.injEq] at h0
        obtain ⟨rfl, rfl⟩ := h0
        rw [htag]
        rfl
    refine ⟨retagTok tag t' :: r', N + 2, ?_, fun F hF => ⟨?_, fun rest => ?_⟩⟩
    · rw [htoks]
      dsimp only
      cases tag with
      | none => exact hhd
      | some gg => exact hhd'
    · obtain ⟨F, rfl⟩ : ∃ F', F = F' + 1 := ⟨F - 1, by omega⟩
      dsimp only
      rw [hpk, marshalBare_transform]
      simp only [hma, (hgood F (by omega)).1, retagFirst_cons]
    · obtain ⟨F, rfl⟩ : ∃ F', F = F' + 2 := ⟨F - 2, by omega⟩
      have hu' := (hgood (F + 2) (by omega)).2 rest
      rw [List.cons_append, unmV_nonptr ts a trs it hmp] at hu'
      dsimp only
      rw [hupk, List.cons_append, unmBare_transform]
      cases tag with
      | none =>
        simp only [retagTok]
        rw [hu']
        simp [trPost, ha']
      | some gg =>
        have htb' : tagBlind ts a mty = true := by
          rcases htb with h0 | h0
          · cases h0
          · exact h0
        obtain ⟨hw1, hw2⟩ := view_tagBlind (fullTy_view hfm hmp) htb'
        simp only [retagTok]
        rw [unmBare_retag (upickBare ts a mty) hw1 hw2 (F+1) mty _ t'.body (some gg) t'.tag, hu']
        simp [trPost, ha']

/-! ### assembly -/

theorem idm_b {f} (hf : f + 1 ≤ 1000) (he : UEnv ts a it) (hz : ZeroStable ts) (htr : TrsEqv trs) (hts : TagStab ts a trs)
    (ih : IDM ts a trs it f) :
    ∀ p h id v toks g, p + 1 ≤ 64 → fullTy ts a (p + 1) id = true → StabTy ts a trs (p + 1) id → (∀ e, ts.get id ≠ .ptr e) →
      hasTy ts h id v = true → f + 1 ≤ g →
      fullValB ts a trs it g id (pickBare ts a id) v = true →
      marshalBare ts a trs (f+1) id (pickBare ts a id) v = ⟨toks, none⟩ →
      IdmB ts a trs it id toks (rtFB ts a trs it g id (pickBare ts a id) v) := by
  intro p h id v toks g hp64 hp hst hnp hv hg hs hm
  have hR : RBare ts a trs it f id toks (rtFB ts a trs it g id (pickBare ts a id) v) :=
    (rtf_all he hz htr (f+1) hf).b p h id v toks g hp64 hp hnp hv hg hs hm
  cases fullTy_view hp hnp with
  | prim k b hd hn => exact idm_b_prim id v toks g (pick_prim hd hn).1 hg hR hm
  | bytes b hd hn => exact idm_b_prim id v toks g (pick_bytes hd hn).1 hg hR hm
  | byteArr n hd hn => exact idm_b_prim id v toks g (pick_byteArr hd hn).1 hg hR hm
  | slice e hd hn hpe => exact idm_b_slice ih p h id e v toks g hp64 hd hn hpe (stabTy_slice hd hn hst) hv hg hs hR hm
  | arr n e hd hn hpe => exact idm_b_arr ih p h id n e v toks g hp64 hd hn hpe (stabTy_arr hd hn hst) hv hg hs hm
  | map kt vt bk hd hn hkt hpe =>
    exact idm_b_map ih p h id kt vt bk v toks g hp64 hd hn hkt hpe (stabTy_map hd hn hst) hv hg hs hR hm
  | wild hd hn => exact idm_b_wild hf he hts (rtf_all he hz htr f (by omega)) ih h id v toks g hd hn hv hg hs hm hR
  | struct fds reg ty tag fields hd hent hnames hroutes hfok =>
    exact idm_b_struct hz ih p h id fds reg ty tag fields v toks g hp64 hd hent hnames hroutes hfok
      (stabTy_struct hd hent hst) hv hg hs hm
  | transform reg ty tag fn mty hb hent hmp htb hfm =>
    obtain ⟨hret, hstm⟩ := stabTy_transform hnp hent hst
    exact idm_b_transform htr he ih p h id reg ty tag fn mty v toks g hp64 hb hent hmp htb hfm hret hstm hg hs hm
  | union m reg ty tag members hd hent hnames hmem =>
    exact idm_b_union ih p h id m reg ty tag members v toks g hp64 hd hent hnames hmem (stabTy_union hd hent hst) hv hg hs hm

theorem derefN_wrapPtr : ∀ (n : Nat) (x : Val), derefN n (wrapPtr n x) = some x
  | 0, _ => rfl
  | n+1, x => by simp only [wrapPtr, derefN]; exact derefN_wrapPtr n x

theorem derefN_succ_none (n : Nat) : derefN (n+1) (.ptr none) = none := rfl

theorem idm_v {f} (hf : f + 1 ≤ 1000) (he : UEnv ts a it) (ih : IDM ts a trs it f) :
    ∀ p h id v toks g, p ≤ 64 → fullTy ts a p id = true → StabTy ts a trs p id → hasTy ts h id v = true →
      f + 1 ≤ g → fullVal ts a trs it g id v = true →
      marshalV ts a trs (f+1) id v = ⟨toks, none⟩ → Idm ts a trs it id toks (rtF ts a trs it g id v) := by
  intro p h id v toks g hp64 hp hst hv hg hfv hm
  obtain ⟨g, rfl⟩ : ∃ g', g = g' + 1 := ⟨g - 1, by omega⟩
  obtain ⟨n, base, p', hpeel, hpb, hstb, hnp, hch, hp'p⟩ := stab_peel (trs := trs) p 64 0 id hp hst hp64
  simp only [Nat.zero_add] at hpeel
  have hp'64 : p' + 1 ≤ 64 := by omega
  rw [marshalV_succ, hpeel] at hm
  rw [fullVal_succ, hpeel] at hfv
  rw [rtF_succ, hpeel]
  simp only at hm hfv ⊢
  cases n with
  | zero =>
    cases hch
    simp only [beq_self_eq_true, if_true] at hm hfv ⊢
    obtain ⟨tk2, N, hhd, hgood⟩ := ih.b p' h id v toks g hp'64 hpb hstb hnp hv (by omega) hfv hm
    dsimp only at hhd hgood
    refine ⟨tk2, N + 1, hhd, fun F hF => ⟨?_, fun rest => ?_⟩⟩
    · obtain ⟨F, rfl⟩ : ∃ F', F = F' + 1 := ⟨F - 1, by omega⟩
      dsimp only
      rw [marshalV_succ, hpeel]
      simpa using (hgood F (by omega)).1
    · obtain ⟨F, rfl⟩ : ∃ F', F = F' + 1 := ⟨F - 1, by omega⟩
      obtain ⟨t, r, htk2, -, -⟩ := hhd.head2
      have hu := (hgood F (by omega)).2 rest
      dsimp only at hu htk2 ⊢
      rw [htk2] at hu ⊢
      rw [List.cons_append] at hu ⊢
      rw [unmV_cons, hpeel]
      simpa using hu
  | succ n =>
    have hn0 : ((n + 1 == 0) = false) := by simp
    simp only [hn0] at hm hfv ⊢
    have hnullRd : ∀ F, 2 ≤ F → Rd ts a trs it F id [⟨.null, none⟩] (.ptr none) := by
      intro F hF rest
      obtain ⟨F, rfl⟩ : ∃ F', F = F' + 1 := ⟨F - 1, by omega⟩
      rw [List.cons_append, unmV_cons, hpeel]
      simp
    have hnullM : ∀ F, 2 ≤ F → marshalV ts a trs F id (.ptr none) = ⟨[⟨.null, none⟩], none⟩ := by
      intro F hF
      obtain ⟨F, rfl⟩ : ∃ F', F = F' + 1 := ⟨F - 1, by omega⟩
      rw [marshalV_succ, hpeel]
      simp only [hn0, derefN_succ_none]
      rfl
    rcases chain_hasTy ts (n + 1) id base h v hch hv with hdn | ⟨inner, h', hdn, hvi⟩
    · rw [hdn] at hm ⊢
      simp [MOut.ok] at hm; subst hm
      exact ⟨[⟨.null, none⟩], 2, (HeadSpec.hd2T (Or.inl ⟨none, rfl⟩)), fun F hF => ⟨hnullM F hF, hnullRd F hF⟩⟩
    · rw [hdn] at hm hfv ⊢
      simp only [Bool.false_eq_true, if_false] at hm hfv ⊢
      obtain ⟨tk2, N, hhd, hgood⟩ := ih.b p' h' base inner toks g hp'64 hpb hstb hnp hvi (by omega) hfv hm
      dsimp only at hhd hgood
      have hic := innerCur_zeroVal ts (n + 1) id base hch
      obtain ⟨t, r, t', r', h0, h2, htag, hc1, hc2, hc1', hc2', hso, hnl⟩ := hhd
      subst h0 h2
      rcases hnl with ⟨hb0, rfl, hb0', rfl⟩ | ⟨hnn, hnn'⟩
      · obtain ⟨tb, tt⟩ := t
        simp only at hb0
        subst hb0
        have hnull := isNullSer_null ts a trs hnp hm (by omega)
        simp only [hnull, if_true]
        exact ⟨[⟨.null, none⟩], 2,
          ⟨_, _, _, _, rfl, rfl, fun _ => rfl, by simp, by simp, by simp, by simp, SameOpen.refl _, Or.inl ⟨rfl, rfl, rfl, rfl⟩⟩,
          fun F hF => ⟨hnullM F hF, hnullRd F hF⟩⟩
      · have hnull := isNullSer_nonnull ts a trs hnp hm hnn (by omega)
        simp only [hnull, Bool.false_eq_true, if_false]
        refine ⟨t' :: r', N + 1, ⟨_, _, _, _, rfl, rfl, htag, hc1, hc2, hc1', hc2', hso, Or.inr ⟨hnn, hnn'⟩⟩,
          fun F hF => ⟨?_, fun rest => ?_⟩⟩
        · obtain ⟨F, rfl⟩ : ∃ F', F = F' + 1 := ⟨F - 1, by omega⟩
          dsimp only
          rw [marshalV_succ, hpeel]
          simp only [hn0, derefN_wrapPtr]
          simpa using (hgood F (by omega)).1
        · obtain ⟨F, rfl⟩ : ∃ F', F = F' + 1 := ⟨F - 1, by omega⟩
          have hu := (hgood F (by omega)).2 rest
          unfold RdB at hu
          dsimp only at hu ⊢
          rw [List.cons_append] at hu ⊢
          rw [unmV_cons, hpeel]
          simp only [hn0, Bool.false_eq_true, if_false, hic]
          first
            | (rw [hu]; rfl)
            | (split
               · rename_i hb; exact absurd hb hnn'
               · rw [hu]; rfl)

/-- the re-marshal of the round-trip value, for every marshaller fuel up to 1000 -/
theorem idm_all (he : UEnv ts a it) (hz : ZeroStable ts) (htr : TrsEqv trs) (hts : TagStab ts a trs) :
    ∀ f, f ≤ 1000 → IDM ts a trs it f := by
  intro f
  induction f with
  | zero => intro _; exact idm_zero ts a trs it
  | succ n ih =>
    intro hf
    have ih := ih (by omega)
    exact ⟨idm_v hf he ih, idm_b hf he hz htr hts ih⟩

end Refmt.Obj
