/-
  Streaming invariant for the object unmarshaller model: a generic predicate `Str` on
  token-list consumers (`List Tok → URes`) with combinators, then instantiated on the
  six mutual functions `unmV … unmStruct` by induction on fuel.
-/
import RefmtModel
set_option linter.unusedSimpArgs false
set_option linter.unusedVariables false
namespace Refmt.Obj
open Refmt

/-- `ok`-continuation: on `ok` continue with `K`, otherwise propagate shifted by `s` -/
def URes.bind' (x : URes) (K : Val → List Tok → Nat → URes) (s : Nat) : URes :=
  match x with
  | .ok v r u => K v r u
  | y => y.shift s

@[simp] theorem URes.shift_zero (x : URes) : x.shift 0 = x := by cases x <;> rfl
@[simp] theorem URes.shift_shift (x : URes) (a b : Nat) : (x.shift a).shift b = x.shift (a + b) := by
  cases x <;> simp [URes.shift, Nat.add_assoc]
@[simp] theorem URes.shift_ok (v r u k) : (URes.ok v r u).shift k = .ok v r (u + k) := rfl
@[simp] theorem URes.shift_more (u k) : (URes.more u).shift k = .more (u + k) := rfl
@[simp] theorem URes.shift_err (u k) : (URes.err u).shift k = .err (u + k) := rfl
@[simp] theorem URes.shift_panic (u k) : (URes.panic u).shift k = .panic (u + k) := rfl
@[simp] theorem URes.bind'_ok (v r u K s) : (URes.ok v r u).bind' K s = K v r u := rfl
@[simp] theorem URes.bind'_more (u K s) : (URes.more u).bind' K s = .more (u + s) := rfl
@[simp] theorem URes.bind'_err (u K s) : (URes.err u).bind' K s = .err (u + s) := rfl
@[simp] theorem URes.bind'_panic (u K s) : (URes.panic u).bind' K s = .panic (u + s) := rfl

/-- The streaming invariant of a consumer `g`: whenever it answers `ok v rest used` the input splits as
    `c ++ rest`, `used = |c| + off`, `c` has shape `S`, the answer is independent of what follows `c`,
    and on every proper prefix of `c` the answer is `more`. -/
def Str (off : Nat) (g : List Tok → URes) (S : List Tok → Prop) : Prop :=
  ∀ toks v rest used, g toks = .ok v rest used →
    ∃ c, toks = c ++ rest ∧ used = c.length + off ∧ S c ∧
      (∀ m, g (c ++ m) = .ok v m used) ∧ (∀ k, k < c.length → ∃ u, g (c.take k) = .more u)

theorem Str.never {off g S} (h : ∀ toks v r u, g toks ≠ .ok v r u) : Str off g S :=
  fun toks v r u hg => absurd hg (h toks v r u)

theorem Str.mono {off g S S'} (h : Str off g S) (hs : ∀ c, S c → S' c) : Str off g S' := by
  intro toks v rest used hg
  obtain ⟨c, h1, h2, h3, h4, h5⟩ := h toks v rest used hg
  exact ⟨c, h1, h2, hs c h3, h4, h5⟩

theorem Str.congr {off g g' S} (h : Str off g' S) (he : ∀ toks, g toks = g' toks) : Str off g S := by
  intro toks v rest used hg
  rw [he] at hg
  obtain ⟨c, h1, h2, h3, h4, h5⟩ := h toks v rest used hg
  exact ⟨c, h1, h2, h3, fun m => by rw [he]; exact h4 m, fun k hk => by rw [he]; exact h5 k hk⟩

/-- a consumer that answers `ok` at once without looking at the input -/
theorem Str.unit (off : Nat) (v : Val) : Str off (fun r => .ok v r off) (· = []) := by
  intro toks v' rest used hg
  simp at hg
  obtain ⟨rfl, rfl, rfl⟩ := hg
  exact ⟨[], by simp, by simp, rfl, fun m => by simp, fun k hk => by simp at hk⟩

/-- from the per-first-token tail consumers to the consumer -/
theorem Str.cons {off g S} (hnil : ∃ u, g [] = .more u)
    (h : ∀ t, Str (off + 1) (fun r => g (t :: r)) (fun c => S (t :: c))) : Str off g S := by
  intro toks v rest used hg
  cases toks with
  | nil => obtain ⟨u, hu⟩ := hnil; rw [hu] at hg; cases hg
  | cons t r =>
    obtain ⟨c, h1, h2, h3, h4, h5⟩ := h t r v rest used hg
    refine ⟨t :: c, by simp [h1], by simp [h2]; omega, h3, fun m => by simpa using h4 m, ?_⟩
    intro k hk
    cases k with
    | zero => simpa using hnil
    | succ k => simpa using h5 k (by simpa using hk)

/-- from a consumer to its tail consumers -/
theorem Str.tail {off g S} (h : Str off g S) (hnil : ∀ v r u, g [] ≠ .ok v r u) (t : Tok) :
    Str (off + 1) (fun r => g (t :: r)) (fun c => S (t :: c)) := by
  intro r v rest used hg
  obtain ⟨c, h1, h2, h3, h4, h5⟩ := h (t :: r) v rest used hg
  cases c with
  | nil => exact absurd (by simpa using h4 []) (hnil v [] used)
  | cons t' c =>
    simp at h1
    obtain ⟨rfl, rfl⟩ := h1
    refine ⟨c, rfl, by simp [h2]; omega, h3, fun m => by simpa using h4 m, ?_⟩
    intro k hk
    simpa using h5 (k + 1) (by simpa using hk)

/-- sequencing -/
theorem Str.seq {o1 s g1 K S1 S2} (h1 : Str o1 g1 S1) (hK : ∀ v u, Str (u + s) (fun r => K v r u) S2) :
    Str (o1 + s) (fun toks => (g1 toks).bind' K s) (fun c => ∃ c1 c2, c = c1 ++ c2 ∧ S1 c1 ∧ S2 c2) := by
  intro toks v rest used hg
  simp only at hg
  cases hx : g1 toks with
  | ok v1 r1 u1 =>
    rw [hx] at hg
    simp at hg
    obtain ⟨c1, a1, a2, a3, a4, a5⟩ := h1 toks v1 r1 u1 hx
    obtain ⟨c2, b1, b2, b3, b4, b5⟩ := hK v1 u1 r1 v rest used hg
    refine ⟨c1 ++ c2, by simp [a1, b1], by simp [b2, a2]; omega, ⟨c1, c2, rfl, a3, b3⟩, ?_, ?_⟩
    · intro m
      show (g1 (c1 ++ c2 ++ m)).bind' K s = _
      rw [List.append_assoc, a4 (c2 ++ m)]
      exact b4 m
    · intro k hk
      by_cases hlt : k < c1.length
      · obtain ⟨u, hu⟩ := a5 k hlt
        refine ⟨u + s, ?_⟩
        rw [List.take_append_of_le_length (by omega)]
        show (g1 (List.take k c1)).bind' K s = _
        rw [hu]; rfl
      · obtain ⟨u, hu⟩ := b5 (k - c1.length) (by simp at hk; omega)
        refine ⟨u, ?_⟩
        have : (c1 ++ c2).take k = c1 ++ c2.take (k - c1.length) := by
          rw [List.take_append]
          congr 1
          exact List.take_of_length_le (by omega)
        rw [this]
        show (g1 (c1 ++ List.take (k - c1.length) c2)).bind' K s = _
        rw [a4]
        exact hu
  | more u => rw [hx] at hg; simp at hg
  | err u => rw [hx] at hg; simp at hg
  | panic u => rw [hx] at hg; simp at hg

/-- same as `g'` on non-empty input, `more` on empty input -/
theorem Str.congr_ne {off g g' S} (h : Str off g' S) (he : ∀ toks, toks ≠ [] → g toks = g' toks)
    (hnil : ∃ u, g [] = .more u) (hnil' : ∀ v r u, g' [] ≠ .ok v r u) : Str off g S := by
  intro toks v rest used hg
  have hne : toks ≠ [] := by
    rintro rfl; obtain ⟨u, hu⟩ := hnil; rw [hu] at hg; cases hg
  rw [he _ hne] at hg
  obtain ⟨c, h1, h2, h3, h4, h5⟩ := h toks v rest used hg
  have hc : c ≠ [] := by
    rintro rfl; exact absurd (by simpa using h4 []) (hnil' v [] used)
  refine ⟨c, h1, h2, h3, fun m => ?_, fun k hk => ?_⟩
  · rw [he _ (by simp [hc])]; exact h4 m
  · cases k with
    | zero => simpa using hnil
    | succ k =>
      rw [he _ (by cases c with | nil => exact absurd rfl hc | cons x xs => simp)]
      exact h5 _ hk

end Refmt.Obj
