/-
  C12, claim (ii) with tags — `omitempty` on a field of a reconstructed struct (see RefmtProofs/Props/C12Tagged.lean).

  The re-marshal of a reconstructed struct applies `omitempty` to the ROUND-TRIP values of its fields.  For a field of a
  `plainField` type (pointer, scalar, byte string, slice, array, map, untyped slot, keyed union):
    `isEmpty_zero_of_plain` : if the original value was empty (the field was not written, so it comes back as the zero
                              value), the zero value is empty too (it is omitted again);
    `rtF_empty_zero`        : if the original value was not empty but its round-trip value is, the round-trip value IS
                              the zero value (omitting it loses nothing);
    `foldl_setStep_filter`  : skipping writes that store what is already there does not change a struct.
-/
import RefmtProofs.Lemmas.TagIdm1
set_option linter.unusedSimpArgs false
set_option linter.unusedVariables false
namespace Refmt.Obj
open Refmt Refmt.C13 Refmt.C11 Refmt.C12 Refmt.C12L

variable {ts : Types} {a : Atlas} {trs : Trs} {it : IfaceTys}

theorem set_same {α : Type} (l : List α) (i : Nat) (x : α) (h : l[i]? = some x) : l.set i x = l := by
  apply List.ext_getElem?
  intro j
  by_cases hij : i = j
  · subst hij
    have hlt : i < l.length := (List.getElem?_eq_some_iff.mp h).1
    rw [List.getElem?_set_self hlt, h]
  · rw [List.getElem?_set_ne hij]

theorem inj_of_nodup_map {α β : Type} (f : α → β) : ∀ (l : List α), (l.map f).Nodup →
    ∀ x ∈ l, ∀ y ∈ l, f x = f y → x = y := by
  intro l
  induction l with
  | nil => intro _ x hx; cases hx
  | cons z zs ih =>
    intro hnd x hx y hy hxy
    simp only [List.map_cons, List.nodup_cons] at hnd
    rcases List.mem_cons.mp hx with rfl | hx' <;> rcases List.mem_cons.mp hy with rfl | hy'
    · rfl
    · exact absurd (hxy ▸ List.mem_map_of_mem (f := f) hy') hnd.1
    · exact absurd (hxy ▸ List.mem_map_of_mem (f := f) hx') hnd.1
    · exact ih hnd.2 x hx' y hy' hxy

/-- skipping the items that write what is already there -/
theorem foldl_setStep_filter (P : SMField × Item → Bool) : ∀ (l : List (SMField × Item)) (cs : List Val),
    (l.map fun p => routeIdx p.1).Nodup → (∀ q ∈ l, P q = false → cs[routeIdx q.1]? = some q.2.r) →
    l.foldl setStep cs = (l.filter P).foldl setStep cs := by
  intro l
  induction l with
  | nil => intro cs _ _; rfl
  | cons x xs ih =>
    intro cs hnd h
    simp only [List.map_cons, List.nodup_cons] at hnd
    have hrest : ∀ cs' : List Val, (∀ j : Nat, j ≠ routeIdx x.1 → cs'[j]? = cs[j]?) →
        ∀ q ∈ xs, P q = false → cs'[routeIdx q.1]? = some q.2.r := by
      intro cs' hcs' q hq hP
      rw [hcs' _ (fun he => hnd.1 (by rw [← he]; exact List.mem_map_of_mem (f := fun p => routeIdx p.1) hq))]
      exact h q (by simp [hq]) hP
    cases hPx : P x with
    | true =>
      simp only [List.foldl_cons, List.filter_cons, hPx, if_true]
      exact ih _ hnd.2 (hrest _ (fun j hj => by simp only [setStep]; exact List.getElem?_set_ne (Ne.symm hj)))
    | false =>
      simp only [List.foldl_cons, List.filter_cons, hPx, Bool.false_eq_true, if_false]
      have : setStep cs x = cs := set_same _ _ _ (h x (by simp) hPx)
      rw [this]
      exact ih _ hnd.2 (hrest _ (fun j _ => rfl))

theorem zeroVal63_ptr {ty e : Nat} (hd : ts.get ty = .ptr e) : zeroVal ts 63 ty = .ptr none := by
  show zeroVal ts (62+1) ty = _
  rw [zeroVal.eq_def]; simp [hd]

theorem plainField_entry {ty : Nat} {e : Entry} (hnp : ∀ x, ts.get ty ≠ .ptr x) (hg : a.get ty = some e)
    (hpl : plainField ts a ty = true) : ∃ ms, e.k = .union ms := by
  unfold plainField at hpl
  split at hpl
  · rename_i x hd; exact absurd hd (hnp x)
  · rw [hg] at hpl
    simp only at hpl
    split at hpl
    · exact ⟨_, by assumption⟩
    · cases hpl

/-- the zero value of a `plainField` type that has an empty inhabitant is empty -/
theorem isEmpty_zero_of_plain {p h ty : Nat} {x : Val} (hfull : fullTy ts a p ty = true) (hpl : plainField ts a ty = true)
    (hv : hasTy ts h ty x = true) (he : isEmpty 1000 x = true) : isEmpty 1000 (zeroVal ts 63 ty) = true := by
  cases p with
  | zero => simp [fullTy] at hfull
  | succ p =>
  cases h with
  | zero => simp [hasTy] at hv
  | succ h =>
  have hzv : zeroVal ts 63 ty = (match ts.get ty with
      | .prim k _ =>
        (match k with
         | .bool => .bool false
         | .string => .str []
         | .f32 | .f64 => .float 0
         | .int | .int8 | .int16 | .int32 | .int64 => .int 0
         | _ => .uint 0)
      | .bytes _ => .bytes none
      | .byteArr n => .byteArr (List.replicate n 0)
      | .slice _ => .slice none
      | .arr n e => .arr (List.replicate n (zeroVal ts 62 e))
      | .map _ _ => .map none
      | .ptr _ => .ptr none
      | .iface _ => .iface none
      | .struct fs => .struct (fs.map fun f => zeroVal ts 62 f.ty)
      | .other => .ptr none) := by
    show zeroVal ts (62+1) ty = _
    rw [zeroVal.eq_def]
    rfl
  rw [hzv]
  cases hd : ts.get ty with
  | prim k b => cases k <;> rfl
  | bytes b => simp only; rfl
  | byteArr n =>
    simp only
    cases x <;> simp only [hasTy, hd] at hv <;> try (cases hv; done)
    rename_i bs
    have hb : bs = [] := by
      have : bs.isEmpty = true := he
      simpa using this
    subst hb
    simp at hv
    subst hv
    rfl
  | slice e => simp only; rfl
  | arr n e =>
    simp only
    cases x <;> simp only [hasTy, hd] at hv <;> try (cases hv; done)
    rename_i vs
    have hb : vs = [] := by
      have : vs.isEmpty = true := he
      simpa using this
    subst hb
    simp at hv
    subst hv
    rfl
  | map k e => simp only; rfl
  | ptr e => simp only; rfl
  | iface m => simp only; rfl
  | struct fds =>
    exfalso
    have hnp : ∀ x, ts.get ty ≠ .ptr x := by simp [hd]
    cases hg : a.get ty with
    | none => simp [fullTy, hd, hg] at hfull
    | some en =>
      obtain ⟨ms, hk⟩ := plainField_entry hnp hg hpl
      obtain ⟨reg, ty', tag, k⟩ := en
      simp only at hk
      subst hk
      simp [fullTy, hd, hg] at hfull
  | other =>
    exfalso
    have hnp : ∀ x, ts.get ty ≠ .ptr x := by simp [hd]
    cases hg : a.get ty with
    | none => simp [fullTy, hd, hg] at hfull
    | some en =>
      obtain ⟨ms, hk⟩ := plainField_entry hnp hg hpl
      obtain ⟨reg, ty', tag, k⟩ := en
      simp only at hk
      subst hk
      simp [fullTy, hd, hg] at hfull

theorem isEmpty_wrapPtr_succ (n : Nat) (x : Val) : isEmpty 1000 (wrapPtr (n+1) x) = false := rfl

theorem rtFB_wild_iface (g id : Nat) (q : Nat × Val) :
    ∃ o, rtFB ts a trs it (g+1) id .wildcard (.iface (some q)) = .iface o := by
  obtain ⟨dt, dv⟩ := q
  rw [rtFB_wild_some]
  repeat' split
  all_goals exact ⟨_, rfl⟩

/-- a non-empty value of a `plainField` type whose round-trip value is empty comes back as the zero value -/
theorem rtF_empty_zero {p h g ty : Nat} {v : Val} (hfull : fullTy ts a p ty = true) (hp64 : p ≤ 64)
    (hpl : plainField ts a ty = true)
    (hv : hasTy ts h ty v = true) (hne : isEmpty 1000 v = false) (he : isEmpty 1000 (rtF ts a trs it g ty v) = true) :
    rtF ts a trs it g ty v = zeroVal ts 63 ty := by
  cases g with
  | zero => rw [rtF] at he; rw [he] at hne; cases hne
  | succ g =>
  obtain ⟨n, base, p', hpeel, hpb, hnpb, hch, hp'p⟩ := full_peel ts a p 64 0 ty hfull hp64
  simp only [Nat.zero_add] at hpeel
  cases n with
  | succ n =>
    -- a pointer type: the round-trip value is nil or a non-nil pointer
    obtain ⟨e, hd, -⟩ := hch
    rw [zeroVal63_ptr hd]
    rw [rtF_succ, hpeel] at he ⊢
    have hn0 : ((n + 1 == 0) = false) := by simp
    simp only [hn0, Bool.false_eq_true, if_false] at he ⊢
    split
    · rfl
    · split
      · rfl
      · rename_i inner hdn hns
        simp only [hdn, hns, Bool.false_eq_true, if_false, isEmpty_wrapPtr_succ] at he
  | zero =>
    cases hch
    have hnp := hnpb
    rw [rtF_nonptr ts a trs it hnp] at he ⊢
    cases g with
    | zero => rw [rtFB] at he; rw [he] at hne; cases hne
    | succ g =>
    cases h with
    | zero => simp [hasTy] at hv
    | succ h =>
    cases fullTy_view hpb hnp with
    | prim k b hd hn => rw [(pick_prim hd hn).1, rtFB_prim] at he; rw [he] at hne; cases hne
    | bytes b hd hn => rw [(pick_bytes hd hn).1, rtFB_prim] at he; rw [he] at hne; cases hne
    | byteArr n hd hn => rw [(pick_byteArr hd hn).1, rtFB_prim] at he; rw [he] at hne; cases hne
    | slice e hd hn _ =>
      rw [(pick_slice hd hn).1, rtFB_slice] at he
      cases v <;> simp only [hasTy, hd] at hv <;> try (cases hv; done)
      rename_i o
      cases o with
      | none => cases hne
      | some vs =>
        exfalso
        have h1 : (vs.map (rtF ts a trs it g e)).isEmpty = true := he
        have h2 : vs.isEmpty = false := hne
        cases vs <;> simp at h1 h2
    | arr n e hd hn _ =>
      rw [(pick_arr hd hn).1, rtFB_array] at he
      cases v <;> simp only [hasTy, hd] at hv <;> try (cases hv; done)
      rename_i vs
      exfalso
      have h1 : (vs.map (rtF ts a trs it g e)).isEmpty = true := he
      have h2 : vs.isEmpty = false := hne
      cases vs <;> simp at h1 h2
    | map kt vt bk hd hn _ _ =>
      rw [(pick_map hd hn).1, rtFB_map] at he
      cases v <;> simp only [hasTy, hd] at hv <;> try (cases hv; done)
      rename_i o
      cases o with
      | none => cases hne
      | some es =>
        exfalso
        have h2 : es.isEmpty = false := hne
        have h1 : ((sortKeys a.defaultSort (es.map fun (q : Val × Val) => (keyStr q.1, q.2))).map
            fun (q : Bytes × Val) => (Val.str q.1, rtF ts a trs it g vt q.2)).isEmpty = true := he
        rw [List.isEmpty_iff_length_eq_zero] at h1
        simp only [List.length_map, ObjL.sortKeys_length] at h1
        cases es
        · simp at h2
        · simp at h1
    | wild hd hn =>
      rw [(pick_wild hd hn).1] at he ⊢
      cases v <;> simp only [hasTy, hd] at hv <;> try (cases hv; done)
      rename_i o
      cases o with
      | none => cases hne
      | some q =>
        obtain ⟨o, ho⟩ := rtFB_wild_iface (ts := ts) (a := a) (trs := trs) (it := it) g ty q
        rw [ho] at he ⊢
        have h1 : o.isNone = true := he
        cases o with
        | some _ => cases h1
        | none =>
          show _ = zeroVal ts (62+1) ty
          rw [zeroVal.eq_def]; simp [hd]
    | struct fds reg ty' tag fields hd hent _ _ _ =>
      obtain ⟨ms, hk⟩ := plainField_entry hnp hent hpl
      cases hk
    | transform reg ty' tag fn mty hb hent _ _ _ =>
      obtain ⟨ms, hk⟩ := plainField_entry hnp hent hpl
      cases hk
    | union m reg ty' tag members hd hent _ _ =>
      rw [(pick_union hd hent).1, rtFB_union] at he
      cases v <;> simp only [hasTy, hd] at hv <;> try (cases hv; done)
      rename_i o
      cases o with
      | none => cases hne
      | some q =>
        exfalso
        obtain ⟨dt, dv⟩ := q
        simp only at he
        split at he
        · split at he <;> cases he
        · cases he

end Refmt.Obj
