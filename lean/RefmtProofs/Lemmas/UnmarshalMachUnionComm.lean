/-
  Stateful object unmarshaller, keyed unions: a write to the union machine's fields of some row commutes with the
  `Reset` of any machine that is not a union machine (the union machine Resets its delegate BEFORE it records it).
-/
import RefmtProofs.Lemmas.UnmarshalMachUnionLeaf
set_option linter.unusedSimpArgs false
set_option linter.unusedVariables false
namespace Refmt.UMachU
open Refmt Refmt.Obj Refmt.Obj.UM Refmt.UMachL

variable {ts : Types} {a : Atlas} {trs : Trs} {it : IfaceTys}

/-- a write to the union machine's fields -/
def uw (U : UnionM → UnionM) (r : URow) : URow := { r with union := U r.union }

theorem updRow_length (R : List URow) (i : Nat) (g : URow → URow) : (updRow R i g).length = R.length := by
  unfold updRow; split <;> simp

theorem updRow_get_eq {R : List URow} {i : Nat} {r : URow} (g : URow → URow) (h : R[i]? = some r) :
    (updRow R i g)[i]? = some (g r) := by
  have hlt : i < R.length := by
    rcases Nat.lt_or_ge i R.length with h1 | h1
    · exact h1
    · rw [List.getElem?_eq_none h1] at h; cases h
  simp only [updRow, h]
  simp [hlt]

theorem updRow_get_ne {R : List URow} {i j : Nat} (g : URow → URow) (h : i ≠ j) : (updRow R i g)[j]? = R[j]? := by
  unfold updRow; split
  · simp [List.getElem?_set, h]
  · rfl

theorem updRow_get_none {R : List URow} {i j : Nat} (g : URow → URow) (h : R[j]? = none) : (updRow R i g)[j]? = none := by
  rw [List.getElem?_eq_none_iff] at h ⊢
  rw [updRow_length]; exact h

theorem updRow_comm (R : List URow) (i j : Nat) (g h : URow → URow) (hc : ∀ r, g (h r) = h (g r)) :
    updRow (updRow R i g) j h = updRow (updRow R j h) i g := by
  apply List.ext_getElem?
  intro k
  by_cases hik : i = k <;> by_cases hjk : j = k
  · have hij : i = j := hik.trans hjk.symm
    subst hij; subst hik
    cases hr : R[i]? with
    | none => rw [updRow_get_none _ (updRow_get_none _ hr), updRow_get_none _ (updRow_get_none _ hr)]
    | some r => rw [updRow_get_eq _ (updRow_get_eq _ hr), updRow_get_eq _ (updRow_get_eq _ hr), hc]
  · subst hik
    rw [updRow_get_ne _ hjk]
    cases hr : R[i]? with
    | none => rw [updRow_get_none _ hr, updRow_get_none _ (updRow_get_none _ hr)]
    | some r => rw [updRow_get_eq _ hr, updRow_get_eq _ (by rw [updRow_get_ne _ hjk]; exact hr)]
  · subst hjk
    rw [updRow_get_ne _ hik]
    cases hr : R[j]? with
    | none => rw [updRow_get_none _ hr, updRow_get_none _ (updRow_get_none _ hr)]
    | some r => rw [updRow_get_eq _ hr, updRow_get_eq _ (by rw [updRow_get_ne _ hik]; exact hr)]
  · rw [updRow_get_ne _ hjk, updRow_get_ne _ hik, updRow_get_ne _ hik, updRow_get_ne _ hjk]

theorem updRow_snoc_lt (R : List URow) (x : URow) (i : Nat) (g : URow → URow) (hi : i < R.length) :
    updRow (R ++ [x]) i g = updRow R i g ++ [x] := by
  simp [updRow, List.getElem?_append_left hi, hi, List.set_append]

theorem requisition_uw (U : UnionM → UnionM) (f : Nat) (R : List URow) (id i : Nat) (hi : i < R.length) :
    requisition ts a f (updRow R i (uw U)) id
      = match requisition ts a f R id with
        | .error x => .error x
        | .ok (R1, d) => .ok (updRow R1 i (uw U), d) := by
  unfold requisition
  cases yieldU ts a f URow.zero id with
  | error x => rfl
  | ok p =>
    obtain ⟨row, k⟩ := p
    simp only [updRow_length]
    rw [updRow_snoc_lt _ _ _ _ hi]

/-- no union machine behind the transform machine of row `j` -/
def NoUD (R : List URow) (j : Nat) : Prop := ∀ row, R[j]? = some row → row.transform.delegate ≠ some .union

/-- what `Reset` does after a write to union fields, in terms of what it does before -/
def afterUw (U : UnionM → UnionM) (i : Nat) : X (List URow) → X (List URow)
  | .error x => .error x
  | .ok R1 => .ok (updRow R1 i (uw U))

theorem get_uw {R : List URow} {i j : Nat} {row : URow} (U : UnionM → UnionM) (h : R[j]? = some row) :
    ∃ row', (updRow R i (uw U))[j]? = some row' ∧ row'.transform = row.transform ∧ row'.err = row.err := by
  by_cases hij : i = j
  · subst hij; exact ⟨uw U row, updRow_get_eq _ h, rfl, rfl⟩
  · exact ⟨row, by rw [updRow_get_ne _ hij]; exact h, rfl, rfl⟩

theorem reset_uw (U : UnionM → UnionM) (i : Nat) : ∀ (f : Nat) (m : URef) (rt : Nat) (v : Val) (R : List URow),
    i < R.length → m.kind ≠ .union → (m.kind = .transform → NoUD R m.row) →
    resetM ts a f m rt v (updRow R i (uw U)) = afterUw U i (resetM ts a f m rt v R) := by
  intro f
  induction f with
  | zero => intro m rt v R _ _ _; rfl
  | succ f ih =>
    intro m rt v R hi hk hnu
    obtain ⟨j, k⟩ := m
    simp only [resetM, resetBody]
    cases hr : R[j]? with
    | none => rw [updRow_get_none _ hr]; rfl
    | some row =>
      obtain ⟨row', hr', htr, her⟩ := get_uw (i := i) U hr
      rw [hr']
      cases k with
      | union => exact absurd rfl hk
      | ptr => simp only [resetPtr, afterUw]; refine congrArg Except.ok (updRow_comm _ _ _ _ _ ?_); intro r; rfl
      | prim => simp only [resetPrim, afterUw]; refine congrArg Except.ok (updRow_comm _ _ _ _ _ ?_); intro r; rfl
      | wild => simp only [resetWild, afterUw]; refine congrArg Except.ok (updRow_comm _ _ _ _ _ ?_); intro r; rfl
      | struct => simp only [resetStruct, afterUw]; refine congrArg Except.ok (updRow_comm _ _ _ _ _ ?_); intro r; rfl
      | errThunk =>
        simp only [resetErr, her]
        cases row.err.err <;> rfl
      | map =>
        simp only [resetMap]
        cases ts.get rt with
        | map kt vt =>
          simp only [requisition_uw U f R vt i hi]
          cases requisition ts a f R vt with
          | error x => rfl
          | ok p =>
            obtain ⟨R1, d⟩ := p
            simp only []
            cases keyFnOfU ts a kt with
            | none => rfl
            | some kf => simp only [afterUw]; refine congrArg Except.ok (updRow_comm _ _ _ _ _ ?_); intro r; rfl
        | _ => rfl
      | slice =>
        simp only [resetSlice]
        cases ts.get rt with
        | slice e =>
          simp only [requisition_uw U f R e i hi]
          cases requisition ts a f R e with
          | error x => rfl
          | ok p =>
            obtain ⟨R1, d⟩ := p
            simp only [afterUw]; refine congrArg Except.ok (updRow_comm _ _ _ _ _ ?_); intro r; rfl
        | _ => rfl
      | array =>
        simp only [resetArray]
        cases ts.get rt with
        | arr n e =>
          simp only [requisition_uw U f R e i hi]
          cases requisition ts a f R e with
          | error x => rfl
          | ok p =>
            obtain ⟨R1, d⟩ := p
            simp only [afterUw]; refine congrArg Except.ok (updRow_comm _ _ _ _ _ ?_); intro r; rfl
        | _ => rfl
      | transform =>
        simp only [resetTransform, htr]
        cases hd : row.transform.delegate with
        | none => rfl
        | some k' =>
          simp only []
          rw [updRow_comm R i j (uw U) _ (by intro r; rfl)]
          apply ih
          · rw [updRow_length]; exact hi
          · intro hku; exact hnu rfl row hr (by rw [hd, show k' = MK.union from hku])
          · intro _ r2 hr2
            rw [updRow_get_eq _ hr] at hr2
            cases hr2
            exact hnu rfl row hr

end Refmt.UMachU
