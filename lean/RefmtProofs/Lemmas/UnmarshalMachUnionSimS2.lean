/-
  Stateful object unmarshaller: the struct machine on a field's value.
-/
import RefmtProofs.Lemmas.UnmarshalMachUnionSimS
set_option linter.unusedSimpArgs false
set_option linter.unusedVariables false
namespace Refmt.UMachU
open Refmt Refmt.Obj Refmt.Obj.UM Refmt.UMachL

variable {ts : Types} {a : Atlas} {trs : Trs} {it : IfaceTys}

theorem simSt_value {S : List Nat} {wi : Option Nat} {n : Nat} (hS : Closed ts a S wi) (hV : SimV ts a trs it S n)
    (hSt : SimSt ts a trs it S wi n) (id : Nat) (fields : List SMField)
    (hf : ∀ f ∈ fields, if f.ignore then wildIn S wi else f.ty ∈ S) (el : Int) (idx : Nat) (cur : Val) (fe : SMField)
    (hig : fe.ignore = false) (hty : fe.ty ∈ S)
    (lo : List URow) (row : URow) (hi : List URow) (stk : List URef) (be : Option XFail) (c : URef)
    (F : Val → Option Val) (w : Val → Val) (d : Nat) (toks : List Tok) (sf : Nat)
    (hst : row.struct.fields = fields ∧ row.struct.rt = id ∧ row.struct.rv = cur ∧ row.struct.expectLen = el ∧
      row.struct.index = (idx : Int) ∧ row.struct.value = true ∧ row.struct.fieldEntry = fe)
    {un : Option Nat} (hw : Wr trs.u c lo row .struct F w d un) (hd : d ≤ 3) (hsf : 17 ≤ sf) :
    Agree ts a trs it none un c sf be stk lo row F w
      (pump ts a trs it sf ⟨lo ++ row :: hi, stk, some c, be⟩ toks)
      (stSpecVal ts a trs it n id fields el idx cur fe toks) := by
  obtain ⟨hfl, hrt, hrv, hel, hix, hval, hfe⟩ := hst
  have hix0 : ¬ row.struct.index < 0 := by rw [hix]; omega
  have hig' : row.struct.fieldEntry.ignore = false := by rw [hfe]; exact hig
  cases toks with
  | nil => simp [pump, stSpecVal, Agree]
  | cons t rest =>
    obtain ⟨g, rfl⟩ : ∃ g, sf = g + 4 + 1 + d + 1 := ⟨sf - d - 6, by omega⟩
    simp only [stSpecVal]
    cases hg : getRoute ts 64 id fe.route cur with
    | none =>
      have hs : stepM ts a trs it (g + 4 + 1 + d) c
          ⟨lo ++ row :: hi, stk, some c, be⟩ t = .error (.f .err) := by
        rw [hw.step, struct_step_noroute hix0 hval hig' (by rw [hrt, hfe, hrv]; exact hg)]; rfl
      rw [pump_err hs]
      simp [Agree, XFail.toURes]
    | some fcur =>
      simp only []
      obtain ⟨crow, cck, hreq, hcc⟩ := requisition_cov (f := g) (R := lo ++ rowSt row (stVal row.struct) :: hi) hS hty
      have hs : stepM ts a trs it (g + 4 + 1 + d) c
          ⟨lo ++ row :: hi, stk, some c, be⟩ t
          = recurse ts a trs it (g + 3 + 1)
              ⟨(lo ++ rowSt row (stVal row.struct) :: hi) ++ [crow], stk, some c, be⟩ t fcur
              fe.ty ⟨(lo ++ rowSt row (stVal row.struct) :: hi).length, cck⟩ := by
        rw [hw.step, struct_step_value hix0 hval hig' (by rw [hrt, hfe, hrv]; exact hg) (by rw [hfe]; exact hreq),
          mapDoneO_recurse, mapDone_recurse, finU_recurse, hfe]
      rw [pump_rec hs]
      have hA := hV fe.ty hty fcur (lo ++ rowSt row (stVal row.struct) :: hi) crow []
        (c :: stk) be cck (t :: rest) (g + 3) (g + 3) (g + 4 + 1 + d + 1) hcc (by omega) (by omega) hsf
      revert hA
      generalize unmV ts a trs it n fe.ty fcur (t :: rest) = r
      generalize rtp ts a trs it (g + 3) (g + 3) (g + 4 + 1 + d + 1) _ _ be _ fe.ty fcur (t :: rest) = X
      intro hA
      cases r with
      | panic u => trivial
      | more u => exact hA
      | err u => exact hA
      | ok v r u =>
        obtain ⟨hu, crow', hi', fa, hc1, hfa, hX⟩ := hA
        obtain ⟨fa', rfl⟩ : ∃ f, fa = f + 1 + d := ⟨fa - 1 - d, by omega⟩
        have hw1 : Wr trs.u c lo (rowSt row (stVal row.struct)) .struct F w d un := hw.congr rfl
        have hRR : (lo ++ rowSt row (stVal row.struct) :: hi) ++ crow' :: hi'
            = lo ++ rowSt row (stVal row.struct) :: (hi ++ crow' :: hi') := by simp
        simp only [bindU]
        rw [hX]
        simp only [kontU, kont, _root_.id]
        cases hset : setRoute ts 64 id fe.route cur (fun _ => v) with
        | none => trivial
        | some cur' =>
          have hab : absorbM ts (fa' + 1 + d) c v
              ((lo ++ rowSt row (stVal row.struct) :: hi) ++ crow' :: hi')
              = .ok (lo ++ rowSt row (stAbs (stVal row.struct) cur') :: (hi ++ crow' :: hi')) := by
            rw [hRR, hw1.absorb, struct_absorb (row := rowSt row (stVal row.struct)) (rv' := cur')
              (show (rowSt row (stVal row.struct)).struct.fieldEntry.ignore = false from hig') (by
              show setRoute ts 64 row.struct.rt row.struct.fieldEntry.route row.struct.rv _ = _
              rw [hrt, hfe, hrv]; exact hset)]
            rfl
          simp only [hab]
          have hst2 : StKSt (rowSt row (stAbs (stVal row.struct) cur')) id fields el (idx + 1) cur' := by
            refine ⟨hfl, hrt, rfl, hel, ?_, rfl⟩
            show row.struct.index + 1 = _
            rw [hix]; push_cast; rfl
          have hA2 := hSt id fields hf el (idx + 1) cur' lo (rowSt row (stAbs (stVal row.struct) cur'))
            (hi ++ crow' :: hi') stk be c F w d r (g + 4 + 1 + d + 1) hst2 (by intro _; simp) (hw.congr rfl) hd hsf
          have hA3 := hA2.shift (row := row) u (rowSt_same _ _ rfl)
          rw [shift_shift, show 1 + (u - 1) = u by omega]
          exact hA3

theorem simSt_ignore {S : List Nat} {wi : Option Nat} {n : Nat} (hS : Closed ts a S wi) (hWd : WildHyp ts a it S)
    (hE : ∀ m, m + 2 = n → SimE ts a trs it S m) (hMp : ∀ m, m + 2 = n → SimM ts a trs it S m)
    (hT : ∀ m, m + 1 = n → TagSim (ts := ts) (a := a) (trs := trs) (it := it) S m)
    (hSt : SimSt ts a trs it S wi n) (id : Nat) (fields : List SMField)
    (hf : ∀ f ∈ fields, if f.ignore then wildIn S wi else f.ty ∈ S) (el : Int) (idx : Nat) (cur : Val) (fe : SMField)
    (hig : fe.ignore = true)
    (lo : List URow) (row : URow) (hi : List URow) (stk : List URef) (be : Option XFail) (c : URef)
    (F : Val → Option Val) (w : Val → Val) (d : Nat) (toks : List Tok) (sf : Nat)
    (hst : row.struct.fields = fields ∧ row.struct.rt = id ∧ row.struct.rv = cur ∧ row.struct.expectLen = el ∧
      row.struct.index = (idx : Int) ∧ row.struct.value = true ∧ row.struct.fieldEntry = fe)
    {un : Option Nat} (hw : Wr trs.u c lo row .struct F w d un) (hd : d ≤ 3) (hsf : 17 ≤ sf) :
    Agree ts a trs it none un c sf be stk lo row F w
      (pump ts a trs it sf ⟨lo ++ row :: hi, stk, some c, be⟩ toks)
      (stSpecIgn ts a trs it n id fields el idx cur toks) := by
  obtain ⟨hfl, hrt, hrv, hel, hix, hval, hfe⟩ := hst
  have hix0 : ¬ row.struct.index < 0 := by rw [hix]; omega
  have hig' : row.struct.fieldEntry.ignore = true := by rw [hfe]; exact hig
  cases toks with
  | nil => simp [pump, stSpecIgn, Agree]
  | cons t rest =>
    obtain ⟨g, rfl⟩ : ∃ g, sf = g + 4 + 1 + d + 1 := ⟨sf - d - 6, by omega⟩
    simp only [stSpecIgn]
    obtain ⟨crow, cck, hreq, hcc⟩ := requisition_cov (f := g) (R := lo ++ rowSt row (stVal row.struct) :: hi) hS hWd.ifc
    obtain rfl := hWd.cfg hcc
    have hs : stepM ts a trs it (g + 4 + 1 + d) c ⟨lo ++ row :: hi, stk, some c, be⟩ t
        = recurse ts a trs it (g + 3 + 1)
            ⟨(lo ++ rowSt row (stVal row.struct) :: hi) ++ [crow], stk, some c, be⟩ t (.iface none)
            it.iface ⟨(lo ++ rowSt row (stVal row.struct) :: hi).length, .wild⟩ := by
      rw [hw.step, struct_step_value_ign hix0 hval hig' hreq, mapDoneO_recurse, mapDone_recurse, finU_recurse]
    rw [pump_rec hs, rtp_eq]
    have hA := simB_wild (trs := trs) hS hWd hE hMp (base := it.iface) (.iface none)
      (lo ++ rowSt row (stVal row.struct) :: hi) crow [] (c :: stk) be _ _root_.id 0 (t :: rest) (g + 3) (g + 3)
      (g + 4 + 1 + d + 1) hT (WrP.refl _ crow .wild) (by omega) (by omega) hsf
    rw [unmBare_wild, hWd.ifcMeth] at hA
    revert hA
    generalize unmWild ts a trs it n false t rest = r
    generalize rtpB ts a trs it (g + 3) (g + 3) (g + 4 + 1 + d + 1) _ _ be _ _ it.iface (.iface none) (t :: rest) = X
    intro hA
    cases r with
    | panic u => trivial
    | more u => exact hA
    | err u => exact hA
    | ok v r u =>
      obtain ⟨hu, crow', hi', fa, hc1, hfa, hX⟩ := hA
      obtain ⟨fa', rfl⟩ : ∃ f, fa = f + 1 + d := ⟨fa - 1 - d, by omega⟩
      have hw1 : Wr trs.u c lo (rowSt row (stVal row.struct)) .struct F w d un := hw.congr rfl
      have hRR : (lo ++ rowSt row (stVal row.struct) :: hi) ++ crow' :: hi'
          = lo ++ rowSt row (stVal row.struct) :: (hi ++ crow' :: hi') := by simp
      have hab : absorbM ts (fa' + 1 + d) c v
          ((lo ++ rowSt row (stVal row.struct) :: hi) ++ crow' :: hi')
          = .ok (lo ++ rowSt row (stVal row.struct) :: (hi ++ crow' :: hi')) := by
        rw [hRR, hw1.absorb, struct_absorb_ign (row := rowSt row (stVal row.struct))
          (show (rowSt row (stVal row.struct)).struct.fieldEntry.ignore = true from hig')]
      simp only [bindU]
      rw [hX]
      simp only [kontU, kont, _root_.id, hab]
      have hst2 : StKSt (rowSt row (stVal row.struct)) id fields el (idx + 1) cur := by
        refine ⟨hfl, hrt, hrv, hel, ?_, rfl⟩
        show row.struct.index + 1 = _
        rw [hix]; push_cast; rfl
      have hA2 := hSt id fields hf el (idx + 1) cur lo (rowSt row (stVal row.struct))
        (hi ++ crow' :: hi') stk be c F w d r (g + 4 + 1 + d + 1) hst2 (by intro _; simp) (hw.congr rfl) hd hsf
      have hA3 := hA2.shift (row := row) u (rowSt_same _ _ rfl)
      rw [shift_shift, show 1 + (u - 1) = u by omega]
      exact hA3

theorem simSt_succ {S : List Nat} {wi : Option Nat} {n : Nat} (hS : Closed ts a S wi)
    (hWd : wildIn S wi → WildHyp ts a it S)
    (hE : ∀ m, m + 2 = n → SimE ts a trs it S m) (hMp : ∀ m, m + 2 = n → SimM ts a trs it S m)
    (hT : wildIn S wi → ∀ m, m + 1 = n → TagSim (ts := ts) (a := a) (trs := trs) (it := it) S m)
    (hV : SimV ts a trs it S n)
    (hSt : SimSt ts a trs it S wi n) : SimSt ts a trs it S wi (n+1) := by
  intro id fields hf el idx cur lo row hi stk be c F w d toks sf hst hne un hw hd hsf
  obtain ⟨hfl, hrt, hrv, hel, hix, hval⟩ := hst
  have hix0 : ¬ row.struct.index < 0 := by rw [hix]; omega
  obtain ⟨hi1, hR1⟩ := struct_hR1 (lo := lo) hix hne
  cases toks with
  | nil => simp [pump, unmStruct, Agree]
  | cons t rest =>
    obtain ⟨g, rfl⟩ : ∃ g, sf = g + 1 + d + 1 := ⟨sf - d - 2, by omega⟩
    cases hb : t.body with
    | mapClose =>
      have hl0 := struct_step_close (ts := ts) (a := a) (trs := trs) (it := it) (f := g) (stk := stk)
        (st := some c) (be := be) hix0 hval hb hR1
      rw [hel, hix] at hl0
      rw [unmStruct_close hb]
      by_cases hc : (el ≥ 0 && el != (idx : Int)) = true
      · simp only [hc, if_true] at hl0 ⊢
        rw [pump_err (hw.pass hl0 (Or.inl ⟨_, rfl⟩))]
        simp [Agree, XFail.toURes]
      · simp only [hc, if_false] at hl0 ⊢
        rw [hrv] at hl0
        exact Agree.fin hw hl0 (SameCfg.refl _) (by omega)
    | str name =>
      have hl0 := struct_step_key (ts := ts) (a := a) (trs := trs) (it := it) (f := g) (stk := stk)
        (st := some c) (be := be) hix0 hval hb hR1
      rw [hfl] at hl0
      cases hfind : fields.find? (fun f => f.name == name) with
      | none =>
        rw [hfind] at hl0
        rw [pump_err (hw.pass hl0 (Or.inl ⟨_, rfl⟩)), unmStruct_nofield hb hfind]
        simp [Agree, XFail.toURes]
      | some fe =>
        rw [hfind] at hl0
        have hfe := hf fe (List.mem_of_find?_eq_some hfind)
        cases hig : fe.ignore with
        | false =>
          rw [hig] at hfe
          have hty : fe.ty ∈ S := by simpa using hfe
          rw [pump_cont (hw.pass hl0 (Or.inr ⟨_, rfl⟩)), unmStruct_str hb hfind hig]
          have hA := simSt_value hS hV hSt id fields hf el idx cur fe hig hty lo (rowSt row (stKey row.struct fe)) hi1
            stk be c F w d rest (g + 1 + d + 1) ⟨hfl, hrt, hrv, hel, hix, rfl, rfl⟩ (hw.congr rfl) hd hsf
          exact hA.shift 1 (rowSt_same _ _ rfl)
        | true =>
          rw [hig] at hfe
          have hwi : wildIn S wi := by simpa using hfe
          rw [pump_cont (hw.pass hl0 (Or.inr ⟨_, rfl⟩)), unmStruct_ign hb hfind hig]
          have hA := simSt_ignore hS (hWd hwi) hE hMp (hT hwi) hSt id fields hf el idx cur fe hig lo
            (rowSt row (stKey row.struct fe)) hi1
            stk be c F w d rest (g + 1 + d + 1) ⟨hfl, hrt, hrv, hel, hix, rfl, rfl⟩ (hw.congr rfl) hd hsf
          exact hA.shift 1 (rowSt_same _ _ rfl)
    | _ =>
      have hl0 := struct_step_keyother (ts := ts) (a := a) (trs := trs) (it := it) (f := g) (lo := lo) (hi := hi)
        (stk := stk) (st := some c) (be := be) hix0 hval (show t.body ≠ .mapClose by simp [hb])
        (show ∀ x, t.body ≠ .str x by simp [hb])
      rw [pump_err (hw.pass hl0 (Or.inl ⟨_, rfl⟩)), unmStruct_other (by simp [hb]) (by simp [hb])]
      simp [Agree, XFail.toURes]

end Refmt.UMachU
