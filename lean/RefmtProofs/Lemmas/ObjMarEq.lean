-- auxiliary equation lemmas / definitions for the C13 proofs (object unmarshaller model); see RefmtProofs/Props/C13.lean
import RefmtProofs.Lemmas.ObjUnmarshal
set_option linter.unusedSimpArgs false
set_option linter.unusedVariables false
namespace Refmt.Obj
open Refmt
variable (ts : Types) (a : Atlas) (trs : Trs) (it : IfaceTys)

theorem marshalV_succ (fuel id v) : marshalV ts a trs (fuel+1) id v =
    if (peel ts 64 0 id).1 == 0 then marshalBare ts a trs fuel (peel ts 64 0 id).2 (pickBare ts a (peel ts 64 0 id).2) v
    else match derefN (peel ts 64 0 id).1 v with
      | none => .ok [⟨.null, none⟩]
      | some inner => marshalBare ts a trs fuel (peel ts 64 0 id).2 (pickBare ts a (peel ts 64 0 id).2) inner := by
  rw [marshalV.eq_def]; rfl

theorem marshalBare_prim (fuel id v) : marshalBare ts a trs (fuel+1) id .prim v = primTok ts id v := by
  rw [marshalBare.eq_def]

theorem marshalBare_slice (fuel id e v) : marshalBare ts a trs (fuel+1) id (.slice e) v =
    (match v with
     | .slice none => .ok [⟨.null, none⟩]
     | .slice (some es) =>
       (MOut.ok [⟨.arrOpen es.length, none⟩]).seq fun _ =>
       (marshalList ts a trs fuel e es).seq fun _ => .ok [⟨.arrClose, none⟩]
     | _ => .bad .panic) := by
  rw [marshalBare.eq_def]
  rfl

theorem marshalBare_array (fuel id e v) : marshalBare ts a trs (fuel+1) id (.array e) v =
    (match v with
     | .arr es =>
       (MOut.ok [⟨.arrOpen es.length, none⟩]).seq fun _ =>
       (marshalList ts a trs fuel e es).seq fun _ => .ok [⟨.arrClose, none⟩]
     | _ => .bad .panic) := by
  rw [marshalBare.eq_def]
  rfl

def mkeyFn (ts : Types) (a : Atlas) (kt : Nat) : Option (Option Nat) :=
  match ts.get kt with
  | .prim .string _ => some none
  | .struct _ =>
    (match a.get kt with
     | some ⟨_, _, _, .transform fn mty _⟩ =>
       (match ts.get mty with | .prim .string _ => some (some fn) | _ => none)
     | _ => none)
  | _ => none

def mkeyStr (trs : Trs) (kf : Option Nat) : Val × Val → Option (Bytes × Val) := fun (k, x) =>
  match kf, k with
  | none, .str s => some (s, x)
  | some fn, k => (match trs.m fn k with | some (.str s) => some (s, x) | _ => none)
  | _, _ => none

theorem marshalBare_map (fuel id kt vt mode v) : marshalBare ts a trs (fuel+1) id (.map kt vt mode) v =
    (match mkeyFn ts a kt, v with
     | none, _ => .bad .err
     | some kf, .map es =>
       (match (es.getD []).mapM (mkeyStr trs kf) with
        | none => .bad .err
        | some kvs =>
          if es.isNone then .ok [⟨.null, none⟩]
          else
            (MOut.ok [⟨.mapOpen (es.getD []).length, none⟩]).seq fun _ =>
            (marshalEntries ts a trs fuel vt (sortKeys mode kvs)).seq fun _ => .ok [⟨.mapClose, none⟩])
     | _, _ => .bad .panic) := by
  rw [marshalBare.eq_def]
  rfl

theorem marshalList_cons (fuel e x xs) : marshalList ts a trs (fuel+1) e (x :: xs) =
    (marshalV ts a trs fuel e x).seq fun _ => marshalList ts a trs fuel e xs := by
  rw [marshalList.eq_def]
  try rfl
theorem marshalList_nil (fuel e) : marshalList ts a trs (fuel+1) e [] = .ok [] := by
  rw [marshalList.eq_def]
  try rfl
theorem marshalEntries_cons (fuel vt k x rest) : marshalEntries ts a trs (fuel+1) vt ((k, x) :: rest) =
    (MOut.ok [⟨.str k, none⟩]).seq fun _ =>
      (marshalV ts a trs fuel vt x).seq fun _ => marshalEntries ts a trs fuel vt rest := by
  rw [marshalEntries.eq_def]
  try rfl
theorem marshalEntries_nil (fuel vt) : marshalEntries ts a trs (fuel+1) vt [] = .ok [] := by
  rw [marshalEntries.eq_def]
  try rfl

theorem seq_ok {A : MOut} {B : Unit → MOut} {toks : List Tok} (h : A.seq B = ⟨toks, none⟩) :
    ∃ ta tb, A = ⟨ta, none⟩ ∧ B () = ⟨tb, none⟩ ∧ toks = ta ++ tb := by
  unfold MOut.seq at h
  obtain ⟨ta, fa⟩ := A
  cases fa with
  | some f => simp at h
  | none =>
    simp at h
    cases hB : B () with
    | mk tb fb =>
      simp [hB] at h
      exact ⟨ta, tb, rfl, by simp [h.2], h.1.symm⟩
end Refmt.Obj
