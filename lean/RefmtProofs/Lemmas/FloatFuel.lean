/-
  The digit search of `FloatText.shortestAux` never runs out of fuel on the data `FloatText.shortest` hands it:
  with 20 digits the truncated decimal is within `2^(e-2)` (a quarter ulp) of the value, hence inside the
  rounding interval.  (17 digits suffice for binary64; the model searches up to 20 and so does this proof.)
-/
import RefmtProofs.Lemmas.FloatRT
set_option linter.unusedSimpArgs false
set_option linter.unusedVariables false
namespace Refmt.FloatL
open Refmt Refmt.FloatText Refmt.JsonDec Refmt.C03L

/-- if one of the two candidates passes the test for some digit count within the fuel, the search returns a
    candidate that passed the test -/
theorem shortestAux_found (d : SD) : ∀ (fuel n : Nat),
    (∃ n', n ≤ n' ∧ n' < n + fuel ∧
      (insideB d (kOf d n') (flOf d n') = true ∨ insideB d (kOf d n') (flOf d n' + 1) = true)) →
    insideB d (shortestAux d fuel n).2 (shortestAux d fuel n).1 = true
  | 0, n, ⟨n', h1, h2, _⟩ => by omega
  | fuel+1, n, ⟨n', h1, h2, h3⟩ => by
    rw [shortestAux_succ]
    split
    · rename_i ha hb
      have hne : n' ≠ n := by
        intro he; subst he
        rcases h3 with h3 | h3
        · rw [ha] at h3; cases h3
        · rw [hb] at h3; cases h3
      exact shortestAux_found d fuel (n + 1) ⟨n', by omega, by omega, h3⟩
    · rename_i ha hb; exact ha
    · rename_i ha hb; exact hb
    · rename_i ha hb
      split
      · exact ha
      · split
        · exact hb
        · split
          · exact ha
          · exact hb

/-! ### the decimal exponent estimate of `mkSD` -/

theorem mkSD_vN (m : Nat) (e : Int) (bl : Bool) :
    (mkSD m e bl).vN = 4 * m * (if e - 2 ≥ 0 then 2 ^ (e - 2).toNat else 1) := rfl

theorem mkSD_p_le (m : Nat) (e : Int) (bl : Bool) :
    (mkSD m e bl).p ≤
      ((bitLen (mkSD m e bl).vN : Int) - (bitLen (mkSD m e bl).den : Int)) * 30103 / 100000 + 1 := by
  unfold mkSD
  simp only
  split
  · omega
  · split
    · omega
    · split <;> omega

theorem bitLen_le_of_lt (n t : Nat) (h : n < 2 ^ t) : bitLen n ≤ t := by
  by_cases h0 : n = 0
  · simp [bitLen, h0]
  · by_contra hc
    have h1 := bitLen_lower h0
    have : (2:Nat) ^ t ≤ 2 ^ (bitLen n - 1) := Nat.pow_le_pow_right (by decide) (by omega)
    omega

theorem bitLen_two_pow (B : Nat) : bitLen (2 ^ B) = B + 1 := by
  have : (2:Nat) ^ B ≠ 0 := Nat.pos_iff_ne_zero.1 (Nat.pow_pos (by decide))
  simp only [bitLen, this, if_false, Nat.log2_two_pow]

/-- `10^(⌊t * 0.30103⌋ - 18) ≤ 2^(t - 54)` for `t = i - 1022` -/
def estChk (i : Nat) : Bool :=
  let t : Int := (i : Int) - 1022
  let ap : Int := t * 30103 / 100000
  decide (2 ^ (54 - t).toNat * 10 ^ (ap - 18).toNat ≤ 2 ^ (t - 54).toNat * 10 ^ (18 - ap).toNat)

set_option maxRecDepth 100000 in
theorem estChk_all : (List.range 2046).all estChk = true := by decide +kernel

theorem est_bound (e : Int) (he1 : -1074 ≤ e) (he2 : e ≤ 971) :
    2 ^ (-(e - 2)).toNat * 10 ^ ((e + 52) * 30103 / 100000 - 18).toNat ≤
      2 ^ (e - 2).toNat * 10 ^ (18 - (e + 52) * 30103 / 100000).toNat := by
  have h := List.all_eq_true.1 estChk_all (e + 1074).toNat (List.mem_range.2 (by omega))
  unfold estChk at h
  simp only [decide_eq_true_eq] at h
  have e1 : (((e + 1074).toNat : Nat) : Int) - 1022 = e + 52 := by omega
  rw [e1] at h
  have e2 : (54 - (e + 52)).toNat = (-(e - 2)).toNat := by congr 1; omega
  have e3 : (e + 52 - 54).toNat = (e - 2).toNat := by congr 1; omega
  rw [e2, e3] at h
  exact h

end Refmt.FloatL

namespace Refmt.FloatL
open Refmt Refmt.FloatText Refmt.JsonDec Refmt.C03L

/-- `10^(p - 19) ≤ 2^(e - 2)` (sign-free), `p` the decimal exponent estimate of `mkSD` -/
theorem quarter_ulp (m : Nat) (e : Int) (bl : Bool) (hm2 : m < 9007199254740992) (he1 : -1074 ≤ e) (he2 : e ≤ 971)
    (a b : Nat) (hab : (a : Int) - b = (mkSD m e bl).p - 19) :
    2 ^ (-(e - 2)).toNat * 10 ^ a ≤ 2 ^ (e - 2).toNat * 10 ^ b := by
  have hp := mkSD_p_le m e bl
  have hv : bitLen (mkSD m e bl).vN ≤ 55 + (e - 2).toNat := by
    apply bitLen_le_of_lt
    rw [mkSD_vN, pow_if_num, Nat.pow_add]
    exact Nat.mul_lt_mul_of_pos_right (by norm_num; omega) (Nat.pow_pos (by decide))
  have hd : bitLen (mkSD m e bl).den = (-(e - 2)).toNat + 1 := by
    rw [mkSD_den, pow_if_den, bitLen_two_pow]
  have hlg : ((bitLen (mkSD m e bl).vN : Int) - (bitLen (mkSD m e bl).den : Int)) * 30103 ≤ (e + 52) * 30103 := by
    rw [hd]; omega
  have hap := Int.ediv_le_ediv (show (0 : Int) < 100000 by decide) hlg
  have hk : (mkSD m e bl).p - 19 ≤ (e + 52) * 30103 / 100000 - 18 := by omega
  have hest := est_bound e he1 he2
  generalize (mkSD m e bl).p = p at *
  generalize (e + 52) * 30103 / 100000 = ap at *
  have h1 := scale_le 10 (2 ^ (-(e - 2)).toNat) (2 ^ (e - 2).toNat) (ap - 18).toNat (18 - ap).toNat
    (a + (ap - 18 - (p - 19)).toNat) b (by decide) (by omega) hest
  refine Nat.le_trans ?_ h1
  exact Nat.mul_le_mul_left _ (Nat.pow_le_pow_right (by decide) (by omega))

/-- with 20 digits the truncated decimal passes the `inside` test -/
theorem inside20 (m : Nat) (e : Int) (bl : Bool) (hm1 : 1 ≤ m) (hm2 : m < 9007199254740992)
    (he1 : -1074 ≤ e) (he2 : e ≤ 971) :
    insideB (mkSD m e bl) (kOf (mkSD m e bl) 20) (flOf (mkSD m e bl) 20) = true := by
  have hq := quarter_ulp m e bl hm2 he1 he2
  have hloN : (mkSD m e bl).loN = (if bl then 4 * m - 1 else 4 * m - 2) * 2 ^ (e - 2).toNat := by
    rw [mkSD_loN, pow_if_num]
  have hhiN : (mkSD m e bl).hiN = (4 * m + 2) * 2 ^ (e - 2).toNat := by
    rw [mkSD_hiN, pow_if_num]
  have hvN : (mkSD m e bl).vN = 4 * m * 2 ^ (e - 2).toNat := by
    rw [mkSD_vN, pow_if_num]
  have hdenE : (mkSD m e bl).den = 2 ^ (-(e - 2)).toNat := by
    rw [mkSD_den, pow_if_den]
  have hk : kOf (mkSD m e bl) 20 = (mkSD m e bl).p - 19 := by unfold kOf; omega
  rw [← hk] at hq
  unfold flOf xNOf xDOf
  generalize kOf (mkSD m e bl) 20 = k at *
  have hloC : (if bl then 4 * m - 1 else 4 * m - 2) ≤ 4 * m - 1 := by split <;> omega
  generalize (if bl then 4 * m - 1 else 4 * m - 2) = loC at *
  have hSpos : 0 < 2 ^ (e - 2).toNat := Nat.pow_pos (by decide)
  have hdpos : 0 < 2 ^ (-(e - 2)).toNat := Nat.pow_pos (by decide)
  generalize 2 ^ (e - 2).toNat = S at *
  generalize 2 ^ (-(e - 2)).toNat = D at *
  -- both tests hold strictly
  suffices hs : ∀ (cN cD : Nat), (cN = (if k ≥ 0 then
        ((if k ≥ 0 then (mkSD m e bl).vN else (mkSD m e bl).vN * 10 ^ (-k).toNat) /
          (if k ≥ 0 then (mkSD m e bl).den * 10 ^ k.toNat else (mkSD m e bl).den)) * 10 ^ k.toNat
        else ((if k ≥ 0 then (mkSD m e bl).vN else (mkSD m e bl).vN * 10 ^ (-k).toNat) /
          (if k ≥ 0 then (mkSD m e bl).den * 10 ^ k.toNat else (mkSD m e bl).den)))) →
      (cD = if k ≥ 0 then 1 else 10 ^ (-k).toNat) →
      (mkSD m e bl).loN * cD < cN * (mkSD m e bl).den ∧ cN * (mkSD m e bl).den < (mkSD m e bl).hiN * cD by
    unfold insideB
    simp only
    obtain ⟨g1, g2⟩ := hs _ _ rfl rfl
    cases (mkSD m e bl).incl
    · simp only [Bool.false_eq_true, if_false, qlt, Bool.and_eq_true, decide_eq_true_eq]
      exact ⟨g1, g2⟩
    · simp only [if_true, qle, Bool.and_eq_true, decide_eq_true_eq]
      exact ⟨Nat.le_of_lt g1, Nat.le_of_lt g2⟩
  intro cN cD hcN hcD
  rw [hloN, hhiN, hdenE]
  rw [hvN, hdenE] at hcN
  obtain ⟨M, rfl⟩ : ∃ M, m = M + 1 := ⟨m - 1, by omega⟩
  by_cases hk0 : k ≥ 0
  · simp only [hk0, if_true] at hcN hcD
    subst hcD
    have hstar := hq k.toNat 0 (by omega)
    simp only [Nat.pow_zero, Nat.mul_one] at hstar ⊢
    have hWpos : 0 < D * 10 ^ k.toNat := Nat.mul_pos hdpos (Nat.pow_pos (by decide))
    generalize hW : D * 10 ^ k.toNat = W at *
    have h1 : 4 * (M + 1) * S / W * W ≤ 4 * (M + 1) * S := Nat.div_mul_le_self _ _
    have h2 : 4 * (M + 1) * S < W * (4 * (M + 1) * S / W + 1) := Nat.lt_mul_div_succ _ hWpos
    generalize 4 * (M + 1) * S / W = fl at *
    have e1 : cN * D = fl * W := by rw [hcN, ← hW]; ring
    rw [e1]
    have e2 : loC * S ≤ (4 * (M + 1) - 1) * S := Nat.mul_le_mul_right _ hloC
    have e3 : (4 * (M + 1) - 1) * S = 4 * (M * S) + 3 * S := by
      have : 4 * (M + 1) - 1 = 4 * M + 3 := by omega
      rw [this]; ring
    have e4 : (4 * (M + 1) + 2) * S = 4 * (M * S) + 6 * S := by ring
    have e5 : 4 * (M + 1) * S = 4 * (M * S) + 4 * S := by ring
    have e6 : W * (fl + 1) = fl * W + W := by ring
    rw [e4]
    rw [e5] at h1 h2
    rw [e6] at h2
    omega
  · simp only [hk0, if_false] at hcN hcD
    subst hcD
    have hstar := hq 0 (-k).toNat (by omega)
    simp only [Nat.pow_zero, Nat.mul_one] at hstar
    have hTpos : 0 < 10 ^ (-k).toNat := Nat.pow_pos (by decide)
    generalize 10 ^ (-k).toNat = T at *
    have h1 : 4 * (M + 1) * S * T / D * D ≤ 4 * (M + 1) * S * T := Nat.div_mul_le_self _ _
    have h2 : 4 * (M + 1) * S * T < D * (4 * (M + 1) * S * T / D + 1) := Nat.lt_mul_div_succ _ hdpos
    rw [← hcN] at h1 h2
    have e2 : loC * S * T ≤ (4 * (M + 1) - 1) * S * T := Nat.mul_le_mul_right _ (Nat.mul_le_mul_right _ hloC)
    have e3 : (4 * (M + 1) - 1) * S * T = 4 * (M * (S * T)) + 3 * (S * T) := by
      have : 4 * (M + 1) - 1 = 4 * M + 3 := by omega
      rw [this]; ring
    have e4 : (4 * (M + 1) + 2) * S * T = 4 * (M * (S * T)) + 6 * (S * T) := by ring
    have e5 : 4 * (M + 1) * S * T = 4 * (M * (S * T)) + 4 * (S * T) := by ring
    have e6 : D * (cN + 1) = cN * D + D := by ring
    have hST : 0 < S * T := Nat.mul_pos hSpos hTpos
    rw [e4]
    rw [e5] at h1 h2
    rw [e6] at h2
    omega

end Refmt.FloatL

namespace Refmt.FloatL
open Refmt Refmt.FloatText Refmt.JsonDec Refmt.C03L

/-- the candidate `shortest` works with passed the `inside` test (no fall-through of the fuel) -/
theorem shortestAux_inside (abs : Nat) (h0 : abs ≠ 0) (hfin : abs / p52 < 2047) :
    insideB (sdOf abs) (shortestAux (sdOf abs) 20 1).2 (shortestAux (sdOf abs) 20 1).1 = true := by
  obtain ⟨hm1, hm2, he1, he2, _, _, _⟩ := decompose_canon abs h0 hfin
  apply shortestAux_found
  exact ⟨20, by omega, by omega, Or.inl (inside20 _ _ _ hm1 hm2 he1 he2)⟩

/-- the fall-through value `(0, 0)` of `shortestAux` is never what `shortest` sees -/
theorem shortestAux_ne_zero (abs : Nat) (h0 : abs ≠ 0) (hfin : abs / p52 < 2047) :
    (shortestAux (sdOf abs) 20 1).1 ≠ 0 := by
  obtain ⟨hm1, _⟩ := decompose_canon abs h0 hfin
  have := insideB_pos _ _ _ (shortestAux_inside abs h0 hfin) (mkSD_lo_pos _ _ _ hm1)
  omega

/-- **The shortest digits round-trip.**  For a finite non-zero magnitude, the decimal
    `0.d1d2… * 10^dp` that `shortest` returns is parsed by `parseDecimal` to exactly that magnitude. -/
theorem shortest_roundtrip (x : Nat) (h0 : x % 9223372036854775808 ≠ 0)
    (hfin : (x % 9223372036854775808) / p52 < 2047) :
    parseDecimal (digitsVal (shortest x).1) ((shortest x).2 - ((shortest x).1.length : Int)) =
      (x % 9223372036854775808, false) := by
  rw [shortest_nz x h0]
  generalize x % 9223372036854775808 = abs at *
  have hin := shortestAux_inside abs h0 hfin
  obtain ⟨hm1, _⟩ := decompose_canon abs h0 hfin
  have hlo : 0 < (sdOf abs).loN := mkSD_lo_pos _ _ _ hm1
  generalize shortestAux (sdOf abs) 20 1 = ck at hin
  obtain ⟨c, k⟩ := ck
  simp only at hin ⊢
  have hc : 0 < c := insideB_pos _ _ _ hin hlo
  obtain ⟨b0, r0, hnd, _, hb0⟩ := natDigits_form c
  rw [if_neg (by omega)] at hb0
  obtain ⟨r', hr'⟩ := strip_head b0 r0 (by omega)
  obtain ⟨j, hj⟩ := strip_spec (natDigits c)
  rw [hnd] at hj ⊢
  rw [hr'] at hj ⊢
  have hval : c = digitsVal (b0 :: r') * 10 ^ j := by
    have := digitsVal_natDigits c
    rw [hnd, hj, digitsVal_zeros] at this
    exact this.symm
  have hlen : ((b0 :: r0).length : Int) = ((b0 :: r').length : Int) + j := by
    rw [hj]; simp; omega
  simp only [List.isEmpty_cons, Bool.false_eq_true, if_false]
  have hv := insideB_insideV _ _ _ hin
  rw [hval] at hv
  have hv2 := insideV_strip _ _ _ _ hv
  have he : ((b0 :: r0).length : Int) + k - ((b0 :: r').length : Int) = k + j := by omega
  rw [he]
  exact insideV_parse abs h0 hfin _ _ hv2

end Refmt.FloatL
