/-
  Infrastructure for the refinement proof of the stateful marshaller model: rows seen as `lo ++ row :: hi`
  (the machine under consideration lives in `row`, everything in `lo` is older), and the fuel-free
  step relations `CS` (the current machine's Step), `DS` (the driver's Step), `Emits` (a run of driver steps).
-/
import RefmtProofs.Lemmas.MarshalMachMono
open Refmt Refmt.Obj Refmt.Obj.MM
set_option linter.unusedVariables false
set_option linter.unusedSimpArgs false

namespace Refmt.MachL

variable {ts : Types} {a : Atlas} {trs : Trs}

theorem getRow (lo : List Row) (row : Row) (hi : List Row) : (lo ++ row :: hi)[lo.length]? = some row := by
  simp

theorem updRow_at (lo : List Row) (row : Row) (hi : List Row) (f : Row → Row) :
    updRow (lo ++ row :: hi) lo.length f = lo ++ f row :: hi := by
  simp [updRow]

theorem len_at (lo : List Row) (row : Row) (hi : List Row) :
    (lo ++ row :: hi).length = lo.length + 1 + hi.length := by
  simp; omega

theorem upd_at (lo : List Row) (row : Row) (hi : List Row) (f : Row → Row) (st be) (cur : Option MRef) :
    (MState.mk (lo ++ row :: hi) st cur be).upd lo.length f = ⟨lo ++ f row :: hi, st, cur, be⟩ := by
  simp [MState.upd, updRow_at]

theorem requisition_at {n R id row' k} (h : yieldM ts a n Row.zero id = .ok (row', k)) :
    requisition ts a n R id = .ok (R ++ [row'], ⟨R.length, k⟩) := by
  simp [requisition, h]

theorem release_snoc (R : List Row) (x : Row) : release (R ++ [x]) = R := by
  simp [release]

theorem yieldTip_snoc {n R x id row' k} (h : yieldM ts a n x id = .ok (row', k)) :
    yieldTip ts a n (R ++ [x]) id = .ok (R ++ [row'], ⟨R.length, k⟩) := by
  simp [yieldTip, h]

theorem NS.ok {α : Type} {x : α} : NS (.ok x : X α) := by intro h; cases h
theorem NS.f {α : Type} {e : Fail} : NS (.error (.f e) : X α) := by intro h; cases h

variable (ts a trs)

/-- the current machine's `Step` (what `d.Step` calls), for some fuel, with a result other than stuck -/
def CS (s : MState) (res : X SRes) : Prop :=
  ∃ n cur, s.step = some cur ∧ stepM ts a trs n cur s = res ∧ NS res

/-- the driver's `Step`, for some fuel, with a result other than stuck -/
def DS (s : MState) (res : X SRes) : Prop := ∃ n, mstep ts a trs n s = res ∧ NS res

/-- a run of driver steps, none of them reporting done -/
def Emits : MState → List Tok → MState → Prop
  | s, [], s' => s = s'
  | s, t :: toks, s' => ∃ s1, DS ts a trs s (.ok ⟨t, false, s1⟩) ∧ Emits s1 toks s'

variable {ts a trs}

theorem CS.toDS_tok {s t s1} (h : CS ts a trs s (.ok ⟨t, false, s1⟩)) : DS ts a trs s (.ok ⟨t, false, s1⟩) := by
  obtain ⟨n, cur, hc, hs, _⟩ := h
  exact ⟨n+1, by simp [mstep, mstepBody, hc, hs], NS.ok⟩

theorem CS.toDS_err {s x} (h : CS ts a trs s (.error x)) : DS ts a trs s (.error x) := by
  obtain ⟨n, cur, hc, hs, hn⟩ := h
  exact ⟨n+1, by simp [mstep, mstepBody, hc, hs], hn⟩

theorem CS.toDS_pop {s t R p st c be} (h : CS ts a trs s (.ok ⟨t, true, ⟨R, p :: st, c, be⟩⟩)) :
    DS ts a trs s (.ok ⟨t, false, ⟨R, st, some p, be⟩⟩) := by
  obtain ⟨n, cur, hc, hs, _⟩ := h
  exact ⟨n+1, by simp [mstep, mstepBody, hc, hs], NS.ok⟩

theorem CS.toDS_fin {s t R c be} (h : CS ts a trs s (.ok ⟨t, true, ⟨R, [], c, be⟩⟩)) :
    DS ts a trs s (.ok ⟨t, true, ⟨R, [], c, be⟩⟩) := by
  obtain ⟨n, cur, hc, hs, _⟩ := h
  exact ⟨n+1, by simp [mstep, mstepBody, hc, hs], NS.ok⟩

theorem Emits.append {s toks1 s1 toks2 s2} (h1 : Emits ts a trs s toks1 s1) (h2 : Emits ts a trs s1 toks2 s2) :
    Emits ts a trs s (toks1 ++ toks2) s2 := by
  induction toks1 generalizing s with
  | nil => cases h1; exact h2
  | cons t toks ih =>
    obtain ⟨s', hd, hr⟩ := h1
    exact ⟨s', hd, ih hr⟩

theorem Emits.one {s t s1} (h : DS ts a trs s (.ok ⟨t, false, s1⟩)) : Emits ts a trs s [t] s1 := ⟨s1, h, rfl⟩
