/-
  Stateful object unmarshaller: the slice machine's `Reset`, `Step` and `absorb`, one equation per case.
-/
import RefmtProofs.Lemmas.UnmarshalMachUnionSimV
set_option linter.unusedSimpArgs false
set_option linter.unusedVariables false
namespace Refmt.UMachU
open Refmt Refmt.Obj Refmt.Obj.UM Refmt.UMachL

variable {ts : Types} {a : Atlas} {trs : Trs} {it : IfaceTys}

/-- a row with its slice machine replaced -/
def rowSl (row : URow) (sm : SliceM) : URow := { row with slice := sm }

@[simp] theorem rowSl_ptr (row sm) : (rowSl row sm).ptr = row.ptr := rfl
@[simp] theorem rowSl_slice (row sm) : (rowSl row sm).slice = sm := rfl
theorem rowSl_same (row sm) : SameCfg row (rowSl row sm) := ⟨rfl, rfl, rfl, rfl, rfl, rfl, rfl, rfl, rfl, rfl, rfl, rfl⟩

/-- the slice machine after `Reset` -/
def slReset (ts : Types) (v : Val) (e j : Nat) (cck : MK) : SliceM :=
  { target_rv := v, working := sliceElems v, value_rt := e, valueZero_rv := zeroVal ts 64 e,
    valueMach := some ⟨j, cck⟩, phase := .initial, index := 0 }
/-- the slice machine after the open token -/
def slOpen (sm : SliceM) : SliceM :=
  { sm with phase := .acceptValueOrClose, target_rv := .slice (some []), working := [] }

theorem dropLast_at (lo : List URow) (row x : URow) (hi : List URow) :
    release (lo ++ row :: (hi ++ [x])) = lo ++ row :: hi := by
  rw [show lo ++ row :: (hi ++ [x]) = (lo ++ row :: hi) ++ [x] by simp]
  exact release_snoc _ _

theorem slice_reset {f : Nat} {lo hi : List URow} {row : URow} {rt e : Nat} {v : Val} {crow : URow} {cck : MK}
    (hrt : ts.get rt = .slice e)
    (hreq : requisition ts a f (lo ++ row :: hi) e = .ok ((lo ++ row :: hi) ++ [crow], ⟨(lo ++ row :: hi).length, cck⟩)) :
    resetM ts a (f+1) ⟨lo.length, .slice⟩ rt v (lo ++ row :: hi)
      = .ok (lo ++ rowSl row (slReset ts v e (lo ++ row :: hi).length cck) :: (hi ++ [crow])) := by
  simp only [resetM, resetBody, getRow, resetSlice, hrt, hreq, updRow_snoc]
  rfl

theorem slice_step_init_open {f : Nat} {lo hi : List URow} {row : URow} {stk st be} {t : Tok} {len : Int}
    (hph : row.slice.phase = .initial) (ht : t.body = .arrOpen len) :
    stepM ts a trs it (f+1) ⟨lo.length, .slice⟩ ⟨lo ++ row :: hi, stk, st, be⟩ t
      = .ok ⟨none, ⟨lo ++ rowSl row (slOpen row.slice) :: hi, stk, st, be⟩⟩ := by
  simp only [stepM, stepBody, getRow, stepSlice, hph, ht, cont, UState.upd, updRow_at]
  rfl

theorem slice_step_init_null {f : Nat} {lo hi : List URow} {row : URow} {stk st be} {t : Tok}
    (hph : row.slice.phase = .initial) (ht : t.body = .null) :
    stepM ts a trs it (f+1) ⟨lo.length, .slice⟩ ⟨lo ++ row :: hi, stk, st, be⟩ t
      = .ok ⟨some (.slice none), ⟨lo ++ row :: hi, stk, st, be⟩⟩ := by
  simp only [stepM, stepBody, getRow, stepSlice, hph, ht, fin]

theorem slice_step_init_other {f : Nat} {lo hi : List URow} {row : URow} {stk st be} {t : Tok}
    (hph : row.slice.phase = .initial) (h1 : ∀ len, t.body ≠ .arrOpen len) (h2 : t.body ≠ .null) :
    stepM ts a trs it (f+1) ⟨lo.length, .slice⟩ ⟨lo ++ row :: hi, stk, st, be⟩ t = .error (.f .err) := by
  simp only [stepM, stepBody, getRow, stepSlice, hph]
  rfl

/-- the slice machine after requesting the next element -/
def slNext (sm : SliceM) : SliceM :=
  { sm with working := sm.working ++ [sm.valueZero_rv], index := sm.index + 1 }
/-- the slice machine once the element's machine is done with `v` -/
def slAbs (sm : SliceM) (v : Val) : SliceM := { sm with working := sm.working.set (sm.index - 1) v }
/-- the slice machine after the close token -/
def slClose (sm : SliceM) : SliceM := { sm with target_rv := .slice (some sm.working) }

theorem slice_step_mapClose {f : Nat} {lo hi : List URow} {row : URow} {stk st be} {t : Tok}
    (hph : row.slice.phase = .acceptValueOrClose) (ht : t.body = .mapClose) :
    stepM ts a trs it (f+1) ⟨lo.length, .slice⟩ ⟨lo ++ row :: hi, stk, st, be⟩ t = .error (.f .err) := by
  simp only [stepM, stepBody, getRow, stepSlice, hph, ht]
  rfl

theorem slice_step_arrClose {f : Nat} {lo hi : List URow} {row : URow} {stk st be} {t : Tok}
    (hph : row.slice.phase = .acceptValueOrClose) (ht : t.body = .arrClose) :
    stepM ts a trs it (f+1) ⟨lo.length, .slice⟩ ⟨lo ++ row :: hi, stk, st, be⟩ t
      = .ok ⟨some (.slice (some row.slice.working)),
          ⟨release (lo ++ rowSl row (slClose row.slice) :: hi), stk, st, be⟩⟩ := by
  simp only [stepM, stepBody, getRow, stepSlice, hph, ht, fin, updRow_at]
  simp [rowSl, slClose, hph]

theorem slice_step_elem {f : Nat} {lo hi : List URow} {row : URow} {stk st be} {t : Tok} {d : URef}
    (hph : row.slice.phase = .acceptValueOrClose) (h1 : t.body ≠ .mapClose) (h2 : t.body ≠ .arrClose)
    (hd : row.slice.valueMach = some d) :
    stepM ts a trs it (f+1) ⟨lo.length, .slice⟩ ⟨lo ++ row :: hi, stk, st, be⟩ t
      = recurse ts a trs it f ⟨lo ++ rowSl row (slNext row.slice) :: hi, stk, st, be⟩ t row.slice.valueZero_rv
          row.slice.value_rt d := by
  simp only [stepM, stepBody, getRow, stepSlice, hph, hd, UState.upd, updRow_at]
  simp [rowSl, slNext, hph, hd]

theorem slice_absorb {f : Nat} {lo hi : List URow} {row : URow} {v : Val} :
    absorbM ts (f+1) ⟨lo.length, .slice⟩ v (lo ++ row :: hi) = .ok (lo ++ rowSl row (slAbs row.slice v) :: hi) := by
  simp only [absorbM, absorbBody, getRow, updRow_at]
  rfl

end Refmt.UMachU
