/-
  Lemmas for C01 (JSON): on typed targets, when the unmarshaller accepts a token list it accepts the list as
  re-typed by a JSON round trip (`Spec.Json.retypeTok`) and stores the same value.

  Token hypotheses (`jOk`): carriable by JSON (`jsonOk`), strings valid UTF-8, floats not -0 and re-read exactly
  (`rereadOk`: the typed token of the float's text stores back the same float; a decidable check on the float text
  routines of the trusted base, like `C03L.floatOk`).
  Type hypotheses: `typedT` (= `C01.typedTy`) and no ignored field in struct-map entries (`noIgnore`): an ignored
  field's value is slurped by the wildcard machine, whose sub-machines are outside `typedT`.
-/
import RefmtModel
import RefmtProofs.Lemmas.UnmCanon
import RefmtProofs.Lemmas.UnmSuffix
import RefmtProofs.Lemmas.TransportJson
set_option linter.unusedSimpArgs false
set_option linter.unusedVariables false
namespace Refmt.C01L
open Refmt Refmt.Obj

abbrev rt : Tok → Tok := Spec.Json.retypeTok

/-- the token the float's JSON text is typed as stores back the same float -/
def rereadOk (b : Nat) : Bool :=
  match JsonDec.numTok (FloatText.jsonFloat b) with
  | .ok (.float b2) => b2 == b
  | .ok (.int i) => FloatText.intToF64 i == b
  | .ok (.uint n) => FloatText.intToF64 (n : Int) == b
  | .ok _ => false
  | .error _ => true

/-- same body as `C01.plainJson` -/
def plainOk (t : Tok) : Bool :=
  match t.body with
  | .str s => toValidUtf8 s == s
  | .float b => b != 9223372036854775808 && rereadOk b
  | _ => true

def jOk (t : Tok) : Bool := jsonOk t && plainOk t

theorem jOk_tag {t : Tok} (h : jOk t = true) : t.tag = none := by
  unfold jOk jsonOk at h
  simp only [Bool.and_eq_true, Option.isNone_iff_eq_none] at h
  exact h.1.1

theorem reread_num {b : Nat} {b' : Body} (h : rereadOk b = true) (hn : JsonDec.numTok (FloatText.jsonFloat b) = .ok b') :
    (b' = .float b) ∨ (∃ i, b' = .int i ∧ FloatText.intToF64 i = b) ∨
      (∃ n : Nat, b' = .uint n ∧ FloatText.intToF64 (n : Int) = b) := by
  unfold rereadOk at h
  rw [hn] at h
  cases b' <;> simp at h
  · exact Or.inr (Or.inl ⟨_, rfl, h⟩)
  · exact Or.inr (Or.inr ⟨_, rfl, h⟩)
  · exact Or.inl (by rw [h])

theorem jOk_reread {b : Nat} {tag : Option Int} (h : jOk ⟨.float b, tag⟩ = true) : rereadOk b = true := by
  unfold jOk plainOk at h
  simp only [Bool.and_eq_true] at h
  exact h.2.2

/-- the retyped body of a float token -/
theorem rt_float_cases {b : Nat} {tag : Option Int} (h : jOk ⟨.float b, tag⟩ = true) :
    rt ⟨.float b, tag⟩ = ⟨.float b, none⟩ ∨ (∃ i, rt ⟨.float b, tag⟩ = ⟨.int i, none⟩ ∧ FloatText.intToF64 i = b) ∨
      (∃ n : Nat, rt ⟨.float b, tag⟩ = ⟨.uint n, none⟩ ∧ FloatText.intToF64 (n : Int) = b) := by
  simp only [rt, Spec.Json.retypeTok]
  cases hn : JsonDec.numTok (FloatText.jsonFloat b) with
  | error e => exact Or.inl rfl
  | ok b' =>
    rcases reread_num (jOk_reread h) hn with rfl | ⟨i, rfl, hi⟩ | ⟨n, rfl, hi⟩
    · exact Or.inl rfl
    · exact Or.inr (Or.inl ⟨i, rfl, hi⟩)
    · exact Or.inr (Or.inr ⟨n, rfl, hi⟩)

theorem rt_null_iff {t : Tok} (h : jOk t = true) : (rt t).body = .null ↔ t.body = .null := by
  obtain ⟨body, tag⟩ := t
  cases body with
  | float b => rcases rt_float_cases h with h1 | ⟨i, h1, _⟩ | ⟨n, h1, _⟩ <;> rw [h1] <;> simp
  | uint n => simp only [rt, Spec.Json.retypeTok]; split <;> simp
  | _ => simp [rt, Spec.Json.retypeTok]

theorem rt_arrClose_iff {t : Tok} (h : jOk t = true) : (rt t).body = .arrClose ↔ t.body = .arrClose := by
  obtain ⟨body, tag⟩ := t
  cases body with
  | float b => rcases rt_float_cases h with h1 | ⟨i, h1, _⟩ | ⟨n, h1, _⟩ <;> rw [h1] <;> simp
  | uint n => simp only [rt, Spec.Json.retypeTok]; split <;> simp
  | _ => simp [rt, Spec.Json.retypeTok]

theorem rt_mapClose_iff {t : Tok} (h : jOk t = true) : (rt t).body = .mapClose ↔ t.body = .mapClose := by
  obtain ⟨body, tag⟩ := t
  cases body with
  | float b => rcases rt_float_cases h with h1 | ⟨i, h1, _⟩ | ⟨n, h1, _⟩ <;> rw [h1] <;> simp
  | uint n => simp only [rt, Spec.Json.retypeTok]; split <;> simp
  | _ => simp [rt, Spec.Json.retypeTok]

theorem rt_arrOpen {t : Tok} {l : Int} (hb : t.body = .arrOpen l) : (rt t).body = .arrOpen (-1) := by
  simp [rt, Spec.Json.retypeTok, hb]

theorem rt_mapOpen {t : Tok} {l : Int} (hb : t.body = .mapOpen l) : (rt t).body = .mapOpen (-1) := by
  simp [rt, Spec.Json.retypeTok, hb]

theorem rt_str {t : Tok} {s : Bytes} (h : jOk t = true) (hb : t.body = .str s) : (rt t).body = .str s := by
  unfold jOk plainOk at h
  simp only [Bool.and_eq_true, hb, beq_iff_eq] at h
  simp [rt, Spec.Json.retypeTok, hb, h.2]

theorem storePrim_tagless (d : TyDesc) (b : Body) (tag : Option Int) : storePrim d ⟨b, tag⟩ = storePrim d ⟨b, none⟩ := by
  unfold storePrim; rfl

theorem storePrim_rt {d : TyDesc} {t : Tok} {v : Val} (h : jOk t = true) (hs : storePrim d t = some v) :
    storePrim d (rt t) = some v := by
  obtain ⟨body, tag⟩ := t
  rw [storePrim_tagless] at hs
  cases body with
  | uint n =>
    simp only [rt, Spec.Json.retypeTok]
    split
    · next hn =>
      have := storePrim_canon' d ⟨.int n, none⟩
      have hc : canon' ⟨.int n, none⟩ = ⟨.uint n, none⟩ := by
        simp [canon', hn]
      rw [hc] at this
      rw [← this]; exact hs
    · exact hs
  | float b =>
    have hf : ∃ x, storePrim d ⟨.float b, none⟩ = some (.float x) ∧
        (∀ i, FloatText.intToF64 i = b → storePrim d ⟨.int i, none⟩ = some (.float x)) ∧
        (∀ n : Nat, FloatText.intToF64 (n : Int) = b → storePrim d ⟨.uint n, none⟩ = some (.float x)) := by
      cases d with
      | prim k bi =>
        cases k <;> simp [storePrim] at hs
        · exact ⟨_, rfl, fun i hi => by simp [storePrim, hi], fun n hn => by simp [storePrim, hn]⟩
        · exact ⟨_, rfl, fun i hi => by simp [storePrim, hi], fun n hn => by simp [storePrim, hn]⟩
      | _ => simp [storePrim] at hs
    obtain ⟨x, hx, hi, hn⟩ := hf
    rw [hx] at hs
    rcases rt_float_cases h with h1 | ⟨i, h1, e⟩ | ⟨n, h1, e⟩ <;> rw [h1]
    · rw [hx]; exact hs
    · rw [hi i e]; exact hs
    · rw [hn n e]; exact hs
  | str s =>
    have h1 : rt ⟨.str s, tag⟩ = ⟨.str s, none⟩ := by
      have := rt_str h rfl
      show (⟨_, none⟩ : Tok) = _
      exact congrArg (fun b => (⟨b, none⟩ : Tok)) this
    rw [h1]; exact hs
  | mapOpen l => cases d <;> simp [storePrim] at hs
  | arrOpen l => cases d <;> simp [storePrim] at hs
  | _ => exact hs

/-- same definition as `C01.typedTy` -/
def typedT (ts : Types) (a : Atlas) : Nat → Nat → Bool
  | 0, _ => false
  | fuel+1, id =>
    match ts.get id with
    | .prim _ _ => (a.get id).isNone
    | .bytes _ => (a.get id).isNone
    | .byteArr _ => (a.get id).isNone
    | .slice e => (a.get id).isNone && typedT ts a fuel e
    | .arr _ e => (a.get id).isNone && typedT ts a fuel e
    | .map k e => (a.get id).isNone && (match ts.get k with | .prim .string _ => true | _ => false) && typedT ts a fuel e
    | .ptr e => typedT ts a fuel e
    | .struct _ =>
      (match a.get id with
       | some ⟨_, _, none, .structMap fields⟩ => fields.all fun f => typedT ts a fuel f.ty
       | _ => false)
    | _ => false

/-- no struct-map entry of the atlas has an ignored field -/
def noIgnore (a : Atlas) : Bool :=
  a.pool.all fun e => match e.k with | .structMap fs => fs.all (fun f => !f.ignore) | _ => true

theorem peel_typed (ts : Types) (a : Atlas) : ∀ (f k n id : Nat), k ≤ f → typedT ts a k id = true →
    ∃ k', k' ≤ k ∧ typedT ts a k' (peel ts f n id).2 = true ∧ (∀ e, ts.get (peel ts f n id).2 ≠ .ptr e)
  | 0, k, n, id, hk, h => by
    have : k = 0 := by omega
    subst this; simp [typedT] at h
  | f+1, 0, n, id, hk, h => by simp [typedT] at h
  | f+1, k+1, n, id, hk, h => by
    unfold peel
    cases hd : ts.get id with
    | ptr e =>
      simp only
      rw [typedT, hd] at h
      simp only at h
      obtain ⟨k', h1, h2, h3⟩ := peel_typed ts a f k (n+1) e (by omega) h
      exact ⟨k', by omega, h2, h3⟩
    | _ => exact ⟨k+1, by omega, h, by simp [hd]⟩

theorem mem_pool_of_get {a : Atlas} {id : Nat} {e : Entry} (h : a.get id = some e) : e ∈ a.pool :=
  List.mem_of_find?_eq_some h

/-- the machine picked for a typed, non-pointer type -/
theorem pick_cases (ts : Types) (a : Atlas) (hni : noIgnore a = true) (k id : Nat) (h : typedT ts a (k+1) id = true)
    (hnp : ∀ e, ts.get id ≠ .ptr e) :
    upickBare ts a id = .prim ∨
    (∃ e, upickBare ts a id = .slice e ∧ typedT ts a k e = true) ∨
    (∃ n e, upickBare ts a id = .array n e ∧ typedT ts a k e = true) ∨
    (∃ kt vt b, upickBare ts a id = .map kt vt ∧ ts.get kt = .prim .string b ∧ typedT ts a k vt = true) ∨
    (∃ fields, upickBare ts a id = .structMap fields ∧ ∀ f ∈ fields, f.ignore = false ∧ typedT ts a k f.ty = true) := by
  rw [typedT] at h
  unfold upickBare
  cases hd : ts.get id with
  | prim kd b =>
    rw [hd] at h; simp only [Option.isNone_iff_eq_none] at h
    cases b <;> simp [h]
  | bytes b =>
    rw [hd] at h; simp only [Option.isNone_iff_eq_none] at h
    cases b <;> simp [h]
  | byteArr n =>
    rw [hd] at h; simp only [Option.isNone_iff_eq_none] at h
    simp [h]
  | slice e =>
    rw [hd] at h; simp only [Option.isNone_iff_eq_none, Bool.and_eq_true] at h
    simp [h.1, h.2]
  | arr n e =>
    rw [hd] at h; simp only [Option.isNone_iff_eq_none, Bool.and_eq_true] at h
    exact Or.inr (Or.inr (Or.inl ⟨n, e, by simp [h.1], h.2⟩))
  | map kt vt =>
    rw [hd] at h; simp only [Option.isNone_iff_eq_none, Bool.and_eq_true] at h
    obtain ⟨⟨h1, h2⟩, h3⟩ := h
    refine Or.inr (Or.inr (Or.inr (Or.inl ?_)))
    cases hk : ts.get kt with
    | prim kk b =>
      cases kk <;> simp [hk] at h2
      exact ⟨kt, vt, b, by simp [h1], hk, h3⟩
    | _ => simp [hk] at h2
  | ptr e => exact absurd hd (hnp e)
  | struct fds =>
    rw [hd] at h; simp only at h
    refine Or.inr (Or.inr (Or.inr (Or.inr ?_)))
    split at h
    · next r ty fields hg =>
      refine ⟨fields, by simp [hg, umachForEntry], ?_⟩
      intro f hf
      have hmem := mem_pool_of_get hg
      have := List.all_eq_true.mp hni _ hmem
      simp only at this
      have h1 := List.all_eq_true.mp this f hf
      have h2 := List.all_eq_true.mp h f hf
      exact ⟨by simpa using h1, h2⟩
    · simp at h
  | iface m => rw [hd] at h; simp at h
  | other => rw [hd] at h; simp at h

theorem shift_ok_inv' {x : URes} {k : Nat} {v : Val} {r : List Tok} {u : Nat} (h : x.shift k = .ok v r u) :
    ∃ u', x = .ok v r u' ∧ u = u' + k := by
  cases x <;> simp [URes.shift] at h
  exact ⟨_, by rw [h.1, h.2.1], h.2.2.symm⟩

abbrev rl : List Tok → List Tok := List.map rt

section
variable (ts : Types) (a : Atlas) (trs : Trs) (it : IfaceTys)

def RV (fuel : Nat) : Prop := ∀ k id cur toks v r u, k ≤ 64 → typedT ts a k id = true → toks.all jOk = true →
  unmV ts a trs it fuel id cur toks = .ok v r u → unmV ts a trs it fuel id cur (rl toks) = .ok v (rl r) u
def RB (fuel : Nat) : Prop := ∀ k id cur toks v r u, k ≤ 64 → typedT ts a k id = true → (∀ e, ts.get id ≠ .ptr e) →
  toks.all jOk = true →
  unmBare ts a trs it fuel id (upickBare ts a id) cur toks = .ok v r u →
  unmBare ts a trs it fuel id (upickBare ts a id) cur (rl toks) = .ok v (rl r) u
def RE (fuel : Nat) : Prop := ∀ k e cap acc toks v r u, k ≤ 64 → typedT ts a k e = true → toks.all jOk = true →
  unmElems ts a trs it fuel e cap acc toks = .ok v r u → unmElems ts a trs it fuel e cap acc (rl toks) = .ok v (rl r) u
def RM (fuel : Nat) : Prop := ∀ k vt es toks v r u, k ≤ 64 → typedT ts a k vt = true → toks.all jOk = true →
  unmMapEntries ts a trs it fuel none vt es toks = .ok v r u →
  unmMapEntries ts a trs it fuel none vt es (rl toks) = .ok v (rl r) u
def RS (fuel : Nat) : Prop := ∀ k id fields el idx cur toks v r u, k ≤ 64 →
  (∀ f ∈ fields, f.ignore = false ∧ typedT ts a k f.ty = true) → toks.all jOk = true →
  unmStruct ts a trs it fuel id fields el idx cur toks = .ok v r u →
  unmStruct ts a trs it fuel id fields (-1) idx cur (rl toks) = .ok v (rl r) u

theorem rv_step (fuel : Nat) (hb : RB ts a trs it fuel) : RV ts a trs it (fuel+1) := by
  intro k id cur toks v r u hk ht hj h
  cases toks with
  | nil => simp [unmV] at h
  | cons t rest =>
    obtain ⟨k', hk', ht', hnp⟩ := peel_typed ts a 64 k 0 id hk ht
    have hjt : jOk t = true := by simp only [List.all_cons, Bool.and_eq_true] at hj; exact hj.1
    simp only [unmV] at h
    simp only [rl, List.map_cons, unmV]
    have hb' := fun cur v r u => hb k' (peel ts 64 0 id).2 cur (t :: rest) v r u (by omega) ht' hnp hj
    simp only [rl, List.map_cons] at hb'
    split at h
    · next hn => rw [if_pos hn]; exact hb' _ _ _ _ h
    · next hn =>
      rw [if_neg hn]
      split at h
      · next hbd =>
        simp only [URes.ok.injEq] at h
        obtain ⟨rfl, rfl, rfl⟩ := h
        simp only [(rt_null_iff hjt).2 hbd]
      · next hbd =>
        split at h
        · next hx =>
          simp only [URes.ok.injEq] at h
          obtain ⟨rfl, rfl, rfl⟩ := h
          have := hb' _ _ _ _ hx
          split
          · next hbd' => exact absurd ((rt_null_iff hjt).1 hbd') (fun e => hbd e)
          · rw [this]
        · next x hx => rw [h] at hx; exact absurd rfl (hx _ _ _)

theorem re_step (fuel : Nat) (hv : RV ts a trs it fuel) (he : RE ts a trs it fuel) : RE ts a trs it (fuel+1) := by
  intro k e cap acc toks v r u hk ht hj h
  cases toks with
  | nil => simp [unmElems] at h
  | cons t rest =>
    have hjt : jOk t = true := by simp only [List.all_cons, Bool.and_eq_true] at hj; exact hj.1
    have hjr : rest.all jOk = true := by simp only [List.all_cons, Bool.and_eq_true] at hj; exact hj.2
    have hv' := fun cur v r u => hv k e cur (t :: rest) v r u hk ht hj
    simp only [rl, List.map_cons] at hv'
    unfold unmElems at h
    simp only [rl, List.map_cons]
    unfold unmElems
    split at h
    · simp at h
    · next hbd =>
      simp only [URes.ok.injEq] at h
      obtain ⟨rfl, rfl, rfl⟩ := h
      simp only [(rt_arrClose_iff hjt).2 hbd]
    · next hb1 hb2 =>
      obtain ⟨hcap, h⟩ := ite_err_ok h
      split at h
      · next v1 r1 u1 hx =>
        obtain ⟨u', h', rfl⟩ := shift_ok_inv' h
        have hr1 : r1.all jOk = true := all_of_suffix ((suffix_all_fuel ts a trs it fuel).1 _ _ _ _ _ _ hx) hj
        have e1 := hv' _ _ _ _ hx
        have e2 := he k e cap (v1 :: acc) r1 v r u' hk ht hr1 h'
        split
        · next hbd' => exact absurd ((rt_mapClose_iff hjt).1 hbd') (fun e => hb1 e)
        · next hbd' => exact absurd ((rt_arrClose_iff hjt).1 hbd') (fun e => hb2 e)
        · rw [if_neg hcap, e1]
          simp only [rl] at e2
          simp only [e2, URes.shift]
      · next x hx => rw [h] at hx; exact absurd rfl (hx _ _ _)

theorem rm_step (fuel : Nat) (hv : RV ts a trs it fuel) (hm : RM ts a trs it fuel) : RM ts a trs it (fuel+1) := by
  intro k vt es toks v r u hk ht hj h
  cases toks with
  | nil => simp [unmMapEntries] at h
  | cons t rest =>
    have hjt : jOk t = true := by simp only [List.all_cons, Bool.and_eq_true] at hj; exact hj.1
    have hjr : rest.all jOk = true := by simp only [List.all_cons, Bool.and_eq_true] at hj; exact hj.2
    unfold unmMapEntries at h
    simp only [rl, List.map_cons]
    unfold unmMapEntries
    split at h
    · next hbd =>
      simp only [URes.ok.injEq] at h
      obtain ⟨rfl, rfl, rfl⟩ := h
      simp only [(rt_mapClose_iff hjt).2 hbd]
    · next s hbd =>
      simp only [rt_str hjt hbd]
      simp only at h
      obtain ⟨hkey, h⟩ := ite_err_ok h
      rw [if_neg hkey]
      split at h
      · next v1 r1 u1 hx =>
        obtain ⟨u', h', rfl⟩ := shift_ok_inv' h
        have hr1 : r1.all jOk = true := all_of_suffix ((suffix_all_fuel ts a trs it fuel).1 _ _ _ _ _ _ hx) hjr
        have e1 := hv k vt _ rest _ _ _ hk ht hjr hx
        have e2 := hm k vt _ r1 v r u' hk ht hr1 h'
        simp only [rl] at e1 e2
        simp only [e1, e2, URes.shift]
      · next x hx =>
        obtain ⟨u', h', _⟩ := shift_ok_inv' h
        exact absurd h' (hx _ _ _)
    · simp at h

theorem rs_step (fuel : Nat) (hv : RV ts a trs it fuel) (hs : RS ts a trs it fuel) : RS ts a trs it (fuel+1) := by
  intro k id fields el idx cur toks v r u hk hfs hj h
  cases toks with
  | nil => simp [unmStruct] at h
  | cons t rest =>
    have hjt : jOk t = true := by simp only [List.all_cons, Bool.and_eq_true] at hj; exact hj.1
    have hjr : rest.all jOk = true := by simp only [List.all_cons, Bool.and_eq_true] at hj; exact hj.2
    unfold unmStruct at h
    simp only [rl, List.map_cons]
    unfold unmStruct
    split at h
    · next hbd =>
      have h := (ite_err_ok h).2
      simp only [URes.ok.injEq] at h
      obtain ⟨rfl, rfl, rfl⟩ := h
      simp only [(rt_mapClose_iff hjt).2 hbd]
      rfl
    · next name hbd =>
      simp only [rt_str hjt hbd]
      split at h
      · simp at h
      · next f hfind =>
        have hfm : f ∈ fields := List.mem_of_find?_eq_some hfind
        obtain ⟨hig, hft⟩ := hfs f hfm
        simp only [hig, Bool.false_eq_true, if_false] at h ⊢
        cases rest with
        | nil => simp at h
        | cons t2 rest2 =>
          simp only [List.map_cons] at h ⊢
          split at h
          · simp at h
          · next fcur hroute =>
            split at h
            · next v1 r1 u1 hx =>
              split at h
              · simp at h
              · next cur' hset =>
                obtain ⟨u', h', rfl⟩ := shift_ok_inv' h
                have hr1 : r1.all jOk = true := all_of_suffix ((suffix_all_fuel ts a trs it fuel).1 _ _ _ _ _ _ hx) hjr
                have e1 := hv k f.ty _ (t2 :: rest2) _ _ _ hk hft hjr hx
                have e2 := hs k id fields el (idx+1) cur' r1 v r u' hk hfs hr1 h'
                simp only [rl, List.map_cons] at e1 e2
                simp only [e1, e2, hset, URes.shift]
            · next x hx =>
              obtain ⟨u', h', _⟩ := shift_ok_inv' h
              exact absurd h' (hx _ _ _)
    · simp at h

theorem rb_step (hni : noIgnore a = true) (fuel : Nat) (he : RE ts a trs it fuel) (hm : RM ts a trs it fuel)
    (hs : RS ts a trs it fuel) : RB ts a trs it (fuel+1) := by
  intro k id cur toks v r u hk ht hnp hj h
  cases toks with
  | nil => simp [unmBare] at h
  | cons t rest =>
    have hjt : jOk t = true := by simp only [List.all_cons, Bool.and_eq_true] at hj; exact hj.1
    have hjr : rest.all jOk = true := by simp only [List.all_cons, Bool.and_eq_true] at hj; exact hj.2
    cases k with
    | zero => simp [typedT] at ht
    | succ k =>
    have hk' : k ≤ 64 := by omega
    simp only [rl, List.map_cons]
    rcases pick_cases ts a hni k id ht hnp with hp | ⟨e, hp, hte⟩ | ⟨n, e, hp, hte⟩ | ⟨kt, vt, b, hp, hkt, hte⟩ | ⟨fields, hp, hfs⟩
    · rw [hp] at h ⊢
      unfold unmBare at h ⊢
      simp only at h ⊢
      split at h
      · next v1 hsp =>
        simp only [URes.ok.injEq] at h
        obtain ⟨rfl, rfl, rfl⟩ := h
        rw [storePrim_rt hjt hsp]
      · simp at h
    · rw [hp] at h ⊢
      unfold unmBare at h ⊢
      simp only at h ⊢
      split at h
      · next hbd =>
        simp only [URes.ok.injEq] at h
        obtain ⟨rfl, rfl, rfl⟩ := h
        simp only [(rt_null_iff hjt).2 hbd]
      · next l hbd =>
        obtain ⟨u', h', rfl⟩ := shift_ok_inv' h
        have e2 := he k e none [] rest v r u' hk' hte hjr h'
        simp only [rl] at e2
        simp only [rt_arrOpen hbd, e2, URes.shift]
      · simp at h
    · rw [hp] at h ⊢
      unfold unmBare at h ⊢
      simp only at h ⊢
      split at h
      · next hbd =>
        simp only [URes.ok.injEq] at h
        obtain ⟨rfl, rfl, rfl⟩ := h
        simp only [(rt_null_iff hjt).2 hbd]
      · next l hbd =>
        simp only [rt_arrOpen hbd]
        split at h
        · next vs r1 u1 hx =>
          simp only [URes.ok.injEq] at h
          obtain ⟨rfl, rfl, rfl⟩ := h
          have e2 := he k e (some n) [] rest _ _ _ hk' hte hjr hx
          simp only [rl] at e2
          simp only [e2]
        · next x hx =>
          obtain ⟨u', h', rfl⟩ := shift_ok_inv' h
          have e2 := he k e (some n) [] rest _ _ _ hk' hte hjr h'
          simp only [rl] at e2
          rw [e2]
          split
          · next vs r1 u1 heq =>
            simp only [URes.ok.injEq] at heq
            obtain ⟨rfl, rfl, rfl⟩ := heq
            exact absurd h' (hx _ _ _)
          · rfl
      · simp at h
    · rw [hp] at h ⊢
      unfold unmBare at h ⊢
      simp only [hkt] at h ⊢
      split at h
      · next hbd =>
        simp only [URes.ok.injEq] at h
        obtain ⟨rfl, rfl, rfl⟩ := h
        simp only [(rt_null_iff hjt).2 hbd]
      · next l hbd =>
        obtain ⟨u', h', rfl⟩ := shift_ok_inv' h
        have e2 := hm k vt _ rest v r u' hk' hte hjr h'
        simp only [rl] at e2
        simp only [rt_mapOpen hbd, e2, URes.shift]
      · simp at h
    · rw [hp] at h ⊢
      unfold unmBare at h ⊢
      simp only at h ⊢
      split at h
      · next hbd =>
        simp only [URes.ok.injEq] at h
        obtain ⟨rfl, rfl, rfl⟩ := h
        simp only [(rt_null_iff hjt).2 hbd]
      · next l hbd =>
        obtain ⟨u', h', rfl⟩ := shift_ok_inv' h
        have e2 := hs k id fields l 0 cur rest v r u' hk' hfs hjr h'
        simp only [rl] at e2
        simp only [rt_mapOpen hbd, e2, URes.shift]
      · simp at h

theorem retype_all_fuel (hni : noIgnore a = true) (fuel : Nat) :
    RV ts a trs it fuel ∧ RB ts a trs it fuel ∧ RE ts a trs it fuel ∧ RM ts a trs it fuel ∧ RS ts a trs it fuel := by
  induction fuel with
  | zero =>
    refine ⟨?_, ?_, ?_, ?_, ?_⟩
    · intro k id cur toks v r u _ _ _ h; simp [unmV] at h
    · intro k id cur toks v r u _ _ _ _ h; simp [unmBare] at h
    · intro k e cap acc toks v r u _ _ _ h; simp [unmElems] at h
    · intro k vt es toks v r u _ _ _ h; simp [unmMapEntries] at h
    · intro k id fields el idx cur toks v r u _ _ _ h; simp [unmStruct] at h
  | succ n ih =>
    obtain ⟨hv, hb, he, hm, hs⟩ := ih
    exact ⟨rv_step ts a trs it n hb, rb_step ts a trs it hni n he hm hs, re_step ts a trs it n hv he,
      rm_step ts a trs it n hv hm, rs_step ts a trs it n hv hs⟩

end

/-- on a typed target, whatever the unmarshaller accepts it accepts re-typed, with the same value -/
theorem unm_retype_ok (ts : Types) (a : Atlas) (trs : Trs) (it : IfaceTys) (fuel id : Nat) (cur : Val) (toks : List Tok)
    (v : Val) (r : List Tok) (u : Nat) (hni : noIgnore a = true) (ht : typedT ts a 64 id = true)
    (hj : toks.all jOk = true) (h : unmV ts a trs it fuel id cur toks = .ok v r u) :
    unmV ts a trs it fuel id cur (toks.map Spec.Json.retypeTok) = .ok v (r.map Spec.Json.retypeTok) u :=
  (retype_all_fuel ts a trs it hni fuel).1 64 id cur toks v r u (Nat.le_refl _) ht hj h

end Refmt.C01L
