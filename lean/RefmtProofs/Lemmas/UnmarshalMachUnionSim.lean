/-
  Stateful object unmarshaller: the statements of the simulation, by the functional model's fuel `n`.
    `SimV n` : Reset-then-pump of a configured machine  ~  `unmV n`
    `SimB n` : Reset of the leaf below same-row wrappers, then pump  ~  `unmBare n`
  `Agree` : how a run of the stateful model (`x`) corresponds to a result `r` of the functional model; when the value is
  complete the driver continues as `kont` says, on rows that differ from the initial ones only from the machine's row on,
  that row keeping its configuration (`SameCfg`).
-/
import RefmtProofs.Lemmas.UnmarshalMachUnionWr
set_option linter.unusedSimpArgs false
set_option linter.unusedVariables false
namespace Refmt.UMachU
open Refmt Refmt.Obj Refmt.Obj.UM Refmt.UMachL

/-- the configuration fields (those `requisitionMachine` writes) agree -/
def SameCfgC (row row' : URow) : Prop :=
  row'.ptr.mach = row.ptr.mach ∧ row'.ptr.peelCount = row.ptr.peelCount ∧ row'.prim.ty = row.prim.ty ∧ row'.prim.anyKind = row.prim.anyKind ∧ row'.err = row.err ∧
  row'.struct.fields = row.struct.fields ∧ row'.transform.trFunc = row.transform.trFunc ∧
  row'.transform.recv_rt = row.transform.recv_rt ∧ row'.transform.delegate = row.transform.delegate ∧
  row'.union.members = row.union.members

/-- what a machine below a chain leaves of its row: the configuration fields, and what a union / pointer machine of
    the same row above it still needs (`tmp_rt`, `firstStep`) -/
def SameCfg (row row' : URow) : Prop :=
  row'.ptr.mach = row.ptr.mach ∧ row'.ptr.peelCount = row.ptr.peelCount ∧ row'.prim.ty = row.prim.ty ∧ row'.prim.anyKind = row.prim.anyKind ∧ row'.err = row.err ∧
  row'.struct.fields = row.struct.fields ∧ row'.transform.trFunc = row.transform.trFunc ∧
  row'.transform.recv_rt = row.transform.recv_rt ∧ row'.transform.delegate = row.transform.delegate ∧
  row'.union.members = row.union.members ∧ row'.union.tmp_rt = row.union.tmp_rt ∧ row'.ptr.firstStep = row.ptr.firstStep

theorem SameCfg.toC {row row' : URow} (h : SameCfg row row') : SameCfgC row row' := by
  obtain ⟨a0, a1, a2, a3, a4, a5, a6, a7, a8, a9, _⟩ := h
  exact ⟨a0, a1, a2, a3, a4, a5, a6, a7, a8, a9⟩

theorem SameCfg.refl (row : URow) : SameCfg row row := ⟨rfl, rfl, rfl, rfl, rfl, rfl, rfl, rfl, rfl, rfl, rfl, rfl⟩
theorem SameCfg.trans {r1 r2 r3 : URow} (h1 : SameCfg r1 r2) (h2 : SameCfg r2 r3) : SameCfg r1 r3 := by
  obtain ⟨a0, a1, a2, a3, a4, a5, a6, a7, a8, a9, a10, a11⟩ := h1
  obtain ⟨b0, b1, b2, b3, b4, b5, b6, b7, b8, b9, b10, b11⟩ := h2
  exact ⟨b0.trans a0, b1.trans a1, b2.trans a2, b3.trans a3, b4.trans a4, b5.trans a5, b6.trans a6, b7.trans a7,
    b8.trans a8, b9.trans a9, b10.trans a10, b11.trans a11⟩
theorem SameCfgC.trans {r1 r2 r3 : URow} (h1 : SameCfgC r1 r2) (h2 : SameCfgC r2 r3) : SameCfgC r1 r3 := by
  obtain ⟨a0, a1, a2, a3, a4, a5, a6, a7, a8, a9⟩ := h1
  obtain ⟨b0, b1, b2, b3, b4, b5, b6, b7, b8, b9⟩ := h2
  exact ⟨b0.trans a0, b1.trans a1, b2.trans a2, b3.trans a3, b4.trans a4, b5.trans a5, b6.trans a6, b7.trans a7,
    b8.trans a8, b9.trans a9⟩

theorem CfgLeaf.sameC {row row' : URow} {base k M} (h : CfgLeaf row base k M) (hs : SameCfgC row row') :
    CfgLeaf row' base k M := by
  obtain ⟨a0, a1, a2, a3, a4, a5, a6, a7, a8, a9⟩ := hs
  cases M <;> simp_all [CfgLeaf]

theorem CfgBare.sameC {ts : Types} {a : Atlas} {row row' : URow} {base k M} (h : CfgBare ts a row base k M)
    (hs : SameCfgC row row') : CfgBare ts a row' base k M := by
  cases M with
  | wildcard => exact h
  | transform fn uty =>
    obtain ⟨h1, h2, h3, k', h4, h5⟩ := h
    obtain ⟨a0, a1, a2, a3, a4, a5, a6, a7, a8, a9⟩ := hs
    exact ⟨h1, a6.trans h2, a7.trans h3, k', a8.trans h4, h5.sameC ⟨a0, a1, a2, a3, a4, a5, a6, a7, a8, a9⟩⟩
  | union ms => exact ⟨h.1, hs.2.2.2.2.2.2.2.2.2.trans h.2⟩
  | _ => simp only [CfgBare] at h ⊢; exact CfgLeaf.sameC h hs

theorem CfgLeaf.same {row row' : URow} {base k M} (h : CfgLeaf row base k M) (hs : SameCfg row row') :
    CfgLeaf row' base k M := h.sameC hs.toC

theorem CfgBare.same {ts : Types} {a : Atlas} {row row' : URow} {base k M} (h : CfgBare ts a row base k M)
    (hs : SameCfg row row') : CfgBare ts a row' base k M := h.sameC hs.toC

/-- the machines that lend a row (`slab.tip()`, possibly their own) to a delegate they configure there -/
def borrows : UMach → Bool
  | .union _ | .wildcard => true
  | _ => false

variable (ts : Types) (a : Atlas) (trs : Trs) (it : IfaceTys)

theorem CfgV.sameC {row row' : URow} {id ck} (h : CfgV ts a row id ck) (hs : SameCfgC row row') :
    CfgV ts a row' id ck := by
  obtain ⟨k, hb, hp⟩ := h
  refine ⟨k, hb.sameC hs, ?_⟩
  rw [hs.1, hs.2.1]; exact hp

theorem CfgV.same {row row' : URow} {id ck} (h : CfgV ts a row id ck) (hs : SameCfg row row') :
    CfgV ts a row' id ck := CfgV.sameC ts a h hs.toC

/-- Reset the leaf `m` (below the same-row wrappers of `c`), then pump with `c` current -/
def rtpB (fr sf1 sf : Nat) (R : List URow) (stk : List URef) (be : Option XFail) (c m : URef) (id : Nat) (cur : Val) :
    List Tok → URes
  | [] => .more 0
  | t :: rest =>
    match resetM ts a fr m id cur R with
    | .error x => x.toURes
    | .ok R1 => pump1 ts a trs it sf1 sf ⟨R1, stk, some c, be⟩ (t :: rest)

theorem rtp_eq (fr sf1 sf R stk be c id cur toks) :
    rtp ts a trs it fr sf1 sf R stk be c id cur toks = rtpB ts a trs it fr sf1 sf R stk be c c id cur toks := by
  cases toks <;> rfl

/-- what must survive of the configuration of a row that its machine (union, wildcard) lends to a delegate -/
def SameCfgW (row row' : URow) : Prop :=
  row'.ptr.mach = row.ptr.mach ∧ row'.ptr.peelCount = row.ptr.peelCount ∧ row'.union.members = row.union.members

theorem SameCfg.weak {row row' : URow} (h : SameCfg row row') : SameCfgW row row' := ⟨h.1, h.2.1, h.2.2.2.2.2.2.2.2.2.1⟩
theorem SameCfgW.trans {r1 r2 r3 : URow} (h1 : SameCfgW r1 r2) (h2 : SameCfgW r2 r3) : SameCfgW r1 r3 :=
  ⟨h2.1.trans h1.1, h2.2.1.trans h1.2.1, h2.2.2.trans h1.2.2⟩

theorem SameCfgC.weak {row row' : URow} (h : SameCfgC row row') : SameCfgW row row' := ⟨h.1, h.2.1, h.2.2.2.2.2.2.2.2.2⟩

/-- three levels: `none` below a chain (`SameCfg`), `some false` for a machine with its own row (`SameCfgC`),
    `some true` for a machine that may have lent its row (`SameCfgW`) -/
def Keep : Option Bool → URow → URow → Prop
  | none => SameCfg
  | some false => SameCfgC
  | some true => SameCfgW

theorem Keep.weak {b : Option Bool} {row row' : URow} (h : SameCfg row row') : Keep b row row' := by
  rcases b with _ | _ | _
  · exact h
  · exact h.toC
  · exact h.weak

theorem Keep.ofC {b : Bool} {row row' : URow} (h : SameCfgC row row') : Keep (some b) row row' := by
  cases b
  · exact h
  · exact h.weak

theorem Keep.pre {b : Bool} {r0 r r' : URow} (h0 : SameCfgC r0 r) (h : Keep (some b) r r') : Keep (some b) r0 r' := by
  cases b
  · exact SameCfgC.trans h0 h
  · exact SameCfgW.trans h0.weak h

/-- the driver after the leaf below chain `c` reported done: with a union machine (row `i`) in the chain nothing is
    reported; the union machine goes to its last phase -/
def kontU (un : Option Nat) (c : URef) (fa sf : Nat) (be : Option XFail) (stk : List URef) (v : Val) (R : List URow)
    (rest : List Tok) : URes :=
  match un with
  | none => kont ts a trs it fa sf be stk v R rest
  | some i => (pump ts a trs it sf ⟨updRow R i (closeU v), stk, some c, be⟩ rest).shift 1

@[simp] theorem kontU_none (c fa sf be stk v R rest) :
    kontU ts a trs it none c fa sf be stk v R rest = kont ts a trs it fa sf be stk v R rest := rfl

/-- run `x` of the stateful model against result `r` of the functional one; the machine lives in row `lo.length` -/
def Agree (b : Option Bool) (un : Option Nat) (c : URef) (sf : Nat) (be : Option XFail) (stk : List URef) (lo : List URow)
    (row : URow) (F : Val → Option Val) (w : Val → Val) (x r : URes) : Prop :=
  match r with
  | .panic _ => True
  | .more u => x = .more u
  | .err u => x = .err u
  | .ok v rest u => 1 ≤ u ∧
      match F v with
      | some v' => ∃ row' hi' fa, Keep b row row' ∧ 4 ≤ fa ∧
          x = (kontU ts a trs it un c fa sf be stk (w v') (lo ++ row' :: hi') rest).shift (u - 1)
      | none => x = .err (u - 1)

theorem CfgV.keep {row row' : URow} {id ck} (h : CfgV ts a row id ck)
    (hs : Keep (some (borrows (upickBare ts a (peel ts 64 0 id).2))) row row') : CfgV ts a row' id ck := by
  obtain ⟨k, hb, hp⟩ := h
  cases hM : upickBare ts a (peel ts 64 0 id).2 with
  | union ms =>
    rw [hM] at hs hb
    have hs' : SameCfgW row row' := hs
    refine ⟨k, ?_, ?_⟩
    · rw [hM]; exact ⟨hb.1, hs'.2.2.trans hb.2⟩
    · rw [hs'.1, hs'.2.1]; exact hp
  | wildcard =>
    rw [hM] at hs hb
    have hs' : SameCfgW row row' := hs
    refine ⟨k, ?_, ?_⟩
    · rw [hM]; exact hb
    · rw [hs'.1, hs'.2.1]; exact hp
  | _ =>
    rw [hM] at hs
    exact CfgV.sameC ts a ⟨k, hb, hp⟩ hs

def SimV (S : List Nat) (n : Nat) : Prop :=
  ∀ id ∈ S, ∀ (cur : Val) (lo : List URow) (row : URow) (hi : List URow) (stk : List URef) (be : Option XFail) (ck : MK)
    (toks : List Tok) (fr sf1 sf : Nat), CfgV ts a row id ck → 8 ≤ fr → 11 ≤ sf1 → 17 ≤ sf →
    Agree ts a trs it (some (borrows (upickBare ts a (peel ts 64 0 id).2))) none ⟨0, .prim⟩ sf be stk lo row some _root_.id
      (rtp ts a trs it fr sf1 sf (lo ++ row :: hi) stk be ⟨lo.length, ck⟩ id cur toks) (unmV ts a trs it n id cur toks)

def SimB (S : List Nat) (wi : Option Nat) (n : Nat) : Prop :=
  ∀ base, okMach ts a S wi (upickBare ts a base) →
    ∀ (cur : Val) (lo : List URow) (row : URow) (hi : List URow) (stk : List URef) (be : Option XFail) (c : URef) (k : MK)
    (w : Val → Val) (d : Nat) (toks : List Tok) (fr sf1 sf : Nat),
    CfgBare ts a row base k (upickBare ts a base) → WrP c lo row k w d → 7 ≤ fr → 10 ≤ sf1 → 17 ≤ sf →
    Agree ts a trs it (some (borrows (upickBare ts a base))) none c sf be stk lo row some w
      (rtpB ts a trs it fr sf1 sf (lo ++ row :: hi) stk be c ⟨lo.length, k⟩ base cur toks)
      (unmBare ts a trs it n base (upickBare ts a base) cur toks)

variable {ts a trs it}

/-- what a wrapper does to the functional model's result -/
def mapV (g : Val → Val) : URes → URes
  | .ok v rest u => .ok (g v) rest u
  | y => y

/-- from the bare result to the pointer machine's -/
theorem Agree.toV {b : Bool} {un c sf be stk lo row row0 g x r}
    (h : Agree ts a trs it (some b) un c sf be stk lo row some g x r) (hr : SameCfgC row0 row) :
    Agree ts a trs it (some b) un c sf be stk lo row0 some id x (mapV g r) := by
  cases r with
  | ok v rest u =>
    obtain ⟨h3, row', hi', fa, h1, h2, h4⟩ := h
    exact ⟨h3, row', hi', fa, Keep.pre hr h1, h2, h4⟩
  | more u => exact h
  | err u => exact h
  | panic u => trivial

/-- change of the row relation -/
theorem Agree.rekeep {b b' un c sf be stk lo row row2 F w x r} (h : Agree ts a trs it b un c sf be stk lo row2 F w x r)
    (hk : ∀ r', Keep b row2 r' → Keep b' row r') : Agree ts a trs it b' un c sf be stk lo row F w x r := by
  cases r with
  | ok v rest u =>
    obtain ⟨h1, h2⟩ := h
    refine ⟨h1, ?_⟩
    cases hF : F v with
    | none => rw [hF] at h2; exact h2
    | some v' =>
      rw [hF] at h2
      obtain ⟨row', hi', fa, k1, k2, k3⟩ := h2
      exact ⟨row', hi', fa, hk _ k1, k2, k3⟩
  | more u => exact h
  | err u => exact h
  | panic u => trivial

/-- a result with the full configuration kept is one with what a lending machine keeps -/
theorem Agree.weakB {b un c sf be stk lo row F w x r} (h : Agree ts a trs it none un c sf be stk lo row F w x r) :
    Agree ts a trs it b un c sf be stk lo row F w x r := by
  cases r with
  | ok v rest u =>
    obtain ⟨h1, h2⟩ := h
    refine ⟨h1, ?_⟩
    cases hF : F v with
    | none => rw [hF] at h2; exact h2
    | some v' =>
      rw [hF] at h2
      obtain ⟨row', hi', fa, k1, k2, k3⟩ := h2
      exact ⟨row', hi', fa, Keep.weak k1, k2, k3⟩
  | more u => exact h
  | err u => exact h
  | panic u => trivial

end Refmt.UMachU
