/-
  Simulation lemma for the transform machine (its delegate lives in the same row).
-/
import RefmtProofs.Lemmas.MarshalMachSimA
import RefmtProofs.Lemmas.MarshalMachFun
open Refmt Refmt.Obj Refmt.Obj.MM
set_option linter.unusedVariables false
set_option linter.unusedSimpArgs false

namespace Refmt.MachL

variable {ts : Types} {a : Atlas} {trs : Trs}

/-- the transform machine's tagging of one token -/
def rtag (tag : Option Int) (t : Tok) : Tok :=
  match tag with
  | some g => { t with tag := some g }
  | none => t

theorem retagFirst_fail (tag : Option Int) (r : MOut) : (retagFirst tag r).fail = r.fail := by
  unfold retagFirst; split <;> rfl

theorem retagFirst_cons {tag : Option Int} {r : MOut} {t1 rest} (h : r.toks = t1 :: rest) :
    (retagFirst tag r).toks = rtag tag t1 :: rest := by
  unfold retagFirst rtag
  cases tag <;> simp [h]

theorem retagFirst_nil {tag : Option Int} {r : MOut} (h : r.toks = []) : retagFirst tag r = r := by
  unfold retagFirst
  cases tag <;> simp [h]

theorem retagFirst_nil_iff (tag : Option Int) (r : MOut) : (retagFirst tag r).toks = [] ↔ r.toks = [] := by
  cases h : r.toks with
  | nil => rw [retagFirst_nil h]; simp [h]
  | cons t rest => rw [retagFirst_cons h]; simp

/-- what the transform machine does to its row at the first step: `first := false` if tagged -/
def clearFirst (r : Row) : Row :=
  match r.transform.tag with
  | some _ => { r with transform := { r.transform with first := false } }
  | none => r

theorem stepM_transform_at {n lo row hi st cur be} :
    stepM ts a trs (n+1) ⟨lo.length, .transform⟩ ⟨lo ++ row :: hi, st, cur, be⟩ =
      stepTransform (stepM ts a trs n) ⟨lo.length, .transform⟩ row ⟨lo ++ row :: hi, st, cur, be⟩ := by
  simp only [stepM_at, stepBody, getRow]

/-- past the first step (or untagged) the transform machine passes its delegate's step on -/
theorem stepT_pass {n lo row hi st cur be kd row'' hi'' st'' cur'' be'' t dn}
    (hd : row.transform.delegate = some kd)
    (hs : stepM ts a trs n ⟨lo.length, kd⟩ ⟨lo ++ row :: hi, st, cur, be⟩ =
      .ok ⟨t, dn, ⟨lo ++ row'' :: hi'', st'', cur'', be''⟩⟩)
    (hf : row''.transform.first = false ∨ row''.transform.tag = none) :
    stepM ts a trs (n+1) ⟨lo.length, .transform⟩ ⟨lo ++ row :: hi, st, cur, be⟩ =
      .ok ⟨t, dn, ⟨lo ++ row'' :: hi'', st'', cur'', be''⟩⟩ := by
  rw [stepM_transform_at]
  simp only [stepTransform, hd, hs, getRow]
  rcases hf with h | h
  · simp [h]
  · cases hfi : row''.transform.first <;> simp [h, hfi]

/-- the first step: the token gets the tag, `first` is cleared -/
theorem stepT_first {n lo row hi st cur be kd row'' hi'' st'' cur'' t dn}
    (hd : row.transform.delegate = some kd)
    (hs : stepM ts a trs n ⟨lo.length, kd⟩ ⟨lo ++ row :: hi, st, cur, be⟩ =
      .ok ⟨t, dn, ⟨lo ++ row'' :: hi'', st'', cur'', be⟩⟩)
    (hf : row''.transform.first = true) :
    stepM ts a trs (n+1) ⟨lo.length, .transform⟩ ⟨lo ++ row :: hi, st, cur, be⟩ =
      .ok ⟨rtag row''.transform.tag t, dn, ⟨lo ++ clearFirst row'' :: hi'', st'', cur'', be⟩⟩ := by
  rw [stepM_transform_at]
  simp only [stepTransform, hd, hs, getRow, hf]
  cases htag : row''.transform.tag with
  | none => simp [rtag, clearFirst, htag]
  | some g => simp [rtag, clearFirst, htag, upd_at]

theorem setWm_tr_own (b1 b3 : Bool) (w : WVal) (r : Row) : (setWm (b1, false, b3) w r).transform = r.transform := rfl

theorem setWm_via_tr (b1 b3 : Bool) (w : WVal) (r : Row) (T : TransM) :
    setWm (b1, true, b3) (getW (setWm (b1, false, b3) w { r with transform := T })) r =
      setWm (b1, false, b3) w { r with transform := T } := by
  cases b1 <;> cases b3 <;> rfl

theorem agreeW_tr_le {p1 p3 : Bool} {r r' : Row} (h : agreeW (p1, true, p3) r r') : agreeW (p1, false, p3) r r' :=
  h.of_le ⟨fun x => x, fun x => (by cases x), fun x => x⟩

/-- the configuration part of the transform machine -/
def TCfg (fn mty : Nat) (kd : MK) (tag : Option Int) (T : TransM) : Prop :=
  T.trFunc = fn ∧ T.mty = mty ∧ T.delegate = some kd ∧ T.tag = tag

theorem clearFirst_eq (r : Row) : ∃ T, clearFirst r = { r with transform := T } ∧
    (T.first = false ∨ T.tag = none) ∧ T.trFunc = r.transform.trFunc ∧ T.mty = r.transform.mty ∧
    T.delegate = r.transform.delegate ∧ T.tag = r.transform.tag := by
  unfold clearFirst
  cases h : r.transform.tag with
  | none => exact ⟨r.transform, rfl, Or.inr h, rfl, rfl, rfl, h⟩
  | some g => exact ⟨{ r.transform with first := false }, rfl, Or.inl rfl, rfl, rfl, rfl, h⟩

theorem sim_transform {p1 p3 b1 b3 : Bool} {Q Qd : Row → Prop} {L row hi rt v fn mty kd tag} {rin : Val → MOut}
    (hcl : Clean (row :: hi)) (hcfg : TCfg fn mty kd tag row.transform)
    (hsim : ∀ tv, trs.m fn v = some tv →
      Sim ts a trs (p1, true, p3) (b1, true, b3) Qd L { row with transform := { row.transform with first := true } } hi
        ⟨L, kd⟩ mty tv (rin tv))
    (hq : ∀ r2 : Row, Qd r2 → TCfg fn mty kd tag r2.transform → Q r2)
    (hqd : ∀ (r2 : Row) (T : TransM), Qd r2 → Qd { r2 with transform := T }) :
    Sim ts a trs (p1, false, p3) (b1, false, b3) Q L row hi ⟨L, .transform⟩ rt v
      (match trs.m fn v with
       | none => .bad .err
       | some tv => retagFirst tag (rin tv)) := by
  obtain ⟨hfn, hmty, hdel, htag⟩ := hcfg
  cases htv : trs.m fn v with
  | none =>
    refine ⟨fun e _ he => ⟨1, fun lo hl => ?_⟩, fun h => absurd ⟨rfl, by simp [MOut.bad]⟩ h⟩
    cases he
    subst hl
    simp [resetM_at, resetBody, getRow, resetTransform, hfn, htv]
  | some tv =>
    simp only
    obtain ⟨hs1, hs2⟩ := hsim tv htv
    have hreset : ∀ (lo : List Row) n, lo.length = L → resetM ts a trs (n+1) ⟨L, .transform⟩ rt v (lo ++ row :: hi) =
        resetM ts a trs n ⟨L, kd⟩ mty tv
          (lo ++ { row with transform := { row.transform with first := true } } :: hi) := by
      intro lo n hl; subst hl
      simp [resetM_at, resetBody, getRow, resetTransform, hfn, htv, hdel, hmty, updRow_at]
    refine ⟨fun e h1 h2 => ?_, fun hne => ?_⟩
    · rw [retagFirst_nil_iff] at h1
      rw [retagFirst_fail] at h2
      obtain ⟨n, hn⟩ := hs1 e h1 h2
      exact ⟨n+1, fun lo hl => by rw [hreset lo n hl, hn lo hl]⟩
    · rw [retagFirst_nil_iff, retagFirst_fail] at hne
      obtain ⟨n, row1, hi1, hr, hag1, hq1, hc1, hrun⟩ := hs2 hne
      have ht1 : row1.transform = { row.transform with first := true } := hag1.2.1 rfl
      have hcfg1 : TCfg fn mty kd tag row1.transform := by rw [ht1]; exact ⟨hfn, hmty, hdel, htag⟩
      refine ⟨n+1, row1, hi1, fun lo hl => by rw [hreset lo n hl, hr lo hl],
        ⟨hag1.1, fun h => (by cases h), hag1.2.2⟩, hq _ hq1 hcfg1, hc1, fun lo hl => ?_⟩
      intro w cur st be
      obtain ⟨n1, t1, done1, rowA, hiA, hst, hagA, hdone, hnd⟩ :=
        hrun lo hl (getW (setWm (b1, false, b3) w row1)) cur st be
      subst hl
      have hX : setWm (b1, true, b3) (getW (setWm (b1, false, b3) w row1)) row1 = setWm (b1, false, b3) w row1 :=
        setWm_via_tr b1 b3 w row1 row1.transform
      rw [hX] at hst hagA
      have htA : rowA.transform = { row.transform with first := true } := by
        rw [hagA.2.1 rfl, setWm_tr_own, ht1]
      have hdelX : (setWm (b1, false, b3) w row1).transform.delegate = some kd := by
        rw [setWm_tr_own, ht1]; exact hdel
      have hfirst := stepT_first hdelX hst (by rw [htA])
      have htagA : rowA.transform.tag = tag := by rw [htA]; exact htag
      rw [htagA] at hfirst
      obtain ⟨T, hcf, hTp, hT1, hT2, hT3, hT4⟩ := clearFirst_eq rowA
      have hcfgT : TCfg fn mty kd tag T := by
        refine ⟨by rw [hT1, htA]; exact hfn, by rw [hT2, htA]; exact hmty, by rw [hT3, htA]; exact hdel,
          by rw [hT4, htagA]⟩
      refine ⟨n1+1, rtag tag t1, done1, clearFirst rowA, hiA, hfirst, ?_, fun h => ?_, fun h => ?_⟩
      · rw [hcf]; exact ⟨hagA.1, fun h => (by cases h), hagA.2.2⟩
      · obtain ⟨x1, x2, x3⟩ := hdone h
        rw [hcf]
        refine ⟨?_, hq _ (hqd _ _ x2) hcfgT, Clean.cons x3.head x3.tail⟩
        rw [x1]; cases tag <;> rfl
      · obtain ⟨rest, x1, x2⟩ := hnd h
        refine ⟨rest, retagFirst_cons x1, fun w' hp => ?_⟩
        rw [retagFirst_fail]
        rw [hcf] at hp ⊢
        have hY := setWm_via_tr b1 b3 w' rowA T
        have hYt : (setWm (b1, false, b3) w' { rowA with transform := T }).transform = T := rfl
        have hp' : Pass ts a trs cur ⟨lo.length, kd⟩ lo (p1, true, p3)
            (setWm (b1, false, b3) w' { rowA with transform := T }) := by
          refine ⟨fun row' hi' st' be' n' res hag hs hnd' hshape => ?_, fun row' hi' st' be' n' e hag hs => ?_⟩
          · obtain ⟨row'', hi'', hrows, hag''⟩ := hshape
            obtain ⟨tk', dn', st2⟩ := res
            obtain ⟨R2, stk2, cur2, be2⟩ := st2
            simp only at hrows hnd'
            subst hrows hnd'
            refine hp.1 row' hi' st' be' (n'+1) _ (agreeW_tr_le hag) ?_ rfl ⟨row'', hi'', rfl, agreeW_tr_le hag''⟩
            refine stepT_pass (by rw [hag.2.1 rfl, hYt]; exact hcfgT.2.2.1) hs ?_
            rw [hag''.2.1 rfl, hYt]; exact hTp
          · refine hp.2 row' hi' st' be' (n'+1) e (agreeW_tr_le hag) ?_
            rw [stepM_transform_at]
            simp only [stepTransform, (by rw [hag.2.1 rfl, hYt]; exact hcfgT.2.2.1 : row'.transform.delegate = some kd), hs]
        have hR := x2 (getW (setWm (b1, false, b3) w' { rowA with transform := T })) (by rw [hY]; exact hp')
        rw [hY] at hR
        unfold Rest at hR ⊢
        cases hf : (rin tv).fail with
        | some e => simp only [hf] at hR ⊢; exact hR
        | none =>
          simp only [hf] at hR ⊢
          obtain ⟨mid, last, rowM, hiM, row2, hi2, n2, y1, y2, y3, y4, y5, y6, y7⟩ := hR
          refine ⟨mid, last, rowM, hiM, row2, hi2, n2+1, y1, y2, agreeW_tr_le y3, ?_, agreeW_tr_le y5,
            hq _ y6 (by rw [y5.2.1 rfl, hYt]; exact hcfgT), y7⟩
          refine stepT_pass (by rw [y3.2.1 rfl, hYt]; exact hcfgT.2.2.1) y4 ?_
          rw [y5.2.1 rfl, hYt]; exact hTp
