/-
  Whole-table check of `halfToFloatBits` + float32→float64 widening against the
  IEEE 754 binary16 definition, evaluated by the kernel over all 65 536 patterns.
-/
import RefmtModel.Spec.Cbor
namespace Refmt.HalfTable
open Refmt

def eqAt (h : Nat) : Bool := f32to64 (halfToFloatBits h) == Spec.Cbor.halfToF64 h

/-- check `eqAt` on `[a, a + 2^k)` by binary splitting (recursion depth `k`). -/
def chk : Nat → Nat → Bool
  | 0, a => eqAt a
  | k+1, a => chk k a && chk k (a + 2 ^ k)

theorem chk_sound : ∀ (k a : Nat), chk k a = true → ∀ h, a ≤ h → h < a + 2 ^ k → eqAt h = true
  | 0, a, hc, h, h1, h2 => by
    have : h = a := by omega
    subst this; simpa [chk] using hc
  | k+1, a, hc, h, h1, h2 => by
    simp only [chk, Bool.and_eq_true] at hc
    by_cases hlt : h < a + 2 ^ k
    · exact chk_sound k a hc.1 h h1 hlt
    · have hp : 2 ^ (k+1) = 2 ^ k + 2 ^ k := by rw [Nat.pow_succ]; omega
      exact chk_sound k (a + 2 ^ k) hc.2 h (by omega) (by omega)

theorem table : chk 16 0 = true := by decide +kernel

theorem half_exact (h : Nat) (hh : h < 65536) :
    f32to64 (halfToFloatBits h) = Spec.Cbor.halfToF64 h := by
  have := chk_sound 16 0 table h (Nat.zero_le _) (by simpa using hh)
  simpa [eqAt] using this

end Refmt.HalfTable
