import RefmtProofs.Lemmas.CborMachine
set_option linter.unusedSimpArgs false
set_option linter.unusedVariables false
namespace Refmt.C04
open Refmt Refmt.CborDec Refmt.Spec.Cbor
open Refmt.CborEnc (majUint majNeg majBytes majStr majArr majMap majTag sigFalse sigTrue sigNil sigUndef sigF16 sigF32 sigF64 sigIndefBytes sigIndefStr sigIndefArr sigIndefMap sigBreak)

/-! ### `run` without the step / allocation counters -/

abbrev Res := List Tok × Except Err Unit × Rd

/-- the done/pop post-processing of `Decoder.Step` -/
def post (o : Out) : Out :=
  match o.ret with
  | .err _ => o
  | .tok _ false => o
  | .tok t true =>
    match o.st.stack with
    | [] => o
    | [_] => o
    | p :: rest => { o with st := { o.st with phase := p, stack := rest }, ret := .tok t false }

theorem step_eq (coerce : Bool) (s : St) (rd : Rd) : step coerce s rd = post (subStep coerce s rd) := rfl

def run' (coerce : Bool) : Nat → St → Rd → List Tok → Res
  | 0, _, rd, acc => (acc.reverse, .error .other, rd)
  | g+1, s, rd, acc =>
    let o := step coerce s rd
    match o.ret with
    | .err e => (acc.reverse, .error e, o.rd)
    | .tok t true => ((t :: acc).reverse, .ok (), o.rd)
    | .tok t false => run' coerce g o.st o.rd (t :: acc)

theorem run_eq (coerce : Bool) : ∀ (g : Nat) (s : St) (rd : Rd) (acc : List Tok) (st al : Nat),
    ((run coerce g s rd acc st al).toks, (run coerce g s rd acc st al).res, (run coerce g s rd acc st al).rd)
      = run' coerce g s rd acc
  | 0, s, rd, acc, st, al => rfl
  | g+1, s, rd, acc, st, al => by
    rw [run, run']
    cases h : (step coerce s rd).ret with
    | err e => rfl
    | tok t d =>
      cases d with
      | true => rfl
      | false => exact run_eq coerce g _ _ _ _ _

/-- continue a run after a step that produced `o` -/
def cont (coerce : Bool) (g : Nat) (o : Out) (acc : List Tok) : Res :=
  match o.ret with
  | .err e => (acc.reverse, .error e, o.rd)
  | .tok t true => ((t :: acc).reverse, .ok (), o.rd)
  | .tok t false => run' coerce g o.st o.rd (t :: acc)

theorem run'_succ (coerce : Bool) (g : Nat) (s : St) (rd : Rd) (acc : List Tok) :
    run' coerce (g+1) s rd acc = cont coerce g (step coerce s rd) acc := rfl

def isErr (x : Res) : Prop := ∃ e, x.2.1 = .error e

theorem run'_mono (coerce : Bool) : ∀ (g : Nat) (s : St) (rd : Rd) (acc : List Tok) (t : List Tok) (rd' : Rd),
    run' coerce g s rd acc = (t, .ok (), rd') → run' coerce (g+1) s rd acc = (t, .ok (), rd')
  | 0, s, rd, acc, t, rd', h => by simp [run'] at h
  | g+1, s, rd, acc, t, rd', h => by
    rw [run'] at h ⊢
    cases hr : (step coerce s rd).ret with
    | err e => rw [hr] at h; simp at h
    | tok tk d =>
      rw [hr] at h
      cases d with
      | true => exact h
      | false => exact run'_mono coerce g _ _ _ _ _ h

theorem err_down (coerce : Bool) (g k : Nat) (s : St) (rd : Rd) (acc : List Tok)
    (h : isErr (run' coerce (g+k) s rd acc)) : isErr (run' coerce g s rd acc) := by
  induction k with
  | zero => exact h
  | succ k ih =>
    apply ih
    rcases hx : run' coerce (g+k) s rd acc with ⟨t, res, rd'⟩
    cases res with
    | error e => exact ⟨e, rfl⟩
    | ok u =>
      have := run'_mono coerce _ _ _ _ _ _ hx
      obtain ⟨e, he⟩ := h
      rw [show g + (k+1) = g + k + 1 by omega, this] at he
      simp at he

theorem isErr_zero (coerce : Bool) (s : St) (rd : Rd) (acc : List Tok) : isErr (run' coerce 0 s rd acc) :=
  ⟨_, rfl⟩

theorem cont_err (coerce : Bool) (g : Nat) (o : Out) (acc : List Tok) (e : Err) (h : o.ret = .err e) :
    isErr (cont coerce g o acc) := by
  unfold cont; rw [h]; exact ⟨e, rfl⟩

theorem post_err (o : Out) (e : Err) (h : o.ret = .err e) : post o = o := by
  unfold post; rw [h]

theorem inContainer_err (o : Out) (e : Err) (h : o.ret = .err e) : inContainer o = o := by
  unfold inContainer; rw [h]

theorem post_inContainer (o : Out) : post (inContainer o) = inContainer o := by
  unfold inContainer
  cases h : o.ret with
  | err e => simp only; unfold post; rw [h]
  | tok t d => simp only; unfold post; rfl

/-! ### Contexts in which the machine accepts a value inside a container -/

def decHead : List Nat → List Nat
  | (n+1) :: l => n :: l
  | l => l

/-- the state after one value has been consumed in (container) state `s` -/
def next (s : St) : St :=
  match s.phase with
  | .acceptValue => s
  | .arrIndef => s
  | .mapIndefKey => { s with phase := .mapIndefVal }
  | .mapIndefVal => { s with phase := .mapIndefKey }
  | .arrDef => { s with left := decHead s.left }
  | .mapDefKey => { s with left := decHead s.left, phase := .mapDefVal }
  | .mapDefVal => { s with phase := .mapDefKey }

/-- `s` is inside a container and expects a value (or, for the indefinite phases, possibly a break) -/
def Acc (s : St) : Prop :=
  s.stack ≠ [] ∧
  match s.phase with
  | .acceptValue => False
  | .arrDef => ∃ n l, s.left = (n+1) :: l
  | .mapDefKey => ∃ n l, s.left = (n+1) :: l
  | _ => True

def breakPhase (p : Phase) : Prop := p = .arrIndef ∨ p = .mapIndefKey ∨ p = .mapIndefVal

theorem step_acc (coerce : Bool) (s : St) (hA : Acc s) (b : Nat) (r : Bytes)
    (hb : b ≠ 0xff ∨ ¬ breakPhase s.phase) :
    step coerce s ⟨b :: r, none, 0⟩ = inContainer (acceptValue coerce (next s) ⟨r, none, 0⟩ b none 1) := by
  rw [step_eq]
  obtain ⟨stk, ph, lf⟩ := s
  obtain ⟨hs, hp⟩ := hA
  cases ph with
  | acceptValue => exact absurd hp (by simp)
  | arrIndef =>
    have hb' : ¬ (b == sigBreak) = true := by
      rcases hb with hb | hb
      · simpa [sigBreak] using hb
      · exact absurd (Or.inl rfl) hb
    simp only [subStep, withMajor, read1_cons, next]
    rw [if_neg hb', post_inContainer]
  | mapIndefKey =>
    have hb' : ¬ (b == sigBreak) = true := by
      rcases hb with hb | hb
      · simpa [sigBreak] using hb
      · exact absurd (Or.inr (Or.inl rfl)) hb
    simp only [subStep, withMajor, read1_cons, next]
    rw [if_neg hb', post_inContainer]
  | mapIndefVal =>
    have hb' : ¬ (b == sigBreak) = true := by
      rcases hb with hb | hb
      · simpa [sigBreak] using hb
      · exact absurd (Or.inr (Or.inr rfl)) hb
    simp only [subStep, withMajor, read1_cons, next]
    rw [if_neg hb', post_inContainer]
  | arrDef =>
    obtain ⟨n, l, hl⟩ := hp
    simp only at hl
    subst hl
    simp only [subStep, withMajor, read1_cons, next, decHead]
    rw [post_inContainer]
  | mapDefKey =>
    obtain ⟨n, l, hl⟩ := hp
    simp only at hl
    subst hl
    simp only [subStep, withMajor, read1_cons, next, decHead]
    rw [post_inContainer]
  | mapDefVal =>
    simp only [subStep, withMajor, read1_cons, next]
    rw [post_inContainer]

theorem step_nil (coerce : Bool) (s : St) (hA : Acc s ∨ s.phase = .acceptValue) :
    ∃ e, (step coerce s ⟨[], none, 0⟩).ret = .err e := by
  rw [step_eq]
  obtain ⟨stk, ph, lf⟩ := s
  cases ph with
  | acceptValue => exact ⟨.eof, by simp [subStep, withMajor, read1_nil, post]⟩
  | arrIndef => exact ⟨.eof, by simp [subStep, withMajor, read1_nil, post]⟩
  | mapIndefKey => exact ⟨.eof, by simp [subStep, withMajor, read1_nil, post]⟩
  | mapIndefVal => exact ⟨.eof, by simp [subStep, withMajor, read1_nil, post]⟩
  | mapDefVal => exact ⟨.eof, by simp [subStep, withMajor, read1_nil, post]⟩
  | arrDef =>
    rcases hA with hA | hA
    · obtain ⟨n, l, hl⟩ := hA.2
      simp only at hl
      subst hl
      exact ⟨.eof, by simp [subStep, withMajor, read1_nil, post]⟩
    · simp at hA
  | mapDefKey =>
    rcases hA with hA | hA
    · obtain ⟨n, l, hl⟩ := hA.2
      simp only at hl
      subst hl
      exact ⟨.eof, by simp [subStep, withMajor, read1_nil, post]⟩
    · simp at hA

def B256 (bs : Bytes) : Prop := ∀ x ∈ bs, x < 256

theorem B256.rest {bs r : Bytes} {n : Nat} (h : B256 bs) (hr : Rest bs r n) : B256 r := by
  obtain ⟨u, hu⟩ := hr.1
  intro x hx
  exact h x (by rw [← hu]; simp [hx])

theorem B256.head {b : Nat} {r : Bytes} (h : B256 (b :: r)) : b < 256 := h b (by simp)
theorem B256.tail {b : Nat} {r : Bytes} (h : B256 (b :: r)) : B256 r := fun x hx => h x (by simp [hx])

/-- number of tokens of a value, minus one -/
def cntm : TV → Nat
  | .scalar _ => 0
  | .arr _ _ items => (TV.flattenList items).length + 1
  | .map _ _ es => (TV.flattenEntries es).length + 1

theorem flatten_len (v : TV) : v.flatten.length = cntm v + 1 := by
  cases v <;> simp [TV.flatten, cntm]

/-- top level: the helper's result is used as is; in a container its `done` is discarded -/
def W (top : Bool) (o : Out) : Out := if top then o else inContainer o

/-- where the machine is once a whole value has been emitted in context `s'` -/
def fin (coerce : Bool) (top : Bool) (s' : St) (g : Nat) (r : Bytes) (acc' : List Tok) : Res :=
  if top then (acc'.reverse, .ok (), ⟨r, none, 0⟩) else run' coerce g s' ⟨r, none, 0⟩ acc'

def CtxOk (top : Bool) (s' : St) : Prop := if top then s'.stack = [] else s'.stack ≠ []

/-- closing an indefinite container that was opened in context `s'` -/
theorem close_indef (coerce : Bool) (top : Bool) (s' : St) (hc : CtxOk top s') (ph : Phase) (ct : Tok)
    (hph : (ph = .arrIndef ∧ ct = ⟨.arrClose, none⟩) ∨ (ph = .mapIndefKey ∧ ct = ⟨.mapClose, none⟩))
    (g : Nat) (r : Bytes) (acc : List Tok) :
    run' coerce (g+1) (push s' ph) ⟨0xff :: r, none, 0⟩ acc = fin coerce top s' g r (ct :: acc) := by
  rw [run'_succ, step_eq]
  obtain ⟨stk, p0, lf⟩ := s'
  cases top with
  | true =>
    simp only [CtxOk, if_true] at hc
    subst hc
    rcases hph with ⟨rfl, rfl⟩ | ⟨rfl, rfl⟩ <;>
      simp [subStep, withMajor, read1_cons, push, sigBreak, post, cont, fin]
  | false =>
    simp only [CtxOk] at hc
    cases stk with
    | nil => simp at hc
    | cons q rest =>
      rcases hph with ⟨rfl, rfl⟩ | ⟨rfl, rfl⟩ <;>
        simp [subStep, withMajor, read1_cons, push, sigBreak, post, cont, fin]

/-- closing a definite container that was opened in context `s'` -/
theorem close_def (coerce : Bool) (top : Bool) (s' : St) (hc : CtxOk top s') (ph : Phase) (ct : Tok)
    (hph : (ph = .arrDef ∧ ct = ⟨.arrClose, none⟩) ∨ (ph = .mapDefKey ∧ ct = ⟨.mapClose, none⟩))
    (g : Nat) (r : Bytes) (acc : List Tok) :
    run' coerce (g+1) ⟨s'.phase :: s'.stack, ph, 0 :: s'.left⟩ ⟨r, none, 0⟩ acc = fin coerce top s' g r (ct :: acc) := by
  rw [run'_succ, step_eq]
  obtain ⟨stk, p0, lf⟩ := s'
  cases top with
  | true =>
    simp only [CtxOk, if_true] at hc
    subst hc
    rcases hph with ⟨rfl, rfl⟩ | ⟨rfl, rfl⟩ <;>
      simp [subStep, post, cont, fin]
  | false =>
    simp only [CtxOk] at hc
    cases stk with
    | nil => simp at hc
    | cons q rest =>
      rcases hph with ⟨rfl, rfl⟩ | ⟨rfl, rfl⟩ <;>
        simp [subStep, post, cont, fin]


theorem next_stack (s : St) : (next s).stack = s.stack := by
  unfold next; cases s.phase <;> rfl

theorem parseItem_ff (coerce : Bool) (f : Nat) (r0 : Bytes) (tag : Option Int) :
    parseItem coerce f (0xff :: r0) tag = none := by
  cases f with
  | zero => simp [parseItem]
  | succ f =>
    rw [parseItem_eq]
    have : headOf coerce (0xff :: r0) = none := by simp [headOf]
    rw [this]; rfl

def ItemA (coerce : Bool) (f : Nat) : Prop :=
  ∀ (b : Nat) (r0 : Bytes) (tag : Option Int) (v : TV) (r : Bytes) (fuel : Nat),
    parseItem coerce f (b :: r0) tag = some (v, r) → B256 (b :: r0) → (tag = none → 1 ≤ fuel) →
    ∀ (top : Bool) (s' : St), CtxOk top s' → ∀ (g : Nat) (acc : List Tok),
      cont coerce (g + cntm v) (post (W top (acceptValue coerce s' ⟨r0, none, 0⟩ b tag fuel))) acc
        = fin coerce top s' g r (v.flatten.reverse ++ acc)

def ItemS (coerce : Bool) (f : Nat) : Prop :=
  ∀ (bs : Bytes) (v : TV) (r : Bytes), parseItem coerce f bs none = some (v, r) → B256 bs →
    ∀ (s : St), Acc s → ∀ (g : Nat) (acc : List Tok),
      run' coerce (g + v.flatten.length) s ⟨bs, none, 0⟩ acc
        = run' coerce g (next s) ⟨r, none, 0⟩ (v.flatten.reverse ++ acc)

def NS (coerce : Bool) (f : Nat) : Prop :=
  ∀ (k : Nat) (bs : Bytes) (vs : List TV) (r : Bytes), parseN coerce f k bs = some (vs, r) → B256 bs →
    ∀ (stk : List Phase), stk ≠ [] → ∀ (l : List Nat) (g : Nat) (acc : List Tok),
      run' coerce (g + (TV.flattenList vs).length) ⟨stk, .arrDef, k :: l⟩ ⟨bs, none, 0⟩ acc
        = run' coerce g ⟨stk, .arrDef, 0 :: l⟩ ⟨r, none, 0⟩ ((TV.flattenList vs).reverse ++ acc)

def ENS (coerce : Bool) (f : Nat) : Prop :=
  ∀ (k : Nat) (bs : Bytes) (es : List (TV × TV)) (r : Bytes), parseEntriesN coerce f k bs = some (es, r) → B256 bs →
    ∀ (stk : List Phase), stk ≠ [] → ∀ (l : List Nat) (g : Nat) (acc : List Tok),
      run' coerce (g + (TV.flattenEntries es).length) ⟨stk, .mapDefKey, k :: l⟩ ⟨bs, none, 0⟩ acc
        = run' coerce g ⟨stk, .mapDefKey, 0 :: l⟩ ⟨r, none, 0⟩ ((TV.flattenEntries es).reverse ++ acc)

def UBS (coerce : Bool) (f : Nat) : Prop :=
  ∀ (bs : Bytes) (vs : List TV) (r : Bytes), parseUntilBreak coerce f bs = some (vs, r) → B256 bs →
    ∀ (stk : List Phase), stk ≠ [] → ∀ (l : List Nat) (g : Nat) (acc : List Tok),
      run' coerce (g + (TV.flattenList vs).length) ⟨stk, .arrIndef, l⟩ ⟨bs, none, 0⟩ acc
        = run' coerce g ⟨stk, .arrIndef, l⟩ ⟨0xff :: r, none, 0⟩ ((TV.flattenList vs).reverse ++ acc)

def EUBS (coerce : Bool) (f : Nat) : Prop :=
  ∀ (bs : Bytes) (es : List (TV × TV)) (r : Bytes), parseEntriesUntilBreak coerce f bs = some (es, r) → B256 bs →
    ∀ (stk : List Phase), stk ≠ [] → ∀ (l : List Nat) (g : Nat) (acc : List Tok),
      run' coerce (g + (TV.flattenEntries es).length) ⟨stk, .mapIndefKey, l⟩ ⟨bs, none, 0⟩ acc
        = run' coerce g ⟨stk, .mapIndefKey, l⟩ ⟨0xff :: r, none, 0⟩ ((TV.flattenEntries es).reverse ++ acc)

theorem itemS_of_itemA (coerce : Bool) (f : Nat) (hA : ItemA coerce f) : ItemS coerce f := by
  intro bs v r h hB s hs g acc
  cases bs with
  | nil => rw [parseItem_nil] at h; simp at h
  | cons b r0 =>
    have hb : b ≠ 0xff := by
      intro he; subst he; rw [parseItem_ff] at h; simp at h
    rw [flatten_len, show g + (cntm v + 1) = (g + cntm v) + 1 by omega, run'_succ, step_acc coerce s hs b r0 (Or.inl hb)]
    have := hA b r0 none v r 1 h hB (fun _ => Nat.le_refl 1) false (next s)
      (by simp only [CtxOk, Bool.false_eq_true, if_false]; rw [next_stack]; exact hs.1) g acc
    simp only [W, Bool.false_eq_true, if_false, post_inContainer, fin] at this
    exact this

def SomeBundle (coerce : Bool) (f : Nat) : Prop :=
  ItemA coerce f ∧ NS coerce f ∧ ENS coerce f ∧ UBS coerce f ∧ EUBS coerce f


theorem post_open (top : Bool) (st : St) (rd : Rd) (t : Tok) :
    post (W top ⟨st, rd, .tok t false, 0⟩) = ⟨st, rd, .tok t false, 0⟩ := by
  cases top <;> simp [W, inContainer, post]

theorem rev_container (a c : Tok) (L acc : List Tok) :
    (a :: (L ++ [c])).reverse ++ acc = c :: (L.reverse ++ a :: acc) := by
  simp

theorem someBundle (coerce : Bool) : ∀ f, SomeBundle coerce f := by
  intro f
  induction f with
  | zero =>
    refine ⟨?_, ?_, ?_, ?_, ?_⟩
    · intro b r0 tag v r fuel h; simp [parseItem] at h
    · intro k bs vs r h; simp [parseN] at h
    · intro k bs vs r h; simp [parseEntriesN] at h
    · intro bs vs r h; simp [parseUntilBreak] at h
    · intro bs vs r h; simp [parseEntriesUntilBreak] at h
  | succ f ih =>
    obtain ⟨ihA, ihN, ihEN, ihUB, ihEUB⟩ := ih
    have ihI := itemS_of_itemA coerce f ihA
    refine ⟨?_, ?_, ?_, ?_, ?_⟩
    · -- ItemA
      intro b r0 tag v r fuel h hB hfuel top s' hc g acc
      rw [parseItem_eq] at h
      have ha := accept_head coerce s' b hB.head r0 hB.tail tag fuel
      cases hh : headOf coerce (b :: r0) with
      | none => rw [hh] at h; simp [itemOf] at h
      | some hd =>
        rw [hh] at h ha
        have hrest := headOf_rest _ _ _ hh
        cases hd with
        | scalar body r1 =>
          simp only [itemOf, Option.some.injEq, Prod.mk.injEq] at h
          obtain ⟨rfl, rfl⟩ := h
          simp only [AcceptRel] at ha
          obtain ⟨al, ha⟩ := ha
          rw [ha]
          cases top with
          | true =>
            simp only [CtxOk, if_true] at hc
            simp [W, post, hc, cont, fin, cntm, TV.flatten]
          | false => simp [W, inContainer, post, cont, fin, cntm, TV.flatten]
        | arrI r1 =>
          simp only [itemOf] at h
          obtain ⟨⟨vs, r'⟩, hp, he⟩ := map_some h
          simp only [Prod.mk.injEq] at he
          obtain ⟨rfl, rfl⟩ := he
          simp only [AcceptRel] at ha
          rw [ha, post_open]
          simp only [cont, cntm, TV.flatten, Head.rest] at hrest ⊢
          rw [show g + ((TV.flattenList vs).length + 1) = (g + 1) + (TV.flattenList vs).length by omega]
          have h1 := ihUB r1 vs r' hp (hB.rest hrest) (s'.phase :: s'.stack) (by simp) s'.left (g+1)
            (⟨.arrOpen (-1), tag⟩ :: acc)
          have h2 := close_indef coerce top s' hc .arrIndef ⟨.arrClose, none⟩ (Or.inl ⟨rfl, rfl⟩) g r'
            ((TV.flattenList vs).reverse ++ ⟨.arrOpen (-1), tag⟩ :: acc)
          simp only [push] at h2 ⊢
          rw [h1, h2, rev_container]
        | mapI r1 =>
          simp only [itemOf] at h
          obtain ⟨⟨es, r'⟩, hp, he⟩ := map_some h
          simp only [Prod.mk.injEq] at he
          obtain ⟨rfl, rfl⟩ := he
          simp only [AcceptRel] at ha
          rw [ha, post_open]
          simp only [cont, cntm, TV.flatten, Head.rest] at hrest ⊢
          rw [show g + ((TV.flattenEntries es).length + 1) = (g + 1) + (TV.flattenEntries es).length by omega]
          have h1 := ihEUB r1 es r' hp (hB.rest hrest) (s'.phase :: s'.stack) (by simp) s'.left (g+1)
            (⟨.mapOpen (-1), tag⟩ :: acc)
          have h2 := close_indef coerce top s' hc .mapIndefKey ⟨.mapClose, none⟩ (Or.inr ⟨rfl, rfl⟩) g r'
            ((TV.flattenEntries es).reverse ++ ⟨.mapOpen (-1), tag⟩ :: acc)
          simp only [push] at h2 ⊢
          rw [h1, h2, rev_container]
        | arrD n r1 =>
          simp only [itemOf] at h
          obtain ⟨⟨vs, r'⟩, hp, he⟩ := map_some h
          simp only [Prod.mk.injEq] at he
          obtain ⟨rfl, rfl⟩ := he
          simp only [AcceptRel] at ha
          rw [ha, post_open]
          simp only [cont, cntm, TV.flatten, Head.rest] at hrest ⊢
          rw [show g + ((TV.flattenList vs).length + 1) = (g + 1) + (TV.flattenList vs).length by omega]
          have h1 := ihN n r1 vs r' hp (hB.rest hrest) (s'.phase :: s'.stack) (by simp) s'.left (g+1)
            (⟨.arrOpen n, tag⟩ :: acc)
          have h2 := close_def coerce top s' hc .arrDef ⟨.arrClose, none⟩ (Or.inl ⟨rfl, rfl⟩) g r'
            ((TV.flattenList vs).reverse ++ ⟨.arrOpen n, tag⟩ :: acc)
          simp only [push] at h2 ⊢
          rw [h1, h2, rev_container]
        | mapD n r1 =>
          simp only [itemOf] at h
          obtain ⟨⟨es, r'⟩, hp, he⟩ := map_some h
          simp only [Prod.mk.injEq] at he
          obtain ⟨rfl, rfl⟩ := he
          simp only [AcceptRel] at ha
          rw [ha, post_open]
          simp only [cont, cntm, TV.flatten, Head.rest] at hrest ⊢
          rw [show g + ((TV.flattenEntries es).length + 1) = (g + 1) + (TV.flattenEntries es).length by omega]
          have h1 := ihEN n r1 es r' hp (hB.rest hrest) (s'.phase :: s'.stack) (by simp) s'.left (g+1)
            (⟨.mapOpen n, tag⟩ :: acc)
          have h2 := close_def coerce top s' hc .mapDefKey ⟨.mapClose, none⟩ (Or.inr ⟨rfl, rfl⟩) g r'
            ((TV.flattenEntries es).reverse ++ ⟨.mapOpen n, tag⟩ :: acc)
          simp only [push] at h2 ⊢
          rw [h1, h2, rev_container]
        | tag n r1 =>
          simp only [itemOf] at h
          cases tag with
          | some t => simp at h
          | none =>
            simp only [AcceptRel, Head.rest] at ha hrest
            cases r1 with
            | nil => rw [parseItem_nil] at h; simp at h
            | cons mb r2 =>
              cases fuel with
              | zero => have := hfuel rfl; omega
              | succ fuel' =>
                simp only at ha
                rw [ha]
                exact ihA mb r2 (some (n : Int)) v r fuel' h (hB.rest hrest) (by intro h; cases h) top s' hc g acc
    · -- parseN
      intro k bs vs r h hB stk hstk l g acc
      cases k with
      | zero =>
        rw [parseN_zero] at h
        simp only [Option.some.injEq, Prod.mk.injEq] at h
        obtain ⟨rfl, rfl⟩ := h
        simp [TV.flattenList]
      | succ k =>
        rw [parseN_succ] at h
        split at h
        · simp at h
        · rename_i v r1 hi
          obtain ⟨⟨vs', r'⟩, hp, he⟩ := map_some h
          simp only [Prod.mk.injEq] at he
          obtain ⟨rfl, rfl⟩ := he
          have hr1 := ((shape coerce f).1 _ _ _ _ hi).1
          have hAcc : Acc ⟨stk, .arrDef, (k+1) :: l⟩ := ⟨hstk, ⟨k, l, rfl⟩⟩
          have h1 := ihI bs v r1 hi hB _ hAcc (g + (TV.flattenList vs').length) acc
          have h2 := ihN k r1 vs' r' hp (hB.rest hr1) stk hstk l g (v.flatten.reverse ++ acc)
          simp only [TV.flattenList, List.length_append, List.reverse_append, List.append_assoc]
          rw [show g + (v.flatten.length + (TV.flattenList vs').length)
            = g + (TV.flattenList vs').length + v.flatten.length by omega]
          rw [h1]
          simp only [next, decHead]
          rw [h2]
    · -- parseEntriesN
      intro k bs es r h hB stk hstk l g acc
      cases k with
      | zero =>
        rw [parseEntriesN_zero] at h
        simp only [Option.some.injEq, Prod.mk.injEq] at h
        obtain ⟨rfl, rfl⟩ := h
        simp [TV.flattenEntries]
      | succ k =>
        rw [parseEntriesN_succ] at h
        split at h
        · simp at h
        · rename_i key r1 hi
          split at h
          · simp at h
          · rename_i v r2 hi2
            obtain ⟨⟨es', r'⟩, hp, he⟩ := map_some h
            simp only [Prod.mk.injEq] at he
            obtain ⟨rfl, rfl⟩ := he
            have hr1 := ((shape coerce f).1 _ _ _ _ hi).1
            have hr2 := ((shape coerce f).1 _ _ _ _ hi2).1
            have hAcc : Acc ⟨stk, .mapDefKey, (k+1) :: l⟩ := ⟨hstk, ⟨k, l, rfl⟩⟩
            have hAcc2 : Acc ⟨stk, .mapDefVal, k :: l⟩ := ⟨hstk, trivial⟩
            have h1 := ihI bs key r1 hi hB _ hAcc (g + (TV.flattenEntries es').length + v.flatten.length) acc
            have h1' := ihI r1 v r2 hi2 (hB.rest hr1) _ hAcc2 (g + (TV.flattenEntries es').length)
              (key.flatten.reverse ++ acc)
            have h2 := ihEN k r2 es' r' hp ((hB.rest hr1).rest hr2) stk hstk l g
              (v.flatten.reverse ++ (key.flatten.reverse ++ acc))
            simp only [TV.flattenEntries, List.length_append, List.reverse_append, List.append_assoc]
            rw [show g + (key.flatten.length + (v.flatten.length + (TV.flattenEntries es').length))
              = g + (TV.flattenEntries es').length + v.flatten.length + key.flatten.length by omega]
            rw [h1]
            simp only [next, decHead]
            rw [h1']
            simp only [next, decHead]
            rw [h2]
    · -- parseUntilBreak
      intro bs vs r h hB stk hstk l g acc
      rcases break_or bs with ⟨r0, rfl⟩ | hnb
      · rw [UB_break] at h
        simp only [Option.some.injEq, Prod.mk.injEq] at h
        obtain ⟨rfl, rfl⟩ := h
        simp [TV.flattenList]
      · rw [UB_nobreak _ _ _ hnb] at h
        split at h
        · simp at h
        · rename_i v r1 hi
          obtain ⟨⟨vs', r'⟩, hp, he⟩ := map_some h
          simp only [Prod.mk.injEq] at he
          obtain ⟨rfl, rfl⟩ := he
          have hr1 := ((shape coerce f).1 _ _ _ _ hi).1
          have hAcc : Acc ⟨stk, .arrIndef, l⟩ := ⟨hstk, trivial⟩
          have h1 := ihI bs v r1 hi hB _ hAcc (g + (TV.flattenList vs').length) acc
          have h2 := ihUB r1 vs' r' hp (hB.rest hr1) stk hstk l g (v.flatten.reverse ++ acc)
          simp only [TV.flattenList, List.length_append, List.reverse_append, List.append_assoc]
          rw [show g + (v.flatten.length + (TV.flattenList vs').length)
            = g + (TV.flattenList vs').length + v.flatten.length by omega]
          rw [h1]
          simp only [next]
          rw [h2]
    · -- parseEntriesUntilBreak
      intro bs es r h hB stk hstk l g acc
      rcases break_or bs with ⟨r0, rfl⟩ | hnb
      · rw [EUB_break] at h
        simp only [Option.some.injEq, Prod.mk.injEq] at h
        obtain ⟨rfl, rfl⟩ := h
        simp [TV.flattenEntries]
      · rw [EUB_nobreak _ _ _ hnb] at h
        split at h
        · simp at h
        · rename_i key r1 hi
          split at h
          · simp at h
          · rename_i v r2 hi2
            obtain ⟨⟨es', r'⟩, hp, he⟩ := map_some h
            simp only [Prod.mk.injEq] at he
            obtain ⟨rfl, rfl⟩ := he
            have hr1 := ((shape coerce f).1 _ _ _ _ hi).1
            have hr2 := ((shape coerce f).1 _ _ _ _ hi2).1
            have hAcc : Acc ⟨stk, .mapIndefKey, l⟩ := ⟨hstk, trivial⟩
            have hAcc2 : Acc ⟨stk, .mapIndefVal, l⟩ := ⟨hstk, trivial⟩
            have h1 := ihI bs key r1 hi hB _ hAcc (g + (TV.flattenEntries es').length + v.flatten.length) acc
            have h1' := ihI r1 v r2 hi2 (hB.rest hr1) _ hAcc2 (g + (TV.flattenEntries es').length)
              (key.flatten.reverse ++ acc)
            have h2 := ihEUB r2 es' r' hp ((hB.rest hr1).rest hr2) stk hstk l g
              (v.flatten.reverse ++ (key.flatten.reverse ++ acc))
            simp only [TV.flattenEntries, List.length_append, List.reverse_append, List.append_assoc]
            rw [show g + (key.flatten.length + (v.flatten.length + (TV.flattenEntries es').length))
              = g + (TV.flattenEntries es').length + v.flatten.length + key.flatten.length by omega]
            rw [h1]
            simp only [next]
            rw [h1']
            simp only [next]
            rw [h2]

theorem W_err (top : Bool) (o : Out) (e : Err) (h : o.ret = .err e) : post (W top o) = o := by
  cases top
  · simp only [W, Bool.false_eq_true, if_false]; rw [inContainer_err o e h, post_err o e h]
  · simp only [W, if_true]; rw [post_err o e h]

theorem step_val_break (coerce : Bool) (stk : List Phase) (l : List Nat) (r : Bytes) :
    ∃ e, (step coerce ⟨stk, .mapIndefVal, l⟩ ⟨0xff :: r, none, 0⟩).ret = .err e := by
  rw [step_eq]
  exact ⟨.syntax, by simp [subStep, withMajor, read1_cons, sigBreak, post]⟩

theorem map_none {α β : Type} {o : Option α} {g : α → β} (h : o.map g = none) : o = none := by
  cases o with
  | none => rfl
  | some a => simp at h

def ItemAN (coerce : Bool) (f : Nat) : Prop :=
  ∀ (b : Nat) (r0 : Bytes) (tag : Option Int) (fuel : Nat),
    parseItem coerce f (b :: r0) tag = none → 2 * r0.length + 3 ≤ f → B256 (b :: r0) → (tag = none → 1 ≤ fuel) →
    ∀ (top : Bool) (s' : St), CtxOk top s' → ∀ (g : Nat) (acc : List Tok),
      isErr (cont coerce g (post (W top (acceptValue coerce s' ⟨r0, none, 0⟩ b tag fuel))) acc)

def ItemN (coerce : Bool) (f : Nat) : Prop :=
  ∀ (bs : Bytes), parseItem coerce f bs none = none → 2 * bs.length + 1 ≤ f → B256 bs →
    ∀ (s : St), Acc s → ((s.phase = .arrIndef ∨ s.phase = .mapIndefKey) → ∀ r, bs ≠ 0xff :: r) →
    ∀ (g : Nat) (acc : List Tok), isErr (run' coerce g s ⟨bs, none, 0⟩ acc)

def NN (coerce : Bool) (f : Nat) : Prop :=
  ∀ (k : Nat) (bs : Bytes), parseN coerce f k bs = none → 2 * bs.length + 2 ≤ f → B256 bs →
    ∀ (stk : List Phase), stk ≠ [] → ∀ (l : List Nat) (g : Nat) (acc : List Tok),
      isErr (run' coerce g ⟨stk, .arrDef, k :: l⟩ ⟨bs, none, 0⟩ acc)

def ENN (coerce : Bool) (f : Nat) : Prop :=
  ∀ (k : Nat) (bs : Bytes), parseEntriesN coerce f k bs = none → 2 * bs.length + 2 ≤ f → B256 bs →
    ∀ (stk : List Phase), stk ≠ [] → ∀ (l : List Nat) (g : Nat) (acc : List Tok),
      isErr (run' coerce g ⟨stk, .mapDefKey, k :: l⟩ ⟨bs, none, 0⟩ acc)

def UBN (coerce : Bool) (f : Nat) : Prop :=
  ∀ (bs : Bytes), parseUntilBreak coerce f bs = none → 2 * bs.length + 2 ≤ f → B256 bs →
    ∀ (stk : List Phase), stk ≠ [] → ∀ (l : List Nat) (g : Nat) (acc : List Tok),
      isErr (run' coerce g ⟨stk, .arrIndef, l⟩ ⟨bs, none, 0⟩ acc)

def EUBN (coerce : Bool) (f : Nat) : Prop :=
  ∀ (bs : Bytes), parseEntriesUntilBreak coerce f bs = none → 2 * bs.length + 2 ≤ f → B256 bs →
    ∀ (stk : List Phase), stk ≠ [] → ∀ (l : List Nat) (g : Nat) (acc : List Tok),
      isErr (run' coerce g ⟨stk, .mapIndefKey, l⟩ ⟨bs, none, 0⟩ acc)

theorem itemN_of_itemAN (coerce : Bool) (f : Nat) (hA : ItemAN coerce f) : ItemN coerce f := by
  intro bs h hf hB s hs hbrk g acc
  cases g with
  | zero => exact isErr_zero _ _ _ _
  | succ g =>
    rw [run'_succ]
    cases bs with
    | nil =>
      obtain ⟨e, he⟩ := step_nil coerce s (Or.inl hs)
      exact cont_err _ _ _ _ e he
    | cons b r0 =>
      by_cases hcond : b ≠ 0xff ∨ ¬ breakPhase s.phase
      · rw [step_acc coerce s hs b r0 hcond]
        have := hA b r0 none 1 h (by simp at hf; omega) hB (fun _ => Nat.le_refl 1) false (next s)
          (by simp only [CtxOk, Bool.false_eq_true, if_false]; rw [next_stack]; exact hs.1) g acc
        simp only [W, Bool.false_eq_true, if_false, post_inContainer] at this
        exact this
      · have hb : b = 0xff := by
          by_cases hb : b = 0xff
          · exact hb
          · exact absurd (Or.inl hb) hcond
        have hp : breakPhase s.phase := by
          by_cases hp : breakPhase s.phase
          · exact hp
          · exact absurd (Or.inr hp) hcond
        subst hb
        obtain ⟨stk, ph, lf⟩ := s
        rcases hp with hp | hp | hp
        · exact absurd rfl (hbrk (Or.inl hp) r0)
        · exact absurd rfl (hbrk (Or.inr hp) r0)
        · simp only at hp
          subst hp
          obtain ⟨e, he⟩ := step_val_break coerce stk lf r0
          exact cont_err _ _ _ _ e he

def NoneBundle (coerce : Bool) (f : Nat) : Prop :=
  ItemAN coerce f ∧ NN coerce f ∧ ENN coerce f ∧ UBN coerce f ∧ EUBN coerce f

theorem noneBundle (coerce : Bool) : ∀ f, NoneBundle coerce f := by
  intro f
  induction f with
  | zero =>
    refine ⟨?_, ?_, ?_, ?_, ?_⟩
    · intro b r0 tag fuel h hf; omega
    · intro k bs h hf; omega
    · intro k bs h hf; omega
    · intro bs h hf; omega
    · intro bs h hf; omega
  | succ f ih =>
    obtain ⟨ihA, ihN, ihEN, ihUB, ihEUB⟩ := ih
    have ihIN := itemN_of_itemAN coerce f ihA
    have ihI := itemS_of_itemA coerce f (someBundle coerce f).1
    refine ⟨?_, ?_, ?_, ?_, ?_⟩
    · -- ItemAN
      intro b r0 tag fuel h hf hB hfuel top s' hc g acc
      rw [parseItem_eq] at h
      have ha := accept_head coerce s' b hB.head r0 hB.tail tag fuel
      cases hh : headOf coerce (b :: r0) with
      | none =>
        rw [hh] at ha
        obtain ⟨e, he⟩ := ha
        rw [W_err top _ e he]
        exact cont_err _ _ _ _ e he
      | some hd =>
        rw [hh] at h ha
        have hrest := headOf_rest _ _ _ hh
        have hlen := hrest.2
        cases hd with
        | scalar body r1 => simp [itemOf] at h
        | arrI r1 =>
          simp only [itemOf] at h
          have hp := map_none h
          simp only [AcceptRel] at ha
          rw [ha, post_open]
          simp only [cont, Head.rest, List.length_cons] at hrest hlen ⊢
          exact ihUB r1 hp (by omega) (hB.rest hrest) (s'.phase :: s'.stack) (by simp) s'.left g _
        | mapI r1 =>
          simp only [itemOf] at h
          have hp := map_none h
          simp only [AcceptRel] at ha
          rw [ha, post_open]
          simp only [cont, Head.rest, List.length_cons] at hrest hlen ⊢
          exact ihEUB r1 hp (by omega) (hB.rest hrest) (s'.phase :: s'.stack) (by simp) s'.left g _
        | arrD n r1 =>
          simp only [itemOf] at h
          have hp := map_none h
          simp only [AcceptRel] at ha
          rw [ha, post_open]
          simp only [cont, Head.rest, List.length_cons] at hrest hlen ⊢
          exact ihN n r1 hp (by omega) (hB.rest hrest) (s'.phase :: s'.stack) (by simp) s'.left g _
        | mapD n r1 =>
          simp only [itemOf] at h
          have hp := map_none h
          simp only [AcceptRel] at ha
          rw [ha, post_open]
          simp only [cont, Head.rest, List.length_cons] at hrest hlen ⊢
          exact ihEN n r1 hp (by omega) (hB.rest hrest) (s'.phase :: s'.stack) (by simp) s'.left g _
        | tag n r1 =>
          simp only [itemOf] at h
          cases tag with
          | some t =>
            simp only [AcceptRel] at ha
            obtain ⟨e, he⟩ := ha
            rw [W_err top _ e he]
            exact cont_err _ _ _ _ e he
          | none =>
            simp only [AcceptRel, Head.rest, List.length_cons] at ha hrest hlen
            cases r1 with
            | nil =>
              simp only at ha
              obtain ⟨e, he⟩ := ha
              rw [W_err top _ e he]
              exact cont_err _ _ _ _ e he
            | cons mb r2 =>
              cases fuel with
              | zero => have := hfuel rfl; omega
              | succ fuel' =>
                simp only at ha h
                rw [ha]
                simp only [List.length_cons] at hlen
                exact ihA mb r2 (some (n : Int)) fuel' h (by omega) (hB.rest hrest) (by intro h; cases h) top s' hc g acc
    · -- NN
      intro k bs h hf hB stk hstk l g acc
      cases k with
      | zero => rw [parseN_zero] at h; simp at h
      | succ k =>
        rw [parseN_succ] at h
        have hAcc : Acc ⟨stk, .arrDef, (k+1) :: l⟩ := ⟨hstk, ⟨k, l, rfl⟩⟩
        cases hi : parseItem coerce f bs none with
        | none => exact ihIN bs hi (by omega) hB _ hAcc (by simp) g acc
        | some p =>
          obtain ⟨v, r1⟩ := p
          rw [hi] at h
          have hp := map_none h
          have hr1 := ((shape coerce f).1 _ _ _ _ hi).1
          have hlen := hr1.2
          apply err_down coerce g v.flatten.length
          rw [ihI bs v r1 hi hB _ hAcc g acc]
          simp only [next, decHead]
          exact ihN k r1 hp (by omega) (hB.rest hr1) stk hstk l g _
    · -- ENN
      intro k bs h hf hB stk hstk l g acc
      cases k with
      | zero => rw [parseEntriesN_zero] at h; simp at h
      | succ k =>
        rw [parseEntriesN_succ] at h
        have hAcc : Acc ⟨stk, .mapDefKey, (k+1) :: l⟩ := ⟨hstk, ⟨k, l, rfl⟩⟩
        have hAcc2 : Acc ⟨stk, .mapDefVal, k :: l⟩ := ⟨hstk, trivial⟩
        cases hi : parseItem coerce f bs none with
        | none => exact ihIN bs hi (by omega) hB _ hAcc (by simp) g acc
        | some p =>
          obtain ⟨key, r1⟩ := p
          rw [hi] at h
          dsimp only at h
          have hr1 := ((shape coerce f).1 _ _ _ _ hi).1
          have hlen := hr1.2
          apply err_down coerce g key.flatten.length
          rw [ihI bs key r1 hi hB _ hAcc g acc]
          simp only [next, decHead]
          cases hi2 : parseItem coerce f r1 none with
          | none => exact ihIN r1 hi2 (by omega) (hB.rest hr1) _ hAcc2 (by simp) g _
          | some p2 =>
            obtain ⟨v, r2⟩ := p2
            rw [hi2] at h
            have hp := map_none h
            have hr2 := ((shape coerce f).1 _ _ _ _ hi2).1
            have hlen2 := hr2.2
            apply err_down coerce g v.flatten.length
            rw [ihI r1 v r2 hi2 (hB.rest hr1) _ hAcc2 g _]
            simp only [next, decHead]
            exact ihEN k r2 hp (by omega) ((hB.rest hr1).rest hr2) stk hstk l g _
    · -- UBN
      intro bs h hf hB stk hstk l g acc
      rcases break_or bs with ⟨r0, rfl⟩ | hnb
      · rw [UB_break] at h; simp at h
      · rw [UB_nobreak _ _ _ hnb] at h
        have hAcc : Acc ⟨stk, .arrIndef, l⟩ := ⟨hstk, trivial⟩
        cases hi : parseItem coerce f bs none with
        | none => exact ihIN bs hi (by omega) hB _ hAcc (fun _ => hnb) g acc
        | some p =>
          obtain ⟨v, r1⟩ := p
          rw [hi] at h
          have hp := map_none h
          have hr1 := ((shape coerce f).1 _ _ _ _ hi).1
          have hlen := hr1.2
          apply err_down coerce g v.flatten.length
          rw [ihI bs v r1 hi hB _ hAcc g acc]
          simp only [next]
          exact ihUB r1 hp (by omega) (hB.rest hr1) stk hstk l g _
    · -- EUBN
      intro bs h hf hB stk hstk l g acc
      rcases break_or bs with ⟨r0, rfl⟩ | hnb
      · rw [EUB_break] at h; simp at h
      · rw [EUB_nobreak _ _ _ hnb] at h
        have hAcc : Acc ⟨stk, .mapIndefKey, l⟩ := ⟨hstk, trivial⟩
        have hAcc2 : Acc ⟨stk, .mapIndefVal, l⟩ := ⟨hstk, trivial⟩
        cases hi : parseItem coerce f bs none with
        | none => exact ihIN bs hi (by omega) hB _ hAcc (fun _ => hnb) g acc
        | some p =>
          obtain ⟨key, r1⟩ := p
          rw [hi] at h
          dsimp only at h
          have hr1 := ((shape coerce f).1 _ _ _ _ hi).1
          have hlen := hr1.2
          apply err_down coerce g key.flatten.length
          rw [ihI bs key r1 hi hB _ hAcc g acc]
          simp only [next]
          cases hi2 : parseItem coerce f r1 none with
          | none => exact ihIN r1 hi2 (by omega) (hB.rest hr1) _ hAcc2 (by simp) g _
          | some p2 =>
            obtain ⟨v, r2⟩ := p2
            rw [hi2] at h
            have hp := map_none h
            have hr2 := ((shape coerce f).1 _ _ _ _ hi2).1
            have hlen2 := hr2.2
            apply err_down coerce g v.flatten.length
            rw [ihI r1 v r2 hi2 (hB.rest hr1) _ hAcc2 g _]
            simp only [next]
            exact ihEUB r2 hp (by omega) ((hB.rest hr1).rest hr2) stk hstk l g _

theorem step_init (coerce : Bool) (b : Nat) (r0 : Bytes) :
    step coerce init ⟨b :: r0, none, 0⟩ = post (W true (acceptValue coerce init ⟨r0, none, 0⟩ b none 1)) := by
  rw [step_eq]
  simp [subStep, init, withMajor, read1_cons, W]

theorem top_run (coerce : Bool) (bs : Bytes) (hB : B256 bs) :
    match parse coerce bs with
    | some (v, rest) => run' coerce (2 * bs.length + 2) init ⟨bs, none, 0⟩ [] = (v.flatten, .ok (), ⟨rest, none, 0⟩)
    | none => isErr (run' coerce (2 * bs.length + 2) init ⟨bs, none, 0⟩ []) := by
  cases bs with
  | nil =>
    have : parse coerce [] = none := by unfold parse; exact parseItem_nil _ _ _
    rw [this]
    dsimp only
    rw [run'_succ]
    obtain ⟨e, he⟩ := step_nil coerce init (Or.inr rfl)
    exact cont_err _ _ _ _ e he
  | cons b r0 =>
    have hfuel : 2 * (b :: r0).length + 2 = (2 * r0.length + 3) + 1 := by simp; omega
    rw [hfuel]
    cases hp : parse coerce (b :: r0) with
    | none =>
      dsimp only
      rw [run'_succ, step_init]
      unfold parse at hp
      exact (noneBundle coerce _).1 b r0 none 1 hp (by simp; omega) hB (fun _ => Nat.le_refl 1) true init
        (by simp [CtxOk, init]) _ []
    | some p =>
      obtain ⟨v, r⟩ := p
      dsimp only
      rw [run'_succ, step_init]
      unfold parse at hp
      have hbound := ((shape coerce _).1 _ _ _ _ hp).2
      rw [flatten_len] at hbound
      simp only [List.length_cons] at hbound
      have hg : 2 * r0.length + 3 = (2 * r0.length + 3 - cntm v) + cntm v := by omega
      rw [hg]
      rw [(someBundle coerce _).1 b r0 none v r 1 hp hB (fun _ => Nat.le_refl 1) true init
        (by simp [CtxOk, init]) _ []]
      simp [fin]

end Refmt.C04
