-- definitions and auxiliary lemmas for the struct-map extension of the token-level round trip (C11, `clone_equal_struct_fixed`);
-- see RefmtProofs/Props/C11.lean.  Nothing here depends on `structTy`.
import RefmtProofs.Props.C13
set_option linter.unusedSimpArgs false
set_option linter.unusedVariables false
namespace Refmt.Obj
open Refmt Refmt.C13

/-- the struct-map marshaller's filter: which fields are emitted for `v` -/
def emitP (v : Val) (f : SMField) : Bool :=
  !f.ignore && (match traverse f.route v with
                | none => false
                | some fv => !(f.omitEmpty && isEmpty 1000 fv))

/-- one emitted field written back into the accumulator (`N` = what the field's value comes back as) -/
def fieldStep (ts : Types) (id : Nat) (v : Val) (N : Nat → Val → Val) (acc : Val) (f : SMField) : Val :=
  match traverse f.route v with
  | none => acc
  | some fv => (setRoute ts 64 id f.route acc (fun _ => N f.ty fv)).getD acc

/-- one step of the struct-map case of `normBare` -/
def normStep (ts : Types) (id : Nat) (v : Val) (N : Nat → Val → Val) (acc : Val) (f : SMField) : Val :=
  if f.ignore then acc else
  match traverse f.route v with
  | none => acc
  | some fv =>
    if f.omitEmpty && isEmpty 1000 fv then acc
    else (setRoute ts 64 id f.route acc (fun _ => N f.ty fv)).getD acc

/-- the struct-map case of `normBare`, as a function of the field normalizer -/
def structFold (ts : Types) (id : Nat) (fields : List SMField) (v : Val) (N : Nat → Val → Val) : Val :=
  fields.foldl (normStep ts id v N) (zeroVal ts 64 id)

theorem normBare_structMap (ts : Types) (a : Atlas) (trs : Trs) (it : IfaceTys) (fuel id e fields v) :
    normBare .pretty ts a trs it (fuel+1) id (.structMap e fields) v =
      structFold ts id fields v (normV .pretty ts a trs it fuel) := by
  rw [normBare.eq_def]
  rfl

theorem normStep_eq (ts : Types) (id : Nat) (v : Val) (N : Nat → Val → Val) (acc : Val) (f : SMField) :
    normStep ts id v N acc f = if emitP v f then fieldStep ts id v N acc f else acc := by
  unfold normStep emitP fieldStep
  cases hi : f.ignore with
  | true => simp
  | false =>
    cases ht : traverse f.route v with
    | none => simp
    | some fv =>
      cases f.omitEmpty <;> simp
      split <;> simp_all

theorem foldl_filter_step (ts : Types) (id : Nat) (v : Val) (N : Nat → Val → Val) (fields : List SMField) : ∀ (z : Val),
    fields.foldl (normStep ts id v N) z = (fields.filter (emitP v)).foldl (fieldStep ts id v N) z := by
  induction fields with
  | nil => intro z; rfl
  | cons f fs ih =>
    intro z
    simp only [List.foldl_cons, List.filter_cons, normStep_eq]
    split
    · simp only [List.foldl_cons]; rw [← ih]
    · rw [← ih]

theorem structFold_eq_filter (ts : Types) (id : Nat) (fields : List SMField) (v : Val) (N : Nat → Val → Val) :
    structFold ts id fields v N = (fields.filter (emitP v)).foldl (fieldStep ts id v N) (zeroVal ts 64 id) :=
  foldl_filter_step ts id v N fields _

mutual
  /-- `rtV` extended to struct-map entries: the value the token-level round trip returns (`normV` with map
      entries in marshalling order, also inside struct fields) -/
  def rtV' (ts : Types) (a : Atlas) (trs : Trs) (it : IfaceTys) : Nat → Nat → Val → Val
    | 0, _, v => v
    | fuel+1, id, v =>
      let (n, base) := peel ts 64 0 id
      if n == 0 then rtBare' ts a trs it fuel base (pickBare ts a base) v
      else
        match derefN n v with
        | none => .ptr none
        | some inner =>
          if isNullSer ts a trs base inner then .ptr none
          else wrapPtr n (rtBare' ts a trs it fuel base (pickBare ts a base) inner)
  def rtBare' (ts : Types) (a : Atlas) (trs : Trs) (it : IfaceTys) : Nat → Nat → Mach → Val → Val
    | 0, _, _, v => v
    | fuel+1, id, m, v =>
      match m with
      | .slice e => (match v with | .slice (some vs) => .slice (some (vs.map (rtV' ts a trs it fuel e))) | x => x)
      | .array e => (match v with | .arr vs => .arr (vs.map (rtV' ts a trs it fuel e)) | x => x)
      | .map _ vt mode =>
        (match v with
         | .map (some es) =>
           .map (some ((sortKeys mode (es.map fun (k, x) => (keyStr k, x))).map fun (s, x) => (Val.str s, rtV' ts a trs it fuel vt x)))
         | x => x)
      | .structMap _ fields => structFold ts id fields v (fun t x => rtV' ts a trs it fuel t x)
      | m => normBare .pretty ts a trs it (fuel+1) id m v
end

/-- `distinctKeys` descending into struct fields as well -/
def distinctKeys' : Nat → Val → Prop
  | 0, _ => False
  | fuel+1, v =>
    match v with
    | .slice (some vs) => ∀ x ∈ vs, distinctKeys' fuel x
    | .arr vs => ∀ x ∈ vs, distinctKeys' fuel x
    | .map (some es) =>
      (∀ p ∈ es, ∃ s, p.1 = Val.str s) ∧ (es.map fun p => keyStr p.1).Nodup ∧ ∀ p ∈ es, distinctKeys' fuel p.2
    | .ptr (some x) => distinctKeys' fuel x
    | .struct vs => ∀ x ∈ vs, distinctKeys' fuel x
    | _ => True

/-- `mapsSorted` descending into struct fields as well -/
def mapsSorted' (mode : KeySort) : Nat → Val → Prop
  | 0, _ => False
  | fuel+1, v =>
    match v with
    | .slice (some vs) => ∀ x ∈ vs, mapsSorted' mode fuel x
    | .arr vs => ∀ x ∈ vs, mapsSorted' mode fuel x
    | .map (some es) =>
      (es.map fun p => (keyStr p.1, p.2)).Pairwise (fun x y => keyLe mode x.1 y.1 = true) ∧
      (∀ p ∈ es, ∃ s, p.1 = Val.str s) ∧ ∀ p ∈ es, mapsSorted' mode fuel p.2
    | .ptr (some x) => mapsSorted' mode fuel x
    | .struct vs => ∀ x ∈ vs, mapsSorted' mode fuel x
    | _ => True

/-- `ValEqv` (equality up to the order of map entries) with the missing congruence for struct fields -/
inductive ValEqv' : Val → Val → Prop
  | refl (v : Val) : ValEqv' v v
  | slice {xs ys : List Val} : xs.length = ys.length → (∀ p ∈ xs.zip ys, ValEqv' p.1 p.2) →
      ValEqv' (.slice (some xs)) (.slice (some ys))
  | arr {xs ys : List Val} : xs.length = ys.length → (∀ p ∈ xs.zip ys, ValEqv' p.1 p.2) →
      ValEqv' (.arr xs) (.arr ys)
  | ptr {x y : Val} : ValEqv' x y → ValEqv' (.ptr (some x)) (.ptr (some y))
  | map {es zs es' : List (Val × Val)} : es.Perm zs → zs.length = es'.length →
      (∀ p ∈ zs.zip es', p.1.1 = p.2.1) → (∀ p ∈ zs.zip es', ValEqv' p.1.2 p.2.2) →
      ValEqv' (.map (some es)) (.map (some es'))
  | struct {xs ys : List Val} : xs.length = ys.length →
      (∀ (j : Nat) (x y : Val), xs[j]? = some x → ys[j]? = some y → ValEqv' x y) → ValEqv' (.struct xs) (.struct ys)

/-- `ValEqv'` extends `ValEqv` -/
theorem ValEqv.toEqv' {x y : Val} (h : ValEqv x y) : ValEqv' x y := by
  induction h with
  | refl v => exact ValEqv'.refl v
  | slice hl _ ih => exact ValEqv'.slice hl ih
  | arr hl _ ih => exact ValEqv'.arr hl ih
  | ptr _ ih => exact ValEqv'.ptr ih
  | map hp hl hk _ ih => exact ValEqv'.map hp hl hk ih

theorem ValEqv'.wrap {x y : Val} (h : ValEqv' x y) : ∀ n, ValEqv' (wrapPtr n x) (wrapPtr n y)
  | 0 => h
  | n+1 => ValEqv'.ptr (ValEqv'.wrap h n)

variable (ts : Types) (a : Atlas) (trs : Trs) (it : IfaceTys)

theorem rtV'_succ (fuel id v) : rtV' ts a trs it (fuel+1) id v =
    if (peel ts 64 0 id).1 == 0 then rtBare' ts a trs it fuel (peel ts 64 0 id).2 (pickBare ts a (peel ts 64 0 id).2) v
    else match derefN (peel ts 64 0 id).1 v with
      | none => .ptr none
      | some inner =>
        if isNullSer ts a trs (peel ts 64 0 id).2 inner then .ptr none
        else wrapPtr (peel ts 64 0 id).1 (rtBare' ts a trs it fuel (peel ts 64 0 id).2 (pickBare ts a (peel ts 64 0 id).2) inner) := by
  rw [rtV'.eq_def]

theorem rtBare'_prim (fuel id v) : rtBare' ts a trs it (fuel+1) id .prim v = v := by
  rw [rtBare'.eq_def]
  simp only
  rw [normBare.eq_def]
  simp only
  cases v <;> rfl

theorem rtBare'_slice (fuel id e v) : rtBare' ts a trs it (fuel+1) id (.slice e) v =
    (match v with | .slice (some vs) => .slice (some (vs.map (rtV' ts a trs it fuel e))) | x => x) := by
  rw [rtBare'.eq_def]
theorem rtBare'_array (fuel id e v) : rtBare' ts a trs it (fuel+1) id (.array e) v =
    (match v with | .arr vs => .arr (vs.map (rtV' ts a trs it fuel e)) | x => x) := by
  rw [rtBare'.eq_def]
theorem rtBare'_map (fuel id kt vt mode v) : rtBare' ts a trs it (fuel+1) id (.map kt vt mode) v =
    (match v with
     | .map (some es) =>
       .map (some ((sortKeys mode (es.map fun (k, x) => (keyStr k, x))).map fun (s, x) => (Val.str s, rtV' ts a trs it fuel vt x)))
     | x => x) := by
  rw [rtBare'.eq_def]
theorem rtBare'_structMap (fuel id e fields v) : rtBare' ts a trs it (fuel+1) id (.structMap e fields) v =
    structFold ts id fields v (rtV' ts a trs it fuel) := by
  rw [rtBare'.eq_def]

/-! ### the marshaller's struct-map machine -/

theorem marshalBare_structMap (fuel id e fields v) : marshalBare ts a trs (fuel+1) id (.structMap e fields) v =
    ((MOut.ok [⟨.mapOpen (fields.filter (emitP v)).length, e.tag⟩]).seq fun _ =>
      (marshalFields ts a trs fuel (fields.filter (emitP v)) v).seq fun _ => .ok [⟨.mapClose, none⟩]) := by
  rw [marshalBare.eq_def]
  rfl

theorem marshalFields_nil (fuel v) : marshalFields ts a trs (fuel+1) [] v = .ok [] := by
  rw [marshalFields.eq_def]
  try rfl
theorem marshalFields_cons (fuel f rest v) : marshalFields ts a trs (fuel+1) (f :: rest) v =
    (match traverse f.route v with
     | none => .bad .panic
     | some fv =>
       (MOut.ok [⟨.str f.name, none⟩]).seq fun _ =>
       (marshalV ts a trs fuel f.ty fv).seq fun _ => marshalFields ts a trs fuel rest v) := by
  rw [marshalFields.eq_def]
  try rfl

/-! ### one-step routes -/

theorem traverse_one (i : Nat) (vs : List Val) : traverse [i] (.struct vs) = vs[i]? := by
  simp only [traverse]
  cases vs[i]? <;> rfl

theorem setRoute_one {id i : Nat} {fds : List FieldDesc} {fd : FieldDesc} {cs : List Val} {c : Val} (F : Val → Val)
    (hd : ts.get id = .struct fds) (hfd : fds[i]? = some fd) (hc : cs[i]? = some c) :
    setRoute ts 64 id [i] (.struct cs) F = some (.struct (cs.set i (F c))) := by
  show setRoute ts (63+1) id (i :: []) (.struct cs) F = _
  rw [setRoute.eq_def]
  simp [hd, hfd, hc, setRoute]

theorem getRoute_one {id i : Nat} {fds : List FieldDesc} {fd : FieldDesc} {cs : List Val} {c : Val}
    (hd : ts.get id = .struct fds) (hfd : fds[i]? = some fd) (hc : cs[i]? = some c) :
    getRoute ts 64 id [i] (.struct cs) = some c := by
  show getRoute ts (63+1) id (i :: []) (.struct cs) = _
  rw [getRoute.eq_def]
  simp [hd, hfd, hc, getRoute]

theorem zeroVal_struct {id : Nat} {fds : List FieldDesc} (hd : ts.get id = .struct fds) :
    zeroVal ts 64 id = .struct (fds.map fun f => zeroVal ts 63 f.ty) := by
  show zeroVal ts (63+1) id = _
  rw [zeroVal.eq_def]
  simp [hd]

theorem zeroVal_ptr {id e : Nat} (hd : ts.get id = .ptr e) : zeroVal ts 64 id = .ptr none := by
  show zeroVal ts (63+1) id = _
  rw [zeroVal.eq_def]
  simp [hd]

theorem innerCur_zeroVal : ∀ (n id base : Nat), chain ts n id base → innerCur ts n id (zeroVal ts 64 id) = zeroVal ts 64 base := by
  intro n
  induction n with
  | zero => intro id base h; cases h; rfl
  | succ n ih =>
    intro id base h
    obtain ⟨e, he, hc⟩ := h
    rw [zeroVal_ptr ts he]
    unfold innerCur
    simp only [he]
    exact ih e base hc

theorem find?_name (fields : List SMField) (hnd : (fields.map (·.name)).Nodup) (fld : SMField) (hm : fld ∈ fields) :
    fields.find? (fun f => f.name == fld.name) = some fld := by
  induction fields with
  | nil => cases hm
  | cons f fs ih =>
    simp only [List.map_cons, List.nodup_cons] at hnd
    rcases List.mem_cons.mp hm with rfl | hm'
    · simp [List.find?_cons]
    · have hne : (f.name == fld.name) = false := by
        simp only [beq_eq_false_iff_ne]
        intro he
        exact hnd.1 (by rw [he]; exact List.mem_map_of_mem hm')
      simp only [List.find?_cons, hne]
      exact ih hnd.2 hm'

theorem traverse_one_distinct (i : Nat) (v fv : Val) (k : Nat) (ht : traverse [i] v = some fv) (hk : distinctKeys' k v) :
    ∃ k', distinctKeys' k' fv := by
  have key : ∀ vs k, distinctKeys' k (.struct vs) → vs[i]? = some fv → ∃ k', distinctKeys' k' fv := by
    intro vs k hk hi
    cases k with
    | zero => simp [distinctKeys'] at hk
    | succ k =>
      simp only [distinctKeys'] at hk
      exact ⟨k, hk fv (List.mem_of_getElem? hi)⟩
  cases v with
  | struct vs => rw [traverse_one] at ht; exact key vs k hk ht
  | ptr o =>
    cases o with
    | none => simp [traverse] at ht
    | some x =>
      cases k with
      | zero => simp [distinctKeys'] at hk
      | succ k =>
        simp only [distinctKeys'] at hk
        cases x with
        | struct vs =>
          have : traverse [i] (.ptr (some (.struct vs))) = vs[i]? := by
            simp only [traverse]
            cases vs[i]? <;> rfl
          rw [this] at ht
          exact key vs k hk ht
        | _ => simp [traverse] at ht
  | _ => simp [traverse] at ht

end Refmt.Obj
