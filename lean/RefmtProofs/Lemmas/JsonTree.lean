/-
  Trees returned by the JSON reference reader `Spec.Json.parse` on an input of bytes (< 256):
  no tags, every container of unknown length (-1), string keys, numbers inside the token ranges
  (`numTok`), string leaves made of bytes.  Consequences: such a tree is in the domain of the CBOR
  encoder theorem (`C02.WFv`), its RFC 7049 encoding consists of bytes, and it is `C02.Supported`
  as soon as its string leaves are within the decoder's 32 MiB cap.
-/
import RefmtModel
import RefmtProofs.Lemmas.JsonDec
import RefmtProofs.Props.C02
set_option linter.unusedSimpArgs false
set_option linter.unusedVariables false
namespace Refmt.PumpL
open Refmt Refmt.JsonDec Refmt.Spec.Json Refmt.C05L

def B256 (bs : Bytes) : Prop := ∀ x ∈ bs, x < 256

theorem B256.nil : B256 [] := by intro x hx; simp at hx
theorem B256.cons {b : Nat} {r : Bytes} (hb : b < 256) (hr : B256 r) : B256 (b :: r) := by
  intro x hx; simp only [List.mem_cons] at hx; rcases hx with rfl | hx; exact hb; exact hr x hx
theorem B256.append {a b : Bytes} (ha : B256 a) (hb : B256 b) : B256 (a ++ b) := by
  intro x hx; simp only [List.mem_append] at hx; rcases hx with hx | hx; exact ha x hx; exact hb x hx
theorem B256.head {b : Nat} {r : Bytes} (h : B256 (b :: r)) : b < 256 := h b (by simp)
theorem B256.tail {b : Nat} {r : Bytes} (h : B256 (b :: r)) : B256 r := fun x hx => h x (by simp [hx])
theorem B256.sub {a b : Bytes} (hb : B256 b) (h : ∀ x ∈ a, x ∈ b) : B256 a := fun x hx => hb x (h x hx)
theorem B256.drop {a : Bytes} (h : B256 a) (n : Nat) : B256 (a.drop n) :=
  fun x hx => h x (List.mem_of_mem_drop hx)
theorem B256.reverse {a : Bytes} (h : B256 a) : B256 a.reverse := fun x hx => h x (by simpa using hx)

/-! ### numbers -/

theorem fin_lt (bits : Nat) :
    (if bits ≥ 0x7ff0000000000000 then ((0x7ff0000000000000 : Nat), true) else (bits, false)).2 = false →
    (if bits ≥ 0x7ff0000000000000 then ((0x7ff0000000000000 : Nat), true) else (bits, false)).1 < 0x7ff0000000000000 := by
  split
  · intro h; cases h
  · intro _; simp only; omega

theorem roundRat_lt (num den : Nat) :
    (FloatText.roundRat num den).2 = false → (FloatText.roundRat num den).1 < 0x7ff0000000000000 := by
  unfold FloatText.roundRat
  split
  · intro _; decide
  · exact fin_lt _

theorem parseDecimal_lt (d : Nat) (e : Int) :
    (FloatText.parseDecimal d e).2 = false → (FloatText.parseDecimal d e).1 < 0x7ff0000000000000 := by
  unfold FloatText.parseDecimal
  split
  · intro _; decide
  · split
    · split
      · intro h; cases h
      · exact roundRat_lt _ _
    · split
      · intro _; decide
      · exact roundRat_lt _ _

def jscalar : Body → Bool
  | .null => true
  | .bool _ => true
  | .str s => s.all (· < 256)
  | .int i => decide (-(two63 : Int) ≤ i) && decide (i < (two63 : Int))
  | .uint n => decide (n < two64)
  | .float x => decide (x < two64)
  | _ => false

theorem float_branch (pd : Nat × Bool) (neg : Bool) (b : Body)
    (hpd : pd.2 = false → pd.1 < 0x7ff0000000000000)
    (h : (if pd.2 = true then (Except.error Err.range : Except Err Body)
          else .ok (.float (if neg = true then pd.1 + 9223372036854775808 else pd.1))) = .ok b) :
    jscalar b = true := by
  split at h
  · cases h
  · rename_i hov
    simp only [Except.ok.injEq] at h; subst h
    have h1 := hpd (by simpa using hov)
    simp only [jscalar, decide_eq_true_eq]
    unfold two64
    split <;> omega

theorem numTok_jscalar (text : Bytes) (b : Body) (h : numTok text = .ok b) : jscalar b = true := by
  unfold numTok at h
  simp only at h
  split at h
  · split at h
    · split at h
      · simp only [Except.ok.injEq] at h; subst h
        simp only [jscalar, Bool.and_eq_true, decide_eq_true_eq]
        rename_i hv
        unfold two63 at hv ⊢
        omega
      · cases h
    · split at h
      · simp only [Except.ok.injEq] at h; subst h
        simp only [jscalar, Bool.and_eq_true, decide_eq_true_eq]
        rename_i hv
        unfold two63 at hv ⊢
        omega
      · split at h
        · simp only [Except.ok.injEq] at h; subst h
          simpa [jscalar] using ‹_›
        · cases h
  · generalize hpd : FloatText.parseDecimal _ _ = pd at h
    have hlt : pd.2 = false → pd.1 < 0x7ff0000000000000 := by
      rw [← hpd]; exact parseDecimal_lt _ _
    exact float_branch pd (text.head? == some 45) b hlt h

/-! ### strings -/

theorem encodeRune_B256 (r : Nat) : B256 (encodeRune r) := by
  unfold encodeRune
  split
  · intro x hx; simp at hx; omega
  split
  · intro x hx; simp at hx; omega
  split
  · intro x hx; simp at hx; omega
  split
  · intro x hx; simp at hx; omega
  · rename_i h1 h2 h3 h4
    simp only [Bool.or_eq_true, Bool.and_eq_true, decide_eq_true_eq, not_or] at h3
    intro x hx; simp at hx; omega

def PSok (fuel : Nat) : Prop := ∀ (s : Bytes), B256 s → ∀ out, parseString fuel s = some out → B256 out

theorem mapc {fuel : Nat} (ih : PSok fuel) {X out : Bytes} {y : Nat}
    (h : (parseString fuel X).map (y :: ·) = some out) (hy : y < 256) (hX : B256 X) : B256 out := by
  obtain ⟨o, ho, rfl⟩ := Option.map_eq_some_iff.mp h
  exact B256.cons hy (ih X hX o ho)

theorem mapa {fuel : Nat} (ih : PSok fuel) {X Y out : Bytes}
    (h : (parseString fuel X).map (Y ++ ·) = some out) (hY : B256 Y) (hX : B256 X) : B256 out := by
  obtain ⟨o, ho, rfl⟩ := Option.map_eq_some_iff.mp h
  exact B256.append hY (ih X hX o ho)

theorem parseString_ok : ∀ fuel, PSok fuel
  | 0 => by intro s _ out h; simp [parseString] at h
  | fuel+1 => by
    have ih := parseString_ok fuel
    intro s hB out h
    cases s with
    | nil => simp [parseString] at h; subst h; exact B256.nil
    | cons c rest =>
      have hc := hB.head
      have hr := hB.tail
      unfold parseString at h
      split at h
      · cases rest with
        | nil => simp at h
        | cons e rest' =>
          have he := hr.head
          have hr' := hr.tail
          simp only at h
          repeat' split at h
          all_goals first
            | (cases h; done)
            | exact mapc ih h he hr'
            | exact mapc ih h (by decide) hr'
            | exact mapa ih h (encodeRune_B256 _) (B256.drop hB _)
            | exact mapa ih h (encodeRune_B256 _) (B256.drop (B256.drop hB _) _)
      · split at h
        · cases h
        · split at h
          · exact mapc ih h hc hr
          · exact mapa ih h (encodeRune_B256 _) (B256.drop hB _)

theorem unq_B256 (raw : Bytes) (h : B256 raw) : B256 ((parseString (raw.length + 1) raw).getD []) := by
  cases hp : parseString (raw.length + 1) raw with
  | none => exact B256.nil
  | some out => exact parseString_ok _ raw h out hp

theorem skip_sub (bs : Bytes) : ∀ x ∈ skip bs, x ∈ bs := by
  induction bs with
  | nil => intro x hx; simp [skip] at hx
  | cons b r ih =>
    intro x hx
    simp only [skip] at hx
    split at hx
    · exact List.mem_cons_of_mem _ (ih x hx)
    · exact hx

theorem skip_B256 {bs : Bytes} (h : B256 bs) : B256 (skip bs) := h.sub (skip_sub bs)

theorem lexString_B256 : ∀ (n : Nat) (st : SS) (bs acc raw r' : Bytes),
    lexString n st bs acc = some (raw, r') → B256 bs → B256 acc → B256 raw ∧ B256 r'
  | 0, st, bs, acc, raw, r', h, _, _ => by simp [lexString] at h
  | n+1, st, [], acc, raw, r', h, _, _ => by simp [lexString] at h
  | n+1, st, b :: r, acc, raw, r', h, hb, ha => by
    simp only [lexString] at h
    cases hs : strStep st b with
    | error e => rw [hs] at h; simp at h
    | ok o =>
      rw [hs] at h
      cases o with
      | none =>
        simp only [Option.some.injEq, Prod.mk.injEq] at h
        obtain ⟨rfl, rfl⟩ := h
        exact ⟨ha.reverse, hb.tail⟩
      | some st' => exact lexString_B256 n st' r (b :: acc) raw r' h hb.tail (B256.cons hb.head ha)

theorem lexNumber_B256 : ∀ (n : Nat) (st : NS) (bs acc text r' : Bytes),
    lexNumber n st bs acc = some (text, r') → B256 bs → B256 r'
  | 0, st, bs, acc, text, r', h, _ => by simp [lexNumber] at h
  | n+1, st, [], acc, text, r', h, _ => by
    simp only [lexNumber] at h
    split at h
    · cases h
    · simp only [Option.some.injEq, Prod.mk.injEq] at h; rw [← h.2]; exact B256.nil
  | n+1, st, b :: r, acc, text, r', h, hb => by
    simp only [lexNumber] at h
    cases hs : numStep st b with
    | error e => rw [hs] at h; simp at h
    | ok o =>
      rw [hs] at h
      cases o with
      | none =>
        simp only [Option.some.injEq, Prod.mk.injEq] at h
        rw [← h.2]; exact hb
      | some st' => exact lexNumber_B256 n st' r (b :: acc) text r' h hb.tail

/-! ### the shape of parsed trees -/

mutual
  def JT : TV → Bool
    | .scalar t => t.tag.isNone && jscalar t.body
    | .arr tag len items => tag.isNone && (len == -1) && JTl items
    | .map tag len es => tag.isNone && (len == -1) && JTe es
  def JTl : List TV → Bool
    | [] => true
    | v :: vs => JT v && JTl vs
  def JTe : List (TV × TV) → Bool
    | [] => true
    | (k, v) :: es =>
      (match k with
       | .scalar t => t.tag.isNone && (match t.body with | .str s => s.all (· < 256) | _ => false)
       | _ => false) && JT v && JTe es
end

theorem all_of_B256 {s : Bytes} (h : B256 s) : s.all (· < 256) = true := by
  simp only [List.all_eq_true, decide_eq_true_eq]; exact h

theorem B256_of_all {s : Bytes} (h : s.all (· < 256) = true) : B256 s := by
  simp only [List.all_eq_true, decide_eq_true_eq] at h; exact h

theorem refScalar_JT (b : Nat) (r : Bytes) (body : Body) (r' : Bytes) (h : refScalar b r = some (body, r'))
    (hr : B256 r) : jscalar body = true ∧ B256 r' := by
  unfold refScalar at h
  split at h
  · cases hl : lexString (r.length + 1) .normal r [] with
    | none => rw [hl] at h; simp at h
    | some p =>
      obtain ⟨raw, r1⟩ := p
      rw [hl] at h
      simp only [Option.map_some, Option.some.injEq, Prod.mk.injEq] at h
      obtain ⟨h1, h2⟩ := lexString_B256 _ _ _ _ _ _ hl hr B256.nil
      rw [← h.1, ← h.2]
      exact ⟨all_of_B256 (unq_B256 raw h1), h2⟩
  split at h
  · split at h
    · simp only [Option.some.injEq, Prod.mk.injEq] at h; rw [← h.1, ← h.2]; exact ⟨rfl, hr.drop _⟩
    · cases h
  split at h
  · split at h
    · simp only [Option.some.injEq, Prod.mk.injEq] at h; rw [← h.1, ← h.2]; exact ⟨rfl, hr.drop _⟩
    · cases h
  split at h
  · split at h
    · simp only [Option.some.injEq, Prod.mk.injEq] at h; rw [← h.1, ← h.2]; exact ⟨rfl, hr.drop _⟩
    · cases h
  split at h
  · simp only at h
    split at h
    · cases h
    · rename_i text r1 hl
      split at h
      · rename_i body' hnt
        simp only [Option.some.injEq, Prod.mk.injEq] at h
        rw [← h.1, ← h.2]
        exact ⟨numTok_jscalar _ _ hnt, lexNumber_B256 _ _ _ _ _ _ hl hr⟩
      · cases h
  · cases h

theorem es_B256 (sm : Bool) (b : Nat) (r ks : Bytes) (h : es sm b r = some ks) (hb : B256 (b :: r)) : B256 ks := by
  unfold es at h
  split at h
  · split at h
    · simp only [Option.some.injEq] at h; rw [← h]; exact skip_B256 hb.tail
    · cases h
  · simp only [Option.some.injEq] at h; rw [← h]; exact hb

def PVJ (f : Nat) : Prop := ∀ (bs : Bytes) (v : TV) (r' : Bytes),
  parseValue f bs = some (v, r') → B256 bs → JT v = true ∧ B256 r'
def PEJ (f : Nat) : Prop := ∀ (bs : Bytes) (sm : Bool) (vs : List TV) (r' : Bytes),
  parseElements f bs sm = some (vs, r') → B256 bs → JTl vs = true ∧ B256 r'
def PMJ (f : Nat) : Prop := ∀ (bs : Bytes) (sm : Bool) (ms : List (TV × TV)) (r' : Bytes),
  parseMembers f bs sm = some (ms, r') → B256 bs → JTe ms = true ∧ B256 r'

theorem parse_JT_all (f : Nat) : PVJ f ∧ PEJ f ∧ PMJ f := by
  induction f with
  | zero =>
    refine ⟨?_, ?_, ?_⟩
    · intro bs v r' h; simp [parseValue] at h
    · intro bs sm vs r' h; simp [parseElements] at h
    · intro bs sm ms r' h; simp [parseMembers] at h
  | succ f ih =>
    obtain ⟨ihV, ihE, ihM⟩ := ih
    refine ⟨?_, ?_, ?_⟩
    · intro bs v r' h hB
      rw [parseValue_succ] at h
      have hsb := skip_B256 hB
      cases hs : skip bs with
      | nil => rw [hs] at h; simp at h
      | cons b r =>
        rw [hs] at h hsb
        simp only at h
        split at h
        · cases hm : parseMembers f r false with
          | none => rw [hm] at h; simp at h
          | some p =>
            obtain ⟨ms, r1⟩ := p
            rw [hm] at h
            simp only [Option.map_some, Option.some.injEq, Prod.mk.injEq] at h
            have := ihM _ _ _ _ hm hsb.tail
            rw [← h.1, ← h.2]
            exact ⟨by simp [JT, this.1], this.2⟩
        split at h
        · cases hm : parseElements f r false with
          | none => rw [hm] at h; simp at h
          | some p =>
            obtain ⟨vs, r1⟩ := p
            rw [hm] at h
            simp only [Option.map_some, Option.some.injEq, Prod.mk.injEq] at h
            have := ihE _ _ _ _ hm hsb.tail
            rw [← h.1, ← h.2]
            exact ⟨by simp [JT, this.1], this.2⟩
        · cases hm : refScalar b r with
          | none => rw [hm] at h; simp at h
          | some p =>
            obtain ⟨body, r1⟩ := p
            rw [hm] at h
            simp only [Option.map_some, Option.some.injEq, Prod.mk.injEq] at h
            have := refScalar_JT _ _ _ _ hm hsb.tail
            rw [← h.1, ← h.2]
            exact ⟨by simp [JT, this.1], this.2⟩
    · intro bs sm vs r' h hB
      rw [parseElements_succ] at h
      have hsb := skip_B256 hB
      cases hs : skip bs with
      | nil => rw [hs] at h; simp at h
      | cons b r =>
        rw [hs] at h hsb
        simp only at h
        split at h
        · simp only [Option.some.injEq, Prod.mk.injEq] at h
          rw [← h.1, ← h.2]; exact ⟨rfl, hsb.tail⟩
        cases he : es sm b r with
        | none => rw [he] at h; simp at h
        | some ks =>
          have hk := es_B256 _ _ _ _ he hsb
          rw [he] at h
          cases ks with
          | nil => simp at h
          | cons b1 r1 =>
            simp only at h
            split at h
            · simp only [Option.some.injEq, Prod.mk.injEq] at h
              rw [← h.1, ← h.2]; exact ⟨rfl, hk.tail⟩
            cases hv : parseValue f (b1 :: r1) with
            | none => rw [hv] at h; simp at h
            | some p =>
              obtain ⟨v, r2⟩ := p
              rw [hv] at h
              simp only at h
              have h1 := ihV _ _ _ hv hk
              cases hm : parseElements f r2 true with
              | none => rw [hm] at h; simp at h
              | some p =>
                obtain ⟨vs', r3⟩ := p
                rw [hm] at h
                simp only [Option.map_some, Option.some.injEq, Prod.mk.injEq] at h
                have h2 := ihE _ _ _ _ hm h1.2
                rw [← h.1, ← h.2]
                exact ⟨by simp [JTl, h1.1, h2.1], h2.2⟩
    · intro bs sm ms r' h hB
      rw [parseMembers_succ] at h
      have hsb := skip_B256 hB
      cases hs : skip bs with
      | nil => rw [hs] at h; simp at h
      | cons b r =>
        rw [hs] at h hsb
        simp only at h
        split at h
        · simp only [Option.some.injEq, Prod.mk.injEq] at h
          rw [← h.1, ← h.2]; exact ⟨rfl, hsb.tail⟩
        cases he : es sm b r with
        | none => rw [he] at h; simp at h
        | some ks =>
          have hk := es_B256 _ _ _ _ he hsb
          rw [he] at h
          cases ks with
          | nil => simp at h
          | cons b1 r1 =>
            simp only at h
            split at h
            · simp only [Option.some.injEq, Prod.mk.injEq] at h
              rw [← h.1, ← h.2]; exact ⟨rfl, hk.tail⟩
            split at h
            · cases hl : lexString (r1.length + 1) .normal r1 [] with
              | none => rw [hl] at h; simp at h
              | some p =>
                obtain ⟨raw, r2⟩ := p
                rw [hl] at h
                simp only at h
                have h0 := lexString_B256 _ _ _ _ _ _ hl hk.tail B256.nil
                have hsb2 := skip_B256 h0.2
                cases hs2 : skip r2 with
                | nil => rw [hs2] at h; simp at h
                | cons c r3 =>
                  rw [hs2] at h hsb2
                  simp only at h
                  split at h
                  · cases hv : parseValue f r3 with
                    | none => rw [hv] at h; simp at h
                    | some p =>
                      obtain ⟨v, r4⟩ := p
                      rw [hv] at h
                      simp only at h
                      have h1 := ihV _ _ _ hv hsb2.tail
                      cases hm : parseMembers f r4 true with
                      | none => rw [hm] at h; simp at h
                      | some p =>
                        obtain ⟨ms', r5⟩ := p
                        rw [hm] at h
                        simp only [Option.map_some, Option.some.injEq, Prod.mk.injEq] at h
                        have h2 := ihM _ _ _ _ hm h1.2
                        rw [← h.1, ← h.2]
                        have hkey := all_of_B256 (unq_B256 raw h0.1)
                        unfold unq
                        refine ⟨?_, h2.2⟩
                        simp only [JTe, Option.isNone_none, Bool.true_and, Bool.and_eq_true]
                        exact ⟨⟨hkey, h1.1⟩, h2.1⟩
                  · cases h
            · cases h

theorem parse_JT (bs : Bytes) (v : TV) (rest : Bytes) (hb : ∀ x ∈ bs, x < 256)
    (hp : Spec.Json.parse bs = some (v, rest)) : JT v = true :=
  ((parse_JT_all _).1 bs v rest hp hb).1

/-! ### consequences for the CBOR side -/

theorem tag_none {o : Option Int} (h : o.isNone = true) : o = none := by
  cases o <;> simp_all

theorem jscalar_inRange (t : Tok) (ht : t.tag.isNone = true) (hj : jscalar t.body = true) : C02.tokInRange t = true := by
  unfold C02.tokInRange
  rw [tag_none ht]
  cases hb : t.body <;> rw [hb] at hj <;> simp [jscalar] at hj <;> simp [hj]

mutual
  theorem wfV : ∀ (v : TV), JT v = true → C02.WFv v = true
    | .scalar t, h => by
      simp only [JT, Bool.and_eq_true] at h
      simpa [C02.WFv] using jscalar_inRange t h.1 h.2
    | .arr tag len items, h => by
      simp only [JT, Bool.and_eq_true, beq_iff_eq] at h
      obtain ⟨⟨ht, hl⟩, hi⟩ := h
      rw [tag_none ht, hl]
      simp only [C02.WFv, Bool.true_and, Bool.and_eq_true, decide_eq_true_eq]
      exact ⟨by unfold two63; omega, wfL items hi⟩
    | .map tag len es, h => by
      simp only [JT, Bool.and_eq_true, beq_iff_eq] at h
      obtain ⟨⟨ht, hl⟩, hi⟩ := h
      rw [tag_none ht, hl]
      simp only [C02.WFv, Bool.true_and, Bool.and_eq_true, decide_eq_true_eq]
      exact ⟨by unfold two63; omega, wfE es hi⟩
  theorem wfL : ∀ (vs : List TV), JTl vs = true → C02.WFl vs = true
    | [], _ => rfl
    | v :: vs, h => by
      simp only [JTl, Bool.and_eq_true] at h
      simp only [C02.WFl, Bool.and_eq_true]
      exact ⟨wfV v h.1, wfL vs h.2⟩
  theorem wfE : ∀ (es : List (TV × TV)), JTe es = true → C02.WFe es = true
    | [], _ => rfl
    | (k, v) :: es, h => by
      simp only [JTe, Bool.and_eq_true] at h
      obtain ⟨⟨hk, hv⟩, hes⟩ := h
      cases k with
      | scalar t =>
        simp only [Bool.and_eq_true] at hk
        obtain ⟨ht, hk⟩ := hk
        cases hb : t.body <;> rw [hb] at hk <;> simp at hk
        have hr : C02.tokInRange t = true := jscalar_inRange t ht (by rw [hb]; simpa [jscalar] using hk)
        simp only [C02.WFe, C02.WFv, C02.keyTok, hb, keyOk, hr, Bool.true_and, Bool.and_eq_true]
        exact ⟨wfV v hv, wfE es hes⟩
      | arr _ _ _ => simp at hk
      | map _ _ _ => simp at hk
end

theorem beBytes_B256 : ∀ (n v : Nat), B256 (beBytes n v)
  | 0, v => by simp only [beBytes]; exact B256.nil
  | n+1, v => by
    simp only [beBytes]
    exact B256.cons (Nat.mod_lt _ (by decide)) (beBytes_B256 n v)

theorem head_B256 (m n : Nat) (hm : m ≤ 228) : B256 (Spec.Cbor.head m n) := by
  unfold Spec.Cbor.head
  split
  · exact B256.cons (by omega) B256.nil
  split
  · exact B256.cons (by omega) (B256.cons (by omega) B256.nil)
  split
  · exact B256.cons (by omega) (beBytes_B256 _ _)
  split
  · exact B256.cons (by omega) (beBytes_B256 _ _)
  · exact B256.cons (by omega) (beBytes_B256 _ _)

theorem encBody_B256 (b : Body) (h : jscalar b = true) : B256 (Spec.Cbor.encBody b) := by
  cases b <;> simp [jscalar] at h <;> simp only [Spec.Cbor.encBody]
  · exact B256.cons (by decide) B256.nil
  · exact B256.append (head_B256 _ _ (by decide)) (B256_of_all (by simpa using h))
  · rename_i x; cases x <;> exact B256.cons (by decide) B256.nil
  · split <;> exact head_B256 _ _ (by decide)
  · exact head_B256 _ _ (by decide)
  · exact B256.cons (by decide) (beBytes_B256 _ _)

mutual
  theorem encV_B256 : ∀ (v : TV), JT v = true → B256 (Spec.Cbor.enc v)
    | .scalar t, h => by
      simp only [JT, Bool.and_eq_true] at h
      simp only [Spec.Cbor.enc, tag_none h.1, Spec.Cbor.tagBytes, List.nil_append]
      exact encBody_B256 _ h.2
    | .arr tag len items, h => by
      simp only [JT, Bool.and_eq_true, beq_iff_eq] at h
      obtain ⟨⟨ht, hl⟩, hi⟩ := h
      rw [tag_none ht, hl]
      simp only [Spec.Cbor.enc, Spec.Cbor.tagBytes, List.nil_append, show ¬ ((-1 : Int) ≥ 0) by decide, if_false]
      exact B256.append (B256.append (B256.cons (by decide) B256.nil) (encL_B256 items hi))
        (B256.cons (by decide) B256.nil)
    | .map tag len es, h => by
      simp only [JT, Bool.and_eq_true, beq_iff_eq] at h
      obtain ⟨⟨ht, hl⟩, hi⟩ := h
      rw [tag_none ht, hl]
      simp only [Spec.Cbor.enc, Spec.Cbor.tagBytes, List.nil_append, show ¬ ((-1 : Int) ≥ 0) by decide, if_false]
      exact B256.append (B256.append (B256.cons (by decide) B256.nil) (encE_B256 es hi))
        (B256.cons (by decide) B256.nil)
  theorem encL_B256 : ∀ (vs : List TV), JTl vs = true → B256 (Spec.Cbor.encList vs)
    | [], _ => by simp only [Spec.Cbor.encList]; exact B256.nil
    | v :: vs, h => by
      simp only [JTl, Bool.and_eq_true] at h
      simp only [Spec.Cbor.encList]
      exact B256.append (encV_B256 v h.1) (encL_B256 vs h.2)
  theorem encE_B256 : ∀ (es : List (TV × TV)), JTe es = true → B256 (Spec.Cbor.encEntries es)
    | [], _ => by simp only [Spec.Cbor.encEntries]; exact B256.nil
    | (k, v) :: es, h => by
      simp only [JTe, Bool.and_eq_true] at h
      obtain ⟨⟨hk, hv⟩, hes⟩ := h
      simp only [Spec.Cbor.encEntries]
      refine B256.append (B256.append ?_ (encV_B256 v hv)) (encE_B256 es hes)
      cases k with
      | scalar t =>
        simp only [Bool.and_eq_true] at hk
        obtain ⟨ht, hk⟩ := hk
        cases hb : t.body <;> rw [hb] at hk <;> simp at hk
        simp only [Spec.Cbor.enc, tag_none ht, Spec.Cbor.tagBytes, List.nil_append, hb]
        exact encBody_B256 _ (by simpa [jscalar] using hk)
      | arr _ _ _ => simp at hk
      | map _ _ _ => simp at hk
end

/-- every string token is within the decoder's 32 MiB cap -/
def StrBound (ts : List Tok) : Prop := ∀ t ∈ ts, ∀ s, t.body = .str s → s.length ≤ 33554432

mutual
  theorem supV : ∀ (v : TV), JT v = true → StrBound v.flatten → C02.Supported v = true
    | .scalar t, h, hb => by
      simp only [JT, Bool.and_eq_true] at h
      have := hb t (by simp [TV.flatten])
      cases hbd : t.body <;> simp only [C02.Supported, hbd]
      · simpa using this _ hbd
      · rw [hbd] at h; simp [jscalar] at h
    | .arr tag len items, h, hb => by
      simp only [JT, Bool.and_eq_true, beq_iff_eq] at h
      obtain ⟨⟨ht, hl⟩, hi⟩ := h
      rw [hl]
      simp only [C02.Supported, Bool.and_eq_true]
      exact ⟨by simp, supL items hi (fun t ht => hb t (by simp [TV.flatten, ht]))⟩
    | .map tag len es, h, hb => by
      simp only [JT, Bool.and_eq_true, beq_iff_eq] at h
      obtain ⟨⟨ht, hl⟩, hi⟩ := h
      rw [hl]
      simp only [C02.Supported, Bool.and_eq_true]
      exact ⟨by simp, supE es hi (fun t ht => hb t (by simp [TV.flatten, ht]))⟩
  theorem supL : ∀ (vs : List TV), JTl vs = true → StrBound (TV.flattenList vs) → C02.SupportedL vs = true
    | [], _, _ => rfl
    | v :: vs, h, hb => by
      simp only [JTl, Bool.and_eq_true] at h
      simp only [C02.SupportedL, Bool.and_eq_true]
      exact ⟨supV v h.1 (fun t ht => hb t (by simp [TV.flattenList, ht])),
        supL vs h.2 (fun t ht => hb t (by simp [TV.flattenList, ht]))⟩
  theorem supE : ∀ (es : List (TV × TV)), JTe es = true → StrBound (TV.flattenEntries es) → C02.SupportedE es = true
    | [], _, _ => rfl
    | (k, v) :: es, h, hb => by
      simp only [JTe, Bool.and_eq_true] at h
      obtain ⟨⟨hk, hv⟩, hes⟩ := h
      simp only [C02.SupportedE, Bool.and_eq_true]
      refine ⟨⟨?_, supV v hv (fun t ht => hb t (by simp [TV.flattenEntries, ht]))⟩,
        supE es hes (fun t ht => hb t (by simp [TV.flattenEntries, ht]))⟩
      cases k with
      | scalar t =>
        simp only [Bool.and_eq_true] at hk
        obtain ⟨ht, hk⟩ := hk
        cases hbd : t.body <;> rw [hbd] at hk <;> simp at hk
        have := hb t (by simp [TV.flattenEntries, TV.flatten]) _ hbd
        simp only [C02.Supported, hbd]
        simpa using this
      | arr _ _ _ => simp at hk
      | map _ _ _ => simp at hk
end

end Refmt.PumpL
