-- the JSON round-trip induction over `fullTy`: bare machines of the plain kinds and of struct maps
-- (see RefmtProofs/Props/C01JsonFull.lean; mirrors RefmtProofs/Lemmas/FullRT2.lean)
import RefmtProofs.Lemmas.JFullRT1
set_option linter.unusedSimpArgs false
set_option linter.unusedVariables false
set_option linter.unusedTactic false
set_option linter.unreachableTactic false
namespace Refmt.Obj
open Refmt Refmt.C13 Refmt.C11 Refmt.C12

local notation "rt" => Spec.Json.retypeTok

variable {ts : Types} {a : Atlas} {trs : Trs} {it : IfaceTys}

/-! ### scalars -/

/-- a token that is not a float, with a valid UTF-8 payload if it is a string, is stored the same once re-typed -/
theorem storePrim_rt' {d : TyDesc} {t : Tok} {v : Val} (hnf : ∀ b, t.body ≠ .float b)
    (hstr : ∀ s, t.body = .str s → toValidUtf8 s = s) (hs : storePrim d t = some v) :
    storePrim d (rt t) = some v := by
  obtain ⟨body, tag⟩ := t
  rw [C01L.storePrim_tagless] at hs
  cases body with
  | uint n =>
    simp only [Spec.Json.retypeTok]
    split
    · next hn =>
      have := C01L.storePrim_canon' d ⟨.int n, none⟩
      have hc : C01L.canon' ⟨.int n, none⟩ = ⟨.uint n, none⟩ := by
        simp [C01L.canon', hn]
      rw [hc] at this
      rw [← this]; exact hs
    · exact hs
  | float b => exact absurd rfl (hnf b)
  | str s => rw [rt_str (hstr s rfl)]; exact hs
  | mapOpen l => cases d <;> simp [storePrim] at hs
  | arrOpen l => cases d <;> simp [storePrim] at hs
  | _ => exact hs

theorem narrowF32_zero : FloatText.narrowF32 0 = 0 := by decide

theorem normFloat_ne {b : Nat} (h : b ≠ 9223372036854775808) : normFloat .json b = b := by
  simp [normFloat, h]

theorem normFloat_negZero : normFloat .json 9223372036854775808 = 0 := by
  simp [normFloat]

/-- the re-typed token of a finite float: the float itself, or an integer that converts to it (`-0` ↦ `0`) -/
theorem rt_float_sem (b : Nat) (tg : Option Int) (hb : b < two64) (hfin : floatNonFinite b = false) :
    (b ≠ 9223372036854775808 ∧ rt ⟨.float b, tg⟩ = ⟨.float b, none⟩) ∨
    (∃ i : Int, rt ⟨.float b, tg⟩ = ⟨.int i, none⟩ ∧ FloatText.intToF64 i = normFloat .json b) := by
  by_cases hz : b = 9223372036854775808
  · subst hz
    right
    refine ⟨0, ?_, ?_⟩
    · simp only [Spec.Json.retypeTok, C03Sem.jsonFloat_negZero, C03Sem.numTok_negZero]
    · rw [normFloat_negZero]; exact C03Sem.intToF64_zero
  · rcases C03Sem.numTok_jsonFloat_kinds b hb hfin with h | ⟨i, h, hi⟩
    · left
      refine ⟨hz, ?_⟩
      simp only [Spec.Json.retypeTok, h]
    · right
      refine ⟨i, ?_, ?_⟩
      · simp only [Spec.Json.retypeTok, h]
      · rw [hi, normFloat_ne hz]
        simp [C03Sem.readBack, hz]

/-- the primitive machine under JSON: the token written, once re-typed, is read back as `jprim v` -/
theorem prim_rtJ (h id : Nat) (v : Val) (toks : List Tok) (hv : hasTy ts h id v = true)
    (hd : (∃ k b, ts.get id = .prim k b) ∨ (∃ b, ts.get id = .bytes b) ∨ (∃ n, ts.get id = .byteArr n))
    (hj : jsonScalar v = true) (hm : primTok ts id v = ⟨toks, none⟩) :
    ∃ tok, toks = [tok] ∧ storePrim (ts.get id) (rt tok) = some (jprim v) ∧ tok.body ≠ .arrClose ∧ tok.body ≠ .mapClose ∧
      (tok = ⟨.null, none⟩ ∨ tok.body ≠ .null) := by
  obtain ⟨tok, rfl, hs, hc1, hc2, hnull⟩ := prim_rt ts h id v toks hv hd hm
  refine ⟨tok, rfl, ?_, hc1, hc2, hnull⟩
  cases v with
  | float b =>
    simp [primTok, MOut.ok] at hm
    subst hm
    have hfin : floatNonFinite b = false := by simpa [jsonScalar] using hj
    cases h with
    | zero => simp [hasTy] at hv
    | succ h =>
    cases hdd : ts.get id with
    | prim k bi =>
      cases k <;> simp [hasTy, hdd] at hv
      · -- f32
        obtain ⟨hb, hnar⟩ := hv
        rcases rt_float_sem b none hb hfin with ⟨hz, h1⟩ | ⟨i, h1, hi⟩
        · rw [h1]; simp [storePrim, jprim, normFloat_ne hz, hnar]
        · rw [h1]
          simp only [storePrim, jprim, hi]
          by_cases hz : b = 9223372036854775808
          · subst hz; rw [normFloat_negZero, narrowF32_zero]
          · rw [normFloat_ne hz, hnar]
      · -- f64
        rcases rt_float_sem b none hv hfin with ⟨hz, h1⟩ | ⟨i, h1, hi⟩
        · rw [h1]; simp [storePrim, jprim, normFloat_ne hz]
        · rw [h1]; simp [storePrim, jprim, hi]
    | _ => simp [hasTy, hdd] at hv
  | str s =>
    have hs' : toValidUtf8 s = s := by simpa [jsonScalar] using hj
    simp [primTok, MOut.ok] at hm
    subst hm
    exact storePrim_rt' (by simp) (fun s' h' => by cases h'; exact hs') hs
  | bool b =>
    simp [primTok, MOut.ok] at hm; subst hm
    exact storePrim_rt' (by simp) (by simp) hs
  | int i =>
    simp [primTok, MOut.ok] at hm; subst hm
    exact storePrim_rt' (by simp) (by simp) hs
  | uint n =>
    simp [primTok, MOut.ok] at hm; subst hm
    exact storePrim_rt' (by simp) (by simp) hs
  | bytes o =>
    cases o with
    | none =>
      simp [primTok, MOut.ok] at hm; subst hm
      exact storePrim_rt' (by simp) (by simp) hs
    | some bs => simp [jsonScalar] at hj
  | byteArr bs => simp [jsonScalar] at hj
  | _ => simp [primTok, MOut.bad] at hm

theorem rtj_b_prim {f} (h id : Nat) (v : Val) (toks : List Tok) (g : Nat) (hv : hasTy ts h id v = true)
    (hd : (∃ k b, ts.get id = .prim k b) ∨ (∃ b, ts.get id = .bytes b) ∨ (∃ n, ts.get id = .byteArr n))
    (hpick : pickBare ts a id = .prim ∧ upickBare ts a id = .prim) (hg : f + 1 ≤ g)
    (hs : fullValJB ts a trs it g id (pickBare ts a id) v = true)
    (hm : marshalBare ts a trs (f+1) id (pickBare ts a id) v = ⟨toks, none⟩) :
    HeadSpec toks ∧ ∀ F, f + 1 < F → ∀ rest,
      unmBare ts a trs it F id (upickBare ts a id) (zeroVal ts 64 id) (toks.map rt ++ rest) =
        .ok (rtJB ts a trs it g id (pickBare ts a id) v) rest toks.length := by
  obtain ⟨g, rfl⟩ : ∃ g', g = g' + 1 := ⟨g - 1, by omega⟩
  rw [hpick.1, marshalBare_prim] at hm
  rw [hpick.1, fullValJB_prim] at hs
  obtain ⟨tok, rfl, hst, hc1, hc2, hnull⟩ := prim_rtJ h id v toks hv hd hs hm
  rw [hpick.1, hpick.2, rtJB_prim]
  refine ⟨?_, fun F hF rest => ?_⟩
  · rcases hnull with rfl | hnn
    · exact Or.inl ⟨none, rfl⟩
    · exact Or.inr ⟨tok, [], rfl, hnn, hc1, hc2⟩
  · obtain ⟨F, rfl⟩ : ∃ F', F = F' + 1 := ⟨F - 1, by omega⟩
    simp [unmBare_prim, hst]

/-! ### slices, arrays, maps -/

theorem rtj_b_slice {f} (ih : RTJ ts a trs it f) (p h id e : Nat) (v : Val) (toks : List Tok) (g : Nat) (hp64 : p + 1 ≤ 64)
    (hd : ts.get id = .slice e) (hn : a.get id = none) (hpe : fullTy ts a p e = true)
    (hv : hasTy ts h id v = true) (hg : f + 1 ≤ g) (hs : fullValJB ts a trs it g id (pickBare ts a id) v = true)
    (hm : marshalBare ts a trs (f+1) id (pickBare ts a id) v = ⟨toks, none⟩) :
    HeadSpec toks ∧ ∀ F, f + 1 < F → ∀ rest,
      unmBare ts a trs it F id (upickBare ts a id) (zeroVal ts 64 id) (toks.map rt ++ rest) =
        .ok (rtJB ts a trs it g id (pickBare ts a id) v) rest toks.length := by
  obtain ⟨g, rfl⟩ : ∃ g', g = g' + 1 := ⟨g - 1, by omega⟩
  obtain ⟨hpk, hupk⟩ := pick_slice hd hn
  rw [hpk] at hm hs ⊢; rw [hupk]
  rw [fullValJB_slice] at hs
  cases h with
  | zero => simp [hasTy] at hv
  | succ h =>
  cases v <;> simp only [hasTy, hd] at hv <;> try (cases hv; done)
  rename_i o
  cases o with
  | none =>
    rw [marshalBare_slice] at hm
    simp [MOut.ok] at hm; subst hm
    refine ⟨Or.inl ⟨none, rfl⟩, fun F hF rest => ?_⟩
    obtain ⟨F, rfl⟩ : ∃ F', F = F' + 1 := ⟨F - 1, by omega⟩
    simp [unmBare_slice, rtJB_slice]
  | some es =>
    rw [marshalBare_slice] at hm
    simp only at hm
    obtain ⟨t1, t23, h1, h23, rfl⟩ := seq_ok hm
    obtain ⟨tl, tc, h2, h3, rfl⟩ := seq_ok h23
    simp [MOut.ok] at h1 h3; subst h1 h3
    have hv' : ∀ x ∈ es, hasTy ts h e x = true := by simpa [hasTy, hd] using hv
    have hs' : ∀ x ∈ es, fullValJ ts a trs it g e x = true := by simpa using hs
    refine ⟨Or.inr ⟨⟨.arrOpen es.length, none⟩, tl ++ [⟨.arrClose, none⟩], rfl, by simp, by simp, by simp⟩, fun F hF rest => ?_⟩
    obtain ⟨F, rfl⟩ : ∃ F', F = F' + 1 := ⟨F - 1, by omega⟩
    have hl := ih.l p h e es tl g (by omega) hpe hv' (by omega) hs' h2 F (by omega) none [] rest (by simp)
    have e1 : ([(⟨.arrOpen es.length, none⟩ : Tok)] ++ (tl ++ [(⟨.arrClose, none⟩ : Tok)])).map rt ++ rest =
        ⟨.arrOpen (-1), none⟩ :: (tl.map rt ++ ⟨.arrClose, none⟩ :: rest) := by simp
    rw [e1, unmBare_slice, rtJB_slice]
    simp [hl]

theorem rtj_b_arr {f} (ih : RTJ ts a trs it f) (p h id n e : Nat) (v : Val) (toks : List Tok) (g : Nat) (hp64 : p + 1 ≤ 64)
    (hd : ts.get id = .arr n e) (hn : a.get id = none) (hpe : fullTy ts a p e = true)
    (hv : hasTy ts h id v = true) (hg : f + 1 ≤ g) (hs : fullValJB ts a trs it g id (pickBare ts a id) v = true)
    (hm : marshalBare ts a trs (f+1) id (pickBare ts a id) v = ⟨toks, none⟩) :
    HeadSpec toks ∧ ∀ F, f + 1 < F → ∀ rest,
      unmBare ts a trs it F id (upickBare ts a id) (zeroVal ts 64 id) (toks.map rt ++ rest) =
        .ok (rtJB ts a trs it g id (pickBare ts a id) v) rest toks.length := by
  obtain ⟨g, rfl⟩ : ∃ g', g = g' + 1 := ⟨g - 1, by omega⟩
  obtain ⟨hpk, hupk⟩ := pick_arr hd hn
  rw [hpk] at hm hs ⊢; rw [hupk]
  rw [fullValJB_array] at hs
  cases h with
  | zero => simp [hasTy] at hv
  | succ h =>
  cases v <;> simp only [hasTy, hd] at hv <;> try (cases hv; done)
  rename_i es
  rw [marshalBare_array] at hm
  simp only at hm
  obtain ⟨t1, t23, h1, h23, rfl⟩ := seq_ok hm
  obtain ⟨tl, tc, h2, h3, rfl⟩ := seq_ok h23
  simp [MOut.ok] at h1 h3; subst h1 h3
  have hv' : es.length = n ∧ ∀ x ∈ es, hasTy ts h e x = true := by simpa [hasTy, hd] using hv
  have hs' : ∀ x ∈ es, fullValJ ts a trs it g e x = true := by simpa using hs
  refine ⟨Or.inr ⟨⟨.arrOpen es.length, none⟩, tl ++ [⟨.arrClose, none⟩], rfl, by simp, by simp, by simp⟩, fun F hF rest => ?_⟩
  obtain ⟨F, rfl⟩ : ∃ F', F = F' + 1 := ⟨F - 1, by omega⟩
  have hl := ih.l p h e es tl g (by omega) hpe hv'.2 (by omega) hs' h2 F (by omega) (some n) [] rest (by simp [hv'.1])
  have e1 : ([(⟨.arrOpen es.length, none⟩ : Tok)] ++ (tl ++ [(⟨.arrClose, none⟩ : Tok)])).map rt ++ rest =
      ⟨.arrOpen (-1), none⟩ :: (tl.map rt ++ ⟨.arrClose, none⟩ :: rest) := by simp
  rw [e1, unmBare_array, rtJB_array]
  simp [hl, arrFix, hv'.1]

theorem utf8Keys_inv {es : List (Val × Val)} (h : utf8Keys es = true) :
    ∀ q ∈ es, toValidUtf8 (keyStr q.1) = keyStr q.1 := by
  intro q hq
  simpa using List.all_eq_true.mp h q hq

/-- the map machine on string keys: the unmarshaller's current value only matters through its entries -/
theorem rtj_b_map_gen {f} (ih : RTJ ts a trs it f) (p h id kt vt : Nat) (bk : Bool) (mode : KeySort) (v : Val) (toks : List Tok) (g : Nat)
    (hp64 : p + 1 ≤ 64) (hkt : ts.get kt = .prim .string bk) (hpe : fullTy ts a p vt = true)
    (hvv : ∀ es, v = .map (some es) → ∀ q ∈ es, hasTy ts h vt q.2 = true) (hvm : ∃ o, v = .map o)
    (hg : f + 1 ≤ g) (hs : fullValJB ts a trs it g id (.map kt vt mode) v = true)
    (hm : marshalBare ts a trs (f+1) id (.map kt vt mode) v = ⟨toks, none⟩) :
    HeadSpec toks ∧ ∀ F, f + 1 < F → ∀ cur rest, mapCur0 cur = [] →
      unmBare ts a trs it F id (.map kt vt) cur (toks.map rt ++ rest) =
        .ok (rtJB ts a trs it g id (.map kt vt mode) v) rest toks.length := by
  obtain ⟨g, rfl⟩ : ∃ g', g = g' + 1 := ⟨g - 1, by omega⟩
  have hmk : mkeyFn ts a kt = some none := by simp [mkeyFn, hkt]
  have huk : ukeyFn ts a kt = some none := by simp [ukeyFn, hkt]
  rw [fullValJB_map] at hs
  obtain ⟨o, rfl⟩ := hvm
  cases o with
  | none =>
    rw [marshalBare_map, hmk] at hm
    simp [MOut.ok] at hm; subst hm
    refine ⟨Or.inl ⟨none, rfl⟩, fun F hF cur rest hcur => ?_⟩
    obtain ⟨F, rfl⟩ : ∃ F', F = F' + 1 := ⟨F - 1, by omega⟩
    simp [unmBare_map, huk, rtJB_map]
  | some es =>
    simp only [Bool.and_eq_true, List.all_eq_true] at hs
    obtain ⟨⟨hsk, hutf⟩, hsv⟩ := hs
    obtain ⟨hkeys, hnd⟩ := strKeysB_inv hsk
    have hutf' := utf8Keys_inv hutf
    have hv' := hvv es rfl
    rw [marshalBare_map, hmk] at hm
    simp only [Option.getD_some, mapM_keys es hkeys, Option.isNone_some, Bool.false_eq_true, if_false] at hm
    obtain ⟨t1, t23, h1, h23, rfl⟩ := seq_ok hm
    obtain ⟨tl, tc, h2, h3, rfl⟩ := seq_ok h23
    simp [MOut.ok] at h1 h3; subst h1 h3
    refine ⟨Or.inr ⟨⟨.mapOpen es.length, none⟩, tl ++ [⟨.mapClose, none⟩], rfl, by simp, by simp, by simp⟩, fun F hF cur rest hcur => ?_⟩
    obtain ⟨F, rfl⟩ : ∃ F', F = F' + 1 := ⟨F - 1, by omega⟩
    let kvs := es.map fun (q : Val × Val) => (keyStr q.1, q.2)
    have hperm := List.mergeSort_perm kvs (fun x y => keyLe mode x.1 y.1)
    have hmem : ∀ q ∈ sortKeys mode kvs, ∃ q' ∈ es, q.2 = q'.2 ∧ q.1 = keyStr q'.1 := by
      intro q hq
      have : q ∈ kvs := hperm.mem_iff.mp hq
      simp only [kvs, List.mem_map] at this
      obtain ⟨q', hq', rfl⟩ := this
      exact ⟨q', hq', rfl, rfl⟩
    have hm' := ih.m p h vt (sortKeys mode kvs) tl g (by omega) hpe
      (fun q hq => by obtain ⟨q', hq', he, _⟩ := hmem q hq; rw [he]; exact hv' q' hq') (by omega)
      (fun q hq => by obtain ⟨q', hq', he, _⟩ := hmem q hq; rw [he]; exact hsv q' hq')
      (by
        have : ((sortKeys mode kvs).map (·.1)).Perm (kvs.map (·.1)) := hperm.map _
        rw [this.nodup_iff]
        simpa [kvs, List.map_map, Function.comp_def] using hnd)
      (fun q hq => by obtain ⟨q', hq', _, he⟩ := hmem q hq; rw [he]; exact hutf' q' hq')
      h2 F (by omega) [] rest (by intro q hq; simp [hasKey])
    have e1 : ([(⟨.mapOpen es.length, none⟩ : Tok)] ++ (tl ++ [(⟨.mapClose, none⟩ : Tok)])).map rt ++ rest =
        ⟨.mapOpen (-1), none⟩ :: (tl.map rt ++ ⟨.mapClose, none⟩ :: rest) := by simp
    rw [e1, unmBare_map, huk, rtJB_map]
    simp only [hcur]
    simp [hm', kvs]

theorem rtj_b_map {f} (ih : RTJ ts a trs it f) (p h id kt vt : Nat) (bk : Bool) (v : Val) (toks : List Tok) (g : Nat) (hp64 : p + 1 ≤ 64)
    (hd : ts.get id = .map kt vt) (hn : a.get id = none) (hkt : ts.get kt = .prim .string bk) (hpe : fullTy ts a p vt = true)
    (hv : hasTy ts h id v = true) (hg : f + 1 ≤ g) (hs : fullValJB ts a trs it g id (pickBare ts a id) v = true)
    (hm : marshalBare ts a trs (f+1) id (pickBare ts a id) v = ⟨toks, none⟩) :
    HeadSpec toks ∧ ∀ F, f + 1 < F → ∀ rest,
      unmBare ts a trs it F id (upickBare ts a id) (zeroVal ts 64 id) (toks.map rt ++ rest) =
        .ok (rtJB ts a trs it g id (pickBare ts a id) v) rest toks.length := by
  obtain ⟨hpk, hupk⟩ := pick_map hd hn
  rw [hpk] at hm hs ⊢; rw [hupk]
  cases h with
  | zero => simp [hasTy] at hv
  | succ h =>
  have hvm : ∃ o, v = .map o := by
    cases v <;> simp only [hasTy, hd] at hv <;> try (cases hv; done)
    exact ⟨_, rfl⟩
  have hvv : ∀ es, v = .map (some es) → ∀ q ∈ es, hasTy ts h vt q.2 = true := by
    intro es hes q hq
    subst hes
    obtain ⟨q1, q2⟩ := q
    have := hv
    simp [hasTy, hd] at this
    exact (this q1 q2 hq).2
  obtain ⟨h1, h2⟩ := rtj_b_map_gen ih p h id kt vt bk a.defaultSort v toks g hp64 hkt hpe hvv hvm hg hs hm
  exact ⟨h1, fun F hF rest => h2 F hF _ rest (zeroVal_mapCur0 ts 64 id)⟩

/-! ### struct maps -/

theorem rtj_b_struct {f} (hz : ZeroStable ts) (hnm : namesUtf8 a = true) (ih : RTJ ts a trs it f) (p h id : Nat) (fds : List FieldDesc)
    (reg : Bool) (ty : Nat)
    (tag : Option Int) (fields : List SMField) (v : Val) (toks : List Tok) (g : Nat) (hp64 : p + 1 ≤ 64)
    (hd : ts.get id = .struct fds) (he : a.get id = some ⟨reg, ty, tag, .structMap fields⟩)
    (hnames : (fields.map (·.name)).Nodup) (hroutes : (fields.map (·.route)).Nodup) (hfok : ∀ fld ∈ fields, FOKF ts a p fds fld)
    (hv : hasTy ts h id v = true) (hg : f + 1 ≤ g) (hs : fullValJB ts a trs it g id (pickBare ts a id) v = true)
    (hm : marshalBare ts a trs (f+1) id (pickBare ts a id) v = ⟨toks, none⟩) :
    HeadSpec toks ∧ ∀ F, f + 1 < F → ∀ rest,
      unmBare ts a trs it F id (upickBare ts a id) (zeroVal ts 64 id) (toks.map rt ++ rest) =
        .ok (rtJB ts a trs it g id (pickBare ts a id) v) rest toks.length := by
  obtain ⟨g, rfl⟩ : ∃ g', g = g' + 1 := ⟨g - 1, by omega⟩
  obtain ⟨hpk, hupk⟩ := pick_struct hd he
  rw [hpk] at hm hs ⊢; rw [hupk]
  rw [fullValJB_structMap] at hs
  simp only [List.all_eq_true] at hs
  have hutf := names_struct hnm he
  cases h with
  | zero => simp [hasTy] at hv
  | succ h =>
  cases v <;> simp only [hasTy, hd] at hv <;> try (cases hv; done)
  rename_i vs
  simp only [Bool.and_eq_true, beq_iff_eq, List.all_eq_true] at hv
  obtain ⟨hvl, hvall⟩ := hv
  have hv' : ∀ (i : Nat) fd x, fds[i]? = some fd → vs[i]? = some x → hasTy ts h fd.ty x = true := by
    intro i fd x h1 h2
    have : (fd, x) ∈ fds.zip vs := by
      apply List.mem_of_getElem? (i := i)
      simp [List.getElem?_zip_eq_some, h1, h2]
    exact hvall (fd, x) this
  rw [marshalBare_structMap] at hm
  simp only at hm
  obtain ⟨t1, t23, h1, h23, rfl⟩ := seq_ok hm
  obtain ⟨tl, tc, h2, h3, rfl⟩ := seq_ok h23
  simp [MOut.ok] at h1 h3; subst h1 h3
  refine ⟨Or.inr ⟨⟨.mapOpen (fields.filter (emitP (.struct vs))).length, tag⟩, tl ++ [⟨.mapClose, none⟩], rfl, by simp, by simp, by simp⟩,
    fun F hF rest => ?_⟩
  obtain ⟨F, rfl⟩ : ∃ F', F = F' + 1 := ⟨F - 1, by omega⟩
  have hs' := ih.s p h id fds fields (fields.filter (emitP (.struct vs))) vs tl g (by omega) hd hnames
    ((List.filter_sublist.map _).nodup hroutes)
    (fun fld hf => ⟨(List.mem_filter.mp hf).1, hfok fld (List.mem_filter.mp hf).1⟩)
    (fun fld hf => hutf fld (List.mem_filter.mp hf).1) hv' (by omega)
    (fun fld hf fv ht => by
      have := hs fld (List.mem_filter.mp hf).1
      simpa [(List.mem_filter.mp hf).2, ht] using this)
    h2 F (by omega)
    (fds.map fun fd => zeroVal ts 63 fd.ty) 0 rest (by simp)
    (fun fld hf i hi => by
      obtain ⟨_, j, fd, hroute, hfd, hty, _⟩ := hfok fld (List.mem_filter.mp hf).1
      rw [hroute] at hi
      cases hi
      rw [List.getElem?_map, hfd, ← hty, ← hz fd.ty]; rfl)
  have e1 : ([(⟨.mapOpen (fields.filter (emitP (.struct vs))).length, tag⟩ : Tok)] ++ (tl ++ [(⟨.mapClose, none⟩ : Tok)])).map rt ++ rest =
      ⟨.mapOpen (-1), none⟩ :: (tl.map rt ++ ⟨.mapClose, none⟩ :: rest) := by simp
  rw [e1, unmBare_structMap, rtJB_structMap, structFold_eq_filter, zeroVal_struct ts hd]
  simp only [hs', URes.shift_ok]
  simp

end Refmt.Obj
