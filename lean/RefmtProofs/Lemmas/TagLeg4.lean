/-
  C12, claim (ii) with tags — the induction over `fullTy`: keyed unions, UNTAGGED transforms (LegRT4.lean with `Hd2T`),
  and the assembly of the bare machines (tagged struct maps and transforms go through `legt_b_tagged`).
  See RefmtProofs/Props/C12Tagged.lean.
-/
import RefmtProofs.Lemmas.TagLeg3
set_option linter.unusedSimpArgs false
set_option linter.unusedVariables false
namespace Refmt.Obj
open Refmt Refmt.C13 Refmt.C11 Refmt.C12 Refmt.C12L

variable {ts : Types} {a : Atlas} {trs : Trs} {it : IfaceTys}

theorem legt_b_union {f} (he : UEnv ts a it) (ih : LEGT ts a trs it f) (p h id : Nat) (m reg : Bool) (ty : Nat) (tag : Option Int)
    (members : List (Bytes × Nat)) (v : Val) (toks : List Tok) (g : Nat) (hp64 : p + 1 ≤ 64)
    (hd : ts.get id = .iface m) (hent : a.get id = some ⟨reg, ty, tag, .union members⟩)
    (hnames : (members.map (·.1)).Nodup) (hmem : ∀ mem ∈ members, MOKF ts a p mem)
    (hv : hasTy ts h id v = true) (hg : f + 1 ≤ g) (hs : fullValB ts a trs it g id (pickBare ts a id) v = true)
    (hm : marshalBare ts a trs (f+1) id (pickBare ts a id) v = ⟨toks, none⟩) :
    LegBT ts a trs it id toks (rtFB ts a trs it g id (pickBare ts a id) v) := by
  obtain ⟨g, rfl⟩ : ∃ g', g = g' + 1 := ⟨g - 1, by omega⟩
  obtain ⟨hpk, hupk⟩ := pick_union hd hent
  rw [hpk] at hm hs ⊢
  rw [fullValB_union] at hs
  rw [marshalBare_union] at hm
  cases h with
  | zero => simp [hasTy] at hv
  | succ h =>
  cases v <;> try (simp [MOut.bad] at hm; done)
  rename_i o
  cases o with
  | none => simp [MOut.bad] at hm
  | some q =>
    obtain ⟨dt, dv⟩ := q
    have hvd : hasTy ts h dt dv = true := by simpa [hasTy, hd] using hv
    simp only at hm hs
    cases hfind : (members.find? fun (x : Bytes × Nat) => (a.pool[x.2]?.map (·.ty)) == some dt) with
    | none => simp only [hfind] at hm; simp [MOut.bad] at hm
    | some q =>
      obtain ⟨nm, idx⟩ := q
      simp only [hfind] at hm hs
      cases hme : a.pool[idx]? with
      | none => simp only [hme] at hm; simp [MOut.bad] at hm
      | some me =>
        simp only [hme] at hm hs
        obtain ⟨hin, hty⟩ := find_member_ty hfind hme
        obtain ⟨me', fs, fds, hme', hk, hds, hmach, humach, hpkd, hupkd, hfull⟩ := member_mach (hmem _ hin)
        simp only at hme'
        rw [hme] at hme'
        cases hme'
        subst hty
        rw [hmach] at hm hs
        obtain ⟨p', rfl⟩ : ∃ p', p = p' + 1 := by
          cases p with
          | zero => simp [fullTy] at hfull
          | succ p' => exact ⟨p', rfl⟩
        have hnpd : ∀ e, ts.get me.ty ≠ .ptr e := by simp [hds]
        cases hinner : marshalBare ts a trs f me.ty (pickBare ts a me.ty) dv with
        | mk ti fi =>
        rw [hinner] at hm
        simp only at hm
        have hfi : fi = none := by
          cases fi with
          | none => rfl
          | some ff =>
            exfalso
            cases ti with
            | nil => simp [MOut.bad] at hm
            | cons t0 r0 =>
              simp only [MOut.seq, MOut.ok] at hm
              simp at hm
        subst hfi
        have hm2 : (MOut.ok [⟨.mapOpen 1, none⟩, ⟨.str nm, none⟩]).seq (fun _ =>
            (MOut.mk ti none).seq fun _ => MOut.ok [⟨.mapClose, none⟩]) = ⟨toks, none⟩ := by
          cases ti <;> simpa using hm
        obtain ⟨t1, t23, h1, h23, rfl⟩ := seq_ok hm2
        obtain ⟨tl, tc, h2, h3, rfl⟩ := seq_ok h23
        simp [MOut.ok] at h1 h2 h3; subst h1 h2 h3
        obtain ⟨u, ti2, N, hgood⟩ := ih.b p' h me.ty dv ti g (by omega) hfull hnpd hvd (by omega) hs hinner
        have hup := UPT_map (trs := trs) he N 1 [(nm, ⟨ti, u, ti2, rtFB ts a trs it g me.ty (pickBare ts a me.ty) dv⟩)]
          (by simp) (by intro q hq; simp at hq; subst hq; exact hgood.1)
        rw [sortI_singleton] at hup
        refine ⟨_, _, _, by simpa using hup, fun F hF rest => ?_⟩
        obtain ⟨F, rfl⟩ : ∃ F', F = F' + 1 := ⟨F - 1, by omega⟩
        have hu := hgood.2 F (by omega) (⟨.mapClose, none⟩ :: rest)
        unfold RdB at hu
        rw [hupkd] at hu
        dsimp only at hu
        have humach' : umachForEntry ts me = .structMap fs := by rw [humach, hupkd]
        rw [hupk, rtFB_union]
        simp only [List.flatMap_cons, List.flatMap_nil, List.append_nil, List.length_cons, List.length_nil, List.cons_append,
          List.append_assoc, List.singleton_append, unmBare_union]
        simp only [hfind, hme, hmach, find?_member_name members hnames nm idx hin, humach', hu]
        simp only [List.nil_append, hu]
        simp [unionClose]

theorem legt_b_transform {f} (htr : TrsEqv trs) (he : UEnv ts a it) (ih : LEGT ts a trs it f) (p h id : Nat)
    (reg : Bool) (ty : Nat)
    (tag : Option Int) (htag : tag = none) (fn mty : Nat) (v : Val) (toks : List Tok) (g : Nat) (hp64 : p + 1 ≤ 64)
    (hb : isBuiltin (ts.get id) = false) (hent : a.get id = some ⟨reg, ty, tag, .transform fn mty mty⟩)
    (hmp : ∀ e, ts.get mty ≠ .ptr e) (hfm : fullTy ts a p mty = true)
    (hg : f + 1 ≤ g) (hs : fullValB ts a trs it g id (pickBare ts a id) v = true)
    (hm : marshalBare ts a trs (f+1) id (pickBare ts a id) v = ⟨toks, none⟩) :
    LegBT ts a trs it id toks (rtFB ts a trs it g id (pickBare ts a id) v) := by
  obtain ⟨g, rfl⟩ : ∃ g', g = g' + 1 := ⟨g - 1, by omega⟩
  obtain ⟨hpk, hupk⟩ := pick_transform hb hent
  subst htag
  rw [hpk] at hm hs ⊢
  rw [fullValB_transform] at hs
  rw [marshalBare_transform] at hm
  cases htm : trs.m fn v with
  | none => simp only [htm] at hm; simp [MOut.bad] at hm
  | some tv =>
    simp only [htm, Bool.and_eq_true] at hm hs
    obtain ⟨⟨hvt, hfv⟩, hsome⟩ := hs
    obtain ⟨toks0, ho, hlen, hcase⟩ := retag_inv hm
    rcases hcase with rfl | ⟨t0, r, gg, htag, -, -⟩
    · obtain ⟨u, tk2, N, hgood⟩ := ih.v p 1000 mty tv toks g (by omega) hfm hvt (by omega) hfv ho
      obtain ⟨b', hb'⟩ := Option.isSome_iff_exists.mp hsome
      obtain ⟨a', ha', -⟩ := htr fn _ _ b' ((rtf_eqv_norm htr he g).1 p mty tv (by omega) hfm hfv) hb'
      refine ⟨u, tk2, N + 2, hgood.1.mono (by omega), fun F hF rest => ?_⟩
      obtain ⟨F, rfl⟩ : ∃ F', F = F' + 2 := ⟨F - 2, by omega⟩
      have hu := hgood.2 (F + 2) (by omega) rest
      obtain ⟨t', r', htk2, -, -⟩ := hgood.1.1.head2
      dsimp only at hu htk2 ⊢
      rw [htk2] at hu ⊢
      rw [List.cons_append, unmV_nonptr ts a trs it hmp] at hu
      rw [hupk, rtFB_transform, List.cons_append, unmBare_transform, hu]
      simp [trPost, htm, ha']
    · cases htag

/-! ### assembly -/

theorem legt_b {f} (hf : f + 1 ≤ 1000) (he : UEnv ts a it) (hz : ZeroStable ts) (htr : TrsEqv trs) (hto : TagsOkA a)
    (hts : TagStab ts a trs) (ih : LEGT ts a trs it f) :
    ∀ p h id v toks g, p + 1 ≤ 64 → fullTy ts a (p + 1) id = true → (∀ e, ts.get id ≠ .ptr e) → hasTy ts h id v = true → f + 1 ≤ g →
      fullValB ts a trs it g id (pickBare ts a id) v = true →
      marshalBare ts a trs (f+1) id (pickBare ts a id) v = ⟨toks, none⟩ →
      LegBT ts a trs it id toks (rtFB ts a trs it g id (pickBare ts a id) v) := by
  intro p h id v toks g hp64 hp hnp hv hg hs hm
  have hR : RBare ts a trs it f id toks (rtFB ts a trs it g id (pickBare ts a id) v) :=
    (rtf_all he hz htr (f+1) hf).b p h id v toks g hp64 hp hnp hv hg hs hm
  have hI : StabTy ts a trs (p + 1) id → IdmB ts a trs it id toks (rtFB ts a trs it g id (pickBare ts a id) v) :=
    fun hst => (idm_all he hz htr hts (f+1) hf).b p h id v toks g hp64 hp hst hnp hv hg hs hm
  cases fullTy_view hp hnp with
  | prim k b hd hn => exact legt_b_prim he h id v toks g hv (Or.inl ⟨k, b, hd⟩) (pick_prim hd hn) hg hm
  | bytes b hd hn => exact legt_b_prim he h id v toks g hv (Or.inr (Or.inl ⟨b, hd⟩)) (pick_bytes hd hn) hg hm
  | byteArr n hd hn => exact legt_b_prim he h id v toks g hv (Or.inr (Or.inr ⟨n, hd⟩)) (pick_byteArr hd hn) hg hm
  | slice e hd hn hpe => exact legt_b_slice he ih p h id e v toks g hp64 hd hn hpe hv hg hs hm
  | arr n e hd hn hpe => exact legt_b_arr he ih p h id n e v toks g hp64 hd hn hpe hv hg hs hm
  | map kt vt bk hd hn hkt hpe => exact legt_b_map he ih p h id kt vt bk v toks g hp64 hd hn hkt hpe hv hg hs hm
  | wild hd hn => exact legt_b_wild he hd hn hR (hI (stabTy_wild hd hn))
  | struct fds reg ty tag fields hd hent hnames hroutes hfok =>
    cases tag with
    | none => exact legt_b_struct he hz ih p h id fds reg ty none rfl fields v toks g hp64 hd hent hnames hroutes hfok hv hg hs hm
    | some tg =>
      refine legt_b_tagged he (hto.get hent rfl) (get_ty hent) hnp ?_ hR
        (hI (stabTy_anti 64 (p + 1) id hp64 (hts.get hent rfl)))
      intro t r htk
      subst htk
      rw [(pick_struct hd hent).1] at hm
      exact (C20.struct_tag_first ts a trs (f+1) id _ fields v t r none hm).1
  | transform reg ty tag fn mty hb hent hmp htb hfm =>
    cases tag with
    | none => exact legt_b_transform htr he ih p h id reg ty none rfl fn mty v toks g hp64 hb hent hmp hfm hg hs hm
    | some tg =>
      refine legt_b_tagged he (hto.get hent rfl) (get_ty hent) hnp ?_ hR
        (hI (stabTy_anti 64 (p + 1) id hp64 (hts.get hent rfl)))
      intro t r htk
      subst htk
      rw [(pick_transform hb hent).1] at hm
      exact C20.transform_tag_first ts a trs (f+1) id fn mty _ tg v t r none rfl hm
  | union m reg ty tag members hd hent hnames hmem =>
    exact legt_b_union he ih p h id m reg ty tag members v toks g hp64 hd hent hnames hmem hv hg hs hm

end Refmt.Obj
