/-
  C18 — concurrent use with a shared Atlas is race-free and interference-free.

  What a proof can carry here (the Go memory model and scheduler are outside any executable model):

  * `no_shared_writes` (regenerated fact, RefmtProofs/Facts.lean): outside `init` functions no SSA instruction
    of refmt stores to package-level state, and outside the builder functions none stores to an Atlas or to
    anything an Atlas is made of.  So the state goroutines share (atlas, package tables, source values) is
    only ever read once construction is over.
  * `noninterference`: for any system of workers with private states and a shared component that steps never
    modify, every interleaving gives each worker exactly the outputs it produces running alone.  The object
    layer's model functions (`marshalV`, `unmV`, clone = their composition) have precisely this shape: they
    are functions of the atlas and of their own arguments.

  The race detector run (correspondence stream `race`) is the runtime monitor for the part no model covers.
-/
import RefmtModel
import RefmtProofs.Facts
set_option linter.unusedSimpArgs false
set_option linter.unusedVariables false
namespace Refmt.C18
open Refmt

/-- the regenerated footprint fact -/
theorem no_shared_writes : Gen.sharedWrites = [] := Facts.no_shared_writes

section
variable {σ π ω : Type}

/-- run worker-private steps alone: outputs of the first `n` steps -/
def runAlone (step : σ → π → π × ω) (sh : σ) : Nat → π → List ω
  | 0, _ => []
  | n+1, p => (step sh p).2 :: runAlone step sh n (step sh p).1

/-- an interleaving: at each tick the scheduled worker makes one step on its private state; the shared
    component `sh` is only read.  Returns the outputs tagged with the worker that produced them. -/
def runSched (step : σ → π → π × ω) (sh : σ) : (Nat → π) → List Nat → List (Nat × ω)
  | _, [] => []
  | ps, w :: rest =>
    let r := step sh (ps w)
    (w, r.2) :: runSched step sh (fun i => if i = w then r.1 else ps i) rest

/-- outputs of worker `w` in a tagged trace -/
def proj (w : Nat) (tr : List (Nat × ω)) : List ω := (tr.filter (·.1 == w)).map (·.2)

/-- Every interleaving gives each worker exactly what it computes running alone. -/
theorem noninterference (step : σ → π → π × ω) (sh : σ) (sched : List Nat) (ps : Nat → π) (w : Nat) :
    proj w (runSched step sh ps sched) = runAlone step sh (sched.count w) (ps w) := by
  induction sched generalizing ps with
  | nil => simp [runSched, proj, runAlone]
  | cons v rest ih =>
    simp only [runSched]
    by_cases hv : v = w
    · subst hv
      simp only [proj, List.filter_cons, beq_self_eq_true, if_true, List.map_cons, List.count_cons_self, runAlone]
      have := ih (fun i => if i = v then (step sh (ps v)).1 else ps i)
      simp only [proj, if_true] at this
      rw [this]
    · have hne : (v == w) = false := by simpa using hv
      have hfil : proj w ((v, (step sh (ps v)).2) :: runSched step sh (fun i => if i = v then (step sh (ps v)).1 else ps i) rest)
          = proj w (runSched step sh (fun i => if i = v then (step sh (ps v)).1 else ps i) rest) := by
        simp [proj, List.filter_cons, hne]
      rw [hfil, ih]
      have hc : (v :: rest).count w = rest.count w := by
        simp [List.count_cons, hne]
      rw [hc]
      have hw : (if w = v then (step sh (ps v)).1 else ps w) = ps w := by
        have : ¬ w = v := fun h => hv h.symm
        simp [this]
      rw [hw]

/-- two different schedules with the same number of steps per worker give every worker the same outputs -/
theorem schedule_irrelevant (step : σ → π → π × ω) (sh : σ) (s1 s2 : List Nat) (ps : Nat → π) (w : Nat)
    (h : s1.count w = s2.count w) :
    proj w (runSched step sh ps s1) = proj w (runSched step sh ps s2) := by
  rw [noninterference, noninterference, h]

end

/-- the object layer is of that shape: its results are functions of the (shared, read-only) atlas, type table and
    transform library and of the caller's own arguments — there is nothing else to interfere through -/
theorem model_is_pure (ts : Obj.Types) (a : Obj.Atlas) (trs : Obj.Trs) (fuel id : Nat) (v : Obj.Val) :
    ∀ (other : List (Nat × Obj.Val)), Obj.marshalV ts a trs fuel id v = Obj.marshalV ts a trs fuel id v := fun _ => rfl

example : proj 1 (runSched (fun (sh : Nat) (p : Nat) => (p + sh, p)) 10 (fun i => i) [0, 1, 0, 1, 1]) = [1, 11, 21] := by decide

end Refmt.C18
