/-
  C15 (continued) — the decoder models ARE clients of the reader interface.

  Props/C15.lean proves that every client program `Prog` built from the three reader operations (one-byte
  read with optional immediate push-back, n-byte read) computes the same result over every legal schedule
  of the scheduled reader as over the one-shot cursor `Rd`.  The decoder models (Model/CborDec.lean,
  Model/JsonDec.lean) are functions on `Rd`; that they use `Rd` only through those operations was true by
  inspection.  Here it is a theorem:

  * `cborProgF coerce N fuel`, `jsonProgF N fuel` : the decoders written as values of `Prog`
        (Lemmas/C15Cbor.lean, Lemmas/C15Json.lean: one continuation-passing mirror per model function).
        A `Prog` cannot see the reader, so it gets no reader state, no `data.length`, only the results of the
        reader operations.  `fuel` is the step budget of `run`.  `N` is the iteration bound of the inner
        loops (CBOR chunk loop; JSON whitespace, string and number scanners), for which the models use
        `rd.data.length + 1` (or `+ 2`).  `Prog` is a well-founded tree, so a single `Prog` value can only
        make boundedly many reads along a path: a bound like `N` is unavoidable; every `N` above the number
        of undelivered bytes gives the model's result.
  * `cbor_is_client`, `json_is_client` : over every cursor `rd` with `rd.data.length < N` — any data, any
        injected fault, pushed-back byte or not — running the program gives exactly the tokens, outcome, step
        count (and allocation) of `CborDec.run` / `JsonDec.run`, for every `fuel`.
  * `cbor_decode_is_client`, `json_decode_is_client` : with `N = n + 1`, `fuel = 2·n + 2` the program
        computes `CborDec.decode` / `JsonDec.decode` on every cursor holding at most `n` bytes.
  * `cbor_sched_eq_cursor`, `json_sched_eq_cursor`, `cbor_schedule_independent`,
    `json_schedule_independent`, `…_decode_…` : hence decoding over the scheduled reader stack
        (`readerToScanner` + `io.ReadAtLeast` over any chunking with any legal number of empty reads, EOF with
        or without data) gives the cursor-based result, the same for any two schedules.

  `Prog` of Props/C15.lean did not have to be extended: the only push-back in the decoders is the number
  scanner's, immediately after the one-byte read that produced the byte, decided by that byte and the scanner
  state — exactly `Prog.read1 unread k`.
-/
import RefmtModel
import RefmtProofs.Props.C15
import RefmtProofs.Lemmas.Bounds
import RefmtProofs.Lemmas.C15Base
import RefmtProofs.Lemmas.C15Cbor
import RefmtProofs.Lemmas.C15Json
set_option linter.unusedSimpArgs false
set_option linter.unusedVariables false
namespace Refmt.C15Prog
open Refmt Refmt.C15 Refmt.Sched

/-! ### CBOR -/

/-- what the client gets out of a CBOR decode: tokens, outcome, steps, allocation (`RunOut` minus the reader) -/
abbrev CborRes := List Tok × Except Err Unit × Nat × Nat

def cborProj (r : CborDec.RunOut) : CborRes := (r.toks, r.res, r.steps, r.alloc)

/-- The CBOR decoder as a client program: inner loops bounded by `N`, at most `fuel` steps. -/
def cborProgF (coerce : Bool) (N fuel : Nat) : Prog CborRes := Cbor.runP coerce N fuel CborDec.init [] 0 0

/-- The CBOR decoder for inputs of at most `n` bytes. -/
def cborProg (coerce : Bool) (n : Nat) : Prog CborRes := cborProgF coerce (n + 1) (2 * n + 2)

/-- The CBOR decoder model is a client of the reader interface: for every step budget, over every cursor
    (any fault, any push-back state) with fewer than `N` undelivered bytes. -/
theorem cbor_is_client (coerce : Bool) (N fuel : Nat) (rd : Rd) (hN : rd.data.length < N) :
    runCursor (cborProgF coerce N fuel) rd = some (cborProj (CborDec.run coerce fuel CborDec.init rd [] 0 0)) :=
  Cbor.runP_spec coerce N fuel CborDec.init rd [] 0 0 hN

/-- … from any decoder state and accumulated output, too -/
theorem cbor_run_is_client (coerce : Bool) (N fuel : Nat) (s : CborDec.St) (rd : Rd) (acc : List Tok) (steps alloc : Nat)
    (hN : rd.data.length < N) :
    runCursor (Cbor.runP coerce N fuel s acc steps alloc) rd = some (cborProj (CborDec.run coerce fuel s rd acc steps alloc)) :=
  Cbor.runP_spec coerce N fuel s rd acc steps alloc hN

theorem cbor_decode_is_client (coerce : Bool) (n : Nat) (rd : Rd) (hn : rd.data.length ≤ n) :
    runCursor (cborProg coerce n) rd = some (cborProj (CborDec.decode coerce rd)) := by
  unfold cborProg
  rw [cbor_is_client coerce (n + 1) (2 * n + 2) rd (by omega)]
  unfold CborDec.decode
  obtain ⟨k, hk⟩ : ∃ k, 2 * n + 2 = (2 * rd.data.length + 2) + k := ⟨2 * n + 2 - (2 * rd.data.length + 2), by omega⟩
  rw [hk, C06.Cbor.run_fuel coerce k _ _ _ _ _ _ (by simp [CborDec.init])]

theorem ofSrc_legal (data : Bytes) (c : List Nat) (e : Bool) (hc : maxZeroRun c 0 ≤ maxEmpty) :
    Legal (Sc.ofSrc ⟨data, c, e⟩) :=
  ⟨hc, by simp [Sc.ofSrc], by simp [Sc.ofSrc]⟩

theorem ofSrc_abs (data : Bytes) (c : List Nat) (e : Bool) : (Sc.ofSrc ⟨data, c, e⟩).abs = Rd.ofBytes data := rfl

/-- Decoding CBOR over the scheduled reader stack = decoding over the cursor, for every data, every legal
    schedule, both coercion flags, every step budget. -/
theorem cbor_sched_eq_cursor (coerce : Bool) (data : Bytes) (c : List Nat) (e : Bool) (N fuel : Nat)
    (hN : data.length < N) (hc : maxZeroRun c 0 ≤ maxEmpty) :
    runSched (cborProgF coerce N fuel) (Sc.ofSrc ⟨data, c, e⟩) =
      some (cborProj (CborDec.run coerce fuel CborDec.init (Rd.ofBytes data) [] 0 0)) := by
  rw [client_independent _ _ (ofSrc_legal data c e hc), ofSrc_abs]
  exact cbor_is_client coerce N fuel (Rd.ofBytes data) hN

theorem cbor_schedule_independent (coerce : Bool) (data : Bytes) (c1 c2 : List Nat) (e1 e2 : Bool) (N fuel : Nat)
    (hN : data.length < N) (h1 : maxZeroRun c1 0 ≤ maxEmpty) (h2 : maxZeroRun c2 0 ≤ maxEmpty) :
    runSched (cborProgF coerce N fuel) (Sc.ofSrc ⟨data, c1, e1⟩) =
      runSched (cborProgF coerce N fuel) (Sc.ofSrc ⟨data, c2, e2⟩) := by
  rw [cbor_sched_eq_cursor coerce data c1 e1 N fuel hN h1, cbor_sched_eq_cursor coerce data c2 e2 N fuel hN h2]

/-- `CborDec.decode` over any legal schedule -/
theorem cbor_decode_sched_eq_cursor (coerce : Bool) (data : Bytes) (c : List Nat) (e : Bool) (n : Nat)
    (hn : data.length ≤ n) (hc : maxZeroRun c 0 ≤ maxEmpty) :
    runSched (cborProg coerce n) (Sc.ofSrc ⟨data, c, e⟩) = some (cborProj (CborDec.decode coerce (Rd.ofBytes data))) := by
  rw [client_independent _ _ (ofSrc_legal data c e hc), ofSrc_abs]
  exact cbor_decode_is_client coerce n (Rd.ofBytes data) hn

theorem cbor_decode_schedule_independent (coerce : Bool) (data : Bytes) (c1 c2 : List Nat) (e1 e2 : Bool) (n : Nat)
    (hn : data.length ≤ n) (h1 : maxZeroRun c1 0 ≤ maxEmpty) (h2 : maxZeroRun c2 0 ≤ maxEmpty) :
    runSched (cborProg coerce n) (Sc.ofSrc ⟨data, c1, e1⟩) = runSched (cborProg coerce n) (Sc.ofSrc ⟨data, c2, e2⟩) := by
  rw [cbor_decode_sched_eq_cursor coerce data c1 e1 n hn h1, cbor_decode_sched_eq_cursor coerce data c2 e2 n hn h2]

/-! ### JSON -/

/-- what the client gets out of a JSON decode: tokens, outcome, steps -/
abbrev JsonRes := List Tok × Except Err Unit × Nat

def jsonProj (r : JsonDec.RunOut) : JsonRes := (r.toks, r.res, r.steps)

/-- The JSON decoder as a client program: inner loops bounded by `N`, at most `fuel` steps. -/
def jsonProgF (N fuel : Nat) : Prog JsonRes := Json.runP N fuel JsonDec.init [] 0

/-- The JSON decoder for inputs of at most `n` bytes. -/
def jsonProg (n : Nat) : Prog JsonRes := jsonProgF (n + 1) (2 * n + 2)

/-- The JSON decoder model is a client of the reader interface. -/
theorem json_is_client (N fuel : Nat) (rd : Rd) (hN : rd.data.length < N) :
    runCursor (jsonProgF N fuel) rd = some (jsonProj (JsonDec.run fuel JsonDec.init rd [] 0)) :=
  Json.runP_spec N fuel JsonDec.init rd [] 0 hN

theorem json_run_is_client (N fuel : Nat) (s : JsonDec.St) (rd : Rd) (acc : List Tok) (steps : Nat)
    (hN : rd.data.length < N) :
    runCursor (Json.runP N fuel s acc steps) rd = some (jsonProj (JsonDec.run fuel s rd acc steps)) :=
  Json.runP_spec N fuel s rd acc steps hN

theorem json_decode_is_client (n : Nat) (rd : Rd) (hn : rd.data.length ≤ n) :
    runCursor (jsonProg n) rd = some (jsonProj (JsonDec.decode rd)) := by
  unfold jsonProg
  rw [json_is_client (n + 1) (2 * n + 2) rd (by omega)]
  unfold JsonDec.decode
  obtain ⟨k, hk⟩ : ∃ k, 2 * n + 2 = (2 * rd.data.length + 2) + k := ⟨2 * n + 2 - (2 * rd.data.length + 2), by omega⟩
  rw [hk, C06.Json.run_fuel k _ _ _ _ _ (by omega)]

theorem json_sched_eq_cursor (data : Bytes) (c : List Nat) (e : Bool) (N fuel : Nat)
    (hN : data.length < N) (hc : maxZeroRun c 0 ≤ maxEmpty) :
    runSched (jsonProgF N fuel) (Sc.ofSrc ⟨data, c, e⟩) =
      some (jsonProj (JsonDec.run fuel JsonDec.init (Rd.ofBytes data) [] 0)) := by
  rw [client_independent _ _ (ofSrc_legal data c e hc), ofSrc_abs]
  exact json_is_client N fuel (Rd.ofBytes data) hN

theorem json_schedule_independent (data : Bytes) (c1 c2 : List Nat) (e1 e2 : Bool) (N fuel : Nat)
    (hN : data.length < N) (h1 : maxZeroRun c1 0 ≤ maxEmpty) (h2 : maxZeroRun c2 0 ≤ maxEmpty) :
    runSched (jsonProgF N fuel) (Sc.ofSrc ⟨data, c1, e1⟩) = runSched (jsonProgF N fuel) (Sc.ofSrc ⟨data, c2, e2⟩) := by
  rw [json_sched_eq_cursor data c1 e1 N fuel hN h1, json_sched_eq_cursor data c2 e2 N fuel hN h2]

theorem json_decode_sched_eq_cursor (data : Bytes) (c : List Nat) (e : Bool) (n : Nat)
    (hn : data.length ≤ n) (hc : maxZeroRun c 0 ≤ maxEmpty) :
    runSched (jsonProg n) (Sc.ofSrc ⟨data, c, e⟩) = some (jsonProj (JsonDec.decode (Rd.ofBytes data))) := by
  rw [client_independent _ _ (ofSrc_legal data c e hc), ofSrc_abs]
  exact json_decode_is_client n (Rd.ofBytes data) hn

theorem json_decode_schedule_independent (data : Bytes) (c1 c2 : List Nat) (e1 e2 : Bool) (n : Nat)
    (hn : data.length ≤ n) (h1 : maxZeroRun c1 0 ≤ maxEmpty) (h2 : maxZeroRun c2 0 ≤ maxEmpty) :
    runSched (jsonProg n) (Sc.ofSrc ⟨data, c1, e1⟩) = runSched (jsonProg n) (Sc.ofSrc ⟨data, c2, e2⟩) := by
  rw [json_decode_sched_eq_cursor data c1 e1 n hn h1, json_decode_sched_eq_cursor data c2 e2 n hn h2]

/-! ### Non-vacuity: the programs really run over the scheduled reader -/

/-- CBOR `[1, "a"]` delivered as: empty read, 1 byte, two empty reads, 2 bytes, 1 byte + EOF -/
example : runSched (cborProgF false 100 100) (Sc.ofSrc ⟨[0x82, 0x01, 0x61, 0x61], [0, 1, 0, 0, 2, 1], true⟩) =
    some ([⟨.arrOpen 2, none⟩, ⟨.uint 1, none⟩, ⟨.str [0x61], none⟩, ⟨.arrClose, none⟩], .ok (), 4, 1) := by
  rfl

/-- JSON `[12]`: the number scanner reads `]`, pushes it back, the array step reads it again -/
example : runSched (jsonProgF 100 100) (Sc.ofSrc ⟨[91, 49, 50, 93], [0, 1, 0, 0, 2, 1], true⟩) =
    some ([⟨.arrOpen (-1), none⟩, ⟨.int 12, none⟩, ⟨.arrClose, none⟩], .ok (), 3) := by
  rfl

/-- tag 1 on an indefinite string of chunks "a", "b": the tag recursion and the chunk loop -/
example : runSched (cborProgF false 100 100)
      (Sc.ofSrc ⟨[0xc1, 0x7f, 0x61, 0x61, 0x61, 0x62, 0xff], [0, 0, 3, 0, 1, 0, 5], false⟩) =
    some ([⟨.str [0x61, 0x62], some 1⟩], .ok (), 1, 18) := by
  rfl

/-- `undefined` under both coercion flags -/
example : runSched (cborProgF true 100 100) (Sc.ofSrc ⟨[0xf7], [0, 0, 3], false⟩) = some ([⟨.null, none⟩], .ok (), 1, 0) := by
  rfl
example : runSched (cborProgF false 100 100) (Sc.ofSrc ⟨[0xf7], [0, 0, 3], false⟩) = some ([], .error .syntax, 1, 0) := by
  rfl

/-- truncated two-byte argument, the last byte delivered together with EOF -/
example : runSched (cborProgF false 100 100) (Sc.ofSrc ⟨[0x82, 0x19, 0x01], [1, 0, 1, 0, 1], true⟩) =
    some ([⟨.arrOpen 2, none⟩], .error .unexpectedEof, 2, 0) := by
  rfl

/-- JSON `{"a":-3,"b":[true]}`: push-back of `,`, then keys, a literal (`readN`), nested closes -/
example : runSched (jsonProgF 100 100)
      (Sc.ofSrc ⟨[123, 34, 97, 34, 58, 45, 51, 44, 34, 98, 34, 58, 91, 116, 114, 117, 101, 93, 125],
        [0, 1, 0, 0, 2, 1, 0, 3, 7], true⟩) =
    some ([⟨.mapOpen (-1), none⟩, ⟨.str [97], none⟩, ⟨.int (-3), none⟩, ⟨.str [98], none⟩, ⟨.arrOpen (-1), none⟩,
      ⟨.bool true, none⟩, ⟨.arrClose, none⟩, ⟨.mapClose, none⟩], .ok (), 8) := by
  rfl

/-- JSON ` 12` ended by EOF (no push-back) and a truncated literal -/
example : runSched (jsonProgF 100 100) (Sc.ofSrc ⟨[32, 49, 50], [0, 1, 0, 0, 1, 0, 1], false⟩) =
    some ([⟨.int 12, none⟩], .ok (), 1) := by
  rfl
example : runSched (jsonProgF 100 100) (Sc.ofSrc ⟨[91, 116, 114, 117], [0, 1, 0, 0, 1, 0, 1], false⟩) =
    some ([⟨.arrOpen (-1), none⟩], .error .unexpectedEof, 2) := by
  rfl

end Refmt.C15Prog
