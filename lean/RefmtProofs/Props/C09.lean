/-
  C09 — unmarshalling never silently changes a number.

  `storePrim` is the model of the primitive unmarshal machine (one token into a scalar
  target of a given kind); `unmWild` the untyped slot.  For every integer token and every
  integer kind: the store either fails or the stored value is exactly the token's
  mathematical value and lies in the kind's range; it succeeds whenever the value fits;
  floats never go into integer targets; float64 targets take floats bit-exactly.
-/
import RefmtModel
set_option linter.unusedSimpArgs false
set_option linter.unusedVariables false
namespace Refmt.C09
open Refmt Refmt.Obj

/-- mathematical value of an integer token (signed or unsigned spelling) -/
def tokInt (t : Tok) : Option Int :=
  match t.body with
  | .int i => some i
  | .uint n => some (n : Int)
  | _ => none

/-- mathematical value of a stored integer -/
def valInt : Val → Option Int
  | .int i => some i
  | .uint n => some (n : Int)
  | _ => none

def isIntKind : Kind → Bool
  | .int | .int8 | .int16 | .int32 | .int64 | .uint | .uint8 | .uint16 | .uint32 | .uint64 | .uintptr => true
  | _ => false

/-- the mathematical range of each integer kind (64-bit platform) -/
def kindRange : Kind → Int × Int
  | .int8 => (-128, 127)
  | .int16 => (-32768, 32767)
  | .int32 => (-2147483648, 2147483647)
  | .int64 => (-9223372036854775808, 9223372036854775807)
  | .int => (-9223372036854775808, 9223372036854775807)
  | .uint8 => (0, 255)
  | .uint16 => (0, 65535)
  | .uint32 => (0, 4294967295)
  | .uint64 => (0, 18446744073709551615)
  | .uint => (0, 18446744073709551615)
  | .uintptr => (0, 18446744073709551615)
  | _ => (0, 0)

/-- Whatever is stored is exactly the serialized number, and it fits the target kind. -/
theorem store_exact (k : Kind) (b : Bool) (t : Tok) (v : Val) (x : Int) (hk : isIntKind k = true)
    (ht : tokInt t = some x) (h : storePrim (.prim k b) t = some v) :
    valInt v = some x ∧ (kindRange k).1 ≤ x ∧ x ≤ (kindRange k).2 := by
  obtain ⟨body, tag⟩ := t
  cases body <;> simp [tokInt] at ht <;> subst ht <;>
    cases k <;> simp [isIntKind] at hk <;>
    simp [storePrim, intRange, uintMax, two63, two64] at h <;>
    (obtain ⟨hc, rfl⟩ := h) <;> simp [valInt, kindRange] <;> omega

/-- Values that do not fit are errors: never wrapped, truncated or sign-flipped. -/
theorem store_rejects_unfit (k : Kind) (b : Bool) (t : Tok) (x : Int) (hk : isIntKind k = true)
    (ht : tokInt t = some x) (hr : x < (kindRange k).1 ∨ (kindRange k).2 < x) :
    storePrim (.prim k b) t = none := by
  obtain ⟨body, tag⟩ := t
  cases body <;> simp [tokInt] at ht <;> subst ht <;>
    cases k <;> simp [isIntKind] at hk <;>
    simp [kindRange] at hr <;>
    simp [storePrim, intRange, uintMax, two63, two64] <;> omega

/-- …and values that fit are accepted, in either token spelling. -/
theorem store_accepts_fit (k : Kind) (b : Bool) (t : Tok) (x : Int) (hk : isIntKind k = true)
    (ht : tokInt t = some x) (hr : (kindRange k).1 ≤ x ∧ x ≤ (kindRange k).2) :
    ∃ v, storePrim (.prim k b) t = some v := by
  obtain ⟨body, tag⟩ := t
  cases body <;> simp [tokInt] at ht <;> subst ht <;>
    cases k <;> simp [isIntKind] at hk <;>
    simp [kindRange] at hr <;>
    simp [storePrim, intRange, uintMax, two63, two64] <;> omega

/-- Floats are never accepted into integer targets. -/
theorem float_not_into_int (k : Kind) (b : Bool) (bits : Nat) (tag : Option Int) (hk : isIntKind k = true) :
    storePrim (.prim k b) ⟨.float bits, tag⟩ = none := by
  cases k <;> simp [isIntKind] at hk <;> simp [storePrim]

/-- float64 targets take float tokens bit-exactly; float32 targets by rounding (the model's `narrowF32`). -/
theorem float_into_float (b : Bool) (bits : Nat) (tag : Option Int) :
    storePrim (.prim .f64 b) ⟨.float bits, tag⟩ = some (.float bits) ∧
    storePrim (.prim .f32 b) ⟨.float bits, tag⟩ = some (.float (FloatText.narrowF32 bits)) := by
  constructor <;> simp [storePrim]

/-- An untyped slot receives exactly the serialized integer (as `int`, or `uint64` above MaxInt64). -/
theorem untyped_exact (ts : Types) (a : Atlas) (trs : Trs) (it : IfaceTys) (fuel : Nat) (t : Tok) (rest : List Tok) (x : Int)
    (ht : tokInt t = some x) (hr : -9223372036854775808 ≤ x ∧ x ≤ 18446744073709551615) (htag : t.tag = none) :
    ∃ dt v, unmWild ts a trs it (fuel + 1) false t rest = .ok (.iface (some (dt, v))) rest 1 ∧ valInt v = some x := by
  obtain ⟨body, tag⟩ := t
  simp at htag
  subst htag
  cases body <;> simp [tokInt] at ht <;> subst ht
  · rename_i i
    exact ⟨it.int, .int i, by simp [unmWild], by simp [valInt]⟩
  · rename_i n
    by_cases hn : n < two63
    · exact ⟨it.int, .int n, by simp [unmWild, hn], by simp [valInt]⟩
    · exact ⟨it.uint64, .uint n, by simp [unmWild, hn], by simp [valInt]⟩

example : (storePrim (.prim .int8 true) ⟨.int 300, none⟩).isNone = true := by decide
example : (storePrim (.prim .uint16 false) ⟨.int 65535, none⟩).isSome = true := by decide

end Refmt.C09
